# C08, part "gsmtime": the GSM-time one-shot event scheduler (layer1/sched_gsmtime.c) on top of the TDMA scheduler.
# Hooked into props/C08.py (gen / correspond / search / replay dispatch on witness["part"] == "gsmtime").
#
# Model: lean/OsmoVerif/Model/SchedGsmtime.lean   theorems: lean/OsmoVerif/Props/C08Gsmtime.lean
# Tie:   harness/c/c08_gsmtime_harness.c = the unchanged sched_gsmtime.c + tdma_sched.c on the host, same line protocol as
#        lean/OsmoVerif/Driver/SchedGsmtime.lean (verb sg.run)
# Oracle: an independent Python reference of the PROPERTY (not of the code) judges what the real code did.
import json, os, re
from lib import vf, cbuild
from gen import sched_gsmtime

LEAN_MODULES = ["OsmoVerif.Props.C08Gsmtime"]
DRIVER_MODULES = ["SchedGsmtime"]
LEAN_MODEL_MODULES = ["OsmoVerif.Model.SchedGsmtime", "OsmoVerif.Lemmas.SchedGsmtime", "OsmoVerif.Lemmas.SchedGsmtimeTdma"]
ASSUMPTIONS = [
    "gsmtime part: theorems are about OsmoVerif.Model.SchedGsmtime: hand model, statement by statement, of sched_gsmtime_init, sched_gsmtime, sched_gsmtime_execute (both ifs of the loop body, the break), sched_gsmtime_reset; the llist_head lists are Lean lists of the linked event structures, the 16-element pool with its explicit -EBUSY outcome, uint32_t fn / uint16_t p3 / fn_sched = (fn + SCHEDULE_AHEAD) % GSM_MAX_FN with the sum in unsigned 32 bit; the pointer si is the constant item set it points to; tdma_schedule_set is the function of Model/TdmaSched.lean (not a copy)",
    "gsmtime part: the statements about sched_gsmtime.c alone hold for every callback environment; frames_safe assumes EnvOk (calls made from inside tdma_sched_execute are admissible); the composed statements event_set_runs_at / event_set_runs_in_frame assume NoReentry (callbacks make no scheduler calls from inside) as an explicit hypothesis; the callbacks of harness/c/c08_gsmtime_harness.c make none",
    "gsmtime part: the frame interrupt is modelled as sync.c runs it (l1Sync: traffic; tdma_sched_execute(); traffic (mframe_schedule); sched_gsmtime_execute(current_time.fn); tdma_sched_advance()); sched_gsmtime() is not re-entered from inside sched_gsmtime_execute (callers mask the frame interrupt: local_firq_save in prim_rach.c / prim_freq.c); sched_gsmtime_init() runs once on the link-time state of the lists",
    "gsmtime part: tied to the current tree by differential execution of the unchanged sched_gsmtime.c + tdma_sched.c (host build; the call to tdma_schedule_set goes through a recording wrapper of the harness; every history in a fresh process image) on structured random and boundary histories: pool exhaustion, equal fn's, out-of-order insertion (every sequence over 3 frame numbers up to length 4), too-close and past frames, resets, long runs, the hyperframe wrap and the uint32_t wrap; ARRAY_SIZE(sched_gsmtime_events), SCHEDULE_AHEAD, SCHEDULE_LATENCY, EBUSY, GSM_MAX_FN and the field widths are regenerated from the compiler's view of the file on every run and used by the theorems (gen_consts)",
]

MANIFEST_TEXT = (" || gsmtime part (sched_gsmtime.c, Props/C08Gsmtime.lean): pool_invariant (active ++ inactive a permutation of the 16 slots, active "
                 "sorted by fn; preserved by every operation and history), busy_iff (-EBUSY exactly when 16 events are pending, state unchanged), sched_accepts "
                 "(requests for one frame keep their order), execute_fires_exactly / due_event_fires / other_event_stays (one sched_gsmtime_execute hands over "
                 "exactly the events with fn == fn_sched = (fn+2) mod GSM_MAX_FN, once each, in order; the break never cuts off a due event; stale events block nothing), "
                 "fires_at_first_hit / fires_exactly_once / accepted_fires_exactly_once (exactly one tdma_schedule_set(1, si, p3) call, in frame (F-2) mod GSM_MAX_FN), "
                 "stale_never_fires, stale_fires_next_hyperframe, out_of_range_never_fires, wrap_full (exactly once in frame (F-2) mod GSM_MAX_FN for every F < GSM_MAX_FN, "
                 "across the hyperframe wrap as well; repo fix F21), reset_frees_all / nothing_fires_after_reset, frames_safe, event_set_runs_at / "
                 "event_set_runs_in_frame (composition with the TDMA scheduler: the k-th frame of the event's item set runs exactly once, in frame F-1+k, "
                 "unless the ignored tdma_schedule_set result was -1), frame_is_history")
MANIFEST_NOTE = (" || gsmtime part: trusted additionally gen/sched_gsmtime.py, harness/c/c08_gsmtime_harness.c (recording wrapper around tdma_schedule_set, "
                 "fork per history); assumed: sched_gsmtime() is not re-entered from sched_gsmtime_execute(), sched_gsmtime_init() runs once, the item set an "
                 "event points to is constant and SCHED_END_SET()-terminated; EBUSY is the host's errno value (16, as in newlib); the witnesses of the "
                 "hyperframe-wrap defect repaired by repo fix F21 (events for frames 0 and 1 never handed over) stay in the fixed corpus of the oracle")

NF = 25               # TDMA scheduler depth (property C08)
NSLOTS = 16           # event pool the property speaks about
AHEAD = 2             # an event for frame F is handed to the TDMA scheduler in frame F - 2 ...
LATENCY = 1           # ... with frame offset 1: its first frame runs in frame F - 1
EBUSY = 16
MAX_FN = 2715648      # GSM hyperframe (26 * 51 * 2048)
U32 = 1 << 32
FW_FLAGS = ["-Dputs=fw_puts", "-Dprintf=fw_printf", "-Dputchar=fw_putchar"]
OK_CBS = list(range(0, 8))

def gen(run):
    run.sg_consts = sched_gsmtime.generate(run)


def build_harness(run, san=False):
    """the real sched_gsmtime.c + tdma_sched.c + harness; san=True: both instrumented with ASan/UBSan"""
    attr = "c08g_exe_san" if san else "c08g_exe"
    if getattr(run, attr, None):
        return getattr(run, attr)
    sf = ["-fsanitize=address,undefined", "-fno-sanitize-recover=all"] if san else []
    suffix = "_san" if san else ""
    from props import C08 as c08
    ts = cbuild.firmware_objs_for(run, "layer1/tdma_sched.c", c08.TDMA_FUNCS, "g_tdma_sched" + suffix, extra_flags=FW_FLAGS + sf)
    sg = cbuild.firmware_objs_for(run, "layer1/sched_gsmtime.c", ["sched_gsmtime", "sched_gsmtime_execute", "sched_gsmtime_init", "sched_gsmtime_reset"],
                                  "g_sched_gsmtime" + suffix, extra_flags=FW_FLAGS + sf + ["-Dtdma_schedule_set=c08g_tdma_schedule_set"])
    h = cbuild.obj(run, os.path.join(vf.ROOT, "harness/c/c08_gsmtime_harness.c"), "c08_gsmtime_harness" + suffix,
                   flags=["-DHOST_BUILD"], includes=[cbuild.SHIM, cbuild.LIBOSMO_INC, cbuild.TOP_INC],
                   idirafter=[cbuild.FW_INC])
    if san:
        exe = cbuild.link(run, [h] + sg + ts, "c08_gsmtime_harness_san.bin", flags=sf)
    else:
        exe = cbuild.link(run, [h] + sg + ts, "c08_gsmtime_harness.bin", ignore_unresolved=True)
    setattr(run, attr, exe)
    return exe


def run_hist(exe, lines):
    """a crashing history is answered `crash …` by the harness itself (every history runs in a forked child)"""
    env = {"ASAN_OPTIONS": "detect_leaks=0", "UBSAN_OPTIONS": "print_stacktrace=0"}
    return vf.run_lines([exe], lines, env=env)


# ------------------------------------------------------------------------------------------
# histories: cur + list of ops
#   ("gs", fn, p3, [elem...])   elem = ("i", cb, p1, p2, prio, flags) | "F" | "E"
#   ("gx", fn)  ("gz",)
#   ("sched", off, cb, p1, p2, p3, prio)  ("set", off, p3, [elem...])  ("exec",) ("adv",) ("reset",) ("flags",) ("dump",)

def elems_str(el):
    return " ".join(e if isinstance(e, str) else "i %d %d %d %d %d" % e[1:] for e in el)


def op_str(op):
    if op[0] == "gs":
        return "gs %d %d %s" % (op[1], op[2], elems_str(op[3]))
    if op[0] == "gx":
        return "gx %d" % op[1]
    if op[0] == "sched":
        return "sched %s %s %d %d %d %d" % (op[1], op[2], op[3], op[4], op[5], op[6])
    if op[0] == "set":
        return "set %d %d %s" % (op[1], op[2], elems_str(op[3]))
    return op[0]


def to_line(cur, ops):
    return "sg.run %d " % cur + " ; ".join(op_str(o) for o in ops)


def parse_elems(c):
    el, i = [], 0
    while i < len(c):
        if c[i] in ("F", "E"):
            el.append(c[i]); i += 1
        else:
            el.append(("i",) + tuple(int(v) for v in c[i + 1:i + 6])); i += 6
    return el


def parse_line(line):
    t = line.split()
    cur = int(t[1])
    cmds, curc = [], []
    for x in t[2:]:
        if x == ";":
            cmds.append(curc)
            curc = []
        else:
            curc.append(x)
    cmds.append(curc)
    ops = []
    for c in cmds:
        if c[0] == "gs":
            ops.append(("gs", int(c[1]), int(c[2]), parse_elems(c[3:])))
        elif c[0] == "gx":
            ops.append(("gx", int(c[1])))
        elif c[0] == "sched":
            ops.append(("sched", int(c[1]), c[2] if c[2] == "E" else int(c[2]), int(c[3]), int(c[4]), int(c[5]), int(c[6])))
        elif c[0] == "set":
            ops.append(("set", int(c[1]), int(c[2]), parse_elems(c[3:])))
        else:
            ops.append((c[0],))
    return cur, ops


def parse_answer(ans):
    """tokens -> per-op observation"""
    res = []
    for tok in ans.split():
        k = tok[0]
        if k == "r":
            res.append(("r", int(tok[1:])))
        elif k == "x":
            parts = tok[1:].split(":")
            res.append(("x", int(parts[0]), [tuple(int(v) for v in p.split(",")) for p in parts[1:]]))
        elif k == "g":
            parts = tok[1:].split(":")
            calls = []
            for p in parts[1:]:
                off, p3, rc, st = p.split(",", 3)
                calls.append((int(off), int(p3), int(rc), st))
            res.append(("g", int(parts[0]), calls))
        elif k == "d":
            res.append(("d", [int(v) for v in tok[1:].split(",")]))
        elif k == "f":
            res.append(("f", int(tok[1:])))
        else:
            res.append((k,))
    return res


def render_set(el):
    """the item set as the recording wrapper prints it: elements up to and including the first END_SET"""
    out = []
    for e in el:
        if e == "E":
            out.append("E")
            break
        out.append("F" if e == "F" else "i%d.%d.%d.0.%d.%d" % (e[1], e[2] % 256, e[3] % 256, e[4], e[5]))
    return "/".join(out)


# ------------------------------------------------------------------------------------------
# generators (all randomness from run.rng)

class Gen:
    def __init__(self, rng):
        self.rng = rng
        self.serial = 0

    def uniq(self):
        # unique (p1, p2) per item of a history, so that a callback invocation identifies its item
        self.serial += 1
        return (self.serial // 256) % 256, self.serial % 256

    def elems(self, frames, per_frame, cbs=OK_CBS, tail=False):
        r = self.rng
        el = []
        for k in range(frames):
            if k:
                el.append("F")
            for _ in range(r.choice(per_frame)):
                p1, p2 = self.uniq()
                el.append(("i", r.choice(cbs), p1, p2, r.choice([-3, -1, 0, 0, 1, 2, 7, -32768, 32767]), r.choice([0, 0, 1, 2])))
        el.append("E")
        if tail:
            p1, p2 = self.uniq()
            el += [("i", r.choice(cbs), p1, p2, 0, 0), "F", "E"]
        return el

    def gs(self, F, big=False):
        r = self.rng
        frames = r.choice([1, 1, 1, 2, 3]) if not big else r.choice([1, 2])
        per = [0, 1, 1, 2] if not big else [3, 4, 8, 9]
        return ("gs", F, r.choice([0, 0, 1, 77, 65535, r.randrange(0, 65536)]), self.elems(frames, per, tail=r.random() < 0.1))

    def sched(self, off):
        p1, p2 = self.uniq()
        return ("sched", off, self.rng.choice(OK_CBS), p1, p2, self.rng.randrange(0, 65536), self.rng.choice([-2, 0, 0, 1, 5]))

    def fn0(self, wrap_bias=0.35):
        r = self.rng
        c = r.random()
        if c < wrap_bias:
            return MAX_FN - r.choice([1, 2, 3, 4, 5, 6, 10, 26, 30])
        if c < wrap_bias + 0.15:
            return r.choice([0, 1, 2, 3])
        return r.randrange(0, MAX_FN - 200)

    # -- frames as sync.c runs them: traffic ; tdma_sched_execute ; traffic ; sched_gsmtime_execute(fn) ; tdma_sched_advance
    def frames(self, nframes, mode="mod", resets=False, load=(0, 0, 0, 1, 1, 2), burst=0.05, tdma=0.3, late=0.15, fn0=None):
        r = self.rng
        self.serial = r.randrange(0, 30000)
        cur = r.randrange(0, NF)
        mod = MAX_FN if mode == "mod" else U32
        fn = self.fn0() if fn0 is None else fn0
        ops = []
        hot = None            # a frame number that gets crowded (equal fn's, bucket overflow)
        for f in range(nframes + 30):
            flush = f >= nframes
            # between the interrupts: requests from layer 23 (the next sched_gsmtime_execute is for `fn`)
            if not flush:
                for _ in range(r.choice(load)):
                    if hot is None or hot - fn > 20 or hot < fn:
                        hot = fn + r.choice([2, 3, 5, 9, 20])
                    if r.random() < late:
                        d = r.choice([0, 1, -1, -3])        # too close / already past
                    elif r.random() < 0.4:
                        d = hot - fn
                    else:
                        d = r.choice([2, 2, 3, 3, 4, 5, 8, 13, 23, 24, 30, 60])
                    ops.append(self.gs((fn + d) % mod, big=r.random() < 0.04))
                if r.random() < burst:
                    d = r.choice([2, 3, 6, 40])
                    spread = r.choice([1, 3, 3, 8])
                    for k in range(r.choice([NSLOTS - 1, NSLOTS, NSLOTS + 1, NSLOTS + 3])):
                        ops.append(self.gs((fn + d + k % spread) % mod))
                if r.random() < tdma:
                    ops.append(self.sched(r.choice([0, 1, 2, 5, 24])))
                if resets and r.random() < 0.04:
                    # l1s_reset(): sched_gsmtime_reset(); mframe_reset(); tdma_sched_reset();   or L1CTL_RES_T_SCHED: gsmtime only
                    ops.append(("gz",))
                    if r.random() < 0.6:
                        ops.append(("reset",))
            if r.random() < 0.1:
                ops.append(("dump",))
            ops.append(("exec",))
            if not flush and r.random() < tdma:
                ops.append(self.sched(r.choice([1, 2, 3, 12, 24])))
            ops.append(("gx", fn))
            ops.append(("adv",))
            fn = (fn + 1) % mod
        ops.append(("dump",))
        return cur, ops

    # -- anything goes (correspondence only)
    def soup(self, n):
        r = self.rng
        self.serial = r.randrange(0, 60000)
        cur = r.randrange(0, NF)
        base = r.choice([0, 5, 1000, MAX_FN - 3, U32 - 4, U32 - 1, r.randrange(0, U32)])
        pool = [base + k for k in range(-3, 8)] + [base + U32, base + 2 * U32 + 1]
        pool = [x for x in pool if x >= 0]
        ops = []
        for _ in range(n):
            c = r.random()
            if c < 0.35:
                F = r.choice(pool)
                op = self.gs(F, big=r.random() < 0.1)
                if r.random() < 0.1:
                    op = (op[0], op[1], op[2] + 65536 * r.randrange(1, 3), op[3])
                ops.append(op)
            elif c < 0.6:
                ops.append(("gx", max(0, r.choice(pool) - r.choice([2, 2, 2, 1, 3, 0]))))
            elif c < 0.63:
                ops.append(("gz",))
            elif c < 0.75:
                ops.append(("exec",))
            elif c < 0.87:
                ops.append(("adv",))
            elif c < 0.9:
                ops.append(("reset",))
            elif c < 0.95:
                ops.append(self.sched(r.choice([0, 1, 2, 24, 25])))
            else:
                ops.append(("dump",))
        ops.append(("dump",))
        return cur, ops


def one_frame(fn, pre=()):
    return list(pre) + [("exec",), ("gx", fn), ("adv",)]


def boundary_histories():
    """fixed histories (no randomness): insertion orders, the pool, too-close / past frames, the wraps"""
    import itertools
    hist = []
    serial = [0]

    def ev(F, p3=0, n=1):
        serial[0] += 1
        el = []
        for k in range(n):
            if k:
                el.append("F")
            el.append(("i", k % 8, (serial[0] // 256) % 256, serial[0] % 256, 0, 0))
        return ("gs", F, p3, el + ["E"])

    # the witnesses of the hyperframe-wrap defect repaired by repo fix F21 (sched_gsmtime_execute compared evt->fn with the unreduced
    # fn + SCHEDULE_AHEAD: the events for frames 0 and 1 were never handed over); first, so that the check reports them if it returns
    for F in (0, 1):
        hist.append((24, [("gs", F, 7, [("i", 0, 0, 1, 0, 0), "E"]), ("exec",), ("gx", MAX_FN - 2 + F)], "wrap-regression-F21"))
        ops = [("gs", F, 7, [("i", 0, 0, 1, 0, 0), "E"])]
        fn = MAX_FN - 3
        for k in range(8):
            ops += one_frame(fn)
            fn = (fn + 1) % MAX_FN
        hist.append((24, ops, "wrap-regression-F21"))
    # every insertion sequence over three frame numbers, up to length 4; then the frames 3..6 (fire 5, 6, 7, nothing)
    for n in range(1, 5):
        for seq in itertools.product((5, 6, 7), repeat=n):
            serial[0] = 0
            ops = [ev(F, p3=10 + k) for k, F in enumerate(seq)]
            for fn in (3, 4, 5, 6):
                ops += one_frame(fn)
            ops += one_frame(7) * 3
            hist.append((len(hist) % NF, ops, "insertion-order"))
    # the pool: 15, 16, 17, 19 requests; slots come back after firing / after reset
    for n in (NSLOTS - 1, NSLOTS, NSLOTS + 1, NSLOTS + 3):
        serial[0] = 0
        ops = [ev(100 + (k % 4), p3=k) for k in range(n)]
        for fn in range(97, 101):
            ops += one_frame(fn, pre=[ev(200, p3=99)])
        ops += [ev(300, p3=k) for k in range(NSLOTS + 1)] + [("gz",)] + [ev(150, p3=k) for k in range(NSLOTS + 1)]
        for fn in range(101, 152):
            ops += one_frame(fn)
        ops.append(("dump",))
        hist.append((n % NF, ops, "pool"))
    # too close / past: the next sched_gsmtime_execute is for frame 1000
    for d in (-5, -1, 0, 1, 2, 3):
        serial[0] = 0
        ops = [ev(1000 + d, p3=1), ev(1002, p3=2), ev(1000 + d, p3=3), ev(1003, p3=4), ev(1001, p3=5)]
        for fn in range(1000, 1030):
            ops += one_frame(fn)
        hist.append((3, ops, "too-close"))
    # the hyperframe wrap: requests made in the last frames for the first frames of the next hyperframe
    for start in (MAX_FN - 6, MAX_FN - 3, MAX_FN - 2):
        for F in (MAX_FN - 1, 0, 1, 2, 3):
            serial[0] = 0
            ops = [ev(F, p3=7), ev(4, p3=8)]
            fn = start
            for k in range(14):
                ops += one_frame(fn)
                fn = (fn + 1) % MAX_FN
            hist.append((24, ops, "hyperframe-wrap"))
    # the uint32_t wrap of fn + SCHEDULE_AHEAD (outside the firmware's range of frame numbers: correspondence only)
    for F in (U32 - 1, 0, 1, 2, U32 + 1):
        serial[0] = 0
        ops = [ev(F, p3=7), ev(3, p3=8)]
        fn = U32 - 4
        for k in range(10):
            ops += one_frame(fn)
            fn = (fn + 1) % U32
        hist.append((0, ops, "u32-wrap"))
    # the histories of the non-vacuity examples of Props/C08Gsmtime.lean (frames without requests)
    def set1(p1):
        return [("i", 1, p1, 0, 0, 0), "E"]
    set2 = [("i", 1, 11, 0, 0, 0), "F", ("i", 2, 12, 0, 5, 0), "E"]

    def run(cur, reqs, fn0, n, kind="lean-example"):
        ops = list(reqs)
        for k in range(n):
            ops += one_frame((fn0 + k) % MAX_FN)
        hist.append((cur, ops, kind))
    run(7, [("gs", 105, 9, set2)], 100, 8)
    run(0, [("gs", 7, 70, set1(1)), ("gs", 5, 50, set1(2)), ("gs", 6, 60, set1(3)), ("gs", 5, 51, set1(4))], 2, 6)
    run(0, [("gs", 50 + k % 3, k, set1(k)) for k in range(17)], 40, 1)
    run(0, [("gs", 100, 1, set1(1)), ("gs", 101, 2, set1(2)), ("gs", 102, 3, set1(3)), ("gs", 103, 4, set1(4))], 100, 5)
    run(0, [("gs", 2, 7, set1(1))], MAX_FN - 2, 5)
    run(0, [("gs", 0, 7, set1(1)), ("gs", 1, 8, set1(2))], MAX_FN - 3, 8)
    hist.append((0, [("gs", 1, 7, set1(1))] + one_frame(U32 - 2) + one_frame(U32 - 1) + one_frame(0), "lean-example"))
    hist.append((0, [("gs", 5, 7, set1(1)), ("gs", 6, 8, set1(2)), ("gz",), ("gx", 3), ("gx", 4), ("gx", 3)], "lean-example"))
    run(0, [("gs", 50, k, set1(k)) for k in range(9)], 48, 2)
    # bucket overflow in the TDMA scheduler goes unnoticed by sched_gsmtime_execute (rc ignored)
    serial[0] = 0
    ops = [ev(50, p3=k, n=2) for k in range(10)]
    for fn in range(46, 54):
        ops += one_frame(fn)
    ops.append(("dump",))
    hist.append((7, ops, "bucket-overflow"))
    return hist


# ------------------------------------------------------------------------------------------
# correspondence

def in_domain(line):
    """inside the property's quantifier: frame offsets 0..24 for the operations of the TDMA scheduler, frame numbers of the
    hyperframe for sched_gsmtime / sched_gsmtime_execute, a ring position below 25.  Other requests (32-bit frame numbers,
    offsets beyond the scheduler depth) are still run and compared; a difference there is evidence, not a broken tie."""
    t = line.split()
    try:
        if not 0 <= int(t[1]) < 25:
            return False
        cur = []
        ops = []
        for x in t[2:]:
            if x == ";":
                ops.append(cur); cur = []
            else:
                cur.append(x)
        ops.append(cur)
        for o in ops:
            if not o:
                continue
            if o[0] in ("sched", "set") and not 0 <= int(o[1]) < 25:
                return False
            if o[0] in ("gs", "gx") and not 0 <= int(o[1]) < 2715648:
                return False
    except (ValueError, IndexError):
        return False
    return True


def correspond(run, corr):
    exe = build_harness(run)
    src = os.path.join(vf.REPO, "src/target/firmware/layer1/sched_gsmtime.c")
    run.drift["sched_gsmtime.c"] = vf.src_hash_c(src, ["sched_gsmtime", "sched_gsmtime_execute", "sched_gsmtime_init",
                                                        "sched_gsmtime_reset"])
    g = Gen(run.rng)
    lines, kinds = [], []
    for cur, ops, kind in boundary_histories():
        lines.append(to_line(cur, ops))
        kinds.append("gsmtime:" + kind)
    n = run.scale(1500, 15000)
    for i in range(n):
        c = i % 10
        if c < 4:
            cur, ops = g.soup(run.rng.choice([10, 40, 120]))
            kinds.append("gsmtime:soup")
        elif c < 8:
            cur, ops = g.frames(run.rng.choice([3, 20, 60]), mode="mod", resets=True)
            kinds.append("gsmtime:frames")
        else:
            cur, ops = g.frames(run.rng.choice([3, 20]), mode="u32", resets=True, fn0=run.rng.choice([U32 - 3, U32 - 10, U32 - 40, 7]))
            kinds.append("gsmtime:frames-u32")
        lines.append(to_line(cur, ops))
    # malformed requests: both sides must refuse
    bad = ["sg.run 25 gx 0", "sg.run 0 gs 5 0 i 1 1 1 1 0", "sg.run 0 gx", "sg.run 0 gs 5", "sg.run 0 bogus", "sg.run 0"]
    lines += bad
    kinds += ["gsmtime:malformed"] * len(bad)
    impl = run_hist(exe, lines)
    model = vf.run_driver(lines)
    before = len(corr.disagreements)
    corr.compare(lines, impl, model, in_domain=in_domain)
    if len(corr.disagreements) > before:
        d = corr.disagreements[before]
        small = shrink_disagreement(exe, d["request"])
        if small != d["request"]:
            corr.disagreements.insert(before, {"request": small, "impl": run_hist(exe, [small])[0], "model": vf.run_driver([small])[0],
                                               "note": "shrunk from the first disagreeing gsmtime history"})
    nops = 0
    for ln, k, a in zip(lines, kinds, impl):
        corr.count(ln, k)
        nops += ln.count(";") + 1
        for tok in a.split():
            key = None
            if tok[0] == "g":
                key = "gsmtime exec:" + ("nothing" if tok == "g0" else "fired")
            elif tok in ("r-%d" % EBUSY,):
                key = "gsmtime ret:-EBUSY"
            if key:
                corr.distribution[key] = corr.distribution.get(key, 0) + 1
    corr.distribution["gsmtime ops total"] = nops
    corr.rule = (corr.rule + " || gsmtime part: a case is one history line on the state after sched_gsmtime_init() and a zeroed TDMA scheduler "
                 "(sequence of sched_gsmtime / sched_gsmtime_execute(fn) / sched_gsmtime_reset and the TDMA scheduler's own operations); families: "
                 "frames in the order of l1_sync() with fn stepping modulo GSM_MAX_FN resp. modulo 2^32, op soup with arbitrary fn arguments, "
                 "fixed boundary histories (every insertion sequence over 3 frame numbers up to length 4, pool exhaustion and slot reuse, too-close and "
                 "past frames, hyperframe wrap, uint32 wrap, bucket overflow); compared: every return code, every tdma_schedule_set call made by "
                 "sched_gsmtime_execute (frame offset, p3, result, the item set passed) in order, every callback invocation of the TDMA scheduler, "
                 "num_items of all 25 buckets at the dump points")
    corr.samples += [{"request": r[:400], "impl": a[:400], "model": b[:400]} for r, a, b in list(zip(lines, impl, model))[150:152]]


def shrink_disagreement(exe, line):
    """greedy op removal while real code and model still disagree"""
    cur, ops = parse_line(line)

    def differs(o):
        if not o:
            return False
        ln = to_line(cur, o)
        return run_hist(exe, [ln])[0] != vf.run_driver([ln])[0]
    budget = 250
    changed = True
    while changed and budget > 0:
        changed = False
        while len(ops) > 1 and budget > 0:
            budget -= 1
            if differs(ops[:-1]):
                ops = ops[:-1]
                changed = True
            else:
                break
        i = 0
        while i < len(ops) and budget > 0:
            budget -= 1
            cand = ops[:i] + ops[i + 1:]
            if differs(cand):
                ops = cand
                changed = True
            else:
                i += 1
    return to_line(cur, ops)


# ------------------------------------------------------------------------------------------
# the property oracle: an independent Python reference of the PROPERTY, evaluated on the outputs of the real C code.
#
#   * sched_gsmtime() accepts (returns 0) while fewer than 16 events are pending, and returns -EBUSY without any other effect
#     when 16 are pending;
#   * sched_gsmtime_execute(fn) hands over exactly the pending events whose frame is fn + 2 (frame numbers count modulo
#     GSM_MAX_FN), each once, with frame offset 1, its item set and its p3, events for the same frame in the order they were
#     accepted, and returns their number; an event handed over is no longer pending (its slot is free again);
#   * sched_gsmtime_reset() drops all pending events;
#   * composed with the TDMA scheduler (the property of C08 proper, judged by props/C08.py: evaluate on the history in which
#     every hand-over is a tdma_schedule_set(1, set, p3)): the items of the k-th frame of the set of an event for frame F run
#     exactly once, in frame F - 1 + k.

def c08_evaluate(cur, ops, obs):
    from props import C08
    return C08.evaluate(cur, ops, obs)


def evaluate(cur, ops, obs):
    """None (property holds on this history), "n/a" (outside the premises), or a dict describing the first failure"""
    if len(obs) != len(ops):
        return {"what": "answer has %d tokens for %d ops" % (len(obs), len(ops)), "op_index": 0}
    pending = []
    tops, tobs, tidx = [], [], []
    for i, (op, ob) in enumerate(zip(ops, obs)):
        if op[0] == "gs":
            _, F, p3, el = op
            if not (0 <= F < MAX_FN and 0 <= p3 < 65536) or "E" not in el:
                return "n/a"
            if len(pending) < NSLOTS:
                if ob != ("r", 0):
                    return {"what": "sched_gsmtime with %d events pending did not return 0" % len(pending), "op_index": i, "got": ob}
                pending.append((F, p3, el))
            elif ob != ("r", -EBUSY):
                return {"what": "sched_gsmtime with %d events pending did not return -EBUSY" % len(pending), "op_index": i, "got": ob}
        elif op[0] == "gx":
            fn = op[1]
            if not (0 <= fn < MAX_FN):
                return "n/a"
            tgt = (fn + AHEAD) % MAX_FN
            due = [e for e in pending if e[0] == tgt]
            if ob[0] != "g":
                return {"what": "unexpected answer to sched_gsmtime_execute", "op_index": i, "got": ob}
            _, rc, calls = ob
            want = [(AHEAD - LATENCY, e[1], render_set(e[2])) for e in due]
            got = [(c[0], c[1], c[3]) for c in calls]
            if got != want:
                if sorted(got) == sorted(want):
                    what = "events for the same frame %d were not handed over in the order they were accepted" % tgt
                elif len(got) < len(want):
                    what = "sched_gsmtime_execute(%d): %d event(s) pending for frame %d, %d tdma_schedule_set call(s)" % (fn, len(want), tgt, len(got))
                elif len(got) > len(want) and not want:
                    what = "sched_gsmtime_execute(%d) made %d tdma_schedule_set call(s) although no event is pending for frame %d" % (fn, len(got), tgt)
                else:
                    what = "sched_gsmtime_execute(%d): the tdma_schedule_set calls (frame offset, p3, item set) are not the ones of the events pending for frame %d" % (fn, tgt)
                return {"what": what, "op_index": i, "frame": fn, "got": ob, "want_calls": want, "exec_fn": fn, "due_event_fn": tgt,
                        "region": "hyperframe-wrap" if fn + AHEAD >= MAX_FN else "in-hyperframe"}
            if rc != len(due):
                return {"what": "sched_gsmtime_execute returned %d after %d calls" % (rc, len(due)), "op_index": i, "frame": fn, "got": ob}
            pending = [e for e in pending if e[0] != tgt]
            for e, c in zip(due, calls):
                tops.append(("set", AHEAD - LATENCY, e[1], e[2]))
                tobs.append(("r", c[2]))
                tidx.append(i)
        elif op[0] == "gz":
            pending = []
        else:
            tops.append(op)
            tobs.append(ob)
            tidx.append(i)
    res = c08_evaluate(cur, tops, tobs)
    if isinstance(res, dict):
        res = dict(res)
        res["op_index"] = tidx[res.get("op_index", 0)] if tidx else 0
        res["what"] = "TDMA scheduler, with every hand-over of sched_gsmtime_execute as tdma_schedule_set(1, set, p3): " + res["what"]
    return res


def judge(cur, ops, ans):
    if ans in ("bad-op", "skipped"):
        return "n/a"
    if ans.startswith("crash"):
        try:
            pre = evaluate_premises(cur, ops)
        except Exception:
            pre = "n/a"
        if pre == "n/a":
            return "n/a"
        return {"what": "the scheduler code crashed on a history within the premises: " + ans, "op_index": len(ops) - 1}
    try:
        obs = parse_answer(ans)
    except Exception:
        return {"what": "unparseable answer " + ans[:100], "op_index": 0}
    return evaluate(cur, ops, obs)


def evaluate_premises(cur, ops):
    """is the history within the premises (no observation needed)?"""
    for op in ops:
        if op[0] == "gs" and (not (0 <= op[1] < MAX_FN and 0 <= op[2] < 65536) or "E" not in op[3]):
            return "n/a"
        if op[0] == "gx" and not (0 <= op[1] < MAX_FN):
            return "n/a"
        if op[0] in ("sched", "set") and not (0 <= op[1] < NF):
            return "n/a"
    return None


def check_history(exe, cur, ops):
    ans = run_hist(exe, [to_line(cur, ops)])[0]
    return judge(cur, ops, ans), ans


def shrink(exe, cur, ops):
    """greedy removal of ops / whole frames while the history still violates the property within its premises"""
    def bad(o):
        if not o:
            return False
        r, _ = check_history(exe, cur, o)
        return isinstance(r, dict)
    budget = 300
    changed = True
    while changed and budget > 0:
        changed = False
        while len(ops) > 1 and budget > 0:
            budget -= 1
            if bad(ops[:-1]):
                ops = ops[:-1]
                changed = True
            else:
                break
        i = 0
        while i < len(ops) and budget > 0:
            if ops[i][0] in ("gs", "gz", "sched", "set", "dump", "flags", "reset"):
                budget -= 1
                cand = ops[:i] + ops[i + 1:]
                if bad(cand):
                    ops = cand
                    changed = True
                    continue
            i += 1
        i = 0
        while i + 2 < len(ops) and budget > 0:
            if ops[i][0] == "exec" and ops[i + 1][0] == "gx" and ops[i + 2][0] == "adv":
                budget -= 1
                cand = ops[:i] + ops[i + 3:]
                if bad(cand):
                    ops = cand
                    changed = True
                    continue
            i += 1
    return ops


def report(run, exe, cur, ops, res):
    ops = shrink(exe, cur, ops)
    res2, ans = check_history(exe, cur, ops)
    if not isinstance(res2, dict):
        res2 = res
    k = res2.get("op_index", 0)
    fns = [o[1] for o in ops if o[0] == "gs"]
    w = {"part": "gsmtime", "kind": "gsmtime-history", "history": to_line(cur, ops), "impl": ans, "fails": res2["what"],
         "failing_op": op_str(ops[k]) if k < len(ops) else None,
         "n_events": len(fns), "min_event_fn": min(fns) if fns else -1,
         "region": res2.get("region", "n/a"), "exec_fn": res2.get("exec_fn", -1), "due_event_fn": res2.get("due_event_fn", -1),
         "property_requires": "sched_gsmtime accepts while fewer than 16 events are pending, else -EBUSY; sched_gsmtime_execute(fn) hands exactly "
                              "the events pending for frame fn+2 (mod GSM_MAX_FN) to tdma_schedule_set(1, set, p3), once, in acceptance order; "
                              "the set's k-th frame runs in frame F-1+k; after sched_gsmtime_reset nothing is pending"}
    return run.report_witness(w)


def search(run, corr, deep):
    try:
        exe = build_harness(run, san=True)
        corr.distribution["gsmtime oracle: sched_gsmtime.c + tdma_sched.c instrumented (ASan+UBSan)"] = 1
    except vf.HarnessError:
        exe = build_harness(run)
    g = Gen(run.rng)
    hist = []
    for d in corr.disagreements:
        if d.get("request", "").startswith("sg.run"):
            try:
                hist.append(parse_line(d["request"]))
            except Exception:
                pass
    for cur, ops, kind in boundary_histories():
        hist.append((cur, ops))
    n = run.scale(1200, 12000) * (3 if deep else 1)
    for i in range(n):
        c = i % 4
        if c == 0:
            hist.append(g.frames(run.rng.choice([3, 12, 40]), resets=False))
        elif c == 1:
            hist.append(g.frames(run.rng.choice([3, 12, 40]), resets=True, burst=0.15))
        elif c == 2:
            hist.append(g.frames(run.rng.choice([5, 30]), resets=False, load=(0, 1, 2, 4), late=0.05, tdma=0.1))
        else:
            hist.append(g.frames(run.rng.choice([8, 60]), resets=False, load=(0, 0, 1), late=0.3, fn0=MAX_FN - run.rng.choice([2, 3, 4, 5, 9, 30])))
    lines = [to_line(c, o) for c, o in hist]
    answers = run_hist(exe, lines)
    stats = {"ok": 0, "n/a": 0, "fail": 0}
    found = 0
    events = 0
    for (cur, ops), ans in zip(hist, answers):
        res = judge(cur, ops, ans)
        if res is None:
            stats["ok"] += 1
            events += sum(1 for o in ops if o[0] == "gs")
        elif isinstance(res, str):
            stats[res] += 1
        else:
            stats["fail"] += 1
            if found < 3:
                found += report(run, exe, cur, ops, res)
    corr.distribution["gsmtime oracle: histories within the premises"] = stats["ok"] + stats["fail"]
    corr.distribution["gsmtime oracle: histories outside the premises (skipped)"] = stats["n/a"]
    corr.distribution["gsmtime oracle: sched_gsmtime requests checked"] = events
    return found


def replay_witness(run, w):
    """re-run one recorded witness; returns True if the property still fails on it"""
    try:
        exe = build_harness(run, san=True)
    except vf.HarnessError:
        exe = build_harness(run)
    cur, ops = parse_line(w["history"])
    res, ans = check_history(exe, cur, ops)
    print("replay gsmtime history=%s\n  impl=%s\n  verdict=%s" % (w["history"], ans, res if res else "property holds"))
    return isinstance(res, dict)
