# trxcon (C) side of the TRX interface: helper module for the C04 / C05 / C14 checks
# (not a registered check itself).  See the docstrings of build / gen / correspond / oracle.
import os, re
from lib import vf, cbuild

HDIR = os.path.join(vf.ROOT, "harness/c/trxcon")
SHIM = os.path.join(vf.ROOT, "harness/c/shim_trxcon")
TRX_IF_C = os.path.join(vf.REPO, "src/host/trxcon/src/trx_if.c")
TRXCON_INC = os.path.join(vf.REPO, "src/host/trxcon/include")
ASAN = ["-fsanitize=address,undefined", "-fno-sanitize-recover=all"]
MSAN = ["-fsanitize=memory", "-fno-sanitize-recover=all"]


def _build(run, tag, san):
    def cc(src, name, extra=()):
        out = os.path.join(run.scratch, "%s_%s.o" % (name, tag))
        cmd = ["clang"] + san + ["-g", "-O0", "-w", "-c"] + list(extra) + [src, "-o", out]
        rc, o = vf.sh(cmd, timeout=600)
        if rc != 0:
            raise vf.HarnessError("trxcon harness: cannot compile %s: %s" % (src, o[-2500:]))
        return out
    inc = ["-I", SHIM, "-I", HDIR, "-I", TRXCON_INC, "-idirafter", cbuild.LIBOSMO_INC]
    objs = [
        # the in-tree libosmocore gsm_utils.c (gsm_arfcn2freq10), unchanged
        cc(os.path.join(vf.REPO, "src/shared/libosmocore/src/gsm/gsm_utils.c"), "tc_gsm_utils",
           ["-I", os.path.join(cbuild.SHIM, "cfg/a/b"), "-I", cbuild.LIBOSMO_INC]),
        cc(os.path.join(HDIR, "shim_impl.c"), "tc_shim_impl", inc),
        # trxcon_harness.c #includes the REAL trx_if.c of the tree under test, unchanged
        cc(os.path.join(HDIR, "trxcon_harness.c"), "tc_harness", inc + ['-DTRX_IF_C="%s"' % TRX_IF_C]),
    ]
    exe = os.path.join(run.scratch, "trxcon_harness_%s.bin" % tag)
    rc, o = vf.sh(["clang"] + san + objs + ["-o", exe], timeout=600)
    if rc != 0:
        raise vf.HarnessError("trxcon harness: cannot link: %s" % o[-2500:])
    return exe


def build(run):
    """compile the harness around the unchanged trx_if.c of vf.REPO with clang ASan+UBSan;
    returns the executable (cached on the run object).  `build_msan` is the MSan twin."""
    if not getattr(run, "trxcon_exe", None):
        run.trxcon_exe = _build(run, "asan", ASAN)
    return run.trxcon_exe


def build_msan(run):
    """same harness under MemorySanitizer (reads of uninitialised memory abort -> `CRASH`);
    returns None when MSan cannot run in this environment"""
    if not hasattr(run, "trxcon_exe_msan"):
        try:
            exe = _build(run, "msan", MSAN)
            ok = vf.run_lines([exe], ["tc.consts"])[0].startswith("TRXC_BUF_SIZE=")
            run.trxcon_exe_msan = exe if ok else None
        except (vf.HarnessError, OSError):
            run.trxcon_exe_msan = None
    return run.trxcon_exe_msan


def gen(run):
    """regenerate lean/OsmoVerif/Gen/Trxcon.lean from the current tree"""
    from gen import trxcon
    run.trxcon_consts = trxcon.generate(run)
    return run.trxcon_consts
