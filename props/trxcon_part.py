# trxcon (C) side of the TRX interface: helper module for the C04 / C05 / C14 checks
# (not a registered check itself; `tools/trxcon_selftest.py` runs it standalone).
#
# Code under test: src/host/trxcon/src/trx_if.c (compiled UNCHANGED from vf.REPO against the shim
# headers harness/c/shim_trxif; harness harness/c/trxcon/*.c).  Lean: Model/TrxconIf.lean,
# Lemmas/TrxconIf.lean, Props/Trxcon.lean (namespace OsmoVerif.Props.Trxcon), Driver/TrxconIf.lean
# (verbs `tc.*`), Gen/Trxcon.lean (gen/trxcon.py).
#
# How a check uses it (props/C04.py, C05.py, C14.py):
#     from props import trxcon_part
#     LEAN_MODULES = [..., "OsmoVerif.Props.Trxcon"]          # or a Props/Cxx.lean that imports and re-exports it
#     LEAN_MODEL_MODULES = [...] + trxcon_part.LEAN_MODEL_MODULES
#     ASSUMPTIONS = [...] + trxcon_part.ASSUMPTIONS
#     def gen(run):        ...; trxcon_part.gen(run)            # Gen/Trxcon.lean from the current tree
#     def correspond(run, corr): ...; trxcon_part.correspond(run, corr, parts=("rxd", "txd"))
#     def search(run, corr, deep): found += trxcon_part.oracle(run, corr, deep, parts=("rxd", "txd"))
#     def replay(run, path):  for a witness dict w with w["kind"].startswith("trxcon-"):
#                                 still, text = trxcon_part.replay(run, w)
# parts: "rxd" = trx_data_rx_cb, "txd" = trx_if_handle_phyif_burst_req (C04, C14),
#        "cmd" = trx_if_handle_phyif_cmd / trx_ctrl_cmd, "rsp" = trx_ctrl_read_cb (C05, C14).
# trxcon_part.build(run) returns the ASan+UBSan harness executable (line protocol in the header of
# harness/c/trxcon/trxcon_harness.c) for cross runs, e.g. real Python bytes -> `tc.rxd <hex>`,
# `tc.txd ...` -> bytes for the real Python parser, real toolkit replies -> `tc.rsp <cmd hex> 1 <hex>`.
import os, re
from lib import vf, cbuild

HDIR = os.path.join(vf.ROOT, "harness/c/trxcon")
SHIM = os.path.join(vf.ROOT, "harness/c/shim_trxif")
TRX_IF_C = os.path.join(vf.REPO, "src/host/trxcon/src/trx_if.c")
TRXCON_INC = os.path.join(vf.REPO, "src/host/trxcon/include")
ASAN = ["-fsanitize=address,undefined", "-fno-sanitize-recover=all"]
MSAN = ["-fsanitize=memory", "-fno-sanitize-recover=all"]


NEEDED_FUNCS = ["trx_data_rx_cb", "trx_if_handle_phyif_burst_req", "trx_ctrl_read_cb", "trx_if_handle_phyif_cmd", "trx_ctrl_cmd", "trx_if_open"]


def extra_sources():
    """-DTRX_IF_EXTRAn="file" for the files of src/host/trxcon/src that define a function of the TRX interface which trx_if.c
    itself does not define in this tree (a section of the file moved into a file of its own)"""
    def defines(path, f):
        try:
            txt = re.sub(r"/\*.*?\*/", "", open(path, errors="replace").read(), flags=re.S)
        except OSError:
            return False
        return re.search(r"^[A-Za-z_][^;{}()]*\b%s\s*\([^;{}]*\)\s*\{" % f, txt, re.M) is not None
    d = os.path.dirname(TRX_IF_C)
    extra = []
    for f in NEEDED_FUNCS:
        if defines(TRX_IF_C, f):
            continue
        for fn in sorted(os.listdir(d)):
            p = os.path.join(d, fn)
            if fn.endswith(".c") and p != TRX_IF_C and p not in extra and defines(p, f):
                extra.append(p)
                break
    return ['-DTRX_IF_EXTRA%d="%s"' % (i + 1, p) for i, p in enumerate(extra[:2])]


def _build(run, tag, san):
    def cc(src, name, extra=()):
        out = os.path.join(run.scratch, "%s_%s.o" % (name, tag))
        cmd = ["clang"] + san + ["-g", "-O0", "-w", "-c"] + list(extra) + [src, "-o", out]
        rc, o = vf.sh(cmd, timeout=600)
        if rc != 0:
            raise vf.HarnessError("trxcon harness: cannot compile %s: %s" % (src, o[-2500:]))
        return out
    inc = ["-I", SHIM, "-I", HDIR, "-I", TRXCON_INC, "-idirafter", cbuild.LIBOSMO_INC]
    objs = [
        # the in-tree libosmocore gsm_utils.c (gsm_arfcn2freq10), unchanged
        cc(os.path.join(vf.REPO, "src/shared/libosmocore/src/gsm/gsm_utils.c"), "tc_gsm_utils",
           ["-I", os.path.join(cbuild.SHIM, "cfg/a/b"), "-I", cbuild.LIBOSMO_INC]),
        cc(os.path.join(HDIR, "shim_impl.c"), "tc_shim_impl", inc),
        # trxcon_harness.c #includes the REAL trx_if.c of the tree under test, unchanged
        cc(os.path.join(HDIR, "trxcon_harness.c"), "tc_harness", inc + ['-DTRX_IF_C="%s"' % TRX_IF_C] + extra_sources()),
    ]
    exe = os.path.join(run.scratch, "trxcon_harness_%s.bin" % tag)
    rc, o = vf.sh(["clang"] + san + objs + ["-o", exe], timeout=600)
    if rc != 0:
        raise vf.HarnessError("trxcon harness: cannot link: %s" % o[-2500:])
    return exe


def build(run):
    """compile the harness around the unchanged trx_if.c of vf.REPO with clang ASan+UBSan;
    returns the executable (cached on the run object).  `build_msan` is the MSan twin."""
    if not getattr(run, "trxcon_exe", None):
        run.trxcon_exe = _build(run, "asan", ASAN)
    return run.trxcon_exe


def build_msan(run):
    """same harness under MemorySanitizer (reads of uninitialised memory abort -> `CRASH`);
    returns None when MSan cannot run in this environment"""
    if not hasattr(run, "trxcon_exe_msan"):
        try:
            exe = _build(run, "msan", MSAN)
            ok = vf.run_lines([exe], ["tc.consts"])[0].startswith("TRXC_BUF_SIZE=")
            run.trxcon_exe_msan = exe if ok else None
        except (vf.HarnessError, OSError):
            run.trxcon_exe_msan = None
    return run.trxcon_exe_msan


def gen(run):
    """regenerate lean/OsmoVerif/Gen/Trxcon.lean from the current tree"""
    from gen import trxcon
    run.trxcon_consts = trxcon.generate(run)
    return run.trxcon_consts


# ----------------------------------------------------------------------------
# generators (all randomness from the rng handed in)

H = 2715648
PARTS = ("rxd", "txd", "cmd", "rsp")
# (first, last) ARFCN ranges gsm_arfcn2freq10 defines; PCS needs the 0x8000 flag
BANDS = [(0, 124), (955, 1023), (128, 251), (512, 885), (259, 293), (306, 340), (350, 425), (438, 511)]
PCS = 0x8000
VERBS = ["ECHO", "POWEROFF", "POWERON", "SETSLOT", "RXTUNE", "TXTUNE", "MEASURE", "SETTA", "SETFH"]


def hx(b):
    if isinstance(b, str):
        b = b.encode("latin-1")
    b = bytes(b)
    return b.hex() if b else "-"


def layout_rx(tn, fn, rssi, toa256, soft, legacy):
    """TRX -> L1 version 0 datagram written from the protocol description (C04 text):
    octet 0 = 16*ver + tn, FN big endian, -RSSI, ToA256 big-endian two's complement, 127 - s"""
    return bytes([tn]) + fn.to_bytes(4, "big") + bytes([-rssi]) + (toa256 % 65536).to_bytes(2, "big") \
        + bytes(127 - s for s in soft) + (b"\0\0" if legacy else b"")


def layout_tx(tn, fn, pwr, bits):
    return bytes([tn]) + fn.to_bytes(4, "big") + bytes([pwr]) + bytes(bits)


def pick(rng, xs):
    return xs[rng.randrange(len(xs))]


def rand_soft(rng, n):
    edge = [-127, -126, -1, 0, 1, 126, 127]
    mode = rng.randrange(4)
    if mode == 0:
        return [pick(rng, edge) for _ in range(n)]
    if mode == 1:
        return [rng.randrange(-127, 128) for _ in range(n)]
    if mode == 2:
        return [pick(rng, [-127, 127])] * n
    return [rng.randrange(-127, 128) if rng.random() < 0.9 else pick(rng, edge) for _ in range(n)]


def rand_fn(rng):
    return pick(rng, [0, 1, 2, 25, 26, 50, 51, 1325, 1326, H // 2, H - 3, H - 2, H - 1,
                      rng.randrange(H), rng.randrange(H), rng.randrange(H)])


def rand_adv(rng):
    return pick(rng, [0, 1, 2, 3, 20, 51, H - 1, H, H + 1, 2 ** 32 - 1, 2 ** 32 - H, 2 ** 32 - H - 1,
                      rng.randrange(2 ** 32), rng.randrange(64)])


def gen_rxd(rng, n):
    """request lines for trx_data_rx_cb: structured valid PDUs over the field boundaries,
    every datagram length 0..520 and some beyond the buffer, foreign versions, FN beyond the
    hyperframe, octets the layout never produces (255, RSSI octet >= 128), mutations"""
    reqs = []
    def valid():
        n_bits = pick(rng, [148, 148, 444])
        return layout_rx(rng.randrange(8), rand_fn(rng),
                         -pick(rng, [0, 1, 46, 47, 48, 60, 119, 120, 121, 126, 127, rng.randrange(128)]),
                         pick(rng, [0, 1, -1, 255, 256, -256, 32767, -32768, -32767, rng.randrange(-32768, 32768)]),
                         rand_soft(rng, n_bits), rng.random() < 0.4)
    for _ in range(n):
        reqs.append("tc.rxd %s %d" % (hx(valid()), rand_adv(rng)))
    # raw octets in every field position
    for _ in range(n // 2):
        d = bytearray(valid())
        for _ in range(rng.randrange(1, 4)):
            k = pick(rng, [0, 0, 1, 2, 3, 4, 5, 5, 6, 7, 8, len(d) - 1, rng.randrange(len(d))])
            d[k] = pick(rng, [0, 1, 7, 8, 15, 16, 127, 128, 129, 254, 255, rng.randrange(256)])
        reqs.append("tc.rxd %s %d" % (hx(d), rand_adv(rng)))
    # FN around and beyond the hyperframe
    for fn in [H - 1, H, H + 1, 2 ** 24, 2 ** 31, 2 ** 32 - 1, 0x00297000, 0x01000000]:
        d = bytearray(valid()); d[1:5] = fn.to_bytes(4, "big")
        reqs.append("tc.rxd %s %d" % (hx(d), rand_adv(rng)))
    # every length, random content but a version-0 header most of the time
    for ln in list(range(0, 521)) + [600, 1000, 1023, 1024, 2000, 4096]:
        d = bytearray(rng.randrange(256) for _ in range(ln))
        if ln and rng.random() < 0.8:
            d[0] = rng.randrange(8)
        if ln >= 5 and rng.random() < 0.8:
            d[1:5] = rand_fn(rng).to_bytes(4, "big")
        reqs.append("tc.rxd %s %d" % (hx(d), rand_adv(rng)))
    # the burst-length switch, densely
    for ln in [147, 148, 149, 150, 151, 152, 443, 444, 445, 446, 447, 448, 504, 505]:
        for _ in range(3):
            d = bytearray(layout_rx(rng.randrange(8), rand_fn(rng), -rng.randrange(128), rng.randrange(-32768, 32768), [0] * 0, False))
            d += bytes(pick(rng, [0, 127, 254, 255, rng.randrange(256)]) for _ in range(ln))
            reqs.append("tc.rxd %s" % hx(d))
    # truncations / extensions / bit flips of valid PDUs
    for _ in range(n // 2):
        d = bytearray(valid())
        m = rng.randrange(4)
        if m == 0:
            d = d[:rng.randrange(len(d))]
        elif m == 1:
            d += bytes(rng.randrange(256) for _ in range(rng.randrange(1, 80)))
        elif m == 2:
            for _ in range(rng.randrange(1, 6)):
                d[rng.randrange(len(d))] ^= 1 << rng.randrange(8)
        else:
            d[0] = (rng.randrange(1, 16) << 4) | (d[0] & 15)
        reqs.append("tc.rxd %s %d" % (hx(d), rand_adv(rng)))
    return reqs


def gen_txd(rng, n):
    reqs = []
    for _ in range(n):
        bl = pick(rng, [0, 1, 2, 147, 148, 149, 443, 444, 445, 505, 506, rng.randrange(507)])
        bits = bytes(rng.randrange(2) for _ in range(bl)) if rng.random() < 0.85 else bytes(rng.randrange(256) for _ in range(bl))
        tn = pick(rng, [0, 1, 6, 7, 8, 15, 16, 255, rng.randrange(8), rng.randrange(8)])
        fn = pick(rng, [0, 1, 255, 256, 65535, 65536, H - 1, H, 2 ** 24 - 1, 2 ** 24, 2 ** 31, 2 ** 32 - 1, rng.randrange(H), rng.randrange(2 ** 32)])
        pwr = pick(rng, [0, 1, 10, 127, 128, 254, 255, rng.randrange(256)])
        reqs.append("tc.txd %d %d %d %d %s" % (tn, fn, pwr, bl, hx(bits)))
    # length field and object disagree; burst does not fit the TRXD buffer
    for bl, have in [(0, 5), (1, 0), (10, 9), (148, 147), (148, 200), (506, 600), (507, 507), (508, 600), (512, 512),
                     (600, 600), (1000, 1000), (4096, 4096), (2 ** 32 - 1, 10)]:
        reqs.append("tc.txd %d %d %d %d %s" % (rng.randrange(8), rng.randrange(H), rng.randrange(256), bl,
                                                hx(bytes(rng.randrange(2) for _ in range(have)))))
    return reqs


def arfcn_lattice():
    s = set()
    for lo, hi in BANDS + [(512, 810)]:
        for v in (lo - 1, lo, lo + 1, (lo + hi) // 2, hi - 1, hi, hi + 1):
            if v >= 0:
                for flags in (0, PCS, 0x4000, 0x1000, 0x2000, 0xc000, 0xf000):
                    s.add((v | flags) & 0xffff)
    s.update([125, 126, 127, 252, 258, 294, 305, 341, 349, 426, 437, 886, 954, 1024, 4095, 0xfff, 0x8fff, 65535])
    return sorted(s)


def valid_arfcn(rng, wide=None):
    """an ARFCN gsm_arfcn2freq10 defines; wide=True: 7-digit kHz (DCS/PCS), False: 6-digit"""
    if wide is None:
        wide = rng.random() < 0.3
    if wide:
        return rng.randrange(512, 886) if rng.random() < 0.7 else (rng.randrange(512, 811) | PCS)
    lo, hi = pick(rng, [b for b in BANDS if b != (512, 885)])
    return rng.randrange(lo, hi + 1)


def gen_cmd(rng, n):
    reqs = ["tc.cmd RESET", "tc.cmd POWERON", "tc.cmd POWEROFF", "tc.cmd RAW 8", "tc.cmd RAW 9", "tc.cmd RAW 255",
            "tc.cmd RAW 4294967295"]
    for a in arfcn_lattice():
        reqs.append("tc.cmd MEASURE %d" % a)
        reqs.append("tc.cmd SETFREQ_H0 %d" % a)
    for _ in range(n // 4):
        reqs.append("tc.cmd %s %d" % (pick(rng, ["MEASURE", "SETFREQ_H0"]), rng.randrange(65536)))
    for tn in (0, 1, 7, 8, 9, 10, 99, 100, 255):
        for pchan in list(range(0, 15)) + [127, 128, 255]:
            reqs.append("tc.cmd SETSLOT %d %d" % (tn, pchan))
    for ta in list(range(-130, 131)) + [255, 256, -256, 1000]:
        reqs.append("tc.cmd SETTA %d" % ta)
    small = [0, 1, 9, 10, 63, 64, 99, 100, 254, 255]
    def setfh(hsn, maio, ma, ma_len=None):
        return "tc.cmd SETFREQ_H1 %d %d %d %s" % (hsn, maio, len(ma) if ma_len is None else ma_len, " ".join(map(str, ma)))
    for N in [1, 2, 3, 8, 9, 16, 32, 60, 61, 62, 63, 64, 65, 66, 70, 71, 72, 80, 100]:
        for _ in range(max(1, n // 60)):
            k = pick(rng, [0, 0, N, rng.randrange(N + 1)])      # number of 16-character pairs
            ma = [valid_arfcn(rng, True) for _ in range(k)] + [valid_arfcn(rng, False) for _ in range(N - k)]
            rng.shuffle(ma)
            reqs.append(setfh(pick(rng, small), pick(rng, small), ma))
    # the -ENOSPC boundary: 16*k + 14*(N-k) around 999
    for N in range(56, 73):
        for k in range(0, N + 1):
            tot = 16 * k + 14 * (N - k)
            if 990 <= tot <= 1010:
                ma = [valid_arfcn(rng, True) for _ in range(k)] + [valid_arfcn(rng, False) for _ in range(N - k)]
                if rng.random() < 0.5:
                    rng.shuffle(ma)
                reqs.append(setfh(pick(rng, small), pick(rng, small), ma))
    for _ in range(max(4, n // 20)):
        N = rng.randrange(1, 20)
        ma = [valid_arfcn(rng) for _ in range(N)]
        ma[rng.randrange(N)] = pick(rng, [125, 127, 300, 886, 954, 1024, 4095, 2000])      # undefined ARFCN inside
        reqs.append(setfh(rng.randrange(64), rng.randrange(64), ma))
        ma = [valid_arfcn(rng) for _ in range(N)]
        reqs.append(setfh(rng.randrange(64), rng.randrange(64), ma, pick(rng, [0, N - 1, N + 1, N + 5, 2 ** 32, 2 ** 32 + N])))
    reqs.append("tc.cmd SETFREQ_H1 1 2 0")
    reqs.append("tc.cmd SETFREQ_H1 1 2 3")
    return reqs


def emitted_cmds(rng):
    """command texts as trxcon emits them (the forms of trx_if_cmd_*), for the response tests"""
    out = [("POWERON", "", 1), ("POWEROFF", "", 1), ("ECHO", "", 1)]
    a = valid_arfcn(rng)
    khz = lambda arfcn, ul: freq10(arfcn, ul) * 100
    out.append(("MEASURE", "%d" % khz(a, 0), 1))
    out.append(("RXTUNE", "%d" % khz(a, 0), 1))
    out.append(("TXTUNE", "%d" % khz(a, 1), 1))
    out.append(("SETSLOT", "%d %d" % (rng.randrange(8), pick(rng, [0, 1, 3, 4, 5, 7, 13])), 1))
    out.append(("SETTA", "%d" % rng.randrange(-128, 128), 0))
    N = pick(rng, [1, 2, 8, 9, 32, 62, 64])
    ma = [valid_arfcn(rng, False if N > 60 else None) for _ in range(N)]
    out.append(("SETFH", "%d %d %s" % (rng.randrange(64), rng.randrange(64),
                                       " ".join("%d %d" % (khz(x, 0), khz(x, 1)) for x in ma)), 1))
    return out


def freq10(arfcn, uplink):
    """TS 45.005 section 2 carrier frequencies in units of 100 kHz (independent of the C code)"""
    pcs = arfcn & PCS
    n = arfcn & 0x0fff
    if pcs:
        ul, off = 18502 + 2 * (n - 512), 800
    elif n <= 124:
        ul, off = 8900 + 2 * n, 450
    elif 955 <= n <= 1023:
        ul, off = 8900 + 2 * (n - 1024), 450
    elif 128 <= n <= 251:
        ul, off = 8242 + 2 * (n - 128), 450
    elif 512 <= n <= 885:
        ul, off = 17102 + 2 * (n - 512), 950
    elif 259 <= n <= 293:
        ul, off = 4506 + 2 * (n - 259), 100
    elif 306 <= n <= 340:
        ul, off = 4790 + 2 * (n - 306), 100
    elif 350 <= n <= 425:
        ul, off = 8060 + 2 * (n - 350), 450
    elif 438 <= n <= 511:
        ul, off = 7472 + 2 * (n - 438), 300
    else:
        return None
    return ul if uplink else ul + off


STATUS = ["0", "0", "0", "1", "-1", "2", "10", "-10", "255", "00", "+0", "-0", " 0", "\t1", "+", "-", "", "x", "0x10", "1e3",
          "2147483647", "2147483648", "-2147483648", "-2147483649", "4294967295", "4294967296", "4294967297",
          "9223372036854775807", "9223372036854775808", "-9223372036854775808", "-9223372036854775809",
          "18446744073709551616", "99999999999999999999999", "-99999999999999999999999", "0 ", "0\t", "٣"]


def gen_rsp(rng, n):
    """request lines for trx_ctrl_read_cb: toolkit-form replies to emitted commands with every
    kind of status text, then the malformed stream (no status, no space, truncation at every
    position, wrong/partial verb, embedded NUL, missing NUL, tabs, non-ASCII, over-long)"""
    reqs = []
    def line(pend, crit, dg):
        if isinstance(pend, (list, tuple)):
            p = ",".join(hx(x) for x in pend) if pend else "-"
        else:
            p = hx(pend)
        return "tc.rsp %s %d %s" % (p, crit, hx(dg))
    def enc(s):
        return s.encode("utf-8")
    for _ in range(max(2, n // 40)):
        for verb, args, crit in emitted_cmds(rng):
            cmd = "CMD %s%s" % (verb, " " + args if args else "")
            for st in STATUS:
                res = ""
                if verb == "MEASURE":
                    res = pick(rng, [" -55", " -120", " 0", " 47", "", " x", " -", " -55 7", "  -55", " +5", " 99999999999"])
                rsp = "RSP %s %s%s%s" % (verb, st, " " + args if args else "", res)
                reqs.append(line(enc(cmd), pick(rng, [crit, crit, 1 - crit]), enc(rsp) + pick(rng, [b"\0", b"\0", b""])))
    # structured malformations of a valid reply
    for _ in range(n):
        verb, args, crit = pick(rng, emitted_cmds(rng))
        cmd = enc("CMD %s%s" % (verb, " " + args if args else ""))
        res = " %d" % rng.randrange(-120, 1) if verb == "MEASURE" else ""
        good = enc("RSP %s 0%s%s" % (verb, " " + args if args else "", res)) + b"\0"
        m = rng.randrange(12)
        d = bytearray(good)
        if m == 0:
            d = d[:rng.randrange(len(d) + 1)]
        elif m == 1:
            d = bytearray(enc("RSP %s" % verb) + pick(rng, [b"", b"\0", b" ", b" \0", b"  ", b"\t0\0"]))
        elif m == 2:
            for _ in range(rng.randrange(1, 4)):
                d[rng.randrange(len(d))] = pick(rng, [0, 9, 10, 32, 43, 45, 47, 48, 57, 58, 65, 127, 128, 255, rng.randrange(256)])
        elif m == 3:
            d = bytearray(enc("RSP %s 0" % pick(rng, VERBS + [verb[:-1], verb + "X", verb.lower(), ""]))) + b"\0"
        elif m == 4:
            d = bytearray(pick(rng, [b"RSP", b"RSP ", b"RSP  ", b"RSP  0", b"RSP  0\0", b"RS", b"R", b"\0", b"RSP\0", b"CMD POWERON\0",
                                    b"rsp POWERON 0\0", b" RSP POWERON 0\0", b"RSP \0", b"RSP  1", b"RSP   0", b"RSP \t0"]))
        elif m == 5:
            k = rng.randrange(len(d) + 1)
            d[k:k] = bytes(pick(rng, [[0], [32], [32, 32], [9], [0, 0], [255]]))
        elif m == 6:
            d = d.rstrip(b"\0") + bytes(pick(rng, [32, 48, 65, 0]) for _ in range(rng.randrange(1, 40)))
        elif m == 7:       # long datagrams around the buffer size
            d = d.rstrip(b"\0") + b" " + bytes(pick(rng, [48, 49, 32]) for _ in range(pick(rng, [900, 1000, 1010, 1022, 1023, 1024, 1100, 2000]) - len(d)))
        elif m == 8:       # MEASURE result at a shifted offset
            d = bytearray(enc("RSP MEASURE %s %s %s" % (pick(rng, ["0", "00", "-0", "+0", " 0", "0 "]),
                              pick(rng, ["935200", "1805200", "0", "93520", "4294967295", "-1", "65535900", "429496729600"]),
                              pick(rng, ["-55", "x", "", "-2147483649"]))) + b"\0")
            cmd = enc("CMD MEASURE 935200")
        elif m == 9:       # response shorter than the fixed MEASURE offset
            d = bytearray(pick(rng, [b"RSP  0", b"RSP M 0", b"RSP MEASURE 0", b"RSP MEASURE 0\0", b"RSP MEASURE 0 ", b"RSP MEASURE 0 9",
                                    b"RSP MEAS 0 935200 -5", b"RSP MEASURE  0", b"RSP  0 935200 -55\0"]))
            cmd = enc("CMD MEASURE 935200")
        elif m == 10:      # two pending commands: the second one is sent on acceptance
            reqs.append(line([cmd, enc("CMD %s" % pick(rng, ["ECHO", "POWERON", "SETSLOT 1 5"]))], pick(rng, [0, 1]), bytes(d)))
            continue
        else:              # no pending command at all
            reqs.append(line([], 1, bytes(d)))
            continue
        reqs.append(line(cmd, pick(rng, [crit, crit, 1 - crit]), bytes(d)))
    # arbitrary pending text (any octets, short ones: tcm->cmd + 4 lies in the zero fill)
    for _ in range(n // 4):
        pend = bytes(pick(rng, [0, 32, 48, 65, 77, rng.randrange(256)]) for _ in range(pick(rng, [0, 1, 3, 4, 5, 12, 1023])))
        pend = pick(rng, [pend, b"CMD " + pend[:1000], b"CMD MEASURE" + pend[:100], b"CMD POWERONX", b"CMD POWEROFFS 1", b"CMD ECHOO"])
        if not pend:
            pend = b"\0"
        d = b"RSP " + bytes(pick(rng, [0, 32, 48, 49, 65, 77, rng.randrange(256)]) for _ in range(rng.randrange(0, 40)))
        d = pick(rng, [d, b"RSP " + pend[4:40] + b" 0 935200 -70\0", b"RSP " + pend[4:12] + b" 1\0"])
        reqs.append(line(pend, rng.randrange(2), d))
    # truncation of one valid MEASURE / SETFH reply at every position
    for verb, args, crit in emitted_cmds(rng):
        if verb in ("MEASURE", "SETSLOT", "POWERON"):
            cmd = enc("CMD %s%s" % (verb, " " + args if args else ""))
            good = enc("RSP %s 0%s%s" % (verb, " " + args if args else "", " -60" if verb == "MEASURE" else "")) + b"\0"
            for k in range(len(good) + 1):
                reqs.append(line(cmd, crit, good[:k]))
    return reqs


# ----------------------------------------------------------------------------
# tie (C): real trx_if.c (ASan+UBSan build) against the Lean driver, same request lines

DRIFT_FUNCS = ["trx_data_rx_cb", "trx_if_handle_phyif_burst_req", "trx_ctrl_cmd", "trx_ctrl_send", "trx_ctrl_read_cb",
               "trx_if_measure_rsp_cb", "trx_if_cmd_setfh", "trx_if_cmd_setslot", "trx_if_cmd_setta", "trx_if_cmd_measure",
               "trx_if_cmd_rxtune", "trx_if_cmd_txtune", "trx_if_handle_phyif_cmd"]
# hash of the functions above when Model/TrxconIf.lean was written (with the F6 fix applied)
MODEL_SRC_HASH = "4daf7530fea39b4e"


def outcome_class(verb, ans):
    if ans in ("CRASH", "UNINIT", "bad-op"):
        return ans
    f = [x.strip() for x in ans.split("|")]
    if verb == "tc.rxd":
        return "ind" if f[1].startswith("ind") else "rc%s" % f[0]
    if verb == "tc.txd":
        return "sent"
    if verb == "tc.cmd":
        return "rc%s" % f[0]
    return f[1] + ("/elog" if f[3].endswith(" 1") else "")


def requests(run, parts=PARTS, scale=1.0):
    n = int(run.scale(600, 4000) * scale)
    reqs = []
    if "rxd" in parts:
        reqs += gen_rxd(run.rng, n)
    if "txd" in parts:
        reqs += gen_txd(run.rng, n)
    if "cmd" in parts:
        reqs += gen_cmd(run.rng, n)
    if "rsp" in parts:
        reqs += gen_rsp(run.rng, n)
    return reqs


def correspond(run, corr, parts=PARTS):
    """differential run of the real trx_if.c (compiled unchanged from vf.REPO, ASan+UBSan) and
    the Lean model OsmoVerif.Model.TrxconIf on the same request lines (`parts` selects the
    verbs: rxd = trx_data_rx_cb, txd = trx_if_handle_phyif_burst_req, cmd =
    trx_if_handle_phyif_cmd, rsp = trx_ctrl_read_cb).  Disagreements go to
    corr.disagreements, the measured distribution to corr.distribution."""
    exe = build(run)
    h = vf.src_hash_c(TRX_IF_C, DRIFT_FUNCS)
    run.drift["trx_if.c"] = h
    scale = 1.0 if h == MODEL_SRC_HASH else 10.0          # source drift: the hand model may be stale
    if h != MODEL_SRC_HASH:
        corr.notes.append("trx_if.c differs from the source the model was written from: correspondence x10")
    reqs = requests(run, parts, scale)
    impl = vf.run_lines([exe], reqs)
    model = vf.run_driver(reqs)
    # `CRASH` from the model = the unchanged code's behaviour on this request is undefined (it only arises for requests of
    # the L1 side outside the phyif contract, e.g. a burst request longer than the datagram buffer; for datagrams arriving
    # on the sockets trxc_rsp_no_crash / trxd_rx_in_bounds prove it impossible): whatever the code does there refines it
    # whether an ERROR-level log line was written (last number of `st ...` in a tc.rsp answer) is recorded, but log levels and
    # texts are not behaviour any property speaks about: a difference in that flag alone is evidence, not a broken tie
    noelog = lambda a: re.sub(r"(\| st \d+ \d+ -?\d+ -?\d+) [01] \|", r"\1 |", a)
    log_only = {r for r, a, b in zip(reqs, impl, model) if a != b and noelog(a) == noelog(b)}
    corr.distribution["trxcon: answers differing only in the error-log flag (outside the properties)"] = len(log_only)
    def txd_valid(r):
        t = r.split()
        if t[0] != "tc.txd":
            return True
        try:
            return int(t[1]) < 8 and int(t[2]) < H and int(t[4]) in (148, 444) and len(t[5]) == 2 * int(t[4]) and set(bytes.fromhex(t[5])) <= {0, 1}
        except (ValueError, IndexError):
            return False
    def cmd_valid(r):
        # a hopping list of more than 64 channels cannot come out of the L1CTL messages (the Mobile Allocation has 64 entries)
        t = r.split()
        if t[:2] == ["tc.cmd", "SETFREQ_H1"]:
            try:
                return int(t[4]) <= 64
            except (ValueError, IndexError):
                return False
        return True
    def rsp_valid(r):
        # a response whose verb is only a proper PREFIX of the pending command's verb (`RSP POWEROF 0` for POWEROFF, `RSP  0`)
        # is no transceiver's reply to anything: whether the prefix comparison of the unchanged code lets it pass is not
        # what C05 / C14 speak about (no crash is still demanded by the oracle)
        t = r.split()
        if t[0] != "tc.rsp" or t[1] == "-":
            return True
        try:
            cmd = bytes.fromhex(t[1].split(",")[0])
            rsp = bytes.fromhex(t[3])
        except (ValueError, IndexError):
            return True
        # the pending command is trxcon's own: only trx_ctrl_cmd() queues, and it writes `CMD <VERB>[ <arguments>]`; an octet
        # string of another shape in the queue is not an input of anybody (the harness still runs it: evidence)
        if not re.fullmatch(rb"CMD [A-Z][A-Z0-9_]*( [\x20-\x7e]*)?", cmd):
            return False
        if not rsp.startswith(b"RSP "):
            return True
        cv = cmd[4:].split(b" ")[0]
        rv = rsp[4:].split(b" ")[0].rstrip(b"\0")
        return not (rv != cv and cv.startswith(rv))
    corr.compare(reqs, impl, model, in_domain=lambda r: r not in log_only and txd_valid(r) and cmd_valid(r) and rsp_valid(r), model_ub=lambda b: b == "CRASH")
    for r, a in zip(reqs, impl):
        v = r.split(" ", 1)[0]
        corr.count(r, "%s:%s" % (v, outcome_class(v, a)))
    corr.samples += [{"request": r[:300], "impl": a[:300], "model": b[:300]}
                     for r, a, b in [(reqs[i], impl[i], model[i]) for i in sorted(run.rng.sample(range(len(reqs)), min(4, len(reqs))))]]
    corr.rule += (" trxcon: request lines for the real trx_if.c and the Lean model: structured TRXD PDUs over all field "
                  "boundaries, every datagram length 0..520 (+ over-long), foreign versions, FN >= hyperframe; burst requests "
                  "incl. lengths that do not fit; every PHYIF command incl. the SETFH buffer boundary; toolkit-form TRXC replies "
                  "with ~40 status spellings and a malformed stream (no status, no space, every truncation, embedded/missing NUL, "
                  "over-long); a case is a distinct request line.")
    return reqs, impl, model

LEAN_MODULES = ["OsmoVerif.Props.Trxcon"]
LEAN_MODEL_MODULES = ["OsmoVerif.Model.TrxconIf", "OsmoVerif.Lemmas.TrxconIf"]
ASSUMPTIONS = [
    "trxcon side: theorems are about OsmoVerif.Model.TrxconIf, a hand model of trx_data_rx_cb, trx_if_handle_phyif_burst_req, "
    "trx_ctrl_cmd/trx_ctrl_send/trx_if_cmd_*/trx_if_handle_phyif_cmd, trx_ctrl_read_cb/trx_if_measure_rsp_cb of trx_if.c (with the "
    "fix for F6 applied) with C integer widths and buffer capacities; tied to the tree by differential execution of the unchanged "
    "trx_if.c (clang ASan+UBSan, and MSan) on boundary-dense and malformed inputs; buffer sizes, errno values, chan_types[] and the "
    "FSM transition masks regenerated from the compiled translation unit on every run",
    "trxcon environment replaced by harness/c/shim_trxif + harness/c/trxcon/shim_impl.c: talloc -> calloc, logging -> formatting sink, "
    "osmo_fsm_inst_state_chg -> out_state_mask check + recorder, osmo_fsm_inst_term / timers -> recorder, sockets -> "
    "socketpair(AF_UNIX, SOCK_DGRAM); gsm_arfcn2freq10 from the in-tree libosmocore, gsm_freq102arfcn / GSM_TDMA_* / burst lengths / "
    "enum gsm_phys_chan_config transcribed from current libosmocore (the in-tree copy predates them)",
    "modelled, not verified: glibc snprintf truncation, strncmp/strchr/strlen, sscanf %d / %u (strtol/strtoul saturation, then "
    "truncation to 32 bit), read() of a datagram socket (excess octets discarded); memory safety of the binary is sanitizer evidence",
]


# ----------------------------------------------------------------------------
# property oracle on the real code (independent of the Lean model)

CMD_RE = re.compile(r"^CMD [A-Z]+( -?[0-9]+)*$")
# enum gsm_phys_chan_config (libosmocore) -> enum ChannelCombination (osmo-trx): NONE/FILL 0, CCCH = IV,
# CCCH+SDCCH4 (+CBCH) = V, TCH/F = I, TCH/H = III, SDCCH8 (+CBCH) = VII, PDCH = XIII
CHAN_COMB = {0: 0, 1: 4, 2: 5, 3: 1, 4: 3, 5: 7, 6: 13, 9: 5, 10: 7}


def _parse_cmd_answer(ans):
    """(rc, [queued command texts], [sent datagrams as bytes])"""
    f = [x.strip() for x in ans.split("|")]
    rc = int(f[0])
    q = [] if f[1] == "q -" else [bytes.fromhex(x.split(":")[2]) if x.split(":")[2] != "-" else b"" for x in f[1].split()[1:]]
    sent = [] if f[2] == "sent -" else [bytes.fromhex(x) if x != "-" else b"" for x in f[2].split()[1:]]
    return rc, q, sent


def oracle(run, corr, deep, parts=PARTS):
    """property-level checks on the real trx_if.c (ASan+UBSan build, and the MSan build when
    MSan runs here), written from the property texts, not from the Lean model:
      rxd: a version-0 burst laid out per the protocol description is indicated with exactly
           these fields (C04); no datagram makes the callback crash / read out of bounds (C14)
      txd: the emitted datagram is the L1->TRX layout of the request (C04)
      cmd: every emitted command is `CMD <VERB>[ <decimal>]*` NUL-terminated, < TRXC_BUF_SIZE,
           carries the frequencies of the ARFCNs; SETFH has the length the formula gives (C05)
      rsp: the reply the toolkit builds (RSP <VERB> <status> <args>[ <results>]\0) is accepted
           (status 0), rejected as error (critical) or logged; MEASURE returns (arfcn, dBm);
           no datagram makes the parser crash or use uninitialised values (C05, C14)
    Every failing input is reported with run.report_witness; returns the number reported."""
    exe = build(run)
    msan = build_msan(run)
    rng = run.rng
    n = run.scale(300, 2000) * (5 if deep else 1)
    found = 0

    def witness(w):
        nonlocal found
        found += 1 if run.report_witness(w) else 0

    def robust(kind, reqs):
        """no CRASH, and the MSan build (if any) answers the same"""
        out = vf.run_lines([exe], reqs)
        bad = [(r, a) for r, a in zip(reqs, out) if a == "CRASH"]
        if bad:
            witness({"kind": kind + "-crash", "prop": "C14", "request": bad[0][0], "impl": "CRASH (ASan/UBSan abort or signal)",
                     "count": len(bad)})
        if msan:
            out2 = vf.run_lines([msan], reqs)
            for r, a, b in zip(reqs, out, out2):
                if a != b and a != "CRASH":
                    witness({"kind": kind + "-uninit", "prop": "C14", "request": r, "impl": a, "impl_msan": b})
                    break
        corr.distribution["oracle: %s robustness inputs" % kind] = len(reqs)
        return out

    if "rxd" in parts:
        cases = []
        for _ in range(n):
            nb = pick(rng, [148, 148, 444])
            cases.append((rng.randrange(8), rand_fn(rng), -pick(rng, [0, 47, 60, 120, 127, 128, rng.randrange(129)]),
                          pick(rng, [0, -1, 1, 32767, -32768, rng.randrange(-32768, 32768)]), rand_soft(rng, nb),
                          rng.random() < 0.4, pick(rng, [0, 2, 20, rng.randrange(0, 2 ** 32 - H)])))
        reqs = ["tc.rxd %s %d" % (hx(layout_rx(tn, fn, rssi, toa, soft, leg)), adv) for tn, fn, rssi, toa, soft, leg, adv in cases]
        out = vf.run_lines([exe], reqs)
        for (tn, fn, rssi, toa, soft, leg, adv), r, a in zip(cases, reqs, out):
            want = "0 | ind %d %d %d %d %d %s | rts %d %d" % (tn, fn, rssi, toa, len(soft), hx(bytes(x % 256 for x in soft)),
                                                             (fn + adv) % H, tn)
            if a != want:
                witness({"kind": "trxcon-rx-decode", "prop": "C04", "request": r,
                         "fields": {"tn": tn, "fn": fn, "rssi": rssi, "toa256": toa, "nbits": len(soft), "legacy": leg, "fn_advance": adv},
                         "impl": a, "layout_demands": want})
                break
        corr.distribution["oracle: rx layout PDUs"] = len(reqs)
        # FN beyond the hyperframe and foreign versions are not indicated
        reqs = []
        for fn in (H, H + 1, 2 ** 32 - 1):
            reqs.append("tc.rxd %s" % hx(layout_rx(1, 0, -60, 0, [0] * 148, False)[:1] + fn.to_bytes(4, "big") + bytes(151)))
        for r, a in zip(reqs, vf.run_lines([exe], reqs)):
            if " ind " in a:
                witness({"kind": "trxcon-rx-fn-range", "prop": "C04", "request": r, "impl": a[:200],
                         "demanded": "a frame number outside the hyperframe (>= 2715648) is not indicated"})
        robust("trxcon-rx", [r for r in gen_rxd(rng, n)])

    if "txd" in parts:
        # valid Tx messages: a frame number of the hyperframe, 148 or 444 hard bits (what trxcon does with other burst
        # requests is compared with the model in the correspondence, as evidence)
        cases = [(rng.randrange(8), pick(rng, [0, 1, H - 1, rng.randrange(H)]), rng.randrange(256),
                  [rng.randrange(2) for _ in range(pick(rng, [148, 444]))]) for _ in range(n)]
        reqs = ["tc.txd %d %d %d %d %s" % (tn, fn, pwr, len(bits), hx(bytes(bits))) for tn, fn, pwr, bits in cases]
        out = vf.run_lines([exe], reqs)
        for (tn, fn, pwr, bits), r, a in zip(cases, reqs, out):
            want = "0 | %s" % hx(layout_tx(tn, fn, pwr, bits))
            if a != want:
                witness({"kind": "trxcon-tx-layout", "prop": "C04", "request": r, "impl": a, "layout_demands": want})
                break
        corr.distribution["oracle: tx layout requests"] = len(reqs)

    if "cmd" in parts or "rsp" in parts:
        # valid PHYIF commands and what the property demands of the emitted text
        cases = [("RESET", ["CMD POWEROFF", "CMD ECHO"]), ("POWERON", ["CMD POWERON"]), ("POWEROFF", ["CMD POWEROFF"])]
        for _ in range(n // 4):
            a = valid_arfcn(rng)
            cases.append(("MEASURE %d" % a, ["CMD MEASURE %d" % (freq10(a, 0) * 100)]))
            cases.append(("SETFREQ_H0 %d" % a, ["CMD RXTUNE %d" % (freq10(a, 0) * 100), "CMD TXTUNE %d" % (freq10(a, 1) * 100)]))
            ta = rng.randrange(-128, 128)
            cases.append(("SETTA %d" % ta, ["CMD SETTA %d" % ta]))
            tn, pchan = rng.randrange(8), rng.randrange(12)
            cases.append(("SETSLOT %d %d" % (tn, pchan), ["CMD SETSLOT %d %d" % (tn, CHAN_COMB[pchan])] if pchan in CHAN_COMB else None))
        for N in [1, 2, 8, 9, 16, 32, 48, 62, 63, 64] * (2 if not deep else 6):
            ma = [valid_arfcn(rng, False if N > 62 else None) for _ in range(N)]
            hsn, maio = rng.randrange(64), rng.randrange(64)
            cases.append(("SETFREQ_H1 %d %d %d %s" % (hsn, maio, N, " ".join(map(str, ma))),
                          ["CMD SETFH %d %d %s" % (hsn, maio, " ".join("%d %d" % (freq10(x, 0) * 100, freq10(x, 1) * 100) for x in ma))]))
        reqs = ["tc.cmd " + c for c, _ in cases]
        out = vf.run_lines([exe], reqs)
        emitted = []
        for (c, want), r, a in zip(cases, reqs, out):
            if a == "CRASH":
                witness({"kind": "trxcon-cmd-crash", "prop": "C05", "request": r[:300]})
                continue
            rc, q, sent = _parse_cmd_answer(a)
            texts = [x.decode("latin-1") for x in q]
            ok = rc == 0 and texts and all(CMD_RE.match(t) and len(t) + 1 < 1024 for t in texts) \
                and sent == [q[0] + b"\0"] and (want is None or texts == want)
            if not ok:
                witness({"kind": "trxcon-cmd-form", "prop": "C05", "request": r[:300], "impl": a[:400],
                         "demanded": want or "CMD SETSLOT <tn> <type>, NUL-terminated, one datagram"})
                break
            crit = [int(x.split(":")[0]) for x in a.split("|")[1].split()[1:]]
            emitted += list(zip(texts, crit))
        corr.distribution["oracle: emitted commands checked"] = len(emitted)

    if "rsp" in parts:
        # the reply the toolkit builds for a command (ctrl_if.py: "RSP <verb> <status>" + original
        # arguments + results, NUL-terminated), for every kind of emitted command
        cases = []
        kinds = {}
        for t, crit in emitted:
            kinds.setdefault(t.split()[1] + str(min(len(t) // 400, 2)), []).append((t, crit))
        pool = [pick(rng, v) for v in kinds.values() for _ in range(4 if not deep else 20)]
        for t, crit in pool:
            verb, _, args = t[4:].partition(" ")
            for status in [0, 0, pick(rng, [1, -1, 2, 5, 255, -128, 2 ** 31 - 1, -2 ** 31])]:
                res, meas = "", None
                if verb == "MEASURE":
                    dbm = rng.randrange(-120, 1)
                    res = " %d" % dbm
                    arfcn = next((x for x in range(1024) if freq10(x, 0) is not None and freq10(x, 0) * 100 == int(args)), None)
                    if arfcn is None:
                        arfcn = next(x | PCS for x in range(512, 811) if freq10(x | PCS, 0) * 100 == int(args))
                    meas = (arfcn, dbm)
                rsp = ("RSP %s %d%s%s" % (verb, status, " " + args if args else "", res)).encode() + b"\0"
                if len(rsp) <= 1023:
                    cases.append((t, crit, status, meas, "tc.rsp %s %d %s" % (hx(t), crit, hx(rsp))))
        out = vf.run_lines([exe], [c[4] for c in cases])
        for (t, crit, status, meas, r), a in zip(cases, out):
            f = [x.strip() for x in a.split("|")] if a != "CRASH" else ["CRASH"] * 6
            if status == 0:
                ok = f[0] == "0" and f[1] == "accepted" and (meas is None or f[4] == "rsp %d %d" % meas)
                dem = "accepted (return 0, command leaves the queue%s)" % ("" if meas is None else ", MEASURE result %d %d" % meas)
            elif crit:
                ok = f[0] == "-5" and f[1] == "rejected"
                dem = "rejected as error (-EIO, interface terminated)"
            else:
                ok = f[0] == "0" and f[1] == "accepted" and f[3].endswith(" 1")
                dem = "logged, command leaves the queue"
            if not ok:
                witness({"kind": "trxcon-rsp-accept", "prop": "C05", "command": t[:200], "critical": crit, "status": status,
                         "request": r[:400], "impl": a[:300], "demanded": dem})
                break
        corr.distribution["oracle: toolkit-form replies"] = len(cases)
        # a reply to ANOTHER command (verb differs, here in its last letter / by one more letter)
        # is not taken for the pending one
        cases = []
        for t, crit in pool:
            verb, _, args = t[4:].partition(" ")
            for other in (verb[:-1] + ("X" if verb[-1] != "X" else "Y"), verb + "X"):
                rsp = ("RSP %s 0%s" % (other, " " + args if args else "")).encode() + b"\0"
                if len(rsp) <= 1023:
                    cases.append((t, crit, "tc.rsp %s %d %s" % (hx(t), crit, hx(rsp))))
        out = vf.run_lines([exe], [c[2] for c in cases])
        for (t, crit, r), a in zip(cases, out):
            f = [x.strip() for x in a.split("|")]
            if a == "CRASH" or f[1] == "accepted":
                witness({"kind": "trxcon-rsp-mismatch", "prop": "C05", "command": t[:200], "request": r[:400], "impl": a[:300],
                         "demanded": "a response to another command is not accepted for the pending one"})
                break
        corr.distribution["oracle: replies to another verb"] = len(cases)
        robust("trxcon-rsp", gen_rsp(rng, n))
    return found


def replay(run, w):
    """re-run one witness dict reported by `oracle` against the real code of vf.REPO;
    returns (still_failing, text)"""
    exe = build(run)
    kind = w.get("kind", "")
    req = w.get("request")
    if not req or not req.startswith("tc."):
        return True, "witness %s carries no complete request line" % kind
    a = vf.run_lines([exe], [req])[0]
    if kind in ("trxcon-rx-decode", "trxcon-tx-layout"):
        return a != w.get("layout_demands"), "%s -> %s (the layout demands: %s)" % (req[:120], a[:160], str(w.get("layout_demands"))[:160])
    if kind.endswith("-crash"):
        return a == "CRASH", "%s -> %s (demanded: the callback returns)" % (req[:200], a[:200])
    if kind.endswith("-uninit"):
        m = build_msan(run)
        b = vf.run_lines([m], [req])[0] if m else a
        return a != b, "%s -> ASan/UBSan build: %s ; MSan build: %s (demanded: identical, no use of uninitialised values)" % (req[:200], a[:160], b[:160])
    f = [x.strip() for x in a.split("|")] if a != "CRASH" else ["CRASH"] * 6
    if kind == "trxcon-rx-fn-range":
        return " ind " in a, "%s -> %s (demanded: %s)" % (req[:80], a[:80], w.get("demanded"))
    if kind == "trxcon-rsp-mismatch":
        return a == "CRASH" or f[1] == "accepted", "%s -> %s (demanded: %s)" % (req[:200], a[:200], w.get("demanded"))
    if kind == "trxcon-rsp-accept":
        st, crit = w.get("status"), w.get("critical")
        ok = (f[0] == "0" and f[1] == "accepted") if (st == 0 or not crit) else (f[0] == "-5" and f[1] == "rejected")
        return not ok, "%s -> %s (demanded: %s)" % (req[:200], a[:200], w.get("demanded"))
    if kind == "trxcon-cmd-form":
        dem = w.get("demanded")
        rc, q, sent = _parse_cmd_answer(a) if a != "CRASH" else (None, [], [])
        texts = [x.decode("latin-1") for x in q]
        ok = rc == 0 and texts and all(CMD_RE.match(t) for t in texts) and sent == [q[0] + b"\0"] and (not isinstance(dem, list) or texts == dem)
        return not ok, "%s -> %s (demanded: %s)" % (req[:200], a[:300], dem)
    return True, "%s -> %s" % (req[:200], a[:200])
