# C06 — Serial link framing (sercomm/HDLC) delivers every message intact
import json, os
from lib import vf, cbuild
from gen import sercomm as gen_sercomm

ID = "C06"
LEVEL = "proof"
LEAN_MODULES = ["OsmoVerif.Props.C06"]
LEAN_MODEL_MODULES = ["OsmoVerif.Model.Sercomm", "OsmoVerif.Spec.Sercomm", "OsmoVerif.Lemmas.Sercomm"]
ASSUMPTIONS = []
MANIFEST = {}

SAN = ["-fsanitize=address,undefined", "-fno-sanitize-recover=all", "-fno-omit-frame-pointer"]


def gen(run):
    run.consts = gen_sercomm.generate(run)


def build_harness(run):
    """the real sercomm.c + msgb.c + talloc.c, unchanged, under ASan/UBSan; host and target flavour"""
    if getattr(run, "c06_exe", None):
        return run.c06_exe
    fw = os.path.join(vf.REPO, "src/target/firmware")
    lo = os.path.join(vf.REPO, "src/shared/libosmocore/src")
    cfgi = os.path.join(cbuild.SHIM, "cfg/a/b")
    hsrc = os.path.join(vf.ROOT, "harness/c/c06_harness.c")
    msgb = cbuild.obj(run, os.path.join(lo, "msgb.c"), "c06_msgb", flags=SAN, includes=[cfgi, cbuild.LIBOSMO_INC], compiler="clang")
    talloc = cbuild.obj(run, os.path.join(lo, "talloc.c"), "c06_talloc", flags=SAN, includes=[cfgi, cbuild.LIBOSMO_INC], compiler="clang")
    exes = {}
    # host flavour: exactly osmocon's flags (-I firmware/include/comm -DHOST_BUILD)
    inc_h = [cfgi, cbuild.LIBOSMO_INC, os.path.join(cbuild.FW_INC, "comm")]
    sc = cbuild.obj(run, os.path.join(fw, "comm/sercomm.c"), "c06_sercomm_h", flags=SAN + ["-DHOST_BUILD"], includes=inc_h, compiler="clang")
    h = cbuild.obj(run, hsrc, "c06_harness_h", flags=SAN + ["-DHOST_BUILD"], includes=inc_h, compiler="clang")
    exes["host"] = cbuild.link(run, [h, sc, msgb, talloc], "c06_harness_h.bin", flags=SAN, compiler="clang")
    # target flavour: no HOST_BUILD; ARM interrupt primitives from the shim, firmware headers after everything else
    sc = cbuild.obj(run, os.path.join(fw, "comm/sercomm.c"), "c06_sercomm_t", flags=SAN, includes=[cbuild.SHIM, cfgi, cbuild.LIBOSMO_INC],
                    idirafter=[cbuild.FW_INC], compiler="clang")
    h = cbuild.obj(run, hsrc, "c06_harness_t", flags=SAN, includes=[cbuild.SHIM, cfgi, cbuild.LIBOSMO_INC],
                   idirafter=[cbuild.FW_INC], compiler="clang")
    exes["target"] = cbuild.link(run, [h, sc, msgb, talloc], "c06_harness_t.bin", flags=SAN, compiler="clang")
    run.c06_exe = exes
    return exes


def correspond(run, corr):
    exes = build_harness(run)
    reqs = ["sc.run reg 4 send 4 7e7d0041 loop 100", "sc.run reg 0 reg 125 reg 126 send 0 41 send 125 42 send 126 43 loop 100",
            "sc.run send 200 41", "sc.run reg 4 reg 5 send 5 01 send 4 02 send 5 03 send 4 04 pull 3 send 4 05 loop 100",
            "sc.run reg 128 reg 129 reg 4 reg 4 send 128 4142 loop 20 loop 20 loop 5"]
    impl = vf.run_lines([exes["host"]], reqs, env={"ASAN_OPTIONS": "detect_leaks=0"})
    model = vf.run_driver(reqs)
    corr.compare(reqs, impl, model)
    for r, a, b in zip(reqs, impl, model):
        print(r[:80], "|", a[:100], "|", b[:100])
    reqs = [r.replace("sc.run", "sc.runt") for r in reqs]
    impl = vf.run_lines([exes["target"]], reqs, env={"ASAN_OPTIONS": "detect_leaks=0"})
    model = vf.run_driver(reqs)
    corr.compare(reqs, impl, model)


def search(run, corr, deep):
    return 0
