# C06 — Serial link framing (sercomm/HDLC) delivers every message intact
import hashlib, json, os
from lib import vf, cbuild
from gen import sercomm as gen_sercomm
from props import c06_msgb_part as mpart          # second part: msgb.h / msgb.c under the link, osmocon's host side

ID = "C06"
LEVEL = "proof"
LEAN_MODULES = ["OsmoVerif.Props.C06"] + mpart.LEAN_MODULES
DRIVER_MODULES = ["Sercomm"] + mpart.DRIVER_MODULES
LEAN_MODEL_MODULES = ["OsmoVerif.Model.Sercomm", "OsmoVerif.Spec.Sercomm", "OsmoVerif.Lemmas.Sercomm"] + mpart.LEAN_MODEL_MODULES
ASSUMPTIONS = [
    "theorems are about OsmoVerif.Model.Sercomm: a hand model of sercomm_sendmsg, sercomm_drv_pull (priority dequeue loop, flag insertion, in-place escaping, tx.state), sercomm_register_rx_cb, dispatch_rx_msg, sercomm_drv_rx_char (tailroom check first, five states, un-escaping, re-allocation) and the msgb operations they use; the wire between transmitter and receiver is loss-free and in order (each pulled octet is fed to the receiver)",
    "model tied to the repo by differential execution of the unchanged sercomm.c (+ in-tree msgb.c, talloc.c) built both as osmocon builds it (-DHOST_BUILD, 2048 octet buffer) and as the firmware builds it (256), under clang ASan+UBSan, on whole histories (send / pull / loop / rx, registrations, garbage, out-of-range DLCIs)",
    "HDLC_FLAG/ESCAPE/C_UI, SERCOMM_RX_MSG_SIZE (both builds), queue/handler array sizes, enum rx_state, the escape bit of either side and the room of sercomm_alloc_msgb buffers are regenerated from the tree on every run and used by the theorems",
    "end_to_end_partial excludes two recorded findings: F10 (DLCI 0x00/0x7D/0x7E are not transparent) and F17 (flag-free noise directly after an over-long frame is parsed as a frame); for both the unrestricted statement is kept as a def and its negation is proved with the witness that is replayed on the real code on every run",
    "not modelled: allocation failure of sercomm_alloc_msgb, interrupt/FIQ preemption inside the lock/unlock sections (the model's steps are the atomic sections), the UART; memory safety of the compiled binary is sanitizer evidence, the theorem rx_len_le_cap is about the model's explicit capacity",
] + mpart.ASSUMPTIONS
MANIFEST = {
    "text": "Lean 4 theorems over a statement-level model of the transmit and receive state machines of sercomm.c: wire format of a frame and absence of flag/zero octets inside it, delivery of a frame by the receiver, simulation of transmitter+wire+receiver by an abstract priority link for every interleaving of sendmsg/pull/noise and over-long frames anywhere (delivered messages and pulled octets equal the abstract link's), per-DLCI FIFO / exactly-once / lowest-DLCI-first / drain of the abstract link, bounded loss after an over-long frame, receive-buffer bound for every octet stream; constants regenerated from the tree; the model is compared with the unchanged C under ASan/UBSan on structured histories (escape-dense payloads, every octet value at every position, lengths around the buffer size, noise, over-long frames, many DLCIs, partial pulls); an independent Python oracle states the property on the real code",
    "note": "trusted: Lean kernel (+propext, Classical.choice, Quot.sound), gen/sercomm.py, the differential harness harness/c/c06_harness.c (osmo_panic and uart_irq_enable stubs only), shim asm/system.h for the target flavour; recorded findings F10, F17 delimit the _partial theorems",
    "technique": "Lean 4 proof (induction over octet streams and histories, simulation relation) over a hand model; differential correspondence with the sanitizer-instrumented C",
    "design_ref": "DESIGN.md section 5 C06, section 7 F10",
}

SAN = ["-fsanitize=address,undefined", "-fno-sanitize-recover=all", "-fno-omit-frame-pointer"]
ENV = {"ASAN_OPTIONS": "detect_leaks=0:abort_on_error=0", "UBSAN_OPTIONS": "print_stacktrace=0"}
FLAG, ESC = 0x7E, 0x7D
ECHO = 128
# AST-normalised hash of the modelled functions of sercomm.c when Model/Sercomm.lean was written; a different
# hash is not an alarm, it multiplies the number of generated histories (the hand model may be stale)
MODEL_SRC_HASH = "a3eee58f8de35e1d"
NDLCI = 129
IN_TREE = [4, 5, 9, 10]          # DLCIs with user handlers in the code base (128 = echo)
VERB = {"host": "sc.run", "target": "sc.runt"}


def gen(run):
    run.consts = gen_sercomm.generate(run)
    mpart.gen(run)


def caps(run):
    """payload octets the receive buffer holds, per flavour (from the translator; if the translator could not
    run the code, the sizes it did read, slack 0)"""
    c = getattr(run, "consts", None)
    if not c:
        try:
            c = gen_sercomm.generate(run)
        except Exception:
            c = getattr(run, "consts", None) or {"host": {}, "target": {}}
    slack = max(0, c["host"].get("alloc_slack", 0))
    return {"host": c["host"].get("rx_msg_size", 2048) + slack,
            "target": c["target"].get("rx_msg_size", 256) + slack}


def build_harness(run):
    """the real sercomm.c + msgb.c + talloc.c, unchanged, under ASan/UBSan; host and target flavour"""
    if getattr(run, "c06_exe", None):
        return run.c06_exe
    fw = os.path.join(vf.REPO, "src/target/firmware")
    lo = os.path.join(vf.REPO, "src/shared/libosmocore/src")
    cfgi = os.path.join(cbuild.SHIM, "cfg/a/b")
    hsrc = os.path.join(vf.ROOT, "harness/c/c06_harness.c")
    msgb = cbuild.obj(run, os.path.join(lo, "msgb.c"), "c06_msgb", flags=SAN, includes=[cfgi, cbuild.LIBOSMO_INC], compiler="clang")
    talloc = cbuild.obj(run, os.path.join(lo, "talloc.c"), "c06_talloc", flags=SAN, includes=[cfgi, cbuild.LIBOSMO_INC], compiler="clang")
    exes = {}
    # host flavour: exactly osmocon's flags (-I firmware/include/comm -DHOST_BUILD)
    inc_h = [cfgi, cbuild.LIBOSMO_INC, os.path.join(cbuild.FW_INC, "comm")]
    from gen import sercomm as _sg
    sc = [cbuild.obj(run, q, "c06_sercomm_h%d" % i, flags=SAN + ["-DHOST_BUILD"], includes=inc_h, compiler="clang") for i, q in enumerate(_sg.sercomm_sources())]
    h = cbuild.obj(run, hsrc, "c06_harness_h", flags=SAN + ["-DHOST_BUILD"], includes=inc_h, compiler="clang")
    exes["host"] = cbuild.link(run, [h] + sc + [msgb, talloc], "c06_harness_h.bin", flags=SAN, compiler="clang")
    # target flavour: no HOST_BUILD; ARM interrupt primitives from the shim, firmware headers after everything else
    inc_t = [cbuild.SHIM, cfgi, cbuild.LIBOSMO_INC]
    sc = [cbuild.obj(run, q, "c06_sercomm_t%d" % i, flags=SAN, includes=inc_t, idirafter=[cbuild.FW_INC], compiler="clang") for i, q in enumerate(_sg.sercomm_sources())]
    h = cbuild.obj(run, hsrc, "c06_harness_t", flags=SAN, includes=inc_t, idirafter=[cbuild.FW_INC], compiler="clang")
    exes["target"] = cbuild.link(run, [h] + sc + [msgb, talloc], "c06_harness_t.bin", flags=SAN, compiler="clang")
    run.c06_exe = exes
    return exes


def run_impl(run, flavour, lines):
    exes = build_harness(run)
    return vf.run_lines([exes[flavour]], lines, env=ENV)


# ----------------------------------------------------------------------------
# the protocol as the property states it (independent of the C code and of the Lean model)

def hx(b):
    return bytes(b).hex() if len(b) else "-"


def esc(octets):
    out = []
    for c in octets:
        if c in (0x7E, 0x7D, 0x00):
            out += [0x7D, c ^ 0x20]
        else:
            out.append(c)
    return out


def frame(d, p):
    return [FLAG] + esc([d, 0x03] + list(p)) + [FLAG]


# ----------------------------------------------------------------------------
# scenario generators.  A scenario is (regs, ops); ops are ("send", d, payload) | ("loop", n) |
# ("pull", n) | ("rx", octets) | ("reg", d).

def line_of(flavour, regs, ops):
    t = [VERB[flavour]]
    for d in regs:
        t += ["reg", str(d)]
    for op in ops:
        if op[0] == "send":
            t += ["send", str(op[1]), hx(op[2])]
        elif op[0] in ("loop", "pull", "reg"):
            t += [op[0], str(op[1])]
        elif op[0] == "rx":
            t += ["rx", hx(op[1])]
    return " ".join(t)


def rand_payload(rng, n, style=None):
    style = style or rng.choice(["dense", "dense", "any", "any", "plain", "one"])
    if style == "dense":       # escape-dense: mostly the three special octets and their escaped images
        pool = [0x7E, 0x7D, 0x00, 0x5E, 0x5D, 0x20, 0x03, 0xFF]
        return [rng.choice(pool) for _ in range(n)]
    if style == "any":
        return [rng.randrange(256) for _ in range(n)]
    if style == "one":
        c = rng.choice([0x7E, 0x7D, 0x00, 0x41])
        return [c] * n
    return [rng.randrange(1, 0x7D) for _ in range(n)]


def rand_len(rng, cap, allow_over):
    r = rng.random()
    if r < 0.45:
        return rng.choice([0, 1, 2, 3]) if rng.random() < 0.5 else rng.randrange(0, 24)
    if r < 0.65:
        return rng.randrange(0, cap)
    if r < 0.85 or not allow_over:
        return max(0, cap - rng.choice([1, 2, 3]))            # cap-1, cap-2, cap-3 (cap-1 is the longest valid)
    return cap + rng.choice([0, 0, 1, 1, 2, 3, rng.randrange(4, 40), rng.randrange(40, cap + 50)])


def noise(rng, n=None):
    n = rng.choice([1, 2, 3, 4, 7, 20]) if n is None else n
    pool = [0x00, 0x7D, 0x7D, 0x03, 0x04, 0x05, 0x5E, 0xFF] + [rng.randrange(256) for _ in range(4)]
    return [c for c in (rng.choice(pool) for _ in range(n)) if c != FLAG] or [0x55]


class Link:
    """the abstract link of the property, used to place noise between frames and to say what must arrive:
    waiting messages; at a frame start the oldest one of the lowest DLCI; a frame occupies the line for
    len(frame) octets.  `fragile`: the last frame that passed did not fit the buffer, so the next one may be lost."""

    def __init__(self, cap):
        self.cap = cap
        self.pending = []
        self.cur = None          # [msg, octets left]
        self.fragile = False
        self.done = []           # (d, payload, kind) in the order the frames passed; kind: must | may | never
        self.wire_len = 0

    def send(self, d, p):
        self.pending.append((d, list(p)))

    def octet(self):
        if self.cur is None:
            if not self.pending:
                return False
            low = min(m[0] for m in self.pending)
            i = next(i for i, m in enumerate(self.pending) if m[0] == low)
            m = self.pending.pop(i)
            self.cur = [m, len(frame(*m)) - 1]
            self.wire_len += 1
            return True
        self.cur[1] -= 1
        self.wire_len += 1
        if self.cur[1] == 0:
            d, p = self.cur[0]
            if len(p) > self.cap:
                kind = "never"           # over-long: discarded
                self.fragile = True
            elif len(p) == self.cap:
                kind = "may"             # fills the buffer exactly: neither promised nor forbidden
                self.fragile = True
            else:
                kind = "may" if self.fragile else "must"
                self.fragile = False
            self.done.append((d, p, kind))
            self.cur = None
        return True

    def loop(self, n):
        for _ in range(n):
            if not self.octet():
                break

    def due(self):
        return (self.cur[1] if self.cur else 0) + sum(len(frame(*m)) for m in self.pending)


def gen_loopback(rng, cap, dlcis, n_msgs, allow_over=True, allow_noise=True, noise_when_fragile=False):
    """an in-property history: sends on `dlcis`, partial loops, noise between frames; drained at the end"""
    link = Link(cap)
    ops = []
    sent = 0
    while sent < n_msgs or link.due():
        r = rng.random()
        if sent < n_msgs and (r < 0.45 or not link.due()):
            d = rng.choice(dlcis)
            p = rand_payload(rng, rand_len(rng, cap, allow_over))
            ops.append(("send", d, p))
            link.send(d, p)
            sent += 1
        elif r < 0.9:
            due = link.due()
            n = rng.choice([1, 1, 2, 3, 5, rng.randrange(1, 40), due, due + 3]) if due else 1
            if sent >= n_msgs and rng.random() < 0.3:
                n = due + 2
            ops.append(("loop", n))
            link.loop(n)
        elif allow_noise and link.cur is None and (noise_when_fragile or not link.fragile):
            ops.append(("rx", noise(rng)))
    return ops, link


# ----------------------------------------------------------------------------
# answers

def parse_answer(ans):
    """-> dict(crash, pulled [octets], callbacks [(d, payload)], overflows, empties, regs)"""
    res = {"crash": False, "pulled": [], "callbacks": [], "overflows": 0, "empties": 0, "regs": [], "bad": False}
    if ans == "CRASH":
        res["crash"] = True
        return res
    if ans in ("ok", ""):
        return res
    if ans == "bad-op":
        res["bad"] = True
        return res
    for t in ans.split():
        if t.startswith("p:"):
            res["pulled"] += list(bytes.fromhex(t[2:])) if t[2:] != "-" else []
        elif t.startswith("c:"):
            _, d, h = t.split(":")
            res["callbacks"].append((int(d), list(bytes.fromhex(h)) if h != "-" else []))
        elif t == "o":
            res["overflows"] += 1
        elif t == "e":
            res["empties"] += 1
        elif t.startswith("g:"):
            res["regs"].append(int(t[2:]))
        else:
            res["bad"] = True
    return res


def match_deliveries(expected, got):
    """expected: [(d, p, kind)], got: [(d, p)].  True iff `got` is `expected` with every `must` present, every
    `never` absent, each `may` present or absent, in order."""
    memo = {}

    def go(i, j):
        if (i, j) in memo:
            return memo[(i, j)]
        if i == len(expected):
            r = j == len(got)
        else:
            d, p, kind = expected[i]
            hit = j < len(got) and got[j] == (d, p)
            if kind == "must":
                r = hit and go(i + 1, j + 1)
            elif kind == "never":
                r = go(i + 1, j)
            else:
                r = (hit and go(i + 1, j + 1)) or go(i + 1, j)
        memo[(i, j)] = r
        return r

    import sys
    sys.setrecursionlimit(max(10000, sys.getrecursionlimit()))
    return go(0, 0)


def check_wire(pulled, complete):
    """frames on the wire: flag, octets none of which is a flag or zero, flag; nothing between frames.
    `complete`: the stream must end with a closing flag.  Returns None or a description."""
    i, n = 0, len(pulled)
    while i < n:
        if pulled[i] != FLAG:
            return "octet %d (0x%02x) outside a frame" % (i, pulled[i])
        j = i + 1
        while j < n and pulled[j] != FLAG:
            if pulled[j] == 0x00:
                return "unescaped zero octet inside a frame at offset %d" % j
            j += 1
        if j >= n:
            return "frame not closed" if complete else None
        if j == i + 1:
            return "empty frame (two flags) at offset %d" % i
        i = j + 1
    return None


def judge(link, ans):
    """the property on one drained in-property history; None or a reason"""
    a = parse_answer(ans)
    if a["crash"]:
        return "crash (sanitizer report / abort)"
    if a["bad"]:
        return "harness could not run the history: %s" % ans[:80]
    w = check_wire(a["pulled"], complete=True)
    if w:
        return "wire format: " + w
    if len(a["pulled"]) != link.wire_len:
        return "pulled %d octets, the frames of the queued messages have %d" % (len(a["pulled"]), link.wire_len)
    if not match_deliveries(link.done, a["callbacks"]):
        def show(p):
            return hx(p) if len(p) <= 12 else "%s..(%d octets)" % (hx(p[:6]), len(p))
        exp = ["%d:%s:%s" % (d, show(p), k) for d, p, k in link.done]
        got = ["%d:%s" % (d, show(p)) for d, p in a["callbacks"]]
        return "deliveries differ: the property requires (dlci:payload:must/may/never be delivered) %s, callbacks made %s" % (exp[:12], got[:12])
    return None


# ----------------------------------------------------------------------------
# correspondence

def corr_requests(run, flavour, cap, scale):
    rng = run.rng
    reqs = []          # (line, bucket, in-property case or None)

    def add(regs, ops, bucket, link=None):
        case = None
        if link is not None:
            case = {"flavour": flavour, "regs": list(regs), "ops": ops, "link": link, "kind": "loopback"}
        reqs.append((line_of(flavour, regs, ops), bucket, case))

    def drained(ops):
        link = Link(cap)
        for op in ops:
            if op[0] == "send":
                link.send(op[1], op[2])
            elif op[0] == "loop":
                link.loop(op[1])
        return link

    # 1. in-property loopback histories, many DLCIs
    for k in range(scale(200, 1500) if flavour == "target" else scale(40, 200)):
        pool = rng.sample([d for d in range(1, 128) if d not in (0x7D, 0x7E)], rng.choice([1, 2, 3, 6])) + \
            rng.sample(IN_TREE, rng.choice([1, 2, 4]))
        ops, link = gen_loopback(rng, cap, pool, rng.choice([1, 2, 3, 5, 9]), allow_over=(k % 3 == 0))
        add(sorted(set(pool)), ops, "loopback", link)
    # 2. every octet value at every payload position (rotations of 0..255), longest valid payload
    ks = range(256) if flavour == "target" or run.thorough else sorted(rng.sample(range(256), 24))
    for k in ks:
        p = [(i + k) % 256 for i in range(cap - 1)]
        ops = [("send", 5, p), ("loop", 3 * cap)]
        add([5], ops, "all-octets-all-positions", drained(ops))
    # 3. lengths around the buffer size x contents, each followed by two short frames
    for ln in (cap - 3, cap - 2, cap - 1, cap, cap + 1, cap + 2, cap + 3, 2 * cap + 1):
        for style in ("one", "dense", "plain"):
            p = rand_payload(rng, ln, style)
            ops = [("send", 4, p), ("send", 4, [1]), ("send", 9, [2, 0x7E]), ("loop", 3 * ln + 40)]
            add([4, 9], ops, "length-boundary", drained(ops))
            add([4, 9], [("rx", frame(4, p) + frame(9, [0x7D]) + frame(4, [0]))], "length-boundary")
    # 4. receiver alone: frames, noise, over-long frames anywhere, garbage with flags, truncated frames,
    #    escape before flag, empty frames, unregistered / out-of-table addresses
    for k in range(scale(250, 2000) if flavour == "target" else scale(40, 250)):
        regs = sorted(set(rng.sample(range(0, 140), 3) + rng.sample(IN_TREE, 2)))
        stream = []
        for _ in range(rng.choice([1, 2, 4, 8])):
            r = rng.random()
            d = rng.choice(regs + [rng.randrange(256), 0x7E, 0x7D, 0x00, ECHO])
            if r < 0.45:
                stream += frame(d, rand_payload(rng, rand_len(rng, cap, False)))
            elif r < 0.6:
                stream += frame(d, rand_payload(rng, rand_len(rng, cap, True)))
            elif r < 0.75:
                stream += noise(rng)
            elif r < 0.85:
                stream += [rng.choice([FLAG, FLAG, ESC, 0x00, rng.randrange(256)]) for _ in range(rng.randrange(1, 12))]
            elif r < 0.92:
                f = frame(d, rand_payload(rng, rng.randrange(0, 12)))
                stream += f[:rng.randrange(1, len(f))]
            else:
                stream += [FLAG, d, 0x03, 0x41, ESC, FLAG, 0x42, FLAG]
        # cut into several rx ops (chunking must not matter)
        ops, i = [], 0
        while i < len(stream):
            n = rng.choice([1, 2, 5, 17, len(stream)])
            ops.append(("rx", stream[i:i + n]))
            i += n
        add(regs, ops or [("rx", [])], "rx-stream")
    # 5. outside the property: transmitter-only pulls mixed with loops (octets lost on the wire), late and
    #    repeated registrations, echo DLCI, queue index beyond the array
    for k in range(scale(100, 800) if flavour == "target" else scale(20, 100)):
        regs = rng.sample(range(0, 129), 3)
        ops = []
        for _ in range(rng.randrange(2, 14)):
            r = rng.random()
            if r < 0.4:
                ops.append(("send", rng.choice(regs + [ECHO, rng.randrange(0, 129)]), rand_payload(rng, rng.randrange(0, 20))))
            elif r < 0.6:
                ops.append(("pull", rng.choice([1, 2, 3, 7, 50])))
            elif r < 0.85:
                ops.append(("loop", rng.choice([1, 2, 5, 30, 200])))
            elif r < 0.93:
                ops.append(("reg", rng.choice(regs + [ECHO, 129, 200, 255, rng.randrange(256)])))
            else:
                ops.append(("rx", noise(rng) + ([FLAG] if rng.random() < 0.5 else [])))
        add(regs, ops, "mixed")
    for d in (129, 130, 200, 255):
        add([4], [("send", 4, [1]), ("send", d, [2]), ("loop", 20)], "queue-index-out-of-range")
    # 6. the two recorded findings, as histories
    for d in (0x00, 0x7D, 0x7E):
        add([0, 0x7D, 0x7E], [("send", d, [0x41, d]), ("loop", 20)], "F10")
    over = [0x41] * (cap + 1)
    add([4, 5], [("rx", frame(4, over) + [5, 3, 0x61, 0x62] + frame(4, [1]) + frame(4, [2]) + frame(4, [3]))], "F17")
    return reqs


def without_rx_rc(ans):
    """the observation without the `o` tokens (a sercomm_drv_rx_char() call returned 0), runs of pulled octets merged again"""
    out = []
    for t in ans.split():
        if t == "o":
            continue
        if t.startswith("p:") and out and out[-1].startswith("p:"):
            out[-1] += t[2:]
        else:
            out.append(t)
    return " ".join(out)


def correspond(run, corr):
    build_harness(run)
    cp = caps(run)
    src = os.path.join(vf.REPO, "src/target/firmware/comm/sercomm.c")
    run.drift["sercomm.c"] = vf.src_hash_c(src, ["sercomm_sendmsg", "sercomm_drv_pull", "sercomm_register_rx_cb",
                                                 "dispatch_rx_msg", "sercomm_drv_rx_char", "sercomm_init"])
    samples = []
    drifted = run.drift["sercomm.c"] != MODEL_SRC_HASH
    if drifted:
        corr.notes.append("source of the modelled functions changed since the model was written: 4x histories")
    scale = (lambda q, t: run.scale(q, t) * 4) if drifted else run.scale
    for flavour in ("target", "host"):
        rq = corr_requests(run, flavour, cp[flavour], scale)
        lines = [r[0] for r in rq]
        impl = run_impl(run, flavour, lines)
        model = vf.run_driver(lines)
        for l, a, b in zip(lines, impl, model):
            if a != b and b == "CRASH" and a != "CRASH":
                # the model marks the unchanged code's behaviour as undefined here (queue index beyond the DLCI table:
                # outside the property's "DLCIs with a registered handler"); a guard that defines it is not a broken tie
                corr.outside += 1
                if len(corr.outside_samples) < 5:
                    corr.outside_samples.append({"request": l[:300], "impl": a[:200], "model": b})
                continue
            if a != b and without_rx_rc(a) == without_rx_rc(b):
                # only the return value of sercomm_drv_rx_char() differs (token `o` = a call returned 0): what is delivered,
                # pulled and in which order is the same - the property does not speak about that return value
                corr.outside += 1
                if len(corr.outside_samples) < 5:
                    corr.outside_samples.append({"request": l[:300], "impl": a[:200], "model": b[:200]})
                continue
            if a != b and len(corr.disagreements) < 50:
                i = next((k for k in range(min(len(a), len(b))) if a[k] != b[k]), min(len(a), len(b)))
                corr.disagreements.append({"request": l[:1500], "first_difference_at": i,
                                           "impl": a[max(0, i - 80):i + 200], "model": b[max(0, i - 80):i + 200]})
        run.c06_corr_cases = getattr(run, "c06_corr_cases", []) + [(c, l, a) for (l, _, c), a in zip(rq, impl) if c]
        run.c06_first_part = getattr(run, "c06_first_part", []) + [(flavour, lines, impl)]
        for (l, bucket, _), a in zip(rq, impl):
            corr.count(hashlib.md5(l.encode()).hexdigest()[:16], "%s:%s" % (flavour, bucket))
            pa = parse_answer(a)
            corr.distribution["callbacks"] = corr.distribution.get("callbacks", 0) + len(pa["callbacks"])
            corr.distribution["octets pulled"] = corr.distribution.get("octets pulled", 0) + len(pa["pulled"])
            corr.distribution["overflow returns"] = corr.distribution.get("overflow returns", 0) + pa["overflows"]
            corr.distribution["CRASH answers (out-of-range queue index)"] = corr.distribution.get("CRASH answers (out-of-range queue index)", 0) + pa["crash"]
        samples += [{"request": l[:300], "impl": a[:300], "model": b[:300]} for l, a, b in list(zip(lines, impl, model))[:3]]
    corr.rule = ("a case is one history on a fresh sercomm instance (distinct request line), host (2048) and target (256) flavour: "
                 "in-property loopback histories with random interleaving of send/loop/noise over many DLCIs and payload lengths around "
                 "the buffer size; rotations of 0..255 as payload (every octet value at every position); length boundaries cap-3..cap+3, 2cap+1 "
                 "x contents; receiver-only streams (frames, noise, over-long frames anywhere, garbage with flags, truncated frames, escape "
                 "before flag, unregistered and out-of-table addresses) in random chunking; out-of-property mixes (transmitter-only pulls, "
                 "late/duplicate registration, echo DLCI, queue index beyond the array); the F10 and F17 histories. All are non-trivial.")
    corr.samples = samples
    mpart.correspond(run, corr, getattr(run, "c06_first_part", []))


# ----------------------------------------------------------------------------
# property oracle on the real code

def oracle_cases(run, flavour, cap, n):
    """in-property histories (registered, transparent DLCIs; noise only between frames and not right after an
    over-long frame) with what the property lets the handlers see"""
    rng = run.rng
    cases = []
    for k in range(n):
        style = k % 4
        if style == 0:       # the DLCIs of the code base
            pool = IN_TREE
        elif style == 1:
            pool = rng.sample([d for d in range(1, 128) if d not in (0x7D, 0x7E)], rng.choice([1, 3, 8]))
        elif style == 2:     # neighbours of the special values and the ends of the table
            pool = [1, 2, 0x7C, 0x7F, 0x5E, 0x5D, 0x20, 127]
        else:
            pool = rng.sample(IN_TREE, 2) + [rng.randrange(1, 0x7D)]
        ops, link = gen_loopback(rng, cap, pool, rng.choice([1, 2, 4, 8, 12]), allow_over=(k % 2 == 0))
        cases.append({"flavour": flavour, "regs": sorted(set(pool)), "ops": ops, "link": link, "kind": "loopback"})
    return cases


def f10_cases(run, flavour, cap):
    """every DLCI of the table (except the echo DLCI) carries a message to its own handler"""
    cases = []
    for d in range(0, NDLCI):
        if d == ECHO:
            continue
        link = Link(cap)
        p = [0x41, d, 0x7E]
        link.send(d, p)
        link.loop(100)
        cases.append({"flavour": flavour, "regs": [d], "ops": [("send", d, p), ("loop", 100)], "link": link,
                      "kind": "dlci-not-transparent", "dlci": d})
    return cases


def f17_cases(run, flavour, cap):
    """flag-free noise directly after an over-long frame, then valid frames"""
    rng = run.rng
    cases = []
    for nz in ([5], [5, 3], [5, 3, 0x61, 0x62], noise(rng, 3), noise(rng, 9), [4] * (cap + 5)):
        link = Link(cap)
        msgs = [(4, [0x41] * (cap + 1 + rng.randrange(0, 3)))] + [(rng.choice([4, 5]), [i + 1, 0x7E]) for i in range(5)]
        ops = []
        d, p = msgs[0]
        ops += [("send", d, p), ("loop", len(frame(d, p)))]
        link.send(d, p)
        link.loop(len(frame(d, p)))
        ops.append(("rx", nz))
        for d, p in msgs[1:]:
            ops += [("send", d, p), ("loop", len(frame(d, p)))]
            link.send(d, p)
            link.loop(len(frame(d, p)))
        cases.append({"flavour": flavour, "regs": [4, 5], "ops": ops, "link": link, "kind": "noise-after-overlong",
                      "noise": nz[:16], "valid_after": [(d, p) for d, p in msgs[1:]]})
    return cases


def witness_of(case, line, ans, why):
    w = {"kind": case["kind"], "flavour": case["flavour"], "line": line, "impl": ans[:4000], "why": why,
         "expected": [(d, hx(p)[:80], k) for d, p, k in case["link"].done][:40],
         "history": {"regs": list(case["regs"]), "cap": case["link"].cap,
                     "ops": [[op[0], op[1]] + ([list(op[2])] if op[0] == "send" else []) if op[0] != "rx" else ["rx", list(op[1])]
                             for op in case["ops"]]}}
    if "dlci" in case:
        w["dlci"] = case["dlci"]
    if case["kind"] == "noise-after-overlong":
        a = parse_answer(ans)
        valid = case["valid_after"]
        got = list(a["callbacks"])
        lost = 0
        for m in valid:
            if m in got:
                got.remove(m)
            else:
                lost += 1
        w["lost"] = lost
        w["spurious"] = len(got)
        w["noise"] = case["noise"]
        if a["crash"]:
            w["kind"] = "crash"
    elif parse_answer(ans)["crash"]:
        w["kind"] = "crash"
    return w


def shrink(run, case, cap):
    """greedy reduction of a failing in-property history: drop sends / noise / loops, halve or empty payloads; after
    every change the history is re-drained and must still be in-property (noise only between frames) and still fail"""
    if case["kind"] != "loopback":
        return case
    ops = list(case["ops"])
    budget = 120

    def candidates(ops):
        for i, op in enumerate(ops):
            yield ops[:i] + ops[i + 1:]
        for i, op in enumerate(ops):
            if op[0] == "send" and len(op[2]) > 0:
                p = op[2]
                for q in ([], p[:len(p) // 2], p[len(p) // 2:], p[:-1], p[1:]):
                    if len(q) < len(p):
                        yield ops[:i] + [("send", op[1], q)] + ops[i + 1:]

    def rebuild(cand):
        link = Link(cap)
        out = []
        for op in cand:
            if op[0] == "send":
                link.send(op[1], op[2])
            elif op[0] == "loop":
                link.loop(op[1])
            elif op[0] == "rx" and (link.cur is not None or link.fragile):
                return None, None
            out.append(op)
        if link.due():
            out.append(("loop", link.due() + 2))
            link.loop(link.due() + 2)
        return out, link

    improved = True
    while improved and budget > 0:
        improved = False
        for cand in candidates(ops):
            if budget <= 0:
                break
            out, link = rebuild(cand)
            if out is None or out == ops:
                continue
            budget -= 1
            line = line_of(case["flavour"], case["regs"], out)
            ans = run_impl(run, case["flavour"], [line])[0]
            if judge(link, ans):
                ops = out
                case = dict(case, ops=out, link=link)
                improved = True
                break
    used = sorted({op[1] for op in case["ops"] if op[0] == "send"})
    if used and used != case["regs"]:
        c2 = dict(case, regs=used)
        ans = run_impl(run, case["flavour"], [line_of(case["flavour"], used, case["ops"])])[0]
        if judge(case["link"], ans):
            case = c2
    return case


def search(run, corr, deep):
    """the property, stated independently in Python (class Link, frame, check_wire, match_deliveries), evaluated on
    the real C: everything queued is delivered once, intact, lowest DLCI first / FIFO; frames contain no flag or
    zero octet; an over-long frame costs at most the frame after it; no sanitizer report."""
    cp = caps(run)
    found = 0
    total = 0
    # the in-property histories of the correspondence run, judged on the answers the real code gave
    seen = set()
    for c, line, ans in getattr(run, "c06_corr_cases", []):
        total += 1
        why = judge(c["link"], ans)
        if why and c["flavour"] not in seen:
            seen.add(c["flavour"])
            c = shrink(run, c, cp[c["flavour"]])
            line = line_of(c["flavour"], c["regs"], c["ops"])
            ans = run_impl(run, c["flavour"], [line])[0]
            found += bool(run.report_witness(witness_of(c, line, ans, judge(c["link"], ans) or why)))
    for flavour in ("target", "host"):
        cap = cp[flavour]
        n = run.scale(400, 3000) if flavour == "target" else run.scale(60, 400)
        if deep:
            n *= 6
        cases = oracle_cases(run, flavour, cap, n) + f10_cases(run, flavour, cap) + f17_cases(run, flavour, cap)
        # every octet value at every position, longest valid payload, through the real code (deep / thorough: all rotations)
        ks = range(256) if (deep or run.thorough or flavour == "target") else sorted(run.rng.sample(range(256), 16))
        for k in ks:
            link = Link(cap)
            p = [(i * 7 + k) % 256 for i in range(cap - 1)]
            link.send(9, p)
            link.loop(3 * cap)
            cases.append({"flavour": flavour, "regs": [9], "ops": [("send", 9, p), ("loop", 3 * cap)], "link": link, "kind": "loopback"})
        lines = [line_of(flavour, c["regs"], c["ops"]) for c in cases]
        answers = run_impl(run, flavour, lines)
        total += len(lines)
        reported = set()
        per_kind = {}
        for c, line, ans in zip(cases, lines, answers):
            why = judge(c["link"], ans)
            if not why:
                continue
            crashed = parse_answer(ans)["crash"]
            key = ("crash",) if crashed else (c["kind"], c.get("dlci"), tuple(c.get("noise", ())))
            if key in reported:
                continue
            if c["kind"] == "loopback":
                if key in reported:
                    continue
                c = shrink(run, c, cap)
                line = line_of(flavour, c["regs"], c["ops"])
                ans = run_impl(run, flavour, [line])[0]
                why = judge(c["link"], ans) or why
            reported.add(key)
            w = witness_of(c, line, ans, why)
            if run.known_match(w) is None:
                per_kind[w["kind"]] = per_kind.get(w["kind"], 0) + 1
                if per_kind[w["kind"]] > 3:
                    continue
            found += bool(run.report_witness(w))
    corr.distribution["oracle: histories judged on the real code"] = total
    found += mpart.oracle(run, corr, deep)
    return found


def replay(run, path):
    """re-run the recorded history on the real code and judge it again with the property oracle"""
    rp = json.load(open(path))
    bad = 0
    for v in rp.get("violations", []):
        w = v.get("witness")
        if not w:
            print("replay: no concrete input recorded (%s)" % json.dumps(v.get("broken"))[:600])
            continue
        if w.get("part") == "msgb":
            still, text = mpart.replay(run, w)
            print(text)
            bad += bool(still)
            continue
        h = w["history"]
        link = Link(h["cap"])
        ops = []
        for op in h["ops"]:
            if op[0] == "send":
                link.send(op[1], op[2])
                ops.append(("send", op[1], op[2]))
            elif op[0] == "loop":
                link.loop(op[1])
                ops.append(("loop", op[1]))
            else:
                ops.append((op[0], op[1]))
        line = line_of(w["flavour"], h["regs"], ops)
        ans = run_impl(run, w["flavour"], [line])[0]
        why = judge(link, ans)
        print("replay %s (%s)" % (w["kind"], w["flavour"]))
        print("  request : %s" % line[:600])
        print("  impl now: %s" % ans[:600])
        print("  property: %s" % (why or "holds on this history"))
        bad += bool(why)
    if bad:
        print("VIOLATION property=C06 replay=%s" % path)
    return 1 if bad else 0
