# C17 — TRXD PDU definitions (v0, v1, v2) have the documented structure
import json, os
from lib import vf
from lib import codecdef as cd
from lib import codecgen as cg
from gen import trxd_proto
from lib import trxd as T
from props import msg_reuse_part as reuse

ID = "C17"
LEVEL = "proof"
LEAN_MODULES = ["OsmoVerif.Props.C17"]
DRIVER_MODULES = ["Codec"]
LEAN_MODEL_MODULES = ["OsmoVerif.Model.Codec", "OsmoVerif.Spec.Codec", "OsmoVerif.Spec.TrxdPduLayout", "OsmoVerif.Gen.TrxdProto",
                      "OsmoVerif.Lemmas.CodecPdu", "OsmoVerif.Props.C16"]
ASSUMPTIONS = [
    "the six PDU definitions (and both BPDUs) are REGENERATED from the live trxd_proto module by introspection of the field objects; the get_len/get_pres lambdas are tabulated (mod -2..39 and beyond, flags, remaining length 0..2048) and a first-order description is emitted only if the tabulation equals it",
    "the definitions are interpreted by the codec model of C16 (OsmoVerif.Model.Codec), tied to codec.py by the C16 correspondence and here again on the six real classes (real from_bytes/to_bytes vs model on message-codec output, random values, 0..8 batched sub-PDUs, wrong versions, reserved bits, truncations)",
    "the documented layout is OsmoVerif.Spec.TrxdPduLayout (written from the protocol description); msgcodec_accepted is stated against this layout and tied to data_msg.py by comparing real TxMsg/RxMsg.gen_msg() octets with the Spec layout evaluated by the driver on every generated message (Model/Trxd.lean of C01/C04 is another worker's module)",
    "F3 (PDUv0Rx rejected legacy-padded GMSK bursts) is repaired by a fix commit and the fixed definition is what is modelled; F11a/F11b are recorded known findings with proved negations",
]
MANIFEST = {
    "text": "Lean 4 theorems over the six regenerated TRXD PDU definitions: well-formedness and the live offset/mask derivation by kernel evaluation, round trip for every class (instances of C16, any value, any number of batched sub-PDUs, with an in-range v2 value for every k), burst length by modulation for all codes, NOPE carries no burst, wrong version nibble rejected for every datagram, reserved bit ignored on receipt and sent as zero, enc v = documented layout for v0/v1 Tx/Rx and for v2 Rx/Tx with any list of batched sub-PDUs (all field values), every v0/v1 message-codec datagram accepted with identical field values (legacy padding included after the F3 fix; F11a/F11b as _partial with proved negation). Real classes are compared with the model on message-codec output and random values; an independent oracle checks the property on the real code.",
    "note": "trusted: Lean kernel (+propext, Classical.choice, Quot.sound), gen/trxd_proto.py + lib/codecdef.py introspection (the tabulated lambdas are finite functions on the tabulated domain only), the differential harness; msgcodec_accepted is about the Spec layout, the identity real gen_msg() octets = Spec layout is a differential check, not a theorem",
    "technique": "Lean 4 proof (instances of the C16 theorems, decide on regenerated definitions, simp-evaluation of the model on symbolic field values) + differential correspondence on the real PDU classes",
    "design_ref": "DESIGN.md section 5 C17",
}

HARNESS = os.path.join(vf.ROOT, "harness/py/codec_harness.py")
CLASSES = ["PDUv0Rx", "PDUv0Tx", "PDUv1Rx", "PDUv1Tx", "PDUv2Rx", "PDUv2Tx"]
# documented burst length per 4-bit modulation code (None = reserved)
BURST_LEN = {0: 148, 1: 148, 2: 148, 3: 148, 4: 444, 5: 444, 6: 148, 7: None, 8: 592, 9: 592, 10: 740, 11: 740,
             12: 296, 13: 296, 14: 296, 15: 296}
# message codec: Modulation name -> (coding, burst length, number of TSC sets RxMsg.validate accepts)
MSG_MODS = {"ModGMSK": (0, 148, 4), "Mod8PSK": (4, 444, 2), "ModGMSK_AB": (6, 148, 2), "Mod16QAM": (8, 592, 2),
            "Mod32QAM": (10, 740, 2), "ModAQPSK": (12, 296, 2)}


def gen(run):
    run.trxd_defs = trxd_proto.generate(run)


def impl(lines):
    return vf.run_lines([vf.PY, HARNESS, vf.TRX], lines)


def be(x, n, signed=False):
    return int(x).to_bytes(n, 'big', signed=signed)


# ---------------------------------------------------------------------------- documented layout (Python transcription)

def mts_octet(v):
    return (v['nope'] << 7) | (v['mod'] << 3) | v['tsc']


def spec_bytes(name, v):
    """documented octet layout of a value dict (independent of codec.py / trxd_proto.py)"""
    ver = int(name[4])
    if ver < 2:
        out = bytes([(ver << 4) | v['tn']]) + be(v['fn'], 4)
        if name.endswith("Tx"):
            return out + bytes([v['pwr']]) + v['hard-bits']
        out += bytes([-v['rssi']]) + be(v['toa256'], 2, True)
        if ver == 0:
            return out + v['soft-bits'] + v.get('pad', b'')
        out += bytes([mts_octet(v)]) + be(v['cir'], 2, True)
        return out + (b'' if v['nope'] else v['soft-bits'])

    def part(p, first):
        o = bytes([((2 << 4) if first else 0) | p['tn'], (p['batch'] << 7) | ((0 if first else p['shadow']) << 6) | p['trxn']])
        o += bytes([mts_octet(p)])
        if name.endswith("Rx"):
            o += bytes([-p['rssi']]) + be(p['toa256'], 2, True) + be(p['cir'], 2, True)
            if first:
                o += be(p['fn'], 4)
            return o + (b'' if p['nope'] else p['soft-bits'])
        o += bytes([p['pwr']]) + be(p['scpir'], 1, True) + b'\x00\x00\x00'
        if first:
            o += be(p['fn'], 4)
        return o + (b'' if p['nope'] else p['hard-bits'])
    return part(v, True) + b''.join(part(p, False) for p in v['bpdu'])


def rand_part(rng, name, first):
    """field values of a v2 (sub-)PDU"""
    p = {'tn': rng.randrange(8), 'batch': rng.randrange(2), 'trxn': cg.edge_pick(rng, 0, 63)}
    if not first:
        p['shadow'] = rng.randrange(2)
    p['nope'] = 1 if rng.random() < 0.25 else 0
    p['mod'] = rng.choice([m for m in BURST_LEN if BURST_LEN[m] is not None])
    p['tsc'] = rng.randrange(8)
    burst = 'soft-bits' if name.endswith("Rx") else 'hard-bits'
    if name.endswith("Rx"):
        p['rssi'] = -cg.edge_pick(rng, 0, 255)
        p['toa256'] = cg.edge_pick(rng, -32768, 32767)
        p['cir'] = cg.edge_pick(rng, -32768, 32767)
    else:
        p['pwr'] = cg.edge_pick(rng, 0, 255)
        p['scpir'] = cg.edge_pick(rng, -128, 127)
    if first:
        p['fn'] = cg.edge_pick(rng, 0, 2 ** 32 - 1)
    if not p['nope']:
        p[burst] = cg.rand_bytes(rng, BURST_LEN[p['mod']])
    return p


def rand_value(rng, name, nb=None):
    """an in-range value dict of a PDU class (as the decoder returns it)"""
    ver = int(name[4])
    if ver == 2:
        v = rand_part(rng, name, True)
        v['ver'] = 2
        v['bpdu'] = [rand_part(rng, name, False) for _ in range(rng.randrange(0, 9) if nb is None else nb)]
        return v
    v = {'ver': ver, 'tn': rng.randrange(8), 'fn': cg.edge_pick(rng, 0, 2 ** 32 - 1)}
    if name.endswith("Tx"):
        v['pwr'] = cg.edge_pick(rng, 0, 255)
        v['hard-bits'] = cg.rand_bytes(rng, rng.choice([148, 444, 0, 1, 150]))
        return v
    v['rssi'] = -cg.edge_pick(rng, 0, 255)
    v['toa256'] = cg.edge_pick(rng, -32768, 32767)
    if ver == 0:
        v['soft-bits'] = cg.rand_bytes(rng, rng.choice([148, 444]))
        v['pad'] = rng.choice([b'', b'', b'\x00\x00', b'\x01', b'\xff\xfe'] if len(v['soft-bits']) == 148 else
                              [b'', b'', b'\x00\x00', cg.rand_bytes(rng, rng.randrange(0, 6))])
        return v
    v['nope'] = 1 if rng.random() < 0.25 else 0
    v['mod'] = rng.choice([m for m in BURST_LEN if BURST_LEN[m] is not None])
    v['tsc'] = rng.randrange(8)
    v['cir'] = cg.edge_pick(rng, -32768, 32767)
    if not v['nope']:
        v['soft-bits'] = cg.rand_bytes(rng, BURST_LEN[v['mod']])
    return v


# ---------------------------------------------------------------------------- message codec stream

def msg_cases(rng, n):
    """(request line for the real message codec, expected PDU class, expected field values, meta)"""
    out = []
    for i in range(n):
        ver = rng.randrange(2)
        tn = rng.randrange(8)
        fn = cg.edge_pick(rng, 0, 2715647)
        legacy = rng.random() < 0.5
        if rng.random() < 0.4:
            pwr = cg.edge_pick(rng, 0, 255)
            bl = rng.choice([148, 444])
            burst = bytes(rng.randrange(2) for _ in range(bl))
            req = "msg.tx %d %d %d %d %d %s" % (ver, tn, fn, pwr, legacy, cd.hx(burst))
            want = {'ver': ver, 'tn': tn, 'fn': fn, 'pwr': pwr, 'hard-bits': burst}
            out.append((req, "PDUv%dTx" % ver, want, {"dir": "tx", "ver": ver, "legacy": bool(legacy), "burst_len": bl}))
            continue
        rssi = -cg.edge_pick(rng, 47, 120)
        toa = cg.edge_pick(rng, -32768, 32767)
        if ver == 0:
            bl = rng.choice([148, 444])
            modn, tsc_set, tsc, ci, nope = "ModGMSK", 0, 0, 0, 0
        else:
            modn = rng.choice(sorted(MSG_MODS))
            coding, bl, nsets = MSG_MODS[modn]
            tsc_set = rng.randrange(nsets)
            tsc = rng.randrange(8)
            ci = cg.edge_pick(rng, -1280, 1280)
            nope = 1 if rng.random() < 0.2 else 0
        sb = [rng.randrange(-127, 128) for _ in range(bl)]
        burst = bytes(x & 0xff for x in sb)
        req = "msg.rx %d %d %d %d %d %d %d %s %d %d %d %s" % (ver, tn, fn, rssi, toa, legacy, nope, modn, tsc_set, tsc, ci,
                                                              "none" if nope else cd.hx(burst))
        usb = bytes(127 - x for x in sb)     # RxMsg.sbit2usbit
        want = {'ver': ver, 'tn': tn, 'fn': fn, 'rssi': rssi, 'toa256': toa}
        if ver == 0:
            want['soft-bits'] = usb
            want['pad'] = b'\x00\x00' if legacy else b''
        else:
            want.update({'nope': nope, 'cir': ci})
            if not nope:
                want.update({'mod': MSG_MODS[modn][0] | tsc_set, 'tsc': tsc, 'soft-bits': usb})
        out.append((req, "PDUv%dRx" % ver, want, {"dir": "rx", "ver": ver, "legacy": bool(legacy), "mod_type": modn,
                                                  "tsc_set": tsc_set, "nope": nope, "burst_len": bl}))
    return out


def layout_req(cls, want, msgbytes):
    """driver request evaluating the Spec layout for the message's field values"""
    if cls.endswith("Tx"):
        return "c17.layout.tx %d %d %d %d %s" % (want['ver'], want['tn'], want['fn'], want['pwr'],
                                                  cd.hx(msgbytes[6:]))
    if cls == "PDUv0Rx":
        return "c17.layout.rx0 %d %d %d %d %s %s" % (want['tn'], want['fn'], want['rssi'], want['toa256'],
                                                     cd.hx(want['soft-bits']), cd.hx(want['pad']))
    if want['nope']:
        # NOPE: the message codec sends MTS = 0x80 (mod, tsc = 0)
        return "c17.layout.rx1 %d %d %d %d 1 0 0 %d -" % (want['tn'], want['fn'], want['rssi'], want['toa256'], want['cir'])
    return "c17.layout.rx1 %d %d %d %d 0 %d %d %d %s" % (want['tn'], want['fn'], want['rssi'], want['toa256'], want['mod'],
                                                         want['tsc'], want['cir'], cd.hx(want['soft-bits']))


# ---------------------------------------------------------------------------- correspondence

BASE_HASH = "d6057ed22dfd70ec"


def correspond(run, corr):
    rng = run.rng
    drift = vf.src_hash_py(os.path.join(vf.TRX, "trxd_proto.py"),
                           ["Header", "MTS", "BurstBits", "PDUv0Rx", "PDUv0Tx", "PDUv1Rx", "PDUv1Tx", "PDUv2Rx", "PDUv2Tx"])
    run.drift["trxd_proto.py"] = drift
    scale = 10 if (BASE_HASH and drift != BASE_HASH) else 1
    defs = getattr(run, "trxd_defs", None)
    if defs is None:
        try:
            defs = trxd_proto.load(run)
        except vf.HarnessError as e:
            # the translator cannot express the live definitions: the generic path (interpreter on the introspected
            # definition) is skipped, the real classes are still compared with the model of the last translated definitions
            corr.harness_errors.append(str(e)[-800:])
    lines = {n: cd.to_line(strip_live(defs["classes"][n])) for n in CLASSES} if defs else None
    # 1. message codec output -> real PDU class and model; real octets vs Spec layout
    mc = msg_cases(rng, run.scale(600, 8000) * scale)
    ga = impl([m[0] for m in mc])
    reqs, lreq, lwant = [], [], []
    for (req, cls, want, meta), a in zip(mc, ga):
        if not a.startswith("ok "):
            corr.notes.append("message codec refused a generated message: %s -> %s" % (req[:80], a))
            continue
        hexb = a.split()[1]
        reqs.append("codec.pdu.dec %s %s" % (cls, hexb))
        if not (meta["dir"] == "tx" and meta["legacy"] and meta["ver"] == 0):
            b = cd.unhx(hexb)
            lreq.append(layout_req(cls, want, b))
            lwant.append(hexb)
        corr.count(None, "msg %s v%d%s" % (meta["dir"], meta["ver"], " legacy" if meta["legacy"] else ""))
    # 2. random values of every class: encode, decode, malformed variants; generic path on the introspected line
    for _ in range(run.scale(500, 6000) * scale):
        name = rng.choice(CLASSES)
        v = rand_value(rng, name)
        vline = cd.val_to_line(v)
        reqs.append("codec.pdu.enc %s %s" % (name, vline))
        if lines:
            reqs.append("codec.enc %s %s" % (lines[name], vline))
        b = spec_bytes(name, v)
        reqs.append("codec.pdu.dec %s %s" % (name, cd.hx(b)))
        if lines:
            reqs.append("codec.dec %s %s" % (lines[name], cd.hx(b)))
        bb = bytearray(b)
        k = rng.randrange(5)
        if k == 0:
            bb[0] = (bb[0] & 0x0f) | (rng.randrange(16) << 4)            # version nibble
        elif k == 1:
            bb[0] |= 0x08                                                 # reserved bit
            if name[4] == '2':
                bb[1] |= 0x40
        elif k == 2:
            bb = bb[:rng.randrange(len(bb) + 1)]
        elif k == 3:
            bb += cg.rand_bytes(rng, rng.randrange(1, 4))
        else:
            for _ in range(rng.randrange(1, 4)):
                bb[rng.randrange(min(len(bb), 16))] ^= 1 << rng.randrange(8)
        reqs.append("codec.pdu.dec %s %s" % (name, cd.hx(bytes(bb))))
        # ill-formed values
        v2 = dict(v)
        k = rng.randrange(4)
        if k == 0:
            v2['tn'] = rng.choice([8, 15, -1, 255])
        elif k == 1 and 'mod' in v2:
            v2['mod'] = rng.choice([7, 16, 23, -1])
        elif k == 2:
            key = rng.choice(sorted(v2))
            del v2[key]
        else:
            for key in ('soft-bits', 'hard-bits'):
                if key in v2:
                    v2[key] = v2[key][:-1] if rng.random() < 0.5 else v2[key] + b'\x00'
        reqs.append("codec.pdu.enc %s %s" % (name, cd.val_to_line(v2)))
    ia = impl(reqs)
    ma = vf.run_driver(reqs, timeout=900)
    keep = [(r, a, b) for r, a, b in zip(reqs, ia, ma) if b != "err UNMODELLED"]
    corr.compare([k[0] for k in keep], [k[1] for k in keep], [k[2] for k in keep])
    for r, a, b in keep:
        corr.count(r, "%s %s -> %s" % (r.split()[0], r.split()[1] if r.split()[0].startswith("codec.pdu") else "(line)",
                                      a.split()[0] + (" " + a.split()[1] if a.startswith("err") else "")))
    # real message-codec octets == documented layout (ties msgcodec_accepted's Spec to data_msg.py)
    la = vf.run_driver(lreq)
    corr.compare(lreq, lwant, la)
    for r in lreq:
        corr.count(r, "gen_msg octets vs Spec layout")
    corr.distribution["model: outside the model (UNMODELLED, not compared)"] = len(reqs) - len(keep)
    corr.rule = ("a case = one request line: (a) datagrams produced by the real TxMsg/RxMsg.gen_msg (v0/v1, every Modulation and "
                 "TSC set, NOPE, GSM/EDGE lengths, legacy padding on/off) decoded by the real PDU class and by the model, and the "
                 "same octets compared with the Spec layout; (b) random in-range values of all six classes (0..8 batched sub-PDUs, "
                 "every documented modulation code) encoded/decoded through the class and through the generic interpreter on the "
                 "introspected definition; (c) wrong version nibbles, reserved bits set, truncations, trailing octets, bit flips in "
                 "the header, out-of-range / missing / wrong-length field values; all non-trivial")
    corr.samples = [{"request": r[:200], "impl": a[:200], "model": b[:200]} for r, a, b in keep[:4]] + \
                   [{"request": r[:200], "impl(gen_msg)": a[:120], "model(Spec layout)": b[:120]} for r, a, b in list(zip(lreq, lwant, la))[:2]]


def strip_live(e):
    out = []
    for f in e['fs']:
        g = {k: v for k, v in f.items() if k != 'live'}
        if f['k'] in ('env', 'seq'):
            g['fs'] = strip_live({'fs': f['fs']})['fs']
        out.append(g)
    return {'cl': e.get('cl', True), 'fs': out}


# ---------------------------------------------------------------------------- property oracle (real code only)

def search(run, corr, deep):
    rng = run.rng
    found = 0
    wit = []
    # (1) every v0/v1 datagram of the message codec is accepted with identical field values
    mc = msg_cases(rng, run.scale(1500, 20000) * (3 if deep else 1))
    # exhaustive over (version, modulation, TSC set, NOPE, legacy) on top of the random ones
    ga = impl([m[0] for m in mc])
    reqs, meta2 = [], []
    for (req, cls, want, meta), a in zip(mc, ga):
        if a.startswith("ok "):
            reqs.append("codec.pdu.dec %s %s" % (cls, a.split()[1]))
            meta2.append((req, cls, want, meta, a.split()[1]))
    da = impl(reqs)
    for (req, cls, want, meta, hexb), a in zip(meta2, da):
        corr.count(None, "oracle: msgcodec %s v%d" % (meta["dir"], meta["ver"]))
        if not a.startswith("ok "):
            w = {"kind": "msgcodec-rejected", "pdu": cls, "msg": req, "datagram": hexb, "impl": a,
                 "spec": "accepted with identical field values", "want": cd.val_to_line(want)}
            w.update(meta)
            wit.append(w)
            continue
        tok = a.split()
        got, _ = cd.parse_val(tok, 1)
        n = int(tok[-1])
        if n != len(cd.unhx(hexb)):
            wit.append(dict(meta, kind="msgcodec-consumed", pdu=cls, msg=req, datagram=hexb, impl=a, spec="whole datagram consumed",
                            want=cd.val_to_line(want)))
            continue
        diff = [k for k in want if got.get(k) != want[k]]
        if diff:
            k0 = diff[0]
            extra = (len(got[k0]) - len(want[k0])) if isinstance(got.get(k0), bytes) and isinstance(want[k0], bytes) else None
            w = {"kind": "msgcodec-fields-differ", "pdu": cls, "msg": req, "datagram": hexb, "field": k0,
                 "impl": cd.val_to_line(got.get(k0)) if k0 in got else "missing", "spec": cd.val_to_line(want[k0]),
                 "extra_octets": extra, "want": cd.val_to_line(want)}
            w.update(meta)
            wit.append(w)
    # (2) every class: encode = documented layout, decode(encode) = value, any number of sub-PDUs intact
    cases = []
    for _ in range(run.scale(1500, 20000) * (3 if deep else 1)):
        name = rng.choice(CLASSES)
        cases.append((name, rand_value(rng, name)))
    for name in ("PDUv2Rx", "PDUv2Tx"):
        for nb in range(0, 9):
            cases.append((name, rand_value(rng, name, nb)))
    for name in ("PDUv1Rx", "PDUv2Rx", "PDUv2Tx"):
        for mod in range(16):
            if BURST_LEN[mod] is not None:
                v = rand_value(rng, name, 1)
                burst = 'soft-bits' if name.endswith("Rx") else 'hard-bits'
                v.update({'nope': 0, 'mod': mod, burst: cg.rand_bytes(rng, BURST_LEN[mod])})
                cases.append((name, v))
    ea = impl(["codec.pdu.enc %s %s" % (n, cd.val_to_line(v)) for n, v in cases])
    r2, m2 = [], []
    for (name, v), a in zip(cases, ea):
        corr.count(None, "oracle: %s encode" % name)
        want = spec_bytes(name, v)
        if a != "ok " + cd.hx(want):
            wit.append({"kind": "layout", "pdu": name, "value": cd.val_to_line(v), "impl": a, "spec": "ok " + cd.hx(want),
                        "mod": v.get('mod'), "nope": v.get('nope')})
            continue
        r2.append("codec.pdu.dec %s %s" % (name, cd.hx(want))); m2.append((name, v, 'roundtrip', "ok %s %d" % (cd.val_to_line(v), len(want))))
        # NOPE carries no burst: a burst entry in the dict is not sent
        if v.get('nope') == 1:
            v2 = dict(v)
            v2['soft-bits' if name.endswith("Rx") else 'hard-bits'] = cg.rand_bytes(rng, 148)
            r2.append("codec.pdu.enc %s %s" % (name, cd.val_to_line(v2))); m2.append((name, v2, 'nope-no-burst', "ok " + cd.hx(want)))
        # wrong version nibble rejected
        own = int(name[4])
        wrong = rng.choice([x for x in range(16) if x != own])
        bb = bytes([(want[0] & 0x0f) | (wrong << 4)]) + want[1:]
        r2.append("codec.pdu.dec %s %s" % (name, cd.hx(bb))); m2.append((name, v, 'wrong-version', "err DecodeError"))
        # reserved bits ignored on receipt
        bb = bytearray(want)
        bb[0] |= 0x08
        if own == 2:
            bb[1] |= 0x40
        r2.append("codec.pdu.dec %s %s" % (name, cd.hx(bytes(bb)))); m2.append((name, v, 'reserved-ignored', "ok %s %d" % (cd.val_to_line(v), len(want))))
        # burst length is determined by the modulation: one octet more or less is rejected
        if own >= 1 and name != "PDUv1Tx" and v.get('nope') == 0:
            key = 'soft-bits' if name.endswith("Rx") else 'hard-bits'
            if not v.get('bpdu'):
                v2 = dict(v)
                v2[key] = v[key] + b'\x01'
                r2.append("codec.pdu.dec %s %s" % (name, cd.hx(spec_bytes(name, v2)))); m2.append((name, v2, 'burst-len', "err DecodeError"))
                v3 = dict(v)
                v3[key] = v[key][:-1]
                r2.append("codec.pdu.dec %s %s" % (name, cd.hx(spec_bytes(name, v3)))); m2.append((name, v3, 'burst-len', "err DecodeError"))
            # RFU / unknown modulation code
            v4 = dict(v)
            v4['mod'] = 7
            r2.append("codec.pdu.dec %s %s" % (name, cd.hx(spec_bytes(name, v4)))); m2.append((name, v4, 'rfu-mod', "err DecodeError"))
        # NOPE indication followed by octets is rejected (no burst expected)
        if own == 1 and name.endswith("Rx") and v.get('nope') == 1:
            r2.append("codec.pdu.dec %s %s" % (name, cd.hx(want + cg.rand_bytes(rng, 148)))); m2.append((name, v, 'nope-extra', "err DecodeError"))
    a2 = impl(r2)
    for r, a, (name, v, kind, want) in zip(r2, a2, m2):
        corr.count(None, "oracle: %s" % kind)
        if kind in ('roundtrip', 'reserved-ignored') and a.startswith("ok "):
            # identical field values and whole datagram consumed; additional decoded keys are not a difference
            tok = a.split()
            got, _ = cd.parse_val(tok, 1)
            if tok[-1] == want.split()[-1] and same_fields(v, got):
                continue
        if a != want:
            wit.append({"kind": kind, "pdu": name, "request": r, "impl": a, "spec": want,
                        "mod": v.get('mod'), "nope": v.get('nope'), "batched": len(v.get('bpdu', []))})
    # (3) history independence: what a PDU object answers never depends on what it encoded/decoded before.  Every request
    # of a sample is issued twice in a row on the ONE long-lived object of its class, in a stream that interleaves the
    # classes; each answer must be the answer of a newly created object.
    hw = history_oracle(run, corr, r2, run.scale(1500, 12000))
    if hw:
        wit.append(hw)
    wit.sort(key=lambda w: len(json.dumps(w)))
    seen = set()
    for w in wit:
        key = (w["kind"], w.get("pdu"), w.get("mod_type"), w.get("tsc_set"), w.get("legacy"))
        if key in seen:
            continue
        seen.add(key)
        found += run.report_witness(w)
        if found >= 20:
            break
    # the datagrams of the message codec (data_msg.py, an anchor of this property) are those of the message as it is NOW,
    # also when the message object was encoded before and changed since
    pool = [("tx", T.rand_valid_tx(run.rng), run.rng.randrange(2)) for _ in range(200)] + \
           [("rx", T.rand_valid_rx(run.rng), run.rng.randrange(2)) for _ in range(200)]
    pool = [x for x in pool if not (x[0] == "rx" and x[1].burst is not None and 0x80 in bytes(x[1].burst))]
    rf = reuse.run(run, corr, pool, True, "C17")
    if rf:
        found += run.report_witness(reuse.witness(rf[0], len(rf)))
    return found


def fresh(r):
    return r.replace("codec.pdu.", "codec.pdu.fresh.", 1)


def history_oracle(run, corr, pool, n):
    rng = run.rng
    pool = [r for r in pool if r.startswith("codec.pdu.")]
    if not pool:
        return None
    sample = [rng.choice(pool) for _ in range(n)]
    stream = []
    for r in sample:
        stream += [r, r]
    got = impl(stream)
    ref = impl([fresh(r) for r in stream])
    corr.distribution["oracle: history independence (requests on one long-lived object vs a new object)"] = len(stream)
    for i, (r, a, b) in enumerate(zip(stream, got, ref)):
        if a == b:
            continue
        # the shortest suffix of the same class's earlier requests that reproduces it in a new harness process
        cls = r.split()[1]
        prev = [x for x in stream[:i] if x.split()[1] == cls]
        hist = None
        for k in (1, 2, 3, 5, 8, 16, len(prev)):
            h = prev[-k:] + [r] if k else [r]
            if impl(h)[-1] != b:
                hist = h
                break
            if k >= len(prev):
                break
        return {"kind": "history-dependent", "pdu": cls, "history": hist or (prev + [r]), "impl": a[:300],
                "spec": "the answer of a newly created %s object: %s" % (cls, b[:300])}
    return None


def same_fields(want, got):
    if isinstance(want, dict):
        return isinstance(got, dict) and all(k in got and same_fields(want[k], got[k]) for k in want)
    if isinstance(want, list):
        return isinstance(got, list) and len(want) == len(got) and all(same_fields(a, b) for a, b in zip(want, got))
    return want == got


def explained_by_known(run, broken):
    return False


def replay(run, path):
    rp = json.load(open(path))
    bad = 0
    for v in rp.get("violations", []):
        w = v.get("witness")
        if not w:
            print("replay: no concrete input recorded (%s)" % json.dumps(v.get("broken"))[:400])
            continue
        kind = w["kind"]
        if kind == "message-object-reused":
            still, text = reuse.replay(w)
            print(text)
            bad += still
            continue
        if kind == "history-dependent":
            out = impl(w["history"])[-1]
            ref = impl([fresh(w["history"][-1])])[0]
            still = out != ref
            print("replay history-dependent (%d requests on one %s object)\n  last request: %s\n  impl        : %s\n  new object  : %s" % (
                len(w["history"]), w["pdu"], w["history"][-1][:200], out[:200], ref[:200]))
            bad += bool(still)
            continue
        if "msg" in w:
            a = impl([w["msg"]])[0]
            out = impl(["codec.pdu.dec %s %s" % (w["pdu"], a.split()[1])])[0] if a.startswith("ok ") else a
            still = True
            if out.startswith("ok ") and a.startswith("ok "):
                tok = out.split()
                got, _ = cd.parse_val(tok, 1)
                still = int(tok[-1]) != len(cd.unhx(a.split()[1])) or not same_fields(cd.line_to_val(w["want"]), got)
            print("replay %s\n  message : %s\n  datagram: %s\n  impl    : %s\n  spec    : %s %s" % (
                kind, w["msg"][:200], a[:200], out[:300], w.get("spec")[:200], w["want"][:200]))
        elif "request" in w:
            out = impl([w["request"]])[0]
            still = out != w["spec"]
            if still and kind in ("roundtrip", "reserved-ignored") and out.startswith("ok ") and w["spec"].startswith("ok "):
                t1, t2 = out.split(), w["spec"].split()
                still = t1[-1] != t2[-1] or not same_fields(cd.parse_val(t2, 1)[0], cd.parse_val(t1, 1)[0])
            print("replay %s\n  request: %s\n  impl   : %s\n  spec   : %s" % (kind, w["request"][:300], out[:300], w["spec"][:300]))
        else:
            out = impl(["codec.pdu.enc %s %s" % (w["pdu"], w["value"])])[0]
            still = out != w["spec"]
            print("replay %s\n  value: %s\n  impl : %s\n  spec : %s" % (kind, w["value"][:300], out[:300], w["spec"][:300]))
        bad += bool(still)
    if bad:
        print("VIOLATION property=C17 replay=%s" % path)
    else:
        print("replay: no recorded input violates the property on this tree")
    return 1 if bad else 0
