# registry of implemented checks (order = build order)
ALL = ["C19"]
