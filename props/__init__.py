# registry of implemented checks: every props/Cxx.py is a check
import os, re
ALL = sorted(f[:-3] for f in os.listdir(os.path.dirname(os.path.abspath(__file__)))
             if re.match(r"^C[0-9]{2,3}\.py$", f))
