# C15 — Capture files return exactly what was stored, even after truncation
import json, os
from lib import vf
from lib import trxd as T
from gen import trxd_consts

ID = "C15"
LEVEL = "proof"
LEAN_MODULES = ["OsmoVerif.Props.C15"]
DRIVER_MODULES = ["Trxd", "TrxdDump"]
LEAN_MODEL_MODULES = ["OsmoVerif.Model.TrxdDump", "OsmoVerif.Model.Trxd", "OsmoVerif.Lemmas.TrxdDump", "OsmoVerif.Lemmas.Trxd",
                      "OsmoVerif.Props.C01"]
ASSUMPTIONS = [
    "theorems are about OsmoVerif.Model.TrxdDump (hand model of DATADump.dump_msg/parse_hdr and DATADumpFile._seek2msg/_parse_msg/parse_msg/parse_all/append_msg/append_all) on top of the TRXD model of C01",
    "the capture file is a byte list with a cursor with io.BytesIO semantics (short reads at EOF, seeks past EOF allowed, writes at the cursor); the theorems speak about messages appended to an empty file and then read",
    "stored messages are valid (validate() = ok, soft bits in -127..127); 'equal in every field' = carried(m) as in C01",
    "tags and HDR_LENGTH regenerated from data_dump.py on every run; control flow tied to the real DATADumpFile on io.BytesIO by differential execution (all versions/modulations/NOPE, skip/count, indices, truncation offsets, corrupted files)",
]
MANIFEST = {
    "text": "Lean 4 theorems parse_all_stored, parse_msg_idx, skip_count_slice (incl. the documented range error), truncated_prefix / truncated_parse_msg / truncated_skip_count (for EVERY cut offset: exactly the messages completely written before the cut, no exception; k characterised by the file lengths of the first k and k+1 messages), by induction over the record list using C01's round trips; termination of the parse_all loop proved; model tied to the real DATADumpFile on io.BytesIO (seeded message lists of every class/version/modulation/NOPE, skip/count/index combinations, truncation offsets around every record boundary - thorough: every offset of 80 files -, corrupted files); independent oracle on the real code",
    "note": "trusted: Lean kernel (+propext, Classical.choice, Quot.sound), gen/trxd_consts.py, harness/py/trxd_harness.py, lib/trxd.py; file I/O is modelled (byte list with cursor), not the OS; on a cut file a skip beyond the complete messages yields False or [] (both: no message, no exception) - stated exactly so in truncated_skip_count",
    "technique": "Lean 4 proof by induction over records over a hand model (well-founded loop); differential correspondence; oracle with independently computed record boundaries",
    "design_ref": "DESIGN.md section 5 C15",
}
MODELLED = ["dump_msg", "parse_hdr", "_seek2msg", "_parse_msg", "parse_msg", "parse_all", "append_msg", "append_all"]
KNOWN_HASH = "3e978f0682b84909"


def gen(run):
    run.trxd_consts = trxd_consts.generate(run)


def drift(run):
    h = vf.src_hash_py(os.path.join(vf.TRX, "data_dump.py"), MODELLED)
    run.drift["data_dump.py"] = h
    run.drift["changed_since_model_was_written"] = (h != KNOWN_HASH)
    return h != KNOWN_HASH


def rand_list(rng, n):
    out = []
    for _ in range(n):
        if rng.random() < 0.4:
            m = T.rand_valid_tx(rng)
            m.burst = T.hard_burst(rng, len(m.burst))
            out.append(("T", m))
        else:
            m = T.rand_valid_rx(rng)
            if m.burst is not None:
                m.burst = T.soft_burst(rng, len(m.burst))
            out.append(("R", m))
    return out


def mline(ms):
    return " ".join(k + " " + m.line() for k, m in ms)


def expected_line(k, m):
    return (k + " " + (T.carried_tx(m) if k == "T" else T.carried_rx(m)).line())


def show_expected(ms):
    return " ".join([str(len(ms))] + [expected_line(k, m) for k, m in ms])


def files(run):
    """stored lists and, from the REAL code, the file and the file length after each prefix"""
    if getattr(run, "c15_files", None) is not None:
        return run.c15_files
    mult = 3 if drift(run) else 1
    lists = [[]]
    for _ in range(run.scale(150, 600) * mult):
        lists.append(rand_list(run.rng, run.rng.choice([1, 2, 3, 4, 5, 6, 8])))
    # one list per class of message on its own
    for ver in (0, 1):
        for blen in (148, 444):
            lists.append([("T", T.rand_valid_tx(run.rng, ver, blen))])
        lists.append([("R", T.rand_valid_rx(run.rng, 0, "ModGMSK"))])
        lists.append([("R", T.rand_valid_rx(run.rng, 0, "Mod8PSK"))])
    for mod in T.MOD_NAMES:
        lists.append([("R", T.rand_valid_rx(run.rng, 1, mod, False)), ("R", T.rand_valid_rx(run.rng, 1, None, True))])
    reqs = []
    for ms in lists:
        for k in range(len(ms) + 1):
            reqs.append(("dump.write " + mline(ms[:k])).strip())
    ans = vf.run_lines(T.HARNESS, reqs)
    out = []
    i = 0
    for ms in lists:
        a = ans[i:i + len(ms) + 1]
        i += len(ms) + 1
        if not all(x.startswith("ok ") for x in a):
            out.append((ms, None, None, a))
            continue
        datas = [T.dec_octets(x[3:]) for x in a]
        out.append((ms, datas[-1], [len(d) for d in datas], a))
    run.c15_files = (out, reqs, ans)
    return run.c15_files


def cut_offsets(run, data, bounds, every=False):
    if every:
        return list(range(len(data) + 1))
    s = set([0, len(data)])
    for b in bounds:
        for d in (-4, -3, -2, -1, 0, 1, 2, 3, 4, 5):
            if 0 <= b + d <= len(data):
                s.add(b + d)
    s = sorted(s)
    limit = run.scale(40, 400)
    if len(s) > limit:
        s = sorted(run.rng.sample(s, limit))
    extra = [run.rng.randrange(len(data) + 1) for _ in range(run.scale(6, 60))] if data else []
    return sorted(set(s + extra))


def read_requests(run):
    """(request, expectation) pairs; expectation = (kind, stored list, k complete, skip, count, idx)"""
    if getattr(run, "c15_reads", None) is not None:
        return run.c15_reads
    fl, _, _ = files(run)
    out = []
    n_every = 0
    for ms, data, lens, _ in fl:
        if data is None:
            continue
        enc = T.enc_octets(data)
        n = len(ms)
        every = run.thorough and n_every < 40 and 0 < len(data) <= 2600
        n_every += every
        for skip in [None, 0, 1, n - 1, n, n + 1, n + 3]:
            if skip is not None and skip < 0:
                continue
            for count in [None, 1, 2, n, n + 2]:
                if count is not None and count < 1:
                    continue
                if run.rng.random() < run.scale(0.35, 1.0):
                    out.append(("dump.parseall %s %s %s" % (T.s(skip), T.s(count), enc), ("all", ms, n, skip, count, None)))
        for idx in range(n + 2):
            out.append(("dump.parsemsg %d %s" % (idx, enc), ("msg", ms, n, None, None, idx)))
        for c in cut_offsets(run, data, lens, every):
            k = max(j for j in range(n + 1) if lens[j] <= c)
            e = T.enc_octets(data[:c])
            out.append(("dump.parseall - - %s" % e, ("all", ms, k, None, None, None)))
            r = run.rng.random()
            if r < 0.3:
                skip = run.rng.choice([0, 1, k, k + 1, n])
                count = run.rng.choice([None, 1, 2])
                out.append(("dump.parseall %s %s %s" % (T.s(skip), T.s(count), e), ("all", ms, k, skip, count, None)))
            elif r < 0.6:
                idx = run.rng.choice([0, k - 1 if k else 0, k, n])
                out.append(("dump.parsemsg %d %s" % (idx, e), ("msg", ms, k, None, None, idx)))
    run.c15_reads = out
    return out


def corrupted_requests(run):
    fl, _, _ = files(run)
    out = []
    for ms, data, lens, _ in fl[: run.scale(30, 300)]:
        if not data:
            continue
        for _ in range(4):
            g = bytearray(data)
            for _ in range(run.rng.choice([1, 1, 2, 5])):
                g[run.rng.randrange(len(g))] = run.rng.randrange(256)
            if run.rng.random() < 0.3:
                g = g[: run.rng.randrange(len(g) + 1)]
            e = T.enc_octets(bytes(g))
            out.append("dump.parseall %s %s %s" % (run.rng.choice(["-", "0", "1", "3"]), run.rng.choice(["-", "1", "2"]), e))
            out.append("dump.parsemsg %d %s" % (run.rng.randrange(6), e))
    return out


def impl_reads(run):
    if getattr(run, "c15_impl", None) is None:
        rr = read_requests(run)
        run.c15_impl = vf.run_lines(T.HARNESS, [r for r, _ in rr])
    return run.c15_impl


def correspond(run, corr):
    fl, wreqs, wimpl = files(run)
    # invalid messages in the list: append_all raises
    bad = []
    for _ in range(run.scale(40, 400)):
        ms = rand_list(run.rng, run.rng.choice([1, 2, 3]))
        k, m = ms[run.rng.randrange(len(ms))]
        if k == "T":
            m.tn = run.rng.choice([8, None, -1])
        else:
            m.rssi = run.rng.choice([0, None, -121])
        bad.append("dump.write " + mline(ms))
    bimpl = vf.run_lines(T.HARNESS, bad)
    rr = read_requests(run)
    rreqs = [r for r, _ in rr]
    rimpl = impl_reads(run)
    creqs = corrupted_requests(run)
    cimpl = vf.run_lines(T.HARNESS, creqs)
    sreqs = []
    if run.thorough:
        for ms, data, lens, _ in fl[40:400]:
            if len(sreqs) >= 40:
                break
            if data is not None and 0 < len(data) <= 1300:
                sreqs.append("dump.cutscan %s %s %s" % (run.rng.choice(["-", "0", "1", "2"]), run.rng.choice(["-", "1", "2"]), T.enc_octets(data)))
    else:
        for ms, data, lens, _ in fl[:6]:
            if data is not None and 0 < len(data) <= 1300:
                sreqs.append("dump.cutscan %s %s %s" % (run.rng.choice(["-", "1"]), run.rng.choice(["-", "2"]), T.enc_octets(data)))
    simpl = vf.run_lines(T.HARNESS, sreqs)
    allreq = wreqs + bad + rreqs + creqs + sreqs
    model = vf.run_driver(allreq)
    corr.compare(allreq, wimpl + bimpl + rimpl + cimpl + simpl, model)
    for r, a in zip(wreqs + bad, wimpl + bimpl):
        corr.count(r, "write -> " + a.split()[0])
    for (r, exp), a in zip(rr, rimpl):
        corr.count(r, "%s %s-> %s" % (r.split()[0], "cut " if len(r) and exp[2] < len(exp[1]) else "", " ".join(a.split()[:2])[:12]))
    for r, a in zip(creqs, cimpl):
        corr.count(r, "corrupted " + r.split()[0])
    for r, a in zip(sreqs, simpl):
        corr.count(r, "cutscan (every offset of a file)")
        corr.evaluations += len(a.split()) - 2
    corr.exhaustive = run.thorough
    corr.rule = ("files written by the real append_all from seeded lists of valid messages (every class/version/modulation/NOPE); reads: "
                 "parse_all with skip in {None,0,1,n-1,n,n+1,n+3} x count in {None,1,2,n,n+2}, parse_msg for every index 0..n+1, truncations at "
                 "every record boundary -4..+5 and seeded offsets (thorough: every offset), corrupted files; a case is a distinct request line")
    for i in (0, len(rreqs) // 3, 2 * len(rreqs) // 3, len(rreqs) - 1):
        corr.samples.append({"request": rreqs[i][:200], "impl": rimpl[i][:160]})


def judge(exp, a):
    """returns None or (what fails, what the property demands)"""
    kind, ms, k, skip, count, idx = exp
    if kind == "msg":
        if idx < k:
            want = "ok " + expected_line(*ms[idx])
            if a != want:
                return ("parse_msg(%d) returned %s" % (idx, a[:120]), want)
        elif a not in ("ok None", "ok False"):
            # no completely written message there: None (documented) or False, but no message and no exception
            return ("parse_msg(%d) returned %s" % (idx, a[:120]), "ok None")
        return None
    stored = ms[:k]
    if skip is not None and skip > k:
        if k == len(ms):
            if a != "ok False":
                return ("skip beyond the stored messages did not give the range error: %s" % a[:80], "ok False")
        elif a not in ("ok False", "ok 0"):
            return ("skip beyond the complete messages returned messages or raised: %s" % a[:80], "ok False | ok 0")
        return None
    sl = stored[skip:] if skip is not None else stored
    if count is not None:
        sl = sl[:count]
    want = "ok " + show_expected(sl)
    if a != want:
        got = a.split()
        return ("parse_all(skip=%s, count=%s) returned %s, expected %d message(s) equal to the stored ones"
                % (skip, count, " ".join(got[:2]), len(sl)), want)
    return None


def search(run, corr, deep):
    found = 0
    fl, wreqs, wimpl = files(run)
    for ms, data, lens, a in fl:
        if data is None:
            w = {"kind": "append", "what": "append_all of valid messages raised: %s" % [x for x in a if not x.startswith("ok ")][:1],
                 "messages": [m.asdict() for _, m in ms][:3]}
            found += run.report_witness(w)
            break
    rr = read_requests(run)
    impl = impl_reads(run)
    fails = []
    for (r, exp), a in zip(rr, impl):
        j = judge(exp, a)
        if j:
            fails.append((r, exp, a, j[0], j[1]))
    corr.distribution["oracle: reads judged"] = len(rr)
    corr.distribution["oracle: violating reads"] = len(fails)
    # smallest failing requests first
    fails.sort(key=lambda x: len(x[0]))
    seen = set()
    for r, exp, a, why, want in fails:
        sig = why.split(" returned")[0][:40]
        if sig in seen or len(seen) >= 3:
            continue
        seen.add(sig)
        kind, ms, k, skip, count, idx = exp
        w = {"kind": "capture-read", "request": r, "what": why, "impl": a[:400], "stored_messages": len(ms),
             "complete_before_cut": k, "skip": skip, "count": count, "idx": idx,
             "expected": want[:400],
             "failing_cases_in_this_run": len(fails)}
        found += run.report_witness(w)
    return found


def replay(run, path):
    rp = json.load(open(path))
    bad = 0
    for v in rp.get("violations", []):
        w = v.get("witness")
        if not w or "request" not in w:
            print("replay: no concrete input recorded (%s)" % json.dumps(v.get("broken") or w)[:400])
            continue
        a = vf.run_lines(T.HARNESS, [w["request"]])[0]
        same = a[:400] == w["impl"]
        print("replay %s...: impl=%s  (%s)" % (w["request"][:80], a[:120], w["what"]))
        bad += same
    if bad:
        print("VIOLATION property=C15 replay=%s" % path)
    return 1 if bad else 0
