# C15 — Capture files return exactly what was stored, even after truncation
import json, os
from lib import vf
from lib import trxd as T
from gen import trxd_consts
from props import msg_reuse_part as reuse

ID = "C15"
LEVEL = "proof"
LEAN_MODULES = ["OsmoVerif.Props.C15"]
DRIVER_MODULES = ["Trxd", "TrxdDump"]
LEAN_MODEL_MODULES = ["OsmoVerif.Model.TrxdDump", "OsmoVerif.Model.TrxdDumpHist", "OsmoVerif.Model.Trxd", "OsmoVerif.Lemmas.TrxdDump",
                      "OsmoVerif.Lemmas.TrxdDumpHist", "OsmoVerif.Lemmas.Trxd", "OsmoVerif.Props.C01"]
ASSUMPTIONS = [
    "theorems are about OsmoVerif.Model.TrxdDump / Model.TrxdDumpHist (hand model of DATADump.dump_msg/parse_hdr and DATADumpFile._seek2msg/_parse_msg/parse_msg/parse_all/append_msg/append_all, and of histories of these operations on ONE object: content and cursor carried from one call to the next) on top of the TRXD model of C01",
    "the capture file is a byte list with a cursor with io.BytesIO semantics (short reads at EOF, seeks past EOF allowed, seek(0, 2), writes at the cursor); the object keeps nothing but this file between two calls (an attribute added to DATADumpFile that influences results shows up as a correspondence break and is searched by the history oracle); a crash is modelled as: the file is cut at octet n and a NEW object is opened on it",
    "stored messages are valid (validate() = ok, soft bits in -127..127); 'equal in every field' = carried(m) as in C01; after a crash inside a record the property speaks about reads only (appends behind a partial record are covered by history_independence on the content level, not on the message level)",
    "tags and HDR_LENGTH regenerated from data_dump.py on every run; control flow tied to the real DATADumpFile by differential execution: fresh readers on io.BytesIO (all versions/modulations/NOPE, skip/count, indices, truncation offsets, corrupted files) and histories on one live object made in the three ways the class allows (io.BytesIO, a file object opened w+b, a path the class opens a+b; files under the run's scratch directory): the OS file and CPython's buffered I/O are thereby exercised, not modelled",
]
MANIFEST = {
    "text": "Lean 4 theorems parse_all_stored, parse_msg_idx, skip_count_slice (incl. the documented range error), truncated_prefix / truncated_parse_msg / truncated_skip_count (for EVERY cut offset: exactly the messages completely written before the cut, no exception; k characterised by the file lengths of the first k and k+1 messages), by induction over the record list using C01's round trips; termination of the parse_all loop proved. Histories on ONE object: history_independence (for every content, cursor and history - invalid messages, garbage, crashes included - no read raises and every read answers what a fresh reader answers on the bytes stored at that moment; appends go to the end of the content wherever a read left the cursor), read_after_history, history_reads_stored / history_reads_stored_from (every history of appends of valid messages and reads: each parse_msg / parse_all returns index / slice of the messages appended so far, the file at the end equals the one a single append_all writes), history_then_crash (any cut offset after any history, then any reads: the completely written messages), history_crash_on_boundary (cut behind record k: any further history, appends included, as on a capture of the first k messages). Model tied to the real DATADumpFile: fresh readers on io.BytesIO (seeded message lists of every class/version/modulation/NOPE, skip/count/index combinations, truncation offsets around every record boundary - thorough: every offset of 80 files -, corrupted files) and histories on one live object on io.BytesIO / w+b file object / path (a+b): appends interleaved with reads, accesses beyond the end and partial reads before further appends, walks until None, crashes on and off record boundaries, invalid messages, garbage content; independent oracle on the real code for reads and for histories (witnesses shrunk to a minimal history)",
    "note": "trusted: Lean kernel (+propext, Classical.choice, Quot.sound), gen/trxd_consts.py, harness/py/trxd_harness.py, lib/trxd.py; file I/O is modelled (byte list with cursor), not the OS; on a cut file a skip beyond the complete messages yields False or [] (both: no message, no exception) - stated exactly so in truncated_skip_count / CutAnswer; the defect found while building the history check (append_msg wrote at the cursor a previous read had left; fixed in /repo by a6e12fa) stays in the corpus as the fixed history append-after-partial-read",
    "technique": "Lean 4 proof by induction over records and over histories over a hand model (well-founded loop); differential correspondence (single calls and whole histories per request line); oracle with record boundaries measured from the real writer",
    "design_ref": "DESIGN.md section 5 C15",
}
MODELLED = ["dump_msg", "parse_hdr", "_seek2msg", "_parse_msg", "parse_msg", "parse_all", "append_msg", "append_all"]
KNOWN_HASH = "10d1b7ef6e6ed85a"


def gen(run):
    run.trxd_consts = trxd_consts.generate(run)


def drift(run):
    h = vf.src_hash_py(os.path.join(vf.TRX, "data_dump.py"), MODELLED)
    run.drift["data_dump.py"] = h
    run.drift["changed_since_model_was_written"] = (h != KNOWN_HASH)
    return h != KNOWN_HASH


def rand_list(rng, n):
    out = []
    for _ in range(n):
        if rng.random() < 0.4:
            m = T.rand_valid_tx(rng)
            m.burst = T.hard_burst(rng, len(m.burst))
            out.append(("T", m))
        else:
            m = T.rand_valid_rx(rng)
            if m.burst is not None:
                m.burst = T.soft_burst(rng, len(m.burst))
            out.append(("R", m))
    return out


def mline(ms):
    return " ".join(k + " " + m.line() for k, m in ms)


def expected_line(k, m):
    return (k + " " + (T.carried_tx(m) if k == "T" else T.carried_rx(m)).line())


def show_expected(ms):
    return " ".join([str(len(ms))] + [expected_line(k, m) for k, m in ms])


def files(run):
    """stored lists and, from the REAL code, the file and the file length after each prefix"""
    if getattr(run, "c15_files", None) is not None:
        return run.c15_files
    mult = 3 if drift(run) else 1
    lists = [[]]
    for _ in range(run.scale(150, 600) * mult):
        lists.append(rand_list(run.rng, run.rng.choice([1, 2, 3, 4, 5, 6, 8])))
    # one list per class of message on its own
    for ver in (0, 1):
        for blen in (148, 444):
            lists.append([("T", T.rand_valid_tx(run.rng, ver, blen))])
        lists.append([("R", T.rand_valid_rx(run.rng, 0, "ModGMSK"))])
        lists.append([("R", T.rand_valid_rx(run.rng, 0, "Mod8PSK"))])
    for mod in T.MOD_NAMES:
        lists.append([("R", T.rand_valid_rx(run.rng, 1, mod, False)), ("R", T.rand_valid_rx(run.rng, 1, None, True))])
    reqs = []
    for ms in lists:
        for k in range(len(ms) + 1):
            reqs.append(("dump.write " + mline(ms[:k])).strip())
    ans = vf.run_lines(T.HARNESS, reqs)
    out = []
    i = 0
    for ms in lists:
        a = ans[i:i + len(ms) + 1]
        i += len(ms) + 1
        if not all(x.startswith("ok ") for x in a):
            out.append((ms, None, None, a))
            continue
        datas = [T.dec_octets(x[3:]) for x in a]
        out.append((ms, datas[-1], [len(d) for d in datas], a))
    run.c15_files = (out, reqs, ans)
    return run.c15_files


def cut_offsets(run, data, bounds, every=False):
    if every:
        return list(range(len(data) + 1))
    s = set([0, len(data)])
    for b in bounds:
        for d in (-4, -3, -2, -1, 0, 1, 2, 3, 4, 5):
            if 0 <= b + d <= len(data):
                s.add(b + d)
    s = sorted(s)
    limit = run.scale(40, 400)
    if len(s) > limit:
        s = sorted(run.rng.sample(s, limit))
    extra = [run.rng.randrange(len(data) + 1) for _ in range(run.scale(6, 60))] if data else []
    return sorted(set(s + extra))


def read_requests(run):
    """(request, expectation) pairs; expectation = (kind, stored list, k complete, skip, count, idx)"""
    if getattr(run, "c15_reads", None) is not None:
        return run.c15_reads
    fl, _, _ = files(run)
    out = []
    n_every = 0
    for ms, data, lens, _ in fl:
        if data is None:
            continue
        enc = T.enc_octets(data)
        n = len(ms)
        every = run.thorough and n_every < 40 and 0 < len(data) <= 2600
        n_every += every
        for skip in [None, 0, 1, n - 1, n, n + 1, n + 3]:
            if skip is not None and skip < 0:
                continue
            for count in [None, 1, 2, n, n + 2]:
                if count is not None and count < 1:
                    continue
                if run.rng.random() < run.scale(0.35, 1.0):
                    out.append(("dump.parseall %s %s %s" % (T.s(skip), T.s(count), enc), ("all", ms, n, skip, count, None)))
        for idx in range(n + 2):
            out.append(("dump.parsemsg %d %s" % (idx, enc), ("msg", ms, n, None, None, idx)))
        for c in cut_offsets(run, data, lens, every):
            k = max(j for j in range(n + 1) if lens[j] <= c)
            e = T.enc_octets(data[:c])
            out.append(("dump.parseall - - %s" % e, ("all", ms, k, None, None, None)))
            r = run.rng.random()
            if r < 0.3:
                skip = run.rng.choice([0, 1, k, k + 1, n])
                count = run.rng.choice([None, 1, 2])
                out.append(("dump.parseall %s %s %s" % (T.s(skip), T.s(count), e), ("all", ms, k, skip, count, None)))
            elif r < 0.6:
                idx = run.rng.choice([0, k - 1 if k else 0, k, n])
                out.append(("dump.parsemsg %d %s" % (idx, e), ("msg", ms, k, None, None, idx)))
    run.c15_reads = out
    return out


def corrupted_requests(run):
    fl, _, _ = files(run)
    out = []
    for ms, data, lens, _ in fl[: run.scale(30, 300)]:
        if not data:
            continue
        for _ in range(4):
            g = bytearray(data)
            for _ in range(run.rng.choice([1, 1, 2, 5])):
                g[run.rng.randrange(len(g))] = run.rng.randrange(256)
            if run.rng.random() < 0.3:
                g = g[: run.rng.randrange(len(g) + 1)]
            e = T.enc_octets(bytes(g))
            out.append("dump.parseall %s %s %s" % (run.rng.choice(["-", "0", "1", "3"]), run.rng.choice(["-", "1", "2"]), e))
            out.append("dump.parsemsg %d %s" % (run.rng.randrange(6), e))
    return out


def impl_reads(run):
    if getattr(run, "c15_impl", None) is None:
        rr = read_requests(run)
        run.c15_impl = vf.run_lines(T.HARNESS, [r for r, _ in rr])
    return run.c15_impl


# ---- histories on ONE DATADumpFile object ---------------------------------------------------------
# A history is a list of operations ("A", (k, m, size)) | ("L", [(k, m, size), ...]) | ("M", idx) |
# ("P", skip, count) | ("X", n); size = octets the REAL writer produces for the message on a fresh file
# (measured without the object under test; only used to place cuts and to know which messages were
# completely written before a cut).
MODES = ("b", "w", "p")
HENV = None


def henv(run):
    return {"VERIF_SCRATCH": run.scratch}


def hist_line(mode, init, ops):
    t = ["dump.hist", mode, T.enc_octets(init)]
    for op in ops:
        if op[0] == "A":
            t += ["A", op[1][0], op[1][1].line()]
        elif op[0] == "L":
            t += ["L", str(len(op[1]))] + [k + " " + m.line() for k, m, _ in op[1]]
        elif op[0] == "M":
            t += ["M", str(op[1])]
        elif op[0] == "P":
            t += ["P", T.s(op[1]), T.s(op[2])]
        else:
            t += ["X", str(op[1])]
    return " ".join(t)


def hist_show(ops):
    """short readable form of a history (witnesses)"""
    out = []
    for op in ops:
        if op[0] == "A":
            out.append("append_msg(%s)" % msg_class(op[1]))
        elif op[0] == "L":
            out.append("append_all([%s])" % ", ".join(msg_class(x) for x in op[1]))
        elif op[0] == "M":
            out.append("parse_msg(%d)" % op[1])
        elif op[0] == "P":
            out.append("parse_all(skip=%s, count=%s)" % (op[1], op[2]))
        else:
            out.append("crash: file cut at octet %d and opened again" % op[1])
    return "; ".join(out)


def msg_class(x):
    k, m = x[0], x[1]
    if k == "T":
        return "TxMsg v%d %d bits" % (m.ver, len(m.burst))
    if m.ver == 1 and m.nope:
        return "RxMsg v1 NOPE"
    return "RxMsg v%d %s %d bits" % (m.ver, m.mod if m.ver == 1 else "-", len(m.burst))


def split_answers(a):
    """'ok a1 ; a2 ; ... | octets' -> ([a1, ...], octets) or None when the harness answered an exception"""
    if not a.startswith("ok "):
        return None
    body, _, tail = a[3:].rpartition(" | ")
    return ([x.strip() for x in body.split(" ; ")] if body.strip() else []), tail.strip()


def hist_expect(ops):
    """what the property demands of every operation of a history that starts on an empty capture.
    Returns a list (one entry per operation, as far as the property speaks):
      ("append",)                                   the append of valid messages must return
      ("read", exp)                                 exp as for judge(): (kind, all messages, k complete, skip, count, idx)
      ("cut",)
    After a crash in the middle of a record the property speaks about reads only: the list ends at the
    first append after such a crash."""
    stored = []          # (k, m, size): the messages appended so far; after a crash inside a record: up to the cut one
    kc = None            # None: the file ends on a record boundary; else the number of complete records (stored[kc] is cut)
    cut_len = None       # length of the file when kc is not None
    out = []
    for op in ops:
        if op[0] in ("A", "L"):
            if kc is not None:
                break
            stored = stored + ([op[1]] if op[0] == "A" else list(op[1]))
            out.append(("append",))
        elif op[0] == "X":
            cum = [0]
            for x in stored:
                cum.append(cum[-1] + x[2])
            n = op[1]
            if n < (cum[-1] if kc is None else cut_len):
                k = max(j for j in range(len(cum)) if cum[j] <= n)
                if cum[k] == n:
                    stored, kc, cut_len = stored[:k], None, None
                else:
                    stored, kc, cut_len = stored[:k + 1], k, n
            out.append(("cut",))
        else:
            ms = [(x[0], x[1]) for x in stored]
            k = len(ms) if kc is None else kc
            if op[0] == "M":
                out.append(("read", ("msg", ms, k, None, None, op[1])))
            else:
                out.append(("read", ("all", ms, k, op[1], op[2], None)))
    return out


def hist_judge(ops, a):
    """None or (index of the failing operation, what fails, what the property demands)"""
    sp = split_answers(a)
    exp = hist_expect(ops)
    if sp is None:
        return (0, "the history raised out of the harness: %s" % a[:80], "answers")
    ans = sp[0]
    for i, e in enumerate(exp):
        if i >= len(ans):
            return (i, "no answer for operation %d (an exception left a read method: %s)" % (i, ans[-1] if ans else "-"), "an answer")
        x = ans[i]
        if e[0] == "append":
            if x != "D":
                return (i, "append of valid messages answered %s" % x, "D")
        elif e[0] == "cut":
            continue
        else:
            if x.startswith("E "):
                return (i, "%s raised %s" % ("parse_msg" if e[1][0] == "msg" else "parse_all", x[2:]), "no exception")
            j = judge(e[1], "ok " + x[2:])
            if j:
                return (i, j[0], j[1])
    return None


def take_msgs(run, n_min=1):
    """a stored list with the record sizes measured from the real writer"""
    fl, _, _ = files(run)
    cand = [x for x in fl if x[1] is not None and len(x[0]) >= n_min]
    ms, data, lens, _ = run.rng.choice(cand)
    return [(k, m, lens[i + 1] - lens[i]) for i, (k, m) in enumerate(ms)]


def rand_read(rng, n):
    if rng.random() < 0.5:
        return ("M", rng.choice([0, max(n - 1, 0), n, n + 1, n + 3, rng.randrange(n + 2)]))
    skip = rng.choice([None, None, 0, 1, max(n - 1, 0), n, n + 1, n + 3, rng.randrange(n + 2)])
    count = rng.choice([None, None, 1, 2, max(n, 1), n + 2])
    return ("P", skip, count)


def oob_read(rng, n):
    """an access beyond the n stored messages (runs into EOF)"""
    if rng.random() < 0.5:
        return ("M", n + rng.choice([0, 1, 2, 5]))
    return ("P", n + rng.choice([1, 2, 5]), rng.choice([None, 1, 2]))


def partial_read(rng, n):
    """a read that stops before the end of the file"""
    if n >= 2 and rng.random() < 0.5:
        return ("M", rng.randrange(n - 1))
    return ("P", rng.choice([None, 0]), 1)


def rand_hist(run, crash=True):
    """mixed history of appends of valid messages and reads on one object, optionally crashes"""
    rng = run.rng
    msgs = take_msgs(run)
    while len(msgs) < 3 and rng.random() < 0.7:
        msgs = msgs + take_msgs(run)
    msgs = msgs[:9]
    ops, stored, i = [], [], 0
    if rng.random() < 0.3:
        ops.append(oob_read(rng, 0) if rng.random() < 0.6 else rand_read(rng, 0))       # reads on the empty capture
    while i < len(msgs):
        j = min(len(msgs), i + rng.choice([1, 1, 2, 3]))
        chunk = msgs[i:j]
        if len(chunk) == 1 and rng.random() < 0.6:
            ops.append(("A", chunk[0]))
        else:
            ops.append(("L", chunk))
        stored += chunk
        i = j
        n = len(stored)
        r = rng.random()
        if r < 0.35:
            ops.append(oob_read(rng, n))
        elif r < 0.6:
            ops.append(partial_read(rng, n))
        elif r < 0.7:
            for idx in range(n + 1):                                  # walk until None
                ops.append(("M", idx))
        for _ in range(rng.choice([0, 0, 1, 2])):
            ops.append(rand_read(rng, n))
        if crash and rng.random() < 0.15 and stored:
            cum = [0]
            for x in stored:
                cum.append(cum[-1] + x[2])
            b = rng.choice(cum)
            if rng.random() < 0.5:
                n_cut = b                                             # on a record boundary: the history goes on
            else:
                n_cut = max(0, min(cum[-1], b + rng.choice([-4, -3, -2, -1, 1, 2, 3, 4, 5, 40])))
            ops.append(("X", n_cut))
            k = max(q for q in range(len(cum)) if cum[q] <= n_cut)
            for _ in range(rng.choice([1, 2, 4])):
                ops.append(rng.choice([("M", k), ("M", max(k - 1, 0)), ("P", None, None), ("P", k, None), ("P", k + 1, 1),
                                       rand_read(rng, len(stored))]))
            if cum[k] != n_cut and n_cut < cum[-1]:
                return ops                                            # cut inside a record: reads only from here
            stored = stored[:k]
    n = len(stored)
    for _ in range(rng.choice([1, 2, 3])):
        ops.append(rand_read(rng, n))
    if n and rng.random() < 0.5:
        ops.append(("M", n - 1))
    ops.append(("P", None, None))
    return ops


def fixed_hists(run):
    """histories that are always there: (name, ops)"""
    out = []
    def fresh(n):
        ms = []
        while len(ms) < n:
            ms += take_msgs(run)
        return ms[:n]
    a, b, c = fresh(3)
    # a read that stops before the end of the file, then an append (append_msg once wrote at the cursor: /repo fix a6e12fa)
    out.append(("append-after-partial-read", [("L", [a, b]), ("M", 0), ("A", c), ("P", None, None), ("M", 1), ("M", 2),
                                              ("P", 1, 1), ("P", None, 1), ("A", a), ("P", None, None)]))
    # accesses beyond the end, then more appends, then the new messages by index and by skip
    m = fresh(7)
    ops = [("L", m[:3])] + [("M", i) for i in range(4)] + [("M", 5), ("L", m[3:])] + [("M", i) for i in range(8)]
    ops += [("P", None, None), ("P", 1, 2), ("P", 3, None), ("P", 4, 2), ("P", 5, 1), ("P", 6, 1), ("P", 7, None), ("P", 8, None)]
    out.append(("out-of-range-then-append", ops))
    m = fresh(4)
    out.append(("range-error-on-empty-then-append", [("P", 3, None), ("P", 1, 1), ("M", 0), ("A", m[0]), ("P", 1, None), ("M", 0),
                                                      ("P", 2, None), ("A", m[1]), ("P", 2, None), ("M", 1), ("P", 1, 1),
                                                      ("L", m[2:]), ("M", 3), ("P", 3, 1), ("P", 2, 5), ("P", 5, None)]))
    m = fresh(5)
    tot3 = sum(x[2] for x in m[:3])
    out.append(("crash-on-boundary-then-append", [("L", m[:3]), ("M", 4), ("X", tot3 - m[2][2]), ("M", 2), ("P", None, None),
                                                  ("L", m[3:]), ("M", 2), ("M", 3), ("P", 2, None), ("P", None, None)]))
    out.append(("crash-inside-record", [("L", m[:2]), ("M", 0), ("A", m[2]), ("M", 7), ("X", tot3 - 1), ("M", 2), ("M", 1), ("P", None, None),
                                        ("P", 2, None), ("P", 3, 1), ("P", 1, 1), ("X", m[0][2] + 4), ("M", 1), ("P", 1, None), ("P", None, None)]))
    return out


def hist_requests(run):
    """judged histories: (request line, ops, mode, name)"""
    if getattr(run, "c15_hists", None) is not None:
        return run.c15_hists
    out = []
    for name, ops in fixed_hists(run):
        for mode in MODES:
            out.append((hist_line(mode, b"", ops), ops, mode, name))
    mult = 3 if drift(run) else 1
    for i in range(run.scale(220, 2500) * mult):
        ops = rand_hist(run)
        mode = MODES[i % 3]
        out.append((hist_line(mode, b"", ops), ops, mode, "seeded"))
        if i % 10 == 0:                                               # the same history on the other two kinds of object
            for m2 in MODES:
                if m2 != mode:
                    out.append((hist_line(m2, b"", ops), ops, m2, "seeded"))
    run.c15_hists = out
    return out


def impl_hists(run):
    if getattr(run, "c15_himpl", None) is None:
        run.c15_himpl = vf.run_lines(T.HARNESS, [h[0] for h in hist_requests(run)], env=henv(run))
    return run.c15_himpl


def wild_hist_requests(run):
    """histories the property does not speak about (only the tie model <-> code): invalid messages in
    append_msg / append_all, appends after a crash inside a record, objects opened on arbitrary content"""
    rng = run.rng
    fl, _, _ = files(run)
    out = []
    for i in range(run.scale(120, 1200)):
        ops = rand_hist(run)
        r = rng.random()
        init = b""
        if r < 0.4:
            # spoil one message of one append
            idx = [q for q, op in enumerate(ops) if op[0] in ("A", "L")]
            q = rng.choice(idx)
            def spoil(x):
                k, m, size = x
                m = m.copy()
                if k == "T":
                    m.tn = rng.choice([8, None, -1])
                else:
                    m.rssi = rng.choice([0, None, -121])
                return (k, m, size)
            if ops[q][0] == "A":
                ops[q] = ("A", spoil(ops[q][1]))
            else:
                l = list(ops[q][1])
                z = rng.randrange(len(l))
                l[z] = spoil(l[z])
                ops[q] = ("L", l)
        elif r < 0.7:
            # cuts anywhere, the history goes on
            tot = sum(x[2] for op in ops if op[0] in ("A", "L") for x in ([op[1]] if op[0] == "A" else op[1]))
            for _ in range(rng.choice([1, 2])):
                ops.insert(rng.randrange(1, len(ops) + 1), ("X", rng.randrange(tot + 2)))
        else:
            # the object is opened on (possibly corrupted / cut) content
            cand = [x for x in fl if x[1]]
            g = bytearray(rng.choice(cand)[1])
            for _ in range(rng.choice([0, 1, 2])):
                g[rng.randrange(len(g))] = rng.randrange(256)
            if rng.random() < 0.5:
                g = g[: rng.randrange(len(g) + 1)]
            init = bytes(g)
        out.append(hist_line(MODES[i % 3], init, ops))
    return out


def correspond(run, corr):
    fl, wreqs, wimpl = files(run)
    # invalid messages in the list: append_all raises
    bad = []
    for _ in range(run.scale(40, 400)):
        ms = rand_list(run.rng, run.rng.choice([1, 2, 3]))
        k, m = ms[run.rng.randrange(len(ms))]
        if k == "T":
            m.tn = run.rng.choice([8, None, -1])
        else:
            m.rssi = run.rng.choice([0, None, -121])
        bad.append("dump.write " + mline(ms))
    bimpl = vf.run_lines(T.HARNESS, bad)
    rr = read_requests(run)
    rreqs = [r for r, _ in rr]
    rimpl = impl_reads(run)
    creqs = corrupted_requests(run)
    cimpl = vf.run_lines(T.HARNESS, creqs)
    sreqs = []
    if run.thorough:
        for ms, data, lens, _ in fl[40:400]:
            if len(sreqs) >= 40:
                break
            if data is not None and 0 < len(data) <= 1300:
                sreqs.append("dump.cutscan %s %s %s" % (run.rng.choice(["-", "0", "1", "2"]), run.rng.choice(["-", "1", "2"]), T.enc_octets(data)))
    else:
        for ms, data, lens, _ in fl[:6]:
            if data is not None and 0 < len(data) <= 1300:
                sreqs.append("dump.cutscan %s %s %s" % (run.rng.choice(["-", "1"]), run.rng.choice(["-", "2"]), T.enc_octets(data)))
    simpl = vf.run_lines(T.HARNESS, sreqs)
    hh = hist_requests(run)
    hreqs = [h[0] for h in hh]
    himpl = impl_hists(run)
    wreqs2 = wild_hist_requests(run)
    wimpl2 = vf.run_lines(T.HARNESS, wreqs2, env=henv(run))
    allreq = wreqs + bad + rreqs + creqs + sreqs + hreqs + wreqs2
    model = vf.run_driver(allreq)
    # the property quantifies over captures written from VALID messages (and their truncations): invalid messages handed to
    # append, corrupted captures and objects opened on arbitrary content are compared and recorded, but how the reader treats
    # content no writer produces is not what C15 speaks about (C14: it must not crash)
    outside = set(bad) | set(creqs) | set(wreqs2)
    corr.compare(allreq, wimpl + bimpl + rimpl + cimpl + simpl + himpl + wimpl2, model, in_domain=lambda r: r not in outside)
    for (r, ops, mode, name), a in zip(hh, himpl):
        corr.count(r, "history on one object (%s, %s)" % ({"b": "io.BytesIO", "w": "file object w+b", "p": "path, a+b"}[mode],
                                                          "fixed" if name != "seeded" else "seeded"))
        corr.evaluations += len(ops) - 1
    for r, a in zip(wreqs2, wimpl2):
        sp = split_answers(a)
        corr.count(r, "history outside the property (invalid messages / appends after a cut / garbage content)%s"
                   % (": append raised" if sp and any(x.startswith("E ") for x in sp[0]) else ""))
        corr.evaluations += (len(sp[0]) - 1) if sp else 0
    for r, a in zip(wreqs + bad, wimpl + bimpl):
        corr.count(r, "write -> " + a.split()[0])
    for (r, exp), a in zip(rr, rimpl):
        corr.count(r, "%s %s-> %s" % (r.split()[0], "cut " if len(r) and exp[2] < len(exp[1]) else "", " ".join(a.split()[:2])[:12]))
    for r, a in zip(creqs, cimpl):
        corr.count(r, "corrupted " + r.split()[0])
    for r, a in zip(sreqs, simpl):
        corr.count(r, "cutscan (every offset of a file)")
        corr.evaluations += len(a.split()) - 2
    corr.exhaustive = run.thorough
    corr.rule = ("files written by the real append_all from seeded lists of valid messages (every class/version/modulation/NOPE); reads: "
                 "parse_all with skip in {None,0,1,n-1,n,n+1,n+3} x count in {None,1,2,n,n+2}, parse_msg for every index 0..n+1, truncations at "
                 "every record boundary -4..+5 and seeded offsets (thorough: every offset), corrupted files; histories on ONE object made "
                 "on io.BytesIO / a w+b file object / a path (a+b): appends (append_msg, append_all) interleaved with reads, accesses beyond "
                 "the end and partial reads before further appends, walks until None, crashes on and off record boundaries, fixed histories "
                 "(append-after-partial-read, out-of-range-then-append, ...), histories with invalid messages / on garbage content; "
                 "a case is a distinct request line")
    k = len(hreqs) // 2
    corr.samples.append({"request": hreqs[k][:300], "impl": himpl[k][:300]})
    for i in (0, len(rreqs) // 3, 2 * len(rreqs) // 3, len(rreqs) - 1):
        corr.samples.append({"request": rreqs[i][:200], "impl": rimpl[i][:160]})


def judge(exp, a):
    """returns None or (what fails, what the property demands)"""
    kind, ms, k, skip, count, idx = exp
    if kind == "msg":
        if idx < k:
            want = "ok " + expected_line(*ms[idx])
            if a != want:
                return ("parse_msg(%d) returned %s" % (idx, a[:120]), want)
        elif a not in ("ok None", "ok False"):
            # no completely written message there: None (documented) or False, but no message and no exception
            return ("parse_msg(%d) returned %s" % (idx, a[:120]), "ok None")
        return None
    stored = ms[:k]
    if skip is not None and skip > k:
        if k == len(ms):
            if a != "ok False":
                return ("skip beyond the stored messages did not give the range error: %s" % a[:80], "ok False")
        elif a not in ("ok False", "ok 0"):
            return ("skip beyond the complete messages returned messages or raised: %s" % a[:80], "ok False | ok 0")
        return None
    sl = stored[skip:] if skip is not None else stored
    if count is not None:
        sl = sl[:count]
    want = "ok " + show_expected(sl)
    if a != want:
        got = a.split()
        return ("parse_all(skip=%s, count=%s) returned %s, expected %d message(s) equal to the stored ones"
                % (skip, count, " ".join(got[:2]), len(sl)), want)
    return None


def search(run, corr, deep):
    found = 0
    fl, wreqs, wimpl = files(run)
    for ms, data, lens, a in fl:
        if data is None:
            w = {"kind": "append", "what": "append_all of valid messages raised: %s" % [x for x in a if not x.startswith("ok ")][:1],
                 "messages": [m.asdict() for _, m in ms][:3]}
            found += run.report_witness(w)
            break
    rr = read_requests(run)
    impl = impl_reads(run)
    fails = []
    for (r, exp), a in zip(rr, impl):
        j = judge(exp, a)
        if j:
            fails.append((r, exp, a, j[0], j[1]))
    corr.distribution["oracle: reads judged"] = len(rr)
    corr.distribution["oracle: violating reads"] = len(fails)
    # smallest failing requests first
    fails.sort(key=lambda x: len(x[0]))
    seen = set()
    for r, exp, a, why, want in fails:
        sig = why.split(" returned")[0][:40]
        if sig in seen or len(seen) >= 3:
            continue
        seen.add(sig)
        kind, ms, k, skip, count, idx = exp
        w = {"kind": "capture-read", "request": r, "what": why, "impl": a[:400], "stored_messages": len(ms),
             "complete_before_cut": k, "skip": skip, "count": count, "idx": idx,
             "expected": want[:400],
             "failing_cases_in_this_run": len(fails)}
        found += run.report_witness(w)
    found += search_hist(run, corr)
    # what append_msg() stores is gen_msg() of the message object handed in - also when that object was stored before and
    # its fields / burst were changed since: the record is the message as it is NOW
    pool = [("tx", T.rand_valid_tx(run.rng), run.rng.randrange(2)) for _ in range(200)] + \
           [("rx", T.rand_valid_rx(run.rng), run.rng.randrange(2)) for _ in range(200)]
    pool = [x for x in pool if not (x[0] == "rx" and x[1].burst is not None and 0x80 in bytes(x[1].burst))]
    rf = reuse.run(run, corr, pool, True, "C15")
    if rf:
        w = reuse.witness(rf[0], len(rf))
        w["impl"] = w["second_use"]
        found += run.report_witness(w)
    return found


def shrink_hist(run, ops, mode, j):
    """drop what follows the failing operation, then greedily remove operations while the history still
    violates the property"""
    ops = ops[:j[0] + 1]
    for _ in range(40):
        cands = [ops[:i] + ops[i + 1:] for i in range(len(ops))]
        for i, op in enumerate(ops):                       # an append_all reduced to one of its messages
            if op[0] == "L" and len(op[1]) > 1:
                cands += [ops[:i] + [("L", op[1][:q] + op[1][q + 1:])] + ops[i + 1:] for q in range(len(op[1]))]
        cands = [c for c in cands if c]
        if not cands:
            break
        ans = vf.run_lines(T.HARNESS, [hist_line(mode, b"", c) for c in cands], env=henv(run))
        better = []
        for c, a in zip(cands, ans):
            jj = hist_judge(c, a)
            if jj:
                better.append(c[:jj[0] + 1])
        if not better:
            break
        ops = min(better, key=lambda c: (len(c), len(hist_line(mode, b"", c))))
    return ops


def search_hist(run, corr):
    hh = hist_requests(run)
    impl = impl_hists(run)
    fails = []
    nops = 0
    for (r, ops, mode, name), a in zip(hh, impl):
        nops += len(ops)
        j = hist_judge(ops, a)
        if j:
            fails.append((r, ops, mode, name, a, j))
    corr.distribution["oracle: histories judged"] = len(hh)
    corr.distribution["oracle: operations in judged histories"] = nops
    corr.distribution["oracle: violating histories"] = len(fails)
    found = 0
    fails.sort(key=lambda x: (x[3] == "seeded", len(x[0])))
    seen = set()
    for r, ops, mode, name, a, j in fails:
        sig = (name if name != "seeded" else "", j[1].split(" returned")[0][:30])
        if sig in seen or len(seen) >= 3:
            continue
        seen.add(sig)
        small = shrink_hist(run, ops, mode, j)
        req = hist_line(mode, b"", small)
        a2 = vf.run_lines(T.HARNESS, [req], env=henv(run))[0]
        j2 = hist_judge(small, a2)
        if not j2:
            small, req, a2, j2 = ops, r, a, j
        w = {"kind": "capture-history", "request": req, "object": {"b": "io.BytesIO", "w": "file object opened w+b", "p": "path (opened a+b by the class)"}[mode],
             "history": hist_show(small), "failing_operation": j2[0], "what": j2[1], "impl": a2[:400], "expected": j2[2][:400],
             "corpus": name, "failing_histories_in_this_run": len(fails)}
        found += run.report_witness(w)
    return found


def replay(run, path):
    rp = json.load(open(path))
    bad = 0
    for v in rp.get("violations", []):
        w = v.get("witness")
        if not w or "request" not in w:
            print("replay: no concrete input recorded (%s)" % json.dumps(v.get("broken") or w)[:400])
            continue
        if w.get("kind") == "message-object-reused":
            still, text = reuse.replay(w)
            print(text)
            bad += still
            continue
        a = vf.run_lines(T.HARNESS, [w["request"]], env=henv(run))[0]
        same = a[:400] == w["impl"]
        print("replay %s...: impl=%s  (%s)" % (w["request"][:80], a[:120], w["what"]))
        bad += same
    if bad:
        print("VIOLATION property=C15 replay=%s" % path)
    return 1 if bad else 0
