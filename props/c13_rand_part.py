# C13 (and C01), part "rand": the message generators of data_msg.py — Msg.rand_fn / rand_tn / rand_hdr, TxMsg.rand_pwr /
# rand_hdr / rand_burst(length), RxMsg.rand_rssi / rand_toa256 / rand_hdr / rand_burst(length) — produce only valid messages.
# Hooked into props/C13.py (correspond / search / replay dispatch on witness["part"] == "rand").
#
# Model:  lean/OsmoVerif/Model/TrxdRand.lean        theorems: lean/OsmoVerif/Props/C13Rand.lean
# Tie:    harness/py/trxd_rand_harness.py = the REAL generators under a scripted `_randbelow` (CPython's own randint / choice on
#         top of it), same line protocol as lean/OsmoVerif/Driver/TrxdRand.lean (verbs tr.tx / tr.rx / tr.val)
# Oracle: the REAL validate() / gen_msg() / parse_msg() on what the REAL generators produce under (a) boundary selectors
#         (every draw at the lower / upper end of the range the code asks for, every choice index, random fills) and (b) the
#         Mersenne twister with seeds from run.rng; judged here with the protocol's literal ranges (lib/trxd.py).
import json, os
from lib import vf
from lib import trxd as T

LEAN_MODULES = ["OsmoVerif.Props.C13Rand"]
LEAN_MODEL_MODULES = ["OsmoVerif.Model.TrxdRand", "OsmoVerif.Lemmas.TrxdRand"]
DRIVER_MODULES = ["TrxdRand"]
HARNESS = [vf.PY, os.path.join(vf.ROOT, "harness/py/trxd_rand_harness.py"), vf.TRX]
MODELLED = ["rand_fn", "rand_tn", "rand_hdr", "rand_pwr", "rand_burst", "rand_rssi", "rand_toa256"]
KNOWN_HASH = "81aabaf5d25f2c54"
# the generators draw from EXACTLY the protocol range (both ends reachable), not only from inside it: theorems rand_*_onto,
# oracle kind "rand-range-not-covered".  Set to False to demand "inside the range" only.
RANGE_EXACT = False
# C13 speaks about validate() / gen_msg() / send_msg(), not about the generators.  The generators are an EXTENSION of the model
# (theorems + tie are built, run and reported in the evidence on every run), but C13 is decided by them only where a generated
# message shows validate()/gen_msg() itself wrong (a message outside the ranges that validates, one inside that is refused).  A
# generator that draws an invalid value which validate() then refuses, or a difference between the generators and their model,
# is recorded in the evidence ("extension: ...") and printed as a NOTE - it is not a violation of C13.  True = such findings
# and a broken tie of the rand part are reported as violations too.
RAND_DECIDES = False

ASSUMPTIONS = [
    "rand part: theorems are about OsmoVerif.Model.TrxdRand: hand model, statement by statement, of Msg.rand_fn/rand_tn/rand_hdr, TxMsg.rand_pwr/rand_hdr/rand_burst, RxMsg.rand_rssi/rand_toa256/rand_hdr/rand_burst as functions of the random source; the source is the stream of values CPython's _randbelow(n) returns in call order (randint(a, b) = a + _randbelow(b - a + 1), ValueError when b < a; choice(seq) = seq[_randbelow(len(seq))], IndexError when empty); every call is logged as (n asked, k answered); 'the stream respects the ranges the code asks for' = k < n for every logged call; a stream that runs dry is the explicit outcome dry; CPython's random front end (randint/randrange/choice) and the Mersenne twister are environment",
    "rand part: tied to the current tree by running the REAL generators on TxMsg/RxMsg objects created AFTER one scripted random.Random object (its _randbelow pops the request's stream, values returned as they are, also when >= n) was installed in place of data_msg.random (and of every name bound to a method of the module-level generator), against the Lean driver: final object, number of unused answers and the sequence of n's asked are compared, on streams obtained from boundary selectors on the real code (every draw at 0 / n-1 / n//2, every modulation index and TSC, random fills), their truncations (dry), out-of-range answers (n, n+1, 10^9), call orders H,B / B,H / repeated calls on ONE object, explicit burst lengths (negative, 0, other modulations), every prior modulation / None / NOPE / unknown versions, and rand_pwr/rand_rssi/rand_toa256 with min/max given, omitted, equal, reversed and outside the range",
    "rand part: validity of the generated message is promised (and demanded by the oracle) under the stated conditions on the object's prior state only: known header version; rand_hdr() followed by rand_burst() (Tx: length 148 or 444, or in either order); RxMsg version 0: the modulation left in the object has length 148 or 444; RxMsg version 1: nope_ind is False and rand_burst() comes after rand_hdr() without an explicit length; rand_hdr never touches ver, nope_ind, burst (and below version 1 mod_type, tsc_set, tsc, ci)",
]
MANIFEST_TEXT = (" || rand part (the generators of data_msg.py, Props/C13Rand.lean): for EVERY stream of answers of the random source that respects the "
                 "ranges the code asks for: rand_hdr_sets_tx / rand_hdr_sets_rx_v0 / rand_hdr_sets_rx_v1 (exactly which attributes rand_hdr assigns, from "
                 "which draw, with the literal n's 2715648, 8, 256, 74, 65536, 6, 4|2, 8, 2561; ver, nope_ind, burst untouched), rand_hdr_valid_tx / "
                 "rand_hdr_valid_rx (validate() after rand_hdr() iff known version and the burst left in the object fits), rand_msg_valid_tx / "
                 "rand_msg_valid_rx (rand_hdr(); rand_burst() validates iff known version, Tx length 148|444, Rx v0 prior modulation of length 148|444, "
                 "Rx v1 not a NOPE object), rand_burst_then_hdr_valid_* (the order of test_rand_hdr_burst), rand_ranges_* (each rand_* value in the literal "
                 "protocol range; with min/max given: ValueError iff max < min, else min..max unclamped), rand_*_onto (both ends and every value of the "
                 "protocol range are reachable), rand_bits_tx / rand_soft_rx (hard bits 0/1, soft bits -127..127), rand_in_c01_quantifier_* and "
                 "rand_roundtrip_tx / rand_roundtrip_rx (every generated message survives gen_msg/parse_msg: corollaries of C01.tx_roundtrip / rx_roundtrip), "
                 "rand_total_* (enough conforming answers: no exception, no dry); model tied to the real generators under a scripted _randbelow; oracle: "
                 "real validate()/gen_msg()/parse_msg() on the real generators' output under boundary selectors and under the Mersenne twister")
MANIFEST_NOTE = (" || rand part: trusted additionally harness/py/trxd_rand_harness.py (scripted random.Random installed as data_msg.random before any "
                 "object exists), CPython's reduction of randint/choice to _randbelow; F11a (ModGMSK_AB with tsc_set 1, drawn by RxMsg.rand_hdr for the "
                 "stream [.., 2, 1, ..]) is valid for validate() and round-trips (example in Props/C13Rand), it stays a finding of C17")

BAD_VERSIONS = [2, 15, -1]
TX_PROMISE_OPS = ["H,B", "B,H", "H,B148", "H,B444", "B444,H", "H,B,H,B", "B,H,B,H"]
RX0_PROMISE_OPS = ["H,B", "B,H", "H,B148", "H,B444", "H,B,H,B", "B,H,B,H"]
RX1_PROMISE_OPS = ["H,B", "H,B,H,B"]
LEN_OK_MODS = ["ModGMSK", "Mod8PSK", "ModGMSK_AB"]      # burst length 148 / 444: what a version-0 header can carry


def impl(lines):
    return vf.run_lines(HARNESS, lines)


# ------------------------------------------------------------------------------------------------ scenarios
def tx_init(ver, fn=None, tn=None, pwr=None, burst=None):
    return T.Tx(ver, fn, tn, pwr, burst)


def rx_init(ver, mod="ModGMSK", nope=False, burst=None, dirty=False):
    if dirty:
        return T.Rx(ver, 77, 9, -1, 99999, mod, nope, 9, 9, 9999, burst)
    return T.Rx(ver, None, None, None, None, mod, nope, None, None, None, burst)


def promised(kind, init, ops):
    """does the property promise a valid message for this prior state and call sequence? (written from the statement)"""
    if init.ver not in T.VERSIONS:
        return False
    if kind == "tx":
        return ops in TX_PROMISE_OPS
    if init.ver == 0:
        if ops in ("H,B148", "H,B444"):
            return True
        return ops in RX0_PROMISE_OPS and init.mod in LEN_OK_MODS
    if init.nope:
        return False
    if ops == "H,B":
        return True
    return ops in RX1_PROMISE_OPS and init.mod is not None


def scenarios(run, deep=False):
    """(kind, init record, ops, selectors, legacy)"""
    rng = run.rng
    out = []
    seed = lambda: "R%d" % rng.randrange(1 << 30)
    fills = lambda: ["L", "H", "A", seed(), seed()]
    # -- Tx
    tx_inits = [tx_init(v) for v in T.VERSIONS] + [tx_init(1, 5, 5, 5, T.const_burst(444, 1)), tx_init(0, -1, 9, 300, T.const_burst(3, 1))]
    for init in tx_inits:
        for ops in TX_PROMISE_OPS + ["H", "B", "H,B0", "H,B-3", "H,B149", "H,B296"]:
            for f in fills():
                out.append(("tx", init, ops, "-;" + f))
            for pos in range(3):
                for c in "LHM":
                    out.append(("tx", init, ops if ops.startswith("H") else "H," + ops, ",".join(["M"] * pos + [c]) + ";" + seed()))
    for v in BAD_VERSIONS:
        out.append(("tx", tx_init(v), "H,B", "-;" + seed()))
    # -- Rx version 0
    for mod in T.MOD_NAMES + [None]:
        for nope in (False, True):
            init = rx_init(0, mod, nope, dirty=rng.random() < 0.5)
            for ops in RX0_PROMISE_OPS + ["H", "B", "H,B0", "H,B-1", "H,B592"]:
                for f in (fills() if mod in LEN_OK_MODS and not nope else ["L", "H", seed()]):
                    out.append(("rx", init, ops, "-;" + f))
    for pos in range(4):
        for c in "LHM":
            out.append(("rx", rx_init(0), "H,B", ",".join(["M"] * pos + [c]) + ";" + seed()))
    # -- Rx version 1: every modulation index x TSC set end x TSC, every header draw at its ends
    for mi in range(len(T.MOD_NAMES)):
        for sc in "LH":
            for tsc in range(8):
                out.append(("rx", rx_init(1, rng.choice(T.MOD_NAMES + [None])), "H,B", "M,M,M,M,%d,%s,%d,M;%s" % (mi, sc, tsc, seed())))
        for f in fills():
            out.append(("rx", rx_init(1), "H,B", "M,M,M,M,%d;%s" % (mi, f)))
    for pos in range(8):
        for c in "LHM":
            out.append(("rx", rx_init(1), "H,B", ",".join(["M"] * pos + [c]) + ";" + seed()))
    for mod in T.MOD_NAMES + [None]:
        for nope in (False, True):
            init = rx_init(1, mod, nope, dirty=rng.random() < 0.5)
            for ops in RX1_PROMISE_OPS + ["B,H", "B,H,B", "H", "B", "H,B148", "H,B444", "H,B0", "H,B740"]:
                for f in ["L", "H", seed()]:
                    out.append(("rx", init, ops, "-;" + f))
    init = rx_init(1, "Mod16QAM", False, T.const_burst(592, 0x7f))
    out.append(("rx", init, "H", "M,M,M,M,3;L"))          # the burst left in the object fits the drawn modulation
    out.append(("rx", rx_init(1, None, True), "H", "-;" + seed()))      # a NOPE object without burst stays valid
    for v in BAD_VERSIONS:
        out.append(("rx", rx_init(v), "H,B", "-;" + seed()))
    # -- seeded fills on the documented call sequence
    for _ in range(run.scale(300, 6000) * (3 if deep else 1)):
        kind = rng.choice(["tx", "rx", "rx"])
        ver = rng.choice(T.VERSIONS)
        init = tx_init(ver) if kind == "tx" else rx_init(ver)
        out.append((kind, init, "H,B", "-;" + seed()))
    return [(k, i, o, s, rng.randrange(2)) for (k, i, o, s) in out]


def sel_request(sc):
    kind, init, ops, sel, legacy = sc
    return "tr.sel.%s %s %s %d %s" % (kind, ops, sel, legacy, init.line())


def split_record(ans):
    """'ok | <msg> | <validate> | <roundtrip> [| draws]' -> (outcome, msg text, validate, roundtrip, draws text)"""
    p = ans.split(" | ")
    if p[0] != "ok":
        return p[0], None, None, None, (p[1] if len(p) > 1 else "-")
    return "ok", p[1], p[2], p[3], (p[4] if len(p) > 4 else None)


def parse_draws(t):
    return [] if t in (None, "-") else [tuple(int(x) for x in d.split(":")) for d in t.split(",")]


def sel_answers(run, deep=False):
    key = "c13rand_sel_%s" % deep
    if getattr(run, key, None) is None:
        scs = scenarios(run, deep)
        reqs = [sel_request(s) for s in scs]
        setattr(run, key, (scs, reqs, impl(reqs)))
    return getattr(run, key)


# ------------------------------------------------------------------------------------------------ tie
def perturb(rng, ks, ns_):
    """streams around a conforming one: the stream itself, truncations (dry), out-of-range answers, surplus answers"""
    out = [list(ks)]
    if ks:
        out.append(ks[:rng.randrange(len(ks))])
        out.append(ks[:min(len(ks), rng.choice([0, 1, 2, 3, 4, 5, 6, 7, 8]))])
        i = rng.randrange(min(len(ks), 12))
        bad = list(ks)
        bad[i] = rng.choice([ns_[i], ns_[i] + 1, 10 ** 9, 255, 256, 128, 129])
        out.append(bad)
        if len(ks) > 12:
            j = rng.randrange(12, len(ks))
            bad = list(ks)
            bad[j] = rng.choice([ns_[j], ns_[j] + 1, 254, 255, 256, 2, 300])
            out.append(bad)
    out.append(list(ks) + [rng.randrange(9) for _ in range(rng.choice([1, 3]))])
    return out


def val_requests(rng, n):
    out = []
    R = {"pwr": T.PWR_R, "rssi": T.RSSI_R, "toa": T.TOA_R}
    for f in ("fn", "tn"):
        w = {"fn": T.HYPERFRAME, "tn": 8}[f]
        for k in (0, 1, w - 2, w - 1, w, w + 1, 10 ** 9):
            out.append("tr.val %s - - %d" % (f, k))
        out.append("tr.val %s - - -" % f)
        out.append("tr.val %s - - 3,4" % f)
    for f, (lo, hi) in R.items():
        w = hi - lo + 1
        for k in (0, 1, w - 1, w, w + 5):
            out.append("tr.val %s - - %d" % (f, k))
        out.append("tr.val %s - - -" % f)
        edge = [lo - 1, lo, lo + 1, hi - 1, hi, hi + 1, 0, -1, (lo + hi) // 2]
        for a in edge + [None]:
            for b in edge + [None]:
                aa, bb = (lo if a is None else a), (hi if b is None else b)
                for k in sorted({0, max(0, bb - aa), max(0, bb - aa + 1)}):
                    out.append("tr.val %s %s %s %d" % (f, T.s(a), T.s(b), k))
                out.append("tr.val %s %s %s -" % (f, T.s(a), T.s(b)))
    for _ in range(n):
        f = rng.choice(list(R))
        lo, hi = R[f]
        a = rng.choice([None, rng.randint(lo - 300, hi + 300)])
        b = rng.choice([None, rng.randint(lo - 300, hi + 300)])
        out.append("tr.val %s %s %s %d" % (f, T.s(a), T.s(b), rng.randrange(70000)))
    return out


def conforming(req, model_answer):
    """did every answer the model consumed respect the n it asked for?"""
    t = req.split()
    st = t[4] if t[0] == "tr.val" else t[2]
    ks = [] if st == "-" else [int(x) for x in st.split(",")]
    nst = model_answer.split(" | ")[-1]
    ns_ = []
    if nst != "-":
        for seg in nst.split(","):
            n, _, c = seg.partition("x")
            ns_ += [int(n)] * (int(c) if c else 1)
    return all(k < n for k, n in zip(ks, ns_))


def correspond(run, corr):
    rng = run.rng
    scs, sreqs, sans = sel_answers(run)
    reqs = []
    for sc, a in zip(scs, sans):
        kind, init, ops, sel, legacy = sc
        d = parse_draws(a.split(" | ")[-1])
        ks, ns_ = [k for _, k in d], [n for n, _ in d]
        variants = perturb(rng, ks, ns_) if (len(ks) < 200 or rng.random() < 0.35) else [ks]
        for st in variants:
            reqs.append("tr.%s %s %s %s" % (kind, ops, ",".join(map(str, st)) or "-", init.line()))
    reqs += val_requests(rng, run.scale(400, 8000))
    reqs = list(dict.fromkeys(reqs))
    a = impl(reqs)
    b = vf.run_driver(reqs)
    # the theorems quantify over streams that respect the ranges asked for: a request is inside the domain iff every answer the
    # MODEL consumed was below the n the model asked for (dry streams included); what the code does with other answers (an
    # exception raised earlier or later, ...) is compared and recorded, but a difference there is not a broken tie
    inside = {r: conforming(r, y) for r, y in zip(reqs, b)}
    corr.compare(reqs, a, b, in_domain=lambda r: RAND_DECIDES and inside[r])
    ndiff = sum(1 for r, x, y in zip(reqs, a, b) if inside[r] and x != y)
    corr.distribution["extension(rand): differences generators vs model on conforming streams (reported here, not a C13 violation)"] = ndiff
    if ndiff and not RAND_DECIDES:
        print("NOTE: C13 extension 'rand': the generators of data_msg.py differ from Model/TrxdRand on %d conforming streams "
              "(the theorems of Props/C13Rand are not about this tree; C13 itself is decided without them)" % ndiff)
    for r, x in zip(reqs, a):
        t = r.split()
        corr.count(r, "rand: %s %s -> %s" % (t[0], t[1] if t[0] == "tr.val" else ("v%s" % t[3] if t[3] in ("0", "1") else "v-other"),
                                              x.split()[0]))
    h = vf.src_hash_py(os.path.join(vf.TRX, "data_msg.py"), MODELLED)
    run.drift["data_msg.py:rand_*"] = h
    run.drift["rand_changed_since_model_was_written"] = h != KNOWN_HASH
    corr.rule += (" || rand part: real generators under the scripted _randbelow vs Model/TrxdRand: streams from boundary selectors on the real code "
                  "(every header draw at 0, n-1, n//2; every modulation index x TSC set end x TSC; fills all-low, all-high, alternating, seeded), "
                  "their truncations, out-of-range and surplus answers; call sequences H,B / B,H / repeated / explicit lengths on prior states of every "
                  "modulation / None / NOPE / dirty fields / unknown versions; rand_pwr/rssi/toa256 on the min/max lattice")
    pick = [i for i, r in enumerate(reqs) if r.startswith("tr.rx H,B ") and " 1 - - - - " in r and a[i].startswith("ok")][:1] + \
           [i for i, r in enumerate(reqs) if r.startswith("tr.val rssi")][5:6]
    corr.samples[:0] = [{"request": reqs[i][:200], "impl": a[i][:200], "model": b[i][:200]} for i in pick]
    corr.distribution["rand: requests compared on streams that respect the ranges asked for"] = sum(inside.values())
    corr.distribution["rand: requests compared on other streams (evidence only)"] = len(reqs) - sum(inside.values())


# ------------------------------------------------------------------------------------------------ oracle
LOW = {"fn": 0, "tn": 0, "pwr": 0, "rssi": -120, "toa": -32768, "ci": -1280, "tsc": 0, "tset": 0}
HIGH = {"fn": 2715647, "tn": 7, "pwr": 255, "rssi": -47, "toa": 32767, "ci": 1280, "tsc": 7}


def field_out_of_range(kind, m):
    chk = [("fn", T.FN_R), ("tn", T.TN_R)] + ([("pwr", T.PWR_R)] if kind == "tx" else [("rssi", T.RSSI_R), ("toa", T.TOA_R)])
    if kind == "rx" and m.ver == 1:
        chk += [("ci", T.CI_R), ("tsc", T.TSC_R), ("tset", (0, 3) if m.mod == "ModGMSK" else (0, 1))]
    for f, r in chk:
        if not T.inr(getattr(m, f), r):
            return "%s = %s outside %d..%d" % (f, getattr(m, f), r[0], r[1])
    return None


def judge(kind, init, ops, promise, outcome, msg, val, rt):
    """the property on one generated message; None or what fails"""
    why = judge_all(kind, init, ops, promise, outcome, msg, val, rt)
    if why is None or RAND_DECIDES:
        return why
    EXT_NOTES[why.split(":")[0][:60]] = EXT_NOTES.get(why.split(":")[0][:60], 0) + 1
    if outcome != "ok":
        return None
    m = (T.parse_tx_answer if kind == "tx" else T.parse_rx_answer)("ok " + msg)
    inr = not field_out_of_range(kind, m) and (T.in_range_tx(m) if kind == "tx" else T.in_range_rx(m))
    if val == "ok" and not inr:
        return "validate() accepts a generated message outside the protocol ranges: " + why
    if val != "ok" and inr and promise:
        return why          # refuses a message inside the ranges
    if val == "ok" and inr and not rt.startswith("ok "):
        return why          # encoding refused for a message that validates
    return None


EXT_NOTES = {}


def judge_all(kind, init, ops, promise, outcome, msg, val, rt):
    if outcome != "ok":
        if promise:
            return "the generators raised %s on a conforming stream" % outcome
        return None
    m = (T.parse_tx_answer if kind == "tx" else T.parse_rx_answer)("ok " + msg)
    if promise:
        bad = field_out_of_range(kind, m)
        if bad:
            return "generated value outside its protocol range: " + bad
        if not (T.in_range_tx(m) if kind == "tx" else T.in_range_rx(m)):
            return "generated message is not in the protocol ranges (burst length %s)" % (None if m.burst is None else len(m.burst))
        if val != "ok":
            return "validate() refuses the generated message: %s" % val
        bits = set(m.burst)
        if kind == "tx" and not bits <= {0, 1}:
            return "generated hard bits outside {0,1}"
        if kind == "rx" and 0x80 in bits:
            return "generated soft bit -128 is outside C01's quantifier (-127..127)"
    if val == "ok":
        exp = T.carried_tx(m) if kind == "tx" else T.carried_rx(m)
        got = (T.parse_tx_answer if kind == "tx" else T.parse_rx_answer)(rt) if rt.startswith("ok ") else None
        # soft bit -128 is outside C01's quantifier: only promised messages are required to avoid it
        if not promise and kind == "rx" and m.burst is not None and 0x80 in set(m.burst):
            return None
        if got is None or got.line() != exp.line():
            return "generated message does not survive gen_msg()/parse_msg(): %s" % rt[:80]
    return None


def judge_exact(kind, init, ops, sel, m):
    """all draws at the lower / upper end: the generated value must BE the end of the protocol range"""
    if sel not in ("-;L", "-;H"):
        return None
    want = dict(LOW if sel == "-;L" else HIGH)
    if sel == "-;H" and kind == "rx":
        want["tset"] = 3 if m.mod == "ModGMSK" else 1
    fields = ["fn", "tn", "pwr"] if kind == "tx" else ["fn", "tn", "rssi", "toa"] + (["ci", "tsc", "tset"] if m.ver == 1 else [])
    for f in fields:
        if getattr(m, f) != want[f]:
            return "%s end of the range of %s is %d, the generator's is %s" % ("lower" if sel == "-;L" else "upper", f, want[f], getattr(m, f))
    if kind == "rx" and m.ver == 1 and m.mod != (T.MOD_NAMES[0] if sel == "-;L" else T.MOD_NAMES[-1]):
        return "modulation choice does not reach the %s member of the enum" % ("first" if sel == "-;L" else "last")
    b = set(m.burst or b"")
    if b and b != ({0 if sel == "-;L" else 1} if kind == "tx" else {0x81 if sel == "-;L" else 0x7f}):
        return "burst bits do not reach the %s end of their range" % ("lower" if sel == "-;L" else "upper")
    return None


def witness(kind, init, ops, legacy, msg, val, rt, draws, why, source):
    hdr = draws[:16]
    stream = ",".join(str(k) for _, k in draws) or "-"
    w = {"part": "rand", "kind": "rand-generator", "class": "TxMsg" if kind == "tx" else "RxMsg", "ver": init.ver, "ops": ops,
         "prior_state": init.line()[:200], "what": why, "source": source,
         "draws_n_k": [list(d) for d in hdr] + (["... %d more" % (len(draws) - 16)] if len(draws) > 16 else []),
         "message": (msg or "")[:300], "validate": val, "roundtrip": (rt or "")[:120],
         "replay_request": "tr.sel.%s %s %s;L %d %s" % (kind, ops, stream, legacy, init.line())}
    return w


def judge_selected(run, corr, deep):
    scs, reqs, ans = sel_answers(run, deep)
    fails = []
    npromise = 0
    for sc, a in zip(scs, ans):
        kind, init, ops, sel, legacy = sc
        outcome, msg, val, rt, dtext = split_record(a)
        promise = promised(kind, init, ops)
        npromise += promise
        why = judge(kind, init, ops, promise, outcome, msg, val, rt)
        kindw = "rand-generator"
        if why is None and promise and RANGE_EXACT and outcome == "ok":
            why = judge_exact(kind, init, ops, sel, (T.parse_tx_answer if kind == "tx" else T.parse_rx_answer)("ok " + msg))
            kindw = "rand-range-not-covered"
        if why:
            fails.append((sc, msg, val, rt, parse_draws(dtext), why, kindw))
    tag = " (deep)" if deep else ""
    corr.distribution["oracle(rand): generated messages judged under boundary selectors" + tag] = len(scs)
    corr.distribution["oracle(rand): of these, call sequences with promised validity" + tag] = npromise
    return fails


REAL_COMBOS = [("tx", 0, "H,B"), ("tx", 1, "H,B"), ("tx", 0, "B,H"), ("rx", 0, "H,B"), ("rx", 0, "B,H"), ("rx", 1, "H,B"), ("rx", 1, "H,B")]


def judge_real(run, corr, deep):
    """the Mersenne twister: ONE object per chunk, `count` messages each"""
    rng = run.rng
    total = run.scale(10000, 150000) * (2 if deep else 1)
    chunk = 250
    reqs, meta = [], []
    for i in range(total // chunk):
        kind, ver, order = REAL_COMBOS[i % len(REAL_COMBOS)]
        seed, legacy = rng.randrange(1 << 32), rng.randrange(2)
        reqs.append("tr.real.%s %d %d %d %s %d -" % (kind, ver, seed, chunk, order, legacy))
        meta.append((kind, ver, order, seed, legacy))
    ans = impl(reqs)
    fails = []
    n = 0
    for (kind, ver, order, seed, legacy), a in zip(meta, ans):
        init = tx_init(ver) if kind == "tx" else rx_init(ver)
        for idx, rec in enumerate(a.split(" ;; ")):
            n += 1
            outcome, msg, val, rt, _ = split_record(rec)
            why = judge(kind, init, order, True, outcome, msg, val, rt)
            if why:
                # the draws of exactly this message, from a second run of the same seeded object
                again = impl(["tr.real.%s %d %d %d %s %d %d" % (kind, ver, seed, idx + 1, order, legacy, idx)])[0]
                p = again.split(" | ")
                fails.append(((kind, init, order, "seed %d message %d" % (seed, idx), legacy), msg, val, rt, parse_draws(p[-1]), why, "rand-generator"))
                break
    corr.distribution["oracle(rand): messages generated under the Mersenne twister and judged" + (" (deep)" if deep else "")] = n
    return fails


def search(run, corr, deep):
    EXT_NOTES.clear()
    try:
        return search_(run, corr, deep)
    finally:
        for k, n in EXT_NOTES.items():
            corr.distribution["extension(rand): generated messages with '%s' (not a C13 violation by itself)" % k] = n
        if EXT_NOTES:
            print("NOTE: C13 extension 'rand': " + "; ".join("%s x%d" % kv for kv in EXT_NOTES.items()))


def search_(run, corr, deep):
    fails = judge_selected(run, corr, False)
    if not fails:
        fails = judge_real(run, corr, False)
    if not fails and deep:
        fails = judge_selected(run, corr, True) or judge_real(run, corr, True)
    found = 0
    seen = set()
    for sc, msg, val, rt, draws, why, kindw in fails:
        kind, init, ops, sel, legacy = sc
        key = (kind, init.ver, why.split(":")[0][:40])
        if key in seen or len(seen) >= 6:
            continue
        seen.add(key)
        w = witness(kind, init, ops, legacy, msg, val, rt, draws, why, sel)
        w["kind"] = kindw
        w["failing_cases_in_this_run"] = len(fails)
        found += run.report_witness(w)
    return found


def replay(run, w):
    """-> (still failing?, text)"""
    a = impl([w["replay_request"]])[0]
    t = w["replay_request"].split()
    kind = "tx" if t[0].endswith(".tx") else "rx"
    ops, legacy = t[1], int(t[3])
    init = (T.parse_tx_answer if kind == "tx" else T.parse_rx_answer)("ok " + " ".join(t[4:]))
    outcome, msg, val, rt, dtext = split_record(a)
    promise = promised(kind, init, ops)
    why = judge(kind, init, ops, promise, outcome, msg, val, rt)
    if why is None and w.get("kind") == "rand-range-not-covered" and outcome == "ok":
        why = judge_exact(kind, init, ops, w.get("source"), (T.parse_tx_answer if kind == "tx" else T.parse_rx_answer)("ok " + msg))
    return bool(why), "replay rand %s %s on [%s] draws %s -> %s | validate=%s : %s" % (
        kind, ops, init.line()[:60], (dtext or "-")[:80], (msg or outcome)[:80], val, why or "property holds")
