# C13 — Validation accepts exactly the protocol value ranges; nothing invalid is sent
import json, os
from lib import vf
from lib import trxd as T
from gen import trxd_consts
from props import c13_rand_part as rand
from props import msg_reuse_part as reuse      # part "rand": the message generators rand_* of data_msg.py

ID = "C13"
LEVEL = "proof"
LEAN_MODULES = ["OsmoVerif.Props.C13"]
DRIVER_MODULES = ["Trxd"]
LEAN_MODEL_MODULES = ["OsmoVerif.Model.Trxd", "OsmoVerif.Spec.TrxdRanges", "OsmoVerif.Lemmas.Trxd"]
ASSUMPTIONS = [
    "theorems are about OsmoVerif.Model.Trxd (hand model of Msg/TxMsg/RxMsg.validate, gen_msg and DATAInterface.send_msg; fields are Python ints or None, bursts are bytes / array('b'))",
    "all bounds, KNOWN_VERSIONS, TSC_RANGE, burst lengths and the Modulation enum are regenerated from the tree on every run (gen/trxd_consts.py) and related by the theorems to the literal protocol numbers of Spec/TrxdRanges.lean",
    "comparison operators and check order are hand-modelled and tied to the real classes by the complete boundary lattice (validate, gen_msg, send_msg with an in-memory socket)",
    "UDP delivery is not modelled: 'sent' means handed to socket.sendto()",
]
MANIFEST = {
    "text": "Lean 4 theorems validate_tx_iff / validate_rx_iff (validate() = ok iff every field is in the literal protocol range), validate_*_refuses_iff (otherwise exactly ValueError), gen_refuses_iff_tx/rx (gen_msg raises ValueError exactly for the messages not in range and returns octets otherwise), send_emits_iff_tx/rx (DATAInterface.send_msg hands exactly one datagram to the socket iff in range, else none and returns normally), for all field values, versions, modulations, NOPE and burst lengths; bounds regenerated from the tree; model tied to the real classes on the complete boundary lattice; independent Python oracle with the literal ranges",
    "note": "trusted: Lean kernel (+propext, Classical.choice, Quot.sound), gen/trxd_consts.py, harness/py/trxd_harness.py and the lattice generator lib/trxd.py; genuine defect F2 (FN 2715648 accepted) repaired by a fix: commit, the theorems hold on the fixed tree only",
    "technique": "Lean 4 proof over a hand model with regenerated bounds; differential correspondence on the complete boundary lattice; literal-range oracle on the real code",
    "design_ref": "DESIGN.md section 5 C13",
}
LEAN_MODULES += rand.LEAN_MODULES
DRIVER_MODULES += rand.DRIVER_MODULES
LEAN_MODEL_MODULES += rand.LEAN_MODEL_MODULES
ASSUMPTIONS += rand.ASSUMPTIONS
MANIFEST = dict(MANIFEST, text=MANIFEST["text"] + rand.MANIFEST_TEXT, note=MANIFEST["note"] + rand.MANIFEST_NOTE)
# AST hash of the modelled functions on the tree the model was written against (fixed tree)
MODELLED = ["validate", "_validate_burst_v0", "_validate_burst_v1", "validate_burst", "gen_msg", "send_msg"]
KNOWN_HASHES = {"data_msg.py": "a1e35ecaae246a26", "data_if.py": "a87e472643d68c1b"}


def gen(run):
    run.trxd_consts = trxd_consts.generate(run)


def drift(run):
    h1 = vf.src_hash_py(os.path.join(vf.TRX, "data_msg.py"), MODELLED)
    h2 = vf.src_hash_py(os.path.join(vf.TRX, "data_if.py"), MODELLED)
    run.drift["data_msg.py:validate/gen_msg"] = h1
    run.drift["data_if.py:send_msg"] = h2
    changed = (h1 != KNOWN_HASHES["data_msg.py"]) or (h2 != KNOWN_HASHES["data_if.py"])
    run.drift["changed_since_model_was_written"] = changed
    return changed


def rx_random_product(rng, n):
    """every field drawn independently from its lattice (mostly invalid combinations)"""
    out = []
    for _ in range(n):
        ver = rng.choice(list(T.VERSIONS) * 4 + T.BAD_VERSIONS)
        mod = rng.choice(T.MOD_NAMES + [None])
        pick = lambda r, p=0.75: (rng.choice([r[0], r[1], (r[0] + r[1]) // 2]) if rng.random() < p else rng.choice(T.lattice(r)))
        b = rng.choice([None] + [T.const_burst(k, 0x80) for k in T.BURST_LENS] +
                       ([T.const_burst(T.MODS[mod][1], 0x01)] * 8 if mod else []))
        out.append(T.Rx(ver, pick(T.FN_R), pick(T.TN_R), pick(T.RSSI_R), pick(T.TOA_R), mod, rng.random() < 0.2,
                        pick((0, 3) if mod == "ModGMSK" else (0, 1)), pick(T.TSC_R), pick(T.CI_R), b))
    return out


def cases(run, deep=False):
    """the messages of this run: (kind, message record, legacy flag)"""
    key = "c13_cases_%s" % deep
    if getattr(run, key, None):
        return getattr(run, key)
    changed = drift(run)
    mult = 4 if changed else 1
    out = []
    for m in T.tx_lattice():
        out.append(("tx", m, run.rng.randrange(2)))
    n_pairs = run.scale(4000, 40000) * mult
    for m in T.rx_lattice(run.rng, n_pairs):
        out.append(("rx", m, run.rng.randrange(2)))
    n_prod = run.scale(15000, 300000) * mult * (5 if deep else 1)
    for m in rx_random_product(run.rng, n_prod):
        out.append(("rx", m, run.rng.randrange(2)))
    for _ in range(run.scale(1000, 20000)):
        out.append(("tx", T.rand_valid_tx(run.rng), run.rng.randrange(2)))
        out.append(("rx", T.rand_valid_rx(run.rng), run.rng.randrange(2)))
    setattr(run, key, out)
    return out


def requests(cs):
    reqs = []
    for kind, m, l in cs:
        ln = m.line()
        reqs.append("trxd.%s.validate %s" % (kind, ln))
        reqs.append("trxd.%s.gen %d %s" % (kind, l, ln))
        reqs.append("trxd.%s.send %d %s" % (kind, l, ln))
    return reqs


def impl_answers(run, deep=False):
    key = "c13_impl_%s" % deep
    if getattr(run, key, None) is None:
        cs = cases(run, deep)
        reqs = requests(cs)
        setattr(run, key, (cs, reqs, vf.run_lines(T.HARNESS, reqs)))
    return getattr(run, key)


def correspond(run, corr):
    cs, reqs, impl = impl_answers(run)
    model = vf.run_driver(reqs)
    corr.compare(reqs, impl, model)
    for i, (kind, m, l) in enumerate(cs):
        a = impl[3 * i]
        corr.count(reqs[3 * i], "%s v%s %s" % (kind, m.ver if m.ver in (0, 1) else "other", "valid" if a == "ok" else a))
        corr.evaluations += 2
    corr.exhaustive = True
    corr.rule = ("cases = TxMsg lattice as a full product (6 versions x 7 FN x 7 TN x 7 attenuation values x None/9 burst lengths), "
                 "RxMsg lattice (6 versions x 6 modulations/None x NOPE x None/9 burst lengths as a full product, in each cell every numeric "
                 "field at lo-1, lo, lo+1, hi-1, hi, hi+1, None), seeded two-field and all-field lattice combinations, seeded valid messages; "
                 "each case is validated, encoded and sent (3 requests); a case counts as non-trivial when distinct (every one reaches validate())")
    k = 0
    for i in range(0, len(reqs), max(1, len(reqs) // 6)):
        corr.samples.append({"request": reqs[i][:300], "impl": impl[i][:200], "model": model[i][:200]})
        k += 1
    rand.correspond(run, corr)


def judge(kind, m, l, va, ga, sa):
    """the property on the real code's three observations of one message; returns None or what fails"""
    ok = T.in_range_tx(m) if kind == "tx" else T.in_range_rx(m)
    if ok:
        if va != "ok":
            return "validate() refuses a message whose fields are all in range: %s" % va
        if not ga.startswith("ok "):
            return "gen_msg() does not encode a message whose fields are all in range: %s" % ga[:60]
        if sa != "ok 1 " + ga[3:]:
            return "send_msg() did not send exactly the encoding as one datagram: %s" % sa[:60]
    else:
        if va == "ok":
            return "validate() accepts a message with a field outside its protocol range"
        if va != "ValueError":
            return "validate() raises %s instead of ValueError" % va
        if ga != "ValueError":
            return "gen_msg() does not refuse an invalid message with ValueError: %s" % ga[:60]
        if sa != "ok 0":
            return "send_msg() emitted a datagram / raised for an invalid message: %s" % sa[:60]
    return None


def nominal_like(kind, m):
    if kind == "tx":
        return T.nominal_tx(1, 148)
    return T.nominal_rx(1, "ModGMSK", False)


def observe(kind, m, l):
    ln = m.line()
    return vf.run_lines(T.HARNESS, ["trxd.%s.validate %s" % (kind, ln), "trxd.%s.gen %d %s" % (kind, l, ln),
                                    "trxd.%s.send %d %s" % (kind, l, ln)])


def minimise(kind, m, l):
    """reset fields to nominal in-range values while the property still fails (to a fixed point)"""
    nom = nominal_like(kind, m)
    cur = m
    changed = True
    while changed:
        changed = False
        for f in m.__slots__:
            if getattr(cur, f) == getattr(nom, f):
                continue
            trial = cur.copy(**{f: getattr(nom, f)})
            va, ga, sa = observe(kind, trial, l)
            if judge(kind, trial, l, va, ga, sa) is not None:
                cur = trial
                changed = True
    return cur


def judge_all(run, corr, deep):
    cs, reqs, impl = impl_answers(run, deep)
    fails = []
    for i, (kind, m, l) in enumerate(cs):
        why = judge(kind, m, l, impl[3 * i], impl[3 * i + 1], impl[3 * i + 2])
        if why:
            fails.append((kind, m, l, why))
    corr.distribution["oracle: messages judged against the literal ranges" + (" (deep)" if deep else "")] = len(cs)
    corr.distribution["oracle: messages violating the property" + (" (deep)" if deep else "")] = len(fails)
    return fails


def search(run, corr, deep):
    """property oracle on the real code: outcome of validate()/gen_msg()/send_msg() vs the literal ranges"""
    fails = judge_all(run, corr, False)
    if not fails and deep:
        fails = judge_all(run, corr, True)
    found = 0
    reported = set()
    picked = [f for f in fails if f[0] == "tx"][:3] + [f for f in fails if f[0] == "rx"][:3]
    for kind, m, l, why in picked:
        mm = minimise(kind, m, l)
        key = (kind, mm.line())
        if key in reported:
            continue
        reported.add(key)
        va, ga, sa = observe(kind, mm, l)
        w = mm.asdict()
        w.update({"kind": "validate-range", "legacy": l, "what": judge(kind, mm, l, va, ga, sa) or why,
                  "impl": {"validate": va, "gen_msg": ga[:80], "send_msg": sa[:80]},
                  "spec_in_range": T.in_range_tx(mm) if kind == "tx" else T.in_range_rx(mm),
                  "failing_cases_in_this_run": len(fails)})
        found += run.report_witness(w)
    # history on ONE message object: refusal / emission follows the fields as they are NOW
    rf = reuse.run(run, corr, cases(run)[:: 7], False, "C13")
    seen = set()
    for f in rf:
        key = (f[0], f[1], f[6].split()[0], f[7].split()[0])
        if key in seen or len(seen) >= 3:
            continue
        seen.add(key)
        found += run.report_witness(reuse.witness(f, len(rf)))
    return found + rand.search(run, corr, deep)


def replay(run, path):
    rp = json.load(open(path))
    bad = 0
    for v in rp.get("violations", []):
        w = v.get("witness")
        if not w:
            print("replay: no concrete input recorded (%s)" % json.dumps(v.get("broken"))[:400])
            continue
        if w.get("kind") == "message-object-reused":
            still, text = reuse.replay(w)
            print(text)
            bad += still
            continue
        if w.get("part") == "rand":
            still, text = rand.replay(run, w)
            print(text)
            bad += still
            continue
        kind = "tx" if w["class"] == "TxMsg" else "rx"
        if kind == "tx":
            m = T.Tx(w["ver"], w["fn"], w["tn"], w["pwr"], None if w["burst_len"] is None else T.const_burst(w["burst_len"], 1))
        else:
            m = T.Rx(w["ver"], w["fn"], w["tn"], w["rssi"], w["toa256"], w["mod"], w["nope"], w["tsc_set"], w["tsc"], w["ci"],
                     None if w["burst_len"] is None else T.const_burst(w["burst_len"], 0x7f))
        va, ga, sa = observe(kind, m, w.get("legacy", 0))
        why = judge(kind, m, w.get("legacy", 0), va, ga, sa)
        print("replay %s: in literal range=%s validate=%s gen_msg=%s send_msg=%s -> %s"
              % (m.line()[:120], T.in_range_tx(m) if kind == "tx" else T.in_range_rx(m), va, ga[:40], sa[:40], why or "property holds"))
        bad += why is not None
    if bad:
        print("VIOLATION property=C13 replay=%s" % path)
    return 1 if bad else 0
