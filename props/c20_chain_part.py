# C20, chain part: the hopping list end to end
#   layer23 decoder -> gsm48_rr_render_ma -> l1ctl_tx_dm_est_req_h1 -> (L1CTL octets) -> trxcon l1ctl_rx_dm_est_req ->
#   handle_dch_est_req -> trx_if_cmd_setfh -> (TRXC datagram) -> fake_trx CTRLInterface / enable_fh ->
#   get_rx_freq / get_tx_freq per frame; and the firmware's l1ctl_rx_dm_est_req -> rfch_get_params on the same message.
# Lean: Model/HopChain.lean (glue), Lemmas/C20Chain.lean, Props/C20Chain.lean, Driver/HopChain.lean (verbs chain.*),
# Gen/HopChain.lean (gen/hop_chain.py).  Helper module of props/C20.py (not a registered check itself).
#
# Real code driven here, every piece compiled / imported UNCHANGED from vf.REPO:
#   dec    harness of props/C20.py: extracted gsm48_decode_mobile_alloc (ASan+UBSan)                 verb ma.decode
#   glue   gen/hop_chain.py + harness/c/c20_glue_harness.c: extracted render_ma, arfcn2index, l1ctl_tx_dm_est_req_h1
#          (layer23), l1ctl_rx_dm_est_req + l1ctl_proc_est_req_h1 + handle_dch_est_req + trxcon_phyif_handle_cmd (trxcon), l1ctl_rx_dm_est_req
#          (firmware), real msgb.c/talloc.c, ASan+UBSan                                               verb glue.run
#   tc     harness of props/trxcon_part.py: the real trx_if.c                                         verb tc.cmd SETFREQ_H1
#   trx    harness/py/chain_harness.py: the real FakeTRX of the real Application                      verb chain.trx
#   fw     harness of props/C07.py: the real rfch.c                                                   verbs o.setfh / o.res
# correspond(): the assembled observations against the composed Lean models (driver verbs chain.glue, chain.run).
# oracle():     an independent reference (own cell-allocation ordering and bitmap selection, own ARFCN -> frequency
#               table, own byte order, TS 45.002 MAI) judges the real observations; witnesses carry "part": "chain".
import os, random, re, subprocess
from lib import vf, cbuild, worldcheck as wc
from gen import hop_chain
from props import trxcon_part

LEAN_MODULES = ["OsmoVerif.Props.C20Chain"]
LEAN_MODEL_MODULES = ["OsmoVerif.Model.HopChain", "OsmoVerif.Lemmas.C20Chain"] + wc.LEAN_MODEL_MODULES + trxcon_part.LEAN_MODEL_MODULES
DRIVER_MODULES = ["HopChain"]
CHAIN_HARNESS = os.path.join(vf.ROOT, "harness/py/chain_harness.py")
SAN = ["-fsanitize=address,undefined", "-fno-sanitize-recover=all", "-fno-omit-frame-pointer"]
H = 2715648

MANIFEST_TEXT = ("; chain part (Props/C20Chain): the decoded list end to end - chain_ms_side (gsm48_rr_render_ma + l1ctl_tx_dm_est_req_h1: same channels, "
                 "same order, PCS flag on 512..810 of a PCS cell, n = N, network byte order), chain_cbch_side (SI4 CBCH caller), chain_setfh (trxcon emits exactly "
                 "`CMD SETFH hsn maio rx1 tx1 .. rxN txN\\0` with 100*gsm_arfcn2freq10 of the decoded channels in decoded order when the text fits ma_buf), "
                 "chain_enospc_limit / chain_setfh_enospc / chain_setfh_full_fails (14*a + 16*b <= 999 characters: 63 or 64 DCS 1800 / PCS 1900 channels are refused "
                 "with -ENOSPC, nothing is sent), chain_fake_trx (HoppingParams(hsn, maio, Hz pairs) same N same order, RSP SETFH 0), chain_channel / "
                 "chain_end_to_end (get_rx_freq/get_tx_freq(fn) = pair of decoded[MAI] per TS 45.002, firmware rfch_get_params on the same L1CTL message = the "
                 "same ARFCN, every frame), chain_injective, chain_order; tie: real decoder -> extracted layer23/trxcon/firmware glue (ASan+UBSan) -> real "
                 "trx_if.c -> real FakeTRX -> real get_rx_freq / rfch.c, every stage against the composed Lean models and an independent reference")
MANIFEST_NOTE = ("; chain part trusted additionally: gen/hop_chain.py (extractor), harness/c/c20_glue_harness.c, harness/py/chain_harness.py, the stubs listed in "
                 "the assumptions; modelled not verified: L1CTL / UDP sockets, the callers around the glue, the non-Mobile-Allocation branches of gsm48_rr_render_ma")

ASSUMPTIONS = [
    "chain part: theorems compose the models of the decoder (Model/MobileAlloc), trxcon's emitter (Model/TrxconIf), the fake_trx world (Model/World, PyStr) and the hopping code (Model/Hopping) with OsmoVerif.Model.HopChain: a hand model, statement by statement, of the mobile-allocation branch of gsm48_rr_render_ma incl. the 'convert to band_arfcn' loop and arfcn2index (layer23), l1ctl_tx_dm_est_req_h1 (uint8_t n, htons copy loop into ma[64]), trxcon's l1ctl_proc_est_req_h1 (n = 0, n > 64, ntohs copy loop) and handle_dch_est_req (SETFREQ_H1 parameters), the firmware's l1ctl_rx_dm_est_req copy loop; uint16_t values cross the L1CTL socket as two octets (most significant first), so the model does not depend on the host's byte order",
    "chain part, tie: the CURRENT text of these functions is extracted by name from gsm48_rr.c, gsm322.c, common/l1ctl.c, trxcon/src/l1ctl.c, trxcon_fsm.c and firmware layer1/l23_api.c (three translation units, ASan+UBSan, real msgb.c/talloc.c) and driven with the octets of the real L1CTL message; environment stubbed: struct osmocom_ms / gsm322_cellsel / gsm48_sysinfo / gsm_settings reduced to the members read (array sizes from the tree), gsm_refer_pcs (answers the request's flag), logging sinks, osmo_send_l1 (captures the message), osmo_fsm_inst_dispatch (calls the extracted handle_dch_est_req), the L1 scheduler behind the PHY command, trx_if_handle_phyif_cmd behind the real trxcon_phyif_handle_cmd of trxcon_main.c (records the command, which is then given to the real trx_if.c in the harness of props/trxcon_part.py), firmware mframe/audio/TCH helpers, ntohs of the host's libc in place of the firmware's byteorder.h",
    "chain part, modelled not verified: the callers around the glue (gsm48_rr_activate_channel passes cd->maio, cd->hsn, ma, ma_len unchanged; app_cbch_sniff passes s->hopping, s->hopp_len of the SI4 CBCH Mobile Allocation WITHOUT the PCS conversion), the cell channel description / frequency list / frequency channel sequence branches of gsm48_rr_render_ma, the L1CTL unix socket and the UDP socket between trxcon and fake_trx (a datagram arrives as sent), the l1ctl length prefix framing",
]

# ----------------------------------------------------------------------------
# builds

def gen(run):
    wc.gen(run)
    trxcon_part.gen(run)
    run.hop_chain_consts = hop_chain.generate(run)


def build_glue(run):
    if getattr(run, "c20_glue_exe", None):
        return run.c20_glue_exe
    with open(os.path.join(run.scratch, "c20_glue.h"), "w") as f:
        f.write(hop_chain.GLUE_H)
    for k, txt in (("l23", hop_chain.l23_unit(run)), ("trxcon", hop_chain.trxcon_unit(run)), ("fw", hop_chain.fw_unit(run))):
        with open(os.path.join(run.scratch, "c20_glue_%s.c" % k), "w") as f:
            f.write(txt)
    cfgi = os.path.join(cbuild.SHIM, "cfg/a/b")
    lo = os.path.join(vf.REPO, "src/shared/libosmocore/src")
    shim_trxif = os.path.join(vf.ROOT, "harness/c/shim_trxif")

    def cc(src, name, flags, includes, idirafter=()):
        return cbuild.obj(run, src, name, flags=SAN + flags, includes=includes, idirafter=idirafter, compiler="clang")
    objs = [
        cc(os.path.join(lo, "msgb.c"), "c20g_msgb", [], [cfgi, cbuild.LIBOSMO_INC]),
        cc(os.path.join(lo, "talloc.c"), "c20g_talloc", [], [cfgi, cbuild.LIBOSMO_INC]),
        cc(os.path.join(run.scratch, "c20_glue_l23.c"), "c20g_l23", [], [run.scratch, cfgi, cbuild.LIBOSMO_INC, cbuild.TOP_INC]),
        cc(os.path.join(run.scratch, "c20_glue_trxcon.c"), "c20g_trxcon", [],
           [run.scratch, shim_trxif, os.path.join(vf.REPO, hop_chain.TRXCON_INC), cbuild.TOP_INC], idirafter=[cbuild.LIBOSMO_INC]),
        cc(os.path.join(run.scratch, "c20_glue_fw.c"), "c20g_fw", ["-DHOST_BUILD"],
           [run.scratch, cbuild.SHIM, cbuild.LIBOSMO_INC, cbuild.TOP_INC], idirafter=[cbuild.FW_INC]),
    ]
    run.c20_glue_exe = cbuild.link(run, objs, "c20_glue.bin", flags=SAN, compiler="clang")
    return run.c20_glue_exe


def run_batch(cmd, lines, env=None, max_crashes=12):
    """line protocol against a harness that may abort (sanitizer): every answer is flushed, so after an abort the first
    unanswered request is the culprit (answered `CRASH <summary>`), the rest is re-run; after max_crashes the remaining
    requests are answered NOT-RUN"""
    answers, pos, crashes = [], 0, 0
    e = dict(os.environ)
    e["PYTHONDONTWRITEBYTECODE"] = "1"
    e["ASAN_OPTIONS"] = "detect_leaks=0:abort_on_error=0:exitcode=77:symbolize=0:color=never"
    e["UBSAN_OPTIONS"] = "print_stacktrace=0:exitcode=77:symbolize=0:color=never"
    if env:
        e.update(env)
    while pos < len(lines):
        if crashes >= max_crashes:
            answers += ["NOT-RUN"] * (len(lines) - pos)
            break
        p = subprocess.run(cmd, input="\n".join(lines[pos:]) + "\n", stdout=subprocess.PIPE, stderr=subprocess.PIPE, text=True,
                           timeout=3600, env=e)
        out = p.stdout.split("\n")
        if out and out[-1] == "":
            out.pop()
        if len(out) > len(lines) - pos:
            raise vf.HarnessError("%s: more answers than requests" % os.path.basename(cmd[0]))
        answers += out
        if len(out) == len(lines) - pos:
            if p.returncode != 0:
                raise vf.HarnessError("%s: exit %d after answering everything: %s" % (os.path.basename(cmd[0]), p.returncode, p.stderr[-500:]))
            break
        if p.returncode == 0:
            raise vf.HarnessError("%s: exit 0 with %d answers for %d requests" % (os.path.basename(cmd[0]), len(out), len(lines) - pos))
        m = re.search(r"(ERROR: AddressSanitizer: [^\n]*|runtime error: [^\n]*)", p.stderr)
        summary = re.sub(r"0x[0-9a-f]+", "0x..", m.group(1)) if m else "exit %d" % p.returncode
        answers.append("CRASH " + re.sub(r"\s+", "_", summary)[:160])
        crashes += 1
        pos = len(answers)
    return answers


# ----------------------------------------------------------------------------
# independent reference (written from TS 44.018 10.5.2.21, TS 45.005 2, TS 45.002 6.2.3 and the TRXC description;
# nothing taken from the code under test or from the Lean files)

def ref_ordered(ca):
    """cell allocation frequency list: increasing ARFCN, ARFCN 0 last"""
    s = set(ca)
    return sorted(a for a in s if a != 0) + ([0] if 0 in s else [])


def ref_select(ca, ie):
    """MA C i (i = 1..8n) is bit (i-1) mod 8 of octet n - 1 - (i-1) div 8 of the value part; the i-th frequency of the
    cell allocation list belongs to the mobile allocation iff MA C i = 1; a bit beyond the list ends decoding"""
    cal = ref_ordered(ca)
    n = len(ie)
    out = []
    for i in range(1, 8 * n + 1):
        if (ie[n - 1 - (i - 1) // 8] >> ((i - 1) % 8)) & 1:
            if i > len(cal):
                break
            out.append(cal[i - 1])
    return out


# TS 45.005 section 2: (first, last, uplink MHz*10 of `first`, duplex distance MHz*10); channel spacing 200 kHz
BANDS = {
    "P-GSM 900": [(1, 124, 8902, 450)],
    "E-GSM 900": [(0, 124, 8900, 450), (975, 1023, 8802, 450)],
    "R-GSM 900": [(0, 124, 8900, 450), (955, 1023, 8762, 450)],
    "DCS 1800": [(512, 885, 17102, 950)],
    "PCS 1900": [(512, 810, 18502, 800)],
    "GSM 850": [(128, 251, 8242, 450)],
    "GSM 450": [(259, 293, 4506, 100)],
    "GSM 480": [(306, 340, 4790, 100)],
    "GSM 750": [(438, 511, 7472, 300)],
}
FAMILY_ARFCNS = {k: [a for lo, hi, _, _ in v for a in range(lo, hi + 1)] for k, v in BANDS.items()}


def ref_khz(family, arfcn):
    """(downlink, uplink) carrier frequency in kHz of an ARFCN of the band family"""
    for lo, hi, ul0, dup in BANDS[family]:
        if lo <= arfcn <= hi:
            ul = ul0 + 2 * (arfcn - lo)
            return (ul + dup) * 100, ul * 100
    return None


def ref_family(ca, pcs):
    """the band family a cell allocation belongs to (None: not one of the families of the reference)"""
    s = set(ca)
    if pcs and s and s <= set(FAMILY_ARFCNS["PCS 1900"]):
        return "PCS 1900"
    if pcs:
        return None
    for fam in ("P-GSM 900", "E-GSM 900", "R-GSM 900", "DCS 1800", "GSM 850", "GSM 450", "GSM 480", "GSM 750"):
        if s and s <= set(FAMILY_ARFCNS[fam]):
            return fam
    return None


def ref_band_arfcn(family, a):
    """what L1 calls the channel: ARFCN, with the PCS flag for PCS 1900"""
    return a | 0x8000 if family == "PCS 1900" else a


def ref_mai(hsn, maio, n, fn):
    from props import C07          # own transcription of TS 45.002 6.2.3 (own RNTABLE copy) of the C07 check
    return C07.spec_mai(hsn, maio, n, fn)


def ref_setfh_text(hsn, maio, pairs):
    return ("CMD SETFH %d %d " % (hsn, maio) + " ".join("%d %d" % p for p in pairs)).encode() + b"\0"


# ----------------------------------------------------------------------------
# cases

class Case:
    __slots__ = ("ca", "ie", "pcs", "hsn", "maio", "unsup", "fns", "tag")

    def __init__(self, ca, ie, pcs, hsn, maio, unsup=(), fns=(), tag=""):
        self.ca, self.ie, self.pcs, self.hsn, self.maio = list(ca), bytes(ie), int(pcs), hsn, maio
        self.unsup, self.fns, self.tag = list(unsup), list(fns), tag

    def args(self):
        return "%s %s %d %d %d %s" % (fmt_list(self.ca), self.ie.hex() or "-", self.pcs, self.hsn, self.maio, fmt_list(self.unsup))

    def run_line(self):
        return "chain.run %s %s" % (self.args(), fmt_list(self.fns))

    def glue_line(self, verb="chain.glue"):
        return "%s %s" % (verb, self.args())

    def dec_line(self):
        return "ma.decode %s %s %d 0 - 0" % (fmt_list(self.ca), self.ie.hex() or "-", len(self.ie))


def fmt_list(xs):
    return ",".join(str(x) for x in xs) if xs else "-"


def bitmap_for(n_octets, positions):
    """value part with MA C (p+1) = 1 for the 0-based positions p"""
    b = bytearray(n_octets)
    for p in positions:
        if 0 <= p < 8 * n_octets:
            b[n_octets - 1 - p // 8] |= 1 << (p % 8)
    return bytes(b)


def octets_for(n_bits):
    return max(1, min(8, (n_bits + 7) // 8))


def pick_fns(rng, k):
    fixed = [0, 1, 25, 26, 50, 51, 1325, 1326, H - 1, H - 2]
    return rng.sample(fixed, min(len(fixed), 4)) + [rng.randrange(H) for _ in range(k)]


def pick_hm(rng, n):
    hsn = rng.choice([0, 0, 1, 63, rng.randrange(64), rng.randrange(64)])
    maio = rng.choice([0, 1, max(0, n - 1), 63, rng.randrange(64), rng.randrange(max(1, n))])
    return hsn, maio


def make_cases(run, rng, scale):
    cases = []

    def add(ca, positions, pcs=0, tag="", n_oct=None, unsup=(), nf=3):
        ca = list(ca)
        n_ca = len(set(ca))
        n_oct = n_oct or octets_for(max([n_ca] + [p + 1 for p in positions]))
        ie = bitmap_for(n_oct, positions)
        hsn, maio = pick_hm(rng, max(1, len([p for p in positions if p < n_ca])))
        cases.append(Case(ca, ie, pcs, hsn, maio, unsup, pick_fns(rng, nf), tag))

    fam_pool = {f: FAMILY_ARFCNS[f] for f in BANDS}
    egsm = list(range(975, 1024)) + [0] + list(range(1, 125))
    # --- the inputs named by the task --------------------------------------------------------------------------------
    # N = 1, 62, 63, 64 in P-GSM, E-GSM with ARFCN 0, DCS 1800, PCS 1900, GSM 850
    for fam, pcs in (("P-GSM 900", 0), ("E-GSM 900", 0), ("DCS 1800", 0), ("PCS 1900", 1), ("GSM 850", 0)):
        pool = fam_pool[fam]
        for n in (1, 2, 8, 9, 61, 62, 63, 64):
            for variant in range(2 if scale == 1 else 4):
                n_ca = min(64, rng.choice([n, n, min(64, n + rng.randrange(0, 4)), 64]))
                ca = rng.sample(pool, n_ca)
                if fam == "E-GSM 900" and 0 not in ca and variant % 2 == 0:
                    ca[0] = 0
                sel = sorted(rng.sample(range(n_ca), n))
                add(ca, sel, pcs, "%s/N%d" % (fam, n))
    # E-GSM: ARFCN 0 sorts LAST in the allocation but is the LOWEST frequency of the 0..124 block
    for ca in ([0, 10, 975], [0, 1, 124, 975, 1023], [0, 1], [0, 1023], [0, 5, 6, 7], egsm[:32] + egsm[49:60], list(range(975, 1024)) + [0] + list(range(1, 15))):
        n = len(set(ca))
        add(ca, range(n), 0, "E-GSM wrap/all")
        add(ca, [n - 1], 0, "E-GSM wrap/only ARFCN 0 (last)")
        add(ca, [0], 0, "E-GSM wrap/first")
        add(ca, [0, n - 1], 0, "E-GSM wrap/first+last")
        if n > 2:
            add(ca, sorted(rng.sample(range(n), n // 2 + 1)), 0, "E-GSM wrap/some")
    # mixed wrap 975..1023, 0, 1..124 with 64 channels
    for _ in range(3 * scale):
        ca = rng.sample(range(975, 1024), rng.randrange(5, 30)) + [0]
        ca += rng.sample(range(1, 125), 64 - len(ca))
        add(ca, range(64), 0, "E-GSM wrap/64")
        add(ca, sorted(rng.sample(range(64), rng.randrange(1, 64))), 0, "E-GSM wrap/random")
    # bitmaps selecting the first / last / only channel, and a bit beyond the cell allocation
    for fam, pcs in (("P-GSM 900", 0), ("DCS 1800", 0), ("PCS 1900", 1)):
        for n_ca in (1, 7, 8, 9, 33, 64):
            ca = rng.sample(fam_pool[fam], n_ca)
            add(ca, [0], pcs, "first")
            add(ca, [n_ca - 1], pcs, "last")
            if n_ca < 64:
                add(ca, [0, n_ca], pcs, "bit beyond the cell allocation", n_oct=octets_for(n_ca + 1))
                add(ca, [n_ca], pcs, "only a bit beyond (N = 0)", n_oct=octets_for(n_ca + 1))
        add([rng.choice(fam_pool[fam])], [0], pcs, "only")
    # the -ENOSPC boundary of trxcon's buffer: DCS / PCS with 61..64 channels
    for fam, pcs in (("DCS 1800", 0), ("PCS 1900", 1)):
        for n in (61, 62, 63, 64):
            ca = rng.sample(fam_pool[fam], 64)
            add(ca, sorted(rng.sample(range(64), n)), pcs, "%s/ENOSPC boundary N%d" % (fam, n))
    # the edges of every ARFCN range of every band family, all selected
    for fam, pcs in (("P-GSM 900", 0), ("E-GSM 900", 0), ("R-GSM 900", 0), ("DCS 1800", 0), ("PCS 1900", 1), ("GSM 850", 0), ("GSM 450", 0),
                     ("GSM 480", 0), ("GSM 750", 0)):
        ca = sorted({a for lo, hi, _, _ in BANDS[fam] for a in (lo, lo + 1, hi - 1, hi)})
        add(ca, range(len(ca)), pcs, "band edges/" + fam)
    # the phone's frequency map lacks NEIGHBOURS of the selected channels only (the map is indexed by ARFCN, PCS channels behind 1024)
    for fam, pcs in (("P-GSM 900", 0), ("DCS 1800", 0), ("PCS 1900", 1), ("PCS 1900", 1)):
        ca = rng.sample(fam_pool[fam][2:-2], 6)
        idx = (lambda a: a - 512 + 1024) if pcs else (lambda a: a)
        unsup = sorted({idx(a) + d for a in ca for d in (-1, 1)} - {idx(a) for a in ca})
        add(ca, range(6), pcs, "frequency map without the neighbours of the selected channels", unsup=unsup)
    # PCS cell whose allocation reaches above 810: those channels stay DCS numbers (no flag)
    add([805, 808, 810, 811, 812, 885], range(6), 1, "PCS cell, ARFCNs above 810")
    # --- outside the domain of the chain theorems (compared with the model, not judged) ------------------------------
    add(rng.sample(range(1, 125), 10), [], 0, "no channel selected (N = 0)", n_oct=2)
    for _ in range(2 * scale):
        ca = rng.sample(range(1, 125), 12)
        sel = sorted(rng.sample(range(12), 5))
        bad = ref_ordered(ca)[sel[rng.randrange(5)]]
        add(ca, sel, 0, "channel missing in the phone's frequency map", unsup=[bad])
    add([100, 120, 125, 126], range(4), 0, "ARFCN outside every band (gsm_arfcn2freq10 undefined)")
    add([512, 600, 900], range(3), 0, "ARFCN outside every band (gsm_arfcn2freq10 undefined)")
    add([1, 2, 3], [], 0, "empty IE", n_oct=None)
    cases[-1].ie = b""
    # --- random ---------------------------------------------------------------------------------------------------------
    for _ in range(60 * scale):
        fam = rng.choice(["P-GSM 900", "E-GSM 900", "E-GSM 900", "R-GSM 900", "DCS 1800", "PCS 1900", "GSM 850", "GSM 450", "GSM 480", "GSM 750"])
        pool = fam_pool[fam]
        n_ca = rng.choice([rng.randrange(1, min(65, len(pool) + 1)), min(64, len(pool)), rng.randrange(1, 10)])
        ca = rng.sample(pool, n_ca)
        n_oct = rng.choice([octets_for(n_ca), 8, rng.randrange(1, 9)])
        dens = rng.choice([0.15, 0.5, 0.9, 1.0])
        sel = [p for p in range(8 * n_oct) if rng.random() < dens]
        if rng.random() < 0.7:
            sel = [p for p in sel if p < n_ca]
        add(ca, sel, 1 if fam == "PCS 1900" else 0, "random/" + fam, n_oct=n_oct)
    return cases


# ----------------------------------------------------------------------------
# driving the real chain

class Obs:
    """what the real code did with one case, stage by stage"""
    __slots__ = ("dec", "glue", "ms", "l1ctl", "phy", "fw", "tc", "rc", "dgram", "trx", "reply", "fh", "freqs", "fwarfcn", "line")


def _parse_glue(a):
    """'ms 0 list | l1ctl h m n hex | phy rc called h m n list | fw h hsn maio n list' -> dict, or {'ms': raw}"""
    parts = [p.strip() for p in a.split(" | ")]
    d = {"raw": a, "ms": parts[0]}
    for p in parts[1:]:
        d[p.split(" ", 1)[0]] = p
    return d


def parse_list(s):
    return [] if s == "-" else [int(x) for x in s.split(",")]


def run_real(run, cases):
    """-> list of Obs (same order as cases)"""
    from props import C20, C07
    dec_exe = C20.build_harness(run)
    glue_exe = build_glue(run)
    tc_exe = trxcon_part.build(run)
    fw_exe = C07.build_harness(run)
    obs = [Obs() for _ in cases]
    # 1. the decoder alone
    dec, _ = C20.run_cases(dec_exe, [c.dec_line() for c in cases])
    # 2. layer23 / trxcon-L1CTL / firmware glue
    glue = run_batch([glue_exe], [c.glue_line("glue.run") for c in cases])
    # 3. trxcon's TRXC emitter on what reached the PHY interface
    tc_req, tc_idx = [], []
    for i, (c, o, d, g) in enumerate(zip(cases, obs, dec, glue)):
        o.dec, o.glue = d, g
        gd = _parse_glue(g) if g.startswith("ms ") else {"ms": g}
        o.ms, o.l1ctl, o.phy, o.fw = gd.get("ms"), gd.get("l1ctl"), gd.get("phy"), gd.get("fw")
        o.tc = o.rc = o.dgram = None
        if o.phy:
            t = o.phy.split()
            if t[2] == "1" and t[3] != "-1":            # trxcon_phyif_handle_cmd was called with SETFREQ_H1
                ma = parse_list(t[6])
                tc_req.append("tc.cmd SETFREQ_H1 %s %s %s %s" % (t[3], t[4], t[5], " ".join(map(str, ma))))
                tc_idx.append(i)
            else:
                o.rc = int(t[1])
    for i, a in zip(tc_idx, vf.run_lines([tc_exe], tc_req) if tc_req else []):
        o = obs[i]
        o.tc = a
        if a == "CRASH":
            o.rc, o.dgram = None, None
            continue
        rc, q, sent = trxcon_part._parse_cmd_answer(a)
        o.rc = rc
        o.dgram = sent if len(sent) != 1 else sent[0]
    # 4. fake_trx on the datagram, per-frame frequencies
    trx_req, trx_idx = [], []
    for i, (c, o) in enumerate(zip(cases, obs)):
        if o.l1ctl is None:
            continue
        dg = o.dgram.hex() if isinstance(o.dgram, bytes) else "-"
        trx_req.append("chain.trx %s %s" % (dg, fmt_list(c.fns)))
        trx_idx.append(i)
    for i, a in zip(trx_idx, vf.run_lines([vf.PY, CHAIN_HARNESS, vf.TRX], trx_req) if trx_req else []):
        o = obs[i]
        o.trx = a
        parts = a.split(" | ")
        m = re.match(r"^trx (.*) fh=(\S+)$", parts[0])
        o.reply, o.fh = (m.group(1), m.group(2)) if m else (None, None)
        o.freqs = {}
        if len(parts) > 1:
            for tok in parts[1].split():
                fn, v = tok.split(":", 1)
                o.freqs[int(fn)] = tuple(v.split("/"))
    # 5. the firmware's channel per frame (real rfch.c) on what its copy loop stored
    fw_req, fw_idx = [], []
    for i, (c, o) in enumerate(zip(cases, obs)):
        o.fwarfcn = {}
        if not o.fw or not c.fns:
            continue
        t = o.fw.split()
        ma = parse_list(t[5])
        if t[1] != "1" or not ma or len(ma) > 64 or int(t[4]) != len(ma):
            continue
        fw_req += ["o.setfh %s %s %s" % (t[2], t[3], fmt_list(ma)), "o.res " + " ".join(map(str, c.fns))]
        fw_idx.append(i)
    fw_ans = vf.run_lines([fw_exe], fw_req) if fw_req else []
    for k, i in enumerate(fw_idx):
        vals = fw_ans[2 * k + 1].split()
        obs[i].fwarfcn = {fn: v for fn, v in zip(cases[i].fns, vals)}
    # the line the Lean driver answers to chain.run
    for c, o in zip(cases, obs):
        o.line = assemble(c, o)
    return obs


def assemble(c, o):
    if o.glue.startswith("CRASH") or o.glue == "NOT-RUN":
        return o.glue
    if o.l1ctl is None:
        return o.ms
    if o.tc == "CRASH":
        return "%s | %s | trxcon CRASH" % (o.ms, o.l1ctl)
    if isinstance(o.dgram, bytes):
        dg = o.dgram.hex()
    elif o.dgram:
        dg = " ".join(x.hex() for x in o.dgram)
    else:
        dg = "-"
    parts = [o.ms, o.l1ctl, "trxcon %s %s" % (o.rc, dg), "trx %s fh=%s" % (o.reply, o.fh)]
    if c.fns:
        parts.append(" ".join("%d:%s/%s/%s" % (fn, o.freqs.get(fn, ("?", "?"))[0], o.freqs.get(fn, ("?", "?"))[1],
                                               o.fwarfcn.get(fn, "?")) for fn in c.fns))
    return " | ".join(parts)


# ----------------------------------------------------------------------------
# tie: real chain vs the composed Lean models

def correspond(run, corr):
    rng = random.Random(run.seed * 7919 + 20)
    scale = 40 if run.thorough else 2
    cases = make_cases(run, rng, scale)
    obs = run_real(run, cases)
    run.c20_chain = {"cases": cases, "obs": obs}
    reqs = [c.glue_line() for c in cases]
    model = vf.run_driver(reqs)
    dom = lambda r: r.split()[2] != "-"            # an empty IE takes a branch of gsm48_rr_render_ma that is not modelled
    corr.compare(reqs, [o.glue for o in obs], model, in_domain=dom)
    reqs2 = [c.run_line() for c in cases]
    model2 = vf.run_driver(reqs2)
    corr.compare(reqs2, [o.line for o in obs], model2, in_domain=dom)
    for c, o in zip(cases, obs):
        corr.count(c.run_line(), "chain:" + c.tag.split("/")[0])
        k = "chain outcome: " + ("crash" if o.glue.startswith("CRASH") else o.ms if o.l1ctl is None else "SETFH rc=%s" % o.rc)
        corr.distribution[k] = corr.distribution.get(k, 0) + 1
    for rel, names in ((hop_chain.GSM48_RR_C, ["gsm48_rr_render_ma"]), (hop_chain.GSM322_C, ["arfcn2index"]),
                       (hop_chain.L1CTL_C, ["l1ctl_tx_dm_est_req_h1", "osmo_l1_alloc"]),
                       (hop_chain.TRXCON_L1CTL_C, ["l1ctl_proc_est_req_h1", "l1ctl_rx_dm_est_req"]),
                       (hop_chain.TRXCON_FSM_C, ["handle_dch_est_req"]), (hop_chain.FW_L23_API_C, ["l1ctl_rx_dm_est_req"])):
        run.drift["chain:" + os.path.basename(rel) + ":" + names[0]] = vf.src_hash_c(os.path.join(vf.REPO, rel), names)
    k = next((i for i, c in enumerate(cases) if c.tag.startswith("E-GSM wrap/all")), 0)
    corr.samples.append({"request": reqs2[k][:300], "impl": obs[k].line[:500], "model": model2[k][:500]})
    corr.rule += (" chain part: a case is a cell allocation of one band family (P-GSM, E-GSM/R-GSM incl. ARFCN 0 and the 975..1023 wrap, "
                  "DCS 1800, PCS 1900, GSM 850/450/480/750), a Mobile Allocation IE of 1..8 octets (N = 1, 2, 8, 9, 61..64, first/last/only "
                  "channel, bit beyond the allocation, random), HSN, MAIO and 7 frame numbers; the real decoder, the extracted layer23 / "
                  "trxcon / firmware glue, the real trx_if.c, the real FakeTRX and the real rfch.c are run in sequence on each other's output "
                  "and every stage is compared with the composed Lean models.")


# ----------------------------------------------------------------------------
# property oracle on the real chain

def in_domain(c):
    """the quantifier of the chain statements: a cell allocation of at most 64 channels of one band family of the reference,
    an IE of 1..8 octets selecting at least one channel, all of them known to the phone, HSN/MAIO 0..63"""
    fam = ref_family(c.ca, c.pcs)
    if fam is None or not (1 <= len(set(c.ca)) <= 64) or not (1 <= len(c.ie) <= 8):
        return None
    sel = ref_select(c.ca, c.ie)
    if not sel or not (0 <= c.hsn < 64 and 0 <= c.maio < 64):
        return None
    idx = lambda a: (a - 512 + 1024) if fam == "PCS 1900" else a
    if any(idx(a) in c.unsup for a in sel):
        return None
    return fam, sel


def judge(c, o):
    """-> None | (stage, what, expected, observed, fn)"""
    d = in_domain(c)
    if d is None:
        return None
    fam, sel = d
    n = len(sel)
    band = [ref_band_arfcn(fam, a) for a in sel]
    khz = [ref_khz(fam, a) for a in sel]
    # the decoder on its own (C20 proper judges it in full; here: it feeds the chain)
    m = re.match(r"^(-?\d+) (\d+) (\S+) \|", o.dec or "")
    if not m or int(m.group(1)) != 0 or parse_list(m.group(3))[:int(m.group(2))] != sel:
        return ("decoder", "the decoded hopping list is not the selection of TS 44.018 10.5.2.21", fmt_list(sel), o.dec, None)
    if o.glue.startswith("CRASH"):
        return ("glue", "sanitizer report / abort in the layer23 - trxcon - firmware glue", "no access outside a buffer", o.glue, None)
    if o.glue == "NOT-RUN":
        return None
    want_ms = "ms 0 " + fmt_list(band)
    if o.ms != want_ms:
        return ("layer23", "gsm48_rr_render_ma does not hand the decoded list on (same channels, same order, PCS flag on 512..810 of a PCS cell)",
                want_ms, o.ms, None)
    want_l1 = "l1ctl %d %d %d %s" % (c.hsn, c.maio, n, b"".join(a.to_bytes(2, "big") for a in band).hex())
    if o.l1ctl != want_l1:
        return ("l1ctl", "L1CTL_DM_EST_REQ does not carry HSN, MAIO, n = N and the N channels in network byte order", want_l1, o.l1ctl, None)
    want_phy = "phy 0 1 %d %d %d %s" % (c.hsn, c.maio, n, fmt_list(band))
    if o.phy != want_phy:
        return ("trxcon-l1ctl", "trxcon does not hand the N channels of the L1CTL message to the PHY interface (SETFREQ_H1)", want_phy, o.phy, None)
    want_fw = "fw 1 %d %d %d %s" % (c.hsn, c.maio, n, fmt_list(band))
    if o.fw != want_fw:
        return ("firmware-l1ctl", "the firmware does not store the N channels of the L1CTL message in l1s.dedicated.h1", want_fw, o.fw, None)
    text = ref_setfh_text(c.hsn, c.maio, khz)
    if o.rc != 0 or o.dgram != text:
        return ("setfh", "trxcon does not emit exactly one datagram `CMD SETFH hsn maio rx1 tx1 ... rxN txN\\0` with the frequency pairs of the decoded channels in decoded order",
                "rc 0, " + text.decode("latin1")[:-1][:120] + (" ..." if len(text) > 121 else ""),
                "rc %s, %s" % (o.rc, (o.dgram.decode("latin1")[:120] if isinstance(o.dgram, bytes) else repr(o.dgram))), None)
    want_reply = ("RSP SETFH 0 %d %d " % (c.hsn, c.maio) + " ".join("%d %d" % p for p in khz)).encode().hex() + "00"
    want_fh = "%d/%d/%s" % (c.hsn, c.maio, ",".join("%d:%d" % (r * 1000, t * 1000) for r, t in khz))
    if o.reply != want_reply:
        return ("fake_trx", "fake_trx does not answer `RSP SETFH 0 <arguments>\\0`", bytes.fromhex(want_reply).decode("latin1")[:100],
                (bytes.fromhex(o.reply.split()[0]).decode("latin1")[:100] if o.reply and re.fullmatch(r"[0-9a-f]+", o.reply.split()[0] or "-") else o.reply), None)
    if o.fh != want_fh:
        return ("fake_trx", "fake_trx does not store HoppingParams(hsn, maio, [(rx_i*1000, tx_i*1000)]) with the N pairs in decoded order",
                want_fh[:200], (o.fh or "")[:200], None)
    if len(set(khz)) != n:
        return ("injective", "two channels of the list have the same frequency pair", n, len(set(khz)), None)
    for fn in c.fns:
        mai = ref_mai(c.hsn, c.maio, n, fn)
        want = (str(khz[mai][0] * 1000), str(khz[mai][1] * 1000), str(band[mai]))
        got = o.freqs.get(fn, ("?", "?")) + (o.fwarfcn.get(fn, "?"),)
        if got[:2] != want[:2]:
            return ("channel", "get_rx_freq/get_tx_freq(fn) is not the pair of decoded[MAI] (TS 45.002 6.2.3)", "MAI %d: rx %s tx %s" % (mai, want[0], want[1]),
                    "rx %s tx %s" % got[:2], fn)
        if got[2] != want[2]:
            return ("channel", "the firmware's rfch_get_params does not select decoded[MAI]: MS and simulated BTS are on different channels in this frame",
                    "MAI %d: ARFCN %s (%s / %s Hz)" % (mai, want[2], want[0], want[1]), "ARFCN %s" % got[2], fn)
    return None


def enospc_region(c):
    """the excluded region of Props/C20Chain.chain_setfh (hypothesis `Fits`): the text of the mobile allocation, 14 characters per
    channel below 1 GHz and 16 above, does not fit trxcon's ma_buf[TRXC_BUF_SIZE - 24] (999 characters)"""
    d = in_domain(c)
    if d is None:
        return False
    fam, sel = d
    return sum(len("%d %d " % ref_khz(fam, a)) for a in sel) > 999


def witness(c, o, res):
    stage, what, want, got, fn = res
    d = in_domain(c)
    w = {"part": "chain", "kind": "chain-" + stage, "what": what, "family": d[0] if d else None, "ca": sorted(set(c.ca)), "ie": c.ie.hex(), "pcs": c.pcs,
         "hsn": c.hsn, "maio": c.maio, "unsup": c.unsup, "n_channels": len(d[1]) if d else None, "decoded_expected": d[1] if d else None,
         "expected": want, "observed": got, "request": c.run_line()}
    if fn is not None:
        w["fn"] = fn
    return w


def oracle(run, corr, deep):
    st = getattr(run, "c20_chain", None)
    if st is None:
        rng = random.Random(run.seed * 7919 + 20)
        cases = make_cases(run, rng, 1)
        st = {"cases": cases, "obs": run_real(run, cases)}
    cases, obs = list(st["cases"]), list(st["obs"])
    if deep and not run.thorough:
        rng = random.Random(run.seed * 104729 + 21)
        more = make_cases(run, rng, 3)
        cases += more
        obs += run_real(run, more)
    found, judged, seen, pending = 0, 0, {}, 0
    bad = []
    for c, o in zip(cases, obs):
        if in_domain(c) is None:
            continue
        judged += 1
        res = judge(c, o)
        if res is None:
            continue
        if res[0] == "setfh" and o.rc == -28 and enospc_region(c):
            # genuine defect of the unchanged tree (see Props/C20Chain.chain_setfh_full_fails): a legal allocation of 63/64 DCS 1800 /
            # PCS 1900 channels is refused with -ENOSPC.  Reported as a witness when known_findings.json lists it, recorded otherwise.
            w = witness(c, o, res)
            w["kind"] = "chain-setfh-enospc"
            w["text_chars"] = sum(len("%d %d " % ref_khz(in_domain(c)[0], a)) for a in in_domain(c)[1])
            if run.known_match(w) is not None:
                run.report_witness(w)
            pending += 1
            continue
        bad.append((c, o, res))
    # smallest input of every stage first
    bad.sort(key=lambda t: (len(set(t[0].ca)), len(t[0].ie), t[0].run_line()))
    for c, o, res in bad:
        if seen.get(res[0], 0) >= 2:
            continue
        seen[res[0]] = seen.get(res[0], 0) + 1
        w = witness(c, o, res)
        w["failing_cases_of_this_stage"] = sum(1 for t in bad if t[2][0] == res[0])
        found += run.report_witness(w)
        if found >= 6:
            break
    corr.distribution["oracle(chain): cases judged end to end"] = judged
    corr.distribution["oracle(chain): failing cases"] = len(bad)
    corr.distribution["oracle(chain): legal allocations refused with -ENOSPC (DCS/PCS, text > 999 characters; chain_setfh_full_fails)"] = pending
    if pending:
        corr.notes.append("chain: %d legal DCS 1800 / PCS 1900 allocations of 63 or 64 channels were refused by trx_if_cmd_setfh with -ENOSPC (no SETFH "
                          "sent): the excluded region of Props/C20Chain.chain_setfh (hypothesis Fits), Lean: chain_setfh_full_fails; reported as a "
                          "witness of kind chain-setfh-enospc once known_findings.json lists it" % pending)
    return found


def replay(run, w):
    """re-run one chain witness against the real code; -> (still_failing, text)"""
    toks = w["request"].split()
    c = Case(parse_list(toks[1]), bytes.fromhex(toks[2]) if toks[2] != "-" else b"", int(toks[3]), int(toks[4]), int(toks[5]),
             parse_list(toks[6]), parse_list(toks[7]))
    o = run_real(run, [c])[0]
    res = judge(c, o)
    text = "replay %s\n  real chain: %s\n  -> %s" % (w["request"][:300], o.line[:600],
                                                     "ok" if res is None else "%s: %s (expected %s, observed %s%s)" % (
                                                         res[0], res[1], res[2], res[3], "" if res[4] is None else ", fn %d" % res[4]))
    return res is not None, text
