# C10, second part: the burst generators of rand_burst_gen.py (RandBurstGen.gen_nb / gen_sb / gen_ab / gen_fb / gen_db,
# get_rand_tsc) — Lean: Model/RandBurst.lean, Props/C10Burst.lean; tie: harness/py/randburst_harness.py (the REAL class with
# a scripted random source) vs the driver verbs rb.*; oracle: the layouts of 3GPP TS 45.002 5.2 written out here.
import os
from lib import vf

LEAN_MODULES = ["OsmoVerif.Props.C10Burst"]
LEAN_MODEL_MODULES = ["OsmoVerif.Model.RandBurst", "OsmoVerif.Lemmas.RandBurst"]
DRIVER_MODULES = ["RandBurst"]
HARNESS = os.path.join(vf.ROOT, "harness/py/randburst_harness.py")
ASSUMPTIONS = [
    "rand_burst_gen.py: gen_nb/gen_sb/gen_ab/gen_fb/gen_db/get_rand_tsc are modelled statement by statement (Model/RandBurst.lean) as functions of the random source, which is the stream of values random.randint / random.choice return in call order; the harness installs exactly that scripted source in place of rand_burst_gen.random (CPython's Mersenne twister itself is environment)",
]

NEED = {"rb.nb": 116, "rb.sb": 78, "rb.ab": 36}
TYPE = {"rb.nb": "NORMAL", "rb.sb": "SYNC", "rb.ab": "ACCESS"}


def impl(lines):
    return vf.run_lines([vf.PY, HARNESS, vf.TRX], lines)


def requests(rng, seqs, n):
    """seqs: Gen train_seqs rows [name, tsc, bt, bits, set]"""
    names = [s[0] for s in seqs]
    out = ["rb.fb", "rb.db"]
    for _ in range(n):
        verb = rng.choice(list(NEED))
        r = rng.random()
        if r < 0.45:
            tsc = "-"
        elif r < 0.9:
            tsc = rng.choice([s[0] for s in seqs if s[2] == TYPE[verb]])
        else:
            tsc = rng.choice(names)             # a sequence of another burst type: layout with that sequence's length
        need = NEED[verb] + (1 if tsc == "-" else 0)
        k = rng.choice([need, need, need, need + rng.randint(1, 5), max(0, need - rng.randint(1, need)), 0])
        draws = [rng.randint(0, 1) for _ in range(k)]
        if tsc == "-" and k >= need:
            pos = {"rb.nb": 58, "rb.sb": 39, "rb.ab": 0}[verb]
            draws[pos] = rng.choice([0, 1, 7, 8, 3, rng.randint(0, 1000)])      # the index random.choice gets
        out.append("%s %s %s" % (verb, tsc, ",".join(map(str, draws)) or "-"))
    return out


def correspond(run, corr, seqs):
    reqs = requests(run.rng, seqs, run.scale(1500, 20000))
    a = impl(reqs)
    b = vf.run_driver(reqs)
    corr.compare(reqs, a, b)
    for r, x in zip(reqs, a):
        corr.count(r, "%s -> %s" % (r.split()[0], x.split()[0]))
    run.drift["rand_burst_gen.py"] = vf.src_hash_py(os.path.join(vf.TRX, "rand_burst_gen.py"), ["RandBurstGen"])
    corr.samples.append({"request": reqs[2][:120], "impl": a[2][:170], "model": b[2][:170]})


# ------------------------------------------------------------------------------------------------ oracle
# 3GPP TS 45.002 5.2.3 (normal burst: 3 tail, 57+1 data/stealing, 26 training, 1+57, 3 tail), 5.2.5 (synchronisation burst:
# 3, 39, 64 extended training, 39, 3), 5.2.7 (access burst: 8 extended tail, 41 synch sequence, 36, 3, guard), 5.2.4
# (frequency correction burst: all zero), 5.2.6 (dummy burst: the mixed bits below)
DUMMY = ("000" "1111101101110110000010100100111000001001000100000001111100011100010111000101110001010111010010100011001100111"
         "001111010011111000100101111101010" "000")
TS_POS = {"NORMAL": (61, 26), "SYNC": (42, 64), "ACCESS": (8, 41)}


def judge(req, ans, seqs):
    t = req.split()
    if t[0] == "rb.fb":
        return None if ans == "ok %s 0" % ("0" * 148) else "frequency correction burst is not 148 zero bits"
    if t[0] == "rb.db":
        return None if ans == "ok %s 0" % DUMMY else "dummy burst differs from TS 45.002 5.2.6"
    byname = {s[0]: s for s in seqs}
    bt = TYPE[t[0]]
    draws = [] if t[2] == "-" else [int(x) for x in t[2].split(",")]
    if not ans.startswith("ok "):
        return "generator failed (%s) although the random source had enough draws" % ans
    bits = ans.split()[1]
    if len(bits) != 148 or set(bits) - {"0", "1"}:
        return "burst is not 148 bits"
    pos, ln = TS_POS[bt]
    cand = [s for s in seqs if s[2] == bt and "".join(map(str, s[3])) == bits[pos:pos + ln]]
    if not cand:
        return "no %s training sequence at bits %d..%d" % (bt, pos, pos + ln - 1)
    if t[1] != "-" and cand[0][0] != t[1]:
        return "training sequence %s present, %s requested" % (cand[0][0], t[1])
    tail = {"NORMAL": [(0, 3), (145, 148)], "SYNC": [(0, 3), (145, 148)], "ACCESS": [(0, 8), (85, 148)]}[bt]
    for a, b in tail:
        if set(bits[a:b]) != {"0"}:
            return "tail / guard bits %d..%d are not zero" % (a, b - 1)
    # the data bits are the drawn ones, in order
    data = {"NORMAL": bits[3:61] + bits[87:145], "SYNC": bits[3:42] + bits[106:145], "ACCESS": bits[49:85]}[bt]
    d = list(draws)
    if t[1] == "-":
        d.pop({"rb.nb": 58, "rb.sb": 39, "rb.ab": 0}[t[0]])
    if data != "".join(map(str, d[:len(data)])):
        return "data bits are not the drawn ones"
    return None


def oracle(run, corr, deep, seqs):
    rng = run.rng
    reqs = ["rb.fb", "rb.db"]
    for s in seqs:
        verb = {v: k for k, v in TYPE.items()}[s[2]]
        for _ in range(3):
            reqs.append("%s %s %s" % (verb, s[0], ",".join(str(rng.randint(0, 1)) for _ in range(NEED[verb]))))
    for _ in range(run.scale(600, 8000) * (3 if deep else 1)):
        if rng.random() < 0.12:
            # the constant bursts again, after whatever the ONE generator object produced before
            reqs.append(rng.choice(["rb.fb", "rb.db"]))
            continue
        verb = rng.choice(list(NEED))
        draws = [rng.randint(0, 1) for _ in range(NEED[verb] + 1)]
        draws[{"rb.nb": 58, "rb.sb": 39, "rb.ab": 0}[verb]] = rng.randint(0, 50)
        reqs.append("%s - %s" % (verb, ",".join(map(str, draws))))
    ans = impl(reqs)
    found = 0
    seen = set()
    for i, (r, a) in enumerate(zip(reqs, ans)):
        why = judge(r, a, seqs)
        if why and (r.split()[0], why) not in seen:
            seen.add((r.split()[0], why))
            # the generator object lives through the stream: the shortest suffix of the earlier requests that reproduces it
            hist = [r]
            for k in (0, 1, 2, 4, 8, 16, 64, i):
                h = reqs[max(0, i - k):i + 1]
                if judge(r, impl(h)[-1], seqs):
                    hist = h
                    break
            found += run.report_witness({"kind": "burst-generator", "request": r, "history": hist, "impl": a[:200], "what": why})
    corr.distribution["oracle(C10): generated bursts judged against the TS 45.002 layouts"] = len(reqs)
    return found


def replay(run, w, seqs):
    a = impl(w.get("history") or [w["request"]])[-1]
    why = judge(w["request"], a, seqs)
    return bool(why), "replay burst-generator %s -> %s : %s" % (w["request"][:100], a[:170], why or "layout as in TS 45.002")
