# C14 — No datagram or capture content can crash the tools
#   toolkit side : world model theorems (Props/C14.lean) + metamorphic oracle on the real FakeTRX world
#   trxcon side  : real trx_if.c under ASan/UBSan/MSan (props/trxcon_part.py, Props/Trxcon.lean)
#   parsers      : TRXD message parser and capture reader (props/trxd_part.py when present)
import json, os
from lib import vf, worldcheck as wc
from props import trxcon_part

try:
    from props import trxd_part          # TRXD codec / capture-file helpers (delivered by the codec check)
except ImportError:
    trxd_part = None

ID = "C14"
LEVEL = "proof"
LEAN_MODULES = ["OsmoVerif.Props.C14", "OsmoVerif.Props.Trxcon"] + (trxd_part.C14_LEAN_MODULES if trxd_part else [])
LEAN_MODEL_MODULES = wc.LEAN_MODEL_MODULES + trxcon_part.LEAN_MODEL_MODULES + (trxd_part.LEAN_MODEL_MODULES if trxd_part else [])
DRIVER_MODULES = ["World", "TrxconIf"] + (trxd_part.DRIVER_MODULES if trxd_part else [])
ASSUMPTIONS = wc.ASSUMPTIONS + trxcon_part.ASSUMPTIONS + [
    "memory safety of the compiled trx_if.c is evidence from sanitizer runs (ASan+UBSan, MSan twin), the theorem (trxc_rsp_no_crash, trxd_rx_in_bounds) is about index arithmetic of the model with explicit capacities",
    "Sane-world theorems need data datagrams to be octet strings (elements < 256) and operations to address existing transceivers (typing hypotheses of the model, not of the code)",
    "the exception path of `tick` in the model rolls back the failing transceiver's locked section (the real clock thread dies there); unreachable for Sane worlds by tick_never_raises",
] + (trxd_part.ASSUMPTIONS if trxd_part else [])
MANIFEST = {
    "text": "Lean theorems: handle_rx never raises and sends at most one reply for ANY datagram, malformed control input leaves the world unchanged, recv_data_msg never raises and drops malformed messages without effect, Sane (resolve total, thresholds >= 0, drop period >= 1, queued messages byte-valued) holds for built worlds and is preserved by every operation, so no tick and no history ever raises (run_never_raises); trxcon: cReadCb never crashes / reads uninitialised values for any datagram and pending command, trx_data_rx_cb stays inside its buffers; parsers (Props/C14Parsers): TxMsg/RxMsg.parse_msg on ANY octets return or signal ValueError only (parse_only_valueerror_tx/_rx, exact rejection conditions parse_tx_rejects_iff/parse_rx_rejects_iff), recv_tx_msg/recv_rx_msg never raise and give None for every rejected datagram and every version mismatch (recv_swallows_*, recv_version_mismatch_*), DATADumpFile.parse_msg/parse_all never raise on any content/idx/skip/count (dump_reader_total_*, dump_false_is_rejected_payload), and datagrams / reads leave nothing behind in the interface / reader object (parser_no_state_if, parser_no_state_dump). Ties: world histories with fuzzed datagrams vs the real objects; real trx_if.c vs its model under sanitizers. parser models vs the real TxMsg/RxMsg/DATAInterface/DATADumpFile on structured mutations of valid encodings and capture files (props/trxd_part.py). Oracles: metamorphic (a session with malformed datagrams behaves like the same session without them, no exception escapes), sanitizer-clean decoding on the C side, and on the real parsers/reader: only ValueError out of parse_msg, message-or-None out of recv_*, None/False/list out of the capture reader, valid datagrams/records after garbage decoded as the layout prescribes",
    "note": "trusted: Lean kernel (+propext, Classical.choice, Quot.sound), translators, harnesses (world, trxcon shim_trxif environment replacing libosmocore: talloc/logging/fsm/timer/osmo_fd), sanitizers as evidence for the binary; modelled: UDP, select loop, time.sleep (FAKE_TRXC_DELAY with an astronomically large value would raise OverflowError from time.sleep — outside the model), libc sscanf semantics (differentially tested)",
    "technique": "Lean 4 proof of exception-freedom on failure-tagged models (invariant over all histories) + differential/metamorphic fuzzing of the real Python objects and the sanitizer-instrumented real C",
    "design_ref": "DESIGN.md section 5 C14, section 10",
}


def gen(run):
    wc.gen(run)
    trxcon_part.gen(run)
    if trxd_part:
        trxd_part.gen(run)


def correspond(run, corr):
    wc.correspond(run, corr, ["fuzz", "mixed", "ctrl"], 5000, 80000)
    trxcon_part.correspond(run, corr, parts=("rxd", "rsp"))
    if trxd_part:
        trxd_part.correspond_c14(run, corr)


def search(run, corr, deep):
    found = wc.c14_oracle(run, corr, deep)
    found += wc.oracle(run, corr, deep, ID, ["mixed", "traffic"], 1500, 30000)   # "exception escaped" on clean histories
    found += trxcon_part.oracle(run, corr, deep, parts=("rxd", "rsp"))
    if trxd_part:
        found += trxd_part.oracle_c14(run, corr, deep)
    return found


def replay(run, path):
    rp = json.load(open(path))
    bad = 0
    rest = {"violations": []}
    for v in rp.get("violations", []):
        w = v.get("witness") or {}
        if str(w.get("kind", "")).startswith("trxcon-"):
            still, text = trxcon_part.replay(run, w)
            print(text)
            bad += bool(still)
        elif trxd_part and str(w.get("kind", "")).startswith(("trxd-", "parser-", "dump-")):
            still, text = trxd_part.replay(run, w)
            print(text)
            bad += bool(still)
        elif w.get("kind") == "world-history" and "history" in w:
            a = wc.run_impl([w["history"]])[0]
            exc = "EXC:" in a
            print("replay C14 world history: %s\n  answer: %s" % (json.dumps(wc.describe(w["history"]))[:1200], a[:600]))
            # re-run the metamorphic comparison on this single history
            bad += 1 if (exc or _meta_differs(w["history"])) else 0
        else:
            print("replay: no concrete input recorded: %s" % json.dumps(v.get("broken"))[:500])
    if bad:
        print("VIOLATION property=C14 replay=%s" % path)
    return 1 if bad else 0


def _meta_differs(line):
    head, ops = line.split(" | ", 1)
    ops = ops.split(" ; ")
    keep = []
    for i, o in enumerate(ops):
        t = o.split()
        m = None
        if t[0] == "C":
            m = wc.ctrl_malformed(bytes.fromhex(t[3]) if t[3] != "-" else b"")
        elif t[0] == "D":
            m = wc.data_malformed(bytes.fromhex(t[2]) if t[2] != "-" else b"")
        if not m:
            keep.append(i)
    if not keep:
        return False
    a, b = wc.run_impl([line, head + " | " + " ; ".join(ops[i] for i in keep)])
    pa, pb = a.split(" | "), b.split(" | ")
    oa = pa[0].split(" ; ")
    return [oa[i] for i in keep] != pb[0].split(" ; ") or pa[1:] != pb[1:]
