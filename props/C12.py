# C12 — Power state, child transceivers and clock distribution  (fake_trx world property; shared machinery in lib/worldcheck.py)
from lib import vf, worldcheck as wc
from props import trxcon_part, randburst_part

ID = "C12"
LEVEL = "proof"
LEAN_MODULES = ["OsmoVerif.Props.C12"] + (["OsmoVerif.Props.Trxcon"] if ID == "C05" else []) + (randburst_part.LEAN_MODULES if ID == "C10" else [])
LEAN_MODEL_MODULES = wc.LEAN_MODEL_MODULES + (trxcon_part.LEAN_MODEL_MODULES if ID == "C05" else []) + (randburst_part.LEAN_MODEL_MODULES if ID == "C10" else []) + \
    (["OsmoVerif.Model.WorldSched"] if ID == "C03" else [])
DRIVER_MODULES = wc.DRIVER_MODULES + (["TrxconIf"] if ID == "C05" else []) + (randburst_part.DRIVER_MODULES if ID == "C10" else []) + (["WorldSched"] if ID == "C03" else [])
ASSUMPTIONS = wc.ASSUMPTIONS + [] + (randburst_part.ASSUMPTIONS if ID == "C10" else [])
MANIFEST = {
    "text": "Lean theorems over Model/World: wiring invariant of every Application configuration, running flag = last effective power command (own or managing parent's) for every history of arbitrary operations, clock links = running clock owners (no duplicates), generator runs iff a link exists, indications exactly to those links at multiples of the period, POWEROFF forgets hopping and queue, port plan; the model is compared with the real objects on generated configurations and histories; an independent reference judges running flags, indications, ports on the real code",
    "note": 'trusted: Lean kernel (+propext, Classical.choice, Quot.sound); translators gen/world.py, gen/py_unicode.py, gen/trxd_consts.py, gen/hopping.py; the world harness (in-memory sockets, the real CLCKGen._worker loop in lock step in its own OS thread, deterministic randint) and the property reference lib/worldspec.py; modelled not verified: UDP/select, OS scheduling below whole operations, time.sleep, logging',
    "technique": 'Lean 4 proof over the executable world model; differential correspondence of whole histories against the real FakeTRX objects; black-box property reference as failing-input oracle',
    "design_ref": "DESIGN.md section 5 C12",
}
CORR_PROFILES = ['power', 'mixed', 'family']
ORACLE_PROFILES = ['power', 'mixed', 'family']


def gen(run):
    wc.gen(run)
    if ID == "C05":
        trxcon_part.gen(run)


def correspond(run, corr):
    wc.correspond(run, corr, CORR_PROFILES, 10000, 150000, in_domain=(None if ID == "C14" else wc.domain_of(ID)))
    if ID == "C03":
        # interleaving model vs the real code under forced schedules (one socket-thread operation x one tick, every boundary)
        wc.sched_correspond(run, corr)
    if ID == "C05":
        trxcon_part.correspond(run, corr, parts=("cmd", "rsp"))
    if ID == "C10":
        randburst_part.correspond(run, corr, wc.train(run))


def search(run, corr, deep):
    found = 0
    if ID == "C03":
        # thread schedules: one socket-thread operation racing one tick at every atomic-action boundary
        found += wc.sched_oracle(run, corr, deep)
    # the history oracle searches deeper when a proof or a tie broke, unless the schedule oracle has already produced the failing schedule
    found += wc.oracle(run, corr, deep and not found, ID, ORACLE_PROFILES, 6000, 100000)
    if ID == "C05":
        # trxcon side: real trx_if.c command emission / response parser, and the cross run with the real toolkit
        found += trxcon_part.oracle(run, corr, deep, parts=("cmd", "rsp"))
        found += wc.c05_cross(run, corr, deep)
    if ID == "C10":
        # the burst generators of rand_burst_gen.py against the TS 45.002 burst layouts
        found += randburst_part.oracle(run, corr, deep, wc.train(run))
    return found


def replay(run, path):
    import json
    rp = json.load(open(path))
    tc = [v["witness"] for v in rp.get("violations", []) if str((v.get("witness") or {}).get("kind", "")).startswith("trxcon-")]
    bad = 0
    for w in tc:
        still, text = trxcon_part.replay(run, w)
        print(text)
        bad += bool(still)
    for w in [v["witness"] for v in rp.get("violations", []) if (v.get("witness") or {}).get("kind") == "burst-generator"]:
        still, text = randburst_part.replay(run, w, wc.train(run))
        print(text)
        bad += bool(still)
    rc = wc.replay(run, path, ID)
    if bad:
        print("VIOLATION property=%s replay=%s" % (ID, path))
    return 1 if (bad or rc) else 0
