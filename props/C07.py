# C07 — Frequency hopping follows 3GPP TS 45.002 §6.2.3 in the simulator and in the firmware
import json, os
from lib import vf, cbuild
from gen import hopping, gsm_consts

ID = "C07"
LEVEL = "proof"
LEAN_MODULES = ["OsmoVerif.Props.C07"]
DRIVER_MODULES = ["Hopping", "GsmTime"]
LEAN_MODEL_MODULES = ["OsmoVerif.Model.Hopping", "OsmoVerif.Spec.Hopping", "OsmoVerif.Lemmas.Hopping",
                      "OsmoVerif.Model.GsmTime"]
ASSUMPTIONS = [
    "theorems are about OsmoVerif.Model.Hopping: hand model of HoppingParams.__init__/_pnm/fn2gsm_time/resolve, "
    "Transceiver.enable_fh/get_rx_freq/get_tx_freq (Python ints unbounded, hsn/maio arbitrary ints, fn a natural number, "
    "floor-mod, negative list indices, exceptions as values) and of pow_nbin_mask/rfch_hop_seq_gen/rfch_get_params "
    "(uint8_t parameters, int / uint32_t arithmetic, int16_t return converted to uint16_t; reads outside rn_table[114] or "
    "the MA array and % 0 are explicit fault outcomes)",
    "Spec (OsmoVerif.Spec.Hopping) is written from TS 45.002 section 6.2.3 with its own literal RNTABLE; both RNTABLE copies "
    "of the tree (Python list via the live module, C array via a dumper that #includes rfch.c) and the size of "
    "l1s.dedicated.h1.ma[] are regenerated on every run and proved equal to the Spec's",
    "model tied to the tree by differential execution: real gsm_shared.HoppingParams / Transceiver functions in-process, "
    "real rfch.c compiled unchanged for the host (l1s defined by the harness, struct gsm_time from the in-tree "
    "gsm_fn2gsmtime), boundary-dense and out-of-domain inputs; C requests that the model classifies as undefined "
    "behaviour (table/MA index out of bounds, n = 0) are not executed",
    "the firmware theorems take the GSM time from gsm_fn2gsmtime(fn) (C19 proves l1s_time_inc keeps the running time equal to it)",
    "the h0/h1 union of l1s.dedicated is modelled as two separate members (each path of rfch_get_params reads only its own)",
]
MANIFEST = {
    "text": "Lean 4 theorems for all HSN 0..63, MAIO, mobile allocations of 1..64 channels and all frame numbers: "
            "py_resolve_spec (HoppingParams.resolve = MA[MAI] of the standard, any natural fn, any MAIO), fw_hop_spec "
            "(gsm_fn2gsmtime + rfch_get_params = MA[MAI], fn < 2715648, MAIO 0..63, 16-bit ARFCNs), py_eq_fw, "
            "py_get_freq_spec (get_rx_freq/get_tx_freq), py_resolve_total (resolve never raises after a successful "
            "__init__), py_init_iff, pnm_is_pow / mask_is_mod (2^NBIN mask), rn_idx_in_bounds, gen_tables_eq_spec (both "
            "regenerated RNTABLE copies = the standard's table). Proved algebraically (mask = mod 2^NBIN), no enumeration. "
            "Model compared with the real Python and the real rfch.c on boundary-dense inputs; an independent Python "
            "transcription of the standard checks the real code over the exhaustive reduced domain "
            "(HSN xor T1R, T2, T3, N): quick = the full (x,T2,T3) grid for a sample of N, thorough = all 5.4 M "
            "combinations in C and in Python",
    "note": "trusted: Lean kernel (+propext, Classical.choice, Quot.sound), gen/hopping.py, gen/gsm_consts.py, the "
            "differential harnesses (harness/py/hopping_harness.py, harness/c/c07_harness.c), shim asm/system.h; modelled not "
            "verified: Python int/list semantics and C integer conversions as written in Model/Hopping.lean; concurrency of "
            "Transceiver.fh (POWEROFF between the two loads) is outside this property",
    "technique": "Lean 4 proof (x & (2^k-1) = x mod 2^k, xor bound, floor-mod) over Python- and C-semantics models; "
                 "regenerated tables; differential correspondence; exhaustive reduced-domain oracle on the real code",
    "design_ref": "DESIGN.md section 5 C07, section 7 F1",
}

H = 26 * 51 * 2048
BLOCK = 64 * 26 * 51          # 84864 consecutive frames = every (T1R, T2, T3) once
HARNESS_PY = os.path.join(vf.ROOT, "harness/py/hopping_harness.py")

# TS 45.002 section 6.2.3, table 6 — the check's own transcription (independent of the tree and of Lean)
RNTABLE = [
    48, 98, 63, 1, 36, 95, 78, 102, 94, 73,
    0, 64, 25, 81, 76, 59, 124, 23, 104, 100,
    101, 47, 118, 85, 18, 56, 96, 86, 54, 2,
    80, 34, 127, 13, 6, 89, 57, 103, 12, 74,
    55, 111, 75, 38, 109, 71, 112, 29, 11, 88,
    87, 19, 3, 68, 110, 26, 33, 31, 8, 45,
    82, 58, 40, 107, 32, 5, 106, 92, 62, 67,
    77, 108, 122, 37, 60, 66, 121, 42, 51, 126,
    117, 114, 4, 90, 43, 52, 53, 113, 120, 72,
    16, 49, 7, 79, 119, 61, 22, 84, 9, 97,
    91, 15, 21, 24, 46, 39, 93, 105, 65, 70,
    125, 99, 17, 123,
]
assert len(RNTABLE) == 114

# fixed inputs replayed first by the oracle: (hsn, maio, MA, fn)
CORPUS = [
    (1, 3, [10, 11, 12], 2330631),          # F1: the standard selects MA[1]; '(mp + t3 & pnm)' selected MA[0]
    (0, 63, list(range(200, 264)), H - 1),  # cyclic, largest allocation, last frame
    (63, 63, list(range(200, 264)), H - 1),
    (63, 0, [7], 0),                        # N = 1
]

# AST-normalised hashes of the modelled functions when the model was written (drift = more cases, never an alarm)
MODEL_HASHES = {
    "gsm_shared.py:HoppingParams": "5ff243e7ef0817d9/5ee3c604bdb00189",
    "transceiver.py:get_rx_freq,get_tx_freq,enable_fh": "3e7ae87e1a7399c7",
    "rfch.c": "fd20e3ea127b6493",
}


def spec_mai(hsn, maio, n, fn):
    """MAI per TS 45.002 6.2.3 (defined for 0 <= hsn <= 63, n >= 1)"""
    if hsn == 0:
        return (fn + maio) % n
    t1 = (fn // (26 * 51)) % 2048
    t1r = t1 % 64
    t2 = fn % 26
    t3 = fn % 51
    m = t2 + RNTABLE[(hsn ^ t1r) + t3]
    nbin = n.bit_length()            # INTEGER(log2 n) + 1
    mp = m % (1 << nbin)
    tp = t3 % (1 << nbin)
    s = mp if mp < n else (mp + tp) % n
    return (s + maio) % n


def gen(run):
    run.consts = gsm_consts.generate(run)
    run.hop_tables = hopping.generate(run)


def build_harness(run):
    if getattr(run, "c07_exe", None):
        return run.c07_exe
    rfch = os.path.join(vf.REPO, "src/target/firmware/layer1/rfch.c")
    try:
        nm = hopping.names(run)
    except vf.HarnessError:
        nm = {"seq_gen": True, "pnm": True}
    run.c07_direct = nm
    h = cbuild.obj(run, os.path.join(vf.ROOT, "harness/c/c07_harness.c"), "c07_harness",
                   flags=["-DHOST_BUILD", '-DRFCH_C="%s"' % rfch, "-DC07_HAVE_SEQ_GEN=%d" % int(nm["seq_gen"]), "-DC07_HAVE_PNM=%d" % int(nm["pnm"])],
                   includes=[cbuild.SHIM, cbuild.LIBOSMO_INC, cbuild.TOP_INC], idirafter=[cbuild.FW_INC])
    gu = cbuild.libosmocore_obj(run, "gsm/gsm_utils.c", "gsm_utils_c07")
    run.c07_exe = cbuild.link(run, [h, gu], "c07_harness.bin", ignore_unresolved=True)
    return run.c07_exe


def py_cmd():
    return [vf.PY, HARNESS_PY, vf.TRX]


# ----------------------------------------------------------------------------
# generators

def lattice(rng, lo, hi, extra=()):
    """a field value: boundary-dense around [lo, hi]"""
    mid = (lo + hi) // 2
    pool = [lo - 1, lo, lo + 1, mid, hi - 1, hi, hi + 1] + list(extra)
    return rng.choice(pool) if rng.random() < 0.5 else rng.randint(lo, hi)


def gen_fn(rng, wide=False):
    r = rng.random()
    if r < 0.35:
        return rng.randrange(0, H)
    if r < 0.7:
        base = rng.choice([0, 26, 51, 1326, 1326 * 64, BLOCK, H // 2, H - 1326, H - 1, H])
        k = rng.randrange(0, 40)
        v = base * rng.choice([1, 1, k]) + rng.randint(-3, 3)
        return max(0, v)
    if r < 0.85:
        return max(0, rng.randrange(0, 2048) * 1326 + rng.choice([0, 25, 26, 50, 51, 1325]) + rng.randint(-1, 1))
    if wide:
        return rng.choice([rng.randrange(H, 2 ** 32), 2 ** 32 - 1 - rng.randrange(0, 300), H + rng.randrange(0, 5000)])
    return rng.randrange(0, H)


N_POOL = [0, 1, 2, 3, 4, 5, 6, 7, 8, 9, 15, 16, 17, 31, 32, 33, 62, 63, 64]
N_WIDE = [65, 66, 100, 127, 128, 129, 200, 255]
HSN_WIDE = [-2, -1, 64, 65, 100, 113, 114, 127, 128, 255, 256, 1000]
MAIO_WIDE = [-64, -2, -1, 64, 65, 255, 256, 257, 1000003]


def gen_n(rng, wide):
    r = rng.random()
    if r < 0.45:
        return rng.choice(N_POOL)
    if r < 0.9 or not wide:
        return rng.randint(1, 64)
    return rng.choice(N_WIDE)


def gen_hsn(rng, wide):
    r = rng.random()
    if r < 0.12:
        return 0
    if r < 0.3:
        return rng.choice([1, 2, 31, 32, 62, 63])
    if r < 0.9 or not wide:
        return rng.randint(1, 63)
    return rng.choice(HSN_WIDE)


def gen_maio(rng, n, wide):
    r = rng.random()
    if r < 0.3:
        return rng.choice([0, 1, max(n - 1, 0), n, n + 1, 62, 63])
    if r < 0.9 or not wide:
        return rng.randint(0, 63)
    return rng.choice(MAIO_WIDE)


def gen_py_ma(rng, n):
    """n (rx, tx) pairs, frequencies in Hz as SETFH produces them (kHz * 1000); sometimes odd values"""
    if rng.random() < 0.9:
        base = rng.randrange(400000, 1990000)
        chans = sorted(rng.sample(range(0, 400), n)) if n <= 400 else list(range(n))
        return [((base + 200 * c) * 1000, (base + 200 * c + 45000) * 1000) for c in chans]
    return [(rng.randint(-5, 10 ** 10), rng.randint(-10 ** 6, 10 ** 10)) for _ in range(n)]


def gen_fw_ma(rng, k):
    r = rng.random()
    if r < 0.6:
        return sorted(rng.sample(range(0, 1024), k)) if k <= 1024 else []
    if r < 0.85:
        return [rng.randrange(0, 65536) for _ in range(k)]
    return [rng.choice([0, 1, 32767, 32768, 65535, 65534, 65536 + 5]) for _ in range(k)]


def fmt_pairs(ma):
    return ",".join("%d:%d" % p for p in ma) if ma else "-"


def fmt_list(ma):
    return ",".join(str(x) for x in ma) if ma else "-"


# ----------------------------------------------------------------------------
# correspondence: real code vs Lean model

def _ma_len(tok):
    return 0 if tok == "-" else tok.count(",") + 1


def in_domain(req):
    """is this request inside the property's quantifier (HSN 0..63, MAIO 0..63, N 1..64, FN 0..2715647; firmware: a
    struct gsm_time that decomposes a frame number, a hopping dedicated channel, an allocation table holding N entries)?
    Differences between model and code outside it are reported in the evidence, never as a broken tie: a new guard or
    another failure mode for values the standard excludes cannot break the property."""
    t = req.split()
    try:
        if t[0] == "hop.py":
            return 0 <= int(t[1]) <= 63 and 0 <= int(t[2]) <= 63 and 0 <= int(t[3]) < H and 1 <= _ma_len(t[4]) <= 64
        if t[0] == "hop.pypnm":
            return 1 <= int(t[1]) <= 64
        if t[0] == "hop.freq":
            return int(t[1]) == 0 or (0 <= int(t[2]) <= 63 and 0 <= int(t[3]) <= 63 and 0 <= int(t[4]) < H and 1 <= _ma_len(t[5]) <= 64)
        if t[0] == "hop.seq":
            for op in " ".join(t[4:]).split(";"):
                o = op.split()
                if o[0] == "E" and not (0 <= int(o[1]) <= 63 and 0 <= int(o[2]) <= 63 and 1 <= _ma_len(o[3]) <= 64):
                    return False
                if o[0] == "Q" and not 0 <= int(o[1]) < H:
                    return False
            return True
        if t[0] == "hop.fwfn":
            hsn, maio, n, fn = (int(x) for x in t[1:5])
            return hsn <= 63 and maio <= 63 and 1 <= n <= 64 and fn < H and _ma_len(t[5]) >= n
        if t[0] == "hop.fw":
            ty, h, serv, h0, fn, t1, t2, t3, hsn, maio, n = (int(x) for x in t[1:12])
            return (h == 1 and hsn <= 63 and maio <= 63 and 1 <= n <= 64 and t1 < 2048 and t2 < 26 and t3 < 51
                    and _ma_len(t[12]) >= n)
        if t[0] == "hop.fwmai":
            t1, t2, t3, fn, hsn, maio, n = (int(x) for x in t[1:8])
            return hsn <= 63 and maio <= 63 and 1 <= n <= 64 and t1 < 2048 and t2 < 26 and t3 < 51
        if t[0] == "hop.fwpnm":
            return 1 <= int(t[1]) <= 64
    except (ValueError, IndexError):
        return False
    return True


def correspond(run, corr):
    rng = run.rng
    gs = os.path.join(vf.TRX, "gsm_shared.py")
    run.drift["gsm_shared.py:HoppingParams"] = vf.src_hash_py(gs, ["resolve", "fn2gsm_time"]) + "/" + \
        vf.src_hash_py(gs, ["HoppingParams"])
    run.drift["transceiver.py:get_rx_freq,get_tx_freq,enable_fh"] = vf.src_hash_py(
        os.path.join(vf.TRX, "transceiver.py"), ["get_rx_freq", "get_tx_freq", "enable_fh", "disable_fh"])
    run.drift["rfch.c"] = vf.src_hash_c(os.path.join(vf.REPO, "src/target/firmware/layer1/rfch.c"),
                                        ["pow_nbin_mask", "rfch_hop_seq_gen", "rfch_get_params"])
    drifted = any(MODEL_HASHES.get(k) not in (None, v) for k, v in run.drift.items())
    mult = 10 if drifted else 1
    if drifted:
        corr.notes.append("source drift w.r.t. the recorded hashes: correspondence cases x10")
    n_py = run.scale(8000, 60000) * mult
    n_fw = run.scale(10000, 80000) * mult

    samples = []
    # each side is a tie of its own: a side whose harness cannot run is recorded, the other side still runs
    for side in (correspond_py, correspond_seq, correspond_fw):
        try:
            samples += side(run, corr, rng, {correspond_py: n_py, correspond_seq: n_py // 8, correspond_fw: n_fw}[side])
        except vf.HarnessError as e:
            corr.harness_errors.append(str(e)[-1500:])
    corr.rule = ("Python: HoppingParams(hsn, maio, ma).resolve(fn) and Transceiver.enable_fh/get_rx_freq/get_tx_freq with hsn, maio, "
                 "|MA| each at lo-1, lo, lo+1, mid, hi-1, hi, hi+1 and far outside (negative, > 63, |MA| 0 and > 64 .. 255), fn on the "
                 "26/51/1326/84864/hyperframe lattice, random, and beyond the hyperframe up to 2^32; _pnm for |MA| 0..139 and larger; "
                 "histories (hop.seq) of enable_fh / disable_fh / look-ups on ONE Transceiver object (re-configuration without power-off, "
                 "different |MA| and NBIN between configurations); "
                 "firmware: rfch_get_params via gsm_fn2gsmtime and with raw (also inconsistent) struct gsm_time contents, every "
                 "dedicated channel type, h in {0,1,2,255}, uint8 wrap of hsn/maio/n, ARFCNs up to 65535 (int16 wrap), "
                 "rfch_hop_seq_gen(NULL table), pow_nbin_mask 0..255; a case is a distinct request line")
    corr.samples = samples
    run.c07_disagreements = list(corr.disagreements)


def correspond_py(run, corr, rng, n_py):
    preqs = []
    for i in range(n_py):
        wide = rng.random() < 0.25
        n = gen_n(rng, wide)
        hsn = gen_hsn(rng, wide)
        maio = gen_maio(rng, n, wide)
        fn = gen_fn(rng, wide)
        ma = gen_py_ma(rng, n)
        if i % 5 == 4:
            fh = rng.choice([0, 1, 1, 1, 1, 1, 1, 2])
            rx0 = rng.choice(["None", str(rng.randrange(0, 2 * 10 ** 9))])
            tx0 = rng.choice(["None", str(rng.randrange(0, 2 * 10 ** 9))])
            preqs.append("hop.freq %d %d %d %d %s %s %s" % (fh, hsn, maio, fn, fmt_pairs(ma), rx0, tx0))
        else:
            preqs.append("hop.py %d %d %d %s" % (hsn, maio, fn, fmt_pairs(ma)))
    preqs += ["hop.pypnm %d" % n for n in list(range(0, 140)) + [200, 255, 256, 257, 1000]]
    pimpl = vf.run_lines(py_cmd(), preqs)
    pmodel = vf.run_driver(preqs)
    nskip = sum(1 for a in pimpl if a == "skip")
    if nskip:
        kept = [(r, a, m) for r, a, m in zip(preqs, pimpl, pmodel) if a != "skip"]
        preqs, pimpl, pmodel = [k[0] for k in kept], [k[1] for k in kept], [k[2] for k in kept]
        corr.distribution["py requests addressed to a private attribute this tree does not have (not comparable)"] = nskip
    corr.compare(preqs, pimpl, pmodel, in_domain=in_domain)
    for r, a in zip(preqs, pimpl):
        corr.count(r, r.split()[0] + ":" + ("exc" if "EXC" in a else "ok"))
    return [{"request": r[:160], "impl": a, "model": b} for r, a, b in list(zip(preqs, pimpl, pmodel))[:3]]


def gen_seq(rng, clean=False):
    """a history on ONE Transceiver object: enable_fh (re-configuration without power-off included), disable_fh,
    get_rx_freq/get_tx_freq; clean=True keeps every enable_fh inside the property's domain"""
    rx0 = rng.choice(["None", str(rng.randrange(0, 2 * 10 ** 9))])
    tx0 = rng.choice(["None", str(rng.randrange(0, 2 * 10 ** 9))])
    ops = []
    for _ in range(rng.randint(3, 12)):
        r = rng.random()
        if r < 0.35:
            wide = (not clean) and rng.random() < 0.15
            n = gen_n(rng, wide)
            if clean:
                n = min(max(n, 1), 64)
            hsn = gen_hsn(rng, wide)
            maio = gen_maio(rng, n, wide)
            if clean:
                hsn, maio = min(max(hsn, 0), 63), min(max(maio, 0), 63)
            ops.append("E %d %d %s" % (hsn, maio, fmt_pairs(gen_py_ma(rng, n))))
        elif r < 0.42:
            ops.append("D")
        else:
            ops.append("Q %d" % (gen_fn(rng, False) % H))
    return "hop.seq %s %s | %s" % (rx0, tx0, " ; ".join(ops))


def correspond_seq(run, corr, rng, n_seq):
    reqs = [gen_seq(rng) for _ in range(n_seq)]
    impl = vf.run_lines(py_cmd(), reqs)
    model = vf.run_driver(reqs)
    corr.compare(reqs, impl, model, in_domain=in_domain)
    for r, a in zip(reqs, impl):
        corr.count(r, "hop.seq:" + ("exc" if "EXC" in a else "ok"))
    return [{"request": r[:160], "impl": a[:160], "model": b[:160]} for r, a, b in list(zip(reqs, impl, model))[:1]]


def oracle_seq(run, count):
    """histories of enable_fh / disable_fh / get_*_freq on one Transceiver: every look-up must follow the parameters of
    the LAST enable_fh (TS 45.002 6.2.3), or the fixed frequencies while hopping is disabled"""
    rng = run.rng
    reqs = [gen_seq(rng, clean=True) for _ in range(count)]
    out = vf.run_lines(py_cmd(), reqs)
    for r, a in zip(reqs, out):
        w = judge_seq(r, a)
        if w:
            return [w]
    return []


def judge_seq(req, ans):
    head, ops = req.split(" | ")
    _, rx0, tx0 = head.split()
    cur = None
    got = ans.split()
    ops = ops.split(" ; ")
    if len(got) != len(ops):
        return {"kind": "py-seq", "request": req, "impl": ans, "spec": "one answer per operation"}
    for i, (o, a) in enumerate(zip(ops, got)):
        t = o.split()
        if t[0] == "E":
            ma = [tuple(int(x) for x in p.split(":")) for p in t[3].split(",")]
            want = "ok"
            cur = (int(t[1]), int(t[2]), ma)
        elif t[0] == "D":
            want = "-"
            cur = None
        else:
            fn = int(t[1])
            if cur is None:
                want = "%s/%s" % (rx0, tx0)
            else:
                hsn, maio, ma = cur
                want = "%d/%d" % ma[spec_mai(hsn, maio, len(ma), fn)]
        if a != want:
            return {"kind": "py-seq", "request": req, "op_index": i, "op": o, "impl": a, "spec": want,
                    "params_in_force": None if cur is None else {"hsn": cur[0], "maio": cur[1], "n": len(cur[2])}}
    return None


def correspond_fw(run, corr, rng, n_fw):
    exe = build_harness(run)
    freqs = []
    for i in range(n_fw):
        wide = rng.random() < 0.3
        n = gen_n(rng, wide)
        hsn = gen_hsn(rng, wide)
        if hsn < 0:
            hsn = rng.choice([256, 257, 300])
        maio = gen_maio(rng, n, wide)
        if maio < 0:
            maio = rng.choice([255, 256, 300])
        k = min(n, 64) if rng.random() < 0.8 else rng.randint(0, 64)
        ma = gen_fw_ma(rng, k)
        fn = gen_fn(rng, wide)
        kind = i % 8
        if kind < 4:
            freqs.append("hop.fwfn %d %d %d %d %s" % (hsn, maio, n, fn, fmt_list(ma)))
        elif kind < 7:
            # raw struct contents, consistent or not
            if rng.random() < 0.6:
                f = fn % H
                t1, t2, t3 = f // 1326, f % 26, f % 51
            else:
                t1 = rng.choice([rng.randrange(0, 2048), rng.randrange(0, 65536), 65535, 63, 64])
                t2 = rng.choice([rng.randrange(0, 26), rng.randrange(0, 256)])
                t3 = rng.choice([rng.randrange(0, 51), rng.randrange(0, 51), 50, 51, rng.randrange(0, 256)])
            if kind < 6:
                ty = rng.choice([0, 1, 2, 3, 4, 5, 6, 7, 8, 6, 6, 3])
                hflag = rng.choice([1, 1, 1, 1, 0, 2, 255])
                freqs.append("hop.fw %d %d %d %d %d %d %d %d %d %d %d %s" % (
                    ty, hflag, rng.randrange(0, 65536), rng.randrange(0, 65536), fn, t1, t2, t3, hsn, maio, n, fmt_list(ma)))
            else:
                freqs.append("hop.fwmai %d %d %d %d %d %d %d" % (t1, t2, t3, fn, hsn, maio, n))
        else:
            freqs.append("hop.fwpnm %d" % rng.randrange(0, 256))
    freqs += ["hop.fwpnm %d" % n for n in range(0, 256)]
    fmodel = vf.run_driver(freqs)
    # the C code is only executed where its behaviour is defined (model: no oob / divzero outcome)
    defined = [(r, m) for r, m in zip(freqs, fmodel) if not (m.startswith("oob-") or m == "divzero")]
    undefined = len(freqs) - len(defined)
    fimpl = vf.run_lines_crash_safe([exe], [r for r, _ in defined])
    # "skip": a static helper the request addresses directly does not exist in this tree and the question cannot be put
    # through rfch_get_params() either (counted; the model's answer stands alone there)
    nskip = sum(1 for a in fimpl if a == "skip")
    if nskip:
        kept = [(d, a) for d, a in zip(defined, fimpl) if a != "skip"]
        defined, fimpl = [d for d, _ in kept], [a for _, a in kept]
        corr.distribution["fw requests addressed to static helpers that this tree does not define (not comparable)"] = nskip
    corr.compare([r for r, _ in defined], fimpl, [m for _, m in defined], in_domain=in_domain)
    for (r, m) in defined:
        corr.count(r, r.split()[0])
    corr.distribution["fw requests classified undefined behaviour by the model (not executed)"] = undefined
    for r, m in zip(freqs, fmodel):
        if m == "bad-op":
            corr.disagreements.append({"request": r, "impl": "(generator)", "model": "bad-op"})
            break
    return [{"request": r[:160], "impl": a, "model": m} for (r, m), a in list(zip(defined, fimpl))[:3]]


# ----------------------------------------------------------------------------
# property oracle on the real code (independent of the Lean model)

def mk_case(rng, n):
    hsn = rng.randint(1, 63)
    maio = rng.choice([0, n - 1, rng.randint(0, 63), rng.randint(0, 63)])
    arfcns = rng.sample(range(1, 1024), n)
    return hsn, maio, arfcns


def py_ma_of(arfcns):
    return [(a, a + 100000) for a in arfcns]


def oracle_block(run, exe, which, n, blk, hsn, maio, arfcns):
    """every (T1R, T2, T3) once: BLOCK consecutive frames starting at blk*BLOCK, one (hsn, maio, MA)"""
    fn0 = blk * BLOCK
    if which == "py":
        out = vf.run_lines(py_cmd(), ["o.setfh %d %d %s" % (hsn, maio, fmt_pairs(py_ma_of(arfcns))),
                                      "o.range %d %d" % (fn0, BLOCK)])
    else:
        out = vf.run_lines([exe], ["o.setfh %d %d %s" % (hsn, maio, fmt_list(arfcns)),
                                   "o.range %d %d" % (fn0, BLOCK)])
    if out[0] != "ok":
        return {"kind": which + "-hop", "hsn": hsn, "maio": maio, "n": n, "fn": fn0, "ma": arfcns,
                "impl": out[0], "spec": "constructor must accept the parameters"}
    vals = out[1].split()
    if len(vals) != BLOCK:
        return {"kind": which + "-hop", "hsn": hsn, "maio": maio, "n": n, "fn": fn0, "ma": arfcns,
                "impl": out[1][:80], "spec": "a channel for every frame"}
    bad = 0
    first = None
    for i, v in enumerate(vals):
        fn = fn0 + i
        want = arfcns[spec_mai(hsn, maio, n, fn)]
        if v != str(want):
            bad += 1
            if first is None:
                first = (fn, v, want)
    if bad:
        fn, v, want = first
        return {"kind": which + "-hop", "hsn": hsn, "maio": maio, "n": n, "fn": fn, "ma": arfcns,
                "impl": v, "spec_mai": spec_mai(hsn, maio, n, fn), "spec": want,
                "frames_wrong_in_block": bad, "block_frames": BLOCK}
    return None


def oracle_random(run, exe, sides, n_objs, per_obj):
    """stratified random (hsn 0..63 incl. cyclic, maio 0..63, N 1..64, fn lattice): every available implementation vs the
    standard (hence also vs each other: the same inputs go to both)"""
    rng = run.rng
    cases = []
    lines = {"py": [], "fw": []}
    for _ in range(n_objs):
        n = gen_n(rng, False) or 1
        hsn = gen_hsn(rng, False)
        maio = rng.randint(0, 63)
        arfcns = rng.sample(range(0, 1024), n)
        fns = [gen_fn(rng) % H for _ in range(per_obj)]
        cases.append((hsn, maio, n, arfcns, fns))
        lines["py"] += ["o.setfh %d %d %s" % (hsn, maio, fmt_pairs(py_ma_of(arfcns))), "o.res " + " ".join(map(str, fns))]
        lines["fw"] += ["o.setfh %d %d %s" % (hsn, maio, fmt_list(arfcns)), "o.res " + " ".join(map(str, fns))]
    wit, errs = [], []
    for which in sides:
        try:
            out = vf.run_lines(py_cmd() if which == "py" else [exe], lines[which])
        except vf.HarnessError as e:
            errs.append(str(e)[-800:])
            continue
        for k, (hsn, maio, n, arfcns, fns) in enumerate(cases):
            vals = out[2 * k + 1].split() if out[2 * k] == "ok" else []
            if len(vals) != len(fns):
                vals = [out[2 * k] if out[2 * k] != "ok" else out[2 * k + 1]] * len(fns)
            bad = [(fn, v) for fn, v in zip(fns, vals) if v != str(arfcns[spec_mai(hsn, maio, n, fn)])]
            if bad:
                fn, v = bad[0]
                wit.append({"kind": which + "-hop", "hsn": hsn, "maio": maio, "n": n, "fn": fn, "ma": arfcns, "impl": v,
                            "spec_mai": spec_mai(hsn, maio, n, fn), "spec": arfcns[spec_mai(hsn, maio, n, fn)]})
                break
    return wit, sum(len(c[4]) for c in cases) * len(sides), errs


def oracle_freq(run, count):
    """Transceiver.get_rx_freq / get_tx_freq with hopping enabled = the (rx, tx) pair the standard selects"""
    rng = run.rng
    reqs, meta = [], []
    for _ in range(count):
        n = gen_n(rng, False) or 1
        hsn = gen_hsn(rng, False)
        maio = rng.randint(0, 63)
        ma = gen_py_ma(rng, n)
        fn = gen_fn(rng) % H
        reqs.append("hop.freq 1 %d %d %d %s None None" % (hsn, maio, fn, fmt_pairs(ma)))
        meta.append((hsn, maio, n, fn, ma))
    out = vf.run_lines(py_cmd(), reqs)
    for (hsn, maio, n, fn, ma), a in zip(meta, out):
        rx, tx = ma[spec_mai(hsn, maio, n, fn)]
        want = "init=ok rx=%d tx=%d" % (rx, tx)
        if a != want:
            return [{"kind": "py-freq", "hsn": hsn, "maio": maio, "n": n, "fn": fn, "ma": [list(p) for p in ma],
                     "impl": a, "spec_mai": spec_mai(hsn, maio, n, fn), "spec": want}]
    return []


def check_disagreements(run, exe):
    """the correspondence's disagreeing inputs first: is one of them inside the property's domain and against the standard?"""
    wit = []
    for d in getattr(run, "c07_disagreements", [])[:50]:
        tok = d["request"].split()
        try:
            if tok[0] == "hop.py":
                hsn, maio, fn = int(tok[1]), int(tok[2]), int(tok[3])
                n = 0 if tok[4] == "-" else len(tok[4].split(","))
                if 0 <= hsn <= 63 and 1 <= n <= 64 and 0 <= maio <= 63 and 0 <= fn < H:
                    # re-run on the real code with a canonical MA of the same size (the property does not depend on its contents)
                    arfcns = list(range(101, 101 + n))
                    ma = py_ma_of(arfcns)
                    want = "ok %d %d" % ma[spec_mai(hsn, maio, n, fn)]
                    got = vf.run_lines(py_cmd(), ["hop.py %d %d %d %s" % (hsn, maio, fn, fmt_pairs(ma))])[0]
                    if got != want:
                        wit.append({"kind": "py-hop", "hsn": hsn, "maio": maio, "n": n, "fn": fn, "ma": arfcns,
                                    "impl": got, "spec_mai": spec_mai(hsn, maio, n, fn), "spec": want})
            elif tok[0] == "hop.fwfn":
                hsn, maio, n, fn = (int(x) for x in tok[1:5])
                ma = [] if tok[5] == "-" else [int(x) for x in tok[5].split(",")]
                if 0 <= hsn <= 63 and 1 <= n <= 64 and n == len(ma) and 0 <= maio <= 63 and 0 <= fn < H \
                        and all(0 <= a < 65536 for a in ma):
                    want = "ok %d" % ma[spec_mai(hsn, maio, n, fn)]
                    got = vf.run_lines_crash_safe([exe], [d["request"]])[0] if exe else want
                    if got != want:
                        wit.append({"kind": "fw-hop", "hsn": hsn, "maio": maio, "n": n, "fn": fn, "ma": ma,
                                    "impl": got, "spec_mai": spec_mai(hsn, maio, n, fn), "spec": want})
        except (ValueError, IndexError):
            continue
        if wit:
            break
    return wit


def report_once(run, w):
    """one witness per kind (py-hop / fw-hop / py-freq) is enough"""
    kinds = run.__dict__.setdefault("c07_kinds", set())
    if w["kind"] in kinds:
        return 0
    kinds.add(w["kind"])
    return run.report_witness(w)


def search(run, corr, deep):
    rng = run.rng
    found = 0
    full = deep or run.thorough
    errs = []
    sides = ["py"]
    exe = None
    try:
        exe = build_harness(run)
        sides.append("fw")
    except vf.HarnessError as e:
        errs.append(str(e)[-800:])

    def guarded(f, *a):
        try:
            return f(*a)
        except vf.HarnessError as e:
            errs.append(str(e)[-800:])
            return None

    # 0. the two specification copies (Lean Spec, this file) agree on a sample — consistency of the oracle itself
    sreq, swant = [], []
    for _ in range(3000):
        hsn, maio, n, fn = rng.randint(0, 63), rng.randint(0, 63), rng.randint(1, 64), gen_fn(rng) % H
        sreq.append("hop.spec %d %d %d %d" % (hsn, maio, n, fn))
        swant.append("some %d" % spec_mai(hsn, maio, n, fn))
    try:
        sgot = vf.run_driver(sreq)
        for r, a, b in zip(sreq, sgot, swant):
            if a != b:
                corr.disagreements.append({"request": r, "impl": "(check's transcription) " + b, "model": "(Lean Spec) " + a})
                run.report_unproved({"tie": "spec-copies", "request": r, "lean_spec": a, "check_spec": b})
                break
    except vf.InternalError:
        corr.notes.append("Lean driver unavailable: Spec copies not cross-checked in this run")
    # 0b. corpus: fixed inputs of past findings (F1: M' >= N with T3 contributing a carry into the masked bits)
    for (hsn, maio, arfcns, fn) in CORPUS:
        n = len(arfcns)
        want = arfcns[spec_mai(hsn, maio, n, fn)]
        for which in sides:
            if which == "py":
                got = guarded(vf.run_lines, py_cmd(), ["hop.py %d %d %d %s" % (hsn, maio, fn, fmt_pairs(py_ma_of(arfcns)))])
                w = "ok %d %d" % (want, want + 100000)
            else:
                got = guarded(vf.run_lines, [exe], ["hop.fwfn %d %d %d %d %s" % (hsn, maio, n, fn, fmt_list(arfcns))])
                w = "ok %d" % want
            if got is not None and got[0] != w:
                found += report_once(run, {"kind": which + "-hop", "hsn": hsn, "maio": maio, "n": n, "fn": fn, "ma": arfcns,
                                           "impl": got[0], "spec_mai": spec_mai(hsn, maio, n, fn), "spec": w})
    # 1. disagreeing correspondence inputs
    for w in guarded(check_disagreements, run, exe) or []:
        found += report_once(run, w)
    # 2. exhaustive reduced domain (x = HSN xor T1R, T2, T3) for each chosen N
    if full:
        ns = {"fw": list(range(1, 65)), "py": list(range(1, 65))}
    else:
        ns = {"fw": sorted(set([1, 2, 3, 5, 6, 7, 12, 24, 33, 48, 63, 64] + rng.sample(range(1, 65), 16))),
              "py": sorted(set([3, 6, 63, 64] + rng.sample(range(1, 65), 10)))}
    combos = 0
    for which in sides:
        for n in ns[which]:
            hsn, maio, arfcns = mk_case(rng, n)
            w = guarded(oracle_block, run, exe, which, n, rng.randrange(0, 32), hsn, maio, arfcns)
            combos += BLOCK
            if w:
                found += report_once(run, w)
        corr.distribution["oracle: full (HSNxorT1R,T2,T3) grids on the real %s code (values of N)" % which] = len(ns[which])
    # 3. stratified random, every implementation against the standard (same inputs to both)
    wit, cnt, e3 = oracle_random(run, exe, sides, 20000 if full else 1500, 50 if full else 40)
    errs += e3
    for w in wit:
        found += report_once(run, w)
    corr.distribution["oracle: stratified random (hsn,maio,N,MA,fn), implementations x inputs"] = cnt
    # 4. per-frame Rx/Tx frequency
    for w in guarded(oracle_freq, run, 4000 if full else 600) or []:
        found += report_once(run, w)
    # 5. histories on one Transceiver object (re-configuration)
    for w in guarded(oracle_seq, run, 3000 if full else 400) or []:
        found += report_once(run, w)
    corr.evaluations += combos + cnt
    corr.exhaustive = bool(full)
    corr.notes.append("oracle = the check's own transcription of TS 45.002 6.2.3 (cross-checked against the Lean Spec on 3000 inputs)")
    if errs:
        raise vf.HarnessError("; ".join(sorted(set(errs)))[-1500:])
    return found


def replay(run, path):
    rp = json.load(open(path))
    exe = build_harness(run)
    bad = 0
    for v in rp.get("violations", []):
        w = v.get("witness")
        if not w:
            print("replay: no concrete input recorded (%s)" % json.dumps(v.get("broken"))[:600])
            continue
        if w["kind"] == "py-seq":
            got = vf.run_lines(py_cmd(), [w["request"]])[0]
            j = judge_seq(w["request"], got)
            print("replay py-seq %s: impl=%s  %s" % (w["request"][:300], got[:200],
                  "still fails at op %s: impl=%s standard=%s" % (j.get("op"), j["impl"], j["spec"]) if j else "passes now"))
            bad += bool(j)
            continue
        hsn, maio, n, fn = w["hsn"], w["maio"], w["n"], w["fn"]
        mai = spec_mai(hsn, maio, n, fn)
        if w["kind"] == "py-freq":
            ma = [tuple(p) for p in w["ma"]]
            got = vf.run_lines(py_cmd(), ["hop.freq 1 %d %d %d %s None None" % (hsn, maio, fn, fmt_pairs(ma))])[0]
            want = "init=ok rx=%d tx=%d" % ma[mai]
        elif w["kind"] == "py-hop":
            ma = py_ma_of(w["ma"])
            got = vf.run_lines(py_cmd(), ["hop.py %d %d %d %s" % (hsn, maio, fn, fmt_pairs(ma))])[0]
            want = "ok %d %d" % ma[mai]
        else:
            got = vf.run_lines_crash_safe([exe], ["hop.fwfn %d %d %d %d %s" % (hsn, maio, n, fn, fmt_list(w["ma"]))])[0]
            want = "ok %d" % w["ma"][mai]
        print("replay %s hsn=%d maio=%d N=%d fn=%d: impl=%s  standard: MAI=%d -> %s" % (w["kind"], hsn, maio, n, fn, got, mai, want))
        bad += got != want
    if bad:
        print("VIOLATION property=C07 replay=%s" % path)
    return 1 if bad else 0
