# C20 — Mobile Allocation decoding selects exactly the flagged cell channels
import json, os, re, subprocess
from lib import vf
from gen import mobile_alloc
from props import c20_chain_part as chain     # the hopping list end to end (decoder -> trxcon SETFH -> fake_trx -> per-frame channel)

ID = "C20"
LEVEL = "proof"
LEAN_MODULES = ["OsmoVerif.Props.C20"] + chain.LEAN_MODULES
DRIVER_MODULES = ["MobileAlloc"] + chain.DRIVER_MODULES
LEAN_MODEL_MODULES = ["OsmoVerif.Model.MobileAlloc", "OsmoVerif.Spec.MobileAlloc", "OsmoVerif.Lemmas.MobileAlloc"] + chain.LEAN_MODEL_MODULES
ASSUMPTIONS = [
    "theorems are about OsmoVerif.Model.MobileAlloc: hand model of gsm48_decode_mobile_alloc (sysinfo.c) statement by statement, with freq[], ma[], hopping[] and the local table f[] as capacity-checked lists (out-of-bounds access, use of an indeterminate f[i], zero-sized VLA and fuel exhaustion are distinct Fault outcomes)",
    "the specification OsmoVerif.Spec.MobileAlloc is written from TS 44.018 10.5.2.21 (cell allocation list ascending with ARFCN 0 last; MA C i = bit ((i-1) mod 8) of octet n-1-(i-1)/8 of the value part)",
    "FREQ_TYPE_SERV/FREQ_TYPE_HOPP/EINVAL (C compiler), the callers' buffer sizes (gsm48_sysinfo.freq[], .hopping[], every uint16_t ma[] of gsm48_rr.c) and the declared size of f[] are regenerated from the tree on every run and used by the theorems",
    "model tied to /repo by differential execution: the CURRENT text of the function is extracted from sysinfo.c (name + brace matching) with struct gsm_sysinfo_freq / FREQ_TYPE_* from the headers, compiled unchanged with clang -fsanitize=address,undefined -fno-sanitize-recover=all and driven with exact-size heap buffers; LOGP is an argument sink (arguments are evaluated)",
    "memory safety of the compiled binary is sanitizer evidence (every case, abort attributed to the request); the theorem decode_ma_bounds is about the index arithmetic of the model",
    "callers are not modelled: that `ma` points at `len` readable octets and that freq/hopping have the regenerated capacities are hypotheses of the theorems (both callers satisfy them: sysinfo.c checks payload_len >= 2 + data[1]; gsm48_rr.c bounds mob_alloc_lv by its array size)",
] + chain.ASSUMPTIONS
MANIFEST = {
    "text": "Lean 4 theorems over a statement-by-statement model of gsm48_decode_mobile_alloc with explicit buffer capacities: decode_ma_spec (len <= 8: return 0, decoded list = selection of TS 44.018 10.5.2.21, subset of the cell allocation, ordered ascending with ARFCN 0 last, <= 64 entries, rest of hopping[] untouched), decode_ma_masks (si4 mask update), decode_ma_reject (len > 8: -EINVAL, outputs untouched), decode_ma_bounds (for ALL freq[1024] contents, len, bitmaps: no access outside f/hopping/freq/ma, no indeterminate value used), empty_bitmap, beyond_ca_ends; all cell allocations (any subset of 0..1023, also > 64 entries). The current function text is extracted from sysinfo.c, compiled under ASan+UBSan and compared with the model on structured cases; an independent Python transcription of the standard judges the real outputs",
    "note": "trusted: Lean kernel (+propext, Classical.choice, Quot.sound), gen/mobile_alloc.py (extractor/translator), harness/c/c20_harness.c and the case generators, clang sanitizers for the compiled binary's memory behaviour (evidence, not proof); modelled not verified: C int promotion in the index expressions as written in Model/MobileAlloc.lean, LOGP as argument sink; the theorems hold on the tree with the F7 fix (zero-length VLA / write past f[] for len == 0)",
    "technique": "Lean 4 proof (loop invariants by induction over fuel, list lemmas) over a model with capacity-checked buffers; differential correspondence with the extracted C function under ASan/UBSan; independent Python oracle of TS 44.018 10.5.2.21",
    "design_ref": "DESIGN.md section 5 C20, section 7 F7",
}
MANIFEST["text"] += chain.MANIFEST_TEXT
MANIFEST["note"] += chain.MANIFEST_NOTE

SYSINFO_C = "src/host/layer23/src/common/sysinfo.c"
# hash of the function text the model was written against (tree with the F7 fix)
MODEL_HASH = "d6ba7e0d9e014711"
SAN_FLAGS = ["-fsanitize=address,undefined", "-fno-sanitize-recover=all", "-fno-omit-frame-pointer"]
SAN_ENV = {"ASAN_OPTIONS": "detect_leaks=0:abort_on_error=0:exitcode=77:color=never",
           "UBSAN_OPTIONS": "print_stacktrace=0:exitcode=77:color=never"}
BATCH_CRASHES = 8

# fixed request lines (also the non-vacuity examples of Props/C20.lean)
FIXED = [
    ("0,10,20,30", "0b", 1, 1), ("1-64", "ffffffffffffffff", 8, 0), ("0-63", "8000000000000001", 8, 1),
    ("0-79", "ffffffffffffffff", 8, 1), ("10,20,30", "0d", 1, 1), ("10,20,30", "fd", 1, 1),
    ("100-111", "0201", 2, 0), ("1,2,3", "ff" * 9, 9, 1), ("1,2,3", "-", 0, 1), ("-", "-", 0, 0),
    ("5", "-", 0, 0), ("0", "-", 0, 1), ("1-64", "-", 0, 1), ("-", "ff", 1, 1),
]


def gen(run):
    run.consts = mobile_alloc.generate(run)
    chain.gen(run)


# ----------------------------------------------------------------------------
# harness

def build_harness(run, variant="full"):
    """the extracted function + harness/c/c20_harness.c under the sanitizers.
    variant 'full' = ASan+UBSan (the check); 'asan' = AddressSanitizer alone (used only to tell a
    report about undefined behaviour, e.g. a zero-sized VLA, from a memory error ASan sees)"""
    key = "c20_exe_" + variant
    if getattr(run, key, None):
        return getattr(run, key)
    src = os.path.join(run.scratch, "c20_gen.c")
    if not os.path.exists(src):
        with open(src, "w") as f:
            f.write(mobile_alloc.generated_c(run))
    flags = list(SAN_FLAGS)
    if variant == "asan":
        flags[0] = "-fsanitize=address"
    exe = vf.cc([src], os.path.join(run.scratch, "c20_harness_%s.bin" % variant), flags=flags, compiler="clang")
    setattr(run, key, exe)
    return exe


_SAN = re.compile(r"(ERROR: AddressSanitizer: [^\n]*|runtime error: [^\n]*|SUMMARY: [^\n]*|(?:READ|WRITE) of size \d+[^\n]*)")


def san_summary(stderr):
    out = []
    for m in _SAN.finditer(stderr):
        s = re.sub(r"0x[0-9a-f]+", "0x..", m.group(1))
        s = re.sub(r"/\S*/(c20_gen\.c|c20_harness\.c)", r"\1", s)
        if s not in out:
            out.append(s)
    return out[:5]


def run_cases(exe, lines, symbolize=False):
    """one process per batch; every answer is flushed, so after an abort the first unanswered
    request is the culprit: it is answered `OOB` and the remainder is re-run; after a few aborts
    the remainder runs with one forked child per request (the harness attributes aborts itself).
    Bulk runs do not symbolize the reports (one llvm-symbolizer start per abort); a witness is re-run
    with symbolization.  -> (answers, {index: sanitizer summary})"""
    env = dict(os.environ)
    env.update(SAN_ENV)
    if not symbolize:
        env["ASAN_OPTIONS"] += ":symbolize=0"
        env["UBSAN_OPTIONS"] += ":symbolize=0"
    answers, reports = [], {}
    pos, crashes = 0, 0
    while pos < len(lines):
        data = "\n".join(lines[pos:]) + "\n"
        forking = crashes >= BATCH_CRASHES
        p = subprocess.run([exe] + (["fork"] if forking else []), input=data, stdout=subprocess.PIPE,
                           stderr=subprocess.PIPE, text=True, timeout=3600, env=env)
        out = p.stdout.split("\n")
        if out and out[-1] == "":
            out.pop()
        if forking:
            if p.returncode != 0 or len(out) != len(lines) - pos:
                raise vf.HarnessError("c20 harness (fork mode): rc=%d, %d answers for %d requests; stderr: %s"
                                      % (p.returncode, len(out), len(lines) - pos, p.stderr[-800:]))
            answers += out
            prev = 0
            for m in re.finditer(r"@@C20-ABORT (\d+)\n", p.stderr):
                reports[pos + int(m.group(1))] = san_summary(p.stderr[prev:m.start()]) or ["child process aborted"]
                prev = m.end()
            for k, a in enumerate(out):
                if a == "OOB" and pos + k not in reports:
                    reports[pos + k] = ["child process aborted"]
            break
        if p.returncode == 0 and len(out) == len(lines) - pos:
            answers += out
            break
        if len(out) > len(lines) - pos:
            raise vf.HarnessError("c20 harness: more answers than requests")
        if p.returncode == 0:
            raise vf.HarnessError("c20 harness: exit 0 with %d answers for %d requests" % (len(out), len(lines) - pos))
        answers += out
        k = pos + len(out)
        answers.append("OOB")
        reports[k] = san_summary(p.stderr) or ["process exit %d: %s" % (p.returncode, p.stderr[-300:])]
        crashes += 1
        pos = k + 1
    return answers, reports


def run_driver_par(lines, chunk=1500):
    """vf.run_driver on contiguous chunks in parallel (the model walks 1024-entry lists, a few ms per case)"""
    if len(lines) <= chunk:
        return vf.run_driver(lines)
    from concurrent.futures import ThreadPoolExecutor
    parts = [lines[i:i + chunk] for i in range(0, len(lines), chunk)]
    with ThreadPoolExecutor(max_workers=max(2, min(vf.NCPU, 16))) as ex:
        res = list(ex.map(vf.run_driver, parts))
    return [a for r in res for a in r]


# ----------------------------------------------------------------------------
# cases

def fmt_list(xs):
    return ",".join(str(x) for x in xs) if xs else "-"


def parse_ca(s):
    """'-' | comma list with optional a-b ranges (ranges only in FIXED)"""
    if s == "-":
        return []
    out = []
    for t in s.split(","):
        if "-" in t:
            a, b = t.split("-")
            out += list(range(int(a), int(b) + 1))
        else:
            out.append(int(t))
    return out


class Case:
    __slots__ = ("ca", "ma", "len", "si4", "stale", "bg", "tag")

    def __init__(self, ca, ma, ln, si4, stale=(), bg=0, tag=""):
        self.ca, self.ma, self.len, self.si4, self.stale, self.bg, self.tag = list(ca), bytes(ma), ln, si4, list(stale), bg, tag

    def line(self):
        return "ma.decode %s %s %d %d %s %d" % (fmt_list(self.ca), self.ma.hex() or "-", self.len, self.si4,
                                               fmt_list(self.stale), self.bg)


def ordered(ca):
    s = set(ca)
    return sorted(a for a in s if a != 0) + ([0] if 0 in s else [])


def bitmap_with(n_octets, positions):
    """value part of n octets with MA C i = 1 for the 0-based positions i-1 given"""
    b = bytearray(n_octets)
    for p in positions:
        if 0 <= p < 8 * n_octets:
            b[n_octets - 1 - p // 8] |= 1 << (p % 8)
    return bytes(b)


def cell_allocations(run, n_random):
    """(tag, ca) — sizes around every boundary, with/without ARFCN 0, dense/sparse, band edges, > 64"""
    rng = run.rng
    out = [("empty", []), ("only0", [0]), ("only1", [1]), ("only1023", [1023]), ("edges", [0, 1, 1023]),
           ("edges-no0", [1, 1022, 1023])]
    sizes = [1, 2, 3, 7, 8, 9, 15, 16, 17, 23, 24, 25, 31, 32, 33, 47, 48, 49, 55, 56, 57, 62, 63, 64]
    for k, n in enumerate(sizes):
        for zero in (False, True):
            # dense and sparse alternate so that every size has both shapes and both ARFCN-0 variants
            if (k + zero) % 2 == 0 or n in (8, 9, 63, 64):
                start = rng.randrange(1, 1024 - n)
                dense = list(range(start, start + n - (1 if zero else 0))) + ([0] if zero else [])
                out.append(("dense%d%s" % (n, "+0" if zero else ""), dense))
            if (k + zero) % 2 == 1 or n in (8, 9, 63, 64):
                sparse = rng.sample(range(1, 1024), n - (1 if zero else 0)) + ([0] if zero else [])
                out.append(("sparse%d%s" % (n, "+0" if zero else ""), sparse))
    # top of the band (the scan wraps from 1023 to 0)
    out.append(("top64", list(range(960, 1024))))
    out.append(("top63+0", list(range(961, 1024)) + [0]))
    # more than 64 entries: outside the property's quantifier, pins the behaviour down
    for n in (65, 66, 72, 80, 128, 500, 1023, 1024):
        for zero in (False, True):
            if n == 1024 and not zero:
                continue
            pool = rng.sample(range(1, 1024), min(n - (1 if zero else 0), 1023)) + ([0] if zero else [])
            out.append(("big%d%s" % (n, "+0" if zero else ""), pool))
    for _ in range(n_random):
        n = rng.choice([rng.randrange(0, 65), rng.randrange(0, 12), rng.randrange(56, 70)])
        out.append(("rand%d" % n, rng.sample(range(0, 1024), n) if rng.random() < 0.5
                    else rng.sample(range(1, 1024), n)))
    return out


def bitmaps(run, n_ca, ln, single_bits):
    """(tag, bytes) for a bitmap of ln octets against a cell allocation of n_ca channels"""
    rng = run.rng
    nb = 8 * ln
    out = []
    if ln == 0:
        return [("empty", b"")]
    out.append(("zero", bytes(ln)))
    out.append(("ones", b"\xff" * ln))
    out.append(("exact", bitmap_with(ln, range(min(n_ca, nb)))))           # exactly the cell allocation
    if n_ca < nb:
        out.append(("beyond1", bitmap_with(ln, [n_ca])))                    # only the bit just beyond
        out.append(("all+beyond", bitmap_with(ln, range(n_ca + 1))))
        out.append(("beyond-then-more", bitmap_with(ln, [0, n_ca] + list(range(n_ca + 1, nb)))))
        if n_ca + 1 < nb:
            out.append(("gap-beyond", bitmap_with(ln, list(range(0, n_ca, 2)) + [nb - 1])))
    if n_ca >= 1:
        out.append(("last-in", bitmap_with(ln, [min(n_ca, nb) - 1])))
        out.append(("first", bitmap_with(ln, [0])))
    out.append(("msb", bitmap_with(ln, [nb - 1])))
    out.append(("alt", bytes([0xaa] * ln)))
    out.append(("alt2", bytes([0x55] * ln)))
    out.append(("lsb-each", bytes([0x01] * ln)))
    out.append(("rand", bytes(rng.randrange(256) for _ in range(ln))))
    out.append(("sparse", bitmap_with(ln, rng.sample(range(nb), min(nb, 3)))))
    if single_bits:
        out += [("bit%d" % p, bitmap_with(ln, [p])) for p in range(nb)]
    return out


def make_cases(run, scale):
    rng = run.rng
    cases = []
    for ca_s, hx, ln, si4 in FIXED:
        cases.append(Case(parse_ca(ca_s), bytes.fromhex(hx) if hx != "-" else b"", ln, si4, tag="fixed"))
    cas = cell_allocations(run, 20 * scale)
    for idx, (tag, ca) in enumerate(cas):
        n = len(set(ca))
        for ln in range(0, 10):
            single = (idx % 7 == ln % 7) or tag in ("edges", "top63+0", "dense64", "sparse64+0", "dense9+0")
            for btag, bm in bitmaps(run, n, ln, single):
                si4 = int(rng.random() < 0.35)
                stale, bg = [], 0
                r = rng.random()
                if r < 0.25:
                    stale = rng.sample(range(0, 1024), rng.randrange(1, 6)) + (rng.sample(ca, min(len(ca), 2)) if ca else [])
                    bg = rng.choice([0, 0x1c, 0xfc, 0xe0])
                elif r < 0.35:
                    bg = rng.choice([0x04, 0xfc])
                cases.append(Case(ca, bm, ln, si4, stale, bg, tag="%s/len%d/%s" % (tag.rstrip("0123456789+"), ln, btag.rstrip("0123456789"))))
    # len beyond the IE maximum, up to the uint8_t maximum (no octet of `ma` may be looked at: ma is empty)
    for ln in (9, 10, 16, 31, 32, 33, 64, 127, 128, 255):
        for ca in ([], [1, 2, 3], list(range(1, 65)), list(range(0, 200))):
            cases.append(Case(ca, b"", ln, rng.randrange(2), tag="biglen"))
            cases.append(Case(ca, bytes(rng.randrange(256) for _ in range(ln)), ln, rng.randrange(2), tag="biglen"))
    # the ma object larger than len (the IE sits inside a longer message): octets beyond len are not part of the bitmap
    for _ in range(40 * scale):
        ln = rng.randrange(0, 9)
        ca = rng.sample(range(0, 1024), rng.randrange(0, 65))
        cases.append(Case(ca, bytes(rng.randrange(256) for _ in range(ln + rng.randrange(1, 4))), ln, rng.randrange(2), tag="ma-longer"))
    # random
    for _ in range(1500 * scale):
        ln = rng.choice([rng.randrange(0, 10), rng.randrange(0, 9), 8, 1, 0])
        n = rng.choice([rng.randrange(0, 65), min(64, max(0, 8 * ln + rng.randrange(-2, 3)))])
        ca = rng.sample(range(0, 1024), n) if rng.random() < 0.6 else rng.sample(range(1, 1024), n)
        dens = rng.choice([0.1, 0.5, 0.9])
        bm = bytes(sum((rng.random() < dens) << b for b in range(8)) for _ in range(ln))
        cases.append(Case(ca, bm, ln, rng.randrange(2), rng.sample(range(1024), rng.randrange(0, 4)) if rng.random() < 0.3 else [],
                          rng.choice([0, 0, 0x1c, 0xfc]), tag="random"))
    return cases


def exhaustive_cases():
    """thorough: every subset of a 6-ARFCN pool x len 0/1 x every bitmap, and len 2 x every bitmap for 4 allocations"""
    pool = [0, 1, 2, 3, 1022, 1023]
    subsets = [[pool[i] for i in range(6) if m >> i & 1] for m in range(64)]
    for s in subsets:
        yield Case(s, b"", 0, 1, tag="exh")
        for b in range(256):
            yield Case(s, bytes([b]), 1, b & 1, tag="exh")
    wide = list(range(1, 15)) + [0]
    for s in ([0, 5], pool, wide, list(range(100, 116))):
        for b in range(65536):
            yield Case(s, bytes([b >> 8, b & 255]), 2, (b >> 3) & 1, tag="exh")


# ----------------------------------------------------------------------------
# the standard, transcribed independently of the code and of the Lean files (TS 44.018 10.5.2.21)

def spec_select(ca, ma):
    """cell allocation list: increasing ARFCN, ARFCN 0 last; MA C i (i = 1..8n) selects the i-th
    entry; MA C i is bit ((i-1) mod 8) (LSB = 0) of value-part octet n-1-(i-1)//8"""
    cal = ordered(ca)
    n = len(ma)
    sel = []
    for i in range(1, 8 * n + 1):
        octet = ma[n - 1 - (i - 1) // 8]
        if (octet >> ((i - 1) % 8)) & 1:
            if i > len(cal):
                break            # a bit pointing beyond the cell allocation ends decoding
            sel.append(cal[i - 1])
    return sel


def parse_answer(a):
    """'rc hopp_len list | masks' -> (rc, hopp_len, [hopping...], masks-string) or None"""
    m = re.match(r"^(-?\d+) (\d+) (\S+) \| (\S+)$", a)
    if not m:
        return None
    hop = [] if m.group(3) == "-" else [int(x) for x in m.group(3).split(",")]
    return int(m.group(1)), int(m.group(2)), hop, m.group(4)


def judge(case, answer):
    """what the property demands of the real function's outputs; -> None or a description"""
    if answer == "NOT-RUN":
        return None
    if answer == "OOB":
        if case.len > 8 and len(case.ma) < case.len:
            return "bitmap of %d octets not rejected: the function went on to read it (sanitizer report; this request's ma object is shorter than len)" % case.len
        return "sanitizer report (access outside a buffer / undefined behaviour)"
    p = parse_answer(answer)
    if p is None:
        return "unparsable harness answer"
    rc, hl, hop, _ = p
    if case.len > 8:
        return None if rc < 0 else "bitmap of %d octets not rejected (rc=%d)" % (case.len, rc)
    if len(set(case.ca)) > 64:
        # the decoded list is judged for the cell allocations of the property's quantifier only
        # (an access outside a buffer is reported for every cell allocation, see above)
        return None
    want = spec_select(case.ca, case.ma[:case.len])
    if rc != 0:
        return "rc=%d for a bitmap of %d octets" % (rc, case.len)
    if hl > 64:
        return "hopp_len=%d > 64" % hl
    got = hop[:hl] + [65535] * (hl - len(hop))     # entries never written still hold the sentinel
    if any(a not in set(case.ca) for a in got):
        return "decoded list holds a channel outside the cell allocation"
    if got != want:
        return "decoded list differs from the selection of TS 44.018 10.5.2.21"
    return None


def witness_of(run, case, answer, what, report):
    w = {"kind": "ma-decode", "ca": sorted(set(case.ca)), "ca_size": len(set(case.ca)), "bitmap": case.ma.hex(),
         "len": case.len, "si4": case.si4, "request": case.line(), "impl": answer, "what": what}
    if case.len <= 8:
        w["spec"] = {"rc": 0, "hopping": spec_select(case.ca, case.ma[:case.len])}
    else:
        w["spec"] = {"rc": "< 0"}
    if answer == "OOB":
        try:
            a1, r1 = run_cases(build_harness(run), [case.line()], symbolize=True)
            w["sanitizer"] = r1.get(0, report or [])
        except vf.HarnessError:
            w["sanitizer"] = report or []
        # tell undefined behaviour without a memory error (zero-sized VLA) from an overrun ASan sees
        try:
            a2, r2 = run_cases(build_harness(run, "asan"), [case.line()], symbolize=True)
            w["asan_only"] = {"impl": a2[0], "sanitizer": r2.get(0, [])}
        except vf.HarnessError as e:
            w["asan_only"] = {"error": str(e)[-300:]}
    return w


# ----------------------------------------------------------------------------
# flow

def correspond(run, corr):
    exe = build_harness(run)
    h = vf.src_hash_c(os.path.join(vf.REPO, SYSINFO_C), [mobile_alloc.FUNC])
    run.drift["sysinfo.c:gsm48_decode_mobile_alloc"] = h
    drifted = h != MODEL_HASH
    if drifted:
        corr.notes.append("function text differs from the one the model was written against (%s != %s): case count x3" % (h, MODEL_HASH))
    scale = (6 if run.thorough else 1) * (3 if drifted else 1)
    cases = make_cases(run, min(scale, 12))
    if run.thorough:
        cases += list(exhaustive_cases())
        corr.exhaustive = True
    reqs = [c.line() for c in cases]
    impl, reports = run_cases(exe, reqs)
    model = run_driver_par(reqs)
    run.c20 = {"cases": cases, "impl": impl, "reports": reports}
    n_not_run = 0
    for i, (c, r, a, b) in enumerate(zip(cases, reqs, impl, model)):
        if a == "NOT-RUN":
            n_not_run += 1
            continue
        if a != b and len(corr.disagreements) < 50:
            d = {"request": r, "impl": a, "model": b}
            if a == "OOB":
                d["sanitizer"] = reports.get(i, [])
            corr.disagreements.append(d)
        corr.count(r, c.tag.split("/")[0] if c.tag != "random" else "random")
    # outcome classes and shape of the inputs
    for c, a in zip(cases, impl):
        k = "outcome:" + ("OOB" if a == "OOB" else "not-run" if a == "NOT-RUN" else "rc=%s" % a.split(" ")[0])
        corr.distribution[k] = corr.distribution.get(k, 0) + 1
        k = "len=%d" % c.len if c.len <= 9 else "len>9"
        corr.distribution[k] = corr.distribution.get(k, 0) + 1
        n = len(set(c.ca))
        k = "ca:" + ("0" if n == 0 else "1..63" if n < 64 else "64" if n == 64 else ">64") + ("+arfcn0" if 0 in c.ca else "")
        corr.distribution[k] = corr.distribution.get(k, 0) + 1
    # the Python oracle and the Lean Spec are two transcriptions of the same clause: compare them too
    sample = [c for c in cases if c.len <= 8 and len(c.ma) == c.len and c.tag != "exh"]
    sreqs = ["ma.spec %s %s" % (fmt_list(c.ca), c.ma.hex() or "-") for c in sample]
    smodel = run_driver_par(sreqs, 4000)
    spy = ["%s | %s" % (fmt_list(ordered(c.ca)), fmt_list(spec_select(c.ca, c.ma))) for c in sample]
    corr.compare(sreqs, spy, smodel)
    corr.distribution["spec: python oracle vs Lean Spec.select"] = len(sreqs)
    corr.rule = ("a case is a distinct request line (cell allocation, bitmap, len, si4, stale HOPP bits, background mask bits); "
                 "cell allocations of size 0..64 around every multiple of 8, with/without ARFCN 0, dense/sparse/band edges, and > 64 entries; "
                 "len 0..9 (+ up to 255); bitmaps: zero, all-ones, exactly the cell allocation, bit just beyond it, last bit inside, "
                 "single bits at every position, alternating, random; all non-trivial (each runs the real function under ASan+UBSan); "
                 "thorough adds every subset of a 6-ARFCN pool x every 1-octet bitmap and every 2-octet bitmap for 4 allocations")
    nt = [i for i, c in enumerate(cases) if c.len and c.ca][:3] + [i for i, c in enumerate(cases) if c.tag == "biglen"][:1]
    corr.samples = [{"request": reqs[i], "impl": impl[i], "model": model[i]} for i in nt]
    corr.samples.append({"request": sreqs[0], "impl": spy[0], "model": smodel[0]})
    # the decoded list on its way to L1 and to the simulator
    chain.correspond(run, corr)


def search(run, corr, deep):
    """property oracle on the real function: the standard's selection rule (Python transcription)
    against the real outputs, and `no sanitizer report`"""
    st = getattr(run, "c20", None)
    if st is None:
        # correspondence did not get as far as running the harness
        exe = build_harness(run)
        cases = make_cases(run, 1)
        impl, reports = run_cases(exe, [c.line() for c in cases])
        st = {"cases": cases, "impl": impl, "reports": reports}
    cases, impl, reports = list(st["cases"]), list(st["impl"]), dict(st["reports"])
    if deep and not run.thorough:
        more = make_cases(run, 3)
        a2, r2 = run_cases(build_harness(run), [c.line() for c in more])
        for k, v in r2.items():
            reports[len(cases) + k] = v
        cases += more
        impl += a2
    bad = []
    for i, (c, a) in enumerate(zip(cases, impl)):
        what = judge(c, a)
        if what:
            bad.append((i, c, a, what))
    corr.distribution["oracle: cases judged against TS 44.018 10.5.2.21"] = sum(1 for c, a in zip(cases, impl) if a != "NOT-RUN")
    corr.distribution["oracle: failing cases"] = len(bad)
    # smallest witness of every kind of failure first
    bad.sort(key=lambda t: (len(set(t[1].ca)), t[1].len, len(t[1].stale), t[1].bg, t[1].line()))
    found, seen = 0, {}
    for i, c, a, what in bad:
        k = what.split(" (")[0][:40]
        seen[k] = seen.get(k, 0) + 1
        # per kind: the smallest one, and the smallest one with a non-empty cell allocation
        if seen[k] > 1 and not (c.ca and not seen.get(k + "/nonempty")):
            continue
        if c.ca:
            seen[k + "/nonempty"] = 1
        w = witness_of(run, c, a, what, reports.get(i))
        w["failing_cases_of_this_kind"] = sum(1 for t in bad if t[3].split(" (")[0][:40] == k)
        found += run.report_witness(w)
        if found >= 6:
            break
    found += chain.oracle(run, corr, deep)
    return found


def replay(run, path):
    rp = json.load(open(path))
    exe = build_harness(run)
    bad = 0
    for v in rp.get("violations", []):
        w = v.get("witness")
        if not w:
            print("replay: no concrete input recorded (%s)" % json.dumps(v.get("broken"))[:400])
            continue
        if w.get("part") == "chain":
            still, text = chain.replay(run, w)
            print(text)
            bad += bool(still)
            continue
        c = Case(w["ca"], bytes.fromhex(w["bitmap"]), w["len"], w["si4"])
        toks = w["request"].split()
        if len(toks) == 7:
            c.stale = parse_ca(toks[5])
            c.bg = int(toks[6])
        ans, reps = run_cases(exe, [c.line()], symbolize=True)
        what = judge(c, ans[0])
        print("replay %s\n  impl: %s %s\n  spec: %s\n  -> %s" % (c.line(), ans[0], reps.get(0, ""), w.get("spec"), what or "ok"))
        bad += bool(what)
    if bad:
        print("VIOLATION property=C20 replay=%s" % path)
    return 1 if bad else 0
