-- This module serves as the root of the `OsmoVerif` library.
-- Import modules here that should be built as part of the library.
import OsmoVerif.Basic
