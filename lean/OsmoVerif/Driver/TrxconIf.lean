import OsmoVerif.Model.TrxconIf
import OsmoVerif.Driver.Util
/-! Line-protocol driver of `Model.TrxconIf`: the `tc.` verbs of harness/c/trxcon/trxcon_harness.c,
same answers. -/
namespace OsmoVerif.Driver.TrxconIf
open OsmoVerif.TrxconIf OsmoVerif.Driver OsmoVerif.Gen.Trxcon

def faultStr : Fault → String
  | .crash => "CRASH"
  | .uninit => "UNINIT"

def allOctets (xs : List Nat) : Bool := xs.all (· < 256)

def showRx : RxOut → String
  | .ret rc => s!"{rc} | -"
  | .ind bi rts =>
    let soft := hex (bi.burst.map fun s => (s % 256).toNat)
    s!"0 | ind {bi.tn} {bi.fn} {bi.rssi} {bi.toa256} {bi.burst.length} {soft} | rts {rts.fn} {rts.tn}"
  | .fault f => faultStr f

def showTx : TxOut → String
  | .sent rc d => s!"{rc} | {hex d}"
  | .fault f => faultStr f

def showEv : Event → String
  | .chg s => s!"S{s}"
  | .denied s => s!"D{s}"
  | .term c => s!"T{c}"
  | .timerSched a b => s!"ts{a}.{b}"
  | .timerDel => "td"

def showEvs (es : List Event) : String :=
  if es.isEmpty then "-" else " ".intercalate (es.map showEv)

def showSent (ds : List (List Nat)) : String :=
  if ds.isEmpty then "sent -" else "sent " ++ " ".intercalate (ds.map hex)

def b2n (b : Bool) : Nat := if b then 1 else 0

def showCmd : Except Fault (Int × Trx) → String
  | .error f => faultStr f
  | .ok (rc, t) =>
    let q := if t.queue.isEmpty then "q -" else
      "q " ++ " ".intercalate (t.queue.map fun m => s!"{m.critical}:{m.cmdLen}:{hex (cmdStrAt m 0)}")
    s!"{rc} | {q} | {showSent t.sent} | ev {showEvs t.ev} | st {t.state} {t.prevState} {b2n t.poweredUp}"

def showRsp (q0 : Nat) : Except Fault (Int × Trx) → String
  | .error f => faultStr f
  | .ok (rc, t) =>
    let terms := t.ev.any fun e => match e with | .term _ => true | _ => false
    let cls := if t.queue.length < q0 then "accepted" else if terms then "rejected" else "ignored"
    let rsp := match t.rsp with | some (a, d) => s!"rsp {a} {d}" | none => "-"
    s!"{rc} | {cls} | ev {showEvs t.ev} | st {t.state} {t.prevState} {b2n t.poweredUp} {t.queue.length} {b2n t.elog} | {rsp} | {showSent t.sent}"

def parseCmd : List String → Option PhyCmd
  | ["RESET"] => some .reset
  | ["POWERON"] => some .poweron
  | ["POWEROFF"] => some .poweroff
  | ["MEASURE", a] => do pure (.measure (← parseNat? a))
  | ["SETFREQ_H0", a] => do pure (.setfreqH0 (← parseNat? a))
  | "SETFREQ_H1" :: hsn :: maio :: maLen :: ma => do
      pure (.setfreqH1 (← parseNat? hsn) (← parseNat? maio) (← parseNat? maLen) ((← nats? ma).map u16))
  | ["SETSLOT", tn, pchan] => do pure (.setslot (← parseNat? tn) (← parseNat? pchan))
  | ["SETTA", ta] => do pure (.setta (← parseInt? ta))
  | ["RAW", ty] => do
      let ty ← parseNat? ty
      if ty ∈ cmdtValues then none else pure (.raw ty)
  | _ => none

/-- `tc.*` verbs -/
def handle : List String → Option String
  | ["tc.rxd", h] => do
      let d ← unhex? h
      pure (showRx (cRx d 2))
  | ["tc.rxd", h, adv] => do
      let d ← unhex? h
      let adv ← parseNat? adv
      pure (showRx (cRx d adv))
  | ["tc.txd", tn, fn, pwr, bl, bits] => do
      let v ← nats? [tn, fn, pwr, bl]
      let bits ← unhex? bits
      match v with
      | [tn, fn, pwr, bl] => pure (showTx (cTx ⟨tn, fn, pwr, bits, bl⟩))
      | _ => none
  | "tc.cmd" :: rest => do
      let c ← parseCmd rest
      pure (showCmd (cPhyCmd { state := stIdle, prevState := stOffline } c))
  | ["tc.rsp", pend, crit, dg] => do
      let crit ← parseInt? crit
      let d ← unhex? dg
      let cmds ← if pend = "-" then some [] else (pend.splitOn ",").mapM unhex?
      if cmds.any (fun c => c.length > cmdSize - 1) then none
      let q : List CtrlMsg := cmds.map fun c => { cmd := c, critical := crit, cmdLen := 0 }
      pure (showRsp q.length (cReadCb { queue := q, state := stRspWait, prevState := stIdle } d))
  | _ => none

end OsmoVerif.Driver.TrxconIf
