/-
Line protocol over `OsmoVerif.Model.TrxdIf` (verbs `trxdif.*`); the same lines are answered by
harness/py/trxd_harness.py from the real DATAInterface / TxMsg / RxMsg.  Text encoding of messages and
octets as in Driver/Trxd.lean.
  trxdif.hist <op> ...        a history on ONE DATAInterface object (built by the real __init__)
        V <ver>               set_hdr_ver(ver)                       -> s True | s False
        T <octets>            the datagram arrives, recv_tx_msg()     -> t None | t <TxMsg> | E <exception>
        R <octets>            the datagram arrives, recv_rx_msg()     -> r None | r <RxMsg> | E <exception>
      answer: ok <a_1> ; ... ; <a_n> | <_hdr_ver at the end>
  trxdif.parses <item> ...    a sequence of parses in one interpreter, each into a FRESH message object
        T <octets>            TxMsg().parse_msg(octets)              -> T <TxMsg> | E <exception>
        R <octets>            RxMsg().parse_msg(bytearray(octets))   -> R <RxMsg> | E <exception>
      answer: ok <a_1> ; ... ; <a_n>
-/
import OsmoVerif.Model.TrxdIf
import OsmoVerif.Driver.Trxd
namespace OsmoVerif.Driver.TrxdIf
open OsmoVerif.Trxd OsmoVerif.TrxdIf OsmoVerif.Driver OsmoVerif.Driver.Trxd

def ops? : List String → Option (List Op)
  | [] => some []
  | "V" :: v :: r => do let v ← parseInt? v; let o ← ops? r; pure (.setVer v :: o)
  | "T" :: b :: r => do let b ← bytes? b; let o ← ops? r; pure (.recvTx b :: o)
  | "R" :: b :: r => do let b ← bytes? b; let o ← ops? r; pure (.recvRx b :: o)
  | _ => none

def showRecv (tag : String) (f : α → String) : Except Exc (Option α) → String
  | .ok none => tag ++ " None"
  | .ok (some m) => tag ++ " " ++ f m
  | .error e => "E " ++ e.pyName

def showAns : Ans → String
  | .set ok => if ok then "s True" else "s False"
  | .tx r => showRecv "t" showTx r
  | .rx r => showRecv "r" showRx r

def showHist (r : List Ans × DataIf) : String :=
  "ok " ++ " ; ".intercalate (r.1.map showAns) ++ " | " ++ toString r.2.hdrVer

inductive Item
  | tx (b : List Nat)
  | rx (b : List Nat)

def items? : List String → Option (List Item)
  | [] => some []
  | "T" :: b :: r => do let b ← bytes? b; let o ← items? r; pure (.tx b :: o)
  | "R" :: b :: r => do let b ← bytes? b; let o ← items? r; pure (.rx b :: o)
  | _ => none

def showItem : Item → String
  | .tx b => match TxMsg.parseMsg b with
    | .ok m => "T " ++ showTx m
    | .error e => "E " ++ e.pyName
  | .rx b => match RxMsg.parseMsg b with
    | .ok m => "R " ++ showRx m
    | .error e => "E " ++ e.pyName

/-- `trxdif.*` verbs -/
def handle : List String → Option String
  | "trxdif.hist" :: ops => do
    let ops ← ops? ops
    pure (showHist (runIf DataIf.init ops))
  | "trxdif.parses" :: items => do
    let items ← items? items
    pure ("ok " ++ " ; ".intercalate (items.map showItem))
  | _ => none

end OsmoVerif.Driver.TrxdIf
