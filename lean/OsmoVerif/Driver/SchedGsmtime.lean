import OsmoVerif.Model.SchedGsmtime
import OsmoVerif.Driver.TdmaSched
/-
`sg.run CUR op ; op ; ...` — one line is a whole history on the state after `sched_gsmtime_init()` and a
zero-initialised `l1s.tdma_sched` with `cur_bucket = CUR`.  Ops:
  gs FN P3 <elem>...     sched_gsmtime(si, FN, P3); si = the item set given by the elements
                         (`i CB P1 P2 PRIO FLAGS` | `F` | `E`, at least one `E`, as in `ts.run … set`)   -> r<rc>
  gx FN                  sched_gsmtime_execute(FN)    -> g<rc>[:off,p3,rc,<set>]...
                         (the tdma_schedule_set calls it makes, in order: frame_offset, p3, result, and the item
                         set passed: elements up to and including the first END_SET, joined with `/`, an item as
                         `i<cb>.<p1>.<p2>.<p3>.<prio>.<flags>`)
  gz                     sched_gsmtime_reset()        -> z
  sched … | set … | exec | adv | reset | flags | dump        the TDMA scheduler ops of `ts.run`, same answers
Same protocol as harness/c/c08_gsmtime_harness.c.  Parsing/rendering of the TDMA ops is the one of
Driver/TdmaSched.lean (`parseCmd?`, `parseSet?`, `renderCall`, `harnessRet`, `faultName`, `splitAt`); the callbacks of
this harness make no scheduler calls from inside (`scripts = []`; a `def` request is refused).
-/
namespace OsmoVerif.Driver.SchedGsmtime
open OsmoVerif OsmoVerif.SchedGsmtime OsmoVerif.Driver
open OsmoVerif.TdmaSched (Item Sched Fault Env flagScan dump)
open OsmoVerif.Driver.TdmaSched (parseCmd? parseSet? renderCall harnessRet faultName splitAt)

/-- the environment of harness/c/c08_gsmtime_harness.c: the fixed callback table, no calls from inside -/
def harnessEnv : Env := ⟨harnessRet, []⟩

inductive GCmd where
  | g (op : SOp)
  | t (c : Driver.TdmaSched.Cmd)

def parseGCmd? : List String → Option GCmd
  | "gs" :: fn :: p3 :: elems => do
      let fn ← parseNat? fn; let p3 ← parseNat? p3
      let items ← parseSet? elems
      if elems.contains "E" then pure (.g (.gsched items fn p3)) else none
  | ["gx", fn] => do
      let fn ← parseNat? fn
      pure (.g (.gexec fn))
  | ["gz"] => some (.g .greset)
  | toks => do
      match ← parseCmd? toks with
      | .defScript .. => none
      | c => pure (.t c)

def renderElem (it : Item) : String :=
  match it.cb with
  | .null => "F"
  | .endSet => "E"
  | .fn id => "i" ++ ".".intercalate [toString id, toString it.p1, toString it.p2, toString it.p3,
      toString it.prio, toString it.flags]

/-- the elements up to and including the first END_SET -/
def uptoEnd : List Item → List Item
  | [] => []
  | it :: rest => if it.cb = .endSet then [it] else it :: uptoEnd rest

def renderCallG (c : Call) : String :=
  ":" ++ ",".intercalate [toString c.off, toString c.p3, toString c.rc,
    "/".intercalate ((uptoEnd c.si).map renderElem)]

def runGCmds (env : Env) : Sys → List GCmd → List String → Except Fault (List String)
  | _, [], acc => .ok acc.reverse
  | st, .t .flags :: rest, acc => do
      let f ← flagScan st.s
      runGCmds env st rest (("f" ++ toString f) :: acc)
  | st, .t .dump :: rest, acc => do
      let d ← dump st.s
      runGCmds env st rest (("d" ++ ",".intercalate (d.map toString)) :: acc)
  | st, .t (.op o) :: rest, acc => do
      let (st', out) ← sstep env st (.tdma o)
      let tok := match o with
        | .schedule .. => "r" ++ toString out.rc
        | .scheduleSet .. => "r" ++ toString out.rc
        | .advance => "a"
        | .reset => "z"
        | .execute => "x" ++ toString out.rc ++ String.join (out.ran.map (fun it => renderCall env (it, [])))
      runGCmds env st' rest (tok :: acc)
  | _, .t (.defScript ..) :: _, _ => .error .oob      -- not reached: refused by `parseGCmd?`
  | st, .g o :: rest, acc => do
      let (st', out) ← sstep env st o
      let tok := match o with
        | .gsched .. => "r" ++ toString out.rc
        | .gexec .. => "g" ++ toString out.rc ++ String.join (out.calls.map renderCallG)
        | .greset => "z"
        | .tdma .. => "?"
      runGCmds env st' rest (tok :: acc)

/-- `sg.*` verbs -/
def handle : List String → Option String
  | "sg.run" :: cur :: toks => do
      let cur ← parseNat? cur
      if cur ≥ Gen.tdmaNumFrames then none
      let cmds ← (splitAt ";" toks).mapM parseGCmd?
      match runGCmds harnessEnv ⟨SchedGsmtime.init, OsmoVerif.TdmaSched.init cur⟩ cmds [] with
      | .ok out => pure (" ".intercalate out)
      | .error f => pure ("fault:" ++ faultName f)
  | _ => none

end OsmoVerif.Driver.SchedGsmtime
