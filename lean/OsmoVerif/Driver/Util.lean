/- Shared helpers for the line-protocol driver (no Mathlib). -/
namespace OsmoVerif.Driver

def parseNat? (s : String) : Option Nat := s.toNat?
def parseInt? (s : String) : Option Int := s.toInt?

def nats? (xs : List String) : Option (List Nat) := xs.mapM parseNat?
def ints? (xs : List String) : Option (List Int) := xs.mapM parseInt?

def joinNat (xs : List Nat) : String := " ".intercalate (xs.map toString)
def joinInt (xs : List Int) : String := " ".intercalate (xs.map toString)

/-- hex string ("" allowed) -> octets -/
def hexVal? (c : Char) : Option Nat :=
  if '0' ≤ c ∧ c ≤ '9' then some (c.toNat - '0'.toNat)
  else if 'a' ≤ c ∧ c ≤ 'f' then some (c.toNat - 'a'.toNat + 10)
  else if 'A' ≤ c ∧ c ≤ 'F' then some (c.toNat - 'A'.toNat + 10)
  else none

def unhex? (s : String) : Option (List Nat) :=
  let rec go : List Char → List Nat → Option (List Nat)
    | [], acc => some acc.reverse
    | [_], _ => none
    | a :: b :: rest, acc =>
      match hexVal? a, hexVal? b with
      | some x, some y => go rest ((16 * x + y) :: acc)
      | _, _ => none
  if s = "-" then some [] else go s.toList []

def hexDigit (n : Nat) : Char :=
  if n < 10 then Char.ofNat ('0'.toNat + n) else Char.ofNat ('a'.toNat + n - 10)

def hex (xs : List Nat) : String :=
  if xs.isEmpty then "-" else
  String.ofList (xs.flatMap fun b => [hexDigit (b / 16 % 16), hexDigit (b % 16)])

end OsmoVerif.Driver
