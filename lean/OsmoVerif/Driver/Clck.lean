import OsmoVerif.Model.Clck
import OsmoVerif.Driver.Util
namespace OsmoVerif.Driver.Clck
open OsmoVerif.Clck OsmoVerif.Driver

/-- `-` = empty list, else comma separated naturals -/
def csv? (s : String) : Option (List Nat) :=
  if s = "-" then some [] else (s.splitOn ",").mapM parseNat?

def renderEvent : Event → String
  | .wait dt t => s!"W{dt}:{t}"
  | .send l t p => s!"S{l}:{t}:{hex p}"
  | .handler fn t => s!"H{fn}:{t}"
  | .exit dt t => s!"X{dt}:{t}"
  | .exc tag t => s!"E{tag}:{t}"

def renderEvents (es : List Event) : String := " ".intercalate (es.map renderEvent)

def renderObj (o : Obj) : String :=
  let t := if o.thread then "T1" else "T0"
  match o.src with
  | some s => s!"{t} C{s}"
  | none => s!"{t} C-"

def renderOut : Out → String
  | .ran ticks e => renderEvents (events (ticks, e))
  | .assertionError => "EXC AssertionError"
  | .ok => "ok"

def op? (s : String) : Option Op :=
  match s.splitOn ":" with
  | ["start", ds] => do let ds ← csv? ds; pure (.start ds)
  | ["stop"] => some .stop
  | ["idle", n] => do let n ← parseNat? n; pure (.idle n)
  | ["setstart", n] => do let n ← parseNat? n; pure (.setStart n)
  | _ => none

def bool? : String → Option Bool
  | "0" => some false
  | "1" => some true
  | _ => none

/-- outcome of each operation followed by the object state after it -/
def runOps (c : Cfg) : Obj → List Op → List String
  | _, [] => []
  | o, op :: ops =>
    let r := step c o op
    (renderOut r.2 ++ " " ++ renderObj r.1) :: runOps c r.1 ops

/-- `k+id` / `k-id` -/
def change? (s : String) : Option (Nat × Bool × Nat) :=
  match s.splitOn "+" with
  | [k, i] => do let k ← parseNat? k; let i ← parseNat? i; pure (k, true, i)
  | _ =>
    match s.splitOn "-" with
    | [k, i] => do let k ← parseNat? k; let i ← parseNat? i; pure (k, false, i)
    | _ => none

/-- `list.append(x)` / `if x in list: list.remove(x)` -/
def applyChange (ls : List Nat) (ch : Nat × Bool × Nat) : List Nat :=
  if ch.2.1 then ls ++ [ch.2.2] else ls.erase ch.2.2

/-- the content of `clck_links` at each tick: the changes scheduled for the wait before tick `k` are applied, in order -/
def linkScript (chs : List (Nat × Bool × Nat)) : Nat → List Nat → List Nat → List (Nat × List Nat)
  | _, _, [] => []
  | k, ls, d :: ds =>
    let ls' := (chs.filter fun ch => ch.1 == k).foldl applyChange ls
    (d, ls') :: linkScript chs (k + 1) ls' ds

/-- `clck.*` verbs; the tick period is the one measured on the current tree -/
def handle : List String → Option String
  | ["clck.run", t0, start, period, h, links, ds] => do
      let t0 ← parseNat? t0; let start ← parseNat? start; let period ← parseNat? period
      let h ← bool? h; let links ← csv? links; let ds ← csv? ds
      let c : Cfg := { tTick := Gen.tTickNs, period := period, links := links, handler := h }
      let r := step c (Obj.init start (t0 : Int)) (.start ds)
      pure (renderOut r.2 ++ " " ++ renderObj r.1)
  | ["clck.links", t0, start, period, h, links, ds, chs] => do
      let t0 ← parseNat? t0; let start ← parseNat? start; let period ← parseNat? period
      let h ← bool? h; let links ← csv? links; let ds ← csv? ds
      let chs ← if chs = "-" then some [] else (chs.splitOn ",").mapM change?
      let c : Cfg := { tTick := Gen.tTickNs, period := period, links := links, handler := h }
      let r := workerL c start (t0 : Int) (linkScript chs 0 links ds)
      let o : Obj := { thread := true, src := some r.2.src, start := start, now := r.2.time }
      pure (renderEvents (events r) ++ " " ++ renderObj o)
  | ["clck.hist", t0, start, period, h, links, ops] => do
      let t0 ← parseNat? t0; let start ← parseNat? start; let period ← parseNat? period
      let h ← bool? h; let links ← csv? links
      let ops ← (ops.splitOn ";").mapM op?
      let c : Cfg := { tTick := Gen.tTickNs, period := period, links := links, handler := h }
      pure (" | ".intercalate (runOps c (Obj.init start (t0 : Int)) ops))
  | _ => none

end OsmoVerif.Driver.Clck
