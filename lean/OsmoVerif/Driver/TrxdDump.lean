/-
Line protocol over `OsmoVerif.Model.TrxdDump` (verbs `dump.*`); the same lines are answered by
harness/py/trxd_harness.py from the real DATADumpFile on an io.BytesIO.  Text encoding of messages and
octets as in Driver/Trxd.lean; a message list is a sequence of `T <TxMsg>` / `R <RxMsg>` groups.
  dump.write <msgs>                       -> ok <file octets> | <exception>   (append_all on an empty file)
  dump.parseall <skip|-> <count|-> <octets>  -> ok False | ok <n> <msgs> | <exception>
  dump.parsemsg <idx> <octets>            -> ok None | ok False | ok <msg> | <exception>
  dump.cutscan <skip|-> <count|-> <octets>   -> ok <a_0> ... <a_len>: for every cut offset c the answer of
        parse_all(skip, count) on the first c octets: `F` (False) or the number n of messages returned, with
        `!` appended if they are not the first n messages returned from the uncut file
  dump.hist <mode> <octets> <op> ...       -> ok <a_1> ; ... ; <a_n> | <file octets>
        a history on ONE DATADumpFile object that starts on the given content; mode (b = io.BytesIO, w = a
        file object opened "w+b", p = a path, the class opens it "a+b") only tells the harness how to make
        the object - the model has one kind of file.  Operations:
          A <T|R msg>            append_msg            -> D | E <exception>
          L <n> <n msgs>         append_all            -> D | E <exception>
          M <idx>                parse_msg             -> m None | m False | m <msg>
          P <skip|-> <count|->   parse_all             -> a False | a <n> <msgs>
          X <n>                  crash: file cut at octet n and opened again -> X
        the file octets are `?` if an exception left a read method (the run stops there)
-/
import OsmoVerif.Model.TrxdDump
import OsmoVerif.Model.TrxdDumpHist
import OsmoVerif.Driver.Trxd
namespace OsmoVerif.Driver.TrxdDump
open OsmoVerif.Trxd OsmoVerif.TrxdDump OsmoVerif.Driver OsmoVerif.Driver.Trxd

def msgs? : List String → Option (List Msg)
  | [] => some []
  | "T" :: a :: b :: c :: d :: e :: rest => do
    let m ← tx? [a, b, c, d, e]
    let ms ← msgs? rest
    pure (.tx m :: ms)
  | "R" :: a :: b :: c :: d :: e :: f :: g :: h :: i :: j :: k :: rest => do
    let m ← rx? [a, b, c, d, e, f, g, h, i, j, k]
    let ms ← msgs? rest
    pure (.rx m :: ms)
  | _ => none

def showMsg : Msg → String
  | .tx m => "T " ++ showTx m
  | .rx m => "R " ++ showRx m

def showMsgs (ms : List Msg) : String :=
  " ".intercalate (toString ms.length :: ms.map showMsg)

def optNat? (s : String) : Option (Option Nat) :=
  if s = "-" then some none else (parseNat? s).map some

def showAll : Option (List Msg) → String
  | none => "False"
  | some ms => showMsgs ms

def showRes : Res → String
  | .none => "None"
  | .false => "False"
  | .msg m => showMsg m

def isPrefixOf (a b : List Msg) : Bool := a == b.take a.length

def cutscan (data : List Nat) (skip count : Option Nat) : Except Exc String := do
  let (full, _) ← parseAll ⟨data, 0⟩ skip count
  let cell (c : Nat) : Except Exc String := do
    let (r, _) ← parseAll ⟨data.take c, 0⟩ skip count
    match r with
    | none => pure "F"
    | some ms =>
      let okp := match full with
        | some fm => isPrefixOf ms fm
        | none => false
      pure (toString ms.length ++ (if okp then "" else "!"))
  let cells ← (List.range (data.length + 1)).mapM cell
  pure (" ".intercalate cells)

def takeMsg? : List String → Option (Msg × List String)
  | "T" :: a :: b :: c :: d :: e :: rest => do
    let m ← tx? [a, b, c, d, e]
    pure (.tx m, rest)
  | "R" :: a :: b :: c :: d :: e :: f :: g :: h :: i :: j :: k :: rest => do
    let m ← rx? [a, b, c, d, e, f, g, h, i, j, k]
    pure (.rx m, rest)
  | _ => none

def takeMsgs? : Nat → List String → Option (List Msg × List String)
  | 0, r => some ([], r)
  | n + 1, r => do
    let (m, r) ← takeMsg? r
    let (ms, r) ← takeMsgs? n r
    pure (m :: ms, r)

/-- the operations of a history (`fuel` = number of tokens) -/
def ops? : Nat → List String → Option (List Op)
  | _, [] => some []
  | 0, _ => none
  | fuel + 1, "A" :: r => do
    let (m, r) ← takeMsg? r
    let o ← ops? fuel r
    pure (.appendMsg m :: o)
  | fuel + 1, "L" :: n :: r => do
    let n ← parseNat? n
    let (ms, r) ← takeMsgs? n r
    let o ← ops? fuel r
    pure (.appendAll ms :: o)
  | fuel + 1, "M" :: i :: r => do
    let i ← parseNat? i
    let o ← ops? fuel r
    pure (.parseMsg i :: o)
  | fuel + 1, "P" :: s :: c :: r => do
    let s ← optNat? s; let c ← optNat? c
    let o ← ops? fuel r
    pure (.parseAll s c :: o)
  | fuel + 1, "X" :: n :: r => do
    let n ← parseNat? n
    let o ← ops? fuel r
    pure (.truncate n :: o)
  | _, _ => none

def showAns : Ans → String
  | .done => "D"
  | .raised e => "E " ++ e.pyName
  | .res r => "m " ++ showRes r
  | .all r => "a " ++ showAll r
  | .cut => "X"

def showHist (r : List Ans × Option File) : String :=
  " ; ".intercalate (r.1.map showAns) ++ " | " ++
    (match r.2 with
     | some f => showBytes f.data
     | none => "?")

/-- `dump.*` verbs -/
def handle : List String → Option String
  | "dump.write" :: ms => do
    let ms ← msgs? ms
    pure (outcome (fun f => showBytes f.data) (appendAll ⟨[], 0⟩ ms))
  | ["dump.parseall", skip, count, b] => do
    let skip ← optNat? skip; let count ← optNat? count; let b ← bytes? b
    pure (outcome (fun r => showAll r.1) (parseAll ⟨b, 0⟩ skip count))
  | ["dump.parsemsg", idx, b] => do
    let idx ← parseNat? idx; let b ← bytes? b
    pure (outcome (fun r => showRes r.1) (parseMsg ⟨b, 0⟩ idx))
  | "dump.hist" :: mode :: b :: ops => do
    if mode ≠ "b" ∧ mode ≠ "w" ∧ mode ≠ "p" then none
    let b ← bytes? b
    let ops ← ops? ops.length ops
    pure ("ok " ++ showHist (runHist ⟨b, 0⟩ ops))
  | ["dump.cutscan", skip, count, b] => do
    let skip ← optNat? skip; let count ← optNat? count; let b ← bytes? b
    pure (outcome id (cutscan b skip count))
  | _ => none

end OsmoVerif.Driver.TrxdDump
