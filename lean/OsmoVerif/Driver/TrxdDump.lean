/-
Line protocol over `OsmoVerif.Model.TrxdDump` (verbs `dump.*`); the same lines are answered by
harness/py/trxd_harness.py from the real DATADumpFile on an io.BytesIO.  Text encoding of messages and
octets as in Driver/Trxd.lean; a message list is a sequence of `T <TxMsg>` / `R <RxMsg>` groups.
  dump.write <msgs>                       -> ok <file octets> | <exception>   (append_all on an empty file)
  dump.parseall <skip|-> <count|-> <octets>  -> ok False | ok <n> <msgs> | <exception>
  dump.parsemsg <idx> <octets>            -> ok None | ok False | ok <msg> | <exception>
  dump.cutscan <skip|-> <count|-> <octets>   -> ok <a_0> ... <a_len>: for every cut offset c the answer of
        parse_all(skip, count) on the first c octets: `F` (False) or the number n of messages returned, with
        `!` appended if they are not the first n messages returned from the uncut file
-/
import OsmoVerif.Model.TrxdDump
import OsmoVerif.Driver.Trxd
namespace OsmoVerif.Driver.TrxdDump
open OsmoVerif.Trxd OsmoVerif.TrxdDump OsmoVerif.Driver OsmoVerif.Driver.Trxd

def msgs? : List String → Option (List Msg)
  | [] => some []
  | "T" :: a :: b :: c :: d :: e :: rest => do
    let m ← tx? [a, b, c, d, e]
    let ms ← msgs? rest
    pure (.tx m :: ms)
  | "R" :: a :: b :: c :: d :: e :: f :: g :: h :: i :: j :: k :: rest => do
    let m ← rx? [a, b, c, d, e, f, g, h, i, j, k]
    let ms ← msgs? rest
    pure (.rx m :: ms)
  | _ => none

def showMsg : Msg → String
  | .tx m => "T " ++ showTx m
  | .rx m => "R " ++ showRx m

def showMsgs (ms : List Msg) : String :=
  " ".intercalate (toString ms.length :: ms.map showMsg)

def optNat? (s : String) : Option (Option Nat) :=
  if s = "-" then some none else (parseNat? s).map some

def showAll : Option (List Msg) → String
  | none => "False"
  | some ms => showMsgs ms

def showRes : Res → String
  | .none => "None"
  | .false => "False"
  | .msg m => showMsg m

def isPrefixOf (a b : List Msg) : Bool := a == b.take a.length

def cutscan (data : List Nat) (skip count : Option Nat) : Except Exc String := do
  let (full, _) ← parseAll ⟨data, 0⟩ skip count
  let cell (c : Nat) : Except Exc String := do
    let (r, _) ← parseAll ⟨data.take c, 0⟩ skip count
    match r with
    | none => pure "F"
    | some ms =>
      let okp := match full with
        | some fm => isPrefixOf ms fm
        | none => false
      pure (toString ms.length ++ (if okp then "" else "!"))
  let cells ← (List.range (data.length + 1)).mapM cell
  pure (" ".intercalate cells)

/-- `dump.*` verbs -/
def handle : List String → Option String
  | "dump.write" :: ms => do
    let ms ← msgs? ms
    pure (outcome (fun f => showBytes f.data) (appendAll ⟨[], 0⟩ ms))
  | ["dump.parseall", skip, count, b] => do
    let skip ← optNat? skip; let count ← optNat? count; let b ← bytes? b
    pure (outcome (fun r => showAll r.1) (parseAll ⟨b, 0⟩ skip count))
  | ["dump.parsemsg", idx, b] => do
    let idx ← parseNat? idx; let b ← bytes? b
    pure (outcome (fun r => showRes r.1) (parseMsg ⟨b, 0⟩ idx))
  | ["dump.cutscan", skip, count, b] => do
    let skip ← optNat? skip; let count ← optNat? count; let b ← bytes? b
    pure (outcome id (cutscan b skip count))
  | _ => none

end OsmoVerif.Driver.TrxdDump
