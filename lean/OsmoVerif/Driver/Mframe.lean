import OsmoVerif.Model.Mframe
import OsmoVerif.Driver.Util
namespace OsmoVerif.Driver.Mframe
open OsmoVerif.Mframe OsmoVerif.Driver OsmoVerif.Gen

def crashName : FwCrash → String
  | .taskOutOfRange => "crash:task-out-of-range"
  | .nullTable => "crash:null-table"
  | .divByZero => "crash:div-by-zero"

def lookupErrName : LookupErr → String
  | .divByZero => "crash:period-zero"
  | .nullFrames => "crash:null-frames"
  | .outOfTable => "crash:out-of-table"

def renderEvent (fn : Nat) (e : Event) : String :=
  s!"{fn}:{e.frameOffset}:{e.set.name}:{e.p3}"

/-- events of `mframe_schedule()` for `n` consecutive ticks starting at `fn0` -/
def fwRange (tasks fn0 n : Nat) : String :=
  let rec go (k : Nat) (fn : Nat) (acc : List String) : Except FwCrash (List String) :=
    match k with
    | 0 => .ok acc.reverse
    | k + 1 =>
      match mframeSchedule tasks fn with
      | .error e => .error e
      | .ok evs => go k (fn + 1) ((evs.map (renderEvent fn)).reverse ++ acc)
  match go n fn0 [] with
  | .error e => crashName e
  | .ok [] => "-"
  | .ok xs => " ".intercalate xs

def renderFrame (f : TrxconMframe.Frame) : String :=
  s!"{f.dlChan.val}.{f.dlBid}/{f.ulChan.val}.{f.ulBid}"

def framesRange (L : TrxconMframe.Layout) (fn0 n : Nat) : String :=
  let rec go (k : Nat) (fn : Nat) (acc : List String) : Except LookupErr (List String) :=
    match k with
    | 0 => .ok acc.reverse
    | k + 1 =>
      match lookup L fn with
      | .error e => .error e
      | .ok f => go k (fn + 1) (renderFrame f :: acc)
  match go n fn0 [] with
  | .error e => lookupErrName e
  | .ok xs => " ".intercalate xs

/-- `mf.*` verbs -/
def handle : List String → Option String
  | ["mf.fw", tasks, fn0, n] => do
      let v ← nats? [tasks, fn0, n]
      match v with
      | [tasks, fn0, n] => pure (fwRange tasks fn0 n)
      | _ => none
  | ["mf.layout", cfg, tn] => do
      let cfg ← parseNat? cfg; let tn ← parseNat? tn
      match layoutForVal cfg tn with
      | none => pure "none"
      | some L => pure s!"{L.config.val} {L.period} {L.slotmask} {L.lchanMask} {if L.frames.isSome then 1 else 0}"
  | ["mf.frames", cfg, tn, fn0, n] => do
      let v ← nats? [cfg, tn, fn0, n]
      match v with
      | [cfg, tn, fn0, n] =>
        match layoutForVal cfg tn with
        | none => pure "none"
        | some L => pure (framesRange L fn0 n)
      | _ => none
  | _ => none

end OsmoVerif.Driver.Mframe
