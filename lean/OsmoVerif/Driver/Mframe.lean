import OsmoVerif.Model.Mframe
import OsmoVerif.Driver.Util
namespace OsmoVerif.Driver.Mframe
open OsmoVerif.Mframe OsmoVerif.Driver OsmoVerif.Gen

def crashName : FwCrash → String
  | .taskOutOfRange => "crash:task-out-of-range"
  | .nullTable => "crash:null-table"
  | .divByZero => "crash:div-by-zero"
  | .shiftOutOfRange => "crash:shift-out-of-range"

def lookupErrName : LookupErr → String
  | .divByZero => "crash:period-zero"
  | .nullFrames => "crash:null-frames"
  | .outOfTable => "crash:out-of-table"

def renderEvent (fn : Nat) (e : Event) : String :=
  s!"{fn}:{e.frameOffset}:{e.set.name}:{e.p3}"

/-- events of `mframe_schedule()` for `n` consecutive ticks starting at `fn0` -/
def fwRange (tasks fn0 n : Nat) : String :=
  let rec go (k : Nat) (fn : Nat) (acc : List String) : Except FwCrash (List String) :=
    match k with
    | 0 => .ok acc.reverse
    | k + 1 =>
      match mframeSchedule tasks fn with
      | .error e => .error e
      | .ok evs => go k (fn + 1) ((evs.map (renderEvent fn)).reverse ++ acc)
  match go n fn0 [] with
  | .error e => crashName e
  | .ok [] => "-"
  | .ok xs => " ".intercalate xs

def renderFrame (f : TrxconMframe.Frame) : String :=
  s!"{f.dlChan.val}.{f.dlBid}/{f.ulChan.val}.{f.ulBid}"

def framesRange (L : TrxconMframe.Layout) (fn0 n : Nat) : String :=
  let rec go (k : Nat) (fn : Nat) (acc : List String) : Except LookupErr (List String) :=
    match k with
    | 0 => .ok acc.reverse
    | k + 1 =>
      match lookup L fn with
      | .error e => .error e
      | .ok f => go k (fn + 1) (renderFrame f :: acc)
  match go n fn0 [] with
  | .error e => lookupErrName e
  | .ok xs => " ".intercalate xs

/-! ### `mf.run`: the scheduler state machine -/

inductive RunOp where
  | reset | print | set (mask : Nat) | enable (id : Nat) | disable (id : Nat) | ticks (fn0 n : Nat)

def parseRunOp (s : String) : Option RunOp :=
  match s.toList with
  | ['r'] => some .reset
  | ['p'] => some .print
  | 's' :: r => (String.ofList r).toNat?.map .set
  | 'e' :: r => (String.ofList r).toNat?.map .enable
  | 'd' :: r => (String.ofList r).toNat?.map .disable
  | 't' :: r =>
    match (String.ofList r).splitOn "," with
    | [a, b] => do
      let a ← a.toNat?
      let b ← b.toNat?
      pure (.ticks a b)
    | _ => none
  | _ => none

def renderState (s : MfState) : String := s!"{s.tasks},{s.tasksTgt},{s.safeFn}"

def rvOfList (rvs : List Int) : RvOf := fun st =>
  match FwMframe.SchedSet.all.idxOf? st with
  | some i => rvs.getD i 6
  | none => 6

def tickLoop (rv : RvOf) (fn0 : Nat) : Nat → Nat → MfState → List String → Except FwCrash (MfState × List String)
  | 0, _, s, acc => .ok (s, acc.reverse)
  | n + 1, k, s, acc =>
    let fn := u32 (fn0 + k)
    match mframeScheduleSt rv s fn with
    | .error e => .error e
    | .ok (evs, s') =>
      let ev := if evs.isEmpty then "-" else ",".intercalate (evs.map (renderEvent fn))
      tickLoop rv fn0 n (k + 1) s' (s!"{ev}@{s'.tasks}.{s'.safeFn}" :: acc)

def runStep (rv : RvOf) (s : MfState) : RunOp → Except FwCrash (MfState × String)
  | .reset => .ok (mframeReset, renderState mframeReset)
  | .print => .ok (s, renderState s)
  | .set m => let s' := mframeSet s m; .ok (s', renderState s')
  | .enable i => do let s' ← mframeEnable s i; pure (s', renderState s')
  | .disable i => do let s' ← mframeDisable s i; pure (s', renderState s')
  | .ticks fn0 n => do
    let (s', outs) ← tickLoop rv fn0 n 0 s []
    pure (s', if outs.isEmpty then "-" else " ".intercalate outs)

def runOps (rv : RvOf) : List RunOp → Nat → MfState → List String → String
  | [], _, _, acc => if acc.isEmpty then "-" else "|".intercalate acc.reverse
  | op :: rest, k, s, acc =>
    match runStep rv s op with
    | .error e => s!"{crashName e}@{k}"
    | .ok (s', out) => runOps rv rest (k + 1) s' (out :: acc)

/-- `mf.*` verbs -/
def handle : List String → Option String
  | ["mf.fw", tasks, fn0, n] => do
      let v ← nats? [tasks, fn0, n]
      match v with
      | [tasks, fn0, n] => pure (fwRange tasks fn0 n)
      | _ => none
  | "mf.run" :: rvs :: init :: ops => do
      let rvs ← ints? (rvs.splitOn ",")
      if rvs.length != FwMframe.SchedSet.all.length then none
      let st ← nats? (init.splitOn ",")
      let ops ← ops.mapM parseRunOp
      match st with
      | [t, g, sf] => pure (runOps (rvOfList rvs) ops 0 ⟨u32 t, u32 g, u32 sf⟩ [])
      | _ => none
  | ["mf.layout", cfg, tn] => do
      let cfg ← parseNat? cfg; let tn ← parseNat? tn
      match layoutForVal cfg tn with
      | none => pure "none"
      | some L => pure s!"{L.config.val} {L.period} {L.slotmask} {L.lchanMask} {if L.frames.isSome then 1 else 0}"
  | ["mf.frames", cfg, tn, fn0, n] => do
      let v ← nats? [cfg, tn, fn0, n]
      match v with
      | [cfg, tn, fn0, n] =>
        match layoutForVal cfg tn with
        | none => pure "none"
        | some L => pure (framesRange L fn0 n)
      | _ => none
  | _ => none

end OsmoVerif.Driver.Mframe
