/-
Line protocol over `OsmoVerif.Model.TrxdRand` (verbs `tr.*`: the message generators of data_msg.py).  The same lines
are answered by harness/py/trxd_rand_harness.py from the real TxMsg / RxMsg under the scripted random source.
Messages are encoded as in `Driver/Trxd.lean`.

  tr.tx OPS STREAM <TxMsg>     -> ok <TxMsg> | REST | NS      or   <Fail> | REST | NS
  tr.rx OPS STREAM <RxMsg>     -> ok <RxMsg> | REST | NS      or   <Fail> | REST | NS
  tr.val FUNC MIN MAX STREAM   -> ok V | REST | NS            or   <Fail> | REST | NS
    OPS    comma separated: `H` = rand_hdr(), `B` = rand_burst(), `B<int>` = rand_burst(<int>); applied in order to ONE object
    FUNC   fn | tn | pwr | rssi | toa;  MIN / MAX = integer or `-` (argument not given; fn and tn take none)
    STREAM the answers of `_randbelow`, comma separated naturals, `-` = empty
    REST   number of answers left unused;  NS = the n's asked in call order, run-length coded (`2x148`), `-` = none
    Fail   dry | ValueError | IndexError | AttributeError | OverflowError
-/
import OsmoVerif.Model.TrxdRand
import OsmoVerif.Driver.Trxd
namespace OsmoVerif.Driver.TrxdRand
open OsmoVerif.Trxd OsmoVerif.TrxdRand OsmoVerif.Driver

def stream? (s : String) : Option (List Nat) :=
  if s = "-" then some [] else (s.splitOn ",").mapM parseNat?

def op? (s : String) : Option Op :=
  if s = "H" then some .hdr
  else if s = "B" then some (.burst none)
  else if s.startsWith "B" then (parseInt? (s.drop 1).toString).map (fun l => .burst (some l))
  else none

def ops? (s : String) : Option (List Op) := (s.splitOn ",").mapM op?

/-- run-length coding of the n's asked -/
def showNs (log : List Draw) : String :=
  if log.isEmpty then "-" else
  ",".intercalate ((Trxd.runs (log.map (·.n))).map fun (n, c) =>
    if c = 1 then toString n else toString n ++ "x" ++ toString c)

def render {α : Type} (f : α → String) (r : Res α × Src) : String :=
  (match r.1 with
    | .ok v => "ok " ++ f v
    | .fail e => e.pyName) ++ " | " ++ toString r.2.stream.length ++ " | " ++ showNs r.2.log

def val? (f : String) (lo hi : Option Int) : Option (Rand Int) :=
  if f = "fn" then (if lo.isNone ∧ hi.isNone then some randFn else none)
  else if f = "tn" then (if lo.isNone ∧ hi.isNone then some randTn else none)
  else if f = "pwr" then some (randPwr lo hi)
  else if f = "rssi" then some (randRssi lo hi)
  else if f = "toa" then some (randToa256 lo hi)
  else none

def handle : List String → Option String
  | "tr.tx" :: ops :: st :: m => do
      let ops ← ops? ops; let st ← stream? st; let m ← Trxd.tx? m
      pure (render Trxd.showTx (m.randOps ops (Src.start st)))
  | "tr.rx" :: ops :: st :: m => do
      let ops ← ops? ops; let st ← stream? st; let m ← Trxd.rx? m
      pure (render Trxd.showRx (m.randOps ops (Src.start st)))
  | ["tr.val", f, lo, hi, st] => do
      let lo ← Trxd.optInt? lo; let hi ← Trxd.optInt? hi; let st ← stream? st
      let g ← val? f lo hi
      pure (render toString (g (Src.start st)))
  | _ => none

end OsmoVerif.Driver.TrxdRand
