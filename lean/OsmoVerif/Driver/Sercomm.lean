import OsmoVerif.Model.Sercomm
import OsmoVerif.Driver.Util
/-!
`sc.run OP …` / `sc.runt OP …`: a whole history on a fresh sercomm instance (host / target buffer
size), answered from `Model.Sercomm`; same protocol as harness/c/c06_harness.c:
  reg D | send D HEX | pull N | loop N | rx HEX
answer: chronological `p:<hex>` (octets pulled, merged), `c:<dlci>:<hex>`, `o`, `e`, `g:<rc>`;
`CRASH` when the model reaches a fault (queue index beyond the array, msgb_put without tailroom).
-/
namespace OsmoVerif.Driver.Sercomm
open OsmoVerif.Sercomm OsmoVerif.Driver OsmoVerif.Gen.Sercomm

structure DState where
  tab : HandlerTab
  w : World
  /-- return codes of `reg`, with the length of the trace at that moment (newest first) -/
  regs : List (Nat × Int)

def runOps (cap : Nat) : List String → DState → Option DState
  | [], s => some s
  | "reg" :: d :: rest, s => do
    let d ← parseNat? d
    if d > 255 then none
    let (tab, rc) := registerCb s.tab d .user
    runOps cap rest { s with tab := tab, regs := (s.w.trace.length, rc) :: s.regs }
  | "send" :: d :: h :: rest, s => do
    let d ← parseNat? d
    if d > 255 then none
    let p ← unhex? h
    runOps cap rest { s with w := World.step (s.tab.cfg cap) s.w (.send d p) }
  | "pull" :: n :: rest, s => do
    let n ← parseNat? n
    runOps cap rest { s with w := World.stepN (s.tab.cfg cap) .pull n s.w }
  | "loop" :: n :: rest, s => do
    let n ← parseNat? n
    runOps cap rest { s with w := World.stepN (s.tab.cfg cap) .loop n s.w }
  | "rx" :: h :: rest, s => do
    let p ← unhex? h
    runOps cap rest { s with w := World.step (s.tab.cfg cap) s.w (.rx p) }
  | _, _ => none

/-- render the chronological observations; `regs` = (position, rc) chronological -/
def render (obs : List Obs) (regs : List (Nat × Int)) : String :=
  let rec go (i : Nat) (obs : List Obs) (regs : List (Nat × Int)) (run : List Nat) (acc : List String) : List String :=
    let flush (acc : List String) : List String := if run.isEmpty then acc else ("p:" ++ hex run.reverse) :: acc
    match regs with
    | (pos, rc) :: regs' =>
      if pos = i then go i obs regs' [] (("g:" ++ toString rc) :: flush acc)
      else
        match obs with
        | [] => (flush acc)
        | .pulled c :: os => go (i + 1) os regs (c :: run) acc
        | .pullEmpty :: os => go (i + 1) os regs [] ("e" :: flush acc)
        | .ev (.deliver d p) :: os => go (i + 1) os regs [] (("c:" ++ toString d ++ ":" ++ hex p) :: flush acc)
        | .ev .overflow :: os => go (i + 1) os regs [] ("o" :: flush acc)
    | [] =>
      match obs with
      | [] => (flush acc)
      | .pulled c :: os => go (i + 1) os regs (c :: run) acc
      | .pullEmpty :: os => go (i + 1) os regs [] ("e" :: flush acc)
      | .ev (.deliver d p) :: os => go (i + 1) os regs [] (("c:" ++ toString d ++ ":" ++ hex p) :: flush acc)
      | .ev .overflow :: os => go (i + 1) os regs [] ("o" :: flush acc)
  let toks := (go 0 obs regs [] []).reverse
  if toks.isEmpty then "ok" else " ".intercalate toks

def runLine (cap : Nat) (toks : List String) : Option String := do
  let s ← runOps cap toks ⟨HandlerTab.init nRxHandlers, World.init nTxQueues, []⟩
  if s.w.fault || s.w.rx.abort then pure "CRASH"
  else pure (render s.w.obs s.regs.reverse)

/-- `sc.*` verbs -/
def handle : List String → Option String
  | "sc.run" :: toks => runLine (rxMsgSizeHost + allocSlack) toks
  | "sc.runt" :: toks => runLine (rxMsgSizeTarget + allocSlack) toks
  | _ => none

end OsmoVerif.Driver.Sercomm
