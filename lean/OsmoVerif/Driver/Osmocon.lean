import OsmoVerif.Model.Osmocon
import OsmoVerif.Driver.Util
/-!
`oc.run OP …`: one history on a fresh osmocon host side, answered from `Model.Osmocon`; same protocol as
harness/c/c06_osmocon_harness.c:
  reg D | hdlc B | send D LEN HEX | wr RC | in HEX | chunk K | eof | rd | srd
Where the model's outcome is undefined behaviour the answer ends with `UB:<tag>`.
-/
namespace OsmoVerif.Driver.Osmocon
open OsmoVerif.Sercomm OsmoVerif.Osmocon OsmoVerif.Driver OsmoVerif.Gen.Sercomm OsmoVerif.Gen.Osmocon
open OsmoVerif.SercommMsgb (CTx)

structure DState where
  tab : HandlerTab
  h : Host
  fd : Fd
  out : List String      -- newest first

def cfgOf (s : DState) : Cfg := s.tab.cfg (rxMsgSizeHost + allocSlack)

/-- the callbacks among the observations added since the trace had length `n` -/
def newCallbacks (w : World) (n : Nat) : List String :=
  ((w.trace.take (w.trace.length - n)).reverse.filterMap fun
    | .ev (.deliver d p) => some s!"c:{d}:{hex p}"
    | _ => none)

def b2n (b : Bool) : Nat := if b then 1 else 0

def readState (h : Host) : String :=
  s!"{h.bufptr}:{b2n h.expectHdlc}:{h.dnState}:{b2n h.writeOn}:{hex h.buffer}"

def bad (h : Host) : Bool := h.w.fault || h.w.rx.abort || h.oob

/-- `none`: malformed; `some (s, stop)`: `stop` = nothing more is printed -/
def runOps : List String → DState → Option (DState × Bool)
  | [], s => some (s, false)
  | "reg" :: d :: rest, s => do
    let d ← parseNat? d
    if d > 255 then none
    let (tab, rc) := registerCb s.tab d .user
    runOps rest { s with tab := tab, out := s!"g:{rc}" :: s.out }
  | "hdlc" :: b :: rest, s => do
    let b ← parseInt? b
    runOps rest { s with h := { s.h with expectHdlc := b ≠ 0 } }
  | "chunk" :: k :: rest, s => do
    let k ← parseNat? k
    runOps rest { s with fd := { s.fd with chunk := k } }
  | "eof" :: rest, s => runOps rest { s with fd := { s.fd with eof := true } }
  | "in" :: hx :: rest, s => do
    let p ← unhex? hx
    runOps rest { s with fd := { s.fd with avail := s.fd.avail ++ p } }
  | "send" :: d :: len :: hx :: rest, s => do
    let d ← parseNat? d
    if d > 255 then none
    let len ← parseInt? len
    -- `(int) b` of the harness
    let len := OsmoVerif.Msgb.toI32 (len % 4294967296).toNat
    let data ← unhex? hx
    -- the buffer arithmetic decides on real message buffers (a fresh transmitter of the same size)
    match hdlcSendToPhone (CTx.init s.h.w.tx.queues.length) d data len with
    | .tooMuch =>
      let depth := match s.h.w.tx.queues[d]? with | some q => q.length | none => 0
      runOps rest { s with out := s!"s:{depth}:0" :: s.out }
    | .fault (.msgb .abort) => some ({ s with out := "ABORT" :: s.out }, true)
    | .fault _ => some ({ s with out := "UB:send" :: s.out }, true)
    | .sent _ =>
      match sendmsg s.h.w.tx d (data.take len.toNat) with
      | none => some ({ s with out := "UB:send" :: s.out }, true)
      | some t =>
        let depth := match t.queues[d]? with | some q => q.length | none => 0
        runOps rest { s with h := { s.h with w := { s.h.w with tx := t }, writeOn := true },
                             out := s!"s:{depth}:1" :: s.out }
  | "wr" :: rc :: rest, s => do
    let script : List Nat → Int ← (if rc = "f" then some wrAll else do
      let k ← parseInt? rc
      if k < -1 then none
      some (fun b => if k < 0 then -1 else min k b.length))
    let o := handleSercommWrite s.h.w.tx script
    if o.fault then some ({ s with out := "UB:pull" :: s.out }, true)
    else
      let t := match o.rc with
        | none => s!"w:-:n:{b2n o.disabled}"
        | some r => s!"w:{hex o.offered}:{r}:{b2n o.disabled}"
      runOps rest { s with h := { s.h with w := { s.h.w with tx := o.tx }, writeOn := s.h.writeOn && !o.disabled },
                           out := t :: s.out }
  | "rd" :: rest, s =>
    let n := s.h.w.trace.length
    let (h', fd', rc) := handleRead (cfgOf s) s.h s.fd
    if bad h' then some ({ s with out := "UB:read" :: s.out }, true)
    else runOps rest { s with h := h', fd := fd',
                              out := s!"r:{rc}:{readState h'}" :: (newCallbacks h'.w n).reverse ++ s.out }
  | "srd" :: rest, s =>
    let n := s.h.w.trace.length
    let (h', fd', ex) := serialRead (cfgOf s) s.h s.fd
    if bad h' then some ({ s with out := "UB:read" :: s.out }, true)
    else if ex then some ({ s with h := h', fd := fd', out := "EXIT2" :: (newCallbacks h'.w n).reverse ++ s.out }, true)
    else runOps rest { s with h := h', fd := fd',
                              out := s!"R:{readState h'}" :: (newCallbacks h'.w n).reverse ++ s.out }
  | _, _ => none

/-- `oc.*` verbs -/
def handle : List String → Option String
  | "oc.run" :: toks => do
    let (s, _) ← runOps toks ⟨HandlerTab.init nRxHandlers, Host.init nTxQueues, ⟨[], 0, false⟩, []⟩
    some (if s.out.isEmpty then "ok" else " ".intercalate s.out.reverse)
  | _ => none

end OsmoVerif.Driver.Osmocon
