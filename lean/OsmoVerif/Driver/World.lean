import OsmoVerif.Model.World
import OsmoVerif.Driver.Util
/-! Line protocol of the world model (same as harness/py/world_harness.py):
  world.run <seed> <extra|-> | <op> ; <op> ; ...
-/
namespace OsmoVerif.Driver.World
open OsmoVerif.World OsmoVerif.Driver OsmoVerif

def addrId? : String → Option Nat
  | "a" => some 1 | "b" => some 2 | "c" => some 3 | _ => none

def parseExtra (s : String) : Option (List (Nat × Nat × Nat)) :=
  if s = "-" then some [] else
  (s.splitOn ",").mapM fun e =>
    match e.splitOn ":" with
    | [a, rest] =>
      match rest.splitOn "/" with
      | [p, i] => do pure ((← addrId? a), (← parseNat? p), (← parseNat? i))
      | _ => none
    | _ => none

/-- split a token list at a separator token -/
def splitAt (sep : String) (toks : List String) : List (List String) :=
  let rec go (cur : List String) (acc : List (List String)) : List String → List (List String)
    | [] => (cur.reverse :: acc).reverse
    | t :: ts => if t = sep then go [] (cur.reverse :: acc) ts else go (t :: cur) acc ts
  go [] [] toks

def parseOp : List String → Option (Option Op)
  | [] => some none
  | ["C", i, sp, h] => do pure (some (.ctrl (← parseNat? i) (← parseNat? sp) (← unhex? h)))
  | ["D", i, h] => do pure (some (.data (← parseNat? i) (← unhex? h)))
  | ["T"] => some (some .tick)
  | ["J", fn] => do pure (some (.jump (← parseNat? fn)))
  | _ => none

def showDgram (d : Dgram) : String :=
  s!"{d.lport}>{d.raddr}:{d.rport}:{hex d.data}"

def showRes (r : Res) : String :=
  let parts := r.out.map showDgram
  let parts := if r.stale > 0 then parts ++ [s!"stale:{r.stale}"] else parts
  let parts := match r.exc with | some e => parts ++ ["EXC:" ++ e.pyName] | none => parts
  if parts.isEmpty then "." else ",".intercalate parts

def showOptInt : Option Int → String
  | none => "N" | some v => toString v

def showTrx (t : Trx) : String :=
  let fh := match t.fh with
    | none => "N"
    | some h => s!"{h.hsn}/{h.maio}/{h.ma.length}"
  -- sorted multiset of the queued frame numbers: the order of arrival between different frames is internal
  let fns := (t.txQueue.map fun m => m.fn).mergeSort (fun a b => decide (a.getD (-1) ≤ b.getD (-1)))
  let q := if t.txQueue.isEmpty then "-" else "/".intercalate (fns.map showOptInt)
  " ".intercalate [
    s!"R{if t.running then 1 else 0}", showOptInt t.rxFreq, showOptInt t.txFreq, fh,
    s!"v{t.hdrVer}", s!"m{if t.rfMuted then 1 else 0}", s!"ta{t.ta}",
    s!"p{t.txPowerBase}/{t.txAttBase}", s!"toa{t.toaBase}/{t.toaThr}",
    s!"rssi{t.rssiBase}/{t.rssiThr}/{if t.fakeRssi then 1 else 0}", s!"ci{t.ciBase}/{t.ciThr}",
    s!"drop{t.dropAmount}/{t.dropPeriod}", s!"dly{t.rspDelay}", "q" ++ q]

def showPorts (t : Trx) : String :=
  let clk := if t.hasClock then s!"{t.clckPort}>{t.clckRemote}" else "N"
  s!"{t.ctrlPort}>{t.ctrlRemote}/{t.dataPort}>{t.dataRemote}/{clk}"

def showWorld (w : OsmoVerif.World.World) : String :=
  let links := if w.clkLinks.isEmpty then "-" else "/".intercalate (w.clkLinks.map toString)
  let src := match w.clkSrc with | none => "N" | some v => toString v
  " # ".intercalate (w.trxs.map showTrx ++ [s!"clk{if w.clkRunning then 1 else 0} {links} src{src}"])

def handle : List String → Option String
  | "world.run" :: seed :: extra :: "|" :: rest => do
    let seed ← parseNat? seed
    let extra ← parseExtra extra
    let ops ← (splitAt ";" rest).mapM parseOp
    let ops := ops.filterMap id
    match build seed extra with
    | .error e => pure ("cfgerr:" ++ e.pyName)
    | .ok w =>
      let (w', rs) := run w ops
      pure (" ; ".intercalate (rs.map showRes) ++ " | " ++ ",".intercalate (w'.trxs.map showPorts)
            ++ " | " ++ showWorld w')
  | _ => none

end OsmoVerif.Driver.World
