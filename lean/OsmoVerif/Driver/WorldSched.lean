import OsmoVerif.Model.WorldSched
import OsmoVerif.Driver.World
/-! Line protocol of the interleaving model (same as harness/py/sched_harness.py):
  sched.run <seed> <extra|-> | <op> ; <op> ; ... ; R <k> <op>
    C / D / J   one complete operation of the socket thread (`Sched.sockStep`)
    T           one whole tick: the clock thread's atomic actions (`Sched.clockStep`) until it is idle again
    R k <C|D>   the race: the tick action by action; the socket operation is executed at the k-th boundary
                (`Sched.boundaries`, counted as the harness counts its gate points), or after the tick when
                the tick has fewer than k+1 boundaries; then the rest of the tick
  Answer per op: datagrams of both threads in the order they were sent, `stale:<n>`, `EXC:<e>`,
  `fwd:<src>:<fn>:<tick fn>` for every burst handed to `forward_msg`, and for the race `at:<boundary | after>` (where
  the socket operation ran), `points:<n>` (boundaries the tick went through), `EXC:clock:<e>` / `EXC:socket:<e>` in
  the order they happened; then ports and final state as `world.run`.  Stateless per line. -/
namespace OsmoVerif.Driver.WorldSched
open OsmoVerif.World OsmoVerif.World.Sched OsmoVerif.Driver OsmoVerif
open OsmoVerif.Driver.World (parseExtra splitAt parseOp showDgram showOptInt showPorts showWorld)

inductive Item
  | op (o : Op)
  | race (k : Nat) (o : Op)

def parseItem : List String → Option (Option Item)
  | [] => some none
  | "R" :: k :: rest => do
    let k ← parseNat? k
    match ← parseOp rest with
    | some (.ctrl i sp d) => pure (some (.race k (.ctrl i sp d)))
    | some (.data i d) => pure (some (.race k (.data i d)))
    | _ => none
  | toks => do
    match ← parseOp toks with
    | some o => pure (some (.op o))
    | none => pure none

/-- what one op of a line has shown so far -/
structure Trace where
  dgrams : List Dgram := []
  stale : Nat := 0
  fwd : List String := []
  /-- exceptions in the order they happened (already tagged) -/
  excs : List String := []
  points : Nat := 0
  /-- the previous action of the clock thread was a locked section -/
  afterLock : Bool := false
  /-- the racing operation has been executed -/
  raced : Bool := false
  /-- the boundary it was executed at -/
  at_ : String := "after"
  outOfFuel : Bool := false

/-- the action of a schedule (`Sched.Act`) an operation of the socket thread is -/
def actOf : Op → Option Act
  | .ctrl i sp d => some (.ctrl i sp d)
  | .data i d => some (.data i d)
  | _ => none

/-- one atomic action of the clock thread (`Sched.act s .clk`, the step function of `Sched.exec`), observed -/
def clkTraced (tag : String) (s : State) (t : Trace) : State × Trace :=
  let s' := act s .clk
  let fwd := match s.pc with
    | .loop fn j (m :: _) _ _ => [s!"fwd:{j}:{showOptInt m.fn}:{fn}"]
    | _ => []
  let exc := match s.pc, s'.pc with
    | .dead _, _ => []
    | _, .dead e => [tag ++ e.pyName]
    | _, _ => []
  let afterLock := match s.pc with
    | .lock .. => true
    | _ => false
  (s', { t with dgrams := t.dgrams ++ s'.out.drop s.out.length, stale := t.stale + (s'.stale - s.stale),
                fwd := t.fwd ++ fwd, excs := t.excs ++ exc, afterLock := afterLock })

/-- one complete operation of the socket thread (`Sched.act s (.ctrl ..)` / `(.data ..)`; a clock jump `J` of the
set-up is `World.jump`), observed -/
def sockTraced (tag : String) (s : State) (op : Op) (t : Trace) : State × Trace :=
  let r := step s.w op
  let exc := match r.exc with
    | some e => [tag ++ e.pyName]
    | none => []
  let s' := match actOf op with
    | some a => act s a
    | none => sockStep s op
  (s', { t with dgrams := t.dgrams ++ s'.sout.drop s.sout.length, excs := t.excs ++ exc })

def finished : Pc → Bool
  | .idle => true
  | .dead _ => true
  | _ => false

/-- the clock thread runs until the tick is over (or the thread is dead); with `race = some (k, op)` the socket
operation is executed at the k-th boundary -/
def runClock (tag : String) (race : Option (Nat × Op)) : Nat → State → Trace → State × Trace
  | 0, s, t => (s, { t with outOfFuel := true })
  | fuel + 1, s, t =>
    if finished s.pc then (s, t) else
    -- the boundaries the thread is standing at: the racing operation runs at the k-th one
    let (s, t) := (boundaries s.pc t.afterLock).foldl (fun (st : State × Trace) name =>
      let (s, t) := st
      let (s, t) := match race with
        | some (k, op) =>
          if ¬ t.raced ∧ t.points = k then
            let (s, t) := sockTraced "EXC:socket:" s op t
            (s, { t with raced := true, at_ := name })
          else (s, t)
        | none => (s, t)
      (s, { t with points := t.points + 1 })) (s, t)
    let (s, t) := clkTraced tag s t
    runClock tag race fuel s t

def fuel : Nat := 1000000

/-- `send_clck_ind()` (only while the generator runs): the `begin` action, then the rest of the tick -/
def tickTraced (tag : String) (race : Option (Nat × Op)) (s : State) (t : Trace) : State × Trace :=
  if ¬ s.w.clkRunning then (s, t) else
  let (s, t) := clkTraced tag { s with pc := .idle } t
  runClock tag race fuel s t

def showTrace (t : Trace) (race : Bool) : String :=
  let parts := t.dgrams.map showDgram
  let parts := if t.stale > 0 then parts ++ [s!"stale:{t.stale}"] else parts
  let parts := if race then parts else parts ++ t.excs
  let parts := parts ++ t.fwd
  let parts := if race then parts ++ ["at:" ++ t.at_, s!"points:{t.points}"] ++ t.excs else parts
  let parts := if t.outOfFuel then parts ++ ["OUT-OF-FUEL"] else parts
  if parts.isEmpty then "." else ",".intercalate parts

/-- one op of the line: new state (clock thread between two ticks again: a dead thread is replaced by a fresh one for
the next tick, as the harness does) and the observation -/
def runItem (s : State) : Item → State × String
  | .op .tick =>
    let (s, t) := tickTraced "EXC:" none s {}
    ({ s with pc := .idle }, showTrace t false)
  | .op o =>
    let (s, t) := sockTraced "EXC:" s o {}
    (s, showTrace t false)
  | .race k o =>
    if ¬ s.w.clkRunning then
      let (s, t) := sockTraced "EXC:socket:" s o {}
      (s, showTrace t true)
    else
      let (s, t) := tickTraced "EXC:clock:" (some (k, o)) s {}
      -- boundary never reached: the operation runs when the tick is over
      let (s, t) := if t.raced then (s, t) else sockTraced "EXC:socket:" s o t
      ({ s with pc := .idle }, showTrace t true)

def runItems (s : State) : List Item → State × List String
  | [] => (s, [])
  | it :: its =>
    let (s, o) := runItem s it
    let (s, os) := runItems s its
    (s, o :: os)

def handle : List String → Option String
  | "sched.run" :: seed :: extra :: "|" :: rest => do
    let seed ← parseNat? seed
    let extra ← parseExtra extra
    let items ← (splitAt ";" rest).mapM parseItem
    let items := items.filterMap id
    match build seed extra with
    | .error e => pure ("cfgerr:" ++ e.pyName)
    | .ok w =>
      let (s, os) := runItems { w := w } items
      pure (" ; ".intercalate os ++ " | " ++ ",".intercalate (s.w.trxs.map showPorts)
            ++ " | " ++ showWorld s.w)
  | _ => none

end OsmoVerif.Driver.WorldSched
