/-
Line protocol over `OsmoVerif.Model.Trxd` (verbs `trxd.*`).  The same lines are answered by
harness/py/trxd_harness.py from the real TxMsg / RxMsg / DATAInterface classes.

Canonical text encoding
  int-or-None : decimal integer, `-` = None
  octets      : `.` = empty, else comma separated segments, each hex octets or `*N:XX` = N copies of
                octet XX; answers use `*N:XX` exactly for maximal runs of 8 or more equal octets
  burst       : `-` = None, else octets; Rx bursts are the octets of the array('b') (`tobytes()`),
                i.e. two's complement
  modulation  : enum member name (`ModGMSK`, ...), `-` = None
  TxMsg       : ver fn tn pwr burst
  RxMsg       : ver fn tn rssi toa256 mod nope(0/1) tsc_set tsc ci burst
Requests / answers
  trxd.tx.validate <TxMsg>          -> ok | <exception type name>
  trxd.tx.gen L <TxMsg>             -> ok <octets> | <exception>            (L = legacy 0/1)
  trxd.tx.send L <TxMsg>            -> ok <number of datagrams> [<octets>] | <exception>
  trxd.tx.parse <octets>             -> ok <TxMsg> | <exception>
  trxd.rx.validate / gen / send / parse : same for RxMsg (parse on a fresh RxMsg())
  trxd.rx.reparse <RxMsg> <octets>   -> parse_msg on an existing object
  trxd.tx.rt L <TxMsg>              -> TxMsg().parse_msg(m.gen_msg(L)): ok <TxMsg> | <exception>;  trxd.rx.rt likewise
  trxd.tx.trans V <TxMsg>           -> ok <RxMsg> | <exception>          (V = ver argument, `-` = None)
  trxd.rx.trans V <RxMsg>           -> ok <TxMsg> | <exception>
-/
import OsmoVerif.Model.Trxd
import OsmoVerif.Driver.Util
namespace OsmoVerif.Driver.Trxd
open OsmoVerif.Trxd OsmoVerif.Driver

def optInt? (s : String) : Option (Option Int) :=
  if s = "-" then some none else (parseInt? s).map some

/-- one segment of an octet string: hex octets or `*N:XX` -/
def seg? (s : String) : Option (List Nat) :=
  if s.startsWith "*" then
    match (s.drop 1).toString.splitOn ":" with
    | [n, x] => do
      let n ← parseNat? n
      let x ← unhex? x
      match x with
      | [b] => pure (List.replicate n b)
      | _ => none
    | _ => none
  else if s = "" ∨ s = "-" then none
  else unhex? s

/-- octet string: `.` = empty, else comma separated segments -/
def octets? (s : String) : Option (List Nat) :=
  if s = "." then some [] else do
    let segs ← (s.splitOn ",").mapM seg?
    pure segs.flatten

/-- burst token -> `None` / octets -/
def burst? (s : String) : Option (Option (List Nat)) :=
  if s = "-" then some none else (octets? s).map some

def bytes? (s : String) : Option (List Nat) := octets? s

def mod? (s : String) : Option (Option Modulation) :=
  if s = "-" then some none else (Modulation.ofName? s).map some

def bool? (s : String) : Option Bool :=
  if s = "0" then some false else if s = "1" then some true else none

def tx? : List String → Option TxMsg
  | [ver, fn, tn, pwr, burst] => do
    let ver ← parseInt? ver
    let fn ← optInt? fn; let tn ← optInt? tn; let pwr ← optInt? pwr
    let burst ← burst? burst
    pure ⟨ver, fn, tn, pwr, burst⟩
  | _ => none

def rx? : List String → Option RxMsg
  | [ver, fn, tn, rssi, toa, mod, nope, set, tsc, ci, burst] => do
    let ver ← parseInt? ver
    let fn ← optInt? fn; let tn ← optInt? tn; let rssi ← optInt? rssi; let toa ← optInt? toa
    let mod ← mod? mod; let nope ← bool? nope
    let set ← optInt? set; let tsc ← optInt? tsc; let ci ← optInt? ci
    let burst ← burst? burst
    pure { ver := ver, fn := fn, tn := tn, rssi := rssi, toa256 := toa, modType := mod, nopeInd := nope,
           tscSet := set, tsc := tsc, ci := ci, burst := burst.map (·.map ubyte2s) }
  | _ => none

def showOptInt : Option Int → String
  | none => "-"
  | some v => toString v

/-- runs of equal octets: (octet, count) -/
def runs : List Nat → List (Nat × Nat)
  | [] => []
  | x :: xs =>
    match runs xs with
    | (y, n) :: rest => if x = y then (y, n + 1) :: rest else (x, 1) :: (y, n) :: rest
    | [] => [(x, 1)]

/-- canonical octet string: `.` if empty; runs of 8 or more equal octets as `*N:XX`, the rest as hex;
segments separated by `,` -/
def showBytes (b : List Nat) : String :=
  if b.isEmpty then "." else
  let (acc, cur) := (runs b).foldl (fun (st : List String × List Nat) (r : Nat × Nat) =>
      if r.2 ≥ 8 then
        ((if st.2.isEmpty then st.1 else st.1 ++ [hex st.2]) ++ ["*" ++ toString r.2 ++ ":" ++ hex [r.1]], [])
      else (st.1, st.2 ++ List.replicate r.2 r.1)) ([], [])
  ",".intercalate (if cur.isEmpty then acc else acc ++ [hex cur])

def showBurst : Option (List Nat) → String
  | none => "-"
  | some b => showBytes b

def showTx (m : TxMsg) : String :=
  " ".intercalate [toString m.ver, showOptInt m.fn, showOptInt m.tn, showOptInt m.pwr, showBurst m.burst]

def showRx (m : RxMsg) : String :=
  " ".intercalate [toString m.ver, showOptInt m.fn, showOptInt m.tn, showOptInt m.rssi, showOptInt m.toa256,
    (match m.modType with | none => "-" | some x => x.name), (if m.nopeInd then "1" else "0"),
    showOptInt m.tscSet, showOptInt m.tsc, showOptInt m.ci, showBurst (m.burst.map (·.map sbyte))]

def outcome (f : α → String) : Except Exc α → String
  | .ok v => let s := f v; if s.isEmpty then "ok" else "ok " ++ s
  | .error e => e.pyName

def showSent (ds : List (List Nat)) : String :=
  " ".intercalate (toString ds.length :: ds.map showBytes)

/-- `trxd.*` verbs -/
def handle : List String → Option String
  | "trxd.tx.validate" :: m => do let m ← tx? m; pure (outcome (fun _ => "") m.validate)
  | "trxd.tx.gen" :: l :: m => do let l ← bool? l; let m ← tx? m; pure (outcome showBytes (m.genMsg l))
  | "trxd.tx.send" :: l :: m => do let l ← bool? l; let m ← tx? m; pure (outcome showSent (sendMsg (m.genMsg l)))
  | ["trxd.tx.parse", b] => do let b ← bytes? b; pure (outcome showTx (TxMsg.parseMsg b))
  | "trxd.rx.validate" :: m => do let m ← rx? m; pure (outcome (fun _ => "") m.validate)
  | "trxd.rx.gen" :: l :: m => do let l ← bool? l; let m ← rx? m; pure (outcome showBytes (m.genMsg l))
  | "trxd.rx.send" :: l :: m => do let l ← bool? l; let m ← rx? m; pure (outcome showSent (sendMsg (m.genMsg l)))
  | ["trxd.rx.parse", b] => do let b ← bytes? b; pure (outcome showRx (RxMsg.parseMsg b))
  | ["trxd.rx.reparse", ver, fn, tn, rssi, toa, mod, nope, set, tsc, ci, burst, b] => do
      let m ← rx? [ver, fn, tn, rssi, toa, mod, nope, set, tsc, ci, burst]
      let b ← bytes? b
      pure (outcome showRx (m.parseMsgFrom b))
  | "trxd.tx.rt" :: l :: m => do let l ← bool? l; let m ← tx? m; pure (outcome showTx (m.genMsg l >>= TxMsg.parseMsg))
  | "trxd.rx.rt" :: l :: m => do let l ← bool? l; let m ← rx? m; pure (outcome showRx (m.genMsg l >>= RxMsg.parseMsg))
  | "trxd.tx.trans" :: v :: m => do let v ← optInt? v; let m ← tx? m; pure (outcome showRx (m.trans v))
  | "trxd.rx.trans" :: v :: m => do let v ← optInt? v; let m ← rx? m; pure (outcome showTx (m.trans v))
  | _ => none

end OsmoVerif.Driver.Trxd
