import OsmoVerif.Model.TrxSched
import OsmoVerif.Driver.Util
namespace OsmoVerif.Driver.TrxSched
open OsmoVerif.TrxSched OsmoVerif.Mframe OsmoVerif.Driver OsmoVerif.Gen

def rcName : Rc → String
  | .ok => "0"
  | .EINVAL => "-EINVAL"
  | .ENOMEM => "-ENOMEM"
  | .EAGAIN => "-EAGAIN"
  | .EALREADY => "-EALREADY"
  | .EIO => "-EIO"
  | .ENODEV => "-ENODEV"

def crashName : Crash → String
  | .tsOutOfRange => "ts-out-of-range"
  | .nullListHead => "null"
  | .lookup .divByZero => "period-zero"
  | .lookup .nullFrames => "null"
  | .lookup .outOfTable => "out-of-table"
  | .shiftOutOfRange => "shift"
  | .descOutOfRange => "desc"

def renderEv : Ev → String
  | .pchanComb tn p => s!"P{tn}.{p}"
  | .rx c tn fn bid => s!"R{c}.{tn}.{fn}.{bid}"
  | .tx c tn fn bid => s!"T{c}.{tn}.{fn}.{bid}"

def renderEvs (l : List Ev) : String :=
  if l.isEmpty then "-" else ",".intercalate (l.map renderEv)

def renderLchan (l : LchanState) : String :=
  s!"{l.type}:{if l.active then 1 else 0}:{l.tdma.lastProc}:{l.tdma.numProc}:{l.tdma.numLost}"

def dumpTs : Option Ts → String
  | none => "~"
  | some ts =>
    let lay := match ts.layout with
      | none => "-"
      | some L => s!"{L.config.val}.{L.period}.{L.slotmask}.{L.lchanMask}"
    let lch := if !ts.lchansInit then "?"
      else if ts.lchans.isEmpty then "-"
      else ",".intercalate (ts.lchans.map renderLchan)
    lay ++ "/" ++ lch

def renderBid : Option Nat → String
  | none => "B255"
  | some b => s!"B{b}"

inductive Op where
  | cfg (tn c : Nat) | rts (tn : Nat) | del (tn : Nat) | rst
  | act (tn c : Nat) | deact (tn c : Nat)
  | rxn (tn fn0 n : Nat) (single : Bool) | txn (tn fn0 n : Nat) (single : Bool)
  | probe (tn fn : Nat) | setl (tn c last np : Nat) | dump (tn : Nat)

def parseOp (s : String) : Option Op :=
  match s.splitOn "," with
  | [] => none
  | name :: args => do
    let a ← nats? args
    match name, a with
    | "cfg", [tn, c] => some (.cfg tn c)
    | "rts", [tn] => some (.rts tn)
    | "del", [tn] => some (.del tn)
    | "rst", [] => some .rst
    | "act", [tn, c] => some (.act tn c)
    | "deact", [tn, c] => some (.deact tn c)
    | "rx", [tn, fn] => some (.rxn tn fn 1 true)
    | "rxn", [tn, fn, n] => some (.rxn tn fn n false)
    | "tx", [tn, fn] => some (.txn tn fn 1 true)
    | "txn", [tn, fn, n] => some (.txn tn fn n false)
    | "probe", [tn, fn] => some (.probe tn fn)
    | "setl", [tn, c, l, np] => some (.setl tn c l np)
    | "dump", [tn] => some (.dump tn)
    | _, _ => none

def rxLoop (tn fn0 : Nat) : Nat → Nat → Sched → List String → Except Crash (Sched × List String)
  | 0, _, s, acc => .ok (s, acc.reverse)
  | n + 1, k, s, acc => do
    let r ← handleRxBurst s tn (u32 (fn0 + k))
    rxLoop tn fn0 n (k + 1) r.sched (s!"{rcName r.rc};{renderEvs r.evs};{renderBid r.bid}" :: acc)

def txLoop (s : Sched) (tn fn0 : Nat) : Nat → Nat → List String → Except Crash (List String)
  | 0, _, acc => .ok acc.reverse
  | n + 1, k, acc => do
    let (evs, bid) ← pullBurst s tn (u32 (fn0 + k))
    txLoop s tn fn0 n (k + 1) (s!"-;{renderEvs evs};{renderBid bid}" :: acc)

/-- one op of the harness protocol: new state and the op's output -/
def step (s : Sched) : Op → Except Crash (Sched × String)
  | .rst => do
    let (s, evs) ← resetAll s
    pure (s, s!"-;{renderEvs evs};-")
  | .cfg tn c => do
    let _ ← getTs s tn
    let (rc, s, evs) ← configureTs s tn c
    pure (s, s!"{rcName rc};{renderEvs evs};{dumpTs (← getTs s tn)}")
  | .rts tn => do
    let (rc, s, evs) ← resetTs s tn
    pure (s, s!"{rcName rc};{renderEvs evs};{dumpTs (← getTs s tn)}")
  | .del tn => do
    let (s, evs) ← delTs s tn
    pure (s, s!"-;{renderEvs evs};{dumpTs (← getTs s tn)}")
  | .act tn c => do
    match ← getTs s tn with
    | none => pure (s, "nots;-;~")
    | some ts =>
      let (rc, ts) ← activateLchan ts c
      pure (setTs s tn (some ts), s!"{rcName rc};-;{dumpTs (some ts)}")
  | .deact tn c => do
    match ← getTs s tn with
    | none => pure (s, "nots;-;~")
    | some ts =>
      let (rc, ts) ← deactivateLchan ts c
      pure (setTs s tn (some ts), s!"{rcName rc};-;{dumpTs (some ts)}")
  | .rxn tn fn0 n _ => do
    let _ ← getTs s tn
    let (s, outs) ← rxLoop tn fn0 n 0 s []
    pure (s, if outs.isEmpty then "-" else "+".intercalate outs)
  | .txn tn fn0 n _ => do
    let _ ← getTs s tn
    let outs ← txLoop s tn fn0 n 0 []
    pure (s, if outs.isEmpty then "-" else "+".intercalate outs)
  | .probe tn fn => do
    let (rc, fl) ← rxProbe s tn (u32 fn)
    pure (s, s!"{rcName rc};-;F{fl}")
  | .setl tn c last np => do
    match ← getTs s tn with
    | none => pure (s, "nots")
    | some ts =>
      if !ts.lchansInit then pure (s, "nolchan")
      else
        match ← findLchan ts c with
        | none => pure (s, "nolchan")
        | some _ => pure (setTs s tn (some (injectTdma ts c last np)), "ok")
  | .dump tn => do
    pure (s, dumpTs (← getTs s tn))

def runOps : List Op → Nat → Sched → List String → String
  | [], _, _, acc => if acc.isEmpty then "-" else "|".intercalate acc.reverse
  | op :: rest, k, s, acc =>
    match step s op with
    | .error c => s!"crash:{crashName c}@{k}"
    | .ok (s, out) => runOps rest (k + 1) s (out :: acc)

/-- `ts.*` verbs -/
def handle : List String → Option String
  | "ts.seq" :: ops => do
    let ops ← ops.mapM parseOp
    pure (runOps ops 0 initSched [])
  | _ => none

end OsmoVerif.Driver.TrxSched
