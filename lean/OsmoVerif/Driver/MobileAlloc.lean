import OsmoVerif.Model.MobileAlloc
import OsmoVerif.Spec.MobileAlloc
import OsmoVerif.Driver.Util
namespace OsmoVerif.Driver.MobileAlloc
open OsmoVerif.MobileAlloc OsmoVerif.Gen.MobileAlloc OsmoVerif.Driver

def sent16 : Nat := 65535
def sent8 : Nat := 170

/-- comma separated naturals, `-` = empty -/
def commaNats? (s : String) : Option (List Nat) :=
  if s = "-" then some [] else (s.splitOn ",").mapM parseNat?

def joinComma (xs : List Nat) : String :=
  if xs.isEmpty then "-" else ",".intercalate (xs.map toString)

/-- the `freq[]` array the C harness builds: background bits, SERV for the cell allocation,
HOPP for the stale entries; `none` if an ARFCN is outside the array -/
def mkFreq (ca stale : List Nat) (bg : Nat) : Option (List Nat) := do
  let base := bg &&& (255 ^^^ (freqTypeServ ||| freqTypeHopp))
  let mut a : Array Nat := Array.replicate freqCap base
  for x in ca do
    if x < a.size then a := a.modify x (· ||| freqTypeServ) else none
  for x in stale do
    if x < a.size then a := a.modify x (· ||| freqTypeHopp) else none
  pure a.toList

def trimSent (xs : List Nat) : List Nat :=
  (xs.reverse.dropWhile (· == sent16)).reverse

def maskDiff (before after : List Nat) : String :=
  let d := ((before.zip after).zipIdx).filterMap fun ((b, a), i) =>
    if a ≠ b then some (toString i ++ ":" ++ toString a) else none
  if d.isEmpty then "-" else ",".intercalate d

/-- `ma.*` verbs -/
def handle : List String → Option String
  | ["ma.decode", ca, hexs, len, si4, stale, bg] => do
      let ca ← commaNats? ca
      let ma ← unhex? hexs
      let len ← parseNat? len
      let si4 ← parseNat? si4
      let stale ← commaNats? stale
      let bg ← parseNat? bg
      if len > 255 || bg > 255 then none
      let freq ← mkFreq ca stale bg
      match decode freq ma len (List.replicate hoppingCap sent16) sent8 (si4 != 0) with
      | .ok (rc, st) =>
        pure (toString rc ++ " " ++ toString st.hoppLen ++ " " ++ joinComma (trimSent st.hopping)
              ++ " | " ++ maskDiff freq st.freq)
      | .error _ => pure "OOB"
  | ["ma.fault", ca, hexs, len, si4] => do
      -- which fault the model reports (diagnostics only)
      let ca ← commaNats? ca
      let ma ← unhex? hexs
      let len ← parseNat? len
      let si4 ← parseNat? si4
      let freq ← mkFreq ca [] 0
      match decode freq ma len (List.replicate hoppingCap sent16) sent8 (si4 != 0) with
      | .ok _ => pure "none"
      | .error e => pure (((toString (repr e)).replace "\n" " ").replace " " "_")
  | ["ma.spec", ca, hexs] => do
      -- the standard's selection (Spec), independent of the model
      let ca ← commaNats? ca
      let ma ← unhex? hexs
      if ca.any (· ≥ 1024) then none
      let inCA : Nat → Bool := fun a => ca.contains a
      pure (joinComma (Spec.MobileAlloc.caList inCA) ++ " | " ++ joinComma (Spec.MobileAlloc.select inCA ma))
  | _ => none

end OsmoVerif.Driver.MobileAlloc
