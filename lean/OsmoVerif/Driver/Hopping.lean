import OsmoVerif.Model.Hopping
import OsmoVerif.Spec.Hopping
import OsmoVerif.Driver.Util
/-
`hop.*` verbs (C07).  Lists are one token: `-` = empty, otherwise comma separated;
Python MA entries are `rx:tx` pairs.
  hop.py    HSN MAIO FN MA                      -> ok RX TX | EXC <class>       HoppingParams(hsn, maio, ma).resolve(fn)
  hop.pypnm N                                   -> PNM | EXC <class>            HoppingParams(1, 0, N entries)._pnm
  hop.freq  FH HSN MAIO FN MA RX0 TX0           -> init=<ok|EXC:c|-> rx=<v|None|EXC:c> tx=<…>
                                                   Transceiver: [enable_fh if FH≥1], [disable_fh if FH=2], get_rx_freq(fn), get_tx_freq(fn)
  hop.seq   RX0 TX0 | op ; op ; …                -> one answer token per op: one Transceiver lives through the sequence;
                                                   E HSN MAIO MA -> ok|EXC:c    D -> -    Q FN -> rx/tx
  hop.fw    TYPE H SERV H0 FN T1 T2 T3 HSN MAIO N MA
                                                -> ok ARFCN | oob-rn IDX | oob-ma MAI | divzero     rfch_get_params
  hop.fwfn  HSN MAIO N FN MA                    -> same; gsm_fn2gsmtime(fn) then rfch_get_params (type TCH_F, h = 1)
  hop.fwmai T1 T2 T3 FN HSN MAIO N              -> ok MAI | …                    rfch_hop_seq_gen(…, NULL)
  hop.fwpnm N                                   -> pow_nbin_mask(N)
  hop.spec  HSN MAIO N FN                       -> some MAI | none               TS 45.002 §6.2.3
-/
namespace OsmoVerif.Driver.Hopping
open OsmoVerif.Hopping OsmoVerif.Driver OsmoVerif.GsmTime

def parseNatList? (s : String) : Option (List Nat) :=
  if s = "-" then some [] else (s.splitOn ",").mapM parseNat?

def parsePair? (s : String) : Option (Int × Int) :=
  match s.splitOn ":" with
  | [a, b] => do let a ← parseInt? a; let b ← parseInt? b; pure (a, b)
  | _ => none

def parsePairList? (s : String) : Option (List (Int × Int)) :=
  if s = "-" then some [] else (s.splitOn ",").mapM parsePair?

def parseOptInt? (s : String) : Option (Option Int) :=
  if s = "None" then some none else (parseInt? s).map some

def excName : PyExc → String
  | .ValueError => "ValueError"
  | .IndexError => "IndexError"
  | .ZeroDivisionError => "ZeroDivisionError"

def renderFw : Except FwFault Nat → String
  | .ok a => s!"ok {a}"
  | .error (.oobRnTable i) => s!"oob-rn {i}"
  | .error (.oobMa i) => s!"oob-ma {i}"
  | .error .divZero => "divzero"

def renderFwInt : Except FwFault Int → String
  | .ok a => s!"ok {a}"
  | .error (.oobRnTable i) => s!"oob-rn {i}"
  | .error (.oobMa i) => s!"oob-ma {i}"
  | .error .divZero => "divzero"

/-- split a token list at the `;` tokens -/
def splitOps (toks : List String) : List (List String) :=
  let (cur, acc) := toks.foldl (fun (st : List String × List (List String)) t =>
    if t = ";" then ([], st.1.reverse :: st.2) else (t :: st.1, st.2)) ([], [])
  (cur.reverse :: acc).reverse

def renderFreq : Except PyExc (Option Int) → String
  | .ok (some v) => toString v
  | .ok none => "None"
  | .error e => "EXC:" ++ excName e

/-- one operation of a `hop.seq` history on one transceiver -/
def seqOp (trx : Trx) : List String → Option (Trx × String)
  | ["E", hsn, maio, ma] => do
      let hsn ← parseInt? hsn; let maio ← parseInt? maio; let ma ← parsePairList? ma
      match trx.enableFh hsn maio ma with
      | .ok _ => pure (trx.applyOp (.enable hsn maio ma), "ok")
      | .error e => pure (trx.applyOp (.enable hsn maio ma), "EXC:" ++ excName e)
  | ["D"] => pure (trx.applyOp .disable, "-")
  | ["Q", fn] => do
      let fn ← parseNat? fn
      pure (trx, s!"{renderFreq (trx.getRxFreq fn)}/{renderFreq (trx.getTxFreq fn)}")
  | _ => none

def seqRun (trx : Trx) : List (List String) → Option (List String)
  | [] => some []
  | op :: rest => do
      let (t, a) ← seqOp trx op
      let as ← seqRun t rest
      pure (a :: as)

def handle : List String → Option String
  | "hop.seq" :: rx0 :: tx0 :: "|" :: ops => do
      let rx0 ← parseOptInt? rx0; let tx0 ← parseOptInt? tx0
      let res ← seqRun { fh := none, rxFreq := rx0, txFreq := tx0 } (splitOps ops)
      pure (" ".intercalate res)
  | ["hop.py", hsn, maio, fn, ma] => do
      let hsn ← parseInt? hsn; let maio ← parseInt? maio; let fn ← parseNat? fn
      let ma ← parsePairList? ma
      match pyResolve hsn maio ma fn with
      | .ok (rx, tx) => pure s!"ok {rx} {tx}"
      | .error e => pure ("EXC " ++ excName e)
  | ["hop.pypnm", n] => do
      let n ← parseNat? n
      match pyInit 1 0 (List.replicate n ((0 : Int), (0 : Int))) with
      | .ok hp => pure (toString hp.pnm)
      | .error e => pure ("EXC " ++ excName e)
  | ["hop.freq", fh, hsn, maio, fn, ma, rx0, tx0] => do
      let fh ← parseNat? fh
      let hsn ← parseInt? hsn; let maio ← parseInt? maio; let fn ← parseNat? fn
      let ma ← parsePairList? ma
      let rx0 ← parseOptInt? rx0; let tx0 ← parseOptInt? tx0
      let trx : Trx := { fh := none, rxFreq := rx0, txFreq := tx0 }
      let (trx, ini) :=
        if fh = 0 then (trx, "-")
        else match trx.enableFh hsn maio ma with
          | .ok t => (if fh = 2 then t.disableFh else t, "ok")
          | .error e => (if fh = 2 then trx.disableFh else trx, "EXC:" ++ excName e)
      pure s!"init={ini} rx={renderFreq (trx.getRxFreq fn)} tx={renderFreq (trx.getTxFreq fn)}"
  | ["hop.fw", ty, h, serv, h0, fn, t1, t2, t3, hsn, maio, n, ma] => do
      let v ← nats? [ty, h, serv, h0, fn, t1, t2, t3, hsn, maio, n]
      let ma ← parseNatList? ma
      if ma.length > OsmoVerif.Gen.fwMaCapacity then none else
      match v with
      | [ty, h, serv, h0, fn, t1, t2, t3, hsn, maio, n] =>
        pure (renderFw (fwGetParamsArfcn (mkL1s serv ty h h0 hsn maio n ma)
          ⟨u32 fn, u16 t1, u8 t2, u8 t3, 0⟩))
      | _ => none
  | ["hop.fwfn", hsn, maio, n, fn, ma] => do
      let v ← nats? [hsn, maio, n, fn]
      let ma ← parseNatList? ma
      if ma.length > OsmoVerif.Gen.fwMaCapacity then none else
      match v with
      | [hsn, maio, n, fn] =>
        pure (renderFw (fwGetParamsArfcn (mkL1s 0 6 1 0 hsn maio n ma) (cFn2GsmTime fn)))
      | _ => none
  | ["hop.fwmai", t1, t2, t3, fn, hsn, maio, n] => do
      let v ← nats? [t1, t2, t3, fn, hsn, maio, n]
      match v with
      | [t1, t2, t3, fn, hsn, maio, n] =>
        pure (renderFwInt (fwHopSeqGen ⟨u32 fn, u16 t1, u8 t2, u8 t3, 0⟩ hsn maio n none))
      | _ => none
  | ["hop.fwpnm", n] => do
      let n ← parseNat? n
      pure (toString (powNbinMask n))
  | ["hop.spec", hsn, maio, n, fn] => do
      let v ← nats? [hsn, maio, n, fn]
      match v with
      | [hsn, maio, n, fn] =>
        match OsmoVerif.Spec.Hopping.mai hsn maio n fn with
        | some i => pure s!"some {i}"
        | none => pure "none"
      | _ => none
  | _ => none

end OsmoVerif.Driver.Hopping
