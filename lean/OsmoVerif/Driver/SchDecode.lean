import OsmoVerif.Model.SchDecode
import OsmoVerif.Spec.SchCoding
import OsmoVerif.Driver.Util
namespace OsmoVerif.Driver.SchDecode
open OsmoVerif.GsmTime OsmoVerif.SchDecode OsmoVerif.Driver

/-- `sch.*` verbs
  sch.fw SB            -> bsic fn t1 t2 t3 tc     (l1s_decode_sb; SB a uint32_t)
  sch.trx O0 O1 O2 O3  -> bsic fn t1 t2 t3 | UB   (decode_sb on four uint8_t; `tc` is not written by the function)
  sch.enc BSIC FN      -> word | none             (Spec.SchCoding.encodeSb)
  sch.lay W            -> bsic t1 t2 t3p          (Spec.SchCoding.decodeByLayout) -/
def handle : List String → Option String
  | ["sch.fw", sb] => do
      let sb ← parseNat? sb
      if sb ≥ 4294967296 then none else
      let r := fwDecodeSb sb
      pure (joinNat [r.bsic, r.time.fn, r.time.t1, r.time.t2, r.time.t3, r.time.tc])
  | ["sch.trx", a, b, c, d] => do
      let v ← nats? [a, b, c, d]
      match v with
      | [o0, o1, o2, o3] =>
        if o0 ≥ 256 ∨ o1 ≥ 256 ∨ o2 ≥ 256 ∨ o3 ≥ 256 then none else
        match trxDecodeSb zeroTime o0 o1 o2 o3 with
        | .ok r => pure (joinNat [r.bsic, r.time.fn, r.time.t1, r.time.t2, r.time.t3])
        | .error _ => pure "UB"
      | _ => none
  | ["sch.enc", b, fn] => do
      let b ← parseNat? b
      let fn ← parseNat? fn
      match Spec.SchCoding.encodeSb b fn with
      | some w => pure (toString w)
      | none => pure "none"
  | ["sch.lay", w] => do
      let w ← parseNat? w
      let f := Spec.SchCoding.decodeByLayout w
      pure (joinNat [f.bsic, f.t1, f.t2, f.t3p])
  | _ => none

end OsmoVerif.Driver.SchDecode
