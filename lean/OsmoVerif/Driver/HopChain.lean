import OsmoVerif.Model.HopChain
import OsmoVerif.Driver.MobileAlloc
import OsmoVerif.Driver.Util
/-!
`chain.*` verbs (C20, chain part): the composed models of Model/HopChain.lean, one request = one
whole run from the Mobile Allocation IE to the per-frame channel.

  chain.run CA IEHEX PCS HSN MAIO UNSUP FNS
      CA     cell allocation: `-` or comma separated ARFCNs (0..1023)
      IEHEX  value part of the Mobile Allocation IE (0..8 octets, `-` = empty)
      PCS    0 | 1: the cell refers to PCS 1900 (`gsm_refer_pcs`)
      UNSUP  `-` or comma separated indices (`arfcn2index`) cleared in the phone's frequency map
      FNS    `-` or comma separated frame numbers
  answer, parts joined by " | ":
      ms other | ms cause=<c> | ms 0 <band list>              layer23 up to the L1CTL message
      l1ctl <hsn> <maio> <n> <hex of the first 2n octets of ma[]>
      trxcon <rc> <datagram hex or ->
      trx <reply hex or -> fh=<N | hsn/maio/rx:tx,rx:tx,…>     transceiver 1 (the MS side) of the default world
      <fn>:<rx>/<tx>/<fw> …                                      get_rx_freq / get_tx_freq / firmware ARFCN
  chain.glue CA IEHEX PCS HSN MAIO UNSUP        (same line as harness/c/c20_glue_harness.c answers to `glue.run`)
      ms cause=<c> | ms other
      ms 0 <band list> | l1ctl <hsn> <maio> <n> <hex> | phy <rc> <called> <hsn> <maio> <ma_len> <list> | fw <h> <hsn> <maio> <n> <list>
  a fault of the glue is answered `fault <text>`
-/
namespace OsmoVerif.Driver.HopChain
open OsmoVerif OsmoVerif.HopChain OsmoVerif.Driver

def joinComma (xs : List Nat) : String :=
  if xs.isEmpty then "-" else ",".intercalate (xs.map toString)

def commaNats? (s : String) : Option (List Nat) :=
  if s = "-" then some [] else (s.splitOn ",").mapM parseNat?

def faultStr (f : Fault) : String :=
  "fault " ++ (((toString (repr f)).replace "\n" " ").replace " " "_")

/-- `set->freq_map[128+38]` with every band supported except the listed indices -/
def mkFreqMap (unsup : List Nat) : List Nat :=
  (List.range Gen.HopChain.freqMapSize).map fun k =>
    (List.range 8).foldl (fun o b => if unsup.contains (8 * k + b) then o else o ||| (1 <<< b)) 0

def showFreq : Except World.Exc (Option Int) → String
  | .ok (some v) => toString v
  | .ok none => "None"
  | .error e => "EXC:" ++ e.pyName

def showFh (t : World.Trx) : String :=
  match t.fh with
  | none => "N"
  | some h => s!"{h.hsn}/{h.maio}/" ++ ",".intercalate (h.ma.map fun (r, x) => s!"{r}:{x}")

def showFw : Except Fault (Except Hopping.FwFault Nat) → String
  | .ok (.ok a) => toString a
  | .ok (.error (.oobRnTable i)) => s!"oob-rn:{i}"
  | .ok (.error (.oobMa i)) => s!"oob-ma:{i}"
  | .ok (.error .divZero) => "divzero"
  | .error f => faultStr f

def handle : List String → Option String
  | ["chain.run", ca, ie, pcs, hsn, maio, unsup, fns] => do
      let ca ← commaNats? ca
      let ie ← unhex? ie
      let pcs ← parseNat? pcs
      let hsn ← parseNat? hsn
      let maio ← parseNat? maio
      let unsup ← commaNats? unsup
      let fns ← commaNats? fns
      if ie.length + 1 > Gen.HopChain.mobAllocLvSize || pcs > 1 then none
      let freq ← MobileAlloc.mkFreq ca [] 0
      -- `cd->mob_alloc_lv[9]`: length, value part, zero fill
      let lv := ie.length :: ie ++ List.replicate (Gen.HopChain.mobAllocLvSize - 1 - ie.length) 0
      let w ← match World.build 0 [] with | .ok w => some w | .error _ => none
      match msPath freq lv (pcs == 1) (mkFreqMap unsup) (List.replicate 64 65535) hsn maio with
      | .error f => pure (faultStr f)
      | .ok .otherBranch => pure "ms other"
      | .ok (.cause c) => pure s!"ms cause={c}"
      | .ok (.sent list msg) =>
        let p1 := s!"ms 0 {joinComma list} | l1ctl {msg.hsn} {msg.maio} {msg.n} {hex (msg.maOctets.take (2 * msg.n))}"
        match trxconPath msg with
        | .error f => pure (p1 ++ " | " ++ faultStr f)
        | .ok (rc, sent) =>
          let p2 := s!"trxcon {rc} " ++ (if sent.isEmpty then "-" else " ".intercalate (sent.map hex))
          -- the datagram (if any) arrives at the MS-side transceiver of the default application
          let res : World.Res := match sent with
            | [d] => fakeTrxPath w 1 d
            | _ => { world := w }
          let reply := match res.out with
            | [] => "-"
            | ds => " ".intercalate (ds.map fun (d : World.Dgram) => hex d.data)
          let t' ← res.world.trxs[1]?
          let p3 := s!"trx {reply} fh={showFh t'}"
          let p4 := fns.map fun fn =>
            s!"{fn}:{showFreq (t'.getRxFreq fn)}/{showFreq (t'.getTxFreq fn)}/{showFw (fwPath msg fn)}"
          pure (" | ".intercalate ([p1, p2, p3] ++ (if p4.isEmpty then [] else [" ".intercalate p4])))
  | ["chain.glue", ca, ie, pcs, hsn, maio, unsup] => do
      let ca ← commaNats? ca
      let ie ← unhex? ie
      let pcs ← parseNat? pcs
      let hsn ← parseNat? hsn
      let maio ← parseNat? maio
      let unsup ← commaNats? unsup
      if ie.length + 1 > Gen.HopChain.mobAllocLvSize || pcs > 1 then none
      let freq ← MobileAlloc.mkFreq ca [] 0
      let lv := ie.length :: ie ++ List.replicate (Gen.HopChain.mobAllocLvSize - 1 - ie.length) 0
      match msPath freq lv (pcs == 1) (mkFreqMap unsup) (List.replicate 64 65535) hsn maio with
      | .error f => pure (faultStr f)
      | .ok .otherBranch => pure "ms other"
      | .ok (.cause c) => pure s!"ms cause={c}"
      | .ok (.sent list msg) =>
        let p1 := s!"ms 0 {joinComma list} | l1ctl {msg.hsn} {msg.maio} {msg.n} {hex (msg.maOctets.take (2 * msg.n))}"
        let p2 := match trxconProcEstReqH1 msg with
          | .error f => faultStr f
          | .ok (.error rc) => s!"phy {rc} 0 - - - -"
          | .ok (.ok r) => s!"phy 0 1 {r.hsn} {r.maio} {r.n} {joinComma (r.ma.take r.n)}"
        let p3 := match fwDmEstReqH1 msg (List.replicate Gen.fwMaCapacity 0) with
          | .error f => faultStr f
          | .ok h => s!"fw 1 {h.hsn} {h.maio} {h.n} {joinComma (h.ma.take h.n)}"
        pure (" | ".intercalate [p1, p2, p3])
  | _ => none

end OsmoVerif.Driver.HopChain
