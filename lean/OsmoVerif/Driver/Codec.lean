/-
Line protocol over the codec model (verbs `codec.`).  One line = a definition in the compact
prefix encoding below + a value tree or a hex string; answer = hex / value tree / error class.

```
ENV   := E <checkLen 0|1> <n> FIELD*n
FIELD := I name PRES len <B|L> <sign 0|1> offset mult        Uint/Int
       | B name PRES LEN                                      Buf
       | S name PRES LEN fillerhex                            Spare
       | F PRES len <M|L> <n> BITF*n                          BitFieldSet
       | V name PRES LEN <checkLen 0|1> <n> FIELD*n           Envelope.F
       | Q name PRES LEN <n> FIELD*n                          Sequence.F
BITF  := b name bl <val|->  |  s bl
PRES  := a | t name | f name
LEN   := x n | r | o name | T name <k> (key len)*k | h t a b
VALUE := i int | y hex | d <n> (key VALUE)*n | l <n> VALUE*n
```
requests:  codec.dec ENV hex        -> ok VALUE consumed | err Class
           codec.enc ENV VALUE      -> ok hex | err Class
           codec.fdec FIELD VALUE hex -> ok VALUE consumed | err Class     (Field.from_bytes on a given vals dict)
           codec.fenc FIELD VALUE     -> ok hex | err Class                (Field.to_bytes)
           codec.pdu.dec NAME hex / codec.pdu.enc NAME VALUE               (regenerated TRXD definitions)
dicts are printed with sorted keys.
-/
import OsmoVerif.Model.Codec
import OsmoVerif.Gen.TrxdProto
import OsmoVerif.Spec.TrxdPduLayout
import OsmoVerif.Driver.Util
namespace OsmoVerif.Driver.Codec
open OsmoVerif.Codec OsmoVerif.Driver

abbrev P (α : Type) := List String → Option (α × List String)

def pNat : P Nat
  | t :: r => do let n ← parseNat? t; pure (n, r)
  | [] => none

def pInt : P Int
  | t :: r => do let n ← parseInt? t; pure (n, r)
  | [] => none

def pBool : P Bool
  | "0" :: r => some (false, r)
  | "1" :: r => some (true, r)
  | _ => none

def pStr : P String
  | t :: r => some (t, r)
  | [] => none

def pHex : P (List Nat)
  | t :: r => do let b ← unhex? t; pure (b, r)
  | [] => none

def pPres : P Pres
  | "a" :: r => some (.always, r)
  | "t" :: n :: r => some (.flagTrue n, r)
  | "f" :: n :: r => some (.flagFalse n, r)
  | _ => none

def pTable : Nat → P (List (Int × Nat))
  | 0, r => some ([], r)
  | k + 1, r => do
    let (key, r) ← pInt r
    let (v, r) ← pNat r
    let (rest, r) ← pTable k r
    pure ((key, v) :: rest, r)

def pLen : P LenD
  | "x" :: n :: r => do let n ← parseNat? n; pure (.fixed n, r)
  | "r" :: r => some (.rest, r)
  | "o" :: n :: r => some (.ofField n, r)
  | "T" :: n :: k :: r => do
    let k ← parseNat? k
    let (tbl, r) ← pTable k r
    pure (.table n tbl, r)
  | "h" :: t :: a :: b :: r => do
    let t ← parseNat? t; let a ← parseNat? a; let b ← parseNat? b
    pure (.thresh t a b, r)
  | _ => none

def pBitF : P BitF
  | "b" :: name :: bl :: v :: r => do
    let bl ← parseNat? bl
    let val ← if v = "-" then pure none else (parseInt? v).map some
    pure (⟨some name, bl, val⟩, r)
  | "s" :: bl :: r => do
    let bl ← parseNat? bl
    pure (⟨none, bl, none⟩, r)
  | _ => none

def pMany {α : Type} (p : P α) : Nat → P (List α)
  | 0, r => some ([], r)
  | k + 1, r => do
    let (x, r) ← p r
    let (xs, r) ← pMany p k r
    pure (x :: xs, r)

mutual
partial def pField : P FDef
  | "I" :: name :: r => do
    let (pres, r) ← pPres r
    let (len, r) ← pNat r
    let (bo, r) ← (match r with | "B" :: r => some (BO.big, r) | "L" :: r => some (BO.little, r) | _ => none)
    let (sg, r) ← pBool r
    let (off, r) ← pInt r
    let (mult, r) ← pInt r
    pure (.int name pres len bo sg off mult, r)
  | "B" :: name :: r => do
    let (pres, r) ← pPres r
    let (ld, r) ← pLen r
    pure (.buf name pres ld, r)
  | "S" :: name :: r => do
    let (pres, r) ← pPres r
    let (ld, r) ← pLen r
    let (fl, r) ← pHex r
    pure (.spare name pres ld fl, r)
  | "F" :: r => do
    let (pres, r) ← pPres r
    let (len, r) ← pNat r
    let (little, r) ← (match r with | "M" :: r => some (false, r) | "L" :: r => some (true, r) | _ => none)
    let (n, r) ← pNat r
    let (fs, r) ← pMany pBitF n r
    pure (.bits pres len little fs, r)
  | "V" :: name :: r => do
    let (pres, r) ← pPres r
    let (ld, r) ← pLen r
    let (cl, r) ← pBool r
    let (n, r) ← pNat r
    let (fs, r) ← pFields n r
    pure (.env name pres ld cl fs, r)
  | "Q" :: name :: r => do
    let (pres, r) ← pPres r
    let (ld, r) ← pLen r
    let (n, r) ← pNat r
    let (fs, r) ← pFields n r
    pure (.seq name pres ld fs, r)
  | _ => none
partial def pFields : Nat → P (List FDef)
  | 0, r => some ([], r)
  | k + 1, r => do
    let (x, r) ← pField r
    let (xs, r) ← pFields k r
    pure (x :: xs, r)
end

def pEnv : P EnvDef
  | "E" :: r => do
    let (cl, r) ← pBool r
    let (n, r) ← pNat r
    let (fs, r) ← pFields n r
    pure (⟨cl, fs⟩, r)
  | _ => none

mutual
partial def pVal : P Val
  | "i" :: x :: r => do let x ← parseInt? x; pure (.int x, r)
  | "y" :: h :: r => do let b ← unhex? h; pure (.bytes b, r)
  | "d" :: n :: r => do
    let n ← parseNat? n
    let (kv, r) ← pKVs n r
    pure (.dict kv, r)
  | "l" :: n :: r => do
    let n ← parseNat? n
    let (xs, r) ← pVals n r
    pure (.list xs, r)
  | _ => none
partial def pKVs : Nat → P (List (String × Val))
  | 0, r => some ([], r)
  | k + 1, r => do
    let (key, r) ← pStr r
    let (v, r) ← pVal r
    let (rest, r) ← pKVs k r
    pure ((key, v) :: rest, r)
partial def pVals : Nat → P (List Val)
  | 0, r => some ([], r)
  | k + 1, r => do
    let (v, r) ← pVal r
    let (rest, r) ← pVals k r
    pure (v :: rest, r)
end

partial def render : Val → String
  | .int i => s!"i {i}"
  | .bytes b => s!"y {hex b}"
  | .dict kv =>
    let kv := kv.mergeSort (fun a b => decide (a.1 ≤ b.1))
    " ".intercalate (s!"d {kv.length}" :: kv.map (fun (k, v) => s!"{k} {render v}"))
  | .list xs => " ".intercalate (s!"l {xs.length}" :: xs.map render)

def outDec : Except Err (Vals × Nat) → String
  | .ok (v, n) => s!"ok {render (.dict v)} {n}"
  | .error e => s!"err {e.name}"

def outEnc : Except Err (List Nat) → String
  | .ok b => s!"ok {hex b}"
  | .error e => s!"err {e.name}"

def asDict : Val → Option Vals
  | .dict d => some d
  | _ => none

def pduByName (n : String) : Option EnvDef :=
  (OsmoVerif.Gen.TrxdProto.all.find? (·.1 = n)).map (·.2)

/-- `codec.*` verbs -/
def handle : List String → Option String
  | "codec.dec" :: r => do
    let (d, r) ← pEnv r
    match r with
    | [h] => do
      let b ← unhex? h
      pure (match construct d with | .error e => s!"err {e.name}" | .ok _ => outDec (fromBytes d b))
    | _ => none
  | "codec.enc" :: r => do
    let (d, r) ← pEnv r
    let (v, r) ← pVal r
    if r ≠ [] then none
    let v ← asDict v
    pure (match construct d with | .error e => s!"err {e.name}" | .ok _ => outEnc (toBytes d v))
  | "codec.fdec" :: r => do
    let (f, r) ← pField r
    let (v, r) ← pVal r
    let v ← asDict v
    match r with
    | [h] => do
      let b ← unhex? h
      pure (if constructField f then outDec (fieldFrom f v b) else "err ProtocolError")
    | _ => none
  | "codec.fenc" :: r => do
    let (f, r) ← pField r
    let (v, r) ← pVal r
    if r ≠ [] then none
    let v ← asDict v
    pure (if constructField f then outEnc (fieldTo f v) else "err ProtocolError")
  | ["codec.pdu.dec", name, h] => do
    let d ← pduByName name
    let b ← unhex? h
    pure (outDec (fromBytes d b))
  | "codec.pdu.enc" :: name :: r => do
    let d ← pduByName name
    let (v, r) ← pVal r
    if r ≠ [] then none
    let v ← asDict v
    pure (outEnc (toBytes d v))
  -- documented layout (Spec.TrxdLayout), evaluated on message-codec field values
  | ["c17.layout.tx", ver, tn, fn, pwr, bits] => do
    let v ← nats? [ver, tn, fn, pwr]
    let b ← unhex? bits
    match v with
    | [ver, tn, fn, pwr] => pure (hex (OsmoVerif.Spec.Trxd.layoutTx ver tn fn pwr b))
    | _ => none
  | ["c17.layout.rx0", tn, fn, rssi, toa, bits, pad] => do
    let tn ← parseNat? tn; let fn ← parseNat? fn; let rssi ← parseInt? rssi; let toa ← parseInt? toa
    let b ← unhex? bits; let p ← unhex? pad
    pure (hex (OsmoVerif.Spec.Trxd.layoutRxV0 tn fn rssi toa b p))
  | ["c17.layout.rx1", tn, fn, rssi, toa, nope, mod, tsc, ci, bits] => do
    let tn ← parseNat? tn; let fn ← parseNat? fn; let rssi ← parseInt? rssi; let toa ← parseInt? toa
    let nope ← parseNat? nope; let mod ← parseNat? mod; let tsc ← parseNat? tsc; let ci ← parseInt? ci
    let b ← unhex? bits
    pure (hex (OsmoVerif.Spec.Trxd.layoutRxV1 tn fn rssi toa nope mod tsc ci b))
  | _ => none

end OsmoVerif.Driver.Codec
