import OsmoVerif.Model.RandBurst
import OsmoVerif.Driver.Util
/-! `rb.*` verbs (C10, burst generators of rand_burst_gen.py); same protocol as harness/py/randburst_harness.py
  rb.nb|rb.sb|rb.ab  TSC DRAWS   -> ok BITS REST | dry      TSC = member name of TrainingSeqGMSK or `-` (None);
                                                            DRAWS = comma separated naturals or `-`; BITS one digit per bit
                                                            (a value above 9 is printed as `x`), REST = number of unused draws
  rb.fb | rb.db                  -> ok BITS 0
-/
namespace OsmoVerif.Driver.RandBurst
open OsmoVerif.RandBurst OsmoVerif.Driver

def parseDraws? (s : String) : Option (List Nat) :=
  if s = "-" then some [] else (s.splitOn ",").mapM parseNat?

def showBits (l : List Nat) : String :=
  String.join (l.map fun b => if b ≤ 9 then toString b else "x")

def findTsc? (name : String) : Option (Option TsEntry) :=
  if name = "-" then some none
  else (OsmoVerif.Gen.World.trainSeqs.find? (fun e => e.1 = name)).map some

def render : Option (List Nat × List Nat) → String
  | some (b, rest) => s!"ok {showBits b} {rest.length}"
  | none => "dry"

def handle : List String → Option String
  | ["rb.nb", tsc, draws] => do
      let t ← findTsc? tsc; let d ← parseDraws? draws
      pure (render (genNb t d))
  | ["rb.sb", tsc, draws] => do
      let t ← findTsc? tsc; let d ← parseDraws? draws
      pure (render (genSb t d))
  | ["rb.ab", tsc, draws] => do
      let t ← findTsc? tsc; let d ← parseDraws? draws
      pure (render (genAb t d))
  | ["rb.fb"] => pure s!"ok {showBits genFb} 0"
  | ["rb.db"] => pure s!"ok {showBits genDb} 0"
  | _ => none

end OsmoVerif.Driver.RandBurst
