import OsmoVerif.Model.TdmaSched
import OsmoVerif.Driver.Util
/-
`ts.run CUR [def ... ;]* op ; op ; ...` — one line is a whole history on a zero-initialised
`l1s.tdma_sched` with `cur_bucket = CUR` (< ring depth).  Scripts first (at most one per callback id):
  def ID call | call | ...          the scheduler calls callback ID makes from inside when it is invoked,
                                    call = `sched OFF CB P1 P2 P3 PRIO` | `set OFF P3 <elem>...`
                                    (at most 16 calls, at most 64 elements per set)        -> k
Ops:
  sched OFF CB P1 P2 P3 PRIO        CB = callback id 0..24 or `E` (= &tdma_end_set)     -> r<rc>
  set OFF P3 <elem>...              elem = `i CB P1 P2 PRIO FLAGS` | `F` (SCHED_END_FRAME())
                                    | `E` (SCHED_END_SET()); at least one `E` required     -> r<rc>
  exec                              -> x<rc>[:id,p1,p2,p3,ret[/rc]...]...   (callbacks in invocation order,
                                       each followed by the return values of the calls it made from inside)
  adv -> a      reset -> z      flags -> f<tdma_sched_flag_scan()>      dump -> d<n0,n1,...>
The answer is the space-joined list of the per-op tokens.  Same protocol as harness/c/c08_harness.c.
-/
namespace OsmoVerif.Driver.TdmaSched
open OsmoVerif OsmoVerif.TdmaSched OsmoVerif.Driver

/-- the fixed callback table of the harness: what callback `id` returns -/
def harnessRet : Nat → Nat → Nat → Nat → Int := fun id p1 p2 p3 =>
  if id ≤ 7 then 0
  else if id = 8 then 1
  else if id = 9 then Int.ofNat p1
  else if id = 10 then -1
  else if id = 11 then -(Int.ofNat p2) - 1
  else if id = 12 then (if p3 % 2 = 1 then -5 else 0)
  else 0

def numCallbacks : Nat := 25
def maxScriptCalls : Nat := 16
def maxScriptSet : Nat := 64

def cbOfKind (k : Nat) : Cb := if k = 0 then .null else if k = 1 then .endSet else .fn 0

def itemOfGen (t : Nat × Nat × Nat × Nat × Int × Nat) : Item :=
  ⟨cbOfKind t.1, u8 t.2.1, u8 t.2.2.1, u16 t.2.2.2.1, i16 t.2.2.2.2.1, u16 t.2.2.2.2.2⟩

def parseCbId? (s : String) : Option Cb := do
  let n ← parseNat? s
  if n < numCallbacks then some (.fn n) else none

/-- elements of an item set; returns the items and whether an END_SET marker is present -/
def parseSet? : List String → Option (List Item)
  | [] => some []
  | "F" :: rest => do let r ← parseSet? rest; pure (itemOfGen Gen.tdmaEndFrame :: r)
  | "E" :: rest => do let r ← parseSet? rest; pure (itemOfGen Gen.tdmaEndSet :: r)
  | "i" :: cb :: p1 :: p2 :: prio :: flags :: rest => do
      let cb ← parseCbId? cb
      let p1 ← parseNat? p1; let p2 ← parseNat? p2
      let prio ← parseInt? prio; let flags ← parseNat? flags
      let r ← parseSet? rest
      pure (⟨cb, u8 p1, u8 p2, 0, i16 prio, u16 flags⟩ :: r)
  | _ => none

inductive Cmd where
  | op (o : Op)
  | flags
  | dump
  | defScript (id : Nat) (calls : List Call)

/-- split a token list at the tokens equal to `sep` -/
def splitAt (sep : String) (toks : List String) : List (List String) :=
  let r := toks.foldr (fun t (acc : List String × List (List String)) =>
    if t = sep then ([], acc.1 :: acc.2) else (t :: acc.1, acc.2)) ([], [])
  r.1 :: r.2

/-- `sched ...` / `set ...`: the arguments of a scheduler call (as an op or inside a script) -/
def parseCall? : List String → Option Call
  | ["sched", off, cb, p1, p2, p3, prio] => do
      let off ← parseNat? off
      let cb ← if cb = "E" then some Cb.endSet else parseCbId? cb
      let p1 ← parseNat? p1; let p2 ← parseNat? p2; let p3 ← parseNat? p3
      let prio ← parseInt? prio
      pure (.schedule off cb p1 p2 p3 prio)
  | "set" :: off :: p3 :: elems => do
      let off ← parseNat? off; let p3 ← parseNat? p3
      let items ← parseSet? elems
      if elems.contains "E" then pure (.scheduleSet off items p3) else none
  | _ => none

def callSetLen : Call → Nat
  | .scheduleSet _ set _ => set.length
  | _ => 0

def parseCmd? : List String → Option Cmd
  | "sched" :: rest => do
      match ← parseCall? ("sched" :: rest) with
      | .schedule off cb p1 p2 p3 prio => pure (.op (.schedule off cb p1 p2 p3 prio))
      | .scheduleSet off set p3 => pure (.op (.scheduleSet off set p3))
  | "set" :: rest => do
      match ← parseCall? ("set" :: rest) with
      | .schedule off cb p1 p2 p3 prio => pure (.op (.schedule off cb p1 p2 p3 prio))
      | .scheduleSet off set p3 => pure (.op (.scheduleSet off set p3))
  | "def" :: id :: rest => do
      let id ← parseNat? id
      if id ≥ numCallbacks then none
      let calls ← if rest.isEmpty then some [] else (splitAt "|" rest).mapM parseCall?
      if calls.length > maxScriptCalls then none
      if calls.any (fun c => callSetLen c > maxScriptSet) then none
      pure (.defScript id calls)
  | ["exec"] => some (.op .execute)
  | ["adv"] => some (.op .advance)
  | ["reset"] => some (.op .reset)
  | ["flags"] => some .flags
  | ["dump"] => some .dump
  | _ => none

def renderCall (env : Env) (itr : Item × List Int) : String :=
  let it := itr.1
  match it.cb with
  | .fn id => ":" ++ ",".intercalate
      [toString id, toString it.p1, toString it.p2, toString it.p3, toString (env.ret id it.p1 it.p2 it.p3)]
      ++ String.join (itr.2.map (fun rc => "/" ++ toString rc))
  | _ => ""

def faultName : Fault → String
  | .oob => "oob"
  | .nullCall => "nullcall"
  | .divZero => "divzero"

def runCmds (env : Env) : Sched → List Cmd → List String → Except Fault (List String)
  | _, [], acc => .ok acc.reverse
  | s, .flags :: rest, acc => do
      let f ← flagScan s
      runCmds env s rest (("f" ++ toString f) :: acc)
  | s, .dump :: rest, acc => do
      let d ← dump s
      runCmds env s rest (("d" ++ ",".intercalate (d.map toString)) :: acc)
  | s, .op o :: rest, acc => do
      let (s', out) ← step env s o
      let tok := match o with
        | .schedule .. => "r" ++ toString out.rc
        | .scheduleSet .. => "r" ++ toString out.rc
        | .advance => "a"
        | .reset => "z"
        | .execute => "x" ++ toString out.rc ++ String.join ((out.ran.zip out.rets).map (renderCall env))
      runCmds env s' rest (tok :: acc)
  | _, .defScript .. :: _, _ => .error .oob      -- not reached: scripts are taken off the front by `handle`

/-- `ts.*` verbs -/
def handle : List String → Option String
  | "ts.run" :: cur :: toks => do
      let cur ← parseNat? cur
      if cur ≥ Gen.tdmaNumFrames then none
      let cmds ← (splitAt ";" toks).mapM parseCmd?
      -- the scripts come first; at most one per id
      let defs := cmds.takeWhile (fun c => match c with | .defScript .. => true | _ => false)
      let rest := cmds.drop defs.length
      if rest.any (fun c => match c with | .defScript .. => true | _ => false) then none
      let scripts := defs.filterMap (fun c => match c with | .defScript id calls => some (id, calls) | _ => none)
      let ids := scripts.map (·.1)
      if ids.eraseDups.length ≠ ids.length then none
      match runCmds ⟨harnessRet, scripts⟩ (init cur) rest (defs.map (fun _ => "k")).reverse with
      | .ok out => pure (" ".intercalate out)
      | .error f => pure ("fault:" ++ faultName f)
  | _ => none

end OsmoVerif.Driver.TdmaSched
