import OsmoVerif.Model.Msgb
import OsmoVerif.Model.SercommMsgb
import OsmoVerif.Driver.Sercomm
import OsmoVerif.Driver.Util
/-!
`mb.run ALLOC OP …` and `mb.q OP …`, answered from `Model.Msgb`; same protocol as
harness/c/c06_msgb_harness.c.  Where the model's outcome is one of the undefined behaviours
(`Fault.oob`, `.vla`, `.shift`) the answer ends with `UB:<tag>`; `Fault.abort` is `ABORT`.
-/
namespace OsmoVerif.Driver.Msgb
open OsmoVerif.Msgb OsmoVerif.Driver

def stateStr (m : Msgb) : String :=
  s!"{m.head},{m.data},{m.tail},{m.len},{m.dataLen}"

def retStr : Ret → String
  | .unit => "-"
  | .ptr p => s!"p{p}"
  | .val v => s!"v{v}"

def faultStr : Fault → String
  | .abort => "ABORT"
  | .oob => "UB:oob"
  | .vla => "UB:vla"
  | .shift => "UB:shift"

def fnv (xs : List Nat) : Nat :=
  xs.foldl (fun h b => ((h ^^^ b) * 16777619) % 4294967296) 2166136261

def memStr (m : Msgb) : String :=
  if m.dataLen > 128 then s!"m#{fnv m.mem}" else "m:" ++ hex m.mem

def parseOps : List String → Option (List Op)
  | [] => some []
  | "reset" :: r => (Op.reset :: ·) <$> parseOps r
  | "tr" :: r => (Op.tailroom :: ·) <$> parseOps r
  | "hr" :: r => (Op.headroom :: ·) <$> parseOps r
  | "hl" :: r => (Op.headlen :: ·) <$> parseOps r
  | "len" :: r => (Op.length :: ·) <$> parseOps r
  | "gu8" :: r => (Op.getU8 :: ·) <$> parseOps r
  | "gu16" :: r => (Op.getU16 :: ·) <$> parseOps r
  | "gu32" :: r => (Op.getU32 :: ·) <$> parseOps r
  | "lu8" :: r => (Op.pullU8 :: ·) <$> parseOps r
  | "lu16" :: r => (Op.pullU16 :: ·) <$> parseOps r
  | "lu32" :: r => (Op.pullU32 :: ·) <$> parseOps r
  | "putd" :: h :: r => do let b ← unhex? h; (Op.putBytes b :: ·) <$> parseOps r
  | "pushd" :: h :: r => do let b ← unhex? h; (Op.pushBytes b :: ·) <$> parseOps r
  -- the harness converts the number to the C parameter type: `(unsigned int)`, `(uint8_t)`, … , `(int)`
  | "put" :: a :: r => do let a ← parseInt? a; (Op.put (a % 4294967296).toNat :: ·) <$> parseOps r
  | "get" :: a :: r => do let a ← parseInt? a; (Op.get (a % 4294967296).toNat :: ·) <$> parseOps r
  | "push" :: a :: r => do let a ← parseInt? a; (Op.push (a % 4294967296).toNat :: ·) <$> parseOps r
  | "pull" :: a :: r => do let a ← parseInt? a; (Op.pull (a % 4294967296).toNat :: ·) <$> parseOps r
  | "pu8" :: a :: r => do let a ← parseInt? a; (Op.putU8 (a % 256).toNat :: ·) <$> parseOps r
  | "pu16" :: a :: r => do let a ← parseInt? a; (Op.putU16 (a % 65536).toNat :: ·) <$> parseOps r
  | "pu32" :: a :: r => do let a ← parseInt? a; (Op.putU32 (a % 4294967296).toNat :: ·) <$> parseOps r
  | "reserve" :: a :: r => do let a ← parseInt? a; (Op.reserve (toI32 (a % 4294967296).toNat) :: ·) <$> parseOps r
  | "trim" :: a :: r => do let a ← parseInt? a; (Op.trim (toI32 (a % 4294967296).toNat) :: ·) <$> parseOps r
  | _ => none

def runOps (m : Msgb) (acc : List String) : List Op → List String
  | [] => (memStr m :: acc).reverse
  | op :: ops =>
    match step m op with
    | .ok (m', r) => runOps m' ((retStr r ++ "/" ++ stateStr m') :: acc) ops
    | .error f => (faultStr f :: acc).reverse

def runScript (toks : List String) : Option String := do
  let (m0, rest) ← (match toks with
    | "alloc" :: a :: rest => do
      let a ← parseInt? a
      -- `msgb_alloc((int) a, …)`: conversion to the `uint16_t` parameter
      some (Except.ok (alloc (u16i (toI32 (a % 4294967296).toNat))), rest)
    | "allochr" :: a :: b :: rest => do
      let a ← parseInt? a
      let b ← parseInt? b
      some (allocHeadroom (toI32 (a % 4294967296).toNat) (toI32 (b % 4294967296).toNat), rest)
    | "scalloc" :: a :: rest => do
      let a ← parseInt? a
      some (sercommAlloc (a % 4294967296).toNat, rest)
    | _ => none : Option (Except Fault Msgb × List String))
  let ops ← parseOps rest
  match m0 with
  | .error f => some (faultStr f)
  | .ok m => some (" ".intercalate (runOps m [("-/" ++ stateStr m)] ops))

/-! queue scripts: address 0 is NULL, the queue head is cell 1, buffer `id` is cell `id + 2`.

`Heap` is a function type, so a heap-valued model function such as `enqueue h q a` is compiled with the looked-up
address as an extra argument: every later lookup would re-run it (and the lookups inside it) — exponential in the
length of a history.  The driver therefore keeps the cells 0 … 19 as a table, turns the table into a `Heap` for one
model operation and tabulates the result again.  Cells outside the table (the `LLIST_POISON` addresses) are never read
by a legal history. -/

abbrev Tab := List Cell

def Tab.heap (t : Tab) : Heap := fun x => match t[x]? with | some c => c | none => ⟨0, 0⟩

def tabulate (h : Heap) : Tab := (List.range 20).map h

def walkIds (t : Tab) (fwd : Bool) : String :=
  let h := t.heap
  let rec go (fuel : Nat) (a : Nat) (acc : List String) : List String :=
    match fuel with
    | 0 => acc
    | fuel + 1 =>
      if a = 1 then acc
      else if a < 2 ∨ a > 17 then "?" :: acc
      else go fuel (if fwd then (h a).next else (h a).prev) (toString (a - 2) :: acc)
  let ids := (go 16 (if fwd then (h 1).next else (h 1).prev) []).reverse
  if ids.isEmpty then "-" else ",".intercalate ids

def queueStr (t : Tab) : String := "f:" ++ walkIds t true ++ ";b:" ++ walkIds t false

def runQueue (t : Tab) (live : List Nat) (acc : List String) : List String → Option (List String)
  | [] => some acc.reverse
  | "deq" :: r =>
    let (h', res) := dequeue t.heap 1
    let t' := tabulate h'
    let q := match res with
      | none => "q:none;"
      | some a => if a ≥ 2 ∧ a ≤ 17 ∧ live.contains (a - 2) then s!"q:{a - 2};" else "q:?;"
    runQueue t' live ((q ++ queueStr t') :: acc) r
  | "new" :: i :: r => do
    let i ← parseNat? i
    if i ≥ 16 ∨ live.contains i then none
    -- `_talloc_zero`: the cell of a new buffer is { NULL, NULL }
    let t' := t.set (i + 2) ⟨0, 0⟩
    runQueue t' (i :: live) (queueStr t' :: acc) r
  | "enq" :: i :: r => do
    let i ← parseNat? i
    if i ≥ 16 ∨ !live.contains i then none
    let t' := tabulate (enqueue t.heap 1 (i + 2))
    runQueue t' live (queueStr t' :: acc) r
  | "free" :: i :: r => do
    let i ← parseNat? i
    if i ≥ 16 ∨ !live.contains i then none
    runQueue t (live.erase i) (queueStr t :: acc) r
  | _ => none

/-! `mb.sc OP …` / `mb.sct OP …`: the histories of `sc.run` / `sc.runt` (Driver/Sercomm.lean, same operations, same
answers) on the machine WITH real message buffers (`Model/SercommMsgb.lean`); a msgb fault or a queue index beyond the
array is `CRASH`. -/

open OsmoVerif.Sercomm OsmoVerif.SercommMsgb OsmoVerif.Gen.Sercomm in
structure CDState where
  tab : HandlerTab
  w : CWorld
  regs : List (Nat × Int)

open OsmoVerif.Sercomm OsmoVerif.SercommMsgb OsmoVerif.Gen.Sercomm in
/-- the harness allocates `sercomm_alloc_msgb(n ? n : 1)` for a payload of `n` octets -/
def allocHarness (n : Nat) : Nat := max n 1

open OsmoVerif.Sercomm OsmoVerif.SercommMsgb OsmoVerif.Gen.Sercomm in
def crunOps (cap : Nat) : List String → CDState → Option (Except CFault CDState)
  | [], s => some (.ok s)
  | "reg" :: d :: rest, s => do
    let d ← parseNat? d
    if d > 255 then none
    let (tab, rc) := registerCb s.tab d .user
    crunOps cap rest { s with tab := tab, regs := (s.w.trace.length, rc) :: s.regs }
  | "send" :: d :: h :: rest, s => do
    let d ← parseNat? d
    if d > 255 then none
    let p ← unhex? h
    match CWorld.step (s.tab.cfg cap) cap allocHarness s.w (.send d p) with
    | .ok w => crunOps cap rest { s with w := w }
    | .error f => (fun _ => Except.error f) <$> crunOps cap rest s
  | "pull" :: n :: rest, s => do
    let n ← parseNat? n
    match CWorld.stepN (s.tab.cfg cap) cap allocHarness .pull n s.w with
    | .ok w => crunOps cap rest { s with w := w }
    | .error f => (fun _ => Except.error f) <$> crunOps cap rest s
  | "loop" :: n :: rest, s => do
    let n ← parseNat? n
    match CWorld.stepN (s.tab.cfg cap) cap allocHarness .loop n s.w with
    | .ok w => crunOps cap rest { s with w := w }
    | .error f => (fun _ => Except.error f) <$> crunOps cap rest s
  | "rx" :: h :: rest, s => do
    let p ← unhex? h
    match CWorld.step (s.tab.cfg cap) cap allocHarness s.w (.rx p) with
    | .ok w => crunOps cap rest { s with w := w }
    | .error f => (fun _ => Except.error f) <$> crunOps cap rest s
  | _, _ => none

open OsmoVerif.Sercomm OsmoVerif.SercommMsgb OsmoVerif.Gen.Sercomm in
def crunLine (cap : Nat) (toks : List String) : Option String := do
  let r ← crunOps cap toks ⟨HandlerTab.init nRxHandlers, CWorld.init nTxQueues, []⟩
  match r with
  | .error _ => pure "CRASH"
  | .ok s => pure (OsmoVerif.Driver.Sercomm.render s.w.trace.reverse s.regs.reverse)

/-- `mb.*` verbs -/
def handle : List String → Option String
  | "mb.sc" :: toks => crunLine (OsmoVerif.Gen.Sercomm.rxMsgSizeHost + OsmoVerif.Gen.Sercomm.allocSlack) toks
  | "mb.sct" :: toks => crunLine (OsmoVerif.Gen.Sercomm.rxMsgSizeTarget + OsmoVerif.Gen.Sercomm.allocSlack) toks
  | "mb.run" :: toks => runScript toks
  | "mb.q" :: toks => do
    let out ← runQueue (tabulate (initHead (fun _ => ⟨0, 0⟩) 1)) [] [] toks
    some (if out.isEmpty then "ok" else " ".intercalate out)
  | _ => none

end OsmoVerif.Driver.Msgb
