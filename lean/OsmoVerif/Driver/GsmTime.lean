import OsmoVerif.Model.GsmTime
import OsmoVerif.Driver.Util
namespace OsmoVerif.Driver.GsmTime
open OsmoVerif.GsmTime OsmoVerif.Driver

def render (t : OsmoVerif.GsmTime.GsmTime) : String := joinNat [t.fn, t.t1, t.t2, t.t3, t.tc]

/-- `gt.*` verbs -/
def handle : List String → Option String
  | ["gt.fn2time", fn] => do let fn ← parseNat? fn; pure (render (cFn2GsmTime fn))
  | ["gt.time2fn", a, b, c] => do
      let t1 ← parseNat? a; let t2 ← parseNat? b; let t3 ← parseNat? c
      pure (toString (cGsmTime2Fn ⟨0, t1, t2, t3, 0⟩))
  | ["gt.inc", fn, t1, t2, t3, tc, d] => do
      let v ← nats? [fn, t1, t2, t3, tc, d]
      match v with
      | [fn, t1, t2, t3, tc, d] => pure (render (cTimeInc ⟨fn, t1, t2, t3, tc⟩ d))
      | _ => none
  | ["gt.py", fn] => do
      let fn ← parseNat? fn
      let (a, b, c, d) := pyFn2GsmTime fn
      pure (joinNat [a, b, c, d])
  | _ => none

end OsmoVerif.Driver.GsmTime
