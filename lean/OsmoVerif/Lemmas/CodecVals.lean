/- Lemmas on the association-list model of Python dicts and on the callbacks (C16). -/
import OsmoVerif.Spec.Codec
namespace OsmoVerif.Codec

theorem Vals.keys_append (a b : Vals) : Vals.keys (a ++ b) = Vals.keys a ++ Vals.keys b := by
  simp [Vals.keys]

theorem Vals.keys_cons (k : String) (x : Val) (a : Vals) : Vals.keys ((k, x) :: a) = k :: Vals.keys a := rfl

theorem Vals.keys_nil : Vals.keys [] = [] := rfl

theorem Vals.get_append_of_ok : ∀ (pre r : Vals) (n : String) (x : Val),
    Vals.get pre n = .ok x → Vals.get (pre ++ r) n = .ok x
  | [], _, _, _, h => by simp [Vals.get] at h
  | (k, v) :: pre, r, n, x, h => by
    simp only [Vals.get, List.cons_append] at h ⊢
    by_cases hk : k = n
    · simpa [hk] using h
    · simp only [hk, if_false] at h ⊢
      exact Vals.get_append_of_ok pre r n x h

theorem Vals.get_append_of_not_mem : ∀ (pre r : Vals) (n : String),
    n ∉ Vals.keys pre → Vals.get (pre ++ r) n = Vals.get r n
  | [], _, _, _ => rfl
  | (k, v) :: pre, r, n, h => by
    simp only [Vals.keys_cons, List.mem_cons, not_or] at h
    simp only [Vals.get, List.cons_append]
    rw [if_neg (fun e => h.1 e.symm)]
    exact Vals.get_append_of_not_mem pre r n h.2

theorem Vals.get_cons_self (n : String) (x : Val) (r : Vals) : Vals.get ((n, x) :: r) n = .ok x := by
  simp [Vals.get]

theorem Vals.set_of_not_mem : ∀ (pre : Vals) (n : String) (x : Val),
    n ∉ Vals.keys pre → Vals.set pre n x = pre ++ [(n, x)]
  | [], _, _, _ => rfl
  | (k, v) :: pre, n, x, h => by
    simp only [Vals.keys_cons, List.mem_cons, not_or] at h
    simp only [Vals.set, List.cons_append]
    rw [if_neg (fun e => h.1 e.symm), Vals.set_of_not_mem pre n x h.2]

theorem Vals.get_error_key : ∀ (v : Vals) (n : String) (e : Err), Vals.get v n = .error e → e = .key
  | [], _, _, h => by simp [Vals.get] at h; exact h.symm
  | (k, x) :: v, n, e, h => by
    simp only [Vals.get] at h
    by_cases hk : k = n
    · simp [hk] at h
    · simp only [hk, if_false] at h
      exact Vals.get_error_key v n e h

/-- presence evaluated on the decoded prefix agrees with presence evaluated on the whole dict -/
theorem getPres_append (p : Pres) (pre r : Vals) (b : Bool) (h : getPres p pre = .ok b) :
    getPres p (pre ++ r) = .ok b := by
  cases p with
  | always => simpa [getPres] using h
  | flagTrue n =>
    simp only [getPres] at h ⊢
    cases hg : Vals.get pre n with
    | error e => simp [hg] at h
    | ok v => rw [Vals.get_append_of_ok pre r n v hg]; simpa [hg] using h
  | flagFalse n =>
    simp only [getPres] at h ⊢
    cases hg : Vals.get pre n with
    | error e => simp [hg] at h
    | ok v => rw [Vals.get_append_of_ok pre r n v hg]; simpa [hg] using h

theorem getLen_append (ld : LenD) (pre r : Vals) (dlen n : Nat) (h : getLen ld pre dlen = .ok n) :
    getLen ld (pre ++ r) dlen = .ok n := by
  cases ld with
  | fixed k => simpa [getLen] using h
  | rest => simpa [getLen] using h
  | thresh t a b => simpa [getLen] using h
  | ofField f =>
    simp only [getLen] at h ⊢
    cases hg : Vals.get pre f with
    | error e => simp [hg] at h
    | ok v => rw [Vals.get_append_of_ok pre r f v hg]; simpa [hg] using h
  | table f tbl =>
    simp only [getLen] at h ⊢
    cases hg : Vals.get pre f with
    | error e => simp [hg] at h
    | ok v => rw [Vals.get_append_of_ok pre r f v hg]; simpa [hg] using h

theorem lenOK_iff (ld : LenD) (pre : Vals) (L rest : Nat) :
    lenOK ld pre L rest = true ↔ getLen ld pre (L + rest) = .ok L := by
  unfold lenOK
  cases h : getLen ld pre (L + rest) with
  | error e => simp
  | ok n => simp

/-- a spare-compatible length does not depend on the buffer -/
theorem getLen_spare_indep (ld : LenD) (h : wfSpareLen ld = true) (pre : Vals) (a b : Nat) :
    getLen ld pre a = getLen ld pre b := by
  cases ld with
  | fixed n =>
    simp only [wfSpareLen, decide_eq_true_eq] at h
    have : n ≠ 0 := by omega
    simp [getLen, this]
  | rest => simp [wfSpareLen] at h
  | thresh t a b => simp [wfSpareLen] at h
  | ofField f => simp [getLen]
  | table f tbl => simp [getLen]

theorem fillerBytes_length (filler : List Nat) (n : Nat) : (fillerBytes filler n).length = n * filler.length := by
  induction n with
  | zero => simp [fillerBytes]
  | succ n ih => simp [fillerBytes, ih, Nat.succ_mul, Nat.add_comm]

end OsmoVerif.Codec
