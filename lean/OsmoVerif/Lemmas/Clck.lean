/-
Helper lemmas about `OsmoVerif.Model.Clck` (used by `Props/C09.lean`).
-/
import OsmoVerif.Model.Clck

namespace OsmoVerif.Clck

/-! ### list helpers -/

theorem getElem?_prev {α : Type} {l : List α} {k : Nat} {b : α} (h : l[k + 1]? = some b) :
    ∃ a, l[k]? = some a := by
  have hlt : k + 1 < l.length := (List.getElem?_eq_some_iff.1 h).1
  exact ⟨l[k]'(by omega), List.getElem?_eq_getElem (by omega)⟩

theorem getElem?_of_lt_length {α : Type} {l : List α} {k : Nat} (h : k < l.length) :
    ∃ a, l[k]? = some a := ⟨l[k], List.getElem?_eq_getElem h⟩

theorem lt_length_of_getElem? {α : Type} {l : List α} {k : Nat} {a : α} (h : l[k]? = some a) :
    k < l.length := (List.getElem?_eq_some_iff.1 h).1

theorem mem_take_of_getElem? {α : Type} {l : List α} {j k : Nat} {d : α} (h : l[j]? = some d)
    (hj : j < k) : d ∈ l.take k := by
  apply List.mem_of_getElem? (i := j)
  rw [List.getElem?_take, if_pos hj, h]

theorem mem_drop_take_of_getElem? {α : Type} {l : List α} {i j m : Nat} {d : α} (h : l[j]? = some d)
    (hi : i ≤ j) (hj : j < i + m) : d ∈ (l.drop i).take m := by
  apply mem_take_of_getElem? (j := j - i) _ (by omega)
  rw [List.getElem?_drop]
  have : i + (j - i) = j := by omega
  rw [this, h]

/-! ### decimal rendering -/

theorem decValue_append_single (xs : List Nat) (c : Nat) :
    decValue (xs ++ [c]) = 10 * decValue xs + (c - 48) := by
  simp only [decValue, List.foldl_append, List.foldl_cons, List.foldl_nil]

theorem decValue_decDigitsAux : ∀ (fuel n : Nat), n ≤ fuel → decValue (decDigitsAux fuel n) = n := by
  intro fuel
  induction fuel with
  | zero =>
    intro n h
    have : n = 0 := by omega
    subst this
    rfl
  | succ f ih =>
    intro n h
    unfold decDigitsAux
    by_cases h10 : n < 10
    · rw [if_pos h10]
      simp only [decValue, List.foldl_cons, List.foldl_nil]
      omega
    · rw [if_neg h10, decValue_append_single, ih (n / 10) (by omega)]
      omega

theorem decDigitsAux_digits : ∀ (fuel n : Nat), ∀ c ∈ decDigitsAux fuel n, 48 ≤ c ∧ c ≤ 57 := by
  intro fuel
  induction fuel with
  | zero =>
    intro n c hc
    simp only [decDigitsAux, List.mem_singleton] at hc
    omega
  | succ f ih =>
    intro n c hc
    unfold decDigitsAux at hc
    by_cases h10 : n < 10
    · rw [if_pos h10] at hc
      simp only [List.mem_singleton] at hc
      omega
    · rw [if_neg h10] at hc
      rcases List.mem_append.1 hc with h | h
      · exact ih _ _ h
      · simp only [List.mem_singleton] at h
        omega

/-! ### one loop iteration -/

theorem deadline_fst (c : Cfg) (s : Loop) :
    (deadline c s).1 = max (s.tNext + (c.tTick : Int)) s.now := by
  unfold deadline
  dsimp only
  split <;> dsimp only <;> omega

theorem deadline_snd (c : Cfg) (s : Loop) :
    (deadline c s).2 = max 0 (s.tNext + (c.tTick : Int) - s.now) := by
  unfold deadline
  dsimp only
  split <;> dsimp only <;> omega

/-- the wait ends exactly at the (possibly reset) deadline -/
theorem deadline_now (c : Cfg) (s : Loop) : s.now + (deadline c s).2 = (deadline c s).1 := by
  rw [deadline_fst, deadline_snd]; omega

theorem wrap_ne_zero : Gen.clckWrap ≠ 0 := by decide

theorem sendClckInd_next (c : Cfg) (src : Nat) (hp : 0 < c.period) :
    (sendClckInd c src).next = .ok ((src + 1) % Gen.clckWrap) := by
  unfold sendClckInd
  rw [if_neg (by omega)]
  dsimp only
  rw [if_neg wrap_ne_zero]

theorem sendClckInd_sends (c : Cfg) (src : Nat) (hp : 0 < c.period) :
    (sendClckInd c src).sends =
      if src % c.period = 0 then c.links.map (fun l => (l, payload src)) else [] := by
  unfold sendClckInd
  rw [if_neg (by omega)]

theorem sendClckInd_call (c : Cfg) (src : Nat) (hp : 0 < c.period) :
    (sendClckInd c src).call = if c.handler then some src else none := by
  unfold sendClckInd
  rw [if_neg (by omega)]

/-- the tick fired from loop state `s` -/
def tickOf (c : Cfg) (s : Loop) : Tick :=
  { dt := (deadline c s).2, time := s.now + (deadline c s).2, fn := s.src,
    sends := (sendClckInd c s.src).sends, call := (sendClckInd c s.src).call }

/-- the loop state after the tick fired from `s` whose handler took `d` -/
def next (c : Cfg) (s : Loop) (d : Nat) : Loop :=
  { tNext := (deadline c s).1, now := s.now + (deadline c s).2 + (dur c d : Int),
    src := (s.src + 1) % Gen.clckWrap }

theorem loop_cons (c : Cfg) (s : Loop) (d : Nat) (ds : List Nat) (hp : 0 < c.period) :
    loop c s (d :: ds) = (tickOf c s :: (loop c (next c s d) ds).1, (loop c (next c s d) ds).2) := by
  rw [loop]
  simp only [sendClckInd_next c s.src hp]
  rfl

theorem loop_nil (c : Cfg) (s : Loop) :
    loop c s [] = ([], .broke (deadline c s).2 (s.now + (deadline c s).2) s.src) := by
  rw [loop]

/-- time of the tick fired from the state that follows a tick: one tick period after that tick,
or the end of its handler if that is later -/
theorem tickOf_next_time (c : Cfg) (s : Loop) (d : Nat) :
    (tickOf c (next c s d)).time = (tickOf c s).time + max (c.tTick : Int) (dur c d : Int) := by
  simp only [tickOf]
  rw [deadline_now c (next c s d), deadline_fst c (next c s d)]
  simp only [next]
  rw [deadline_now c s]
  omega

theorem tickOf_next_dt (c : Cfg) (s : Loop) (d : Nat) :
    (tickOf c (next c s d)).dt = max 0 ((c.tTick : Int) - (dur c d : Int)) := by
  simp only [tickOf]
  rw [deadline_snd c (next c s d)]
  simp only [next]
  rw [deadline_now c s]
  omega

/-! ### the whole loop -/

theorem loop_length (c : Cfg) (hp : 0 < c.period) :
    ∀ (ds : List Nat) (s : Loop), (loop c s ds).1.length = ds.length := by
  intro ds
  induction ds with
  | nil => intro s; rw [loop_nil]; rfl
  | cons d ds ih => intro s; rw [loop_cons c s d ds hp]; simp only [List.length_cons, ih]

theorem loop_head (c : Cfg) (hp : 0 < c.period) (ds : List Nat) (s : Loop) (a : Tick)
    (h : (loop c s ds).1[0]? = some a) : a = tickOf c s := by
  cases ds with
  | nil => rw [loop_nil] at h; simp at h
  | cons d ds =>
    rw [loop_cons c s d ds hp] at h
    simp only [List.getElem?_cons_zero, Option.some.injEq] at h
    exact h.symm

/-- facts about a single tick that do not depend on its position -/
theorem loop_tick_local (c : Cfg) (hp : 0 < c.period) :
    ∀ (ds : List Nat) (s : Loop) (k : Nat) (a : Tick), (loop c s ds).1[k]? = some a →
      a.sends = (sendClckInd c a.fn).sends ∧ a.call = (sendClckInd c a.fn).call ∧ 0 ≤ a.dt := by
  intro ds
  induction ds with
  | nil => intro s k a h; rw [loop_nil] at h; simp at h
  | cons d ds ih =>
    intro s k a h
    rw [loop_cons c s d ds hp] at h
    cases k with
    | zero =>
      simp only [List.getElem?_cons_zero, Option.some.injEq] at h
      subst h
      refine ⟨rfl, rfl, ?_⟩
      simp only [tickOf]
      rw [deadline_snd]; omega
    | succ k =>
      rw [List.getElem?_cons_succ] at h
      exact ih _ _ _ h

/-- two consecutive ticks -/
theorem loop_consecutive (c : Cfg) (hp : 0 < c.period) :
    ∀ (ds : List Nat) (s : Loop) (k : Nat) (a b : Tick) (d : Nat),
      (loop c s ds).1[k]? = some a → (loop c s ds).1[k + 1]? = some b → ds[k]? = some d →
      b.time = a.time + max (c.tTick : Int) (dur c d : Int) ∧
      b.fn = (a.fn + 1) % Gen.clckWrap ∧
      b.dt = max 0 ((c.tTick : Int) - (dur c d : Int)) := by
  intro ds
  induction ds with
  | nil => intro s k a b d h; rw [loop_nil] at h; simp at h
  | cons d0 ds ih =>
    intro s k a b d ha hb hd
    rw [loop_cons c s d0 ds hp] at ha hb
    cases k with
    | zero =>
      simp only [List.getElem?_cons_zero, Option.some.injEq] at ha hd
      rw [List.getElem?_cons_succ] at hb
      have hb' := loop_head c hp ds (next c s d0) b hb
      subst ha; subst hd; subst hb'
      exact ⟨tickOf_next_time c s d0, rfl, tickOf_next_dt c s d0⟩
    | succ k =>
      rw [List.getElem?_cons_succ] at ha hb hd
      exact ih _ _ _ _ _ ha hb hd

/-- under a positive period the worker never raises: it leaves through the breaker -/
theorem loop_end (c : Cfg) (hp : 0 < c.period) :
    ∀ (ds : List Nat) (s : Loop), ∃ dt t src, (loop c s ds).2 = .broke dt t src := by
  intro ds
  induction ds with
  | nil => intro s; rw [loop_nil]; exact ⟨_, _, _, rfl⟩
  | cons d ds ih => intro s; rw [loop_cons c s d ds hp]; exact ih _

/-! ### histories -/

theorem history_append (c : Cfg) : ∀ (xs ys : List Op) (o : Obj),
    history c o (xs ++ ys) =
      ((history c (history c o xs).1 ys).1, (history c o xs).2 ++ (history c (history c o xs).1 ys).2) := by
  intro xs
  induction xs with
  | nil => intro ys o; simp only [List.nil_append, history]
  | cons x xs ih =>
    intro ys o
    simp only [List.cons_append, history, ih, List.cons_append]

end OsmoVerif.Clck
