/-
The invariant `Sane` of the fake_trx world (C14): every configured hopping object came out of
`HoppingParams.__init__`, drop period ≥ 1, drop amount ≥ 0, randomisation thresholds ≥ 0,
`clck_src` exists while the generator runs, queued messages are as `parse_msg` leaves them.
It holds for the start-up world, is preserved by every operation, and under it the clock tick
(clck_tick → forward_msg → handle_data_msg → send_msg) cannot raise.
-/
import OsmoVerif.Lemmas.WorldCtrl
import OsmoVerif.Lemmas.WorldCodec
set_option linter.unusedSimpArgs false

namespace OsmoVerif.World
open OsmoVerif OsmoVerif.PyStr

/-- octets: the element type invariant of Python `bytes` -/
def Octets (d : List Nat) : Prop := ∀ x ∈ d, x < 256

/-- a queued message as `parse_msg` leaves it: frame number, timeslot and attenuation set, the
burst (if any) byte-valued -/
def MsgSane (m : Trxd.TxMsg) : Prop :=
  m.fn.isSome = true ∧ m.tn.isSome = true ∧ m.pwr.isSome = true ∧ m.WellTyped

/-- per-transceiver invariant of every reachable world -/
structure TrxSane (t : Trx) : Prop where
  /-- a configured hopping object came out of `HoppingParams.__init__` -/
  fh : ∀ hp, t.fh = some hp → ∃ hsn maio ma, Hopping.pyInit hsn maio ma = .ok hp
  dropPeriod : 1 ≤ t.dropPeriod
  dropAmount : 0 ≤ t.dropAmount
  toaThr : 0 ≤ t.toaThr
  ciThr : 0 ≤ t.ciThr
  rssiThr : t.fakeRssi = true → 0 ≤ t.rssiThr
  queue : ∀ m ∈ t.txQueue, MsgSane m

def AllSane (ts : List Trx) : Prop := ∀ t ∈ ts, TrxSane t

/-- invariant of every reachable world -/
structure Sane (w : World) : Prop where
  trxs : AllSane w.trxs
  /-- `clck_src` exists once the generator has been started -/
  clk : w.clkRunning = true → w.clkSrc.isSome = true

theorem allSane_modify {ts : List Trx} (h : AllSane ts) (i : Nat) {f : Trx → Trx}
    (hf : ∀ t, TrxSane t → TrxSane (f t)) : AllSane (ts.modify i f) := by
  intro t ht
  obtain ⟨k, hk⟩ := List.mem_iff_getElem?.mp ht
  rw [List.getElem?_modify] at hk
  cases hts : ts[k]? with
  | none => rw [hts] at hk; cases hk
  | some t0 =>
    have h0 : TrxSane t0 := h t0 (List.mem_iff_getElem?.mpr ⟨k, hts⟩)
    rw [hts] at hk
    split at hk
    · cases hk; exact hf t0 h0
    · cases hk; exact h0

theorem allSane_setTrx {w : World} (h : AllSane w.trxs) (i : Nat) {f : Trx → Trx}
    (hf : ∀ t, TrxSane t → TrxSane (f t)) : AllSane (setTrx w i f).trxs :=
  allSane_modify h i hf

theorem allSane_get {w : World} (h : AllSane w.trxs) {i : Nat} {t : Trx} (ht : w.trxs[i]? = some t) :
    TrxSane t := h t (List.mem_iff_getElem?.mpr ⟨i, ht⟩)

theorem getTxFreq_ok {t : Trx} (h : TrxSane t) (fn : Nat) : ∃ v, t.getTxFreq fn = .ok v := by
  unfold Trx.getTxFreq Hopping.Trx.getTxFreq Trx.hop
  cases hf : t.fh with
  | none => exact ⟨_, rfl⟩
  | some hp =>
    obtain ⟨hsn, maio, ma, hi⟩ := h.fh hp hf
    obtain ⟨v, hv⟩ := Hopping.resolve_total hi fn
    simp only [hv]
    exact ⟨_, rfl⟩

theorem getRxFreq_ok {t : Trx} (h : TrxSane t) (fn : Nat) : ∃ v, t.getRxFreq fn = .ok v := by
  unfold Trx.getRxFreq Hopping.Trx.getRxFreq Trx.hop
  cases hf : t.fh with
  | none => exact ⟨_, rfl⟩
  | some hp =>
    obtain ⟨hsn, maio, ma, hi⟩ := h.fh hp hf
    obtain ⟨v, hv⟩ := Hopping.resolve_total hi fn
    simp only [hv]
    exact ⟨_, rfl⟩

theorem sendMsg_ok (trx : Trx) (msg : Trxd.RxMsg) (l : Bool) : ∃ ds, sendMsg trx msg l = .ok ds := by
  unfold sendMsg Trxd.sendMsg
  rcases Trxd.RxMsg.genMsg_safe msg l with ⟨b, hb⟩ | he
  · rw [hb]; exact ⟨_, rfl⟩
  · rw [he]; exact ⟨_, rfl⟩

theorem randAround_ok (w : World) (base : Int) {thr : Int} (h : 0 ≤ thr) :
    ∃ v w', randAround w base thr = .ok (v, w') ∧ w'.trxs = w.trxs ∧ w'.clkRunning = w.clkRunning
      ∧ w'.clkSrc = w.clkSrc ∧ w'.clkLinks = w.clkLinks := by
  unfold randAround
  split
  · exact ⟨_, _, rfl, rfl, rfl, rfl, rfl⟩
  · obtain ⟨v, hv, _⟩ := randint_ok w (show base - thr ≤ base + thr by omega)
    exact ⟨_, _, hv, rfl, rfl, rfl, rfl⟩
/-! ### the burst path cannot raise in a sane world -/

theorem trxSane_dropDec {t : Trx} (h : TrxSane t) (hd : t.dropAmount ≠ 0) :
    TrxSane { t with dropAmount := t.dropAmount - 1 } :=
  { h with dropAmount := by have := h.dropAmount; show 0 ≤ t.dropAmount - 1; omega }

theorem allSane_setTrx_at {w : World} (h : AllSane w.trxs) {i : Nat} {t0 : Trx} {f : Trx → Trx}
    (ht : w.trxs[i]? = some t0) (hf : TrxSane (f t0)) : AllSane (setTrx w i f).trxs := by
  intro t hmem
  obtain ⟨k, hk⟩ := List.mem_iff_getElem?.mp hmem
  rw [setTrx_getElem?] at hk
  split at hk
  · rename_i hik; subst hik; rw [ht] at hk; cases hk; exact hf
  · exact h t (List.mem_iff_getElem?.mpr ⟨k, hk⟩)

theorem ok_bind {α β : Type} (a : α) (f : α → Except Exc β) : (Except.ok a >>= f) = f a := rfl
theorem pure_eq_ok {α : Type} (a : α) : (pure a : Except Exc α) = Except.ok a := rfl

theorem handleDataMsg_ok {w : World} {k j : Nat} {srcMsg : Trxd.TxMsg} {msg : Trxd.RxMsg}
    (hs : AllSane w.trxs) (hk : k < w.trxs.length) (hj : j < w.trxs.length)
    (hfn : msg.fn.isSome = true) (hb : msg.nopeInd = false → srcMsg.burst.isSome = true)
    (hp : srcMsg.pwr.isSome = true) :
    ∃ w' ds, handleDataMsg w k j srcMsg msg = .ok (w', ds) ∧ AllSane w'.trxs ∧
      w'.trxs.length = w.trxs.length := by
  obtain ⟨self, hself⟩ := getElem?_of_lt hk
  obtain ⟨src, hsrc⟩ := getElem?_of_lt hj
  have sself := allSane_get hs hself
  unfold handleDataMsg
  simp only [hself, hsrc]
  split
  · -- the drop decision cannot fail
    rename_i e heq
    exfalso
    repeat' split at heq
    all_goals first
      | (cases heq; done)
      | (rename_i hnone; rw [hnone] at hfn; cases hfn)
      | (rename_i hz; have := sself.dropPeriod; omega)
  · rename_i nope w1 heq
    have hw1 : AllSane w1.trxs ∧ w1.trxs.length = w.trxs.length ∧
        (nope = false → w1 = w ∧ msg.nopeInd = false) := by
      repeat' split at heq
      all_goals first
        | (cases heq; done)
        | (cases heq; exact ⟨hs, rfl, fun h => Bool.noConfusion h⟩)
        | (cases heq; exact ⟨hs, rfl, fun _ => ⟨rfl, by simpa using ‹¬ msg.nopeInd = true›⟩⟩)
        | (cases heq
           exact ⟨allSane_setTrx_at hs hself (trxSane_dropDec sself ‹_›), by simp,
             fun h => Bool.noConfusion h⟩)
    obtain ⟨hs1, hl1, hnn⟩ := hw1
    cases nope with
    | true =>
      simp only [if_true]
      split
      · exact ⟨_, _, rfl, hs1, hl1⟩
      · obtain ⟨ds, hds⟩ := sendMsg_ok self (nopeMsg msg) false
        rw [hds]
        exact ⟨_, _, rfl, hs1, hl1⟩
    | false =>
      obtain ⟨rfl, hni⟩ := hnn rfl
      obtain ⟨toa, w2, h2, e2, _⟩ := randAround_ok w1 self.toaBase sself.toaThr
      obtain ⟨pwr, hpwr⟩ := Option.isSome_iff_exists.mp hp
      obtain ⟨bits, hbits⟩ := Option.isSome_iff_exists.mp (hb hni)
      have key : ∀ (M : Trxd.RxMsg) (w3 : World), w3.trxs = w1.trxs →
          ∃ w' ds, (sendMsg self M true >>= fun ds => pure (w3, ds)) = .ok (w', ds) ∧
            AllSane w'.trxs ∧ w'.trxs.length = w1.trxs.length := by
        intro M w3 h3
        obtain ⟨ds, hds⟩ := sendMsg_ok self M true
        rw [hds]
        exact ⟨w3, ds, rfl, by rw [h3]; exact hs1, by rw [h3]⟩
      simp only [Bool.false_eq_true, if_false, h2, ok_bind, hpwr, hbits, pure_eq_ok]
      by_cases hfr : self.fakeRssi = true
      · obtain ⟨rssi, w3, h3, e3, _⟩ := randAround_ok w2 self.rssiBase (sself.rssiThr hfr)
        simp only [hfr, not_true_eq_false, if_false, h3, ok_bind]
        by_cases hv : msg.ver ≥ 1
        · obtain ⟨ci, w4, h4, e4, _⟩ := randAround_ok w3 self.ciBase sself.ciThr
          simp only [hv, if_true, h4, ok_bind]
          exact key _ _ (by rw [e4, e3, e2])
        · simp only [hv, if_false, ok_bind]
          exact key _ _ (by rw [e3, e2])
      · simp only [hfr, not_false_eq_true, if_true, ok_bind]
        by_cases hv : msg.ver ≥ 1
        · obtain ⟨ci, w4, h4, e4, _⟩ := randAround_ok w2 self.ciBase sself.ciThr
          simp only [hv, if_true, h4, ok_bind]
          exact key _ _ (by rw [e4, e2])
        · simp only [hv, if_false, ok_bind]
          exact key _ _ (by rw [e2])
theorem forwardMsg_go_ok (j fn : Nat) (txFreq : Option Int) (msg : Trxd.TxMsg) (N : Nat)
    (hw : msg.WellTyped) (hp : msg.pwr.isSome = true) (hf : msg.fn.isSome = true) (hj : j < N) :
    ∀ (ks : List Nat) (w : World) (acc : List Dgram), (∀ k ∈ ks, k < N) → AllSane w.trxs →
      w.trxs.length = N →
      ∃ w' ds, forwardMsg.go j fn txFreq msg w acc ks = .ok (w', ds) ∧ AllSane w'.trxs ∧
        w'.trxs.length = N := by
  intro ks
  induction ks with
  | nil => intro w acc _ hs hl; exact ⟨w, acc, by simp only [forwardMsg.go], hs, hl⟩
  | cons k ks ih =>
    intro w acc hks hs hl
    have hk : k < w.trxs.length := by rw [hl]; exact hks k List.mem_cons_self
    have hks' : ∀ k ∈ ks, k < N := fun x hx => hks x (List.mem_cons_of_mem _ hx)
    obtain ⟨trx, htrx⟩ := getElem?_of_lt hk
    simp only [forwardMsg.go, htrx]
    split
    · exact ih w acc hks' hs hl
    · split
      · exact ih w acc hks' hs hl
      · obtain ⟨rxf, hrxf⟩ := getRxFreq_ok (allSane_get hs htrx) fn
        simp only [hrxf]
        split
        · exact ih w acc hks' hs hl
        · obtain ⟨rx, hrx, hrfn, hrn, _⟩ := Trxd.TxMsg.trans_ok msg (some trx.hdrVer) hw
          simp only [hrx]
          obtain ⟨w2, ds, h2, hs2, hl2⟩ := handleDataMsg_ok (k := k) (j := j) (srcMsg := msg) (msg := rx)
            hs hk (by rw [hl]; exact hj) (by rw [hrfn]; exact hf) hrn hp
          simp only [h2]
          exact ih w2 (acc ++ ds) hks' hs2 (by rw [hl2, hl])

theorem forwardMsg_ok {w : World} {j : Nat} {m : Trxd.TxMsg} (hs : AllSane w.trxs)
    (hj : j < w.trxs.length) (hm : MsgSane m) :
    ∃ w' ds, forwardMsg w j m = .ok (w', ds) ∧ AllSane w'.trxs ∧ w'.trxs.length = w.trxs.length := by
  obtain ⟨src, hsrc⟩ := getElem?_of_lt hj
  obtain ⟨hfn, _, hpwr, hwt⟩ := hm
  obtain ⟨fnI, hfnI⟩ := Option.isSome_iff_exists.mp hfn
  obtain ⟨txf, htxf⟩ := getTxFreq_ok (allSane_get hs hsrc) fnI.toNat
  unfold forwardMsg
  simp only [hsrc, hfnI, htxf]
  apply forwardMsg_go_ok j fnI.toNat txf _ w.trxs.length ?_ ?_ ?_ hj _ w [] ?_ hs rfl
  · split
    · intro b hb; cases hb
    · exact hwt
  · split <;> exact hpwr
  · split <;> (simp only [hfnI]; rfl)
  · intro k hk; exact List.mem_range.mp hk
theorem clckTick_go_ok (j : Nat) (N : Nat) (hj : j < N) :
    ∀ (ms : List Trxd.TxMsg) (w : World) (acc : List Dgram), (∀ m ∈ ms, MsgSane m) →
      AllSane w.trxs → w.trxs.length = N →
      ∃ w' ds, clckTick.go j w acc ms = .ok (w', ds) ∧ AllSane w'.trxs ∧ w'.trxs.length = N := by
  intro ms
  induction ms with
  | nil => intro w acc _ hs hl; exact ⟨w, acc, by simp only [clckTick.go], hs, hl⟩
  | cons m ms ih =>
    intro w acc hms hs hl
    obtain ⟨w2, ds, h2, hs2, hl2⟩ := forwardMsg_ok hs (by rw [hl]; exact hj) (hms m List.mem_cons_self)
    simp only [clckTick.go, h2]
    exact ih w2 (acc ++ ds) (fun x hx => hms x (List.mem_cons_of_mem _ hx)) hs2 (by rw [hl2, hl])

theorem trxSane_queue {t : Trx} (h : TrxSane t) {q : List Trxd.TxMsg} (hq : ∀ m ∈ q, MsgSane m) :
    TrxSane { t with txQueue := q } :=
  { h with queue := hq }

theorem clckTick_ok {w : World} {j : Nat} (fn : Nat) (hs : AllSane w.trxs) (hj : j < w.trxs.length) :
    ∃ w' ds st, clckTick w j fn = .ok (w', ds, st) ∧ AllSane w'.trxs ∧
      w'.trxs.length = w.trxs.length := by
  obtain ⟨trx, htrx⟩ := getElem?_of_lt hj
  have st := allSane_get hs htrx
  unfold clckTick
  simp only [htrx]
  split
  · exact ⟨_, _, _, rfl, hs, rfl⟩
  · have hsub : ∀ (p : Trxd.TxMsg → Bool), ∀ m ∈ trx.txQueue.filter p, MsgSane m :=
      fun p m hm => st.queue m (List.mem_filter.mp hm).1
    obtain ⟨w2, ds, h2, hs2, hl2⟩ := clckTick_go_ok j w.trxs.length hj
      (trx.txQueue.filter (fun m => classify fn m == .emit))
      (setTrx w j (fun t => { t with txQueue := trx.txQueue.filter (fun m => classify fn m == .wait) }))
      [] (hsub _)
      (allSane_setTrx_at hs htrx (trxSane_queue st (hsub _))) (by simp)
    simp only [h2]
    exact ⟨_, _, _, rfl, hs2, hl2⟩
theorem tick_go_ok (fn N : Nat) :
    ∀ (js : List Nat) (w : World) (acc : List Dgram) (st : Nat), (∀ j ∈ js, j < N) →
      AllSane w.trxs → w.trxs.length = N →
      (tick.go fn w acc st js).exc = none ∧ AllSane (tick.go fn w acc st js).world.trxs ∧
        (tick.go fn w acc st js).world.clkSrc.isSome = true ∧
        (tick.go fn w acc st js).world.trxs.length = N := by
  intro js
  induction js with
  | nil =>
    intro w acc st _ hs hl
    rw [tick.go]
    exact ⟨rfl, hs, rfl, hl⟩
  | cons j js ih =>
    intro w acc st hjs hs hl
    obtain ⟨w2, ds, st2, h2, hs2, hl2⟩ := clckTick_ok fn hs (show j < w.trxs.length by
      rw [hl]; exact hjs j List.mem_cons_self)
    simp only [tick.go, h2]
    exact ih w2 (acc ++ ds) (st + st2) (fun x hx => hjs x (List.mem_cons_of_mem _ hx)) hs2
      (by rw [hl2, hl])

/-- the clock tick cannot raise in a sane world, and leaves a sane world -/
theorem tick_ok {w : World} (h : Sane w) : (tick w).exc = none ∧ Sane (tick w).world := by
  unfold tick
  split
  · exact ⟨rfl, h⟩
  · rename_i hr
    have hr' : w.clkRunning = true := by simpa using hr
    obtain ⟨fn, hfn⟩ := Option.isSome_iff_exists.mp (h.clk hr')
    simp only [hfn]
    obtain ⟨h1, h2, h3, _⟩ := tick_go_ok fn w.trxs.length (List.range w.trxs.length) w
      (if fn % Gen.World.indPeriod = 0 then
        w.clkLinks.filterMap (fun i => (w.trxs[i]?).map (fun t =>
          ⟨t.clckPort, t.addr, t.clckRemote, encodeUtf8 (lit "IND CLOCK " ++ natDigits fn ++ [0])⟩))
       else []) 0
      (fun j hj => List.mem_range.mp hj) h.trxs rfl
    exact ⟨h1, ⟨h2, fun _ => h3⟩⟩
/-! ### commands keep the invariant -/

/-- the assignments a command can make keep the invariant: thresholds non-negative, drop period
positive, hopping object built by `__init__` -/
def PatchSane : Patch → Prop
  | .toa _ thr => 0 ≤ thr
  | .rssi _ thr => 0 ≤ thr
  | .ci _ thr => 0 ≤ thr
  | .drop n per => 0 ≤ n ∧ 1 ≤ per
  | .fh hp => ∃ hsn maio ma, Hopping.pyInit hsn maio ma = .ok hp
  | _ => True

def OptPatchSane : Option Patch → Prop
  | none => True
  | some p => PatchSane p

theorem patch_apply_sane {p : Patch} {t : Trx} (hp : PatchSane p) (ht : TrxSane t) :
    TrxSane (p.apply t) := by
  cases p with
  | ta v => exact { ht with }
  | toa b th => exact { ht with toaThr := hp }
  | toaDelta d => exact { ht with }
  | rssi b th => exact { ht with rssiThr := fun _ => hp }
  | rssiOff => exact { ht with rssiThr := fun h => by cases h }
  | rssiDelta d => exact { ht with }
  | ci b th => exact { ht with ciThr := hp }
  | ciDelta d => exact { ht with }
  | drop n per => exact { ht with dropAmount := hp.1, dropPeriod := hp.2 }
  | delay ms => exact { ht with }
  | rxFreq hz => exact { ht with }
  | txFreq hz => exact { ht with }
  | hdrVer v => exact { ht with }
  | txAtt a => exact { ht with }
  | mute b => exact { ht with }
  | fh hp' => exact { ht with fh := fun x hx => by cases hx; exact hp }

macro "sane_finish" h:ident : tactic =>
  `(tactic| (
    simp only [arg_one, arg_two, bind, Except.bind, pure, Except.pure, map_eq] at $h:ident
    repeat' split at $h:ident
    all_goals first
      | (cases $h:ident; done)
      | contradiction
      | (cases $h:ident; simp only [OptPatchSane, PatchSane]; done)
      | (cases $h:ident; simp only [OptPatchSane, PatchSane]; omega)
      | (cases ‹(Except.ok _ : Except Exc Int) = Except.ok _›; cases $h:ident
         simp only [OptPatchSane, PatchSane]; omega)))

theorem ctrlCmdHandler_sane {req : List Str} {patch : Option Patch} {res : Option Int}
    (h : ctrlCmdHandler req = .ok (patch, res)) : OptPatchSane patch := by
  unfold ctrlCmdHandler at h
  by_cases hv : verifyCmd req "SETTA" 1 = true
  · rw [if_pos hv] at h; obtain ⟨a, rfl⟩ := verifyCmd1 hv; clear hv; sane_finish h
  rw [if_neg hv] at h; clear hv
  by_cases hv : verifyCmd req "FAKE_TOA" 2 = true
  · rw [if_pos hv] at h; obtain ⟨a, b, rfl⟩ := verifyCmd2 hv; clear hv; sane_finish h
  rw [if_neg hv] at h; clear hv
  by_cases hv : verifyCmd req "FAKE_TOA" 1 = true
  · rw [if_pos hv] at h; obtain ⟨a, rfl⟩ := verifyCmd1 hv; clear hv; sane_finish h
  rw [if_neg hv] at h; clear hv
  by_cases hv : verifyCmd req "FAKE_RSSI" 2 = true
  · rw [if_pos hv] at h; obtain ⟨a, b, rfl⟩ := verifyCmd2 hv; clear hv; sane_finish h
  rw [if_neg hv] at h; clear hv
  by_cases hv : verifyCmd req "FAKE_RSSI" 1 = true
  · rw [if_pos hv] at h; obtain ⟨a, rfl⟩ := verifyCmd1 hv; clear hv; sane_finish h
  rw [if_neg hv] at h; clear hv
  by_cases hv : verifyCmd req "FAKE_CI" 2 = true
  · rw [if_pos hv] at h; obtain ⟨a, b, rfl⟩ := verifyCmd2 hv; clear hv; sane_finish h
  rw [if_neg hv] at h; clear hv
  by_cases hv : verifyCmd req "FAKE_CI" 1 = true
  · rw [if_pos hv] at h; obtain ⟨a, rfl⟩ := verifyCmd1 hv; clear hv; sane_finish h
  rw [if_neg hv] at h; clear hv
  by_cases hv : verifyCmd req "FAKE_DROP" 1 = true
  · rw [if_pos hv] at h; obtain ⟨a, rfl⟩ := verifyCmd1 hv; clear hv; sane_finish h
  rw [if_neg hv] at h; clear hv
  by_cases hv : verifyCmd req "FAKE_DROP" 2 = true
  · rw [if_pos hv] at h; obtain ⟨a, b, rfl⟩ := verifyCmd2 hv; clear hv; sane_finish h
  rw [if_neg hv] at h; clear hv
  by_cases hv : verifyCmd req "FAKE_TRXC_DELAY" 1 = true
  · rw [if_pos hv] at h; obtain ⟨a, rfl⟩ := verifyCmd1 hv; clear hv; sane_finish h
  rw [if_neg hv] at h; clear hv
  cases h; exact True.intro

def ActionSane : Action → Prop
  | .patch p _ => PatchSane p
  | _ => True

macro "asane_finish" h:ident : tactic =>
  `(tactic| (
    simp only [arg_one, arg_two, bind, Except.bind, pure, Except.pure, map_eq] at $h:ident
    repeat' split at $h:ident
    all_goals first
      | (cases $h:ident; done)
      | contradiction
      | (cases $h:ident; simp only [ActionSane, PatchSane]; done)))

theorem commonCmd_sane {trx : Trx} {req : List Str} {a : Action} (h : commonCmd trx req = .ok a) :
    ActionSane a := by
  unfold commonCmd at h
  by_cases hv : verifyCmd req "POWERON" 0 = true
  · rw [if_pos hv] at h; clear hv; asane_finish h
  rw [if_neg hv] at h; clear hv
  by_cases hv : verifyCmd req "POWEROFF" 0 = true
  · rw [if_pos hv] at h; clear hv; asane_finish h
  rw [if_neg hv] at h; clear hv
  by_cases hv : verifyCmd req "RXTUNE" 1 = true
  · rw [if_pos hv] at h; obtain ⟨a, rfl⟩ := verifyCmd1 hv; clear hv; asane_finish h
  rw [if_neg hv] at h; clear hv
  by_cases hv : verifyCmd req "TXTUNE" 1 = true
  · rw [if_pos hv] at h; obtain ⟨a, rfl⟩ := verifyCmd1 hv; clear hv; asane_finish h
  rw [if_neg hv] at h; clear hv
  by_cases hv : verifyCmd req "MEASURE" 1 = true
  · rw [if_pos hv] at h; obtain ⟨a, rfl⟩ := verifyCmd1 hv; clear hv; asane_finish h
  rw [if_neg hv] at h; clear hv
  by_cases hv : verifyCmd req "SETFH" 4 true = true
  · rw [if_pos hv] at h; clear hv
    simp only [bind, Except.bind, pure, Except.pure] at h
    repeat' split at h
    all_goals first
      | (cases h; done)
      | contradiction
      | (cases h; exact ⟨_, _, _, ‹_›⟩)
      | (cases h; exact True.intro)
  rw [if_neg hv] at h; clear hv
  by_cases hv : verifyCmd req "SETFORMAT" 1 = true
  · rw [if_pos hv] at h; obtain ⟨a, rfl⟩ := verifyCmd1 hv; clear hv; asane_finish h
  rw [if_neg hv] at h; clear hv
  by_cases hv : verifyCmd req "SETPOWER" 1 = true
  · rw [if_pos hv] at h; obtain ⟨a, rfl⟩ := verifyCmd1 hv; clear hv; asane_finish h
  rw [if_neg hv] at h; clear hv
  by_cases hv : verifyCmd req "NOMTXPOWER" 0 = true
  · rw [if_pos hv] at h; clear hv; asane_finish h
  rw [if_neg hv] at h; clear hv
  by_cases hv : verifyCmd req "RFMUTE" 1 = true
  · rw [if_pos hv] at h; obtain ⟨a, rfl⟩ := verifyCmd1 hv; clear hv; asane_finish h
  rw [if_neg hv] at h; clear hv
  cases h; exact True.intro
theorem powerSet_sane (on : Bool) : ∀ (list : List Nat) (w : World), Sane w → Sane (powerSet w list on) := by
  intro list
  induction list with
  | nil => intro w h; exact h
  | cons j js ih =>
    intro w h
    simp only [powerSet, List.foldl_cons]
    apply ih
    refine ⟨allSane_setTrx h.trxs j (fun t ht => ?_), h.clk⟩
    cases on with
    | true => exact { ht with }
    | false =>
      exact { ht with
        fh := fun hp hh => by cases hh
        queue := fun m hm => by cases hm }

theorem powerClock_sane {w : World} (i : Nat) (on : Bool) (h : Sane w) : Sane (powerClock w i on) := by
  have key : ∀ links : List Nat, Sane
      (if ¬ w.clkRunning ∧ links.length > 0 then
        { w with clkLinks := links, clkRunning := true, clkSrc := some Gen.World.clckStart }
      else if w.clkRunning ∧ links.isEmpty then { w with clkLinks := links, clkRunning := false }
      else { w with clkLinks := links }) := by
    intro links
    split
    · exact ⟨h.trxs, fun _ => rfl⟩
    · split
      · exact ⟨h.trxs, fun hr => by cases hr⟩
      · exact ⟨h.trxs, h.clk⟩
  exact key _

theorem powerEvent_sane {w w' : World} {i : Nat} {on : Bool} (h : Sane w)
    (hp : powerEvent w i on = .ok w') : Sane w' := by
  rw [powerEvent_eq] at hp
  split at hp
  · cases hp
  · cases hp
    split
    · exact powerSet_sane on _ w h
    · exact powerClock_sane i on (powerSet_sane on _ w h)

theorem applyAction_sane {w w' : World} {i : Nat} {a : Action} {r : CmdRes} (h : Sane w)
    (ha : ActionSane a) (hp : applyAction w i a = .ok (w', r)) : Sane w' := by
  cases a with
  | patch p rc =>
    cases hp
    exact ⟨allSane_setTrx h.trxs i (fun t ht => patch_apply_sane ha ht), h.clk⟩
  | reply rc ps => cases hp; exact h
  | power on =>
    simp only [applyAction, bind, Except.bind, pure, Except.pure] at hp
    split at hp
    · cases hp
    · cases hp; exact powerEvent_sane h ‹_›
  | measure f =>
    obtain ⟨v, hv, _⟩ := fakePmMeasure_ok w f
    simp only [applyAction, hv, bind, Except.bind, pure, Except.pure] at hp
    cases hp
    exact ⟨h.trxs, h.clk⟩

theorem applyPatch_sane {w : World} (i : Nat) {p : Option Patch} (h : Sane w) (hp : OptPatchSane p) :
    Sane (applyPatch w i p) := by
  cases p with
  | none => exact h
  | some p => exact ⟨allSane_setTrx h.trxs i (fun t ht => patch_apply_sane hp ht), h.clk⟩

theorem parseCmd_sane {w w' : World} {i : Nat} {req : List Str} {r : CmdRes} (h : Sane w)
    (hp : parseCmd w i req = .ok (w', r)) : Sane w' := by
  rw [parseCmd_eq] at hp
  split at hp
  · cases hp
  · cases hp; exact applyPatch_sane i h (ctrlCmdHandler_sane ‹_›)
  · have h1 := applyPatch_sane i h (ctrlCmdHandler_sane ‹_›)
    split at hp
    · cases hp
    · split at hp
      · cases hp
      · exact applyAction_sane h1 (commonCmd_sane ‹_›) hp

theorem handleRx_sane {w : World} (i a p : Nat) (d : List Nat) (h : Sane w) :
    Sane (handleRx w i a p d).world := by
  cases ht : w.trxs[i]? with
  | none => simp only [handleRx, ht]; exact h
  | some t =>
    cases hd : decodeUtf8 (d.take Gen.World.ctrlRecvSize) with
    | none => rw [handleRx_undecodable a p ht hd]; exact h
    | some s =>
      cases hp : startsWith s (lit "CMD") with
      | false => rw [handleRx_noprefix a p ht hd hp]; exact h
      | true =>
        obtain ⟨rc, params, w', hh, hpc⟩ := handleRx_reply a p ht hd hp
        rw [hh]
        rcases hpc with hok | ⟨_, _, _, rfl⟩
        · exact parseCmd_sane h hok
        · exact h

theorem recvDataMsg_sane {w : World} (i : Nat) {d : List Nat} (hd : Octets d) (h : Sane w) :
    Sane (recvDataMsg w i d).world := by
  cases ht : w.trxs[i]? with
  | none => simp only [recvDataMsg, ht]; exact h
  | some t =>
    rw [recvDataMsg_eq d ht]
    split
    · exact h
    · rename_i msg hm
      split
      · exact h
      · split
        · exact h
        · have hms : MsgSane msg :=
            Trxd.TxMsg.parseMsg_sane hm (fun x hx => hd x (List.mem_of_mem_take hx))
          refine ⟨allSane_setTrx h.trxs i (fun t ht => ?_), h.clk⟩
          have hq : ∀ m ∈ t.txQueue ++ [msg], MsgSane m := by
            intro m hm
            rcases List.mem_append.mp hm with h1 | h1
            · exact ht.queue m h1
            · cases List.mem_singleton.mp h1; exact hms
          exact { ht with queue := hq }

theorem jump_sane {w : World} (fn : Nat) (h : Sane w) : Sane (jump w fn).world := by
  unfold jump
  split
  · exact ⟨h.trxs, fun _ => rfl⟩
  · exact h

/-- data datagrams are octet strings (the element type of Python `bytes`) -/
def Op.Octets : Op → Prop
  | .data _ d => World.Octets d
  | _ => True

theorem step_sane {w : World} (op : Op) (ho : op.Octets) (h : Sane w) : Sane (step w op).world := by
  cases op with
  | ctrl i sp d =>
    simp only [step]
    split
    · exact handleRx_sane _ _ _ _ h
    · exact h
  | data i d => exact recvDataMsg_sane i ho h
  | tick => exact (tick_ok h).2
  | jump fn => exact jump_sane fn h
/-! ### the start-up world is sane -/

theorem trxSane_fresh (addr port idx : Nat) (mgt clk : Bool) :
    TrxSane { addr := addr, basePort := port, childIdx := idx, childMgt := mgt, hasClock := clk } :=
  { fh := fun hp h => by cases h
    dropPeriod := Int.le_refl 1
    dropAmount := Int.le_refl 0
    toaThr := Int.le_refl 0
    ciThr := Int.le_refl 0
    rssiThr := fun h => by cases h
    queue := fun m hm => by cases hm }

theorem allSane_append {ts : List Trx} {t : Trx} (h : AllSane ts) (ht : TrxSane t) : AllSane (ts ++ [t]) := by
  intro x hx
  rcases List.mem_append.mp hx with h1 | h1
  · exact h x h1
  · cases List.mem_singleton.mp h1; exact ht

theorem appendTrx_sane {ts ts' : List Trx} {a p i : Nat} {m : Bool} (h : AllSane ts)
    (he : appendTrx ts a p i m = .ok ts') : AllSane ts' := by
  unfold appendTrx at he
  split at he
  · cases he
  · split at he
    · cases he
    · cases he; exact allSane_append h (trxSane_fresh _ _ _ _ _)

theorem appendChildTrx_sane {ts ts' : List Trx} {a p i : Nat} (h : AllSane ts)
    (he : appendChildTrx ts a p i = .ok ts') : AllSane ts' := by
  unfold appendChildTrx at he
  split at he
  · exact appendTrx_sane h he
  · split at he
    · cases he
    · split at he
      · cases he
      · cases he
        exact allSane_modify (allSane_append h (trxSane_fresh _ _ _ _ _)) _ (fun t ht => { ht with })

theorem foldlM_sane (extra : List (Nat × Nat × Nat)) : ∀ (ts ts' : List Trx), AllSane ts →
    extra.foldlM (fun ts (x : Nat × Nat × Nat) => appendChildTrx ts x.1 x.2.1 x.2.2) ts = .ok ts' →
    AllSane ts' := by
  induction extra with
  | nil => intro ts ts' h he; cases he; exact h
  | cons x xs ih =>
    intro ts ts' h he
    rw [List.foldlM_cons] at he
    cases h1 : appendChildTrx ts x.1 x.2.1 x.2.2 with
    | error e => rw [h1] at he; cases he
    | ok ts1 =>
      rw [h1] at he
      exact ih ts1 ts' (appendChildTrx_sane h h1) he

theorem build_sane {seed : Nat} {extra : List (Nat × Nat × Nat)} {w : World}
    (h : build seed extra = .ok w) : Sane w := by
  unfold build at h
  simp only [bind, Except.bind, pure, Except.pure] at h
  split at h
  · cases h
  · split at h
    · cases h
    · split at h
      · cases h
      · rename_i ts1 h1 _ ts2 h2 _ ts3 h3
        cases h
        have h0 : AllSane [] := fun t ht => by cases ht
        exact ⟨foldlM_sane extra _ _ (appendTrx_sane (appendTrx_sane h0 h1) h2) h3,
          fun hr => by cases hr⟩
/-! ### the number of transceivers never changes; whole histories -/

theorem powerSet_length (on : Bool) : ∀ (list : List Nat) (w : World),
    (powerSet w list on).trxs.length = w.trxs.length := by
  intro list
  induction list with
  | nil => intro w; rfl
  | cons j js ih =>
    intro w
    simp only [powerSet, List.foldl_cons]
    exact (ih _).trans (setTrx_length _ _ _)

theorem powerClock_trxs (w : World) (i : Nat) (on : Bool) : (powerClock w i on).trxs = w.trxs := by
  have key : ∀ links : List Nat,
      (if ¬ w.clkRunning ∧ links.length > 0 then
        { w with clkLinks := links, clkRunning := true, clkSrc := some Gen.World.clckStart }
      else if w.clkRunning ∧ links.isEmpty then { w with clkLinks := links, clkRunning := false }
      else { w with clkLinks := links }).trxs = w.trxs := by
    intro links
    split
    · rfl
    · split <;> rfl
  exact key _

theorem powerEvent_length {w w' : World} {i : Nat} {on : Bool} (hp : powerEvent w i on = .ok w') :
    w'.trxs.length = w.trxs.length := by
  rw [powerEvent_eq] at hp
  split at hp
  · cases hp
  · cases hp
    split
    · exact powerSet_length on _ w
    · rw [powerClock_trxs]; exact powerSet_length on _ w

theorem applyAction_length {w w' : World} {i : Nat} {a : Action} {r : CmdRes}
    (hp : applyAction w i a = .ok (w', r)) : w'.trxs.length = w.trxs.length := by
  cases a with
  | patch p rc => cases hp; exact setTrx_length _ _ _
  | reply rc ps => cases hp; rfl
  | power on =>
    simp only [applyAction, bind, Except.bind, pure, Except.pure] at hp
    split at hp
    · cases hp
    · cases hp; exact powerEvent_length ‹_›
  | measure f =>
    obtain ⟨v, hv, _⟩ := fakePmMeasure_ok w f
    simp only [applyAction, hv, bind, Except.bind, pure, Except.pure] at hp
    cases hp; rfl

theorem parseCmd_length {w w' : World} {i : Nat} {req : List Str} {r : CmdRes}
    (hp : parseCmd w i req = .ok (w', r)) : w'.trxs.length = w.trxs.length := by
  rw [parseCmd_eq] at hp
  split at hp
  · cases hp
  · cases hp; exact applyPatch_length _ _ _
  · split at hp
    · cases hp
    · split at hp
      · cases hp
      · exact (applyAction_length hp).trans (applyPatch_length _ _ _)

theorem handleRx_length (w : World) (i a p : Nat) (d : List Nat) :
    (handleRx w i a p d).world.trxs.length = w.trxs.length := by
  cases ht : w.trxs[i]? with
  | none => simp only [handleRx, ht]
  | some t =>
    cases hd : decodeUtf8 (d.take Gen.World.ctrlRecvSize) with
    | none => rw [handleRx_undecodable a p ht hd]
    | some s =>
      cases hp : startsWith s (lit "CMD") with
      | false => rw [handleRx_noprefix a p ht hd hp]
      | true =>
        obtain ⟨rc, params, w', hh, hpc⟩ := handleRx_reply a p ht hd hp
        rw [hh]
        rcases hpc with hok | ⟨_, _, _, rfl⟩
        · exact parseCmd_length hok
        · rfl

theorem recvDataMsg_length (w : World) (i : Nat) (d : List Nat) :
    (recvDataMsg w i d).world.trxs.length = w.trxs.length := by
  cases ht : w.trxs[i]? with
  | none => simp only [recvDataMsg, ht]
  | some t =>
    rw [recvDataMsg_eq d ht]
    split
    · rfl
    · split
      · rfl
      · split
        · rfl
        · exact setTrx_length _ _ _

theorem tick_length {w : World} (h : Sane w) : (tick w).world.trxs.length = w.trxs.length := by
  unfold tick
  split
  · rfl
  · rename_i hr
    have hr' : w.clkRunning = true := by simpa using hr
    obtain ⟨fn, hfn⟩ := Option.isSome_iff_exists.mp (h.clk hr')
    simp only [hfn]
    exact (tick_go_ok fn w.trxs.length (List.range w.trxs.length) w _ 0
      (fun j hj => List.mem_range.mp hj) h.trxs rfl).2.2.2

theorem step_length {w : World} (op : Op) (h : Sane w) : (step w op).world.trxs.length = w.trxs.length := by
  cases op with
  | ctrl i sp d =>
    simp only [step]
    split
    · exact handleRx_length _ _ _ _ _
    · rfl
  | data i d => exact recvDataMsg_length _ _ _
  | tick => exact tick_length h
  | jump fn => simp only [step, jump]; split <;> rfl

/-- the operation addresses an existing transceiver -/
def Op.InRange (n : Nat) : Op → Prop
  | .ctrl i _ _ => i < n
  | .data i _ => i < n
  | _ => True

/-- no entry point raises in a sane world -/
theorem step_exc {w : World} (op : Op) (hr : op.InRange w.trxs.length) (h : Sane w) :
    (step w op).exc = none := by
  cases op with
  | ctrl i sp d =>
    obtain ⟨t, ht⟩ := getElem?_of_lt (show i < w.trxs.length from hr)
    simp only [step, ht]
    exact (handleRx_total hr t.addr sp d).1
  | data i d => exact (recvDataMsg_total (show i < w.trxs.length from hr) d).1
  | tick => exact (tick_ok h).1
  | jump fn => simp only [step, jump]; split <;> rfl

/-- whole histories: no operation of any history raises, and the final world is sane -/
theorem run_ok : ∀ (ops : List Op) (w : World), Sane w →
    (∀ op ∈ ops, op.Octets ∧ op.InRange w.trxs.length) →
    Sane (run w ops).1 ∧ ∀ r ∈ (run w ops).2, r.exc = none := by
  intro ops
  induction ops with
  | nil => intro w h _; exact ⟨h, fun r hr => by cases hr⟩
  | cons op ops ih =>
    intro w h hops
    obtain ⟨ho, hr⟩ := hops op List.mem_cons_self
    have h1 := step_sane op ho h
    have hl := step_length op h
    obtain ⟨hs, he⟩ := ih (step w op).world h1 (fun o hm => by
      rw [hl]; exact hops o (List.mem_cons_of_mem _ hm))
    simp only [run]
    refine ⟨hs, fun r hr' => ?_⟩
    rcases List.mem_cons.mp hr' with rfl | hr'
    · exact step_exc op hr h
    · exact he r hr'
end OsmoVerif.World
