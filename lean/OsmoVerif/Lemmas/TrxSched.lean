/-
C11, trxcon: lemmas about the model of the consumers of the multiframe layouts
(`Model/TrxSched.lean`): the channel-state allocation of `l1sched_configure_ts`, the frame
lookups, the `elapsed` arithmetic and the loop of `subst_frame_loss`.
-/
import OsmoVerif.Model.TrxSched
import OsmoVerif.Lemmas.Mframe

namespace OsmoVerif.TrxSched
open OsmoVerif.Gen OsmoVerif.Mframe
open OsmoVerif.Gen.TrxconMframe (Layout Frame Lchan Pchan layouts)
open OsmoVerif.Gen.TrxconLchanDesc

theorem toInt32_sub' (a b : Nat) (ha : a < 2147483648) (hb : b < 2147483648) :
    toInt32 (u32 a + 4294967296 - u32 b) = (a : Int) - (b : Int) := by
  unfold toInt32 u32
  split <;> omega

/-! ## `LAYOUT_HAS_LCHAN` -/

theorem and_two_pow_ne_zero (m t : Nat) : ((m &&& 2 ^ t) != 0) = m.testBit t := by
  cases h : m.testBit t with
  | true =>
    have : (m &&& 2 ^ t).testBit t = true := by
      rw [Nat.testBit_and, h, Nat.testBit_two_pow_self]; rfl
    have hne : m &&& 2 ^ t ≠ 0 := by
      intro h0; rw [h0, Nat.zero_testBit] at this; cases this
    simpa using hne
  | false =>
    have : m &&& 2 ^ t = 0 := by
      apply Nat.eq_of_testBit_eq
      intro i
      rw [Nat.testBit_and, Nat.zero_testBit, Nat.testBit_two_pow]
      by_cases hi : t = i
      · subst hi; simp [h]
      · simp [hi]
    simp [this]

/-- with a 64-bit mask and `lchan < 64` the macro is the bit test -/
theorem hasLchan_eq (mask t : Nat) (ht : t < 64) (hm : mask < 18446744073709551616) :
    hasLchan mask t = .ok (mask.testBit t) := by
  have h1 : u64 mask = mask := Nat.mod_eq_of_lt hm
  have h2 : u64 (1 <<< t) = 2 ^ t := by
    rw [Nat.one_shiftLeft]
    exact Nat.mod_eq_of_lt (Nat.pow_lt_pow_right (by decide) ht)
  simp only [hasLchan, ht, if_true, h1, h2, and_two_pow_ne_zero]

/-! ## the list of channel states -/

theorem updFirst_types (chan : Nat) (f : LchanState → LchanState) (hf : ∀ l, (f l).type = l.type)
    (ls : List LchanState) : (updFirst chan f ls).map (·.type) = ls.map (·.type) := by
  induction ls with
  | nil => rfl
  | cons l rest ih =>
    simp only [updFirst]
    split
    · simp [hf]
    · simp [ih]

theorem allocLchans_types (mask : Nat) (hm : mask < 18446744073709551616) (l : List Nat)
    (hl : ∀ t ∈ l, t < 64 ∧ t < lchanDesc.length) (acc : List LchanState) :
    ∃ r, allocLchans mask l acc = .ok r ∧
      r.map (·.type) = acc.map (·.type) ++ l.filter fun t => mask.testBit t := by
  induction l generalizing acc with
  | nil => exact ⟨acc, rfl, by simp⟩
  | cons t rest ih =>
    obtain ⟨h64, hd⟩ := hl t (by simp)
    have hrest : ∀ t ∈ rest, t < 64 ∧ t < lchanDesc.length := fun x hx => hl x (by simp [hx])
    simp only [allocLchans, hasLchan_eq mask t h64 hm, bind, Except.bind]
    by_cases hb : mask.testBit t = true
    · simp only [hb, Bool.not_true, Bool.false_eq_true, if_false, List.getElem?_eq_getElem hd]
      split
      · obtain ⟨r, hr, ht⟩ := ih hrest
          (updFirst t (fun l => if l.active then l else { l with active := true })
            (acc ++ [⟨t, false, ⟨0, 0, 0⟩⟩]))
        refine ⟨r, hr, ?_⟩
        rw [ht, updFirst_types]
        · simp [hb]
        · intro l; split <;> rfl
      · obtain ⟨r, hr, ht⟩ := ih hrest (acc ++ [⟨t, false, ⟨0, 0, 0⟩⟩])
        refine ⟨r, hr, ?_⟩
        rw [ht]
        simp [hb]
    · simp only [hb, Bool.not_false, if_true]
      obtain ⟨r, hr, ht⟩ := ih hrest acc
      refine ⟨r, hr, ?_⟩
      rw [ht]
      simp [hb]

/-! ## `l1sched_configure_ts` -/

theorem getTs_of_lt (s : Sched) (tn : Nat) (h : tn < s.ts.length) : getTs s tn = .ok s.ts[tn] := by
  simp only [getTs, List.getElem?_eq_getElem h]

theorem clearTs_ok (ts : Ts) (h : ts.lchansInit = true) :
    ∃ ts', clearTs ts = .ok ts' ∧ ts'.layout = none ∧ ts'.lchansInit = true ∧ ts'.lchans = [] ∧
      ts'.index = ts.index := by
  simp only [clearTs, deactivateAll, h, Bool.not_true, Bool.false_eq_true, if_false, bind, Except.bind]
  exact ⟨_, rfl, rfl, rfl, rfl, rfl⟩

theorem configureGetTs_ok (s : Sched) (tn : Nat) (htn : tn < s.ts.length) (htn8 : tn < 256)
    (hinit : ∀ ts, s.ts[tn] = some ts → ts.lchansInit = true) :
    ∃ ts0 ev0, configureGetTs s tn = .ok (ts0, ev0) ∧ ts0.layout = none ∧
      (ts0.index = tn ∨ ∃ ts, s.ts[tn] = some ts ∧ ts0.index = ts.index) := by
  have hu8 : u8 tn = tn := Nat.mod_eq_of_lt htn8
  cases hts : s.ts[tn] with
  | none =>
    refine ⟨⟨u8 tn, none, false, []⟩, [], ?_, rfl, Or.inl hu8⟩
    simp only [configureGetTs, getTs_of_lt s tn htn, hts, bind, Except.bind, pure, Except.pure]
  | some ts =>
    obtain ⟨ts', hc, h1, _, _, h4⟩ := clearTs_ok ts (hinit ts hts)
    refine ⟨ts', [Ev.pchanComb tn Pchan.NONE.val], ?_, h1, Or.inr ⟨ts, rfl, h4⟩⟩
    simp only [configureGetTs, getTs_of_lt s tn htn, hts, bind, Except.bind, hc, pure, Except.pure]

theorem configureRest_spec (types : List Nat) (htypes : ∀ t ∈ types, t < 64 ∧ t < lchanDesc.length)
    (s : Sched) (tn config : Nat) (htn8 : tn < 256) (ts0 : Ts) (ev0 : List Ev) :
    match layoutForVal config tn with
    | none => ∃ ts', configureRest types s tn config ts0 ev0 = .ok (.EINVAL, setTs s tn (some ts'), ev0) ∧
        ts'.layout = none ∧ ts'.index = ts0.index
    | some L => L.lchanMask < 18446744073709551616 →
        ∃ ts' evs, configureRest types s tn config ts0 ev0 = .ok (.ok, setTs s tn (some ts'), evs) ∧
          ts'.layout = some L ∧ ts'.lchansInit = true ∧ ts'.index = ts0.index ∧
          ts'.lchans.map (·.type) = types.filter fun t => L.lchanMask.testBit t := by
  have hu8 : u8 tn = tn := Nat.mod_eq_of_lt htn8
  cases hl : layoutForVal config tn with
  | none =>
    refine ⟨{ ts0 with layout := none }, ?_, rfl, rfl⟩
    simp only [configureRest, hu8, hl, pure, Except.pure]
  | some L =>
    intro hm
    have hcfg : L.config.val = config := (layoutForVal_some config tn L hl).2.1
    obtain ⟨r, hr, ht⟩ := allocLchans_types L.lchanMask hm types htypes []
    refine ⟨{ { ts0 with layout := some L } with lchansInit := true, lchans := r },
      ev0 ++ [.pchanComb (u8 tn) config], ?_, rfl, rfl, rfl, ?_⟩
    · simp only [configureRest, hu8, hl, hcfg, bne_self_eq_false, Bool.false_eq_true, if_false, hr, bind,
        Except.bind, pure, Except.pure]
    · simpa using ht

/-! ## the frame lookups -/

/-- for a layout with a table of `period` rows, `0 < period < 256`, the 8-bit offset of
    `l1sched_handle_rx_burst` addresses the same row as `frames[fn % period]` -/
theorem lookupU8_eq (L : Layout) (h : tableOk L = true) (hp : L.period < 256) (fn : Nat) :
    lookupU8 L fn = liftLookup (lookup L fn) := by
  obtain ⟨hpos, fr, hfr, hlen, hrow⟩ := tableOk_lookup L h
  obtain ⟨hlt, hlk⟩ := hrow fn
  have hne : L.period ≠ 0 := by omega
  have hu : u8 (fn % L.period) = fn % L.period := by
    have : fn % L.period < L.period := Nat.mod_lt _ hpos
    exact Nat.mod_eq_of_lt (by omega)
  simp only [lookupU8, hne, if_false, hu, frameAt, hfr, List.getElem?_eq_getElem hlt, hlk, liftLookup]

theorem lookup_total (L : Layout) (h : tableOk L = true) (fn : Nat) : ∃ f, lookup L fn = .ok f := by
  obtain ⟨_, fr, _, _, hrow⟩ := tableOk_lookup L h
  obtain ⟨hlt, hlk⟩ := hrow fn
  exact ⟨_, hlk⟩

/-! ## `subst_frame_loss` -/

/-- `elapsed` for two valid frame numbers: the distance from `last` to `fn` in the cyclic
    order of frame numbers when that is less than half a hyperframe, otherwise minus the
    distance back (the "older burst" case) -/
theorem elapsedOf_eq (fn last : Nat) (hfn : fn < H) (hl : last < H) :
    elapsedOf fn last =
      if (fn + H - last) % H < H / 2 then (((fn + H - last) % H : Nat) : Int)
      else (((fn + H - last) % H : Nat) : Int) - (H : Int) := by
  simp only [H] at hfn hl
  have e1 : u32 fn = fn := Nat.mod_eq_of_lt (by omega)
  have e2 : u32 last = last := Nat.mod_eq_of_lt (by omega)
  have e0 : toInt32 (fn + 4294967296 - last) = (fn : Int) - (last : Int) := by
    have := toInt32_sub' fn last (by omega) (by omega)
    simpa [e1, e2] using this
  by_cases hc : (fn + H - last) % H < H / 2
  · rw [if_pos hc]
    simp only [elapsedOf, e1, e2, e0]
    simp only [H] at hc ⊢
    split <;> (try split) <;> omega
  · rw [if_neg hc]
    simp only [elapsedOf, e1, e2, e0]
    simp only [H] at hc ⊢
    split <;> (try split) <;> omega

/-- the frames `last + 1 .. last + n` (modulo the hyperframe) that the layout gives to
    Downlink channel `type`, each with the burst id of its row, in ascending order -/
def lostFrames (L : Layout) (type last n : Nat) : List (Nat × Nat) :=
  (List.range n).filterMap fun i =>
    match lookup L ((last + 1 + i) % H) with
    | .ok fp => if fp.dlChan.val = type then some ((last + 1 + i) % H, fp.dlBid) else none
    | .error _ => none

theorem lostFrames_succ (L : Layout) (type last n : Nat) :
    lostFrames L type last (n + 1) =
      (match lookup L ((last + 1) % H) with
       | .ok fp => if fp.dlChan.val = type then [((last + 1) % H, fp.dlBid)] else []
       | .error _ => []) ++ lostFrames L type ((last + 1) % H) n := by
  have harith : ∀ i, (last + 1 + (i + 1)) % H = ((last + 1) % H + 1 + i) % H := by
    intro i; simp only [H]; omega
  simp only [lostFrames, List.range_succ_eq_map, List.filterMap_cons, List.filterMap_map, Nat.add_zero]
  have hfun : ((fun i => match lookup L ((last + 1 + i) % H) with
      | .ok fp => if fp.dlChan.val = type then some ((last + 1 + i) % H, fp.dlBid) else none
      | .error _ => none) ∘ Nat.succ) =
      (fun i => match lookup L (((last + 1) % H + 1 + i) % H) with
      | .ok fp => if fp.dlChan.val = type then some (((last + 1) % H + 1 + i) % H, fp.dlBid) else none
      | .error _ => none) := by
    funext i
    simp only [Function.comp, Nat.succ_eq_add_one, harith i]
  rw [hfun]
  cases hlk : lookup L ((last + 1) % H) with
  | error e => simp
  | ok fp =>
    by_cases hc : fp.dlChan.val = type
    · simp [hc]
    · simp [hc]

/-- the statistics after `k` substituted frames, the last of them `lastSub` -/
def TdmaAfter (td td' : Tdma) (subs : List (Nat × Nat)) : Prop :=
  td'.numProc % 18446744073709551616 = (td.numProc + subs.length) % 18446744073709551616 ∧
  td'.numLost % 18446744073709551616 = (td.numLost + subs.length) % 18446744073709551616 ∧
  td'.lastProc = (subs.getLast?.map (·.1)).getD td.lastProc

/-- the loop of `subst_frame_loss` over a layout whose lookups are total: it calls the
    handler for exactly the lost frames of the channel, with the layout's burst ids -/
theorem substLoop_spec (L : Layout) (hok : tableOk L = true) (type tn : Nat) (n last : Nat) (td : Tdma)
    (hl : last < H) :
    ∃ td', substLoop L type tn n last td =
        .ok (td', (lostFrames L type last n).map fun p => Ev.rx type tn p.1 p.2) ∧
      TdmaAfter td td' (lostFrames L type last n) := by
  induction n generalizing last td with
  | zero =>
    refine ⟨td, ?_, ?_⟩
    · simp [substLoop, lostFrames]
    · simp [TdmaAfter, lostFrames]
  | succ n ih =>
    have hb : u32 (last + 1) % H = (last + 1) % H := by
      have : last + 1 < 4294967296 := by simp only [H] at hl; omega
      rw [u32, Nat.mod_eq_of_lt this]
    have hlt : (last + 1) % H < H := Nat.mod_lt _ (by decide)
    obtain ⟨fp, hfp⟩ := lookup_total L hok ((last + 1) % H)
    rw [lostFrames_succ, hfp]
    simp only [substLoop, hb, hfp, liftLookup, bind, Except.bind]
    by_cases hc : fp.dlChan.val = type
    · obtain ⟨td', h1, h2, h3, h4⟩ := ih ((last + 1) % H)
        ⟨(last + 1) % H, u64 (td.numProc + 1), u64 (td.numLost + 1)⟩ hlt
      refine ⟨td', ?_, ?_, ?_, ?_⟩
      · simp [hc, h1, pure, Except.pure]
      · simp only [hc, if_true, List.singleton_append, List.length_cons]
        simp only [u64] at h2
        omega
      · simp only [hc, if_true, List.singleton_append, List.length_cons]
        simp only [u64] at h3
        omega
      · simp only [hc, if_true, List.singleton_append]
        rw [h4]
        cases hlast : (lostFrames L type ((last + 1) % H) n).getLast? with
        | none =>
          have : lostFrames L type ((last + 1) % H) n = [] := List.getLast?_eq_none_iff.1 hlast
          simp [this]
        | some p =>
          have hne : lostFrames L type ((last + 1) % H) n ≠ [] := by
            intro h0; rw [h0] at hlast; cases hlast
          rw [List.getLast?_cons_of_ne_nil hne] <;> simp [hlast]
    · obtain ⟨td', h1, h2⟩ := ih ((last + 1) % H) td hlt
      refine ⟨td', ?_, ?_⟩
      · simp [hc, h1]
      · simpa [hc] using h2

theorem substLoop_total (L : Layout) (hok : tableOk L = true) (type tn : Nat) (n bfn : Nat) (td : Tdma) :
    ∃ r, substLoop L type tn n bfn td = .ok r := by
  induction n generalizing bfn td with
  | zero => exact ⟨_, rfl⟩
  | succ n ih =>
    obtain ⟨fp, hfp⟩ := lookup_total L hok (u32 (bfn + 1) % H)
    simp only [substLoop, hfp, liftLookup, bind, Except.bind]
    split
    · exact ih _ _
    · obtain ⟨r, hr⟩ := ih (u32 (bfn + 1) % H)
        ⟨u32 (bfn + 1) % H, u64 (td.numProc + 1), u64 (td.numLost + 1)⟩
      rw [hr]
      exact ⟨_, rfl⟩

theorem substAfterElapsed_total (L : Layout) (hok : tableOk L = true) (tn : Nat) (l : LchanState) (e : Int) :
    ∃ r, substAfterElapsed L tn l e = .ok r := by
  unfold substAfterElapsed
  by_cases h1 : e < 0
  · simp only [h1, if_true]; exact ⟨_, rfl⟩
  · simp only [h1, if_false]
    by_cases h2 : e > (L.period : Int)
    · simp only [h2, if_true]; exact ⟨_, rfl⟩
    · simp only [h2, if_false]
      by_cases h3 : e = 0
      · simp only [h3, if_true]; exact ⟨_, rfl⟩
      · simp only [h3, if_false]
        obtain ⟨r, hr⟩ := substLoop_total L hok l.type tn (e - 1).toNat l.tdma.lastProc l.tdma
        simp only [hr, bind, Except.bind, pure, Except.pure]
        exact ⟨_, rfl⟩

theorem substFrameLoss_total (L : Layout) (hok : tableOk L = true) (tn : Nat) (l : LchanState) (fn : Nat) :
    ∃ r, substFrameLoss L tn l fn = .ok r := by
  unfold substFrameLoss
  by_cases h0 : l.tdma.numProc = 0
  · simp only [h0, if_true]; exact ⟨_, rfl⟩
  · simp only [h0, if_false]
    exact substAfterElapsed_total L hok tn l _

/-- `subst_frame_loss` for valid frame numbers, by the distance `e` from the last processed
    frame to the current one in the cyclic order of frame numbers -/
theorem substFrameLoss_spec (L : Layout) (hok : tableOk L = true) (hp : L.period < 256) (tn : Nat)
    (l : LchanState) (fn : Nat) (hfn : fn < H) (hl : l.tdma.lastProc < H) (hnp : l.tdma.numProc ≠ 0) :
    (((fn + H - l.tdma.lastProc) % H = 0 ∨
        (L.period < (fn + H - l.tdma.lastProc) % H ∧ (fn + H - l.tdma.lastProc) % H < H / 2)) →
      substFrameLoss L tn l fn = .ok (.EIO, l.tdma, [])) ∧
    (H / 2 ≤ (fn + H - l.tdma.lastProc) % H →
      substFrameLoss L tn l fn = .ok (.EALREADY, l.tdma, [])) ∧
    (0 < (fn + H - l.tdma.lastProc) % H → (fn + H - l.tdma.lastProc) % H ≤ L.period →
      ∃ td', substFrameLoss L tn l fn =
          .ok (.ok, td', (lostFrames L l.type l.tdma.lastProc ((fn + H - l.tdma.lastProc) % H - 1)).map
            fun p => Ev.rx l.type tn p.1 p.2) ∧
        TdmaAfter l.tdma td' (lostFrames L l.type l.tdma.lastProc ((fn + H - l.tdma.lastProc) % H - 1))) := by
  have he := elapsedOf_eq fn l.tdma.lastProc hfn hl
  generalize hE : (fn + H - l.tdma.lastProc) % H = e at he ⊢
  have heH : e < H := by rw [← hE]; exact Nat.mod_lt _ (by decide)
  unfold substFrameLoss
  simp only [hnp, if_false]
  generalize elapsedOf fn l.tdma.lastProc = el at he
  unfold substAfterElapsed
  refine ⟨fun h => ?_, fun h => ?_, fun h1 h2 => ?_⟩
  · rcases h with h | ⟨h1, h2⟩
    · have hv : el = 0 := by
        rw [he, h]; rfl
      subst hv
      simp
    · have hv : el = (e : Int) := by rw [he, if_pos h2]
      subst hv
      have n1 : ¬ ((e : Int) < 0) := by omega
      have n2 : (e : Int) > (L.period : Int) := by omega
      simp only [n1, if_false, n2, if_true]
  · have hv : el = (e : Int) - (H : Int) := by
      rw [he, if_neg (by omega)]
    subst hv
    have n1 : (e : Int) - (H : Int) < 0 := by omega
    simp only [n1, if_true]
  · have hlt : e < H / 2 := by simp only [H]; omega
    have hv : el = (e : Int) := by rw [he, if_pos hlt]
    subst hv
    have n1 : ¬ ((e : Int) < 0) := by omega
    have n2 : ¬ ((e : Int) > (L.period : Int)) := by omega
    have n3 : ¬ ((e : Int) = 0) := by omega
    rw [if_neg n1, if_neg n2, if_neg n3]
    generalize hg : ((e : Int) - 1).toNat = n
    have hn : n = e - 1 := by omega
    subst hn
    obtain ⟨td', h3, h4⟩ := substLoop_spec L hok l.type tn (e - 1) l.tdma.lastProc l.tdma hl
    refine ⟨td', ?_, h4⟩
    rw [h3]
    rfl

/-! ## the consumers on a configured timeslot -/

theorem lchanDesc_some (c : Lchan) : ∃ d, lchanDesc[c.val]? = some d := by
  have : c.val < lchanDesc.length := by cases c <;> decide
  exact ⟨_, List.getElem?_eq_getElem this⟩

/-- what `l1sched_handle_rx_burst` may do to the scheduler state: nothing, or rewrite the
    TDMA statistics of the first channel state of the frame's channel on that timeslot -/
def RxStateStep (s s' : Sched) (tn : Nat) (ts : Ts) (chan : Nat) : Prop :=
  s' = s ∨ ∃ td, s' = setTs s tn
    (some { ts with lchans := updFirst chan (fun l => { l with tdma := td }) ts.lchans })

/-- `l1sched_handle_rx_burst` on a timeslot with a layout whose lookups are total never
    leaves defined behaviour; `bi->bid` is the Downlink burst id of row `fn % period` -/
theorem handleRxBurst_total (s : Sched) (tn fn : Nat) (ts : Ts) (L : Layout) (hlen : tn < s.ts.length)
    (hget : s.ts[tn] = some ts) (hlay : ts.layout = some L) (hinit : ts.lchansInit = true)
    (hok : tableOk L = true) (hp : L.period < 256) :
    ∃ f r, lookup L fn = .ok f ∧ handleRxBurst s tn fn = .ok r ∧ r.bid = some f.dlBid ∧
      RxStateStep s r.sched tn ts f.dlChan.val := by
  obtain ⟨f, hf⟩ := lookup_total L hok fn
  obtain ⟨d, hd⟩ := lchanDesc_some f.dlChan
  obtain ⟨idx, lay, ini, lch⟩ := ts
  simp only at hlay hinit
  subst hlay hinit
  suffices main : ∃ r, handleRxBurst s tn fn = .ok r ∧ r.bid = some f.dlBid ∧
      RxStateStep s r.sched tn ⟨idx, some L, true, lch⟩ f.dlChan.val by
    obtain ⟨r, h1, h2, h3⟩ := main
    exact ⟨f, r, hf, h1, h2, h3⟩
  simp only [handleRxBurst, getTs_of_lt s tn hlen, hget, lookupU8_eq L hok hp, hf, liftLookup, hd,
    findLchan, bind, Except.bind, pure, Except.pure, Bool.not_true, Bool.false_eq_true, if_false]
  by_cases hrx : d.rx = true
  · simp only [hrx, Bool.not_true, Bool.false_eq_true, if_false]
    cases hfind : lch.find? (fun l => l.type == f.dlChan.val) with
    | none => exact ⟨_, rfl, rfl, Or.inl rfl⟩
    | some l =>
      simp only
      by_cases hact : l.active = true
      · simp only [hact, Bool.not_true, Bool.false_eq_true, if_false]
        obtain ⟨⟨rc, td, evs⟩, hr⟩ := substFrameLoss_total L hok idx l fn
        simp only [hr]
        by_cases hrc : (rc == Rc.EALREADY) = true
        · simp only [hrc, if_true]
          exact ⟨_, rfl, rfl, Or.inl rfl⟩
        · simp only [hrc, Bool.false_eq_true, if_false]
          exact ⟨_, rfl, rfl, Or.inr ⟨_, rfl⟩⟩
      · simp only [hact, Bool.not_false, if_true]
        exact ⟨_, rfl, rfl, Or.inl rfl⟩
  · simp only [hrx, Bool.not_false, if_true]
    exact ⟨_, rfl, rfl, Or.inl rfl⟩

/-- the full path of `l1sched_handle_rx_burst`: the frame's channel has an Rx handler, a
    channel state and is active.  The lost frames are compensated first, then the handler
    gets the burst itself with the layout's burst id - unless the burst is older than the
    last processed one (-EALREADY: dropped, nothing changes). -/
theorem handleRxBurst_active (s : Sched) (tn fn : Nat) (ts : Ts) (L : Layout) (hlen : tn < s.ts.length)
    (hget : s.ts[tn] = some ts) (hlay : ts.layout = some L) (hinit : ts.lchansInit = true)
    (hok : tableOk L = true) (hp : L.period < 256) (f : Frame) (hf : lookup L fn = .ok f)
    (d : Desc) (hd : lchanDesc[f.dlChan.val]? = some d) (hrx : d.rx = true)
    (l : LchanState) (hfind : ts.lchans.find? (fun l => l.type == f.dlChan.val) = some l)
    (hact : l.active = true) :
    l.type = f.dlChan.val ∧
    ∀ rc td evs, substFrameLoss L ts.index l fn = .ok (rc, td, evs) →
      (rc = .EALREADY → handleRxBurst s tn fn = .ok ⟨.EALREADY, s, [], some f.dlBid⟩) ∧
      (rc ≠ .EALREADY → ∃ s', handleRxBurst s tn fn =
        .ok ⟨.ok, s', evs ++ [Ev.rx f.dlChan.val tn fn f.dlBid], some f.dlBid⟩ ∧
        RxStateStep s s' tn ts f.dlChan.val) := by
  have hty : l.type = f.dlChan.val := by
    have := List.find?_some hfind
    simpa using this
  refine ⟨hty, fun rc td evs hr => ?_⟩
  obtain ⟨idx, lay, ini, lch⟩ := ts
  simp only at hlay hinit hfind hr
  subst hlay hinit
  constructor
  · intro hrc
    subst hrc
    simp only [handleRxBurst, getTs_of_lt s tn hlen, hget, lookupU8_eq L hok hp, hf, liftLookup, hd,
      findLchan, bind, Except.bind, pure, Except.pure, Bool.not_true, Bool.false_eq_true, if_false, hrx,
      hfind, hact, hr, beq_self_eq_true, if_true]
  · intro hrc
    have hb : (rc == Rc.EALREADY) = false := by
      cases rc <;> simp at hrc ⊢
    refine ⟨setTs s tn (some ⟨idx, some L, true, updFirst f.dlChan.val
      (fun l => { l with tdma := ⟨fn, if u64 (td.numProc + 1) = 0 then 1 else u64 (td.numProc + 1), td.numLost⟩ })
      lch⟩), ?_, Or.inr ⟨⟨fn, if u64 (td.numProc + 1) = 0 then 1 else u64 (td.numProc + 1), td.numLost⟩, rfl⟩⟩
    simp only [handleRxBurst, getTs_of_lt s tn hlen, hget, lookupU8_eq L hok hp, hf, liftLookup, hd,
      findLchan, bind, Except.bind, pure, Except.pure, Bool.not_true, Bool.false_eq_true, if_false, hrx,
      hfind, hact, hr, hb, hty]

/-- the other paths: no Rx handler (IDLE, FCCH, RACH ...) or no channel state: -ENODEV; an
    inactive channel: 0; in all of them no handler is called and nothing changes -/
theorem handleRxBurst_idle (s : Sched) (tn fn : Nat) (ts : Ts) (L : Layout) (hlen : tn < s.ts.length)
    (hget : s.ts[tn] = some ts) (hlay : ts.layout = some L) (hinit : ts.lchansInit = true)
    (hok : tableOk L = true) (hp : L.period < 256) (f : Frame) (hf : lookup L fn = .ok f)
    (d : Desc) (hd : lchanDesc[f.dlChan.val]? = some d) :
    (d.rx = false → handleRxBurst s tn fn = .ok ⟨.ENODEV, s, [], some f.dlBid⟩) ∧
    (d.rx = true → ts.lchans.find? (fun l => l.type == f.dlChan.val) = none →
      handleRxBurst s tn fn = .ok ⟨.ENODEV, s, [], some f.dlBid⟩) ∧
    (d.rx = true → ∀ l, ts.lchans.find? (fun l => l.type == f.dlChan.val) = some l → l.active = false →
      handleRxBurst s tn fn = .ok ⟨.ok, s, [], some f.dlBid⟩) := by
  obtain ⟨idx, lay, ini, lch⟩ := ts
  simp only at hlay hinit
  subst hlay hinit
  refine ⟨fun h => ?_, fun h hn => ?_, fun h l hl ha => ?_⟩
  · simp only [handleRxBurst, getTs_of_lt s tn hlen, hget, lookupU8_eq L hok hp, hf, liftLookup, hd,
      bind, Except.bind, pure, Except.pure, h, Bool.not_false, if_true]
  · simp only at hn
    simp only [handleRxBurst, getTs_of_lt s tn hlen, hget, lookupU8_eq L hok hp, hf, liftLookup, hd,
      findLchan, bind, Except.bind, pure, Except.pure, h, Bool.not_true, Bool.false_eq_true, if_false, hn]
  · simp only at hl
    simp only [handleRxBurst, getTs_of_lt s tn hlen, hget, lookupU8_eq L hok hp, hf, liftLookup, hd,
      findLchan, bind, Except.bind, pure, Except.pure, h, Bool.not_true, Bool.false_eq_true, if_false, hl, ha,
      Bool.not_false, if_true]

/-- `RxStateStep` keeps the timeslot configured the same way and touches nothing else -/
theorem rxStateStep_keeps (s s' : Sched) (tn : Nat) (ts : Ts) (chan : Nat) (hlen : tn < s.ts.length)
    (hget : s.ts[tn] = some ts) (h : RxStateStep s s' tn ts chan) :
    s'.ts.length = s.ts.length ∧
    (∃ ts', s'.ts[tn]? = some (some ts') ∧ ts'.layout = ts.layout ∧ ts'.lchansInit = ts.lchansInit ∧
      ts'.index = ts.index ∧ ts'.lchans.map (·.type) = ts.lchans.map (·.type)) ∧
    ∀ k, k ≠ tn → s'.ts[k]? = s.ts[k]? := by
  rcases h with rfl | ⟨td, rfl⟩
  · exact ⟨rfl, ⟨ts, by rw [List.getElem?_eq_getElem hlen, hget], rfl, rfl, rfl, rfl⟩, fun _ _ => rfl⟩
  · refine ⟨by simp [setTs], ⟨{ ts with lchans := updFirst chan (fun l => { l with tdma := td }) ts.lchans },
      by simp [setTs, hlen], rfl, rfl, rfl, ?_⟩, fun k hk => ?_⟩
    · exact updFirst_types chan (fun l => { l with tdma := td }) (fun _ => rfl) ts.lchans
    · simp only [setTs]
      rw [List.getElem?_set_ne (Ne.symm hk)]

/-- `l1sched_pull_burst` on such a timeslot: `br->bid` is the Uplink burst id of row
    `fn % period`; the Tx handler of the row's Uplink channel is called once with it if the
    channel has a handler, a state and is active, and nothing else is called -/
theorem pullBurst_spec (s : Sched) (tn fn : Nat) (ts : Ts) (L : Layout) (hlen : tn < s.ts.length)
    (hget : s.ts[tn] = some ts) (hlay : ts.layout = some L) (hinit : ts.lchansInit = true)
    (hok : tableOk L = true) :
    ∃ f d, lookup L fn = .ok f ∧ lchanDesc[f.ulChan.val]? = some d ∧
      pullBurst s tn fn = .ok
        (if d.tx = true ∧ ∃ l, ts.lchans.find? (fun l => l.type == f.ulChan.val) = some l ∧ l.active = true
         then [Ev.tx f.ulChan.val tn fn f.ulBid] else [], some f.ulBid) := by
  obtain ⟨f, hf⟩ := lookup_total L hok fn
  obtain ⟨d, hd⟩ := lchanDesc_some f.ulChan
  refine ⟨f, d, hf, hd, ?_⟩
  obtain ⟨idx, lay, ini, lch⟩ := ts
  simp only at hlay hinit
  subst hlay hinit
  simp only [pullBurst, getTs_of_lt s tn hlen, hget, hf, liftLookup, hd, findLchan, bind, Except.bind, pure,
    Except.pure, Bool.not_true, Bool.false_eq_true, if_false]
  by_cases htx : d.tx = true
  · simp only [htx, Bool.not_true, Bool.false_eq_true, if_false, true_and]
    cases hfind : lch.find? (fun l => l.type == f.ulChan.val) with
    | none => simp
    | some l =>
      have hty : l.type = f.ulChan.val := by
        have := List.find?_some hfind
        simpa using this
      by_cases hact : l.active = true
      · simp [hact, hty]
      · simp [hact]
  · simp [htx]

/-- `l1sched_handle_rx_probe` on such a timeslot never leaves defined behaviour -/
theorem rxProbe_total (s : Sched) (tn fn : Nat) (ts : Ts) (L : Layout) (hlen : tn < s.ts.length)
    (hget : s.ts[tn] = some ts) (hlay : ts.layout = some L) (hinit : ts.lchansInit = true)
    (hok : tableOk L = true) : ∃ r, rxProbe s tn fn = .ok r := by
  obtain ⟨f, hf⟩ := lookup_total L hok fn
  obtain ⟨d, hd⟩ := lchanDesc_some f.dlChan
  obtain ⟨idx, lay, ini, lch⟩ := ts
  simp only at hlay hinit
  subst hlay hinit
  simp only [rxProbe, getTs_of_lt s tn hlen, hget, hf, liftLookup, hd, findLchan, bind, Except.bind, pure,
    Except.pure, Bool.not_true, Bool.false_eq_true, if_false]
  split
  · exact ⟨_, rfl⟩
  · split <;> exact ⟨_, rfl⟩

/-! ## histories of scheduler calls -/

/-- the calls a user of the scheduler makes -/
inductive Op where
  | cfg (tn config : Nat)     -- `l1sched_configure_ts`
  | del (tn : Nat)            -- `l1sched_del_ts`
  | rts (tn : Nat)            -- `l1sched_reset_ts`
  | rst                       -- `l1sched_reset`
  | act (tn chan : Nat)       -- `l1sched_activate_lchan(sched->ts[tn], chan)` if the timeslot exists
  | deact (tn chan : Nat)     -- `l1sched_deactivate_lchan(sched->ts[tn], chan)` if the timeslot exists
  | rx (tn fn : Nat)          -- `l1sched_handle_rx_burst`
  | tx (tn fn : Nat)          -- `l1sched_pull_burst`
  | probe (tn fn : Nat)       -- `l1sched_handle_rx_probe`

/-- one call: the new scheduler state -/
def stepOp (s : Sched) : Op → Except Crash Sched
  | .cfg tn c => (configureTs s tn c).map fun r => r.2.1
  | .del tn => (delTs s tn).map fun r => r.1
  | .rts tn => (resetTs s tn).map fun r => r.2.1
  | .rst => (resetAll s).map fun r => r.1
  | .act tn ch => do
    match ← getTs s tn with
    | none => pure s
    | some ts =>
      let r ← activateLchan ts ch
      pure (setTs s tn (some r.2))
  | .deact tn ch => do
    match ← getTs s tn with
    | none => pure s
    | some ts =>
      let r ← deactivateLchan ts ch
      pure (setTs s tn (some r.2))
  | .rx tn fn => (handleRxBurst s tn fn).map fun r => r.sched
  | .tx tn fn => (pullBurst s tn fn).map fun _ => s
  | .probe tn fn => (rxProbe s tn fn).map fun _ => s

def runOps (s : Sched) : List Op → Except Crash Sched
  | [] => .ok s
  | op :: rest =>
    match stepOp s op with
    | .error e => .error e
    | .ok s' => runOps s' rest

/-- a timeslot as the scheduler functions leave it when every configuration succeeded: the
    list head is initialised, and if it has a layout, it is a real one and the channel states
    are exactly those of its mask -/
def TsInv (ts : Ts) : Prop :=
  ts.lchansInit = true ∧
  (ts.layout = none ∨ ∃ L, L ∈ layouts ∧ L.config ≠ .NONE ∧ ts.layout = some L ∧
    ts.lchans.map (·.type) = (List.range L1SCHED_CHAN_MAX).filter fun t => L.lchanMask.testBit t)

def Inv (s : Sched) : Prop :=
  s.ts.length = TRX_TS_COUNT ∧ ∀ (tn : Nat) (ts : Ts), s.ts[tn]? = some (some ts) → TsInv ts

/-- the calls the property speaks about: timeslots 0..7, channel combinations that have a
    real layout on that timeslot, channel numbers of the enum -/
def OpOk : Op → Prop
  | .cfg tn c => tn < TRX_TS_COUNT ∧ ∃ L, layoutForVal c tn = some L ∧ L.config ≠ .NONE
  | .act tn ch => tn < TRX_TS_COUNT ∧ ch ≤ L1SCHED_CHAN_MAX
  | .deact tn _ => tn < TRX_TS_COUNT
  | .del tn => tn < TRX_TS_COUNT
  | .rts tn => tn < TRX_TS_COUNT
  | .rx tn _ => tn < TRX_TS_COUNT
  | .tx tn _ => tn < TRX_TS_COUNT
  | .probe tn _ => tn < TRX_TS_COUNT
  | .rst => True

theorem inv_init : Inv initSched := by
  refine ⟨by simp [initSched], fun tn ts h => ?_⟩
  simp only [initSched] at h
  by_cases hlt : tn < TRX_TS_COUNT
  · rw [List.getElem?_eq_getElem (by simpa using hlt), List.getElem_replicate] at h
    cases h
  · rw [List.getElem?_eq_none (by simp; omega)] at h
    cases h

theorem inv_setTs (s : Sched) (tn : Nat) (o : Option Ts) (h : Inv s) (ho : ∀ ts, o = some ts → TsInv ts) :
    Inv (setTs s tn o) := by
  refine ⟨by simp [setTs, h.1], fun k ts hk => ?_⟩
  simp only [setTs] at hk
  by_cases hkt : tn = k
  · subst hkt
    by_cases hlt : tn < s.ts.length
    · rw [List.getElem?_set_self hlt] at hk
      exact ho ts (Option.some.inj hk)
    · rw [List.getElem?_eq_none (by simp only [List.length_set]; omega)] at hk
      cases hk
  · rw [List.getElem?_set_ne hkt] at hk
    exact h.2 k ts hk

theorem inv_get (s : Sched) (h : Inv s) (tn : Nat) (htn : tn < TRX_TS_COUNT) :
    ∃ o, getTs s tn = .ok o ∧ s.ts[tn]? = some o ∧ ∀ ts, o = some ts → TsInv ts := by
  have hlt : tn < s.ts.length := by rw [h.1]; exact htn
  refine ⟨s.ts[tn], getTs_of_lt s tn hlt, List.getElem?_eq_getElem hlt, fun ts hts => ?_⟩
  exact h.2 tn ts (by rw [List.getElem?_eq_getElem hlt, hts])

theorem tsInv_updFirst (ts : Ts) (h : TsInv ts) (chan : Nat) (f : LchanState → LchanState)
    (hf : ∀ l, (f l).type = l.type) : TsInv { ts with lchans := updFirst chan f ts.lchans } := by
  refine ⟨h.1, ?_⟩
  rcases h.2 with hn | ⟨L, h1, h2, h3, h4⟩
  · exact Or.inl hn
  · exact Or.inr ⟨L, h1, h2, h3, by simp only [updFirst_types chan f hf]; exact h4⟩

theorem delTs_inv (s : Sched) (h : Inv s) (tn : Nat) (htn : tn < TRX_TS_COUNT) :
    ∃ s' evs, delTs s tn = .ok (s', evs) ∧ Inv s' := by
  obtain ⟨o, hg, _, ho⟩ := inv_get s h tn htn
  cases o with
  | none =>
    refine ⟨s, [], ?_, h⟩
    simp only [delTs, hg, bind, Except.bind, pure, Except.pure]
  | some ts =>
    have hi := (ho ts rfl).1
    refine ⟨setTs s tn none, [.pchanComb tn Pchan.NONE.val], ?_, inv_setTs s tn none h (fun _ hc => by cases hc)⟩
    simp only [delTs, hg, bind, Except.bind, deactivateAll, hi, Bool.not_true, Bool.false_eq_true, if_false, pure,
      Except.pure]

theorem delAll_inv (l : List Nat) (hl : ∀ tn ∈ l, tn < TRX_TS_COUNT) :
    ∀ (s : Sched) (evs : List Ev), Inv s → ∃ s' evs', delAll s evs l = .ok (s', evs') ∧ Inv s' := by
  induction l with
  | nil => intro s evs h; exact ⟨s, evs, rfl, h⟩
  | cons tn rest ih =>
    intro s evs h
    obtain ⟨s1, e1, h1, hi1⟩ := delTs_inv s h tn (hl tn (by simp))
    obtain ⟨s2, e2, h2, hi2⟩ := ih (fun k hk => hl k (by simp [hk])) s1 (evs ++ e1) hi1
    refine ⟨s2, e2, ?_, hi2⟩
    simp only [delAll, h1, bind, Except.bind, h2]

end OsmoVerif.TrxSched
