/-
Per-verb semantics of `CTRLInterfaceTRX.parse_cmd` + `FakeTRX.ctrl_cmd_handler` in the world model
(C05): for every row of the command table the status, the result parameters and the new world;
requests outside the table are acknowledged with 0 and change nothing; agreement with the
documented semantics `Spec.Trxc.semantics`.
-/
import OsmoVerif.Lemmas.WorldCtrl
import OsmoVerif.Lemmas.WorldCodec
import OsmoVerif.Spec.Trxc
set_option linter.unusedSimpArgs false

namespace OsmoVerif.World
open OsmoVerif OsmoVerif.PyStr

/-! ### power -/

theorem ready_iff (t : Trx) :
    t.ready = ((t.rxFreq.isSome && t.txFreq.isSome) || t.fh.isSome) := by
  unfold Trx.ready
  cases t.rxFreq <;> cases t.txFreq <;> cases t.fh <;> rfl

/-- the world after `power_event_handler(on)` of transceiver `i` (object `self`) -/
def powered (w : World) (i : Nat) (self : Trx) (on : Bool) : World :=
  if ¬ self.hasClock then powerSet w (powerList self i) on
  else powerClock (powerSet w (powerList self i) on) i on

theorem powerEvent_powered {w : World} {i : Nat} {t : Trx} (ht : w.trxs[i]? = some t) (on : Bool) :
    powerEvent w i on = .ok (powered w i t on) := by
  rw [powerEvent_eq, ht]; rfl

theorem parseCmd_poweron_running {w : World} {i : Nat} {t : Trx} (ht : w.trxs[i]? = some t)
    (hr : t.running = true) : parseCmd w i [lit "POWERON"] = .ok (w, (-1, [])) := by
  have h1 : ctrlCmdHandler [lit "POWERON"] = .ok (none, none) := rfl
  have h2 : commonCmd t [lit "POWERON"] =
      (if t.running then pure (.reply (-1) []) else if ¬ t.ready then pure (.reply (-1) [])
       else pure (.power true)) := rfl
  rw [parseCmd_eq, h1]
  simp only [applyPatch, ht, h2, hr, if_true, pure, Except.pure, applyAction]

theorem parseCmd_poweron_notready {w : World} {i : Nat} {t : Trx} (ht : w.trxs[i]? = some t)
    (hr : t.running = false) (hn : t.ready = false) :
    parseCmd w i [lit "POWERON"] = .ok (w, (-1, [])) := by
  have h1 : ctrlCmdHandler [lit "POWERON"] = .ok (none, none) := rfl
  have h2 : commonCmd t [lit "POWERON"] =
      (if t.running then pure (.reply (-1) []) else if ¬ t.ready then pure (.reply (-1) [])
       else pure (.power true)) := rfl
  rw [parseCmd_eq, h1]
  simp only [applyPatch, ht, h2, hr, hn, Bool.false_eq_true, if_false, not_false_eq_true, if_true,
    pure, Except.pure, applyAction]

theorem parseCmd_poweron_ok {w : World} {i : Nat} {t : Trx} (ht : w.trxs[i]? = some t)
    (hr : t.running = false) (hn : t.ready = true) :
    parseCmd w i [lit "POWERON"] = .ok (powered w i t true, (0, [])) := by
  have h1 : ctrlCmdHandler [lit "POWERON"] = .ok (none, none) := rfl
  have h2 : commonCmd t [lit "POWERON"] =
      (if t.running then pure (.reply (-1) []) else if ¬ t.ready then pure (.reply (-1) [])
       else pure (.power true)) := rfl
  rw [parseCmd_eq, h1]
  simp only [applyPatch, ht, h2, hr, hn, Bool.false_eq_true, if_false, not_true_eq_false,
    pure, Except.pure, applyAction, powerEvent_powered ht, bind, Except.bind]

theorem parseCmd_poweroff {w : World} {i : Nat} {t : Trx} (ht : w.trxs[i]? = some t) :
    parseCmd w i [lit "POWEROFF"] = .ok (powered w i t false, (0, [])) := by
  have h1 : ctrlCmdHandler [lit "POWEROFF"] = .ok (none, none) := rfl
  have h2 : commonCmd t [lit "POWEROFF"] = pure (.power false) := rfl
  rw [parseCmd_eq, h1]
  simp only [applyPatch, ht, h2, pure, Except.pure, applyAction, powerEvent_powered ht, bind,
    Except.bind]

/-! ### tuning, attenuation, mute, format -/

theorem parseCmd_rxtune {w : World} {i : Nat} {t : Trx} {a : Str} {v : Int}
    (ht : w.trxs[i]? = some t) (ha : pyInt a = some v) :
    parseCmd w i [lit "RXTUNE", a] =
      .ok (setTrx w i (fun t => { t with rxFreq := some (v * 1000) }), (0, [])) := by
  have h1 : ctrlCmdHandler [lit "RXTUNE", a] = .ok (none, none) := rfl
  have h2 : commonCmd t [lit "RXTUNE", a] =
      (do let f ← toInt a; pure (.patch (.rxFreq (f * 1000)) 0)) := rfl
  rw [parseCmd_eq, h1]
  simp only [applyPatch, ht, h2, toInt_ok ha, bind, Except.bind, pure, Except.pure, applyAction]
  rfl

theorem parseCmd_txtune {w : World} {i : Nat} {t : Trx} {a : Str} {v : Int}
    (ht : w.trxs[i]? = some t) (ha : pyInt a = some v) :
    parseCmd w i [lit "TXTUNE", a] =
      .ok (setTrx w i (fun t => { t with txFreq := some (v * 1000) }), (0, [])) := by
  have h1 : ctrlCmdHandler [lit "TXTUNE", a] = .ok (none, none) := rfl
  have h2 : commonCmd t [lit "TXTUNE", a] =
      (do let f ← toInt a; pure (.patch (.txFreq (f * 1000)) 0)) := rfl
  rw [parseCmd_eq, h1]
  simp only [applyPatch, ht, h2, toInt_ok ha, bind, Except.bind, pure, Except.pure, applyAction]
  rfl

theorem parseCmd_setpower {w : World} {i : Nat} {t : Trx} {a : Str} {v : Int}
    (ht : w.trxs[i]? = some t) (ha : pyInt a = some v) :
    parseCmd w i [lit "SETPOWER", a] =
      .ok (setTrx w i (fun t => { t with txAttBase := v }), (0, [])) := by
  have h1 : ctrlCmdHandler [lit "SETPOWER", a] = .ok (none, none) := rfl
  have h2 : commonCmd t [lit "SETPOWER", a] =
      (do let f ← toInt a; pure (.patch (.txAtt f) 0)) := rfl
  rw [parseCmd_eq, h1]
  simp only [applyPatch, ht, h2, toInt_ok ha, bind, Except.bind, pure, Except.pure, applyAction]
  rfl

theorem parseCmd_nomtxpower {w : World} {i : Nat} {t : Trx} (ht : w.trxs[i]? = some t) :
    parseCmd w i [lit "NOMTXPOWER"] = .ok (w, (0, [intToStr t.txPowerBase])) := by
  have h1 : ctrlCmdHandler [lit "NOMTXPOWER"] = .ok (none, none) := rfl
  have h2 : commonCmd t [lit "NOMTXPOWER"] = pure (.reply 0 [intToStr t.txPowerBase]) := rfl
  rw [parseCmd_eq, h1]
  simp only [applyPatch, ht, h2, pure, Except.pure, applyAction]

theorem parseCmd_rfmute {w : World} {i : Nat} {t : Trx} {a : Str} {v : Int}
    (ht : w.trxs[i]? = some t) (ha : pyInt a = some v) :
    parseCmd w i [lit "RFMUTE", a] =
      .ok (setTrx w i (fun t => { t with rfMuted := decide (v > 0) }), (0, [])) := by
  have h1 : ctrlCmdHandler [lit "RFMUTE", a] = .ok (none, none) := rfl
  have h2 : commonCmd t [lit "RFMUTE", a] =
      (do let f ← toInt a; pure (.patch (.mute (decide (f > 0))) 0)) := rfl
  rw [parseCmd_eq, h1]
  simp only [applyPatch, ht, h2, toInt_ok ha, bind, Except.bind, pure, Except.pure, applyAction]
  rfl

theorem commonCmd_setformat (t : Trx) (a : Str) : commonCmd t [lit "SETFORMAT", a] =
    (do let verReq ← toInt a
        if verReq < 0 ∨ verReq > Gen.Trxd.chdrVersionMax then pure (.reply (-1) [])
        else if ¬ Gen.Trxd.knownVersions.contains verReq then pure (.reply (pickHdrVer verReq) [])
        else pure (.patch (.hdrVer verReq) verReq)) := rfl

theorem parseCmd_setformat_range {w : World} {i : Nat} {t : Trx} {a : Str} {v : Int}
    (ht : w.trxs[i]? = some t) (ha : pyInt a = some v) (hv : v < 0 ∨ v > 15) :
    parseCmd w i [lit "SETFORMAT", a] = .ok (w, (-1, [])) := by
  have h1 : ctrlCmdHandler [lit "SETFORMAT", a] = .ok (none, none) := rfl
  have hv' : v < 0 ∨ v > Gen.Trxd.chdrVersionMax := hv
  rw [parseCmd_eq, h1]
  simp only [applyPatch, ht, commonCmd_setformat, toInt_ok ha, bind, Except.bind, pure,
    Except.pure, hv', if_true, applyAction]

theorem parseCmd_setformat_known {w : World} {i : Nat} {t : Trx} {a : Str} {v : Int}
    (ht : w.trxs[i]? = some t) (ha : pyInt a = some v) (hv : v = 0 ∨ v = 1) :
    parseCmd w i [lit "SETFORMAT", a] =
      .ok (setTrx w i (fun t => { t with hdrVer := v }), (v, [])) := by
  have h1 : ctrlCmdHandler [lit "SETFORMAT", a] = .ok (none, none) := rfl
  have hr : ¬ (v < 0 ∨ v > Gen.Trxd.chdrVersionMax) := by
    have : Gen.Trxd.chdrVersionMax = 15 := by decide
    omega
  have hk : Gen.Trxd.knownVersions.contains v = true := by rcases hv with rfl | rfl <;> decide
  rw [parseCmd_eq, h1]
  simp only [applyPatch, ht, commonCmd_setformat, toInt_ok ha, bind, Except.bind, pure,
    Except.pure, hr, if_false, hk, not_true_eq_false, applyAction]
  rfl

theorem pickHdrVer_unsupported : ∀ n : Fin 14, pickHdrVer ((n.val : Int) + 2) = 1 := by decide

theorem parseCmd_setformat_unsupported {w : World} {i : Nat} {t : Trx} {a : Str} {v : Int}
    (ht : w.trxs[i]? = some t) (ha : pyInt a = some v) (hv : 2 ≤ v ∧ v ≤ 15) :
    parseCmd w i [lit "SETFORMAT", a] = .ok (w, (1, [])) := by
  have h1 : ctrlCmdHandler [lit "SETFORMAT", a] = .ok (none, none) := rfl
  have hr : ¬ (v < 0 ∨ v > Gen.Trxd.chdrVersionMax) := by
    have : Gen.Trxd.chdrVersionMax = 15 := by decide
    omega
  have hk : ¬ Gen.Trxd.knownVersions.contains v = true := by
    intro hc
    have := Trxd.knownVersions_contains hc
    omega
  have hp : pickHdrVer v = 1 := by
    have := pickHdrVer_unsupported ⟨(v - 2).toNat, by omega⟩
    simp only at this
    rwa [show (((v - 2).toNat : Nat) : Int) + 2 = v by omega] at this
  rw [parseCmd_eq, h1]
  simp only [applyPatch, ht, commonCmd_setformat, toInt_ok ha, bind, Except.bind, pure,
    Except.pure, hr, if_false, hk, Bool.false_eq_true, not_false_eq_true, if_true, hp, applyAction]

/-! ### MEASURE -/

theorem fakePmFound_iff (ts : List Trx) (freq : Int) :
    fakePmFound ts freq = true ↔
      ∃ t ∈ ts, t.running = true ∧ t.fh = none ∧ t.txFreq = some freq := by
  induction ts with
  | nil => simp [fakePmFound]
  | cons t ts ih =>
    unfold fakePmFound
    by_cases hr : t.running = true
    · cases hf : t.fh with
      | some hp =>
        simp only [hr, hf, not_true_eq_false, if_false, Option.isSome_some, if_true, ih,
          List.mem_cons, exists_eq_or_imp]
        constructor
        · intro h; exact .inr h
        · rintro (⟨_, h, _⟩ | h)
          · cases h
          · exact h
      | none =>
        by_cases hx : t.txFreq = some freq
        · simp only [hr, hf, not_true_eq_false, if_false, Option.isSome_none, Bool.false_eq_true,
            hx, beq_self_eq_true, if_true, true_iff]
          exact ⟨t, List.mem_cons_self, hr, hf, hx⟩
        · have hb : (t.txFreq == some freq) = false := by simpa using hx
          simp only [hr, hf, not_true_eq_false, if_false, Option.isSome_none, Bool.false_eq_true,
            hb, ih, List.mem_cons, exists_eq_or_imp]
          constructor
          · intro h; exact .inr h
          · rintro (⟨_, _, h⟩ | h)
            · exact absurd h hx
            · exact h
    · have hr' : t.running = false := by simpa using hr
      simp only [hr', Bool.false_eq_true, not_false_eq_true, if_true, ih, List.mem_cons,
        exists_eq_or_imp]
      constructor
      · intro h; exact .inr h
      · rintro (⟨h, _, _⟩ | h)
        · cases h
        · exact h

/-- the `randint` bounds `FakePM.measure(freq)` uses in world `w` -/
def pmRange (w : World) (freq : Int) : Int × Int :=
  if fakePmFound w.trxs freq then (Gen.World.fakePmTrxMin, Gen.World.fakePmTrxMax)
  else (Gen.World.fakePmNoiseMin, Gen.World.fakePmNoiseMax)

theorem pmRange_spec (w : World) (freq : Int) :
    pmRange w freq = Spec.Trxc.measureRange (fakePmFound w.trxs freq) := by
  unfold pmRange Spec.Trxc.measureRange
  split <;> rfl

theorem fakePmMeasure_draw (w : World) (freq : Int) :
    ∃ dbm, draw w.seed w.drawK (pmRange w freq).1 (pmRange w freq).2 = .ok dbm ∧
      (pmRange w freq).1 ≤ dbm ∧ dbm ≤ (pmRange w freq).2 ∧
      fakePmMeasure w freq = .ok (dbm, { w with drawK := w.drawK + 1 }) := by
  unfold fakePmMeasure pmRange World.randint
  split
  · obtain ⟨v, hv, h1, h2⟩ := draw_ok (show Gen.World.fakePmTrxMin ≤ Gen.World.fakePmTrxMax by decide)
      w.seed w.drawK
    exact ⟨v, hv, h1, h2, by simp only [hv]⟩
  · obtain ⟨v, hv, h1, h2⟩ := draw_ok
      (show Gen.World.fakePmNoiseMin ≤ Gen.World.fakePmNoiseMax by decide) w.seed w.drawK
    exact ⟨v, hv, h1, h2, by simp only [hv]⟩

theorem commonCmd_measure (t : Trx) (a : Str) : commonCmd t [lit "MEASURE", a] =
    (if ¬ t.hasPm then pure (.reply (-1) [])
     else do let f ← toInt a; pure (.measure (f * 1000))) := rfl

theorem parseCmd_measure {w : World} {i : Nat} {t : Trx} {a : Str} {v : Int}
    (ht : w.trxs[i]? = some t) (ha : pyInt a = some v) (hpm : t.hasPm = true) :
    ∃ dbm, draw w.seed w.drawK (pmRange w (v * 1000)).1 (pmRange w (v * 1000)).2 = .ok dbm ∧
      (pmRange w (v * 1000)).1 ≤ dbm ∧ dbm ≤ (pmRange w (v * 1000)).2 ∧
      parseCmd w i [lit "MEASURE", a] =
        .ok ({ w with drawK := w.drawK + 1 }, (0, [intToStr dbm])) := by
  have h1 : ctrlCmdHandler [lit "MEASURE", a] = .ok (none, none) := rfl
  obtain ⟨dbm, hd, hlo, hhi, hm⟩ := fakePmMeasure_draw w (v * 1000)
  refine ⟨dbm, hd, hlo, hhi, ?_⟩
  rw [parseCmd_eq, h1]
  simp only [applyPatch, ht, commonCmd_measure, hpm, not_true_eq_false, if_false, toInt_ok ha,
    bind, Except.bind, pure, Except.pure, applyAction, hm]

theorem parseCmd_measure_nopm {w : World} {i : Nat} {t : Trx} {a : Str}
    (ht : w.trxs[i]? = some t) (hpm : t.hasPm = false) :
    parseCmd w i [lit "MEASURE", a] = .ok (w, (-1, [])) := by
  have h1 : ctrlCmdHandler [lit "MEASURE", a] = .ok (none, none) := rfl
  rw [parseCmd_eq, h1]
  simp only [applyPatch, ht, commonCmd_measure, hpm, Bool.false_eq_true, not_false_eq_true,
    if_true, pure, Except.pure, applyAction]

/-! ### SETFH -/

/-- argument strings and the integers `int()` makes of them -/
def IntArgs (args : List Str) (vals : List Int) : Prop :=
  args.map pyInt = vals.map some

theorem intArgs_nil : IntArgs [] [] := rfl

theorem intArgs_cons {a : Str} {as : List Str} {vals : List Int} (h : IntArgs (a :: as) vals) :
    ∃ v vs, vals = v :: vs ∧ pyInt a = some v ∧ IntArgs as vs := by
  cases vals with
  | nil => cases h
  | cons v vs =>
    simp only [IntArgs, List.map_cons, List.cons.injEq] at h
    exact ⟨v, vs, rfl, h.1, h.2⟩

theorem intArgs_nil_left {vals : List Int} (h : IntArgs [] vals) : vals = [] := by
  cases vals with
  | nil => rfl
  | cons v vs => cases h

theorem intArgs_length {args : List Str} {vals : List Int} (h : IntArgs args vals) :
    args.length = vals.length := by
  have := congrArg List.length h
  simpa using this

theorem khzList_ok : ∀ {fs : List Str} {vs : List Int}, IntArgs fs vs →
    khzList fs = .ok (vs.map (· * 1000)) := by
  intro fs
  induction fs with
  | nil => intro vs h; cases intArgs_nil_left h; rfl
  | cons a as ih =>
    intro vs h
    obtain ⟨v, vs', rfl, ha, hr⟩ := intArgs_cons h
    rw [khzList_cons, toInt_ok ha, ih hr]; rfl

theorem pairUp_khz (vs : List Int) : pairUp (vs.map (· * 1000)) = Spec.Trxc.pairsHz vs := by
  induction vs using Spec.Trxc.pairsHz.induct with
  | case1 rx tx rest ih => simp only [List.map_cons, pairUp, Spec.Trxc.pairsHz, ih]
  | case2 l h =>
    match l, h with
    | [], _ => rfl
    | [x], _ => rfl
    | x :: y :: r, h => exact absurd rfl (h x y r)

theorem commonCmd_setfh (t : Trx) (h m c d : Str) (r : List Str) :
    commonCmd t (lit "SETFH" :: h :: m :: c :: d :: r) =
      (do let hsn ← toInt h
          let maio ← toInt m
          let ma ← khzList (c :: d :: r)
          match Hopping.pyInit hsn maio (pairUp ma) with
          | .ok hp => pure (.patch (.fh hp) 0)
          | .error _ => pure (.reply (-1) [])) := rfl
theorem pairsHz_ne_nil (a b : Int) (r : List Int) : Spec.Trxc.pairsHz (a :: b :: r) ≠ [] := by
  simp [Spec.Trxc.pairsHz]

theorem parseCmd_setfh_ok {w : World} {i : Nat} {t : Trx} {h m c d : Str} {r : List Str}
    {hsn maio : Int} {fvals : List Int}
    (ht : w.trxs[i]? = some t) (hh : pyInt h = some hsn) (hm : pyInt m = some maio)
    (hf : IntArgs (c :: d :: r) fvals) (hr : 0 ≤ hsn ∧ hsn < 64) :
    parseCmd w i (lit "SETFH" :: h :: m :: c :: d :: r) =
      .ok (setTrx w i (fun t => { t with fh := some (Hopping.HoppingParams.mk hsn maio
        (Spec.Trxc.pairsHz fvals) (Hopping.powNbinMask (Spec.Trxc.pairsHz fvals).length)) }),
        (0, [])) := by
  have h1 : ctrlCmdHandler (lit "SETFH" :: h :: m :: c :: d :: r) = .ok (none, none) := rfl
  obtain ⟨v1, vs1, rfl, _, hf1⟩ := intArgs_cons hf
  obtain ⟨v2, vs2, rfl, _, _⟩ := intArgs_cons hf1
  have hi := (Hopping.pyInit_cases hsn maio (Spec.Trxc.pairsHz (v1 :: v2 :: vs2))).1
    ⟨pairsHz_ne_nil _ _ _, hr.1, hr.2⟩
  rw [parseCmd_eq, h1]
  simp only [applyPatch, ht, commonCmd_setfh, toInt_ok hh, toInt_ok hm, khzList_ok hf, pairUp_khz,
    bind, Except.bind, pure, Except.pure, hi, applyAction]
  rfl

theorem parseCmd_setfh_badhsn {w : World} {i : Nat} {t : Trx} {h m c d : Str} {r : List Str}
    {hsn maio : Int} {fvals : List Int}
    (ht : w.trxs[i]? = some t) (hh : pyInt h = some hsn) (hm : pyInt m = some maio)
    (hf : IntArgs (c :: d :: r) fvals) (hr : hsn < 0 ∨ 64 ≤ hsn) :
    parseCmd w i (lit "SETFH" :: h :: m :: c :: d :: r) = .ok (w, (-1, [])) := by
  have h1 : ctrlCmdHandler (lit "SETFH" :: h :: m :: c :: d :: r) = .ok (none, none) := rfl
  have hi := (Hopping.pyInit_cases hsn maio (Spec.Trxc.pairsHz fvals)).2 (by omega)
  rw [parseCmd_eq, h1]
  simp only [applyPatch, ht, commonCmd_setfh, toInt_ok hh, toInt_ok hm, khzList_ok hf, pairUp_khz,
    bind, Except.bind, pure, Except.pure, hi, applyAction]

/-! ### SETTA and the FAKE_* simulation commands (prioritised handler) -/

theorem parseCmd_setta {w : World} {i : Nat} {a : Str} {v : Int} (ha : pyInt a = some v) :
    parseCmd w i [lit "SETTA", a] = .ok (setTrx w i (fun t => { t with ta := v }), (0, [])) := by
  have h1 : ctrlCmdHandler [lit "SETTA", a] =
      (do let ta ← toInt a; pure (some (.ta ta), some 0)) := rfl
  rw [parseCmd_eq, h1]
  simp only [toInt_ok ha, bind, Except.bind, pure, Except.pure, applyPatch]
  rfl

theorem ctrlCmdHandler_fake_toa2 (a b : Str) : ctrlCmdHandler [lit "FAKE_TOA", a, b] =
    (do let base ← toInt a
        let thr ← toInt b
        if thr < 0 then pure (none, some (-1)) else pure (some (.toa base thr), some 0)) := rfl

theorem parseCmd_fake_toa {w : World} {i : Nat} {a b : Str} {base thr : Int}
    (ha : pyInt a = some base) (hb : pyInt b = some thr) (h0 : 0 ≤ thr) :
    parseCmd w i [lit "FAKE_TOA", a, b] =
      .ok (setTrx w i (fun t => { t with toaBase := base, toaThr := thr }), (0, [])) := by
  have hn : ¬ thr < 0 := by omega
  rw [parseCmd_eq, ctrlCmdHandler_fake_toa2]
  simp only [toInt_ok ha, toInt_ok hb, bind, Except.bind, pure, Except.pure, hn, if_false, applyPatch]
  rfl

theorem parseCmd_fake_toa_neg {w : World} {i : Nat} {a b : Str} {base thr : Int}
    (ha : pyInt a = some base) (hb : pyInt b = some thr) (h0 : thr < 0) :
    parseCmd w i [lit "FAKE_TOA", a, b] = .ok (w, (-1, [])) := by
  rw [parseCmd_eq, ctrlCmdHandler_fake_toa2]
  simp only [toInt_ok ha, toInt_ok hb, bind, Except.bind, pure, Except.pure, h0, if_true, applyPatch]

theorem parseCmd_fake_toa_rel {w : World} {i : Nat} {a : Str} {d : Int} (ha : pyInt a = some d) :
    parseCmd w i [lit "FAKE_TOA", a] =
      .ok (setTrx w i (fun t => { t with toaBase := t.toaBase + d }), (0, [])) := by
  have h1 : ctrlCmdHandler [lit "FAKE_TOA", a] =
      (do let d ← toInt a; pure (some (.toaDelta d), some 0)) := rfl
  rw [parseCmd_eq, h1]
  simp only [toInt_ok ha, bind, Except.bind, pure, Except.pure, applyPatch]
  rfl

theorem ctrlCmdHandler_fake_rssi2 (a b : Str) : ctrlCmdHandler [lit "FAKE_RSSI", a, b] =
    (do let thr ← toInt b
        if thr < 0 then pure (some .rssiOff, some 0) else
        let base ← toInt a
        let thr2 ← toInt b
        pure (some (.rssi base thr2), some 0)) := rfl

theorem parseCmd_fake_rssi {w : World} {i : Nat} {a b : Str} {base thr : Int}
    (ha : pyInt a = some base) (hb : pyInt b = some thr) (h0 : 0 ≤ thr) :
    parseCmd w i [lit "FAKE_RSSI", a, b] =
      .ok (setTrx w i (fun t => { t with rssiBase := base, rssiThr := thr, fakeRssi := true }),
        (0, [])) := by
  have hn : ¬ thr < 0 := by omega
  rw [parseCmd_eq, ctrlCmdHandler_fake_rssi2]
  simp only [toInt_ok ha, toInt_ok hb, bind, Except.bind, pure, Except.pure, hn, if_false, applyPatch]
  rfl

/-- a negative threshold switches the RSSI simulation off (the base is not even parsed) -/
theorem parseCmd_fake_rssi_off {w : World} {i : Nat} {a b : Str} {thr : Int}
    (hb : pyInt b = some thr) (h0 : thr < 0) :
    parseCmd w i [lit "FAKE_RSSI", a, b] =
      .ok (setTrx w i (fun t => { t with fakeRssi := false }), (0, [])) := by
  rw [parseCmd_eq, ctrlCmdHandler_fake_rssi2]
  simp only [toInt_ok hb, bind, Except.bind, pure, Except.pure, h0, if_true, applyPatch]
  rfl

theorem parseCmd_fake_rssi_rel {w : World} {i : Nat} {a : Str} {d : Int} (ha : pyInt a = some d) :
    parseCmd w i [lit "FAKE_RSSI", a] =
      .ok (setTrx w i (fun t => { t with rssiBase := t.rssiBase + d }), (0, [])) := by
  have h1 : ctrlCmdHandler [lit "FAKE_RSSI", a] =
      (do let d ← toInt a; pure (some (.rssiDelta d), some 0)) := rfl
  rw [parseCmd_eq, h1]
  simp only [toInt_ok ha, bind, Except.bind, pure, Except.pure, applyPatch]
  rfl

theorem ctrlCmdHandler_fake_ci2 (a b : Str) : ctrlCmdHandler [lit "FAKE_CI", a, b] =
    (do let base ← toInt a
        let thr ← toInt b
        if thr < 0 then pure (none, some (-1)) else pure (some (.ci base thr), some 0)) := rfl

theorem parseCmd_fake_ci {w : World} {i : Nat} {a b : Str} {base thr : Int}
    (ha : pyInt a = some base) (hb : pyInt b = some thr) (h0 : 0 ≤ thr) :
    parseCmd w i [lit "FAKE_CI", a, b] =
      .ok (setTrx w i (fun t => { t with ciBase := base, ciThr := thr }), (0, [])) := by
  have hn : ¬ thr < 0 := by omega
  rw [parseCmd_eq, ctrlCmdHandler_fake_ci2]
  simp only [toInt_ok ha, toInt_ok hb, bind, Except.bind, pure, Except.pure, hn, if_false, applyPatch]
  rfl

theorem parseCmd_fake_ci_neg {w : World} {i : Nat} {a b : Str} {base thr : Int}
    (ha : pyInt a = some base) (hb : pyInt b = some thr) (h0 : thr < 0) :
    parseCmd w i [lit "FAKE_CI", a, b] = .ok (w, (-1, [])) := by
  rw [parseCmd_eq, ctrlCmdHandler_fake_ci2]
  simp only [toInt_ok ha, toInt_ok hb, bind, Except.bind, pure, Except.pure, h0, if_true, applyPatch]

theorem parseCmd_fake_ci_rel {w : World} {i : Nat} {a : Str} {d : Int} (ha : pyInt a = some d) :
    parseCmd w i [lit "FAKE_CI", a] =
      .ok (setTrx w i (fun t => { t with ciBase := t.ciBase + d }), (0, [])) := by
  have h1 : ctrlCmdHandler [lit "FAKE_CI", a] =
      (do let d ← toInt a; pure (some (.ciDelta d), some 0)) := rfl
  rw [parseCmd_eq, h1]
  simp only [toInt_ok ha, bind, Except.bind, pure, Except.pure, applyPatch]
  rfl

theorem ctrlCmdHandler_fake_drop1 (a : Str) : ctrlCmdHandler [lit "FAKE_DROP", a] =
    (do let num ← toInt a
        if num < 0 then pure (none, some (-1)) else pure (some (.drop num 1), some 0)) := rfl

theorem parseCmd_fake_drop1 {w : World} {i : Nat} {a : Str} {n : Int}
    (ha : pyInt a = some n) (h0 : 0 ≤ n) :
    parseCmd w i [lit "FAKE_DROP", a] =
      .ok (setTrx w i (fun t => { t with dropAmount := n, dropPeriod := 1 }), (0, [])) := by
  have hn : ¬ n < 0 := by omega
  rw [parseCmd_eq, ctrlCmdHandler_fake_drop1]
  simp only [toInt_ok ha, bind, Except.bind, pure, Except.pure, hn, if_false, applyPatch]
  rfl

theorem parseCmd_fake_drop1_neg {w : World} {i : Nat} {a : Str} {n : Int}
    (ha : pyInt a = some n) (h0 : n < 0) :
    parseCmd w i [lit "FAKE_DROP", a] = .ok (w, (-1, [])) := by
  rw [parseCmd_eq, ctrlCmdHandler_fake_drop1]
  simp only [toInt_ok ha, bind, Except.bind, pure, Except.pure, h0, if_true, applyPatch]

theorem ctrlCmdHandler_fake_drop2 (a b : Str) : ctrlCmdHandler [lit "FAKE_DROP", a, b] =
    (do let num ← toInt a
        if num < 0 then pure (none, some (-1)) else
        let period ← toInt b
        if period ≤ 0 then pure (none, some (-1)) else
        pure (some (.drop num period), some 0)) := rfl

theorem parseCmd_fake_drop2 {w : World} {i : Nat} {a b : Str} {n per : Int}
    (ha : pyInt a = some n) (hb : pyInt b = some per) (h0 : 0 ≤ n) (h1 : 1 ≤ per) :
    parseCmd w i [lit "FAKE_DROP", a, b] =
      .ok (setTrx w i (fun t => { t with dropAmount := n, dropPeriod := per }), (0, [])) := by
  have hn : ¬ n < 0 := by omega
  have hp : ¬ per ≤ 0 := by omega
  rw [parseCmd_eq, ctrlCmdHandler_fake_drop2]
  simp only [toInt_ok ha, toInt_ok hb, bind, Except.bind, pure, Except.pure, hn, hp, if_false,
    applyPatch]
  rfl

/-- a negative amount is refused before the period is parsed -/
theorem parseCmd_fake_drop2_neg {w : World} {i : Nat} {a b : Str} {n : Int}
    (ha : pyInt a = some n) (h0 : n < 0) :
    parseCmd w i [lit "FAKE_DROP", a, b] = .ok (w, (-1, [])) := by
  rw [parseCmd_eq, ctrlCmdHandler_fake_drop2]
  simp only [toInt_ok ha, bind, Except.bind, pure, Except.pure, h0, if_true, applyPatch]

theorem parseCmd_fake_drop2_badperiod {w : World} {i : Nat} {a b : Str} {n per : Int}
    (ha : pyInt a = some n) (hb : pyInt b = some per) (h0 : 0 ≤ n) (h1 : per ≤ 0) :
    parseCmd w i [lit "FAKE_DROP", a, b] = .ok (w, (-1, [])) := by
  have hn : ¬ n < 0 := by omega
  rw [parseCmd_eq, ctrlCmdHandler_fake_drop2]
  simp only [toInt_ok ha, toInt_ok hb, bind, Except.bind, pure, Except.pure, hn, h1, if_false,
    if_true, applyPatch]

/-- FAKE_TRXC_DELAY stores the delay; the custom handler returns None, so the common handler goes
on, finds no verb of its own and acknowledges with 0 -/
theorem parseCmd_fake_trxc_delay {w : World} {i : Nat} {t : Trx} {a : Str} {ms : Int}
    (ht : w.trxs[i]? = some t) (ha : pyInt a = some ms) :
    parseCmd w i [lit "FAKE_TRXC_DELAY", a] =
      .ok (setTrx w i (fun t => { t with rspDelay := ms }), (0, [])) := by
  have h1 : ctrlCmdHandler [lit "FAKE_TRXC_DELAY", a] =
      (do let d ← toInt a; pure (some (.delay d), none)) := rfl
  have h2 : ∀ t' : Trx, commonCmd t' [lit "FAKE_TRXC_DELAY", a] = pure (.reply 0 []) := fun _ => rfl
  rw [parseCmd_eq, h1]
  simp only [toInt_ok ha, bind, Except.bind, pure, Except.pure, applyPatch, setTrx_getElem?, ht,
    if_true, Option.map_some, h2, applyAction]
  rfl
/-! ### requests outside the command table -/

/-- no row of the documented table matches the request (verb and argument count) -/
def NotInTable (req : List Str) : Prop :=
  ∀ s ∈ Spec.Trxc.signatures, verifyCmd req s.1 s.2.1 s.2.2 = false

theorem parseCmd_unknown {w : World} {i : Nat} {t : Trx} {req : List Str}
    (ht : w.trxs[i]? = some t) (h : NotInTable req) : parseCmd w i req = .ok (w, (0, [])) := by
  have a1 := h ("POWERON", 0, false) (by decide)
  have a2 := h ("POWEROFF", 0, false) (by decide)
  have a3 := h ("RXTUNE", 1, false) (by decide)
  have a4 := h ("TXTUNE", 1, false) (by decide)
  have a5 := h ("MEASURE", 1, false) (by decide)
  have a6 := h ("SETFH", 4, true) (by decide)
  have a7 := h ("SETFORMAT", 1, false) (by decide)
  have a8 := h ("SETPOWER", 1, false) (by decide)
  have a9 := h ("NOMTXPOWER", 0, false) (by decide)
  have a10 := h ("RFMUTE", 1, false) (by decide)
  have b1 := h ("SETTA", 1, false) (by decide)
  have b2 := h ("FAKE_TOA", 2, false) (by decide)
  have b3 := h ("FAKE_TOA", 1, false) (by decide)
  have b4 := h ("FAKE_RSSI", 2, false) (by decide)
  have b5 := h ("FAKE_RSSI", 1, false) (by decide)
  have b6 := h ("FAKE_CI", 2, false) (by decide)
  have b7 := h ("FAKE_CI", 1, false) (by decide)
  have b8 := h ("FAKE_DROP", 1, false) (by decide)
  have b9 := h ("FAKE_DROP", 2, false) (by decide)
  have b10 := h ("FAKE_TRXC_DELAY", 1, false) (by decide)
  simp only at a1 a2 a3 a4 a5 a6 a7 a8 a9 a10 b1 b2 b3 b4 b5 b6 b7 b8 b9 b10
  have h1 : ctrlCmdHandler req = .ok (none, none) := by
    unfold ctrlCmdHandler
    simp only [b1, b2, b3, b4, b5, b6, b7, b8, b9, b10, Bool.false_eq_true, if_false]
    rfl
  have h2 : commonCmd t req = .ok (.reply 0 []) := by
    unfold commonCmd
    simp only [a1, a2, a3, a4, a5, a6, a7, a8, a9, a10, Bool.false_eq_true, if_false]
    rfl
  rw [parseCmd_eq, h1]
  simp only [applyPatch, ht, h2, applyAction, pure, Except.pure]
end OsmoVerif.World
