/-
Per-verb semantics of `CTRLInterfaceTRX.parse_cmd` + `FakeTRX.ctrl_cmd_handler` in the world model
(C05): for every row of the command table the status, the result parameters and the new world;
requests outside the table are acknowledged with 0 and change nothing; agreement with the
documented semantics `Spec.Trxc.semantics`.
-/
import OsmoVerif.Lemmas.WorldCtrl
import OsmoVerif.Lemmas.WorldCodec
import OsmoVerif.Spec.Trxc
set_option linter.unusedSimpArgs false

namespace OsmoVerif.World
open OsmoVerif OsmoVerif.PyStr

/-! ### power -/

theorem ready_iff (t : Trx) :
    t.ready = ((t.rxFreq.isSome && t.txFreq.isSome) || t.fh.isSome) := by
  unfold Trx.ready
  cases t.rxFreq <;> cases t.txFreq <;> cases t.fh <;> rfl

/-- the world after `power_event_handler(on)` of transceiver `i` (object `self`) -/
def powered (w : World) (i : Nat) (self : Trx) (on : Bool) : World :=
  if ¬ self.hasClock then powerSet w (powerList self i) on
  else powerClock (powerSet w (powerList self i) on) i on

theorem powerEvent_powered {w : World} {i : Nat} {t : Trx} (ht : w.trxs[i]? = some t) (on : Bool) :
    powerEvent w i on = .ok (powered w i t on) := by
  rw [powerEvent_eq, ht]; rfl

theorem parseCmd_poweron_running {w : World} {i : Nat} {t : Trx} (ht : w.trxs[i]? = some t)
    (hr : t.running = true) : parseCmd w i [lit "POWERON"] = .ok (w, (-1, [])) := by
  have h1 : ctrlCmdHandler [lit "POWERON"] = .ok (none, none) := rfl
  have h2 : commonCmd t [lit "POWERON"] =
      (if t.running then pure (.reply (-1) []) else if ¬ t.ready then pure (.reply (-1) [])
       else pure (.power true)) := rfl
  rw [parseCmd_eq, h1]
  simp only [applyPatch, ht, h2, hr, if_true, pure, Except.pure, applyAction]

theorem parseCmd_poweron_notready {w : World} {i : Nat} {t : Trx} (ht : w.trxs[i]? = some t)
    (hr : t.running = false) (hn : t.ready = false) :
    parseCmd w i [lit "POWERON"] = .ok (w, (-1, [])) := by
  have h1 : ctrlCmdHandler [lit "POWERON"] = .ok (none, none) := rfl
  have h2 : commonCmd t [lit "POWERON"] =
      (if t.running then pure (.reply (-1) []) else if ¬ t.ready then pure (.reply (-1) [])
       else pure (.power true)) := rfl
  rw [parseCmd_eq, h1]
  simp only [applyPatch, ht, h2, hr, hn, Bool.false_eq_true, if_false, not_false_eq_true, if_true,
    pure, Except.pure, applyAction]

theorem parseCmd_poweron_ok {w : World} {i : Nat} {t : Trx} (ht : w.trxs[i]? = some t)
    (hr : t.running = false) (hn : t.ready = true) :
    parseCmd w i [lit "POWERON"] = .ok (powered w i t true, (0, [])) := by
  have h1 : ctrlCmdHandler [lit "POWERON"] = .ok (none, none) := rfl
  have h2 : commonCmd t [lit "POWERON"] =
      (if t.running then pure (.reply (-1) []) else if ¬ t.ready then pure (.reply (-1) [])
       else pure (.power true)) := rfl
  rw [parseCmd_eq, h1]
  simp only [applyPatch, ht, h2, hr, hn, Bool.false_eq_true, if_false, not_true_eq_false,
    pure, Except.pure, applyAction, powerEvent_powered ht, bind, Except.bind]

theorem parseCmd_poweroff {w : World} {i : Nat} {t : Trx} (ht : w.trxs[i]? = some t) :
    parseCmd w i [lit "POWEROFF"] = .ok (powered w i t false, (0, [])) := by
  have h1 : ctrlCmdHandler [lit "POWEROFF"] = .ok (none, none) := rfl
  have h2 : commonCmd t [lit "POWEROFF"] = pure (.power false) := rfl
  rw [parseCmd_eq, h1]
  simp only [applyPatch, ht, h2, pure, Except.pure, applyAction, powerEvent_powered ht, bind,
    Except.bind]

/-! ### tuning, attenuation, mute, format -/

theorem parseCmd_rxtune {w : World} {i : Nat} {t : Trx} {a : Str} {v : Int}
    (ht : w.trxs[i]? = some t) (ha : pyInt a = some v) :
    parseCmd w i [lit "RXTUNE", a] =
      .ok (setTrx w i (fun t => { t with rxFreq := some (v * 1000) }), (0, [])) := by
  have h1 : ctrlCmdHandler [lit "RXTUNE", a] = .ok (none, none) := rfl
  have h2 : commonCmd t [lit "RXTUNE", a] =
      (do let f ← toInt a; pure (.patch (.rxFreq (f * 1000)) 0)) := rfl
  rw [parseCmd_eq, h1]
  simp only [applyPatch, ht, h2, toInt_ok ha, bind, Except.bind, pure, Except.pure, applyAction]
  rfl

theorem parseCmd_txtune {w : World} {i : Nat} {t : Trx} {a : Str} {v : Int}
    (ht : w.trxs[i]? = some t) (ha : pyInt a = some v) :
    parseCmd w i [lit "TXTUNE", a] =
      .ok (setTrx w i (fun t => { t with txFreq := some (v * 1000) }), (0, [])) := by
  have h1 : ctrlCmdHandler [lit "TXTUNE", a] = .ok (none, none) := rfl
  have h2 : commonCmd t [lit "TXTUNE", a] =
      (do let f ← toInt a; pure (.patch (.txFreq (f * 1000)) 0)) := rfl
  rw [parseCmd_eq, h1]
  simp only [applyPatch, ht, h2, toInt_ok ha, bind, Except.bind, pure, Except.pure, applyAction]
  rfl

theorem parseCmd_setpower {w : World} {i : Nat} {t : Trx} {a : Str} {v : Int}
    (ht : w.trxs[i]? = some t) (ha : pyInt a = some v) :
    parseCmd w i [lit "SETPOWER", a] =
      .ok (setTrx w i (fun t => { t with txAttBase := v }), (0, [])) := by
  have h1 : ctrlCmdHandler [lit "SETPOWER", a] = .ok (none, none) := rfl
  have h2 : commonCmd t [lit "SETPOWER", a] =
      (do let f ← toInt a; pure (.patch (.txAtt f) 0)) := rfl
  rw [parseCmd_eq, h1]
  simp only [applyPatch, ht, h2, toInt_ok ha, bind, Except.bind, pure, Except.pure, applyAction]
  rfl

theorem parseCmd_nomtxpower {w : World} {i : Nat} {t : Trx} (ht : w.trxs[i]? = some t) :
    parseCmd w i [lit "NOMTXPOWER"] = .ok (w, (0, [intToStr t.txPowerBase])) := by
  have h1 : ctrlCmdHandler [lit "NOMTXPOWER"] = .ok (none, none) := rfl
  have h2 : commonCmd t [lit "NOMTXPOWER"] = pure (.reply 0 [intToStr t.txPowerBase]) := rfl
  rw [parseCmd_eq, h1]
  simp only [applyPatch, ht, h2, pure, Except.pure, applyAction]

theorem parseCmd_rfmute {w : World} {i : Nat} {t : Trx} {a : Str} {v : Int}
    (ht : w.trxs[i]? = some t) (ha : pyInt a = some v) :
    parseCmd w i [lit "RFMUTE", a] =
      .ok (setTrx w i (fun t => { t with rfMuted := decide (v > 0) }), (0, [])) := by
  have h1 : ctrlCmdHandler [lit "RFMUTE", a] = .ok (none, none) := rfl
  have h2 : commonCmd t [lit "RFMUTE", a] =
      (do let f ← toInt a; pure (.patch (.mute (decide (f > 0))) 0)) := rfl
  rw [parseCmd_eq, h1]
  simp only [applyPatch, ht, h2, toInt_ok ha, bind, Except.bind, pure, Except.pure, applyAction]
  rfl

theorem commonCmd_setformat (t : Trx) (a : Str) : commonCmd t [lit "SETFORMAT", a] =
    (do let verReq ← toInt a
        if verReq < 0 ∨ verReq > Gen.Trxd.chdrVersionMax then pure (.reply (-1) [])
        else if ¬ Gen.Trxd.knownVersions.contains verReq then pure (.reply (pickHdrVer verReq) [])
        else pure (.patch (.hdrVer verReq) verReq)) := rfl

theorem parseCmd_setformat_range {w : World} {i : Nat} {t : Trx} {a : Str} {v : Int}
    (ht : w.trxs[i]? = some t) (ha : pyInt a = some v) (hv : v < 0 ∨ v > 15) :
    parseCmd w i [lit "SETFORMAT", a] = .ok (w, (-1, [])) := by
  have h1 : ctrlCmdHandler [lit "SETFORMAT", a] = .ok (none, none) := rfl
  have hv' : v < 0 ∨ v > Gen.Trxd.chdrVersionMax := hv
  rw [parseCmd_eq, h1]
  simp only [applyPatch, ht, commonCmd_setformat, toInt_ok ha, bind, Except.bind, pure,
    Except.pure, hv', if_true, applyAction]

theorem parseCmd_setformat_known {w : World} {i : Nat} {t : Trx} {a : Str} {v : Int}
    (ht : w.trxs[i]? = some t) (ha : pyInt a = some v) (hv : v = 0 ∨ v = 1) :
    parseCmd w i [lit "SETFORMAT", a] =
      .ok (setTrx w i (fun t => { t with hdrVer := v }), (v, [])) := by
  have h1 : ctrlCmdHandler [lit "SETFORMAT", a] = .ok (none, none) := rfl
  have hr : ¬ (v < 0 ∨ v > Gen.Trxd.chdrVersionMax) := by
    have : Gen.Trxd.chdrVersionMax = 15 := by decide
    omega
  have hk : Gen.Trxd.knownVersions.contains v = true := by rcases hv with rfl | rfl <;> decide
  rw [parseCmd_eq, h1]
  simp only [applyPatch, ht, commonCmd_setformat, toInt_ok ha, bind, Except.bind, pure,
    Except.pure, hr, if_false, hk, not_true_eq_false, applyAction]
  rfl

theorem pickHdrVer_unsupported : ∀ n : Fin 14, pickHdrVer ((n.val : Int) + 2) = 1 := by decide

theorem parseCmd_setformat_unsupported {w : World} {i : Nat} {t : Trx} {a : Str} {v : Int}
    (ht : w.trxs[i]? = some t) (ha : pyInt a = some v) (hv : 2 ≤ v ∧ v ≤ 15) :
    parseCmd w i [lit "SETFORMAT", a] = .ok (w, (1, [])) := by
  have h1 : ctrlCmdHandler [lit "SETFORMAT", a] = .ok (none, none) := rfl
  have hr : ¬ (v < 0 ∨ v > Gen.Trxd.chdrVersionMax) := by
    have : Gen.Trxd.chdrVersionMax = 15 := by decide
    omega
  have hk : ¬ Gen.Trxd.knownVersions.contains v = true := by
    intro hc
    have := Trxd.knownVersions_contains hc
    omega
  have hp : pickHdrVer v = 1 := by
    have := pickHdrVer_unsupported ⟨(v - 2).toNat, by omega⟩
    simp only at this
    rwa [show (((v - 2).toNat : Nat) : Int) + 2 = v by omega] at this
  rw [parseCmd_eq, h1]
  simp only [applyPatch, ht, commonCmd_setformat, toInt_ok ha, bind, Except.bind, pure,
    Except.pure, hr, if_false, hk, Bool.false_eq_true, not_false_eq_true, if_true, hp, applyAction]

/-! ### MEASURE -/

theorem fakePmFound_iff (ts : List Trx) (freq : Int) :
    fakePmFound ts freq = true ↔
      ∃ t ∈ ts, t.running = true ∧ t.fh = none ∧ t.txFreq = some freq := by
  induction ts with
  | nil => simp [fakePmFound]
  | cons t ts ih =>
    unfold fakePmFound
    by_cases hr : t.running = true
    · cases hf : t.fh with
      | some hp =>
        simp only [hr, hf, not_true_eq_false, if_false, Option.isSome_some, if_true, ih,
          List.mem_cons, exists_eq_or_imp]
        constructor
        · intro h; exact .inr h
        · rintro (⟨_, h, _⟩ | h)
          · cases h
          · exact h
      | none =>
        by_cases hx : t.txFreq = some freq
        · simp only [hr, hf, not_true_eq_false, if_false, Option.isSome_none, Bool.false_eq_true,
            hx, beq_self_eq_true, if_true, true_iff]
          exact ⟨t, List.mem_cons_self, hr, hf, hx⟩
        · have hb : (t.txFreq == some freq) = false := by simpa using hx
          simp only [hr, hf, not_true_eq_false, if_false, Option.isSome_none, Bool.false_eq_true,
            hb, ih, List.mem_cons, exists_eq_or_imp]
          constructor
          · intro h; exact .inr h
          · rintro (⟨_, _, h⟩ | h)
            · exact absurd h hx
            · exact h
    · have hr' : t.running = false := by simpa using hr
      simp only [hr', Bool.false_eq_true, not_false_eq_true, if_true, ih, List.mem_cons,
        exists_eq_or_imp]
      constructor
      · intro h; exact .inr h
      · rintro (⟨h, _, _⟩ | h)
        · cases h
        · exact h

/-- the `randint` bounds `FakePM.measure(freq)` uses in world `w` -/
def pmRange (w : World) (freq : Int) : Int × Int :=
  if fakePmFound w.trxs freq then (Gen.World.fakePmTrxMin, Gen.World.fakePmTrxMax)
  else (Gen.World.fakePmNoiseMin, Gen.World.fakePmNoiseMax)

theorem pmRange_spec (w : World) (freq : Int) :
    pmRange w freq = Spec.Trxc.measureRange (fakePmFound w.trxs freq) := by
  unfold pmRange Spec.Trxc.measureRange
  split <;> rfl

theorem fakePmMeasure_draw (w : World) (freq : Int) :
    ∃ dbm, draw w.seed w.drawK (pmRange w freq).1 (pmRange w freq).2 = .ok dbm ∧
      (pmRange w freq).1 ≤ dbm ∧ dbm ≤ (pmRange w freq).2 ∧
      fakePmMeasure w freq = .ok (dbm, { w with drawK := w.drawK + 1 }) := by
  unfold fakePmMeasure pmRange World.randint
  split
  · obtain ⟨v, hv, h1, h2⟩ := draw_ok (show Gen.World.fakePmTrxMin ≤ Gen.World.fakePmTrxMax by decide)
      w.seed w.drawK
    exact ⟨v, hv, h1, h2, by simp only [hv]⟩
  · obtain ⟨v, hv, h1, h2⟩ := draw_ok
      (show Gen.World.fakePmNoiseMin ≤ Gen.World.fakePmNoiseMax by decide) w.seed w.drawK
    exact ⟨v, hv, h1, h2, by simp only [hv]⟩

theorem commonCmd_measure (t : Trx) (a : Str) : commonCmd t [lit "MEASURE", a] =
    (if ¬ t.hasPm then pure (.reply (-1) [])
     else do let f ← toInt a; pure (.measure (f * 1000))) := rfl

theorem parseCmd_measure {w : World} {i : Nat} {t : Trx} {a : Str} {v : Int}
    (ht : w.trxs[i]? = some t) (ha : pyInt a = some v) (hpm : t.hasPm = true) :
    ∃ dbm, draw w.seed w.drawK (pmRange w (v * 1000)).1 (pmRange w (v * 1000)).2 = .ok dbm ∧
      (pmRange w (v * 1000)).1 ≤ dbm ∧ dbm ≤ (pmRange w (v * 1000)).2 ∧
      parseCmd w i [lit "MEASURE", a] =
        .ok ({ w with drawK := w.drawK + 1 }, (0, [intToStr dbm])) := by
  have h1 : ctrlCmdHandler [lit "MEASURE", a] = .ok (none, none) := rfl
  obtain ⟨dbm, hd, hlo, hhi, hm⟩ := fakePmMeasure_draw w (v * 1000)
  refine ⟨dbm, hd, hlo, hhi, ?_⟩
  rw [parseCmd_eq, h1]
  simp only [applyPatch, ht, commonCmd_measure, hpm, not_true_eq_false, if_false, toInt_ok ha,
    bind, Except.bind, pure, Except.pure, applyAction, hm]

theorem parseCmd_measure_nopm {w : World} {i : Nat} {t : Trx} {a : Str}
    (ht : w.trxs[i]? = some t) (hpm : t.hasPm = false) :
    parseCmd w i [lit "MEASURE", a] = .ok (w, (-1, [])) := by
  have h1 : ctrlCmdHandler [lit "MEASURE", a] = .ok (none, none) := rfl
  rw [parseCmd_eq, h1]
  simp only [applyPatch, ht, commonCmd_measure, hpm, Bool.false_eq_true, not_false_eq_true,
    if_true, pure, Except.pure, applyAction]

/-! ### SETFH -/

/-- argument strings and the integers `int()` makes of them -/
def IntArgs (args : List Str) (vals : List Int) : Prop :=
  args.map pyInt = vals.map some

theorem intArgs_nil : IntArgs [] [] := rfl

theorem intArgs_cons {a : Str} {as : List Str} {vals : List Int} (h : IntArgs (a :: as) vals) :
    ∃ v vs, vals = v :: vs ∧ pyInt a = some v ∧ IntArgs as vs := by
  cases vals with
  | nil => cases h
  | cons v vs =>
    simp only [IntArgs, List.map_cons, List.cons.injEq] at h
    exact ⟨v, vs, rfl, h.1, h.2⟩

theorem intArgs_nil_left {vals : List Int} (h : IntArgs [] vals) : vals = [] := by
  cases vals with
  | nil => rfl
  | cons v vs => cases h

theorem intArgs_length {args : List Str} {vals : List Int} (h : IntArgs args vals) :
    args.length = vals.length := by
  have := congrArg List.length h
  simpa using this

theorem khzList_ok : ∀ {fs : List Str} {vs : List Int}, IntArgs fs vs →
    khzList fs = .ok (vs.map (· * 1000)) := by
  intro fs
  induction fs with
  | nil => intro vs h; cases intArgs_nil_left h; rfl
  | cons a as ih =>
    intro vs h
    obtain ⟨v, vs', rfl, ha, hr⟩ := intArgs_cons h
    rw [khzList_cons, toInt_ok ha, ih hr]; rfl

theorem pairUp_khz (vs : List Int) : pairUp (vs.map (· * 1000)) = Spec.Trxc.pairsHz vs := by
  induction vs using Spec.Trxc.pairsHz.induct with
  | case1 rx tx rest ih => simp only [List.map_cons, pairUp, Spec.Trxc.pairsHz, ih]
  | case2 l h =>
    match l, h with
    | [], _ => rfl
    | [x], _ => rfl
    | x :: y :: r, h => exact absurd rfl (h x y r)

theorem commonCmd_setfh (t : Trx) (h m c d : Str) (r : List Str) :
    commonCmd t (lit "SETFH" :: h :: m :: c :: d :: r) =
      (do let hsn ← toInt h
          let maio ← toInt m
          let ma ← khzList (c :: d :: r)
          match Hopping.pyInit hsn maio (pairUp ma) with
          | .ok hp => pure (.patch (.fh hp) 0)
          | .error _ => pure (.reply (-1) [])) := rfl
theorem pairsHz_ne_nil (a b : Int) (r : List Int) : Spec.Trxc.pairsHz (a :: b :: r) ≠ [] := by
  simp [Spec.Trxc.pairsHz]

theorem parseCmd_setfh_ok {w : World} {i : Nat} {t : Trx} {h m c d : Str} {r : List Str}
    {hsn maio : Int} {fvals : List Int}
    (ht : w.trxs[i]? = some t) (hh : pyInt h = some hsn) (hm : pyInt m = some maio)
    (hf : IntArgs (c :: d :: r) fvals) (hr : 0 ≤ hsn ∧ hsn < 64) :
    parseCmd w i (lit "SETFH" :: h :: m :: c :: d :: r) =
      .ok (setTrx w i (fun t => { t with fh := some (Hopping.HoppingParams.mk hsn maio
        (Spec.Trxc.pairsHz fvals) (Hopping.powNbinMask (Spec.Trxc.pairsHz fvals).length)) }),
        (0, [])) := by
  have h1 : ctrlCmdHandler (lit "SETFH" :: h :: m :: c :: d :: r) = .ok (none, none) := rfl
  obtain ⟨v1, vs1, rfl, _, hf1⟩ := intArgs_cons hf
  obtain ⟨v2, vs2, rfl, _, _⟩ := intArgs_cons hf1
  have hi := (Hopping.pyInit_cases hsn maio (Spec.Trxc.pairsHz (v1 :: v2 :: vs2))).1
    ⟨pairsHz_ne_nil _ _ _, hr.1, hr.2⟩
  rw [parseCmd_eq, h1]
  simp only [applyPatch, ht, commonCmd_setfh, toInt_ok hh, toInt_ok hm, khzList_ok hf, pairUp_khz,
    bind, Except.bind, pure, Except.pure, hi, applyAction]
  rfl

theorem parseCmd_setfh_badhsn {w : World} {i : Nat} {t : Trx} {h m c d : Str} {r : List Str}
    {hsn maio : Int} {fvals : List Int}
    (ht : w.trxs[i]? = some t) (hh : pyInt h = some hsn) (hm : pyInt m = some maio)
    (hf : IntArgs (c :: d :: r) fvals) (hr : hsn < 0 ∨ 64 ≤ hsn) :
    parseCmd w i (lit "SETFH" :: h :: m :: c :: d :: r) = .ok (w, (-1, [])) := by
  have h1 : ctrlCmdHandler (lit "SETFH" :: h :: m :: c :: d :: r) = .ok (none, none) := rfl
  have hi := (Hopping.pyInit_cases hsn maio (Spec.Trxc.pairsHz fvals)).2 (by omega)
  rw [parseCmd_eq, h1]
  simp only [applyPatch, ht, commonCmd_setfh, toInt_ok hh, toInt_ok hm, khzList_ok hf, pairUp_khz,
    bind, Except.bind, pure, Except.pure, hi, applyAction]

/-! ### SETTA and the FAKE_* simulation commands (prioritised handler) -/

theorem parseCmd_setta {w : World} {i : Nat} {a : Str} {v : Int} (ha : pyInt a = some v) :
    parseCmd w i [lit "SETTA", a] = .ok (setTrx w i (fun t => { t with ta := v }), (0, [])) := by
  have h1 : ctrlCmdHandler [lit "SETTA", a] =
      (do let ta ← toInt a; pure (some (.ta ta), some 0)) := rfl
  rw [parseCmd_eq, h1]
  simp only [toInt_ok ha, bind, Except.bind, pure, Except.pure, applyPatch]
  rfl

theorem ctrlCmdHandler_fake_toa2 (a b : Str) : ctrlCmdHandler [lit "FAKE_TOA", a, b] =
    (do let base ← toInt a
        let thr ← toInt b
        if thr < 0 then pure (none, some (-1)) else pure (some (.toa base thr), some 0)) := rfl

theorem parseCmd_fake_toa {w : World} {i : Nat} {a b : Str} {base thr : Int}
    (ha : pyInt a = some base) (hb : pyInt b = some thr) (h0 : 0 ≤ thr) :
    parseCmd w i [lit "FAKE_TOA", a, b] =
      .ok (setTrx w i (fun t => { t with toaBase := base, toaThr := thr }), (0, [])) := by
  have hn : ¬ thr < 0 := by omega
  rw [parseCmd_eq, ctrlCmdHandler_fake_toa2]
  simp only [toInt_ok ha, toInt_ok hb, bind, Except.bind, pure, Except.pure, hn, if_false, applyPatch]
  rfl

theorem parseCmd_fake_toa_neg {w : World} {i : Nat} {a b : Str} {base thr : Int}
    (ha : pyInt a = some base) (hb : pyInt b = some thr) (h0 : thr < 0) :
    parseCmd w i [lit "FAKE_TOA", a, b] = .ok (w, (-1, [])) := by
  rw [parseCmd_eq, ctrlCmdHandler_fake_toa2]
  simp only [toInt_ok ha, toInt_ok hb, bind, Except.bind, pure, Except.pure, h0, if_true, applyPatch]

theorem parseCmd_fake_toa_rel {w : World} {i : Nat} {a : Str} {d : Int} (ha : pyInt a = some d) :
    parseCmd w i [lit "FAKE_TOA", a] =
      .ok (setTrx w i (fun t => { t with toaBase := t.toaBase + d }), (0, [])) := by
  have h1 : ctrlCmdHandler [lit "FAKE_TOA", a] =
      (do let d ← toInt a; pure (some (.toaDelta d), some 0)) := rfl
  rw [parseCmd_eq, h1]
  simp only [toInt_ok ha, bind, Except.bind, pure, Except.pure, applyPatch]
  rfl

theorem ctrlCmdHandler_fake_rssi2 (a b : Str) : ctrlCmdHandler [lit "FAKE_RSSI", a, b] =
    (do let thr ← toInt b
        if thr < 0 then pure (some .rssiOff, some 0) else
        let base ← toInt a
        let thr2 ← toInt b
        pure (some (.rssi base thr2), some 0)) := rfl

theorem parseCmd_fake_rssi {w : World} {i : Nat} {a b : Str} {base thr : Int}
    (ha : pyInt a = some base) (hb : pyInt b = some thr) (h0 : 0 ≤ thr) :
    parseCmd w i [lit "FAKE_RSSI", a, b] =
      .ok (setTrx w i (fun t => { t with rssiBase := base, rssiThr := thr, fakeRssi := true }),
        (0, [])) := by
  have hn : ¬ thr < 0 := by omega
  rw [parseCmd_eq, ctrlCmdHandler_fake_rssi2]
  simp only [toInt_ok ha, toInt_ok hb, bind, Except.bind, pure, Except.pure, hn, if_false, applyPatch]
  rfl

/-- a negative threshold switches the RSSI simulation off (the base is not even parsed) -/
theorem parseCmd_fake_rssi_off {w : World} {i : Nat} {a b : Str} {thr : Int}
    (hb : pyInt b = some thr) (h0 : thr < 0) :
    parseCmd w i [lit "FAKE_RSSI", a, b] =
      .ok (setTrx w i (fun t => { t with fakeRssi := false }), (0, [])) := by
  rw [parseCmd_eq, ctrlCmdHandler_fake_rssi2]
  simp only [toInt_ok hb, bind, Except.bind, pure, Except.pure, h0, if_true, applyPatch]
  rfl

theorem parseCmd_fake_rssi_rel {w : World} {i : Nat} {a : Str} {d : Int} (ha : pyInt a = some d) :
    parseCmd w i [lit "FAKE_RSSI", a] =
      .ok (setTrx w i (fun t => { t with rssiBase := t.rssiBase + d }), (0, [])) := by
  have h1 : ctrlCmdHandler [lit "FAKE_RSSI", a] =
      (do let d ← toInt a; pure (some (.rssiDelta d), some 0)) := rfl
  rw [parseCmd_eq, h1]
  simp only [toInt_ok ha, bind, Except.bind, pure, Except.pure, applyPatch]
  rfl

theorem ctrlCmdHandler_fake_ci2 (a b : Str) : ctrlCmdHandler [lit "FAKE_CI", a, b] =
    (do let base ← toInt a
        let thr ← toInt b
        if thr < 0 then pure (none, some (-1)) else pure (some (.ci base thr), some 0)) := rfl

theorem parseCmd_fake_ci {w : World} {i : Nat} {a b : Str} {base thr : Int}
    (ha : pyInt a = some base) (hb : pyInt b = some thr) (h0 : 0 ≤ thr) :
    parseCmd w i [lit "FAKE_CI", a, b] =
      .ok (setTrx w i (fun t => { t with ciBase := base, ciThr := thr }), (0, [])) := by
  have hn : ¬ thr < 0 := by omega
  rw [parseCmd_eq, ctrlCmdHandler_fake_ci2]
  simp only [toInt_ok ha, toInt_ok hb, bind, Except.bind, pure, Except.pure, hn, if_false, applyPatch]
  rfl

theorem parseCmd_fake_ci_neg {w : World} {i : Nat} {a b : Str} {base thr : Int}
    (ha : pyInt a = some base) (hb : pyInt b = some thr) (h0 : thr < 0) :
    parseCmd w i [lit "FAKE_CI", a, b] = .ok (w, (-1, [])) := by
  rw [parseCmd_eq, ctrlCmdHandler_fake_ci2]
  simp only [toInt_ok ha, toInt_ok hb, bind, Except.bind, pure, Except.pure, h0, if_true, applyPatch]

theorem parseCmd_fake_ci_rel {w : World} {i : Nat} {a : Str} {d : Int} (ha : pyInt a = some d) :
    parseCmd w i [lit "FAKE_CI", a] =
      .ok (setTrx w i (fun t => { t with ciBase := t.ciBase + d }), (0, [])) := by
  have h1 : ctrlCmdHandler [lit "FAKE_CI", a] =
      (do let d ← toInt a; pure (some (.ciDelta d), some 0)) := rfl
  rw [parseCmd_eq, h1]
  simp only [toInt_ok ha, bind, Except.bind, pure, Except.pure, applyPatch]
  rfl

theorem ctrlCmdHandler_fake_drop1 (a : Str) : ctrlCmdHandler [lit "FAKE_DROP", a] =
    (do let num ← toInt a
        if num < 0 then pure (none, some (-1)) else pure (some (.drop num 1), some 0)) := rfl

theorem parseCmd_fake_drop1 {w : World} {i : Nat} {a : Str} {n : Int}
    (ha : pyInt a = some n) (h0 : 0 ≤ n) :
    parseCmd w i [lit "FAKE_DROP", a] =
      .ok (setTrx w i (fun t => { t with dropAmount := n, dropPeriod := 1 }), (0, [])) := by
  have hn : ¬ n < 0 := by omega
  rw [parseCmd_eq, ctrlCmdHandler_fake_drop1]
  simp only [toInt_ok ha, bind, Except.bind, pure, Except.pure, hn, if_false, applyPatch]
  rfl

theorem parseCmd_fake_drop1_neg {w : World} {i : Nat} {a : Str} {n : Int}
    (ha : pyInt a = some n) (h0 : n < 0) :
    parseCmd w i [lit "FAKE_DROP", a] = .ok (w, (-1, [])) := by
  rw [parseCmd_eq, ctrlCmdHandler_fake_drop1]
  simp only [toInt_ok ha, bind, Except.bind, pure, Except.pure, h0, if_true, applyPatch]

theorem ctrlCmdHandler_fake_drop2 (a b : Str) : ctrlCmdHandler [lit "FAKE_DROP", a, b] =
    (do let num ← toInt a
        if num < 0 then pure (none, some (-1)) else
        let period ← toInt b
        if period ≤ 0 then pure (none, some (-1)) else
        pure (some (.drop num period), some 0)) := rfl

theorem parseCmd_fake_drop2 {w : World} {i : Nat} {a b : Str} {n per : Int}
    (ha : pyInt a = some n) (hb : pyInt b = some per) (h0 : 0 ≤ n) (h1 : 1 ≤ per) :
    parseCmd w i [lit "FAKE_DROP", a, b] =
      .ok (setTrx w i (fun t => { t with dropAmount := n, dropPeriod := per }), (0, [])) := by
  have hn : ¬ n < 0 := by omega
  have hp : ¬ per ≤ 0 := by omega
  rw [parseCmd_eq, ctrlCmdHandler_fake_drop2]
  simp only [toInt_ok ha, toInt_ok hb, bind, Except.bind, pure, Except.pure, hn, hp, if_false,
    applyPatch]
  rfl

/-- a negative amount is refused before the period is parsed -/
theorem parseCmd_fake_drop2_neg {w : World} {i : Nat} {a b : Str} {n : Int}
    (ha : pyInt a = some n) (h0 : n < 0) :
    parseCmd w i [lit "FAKE_DROP", a, b] = .ok (w, (-1, [])) := by
  rw [parseCmd_eq, ctrlCmdHandler_fake_drop2]
  simp only [toInt_ok ha, bind, Except.bind, pure, Except.pure, h0, if_true, applyPatch]

theorem parseCmd_fake_drop2_badperiod {w : World} {i : Nat} {a b : Str} {n per : Int}
    (ha : pyInt a = some n) (hb : pyInt b = some per) (h0 : 0 ≤ n) (h1 : per ≤ 0) :
    parseCmd w i [lit "FAKE_DROP", a, b] = .ok (w, (-1, [])) := by
  have hn : ¬ n < 0 := by omega
  rw [parseCmd_eq, ctrlCmdHandler_fake_drop2]
  simp only [toInt_ok ha, toInt_ok hb, bind, Except.bind, pure, Except.pure, hn, h1, if_false,
    if_true, applyPatch]

/-- the bound of FAKE_TRXC_DELAY in the code (regenerated) is the documented one minute -/
theorem trxcDelayMaxMs_eq : Gen.World.trxcDelayMaxMs = 60000 := by decide

theorem ctrlCmdHandler_fake_trxc_delay (a : Str) : ctrlCmdHandler [lit "FAKE_TRXC_DELAY", a] =
    (do let d ← toInt a
        if d < 0 ∨ d > Gen.World.trxcDelayMaxMs then pure (none, some (-1)) else
        pure (some (.delay d), none)) := rfl

/-- FAKE_TRXC_DELAY within 0..60000 stores the delay; the custom handler returns None, so the common
handler goes on, finds no verb of its own and acknowledges with 0 -/
theorem parseCmd_fake_trxc_delay {w : World} {i : Nat} {t : Trx} {a : Str} {ms : Int}
    (ht : w.trxs[i]? = some t) (ha : pyInt a = some ms) (h0 : 0 ≤ ms) (h1 : ms ≤ 60000) :
    parseCmd w i [lit "FAKE_TRXC_DELAY", a] =
      .ok (setTrx w i (fun t => { t with rspDelay := ms }), (0, [])) := by
  have hb : ¬ (ms < 0 ∨ ms > Gen.World.trxcDelayMaxMs) := by rw [trxcDelayMaxMs_eq]; omega
  have h2 : ∀ t' : Trx, commonCmd t' [lit "FAKE_TRXC_DELAY", a] = pure (.reply 0 []) := fun _ => rfl
  rw [parseCmd_eq, ctrlCmdHandler_fake_trxc_delay]
  simp only [toInt_ok ha, bind, Except.bind, pure, Except.pure, hb, if_false, applyPatch,
    setTrx_getElem?, ht, if_true, Option.map_some, h2, applyAction]
  rfl

/-- a negative delay or one above one minute is refused with −1 and nothing is stored -/
theorem parseCmd_fake_trxc_delay_bad {w : World} {i : Nat} {a : Str} {ms : Int}
    (ha : pyInt a = some ms) (h : ms < 0 ∨ ms > 60000) :
    parseCmd w i [lit "FAKE_TRXC_DELAY", a] = .ok (w, (-1, [])) := by
  have hb : ms < 0 ∨ ms > Gen.World.trxcDelayMaxMs := by rw [trxcDelayMaxMs_eq]; exact h
  rw [parseCmd_eq, ctrlCmdHandler_fake_trxc_delay]
  simp only [toInt_ok ha, bind, Except.bind, pure, Except.pure, hb, if_true, applyPatch]
/-! ### requests outside the command table -/

/-- no row of the documented table matches the request (verb and argument count) -/
def NotInTable (req : List Str) : Prop :=
  ∀ s ∈ Spec.Trxc.signatures, verifyCmd req s.1 s.2.1 s.2.2 = false

theorem parseCmd_unknown {w : World} {i : Nat} {t : Trx} {req : List Str}
    (ht : w.trxs[i]? = some t) (h : NotInTable req) : parseCmd w i req = .ok (w, (0, [])) := by
  have a1 := h ("POWERON", 0, false) (by decide)
  have a2 := h ("POWEROFF", 0, false) (by decide)
  have a3 := h ("RXTUNE", 1, false) (by decide)
  have a4 := h ("TXTUNE", 1, false) (by decide)
  have a5 := h ("MEASURE", 1, false) (by decide)
  have a6 := h ("SETFH", 4, true) (by decide)
  have a7 := h ("SETFORMAT", 1, false) (by decide)
  have a8 := h ("SETPOWER", 1, false) (by decide)
  have a9 := h ("NOMTXPOWER", 0, false) (by decide)
  have a10 := h ("RFMUTE", 1, false) (by decide)
  have b1 := h ("SETTA", 1, false) (by decide)
  have b2 := h ("FAKE_TOA", 2, false) (by decide)
  have b3 := h ("FAKE_TOA", 1, false) (by decide)
  have b4 := h ("FAKE_RSSI", 2, false) (by decide)
  have b5 := h ("FAKE_RSSI", 1, false) (by decide)
  have b6 := h ("FAKE_CI", 2, false) (by decide)
  have b7 := h ("FAKE_CI", 1, false) (by decide)
  have b8 := h ("FAKE_DROP", 1, false) (by decide)
  have b9 := h ("FAKE_DROP", 2, false) (by decide)
  have b10 := h ("FAKE_TRXC_DELAY", 1, false) (by decide)
  simp only at a1 a2 a3 a4 a5 a6 a7 a8 a9 a10 b1 b2 b3 b4 b5 b6 b7 b8 b9 b10
  have h1 : ctrlCmdHandler req = .ok (none, none) := by
    unfold ctrlCmdHandler
    simp only [b1, b2, b3, b4, b5, b6, b7, b8, b9, b10, Bool.false_eq_true, if_false]
    rfl
  have h2 : commonCmd t req = .ok (.reply 0 []) := by
    unfold commonCmd
    simp only [a1, a2, a3, a4, a5, a6, a7, a8, a9, a10, Bool.false_eq_true, if_false]
    rfl
  rw [parseCmd_eq, h1]
  simp only [applyPatch, ht, h2, applyAction, pure, Except.pure]
/-! ### agreement with the documented semantics (Spec/Trxc.lean) -/

/-- what the documented semantics may consult -/
def viewOf (t : Trx) : Spec.Trxc.View :=
  { running := t.running, rxTuned := t.rxFreq.isSome, txTuned := t.txFreq.isSome,
    hopping := t.fh.isSome, hasPowerMeter := t.hasPm }

theorem viewOf_ready (t : Trx) : (viewOf t).ready = t.ready := by
  rw [ready_iff]; rfl

/-- the world change and the result parameters that realise a documented effect on transceiver
`i` (object `t`) of world `w` -/
def Realises (w : World) (i : Nat) (t : Trx) (e : Spec.Trxc.Effect) (w' : World) (res : List Str) : Prop :=
  match e with
  | .none => w' = w ∧ res = []
  | .powerOn => w' = powered w i t true ∧ res = []
  | .powerOff => w' = powered w i t false ∧ res = []
  | .rxFreq hz => w' = setTrx w i (fun t => { t with rxFreq := some hz }) ∧ res = []
  | .txFreq hz => w' = setTrx w i (fun t => { t with txFreq := some hz }) ∧ res = []
  | .hopping hsn maio ma =>
    w' = setTrx w i (fun t =>
      { t with fh := some (Hopping.HoppingParams.mk hsn maio ma (Hopping.powNbinMask ma.length)) }) ∧
      res = []
  | .format v => w' = setTrx w i (fun t => { t with hdrVer := v }) ∧ res = []
  | .txAtt a => w' = setTrx w i (fun t => { t with txAttBase := a }) ∧ res = []
  | .mute b => w' = setTrx w i (fun t => { t with rfMuted := b }) ∧ res = []
  | .ta v => w' = setTrx w i (fun t => { t with ta := v }) ∧ res = []
  | .toa b th => w' = setTrx w i (fun t => { t with toaBase := b, toaThr := th }) ∧ res = []
  | .toaAdd d => w' = setTrx w i (fun t => { t with toaBase := t.toaBase + d }) ∧ res = []
  | .rssi b th =>
    w' = setTrx w i (fun t => { t with rssiBase := b, rssiThr := th, fakeRssi := true }) ∧ res = []
  | .rssiOff => w' = setTrx w i (fun t => { t with fakeRssi := false }) ∧ res = []
  | .rssiAdd d => w' = setTrx w i (fun t => { t with rssiBase := t.rssiBase + d }) ∧ res = []
  | .ci b th => w' = setTrx w i (fun t => { t with ciBase := b, ciThr := th }) ∧ res = []
  | .ciAdd d => w' = setTrx w i (fun t => { t with ciBase := t.ciBase + d }) ∧ res = []
  | .drop n p => w' = setTrx w i (fun t => { t with dropAmount := n, dropPeriod := p }) ∧ res = []
  | .delay ms => w' = setTrx w i (fun t => { t with rspDelay := ms }) ∧ res = []
  | .measure hz =>
    ∃ dbm, draw w.seed w.drawK (Spec.Trxc.measureRange (fakePmFound w.trxs hz)).1
        (Spec.Trxc.measureRange (fakePmFound w.trxs hz)).2 = .ok dbm ∧
      (Spec.Trxc.measureRange (fakePmFound w.trxs hz)).1 ≤ dbm ∧
      dbm ≤ (Spec.Trxc.measureRange (fakePmFound w.trxs hz)).2 ∧
      w' = { w with drawK := w.drawK + 1 } ∧ res = [intToStr dbm]
  | .reportNomTxPower => w' = w ∧ res = [intToStr t.txPowerBase]

theorem lit_inj {s t : String} (h : lit s = lit t) : s = t :=
  String.toList_inj.mp ((List.map_inj_right (fun _ _ h => Char.toNat_inj.mp h)).mp h)

theorem verifyCmd_lit (V : String) (args : List Str) (X : String) (k : Nat) (va : Bool) :
    verifyCmd (lit V :: args) X k va =
      (V == X && (if va then decide (k ≤ args.length) else args.length == k)) := by
  simp only [verifyCmd]
  by_cases hV : V = X
  · subst hV
    cases va
    · by_cases hl : args.length = k <;> simp [hl]
    · by_cases hl : k ≤ args.length
      · simp [hl]
      · have : args.length < k := by omega
        simp [hl, this]
  · have hne : lit V ≠ lit X := fun h => hV (lit_inj h)
    simp [hV, hne]

theorem notInTable_iff (V : String) (args : List Str) :
    NotInTable (lit V :: args) ↔ ∀ r ∈ Spec.Trxc.table, r.matches V args.length = false := by
  unfold NotInTable Spec.Trxc.signatures
  simp only [List.mem_map, forall_exists_index, and_imp, forall_apply_eq_imp_iff₂, verifyCmd_lit,
    Spec.Trxc.Row.matches]

theorem semantics_unknown (v : Spec.Trxc.View) (V : String) (args : List Str) (vals : List Int)
    (hl : args.length = vals.length) (h : NotInTable (lit V :: args)) :
    Spec.Trxc.semantics v V vals = ⟨0, .none⟩ := by
  have h' := (notInTable_iff V args).mp h
  rw [hl] at h'
  have : Spec.Trxc.table.find? (fun r => r.matches V vals.length) = none :=
    List.find?_eq_none.mpr (fun r hr => by simp [h' r hr])
  simp only [Spec.Trxc.semantics, this]
theorem verify_lit0 {V X : String} {args : List Str} (hv : verifyCmd (lit V :: args) X 0 = true) :
    V = X ∧ args = [] := by
  have h := verifyCmd0 hv
  simp only [List.cons.injEq] at h
  exact ⟨lit_inj h.1, h.2⟩

theorem verify_lit1 {V X : String} {args : List Str} (hv : verifyCmd (lit V :: args) X 1 = true) :
    V = X ∧ ∃ a, args = [a] := by
  obtain ⟨a, h⟩ := verifyCmd1 hv
  simp only [List.cons.injEq] at h
  exact ⟨lit_inj h.1, a, h.2⟩

theorem verify_lit2 {V X : String} {args : List Str} (hv : verifyCmd (lit V :: args) X 2 = true) :
    V = X ∧ ∃ a b, args = [a, b] := by
  obtain ⟨a, b, h⟩ := verifyCmd2 hv
  simp only [List.cons.injEq] at h
  exact ⟨lit_inj h.1, a, b, h.2⟩

theorem verify_lit4va {V X : String} {args : List Str}
    (hv : verifyCmd (lit V :: args) X 4 true = true) :
    V = X ∧ ∃ a b c d r, args = a :: b :: c :: d :: r := by
  obtain ⟨a, b, c, d, r, h⟩ := verifyCmd4va hv
  simp only [List.cons.injEq] at h
  exact ⟨lit_inj h.1, a, b, c, d, r, h.2⟩

theorem intArgs_one {a : Str} {vals : List Int} (h : IntArgs [a] vals) :
    ∃ v, vals = [v] ∧ pyInt a = some v := by
  obtain ⟨v, vs, rfl, hv, hr⟩ := intArgs_cons h
  cases intArgs_nil_left hr
  exact ⟨v, rfl, hv⟩

theorem intArgs_two {a b : Str} {vals : List Int} (h : IntArgs [a, b] vals) :
    ∃ v u, vals = [v, u] ∧ pyInt a = some v ∧ pyInt b = some u := by
  obtain ⟨v, vs, rfl, hv, hr⟩ := intArgs_cons h
  obtain ⟨u, rfl, hu⟩ := intArgs_one hr
  exact ⟨v, u, rfl, hv, hu⟩

/-- **`parse_cmd` implements the documented command table**: for every verb and every list of
integer arguments the status is the documented one and the world change / result parameters
realise the documented effect. -/
theorem parseCmd_meets_spec {w : World} {i : Nat} {t : Trx} (ht : w.trxs[i]? = some t)
    (V : String) (args : List Str) (vals : List Int) (ha : IntArgs args vals) :
    ∃ w' res,
      parseCmd w i (lit V :: args) =
        .ok (w', ((Spec.Trxc.semantics (viewOf t) V vals).status, res)) ∧
      Realises w i t (Spec.Trxc.semantics (viewOf t) V vals).effect w' res := by
  by_cases hn : NotInTable (lit V :: args)
  · rw [semantics_unknown _ V args vals (intArgs_length ha) hn]
    exact ⟨w, [], parseCmd_unknown ht hn, rfl, rfl⟩
  · have hex : ∃ s ∈ Spec.Trxc.signatures, verifyCmd (lit V :: args) s.1 s.2.1 s.2.2 = true := by
      apply Classical.byContradiction
      intro hc
      apply hn
      intro s hs
      cases hv : verifyCmd (lit V :: args) s.1 s.2.1 s.2.2 with
      | false => rfl
      | true => exact absurd ⟨s, hs, hv⟩ hc
    obtain ⟨s, hs, hv⟩ := hex
    simp only [Spec.Trxc.signatures, Spec.Trxc.table, List.map_cons, List.map_nil, List.mem_cons,
      List.not_mem_nil, or_false] at hs
    rcases hs with rfl | rfl | rfl | rfl | rfl | rfl | rfl | rfl | rfl | rfl | rfl | rfl | rfl | rfl |
      rfl | rfl | rfl | rfl | rfl | rfl
    · -- POWERON
      obtain ⟨rfl, rfl⟩ := verify_lit0 hv
      cases intArgs_nil_left ha
      have hs : Spec.Trxc.semantics (viewOf t) "POWERON" [] =
          (if t.running then ⟨-1, .none⟩ else if !(viewOf t).ready then ⟨-1, .none⟩
           else ⟨0, .powerOn⟩) := rfl
      rw [hs, viewOf_ready]
      cases hr : t.running with
      | true => exact ⟨w, [], parseCmd_poweron_running ht hr, rfl, rfl⟩
      | false =>
        cases hrd : t.ready with
        | false => exact ⟨w, [], parseCmd_poweron_notready ht hr hrd, rfl, rfl⟩
        | true => exact ⟨_, [], parseCmd_poweron_ok ht hr hrd, rfl, rfl⟩
    · -- POWEROFF
      obtain ⟨rfl, rfl⟩ := verify_lit0 hv
      cases intArgs_nil_left ha
      exact ⟨_, [], parseCmd_poweroff ht, rfl, rfl⟩
    · -- RXTUNE
      obtain ⟨rfl, a, rfl⟩ := verify_lit1 hv
      obtain ⟨v, rfl, hv⟩ := intArgs_one ha
      exact ⟨_, [], parseCmd_rxtune ht hv, rfl, rfl⟩
    · -- TXTUNE
      obtain ⟨rfl, a, rfl⟩ := verify_lit1 hv
      obtain ⟨v, rfl, hv⟩ := intArgs_one ha
      exact ⟨_, [], parseCmd_txtune ht hv, rfl, rfl⟩
    · -- MEASURE
      obtain ⟨rfl, a, rfl⟩ := verify_lit1 hv
      obtain ⟨v, rfl, hv⟩ := intArgs_one ha
      have hs : Spec.Trxc.semantics (viewOf t) "MEASURE" [v] =
          (if t.hasPm then ⟨0, .measure (v * 1000)⟩ else ⟨-1, .none⟩) := rfl
      rw [hs]
      cases hpm : t.hasPm with
      | false => exact ⟨w, [], parseCmd_measure_nopm ht hpm, rfl, rfl⟩
      | true =>
        obtain ⟨dbm, hd, hlo, hhi, hp⟩ := parseCmd_measure ht hv hpm
        rw [pmRange_spec] at hd hlo hhi
        exact ⟨_, _, hp, dbm, hd, hlo, hhi, rfl, rfl⟩
    · -- SETFH
      obtain ⟨rfl, a, b, c, d, r, rfl⟩ := verify_lit4va hv
      obtain ⟨hsn, vs1, rfl, hh, ha1⟩ := intArgs_cons ha
      obtain ⟨maio, fvals, rfl, hm, hf⟩ := intArgs_cons ha1
      obtain ⟨f1, vs3, rfl, _, ha3⟩ := intArgs_cons hf
      obtain ⟨f2, vs4, rfl, _, _⟩ := intArgs_cons ha3
      have hs : Spec.Trxc.semantics (viewOf t) "SETFH" (hsn :: maio :: f1 :: f2 :: vs4) =
          (if 0 ≤ hsn ∧ hsn < 64 ∧ Spec.Trxc.pairsHz (f1 :: f2 :: vs4) ≠ [] then
            ⟨0, .hopping hsn maio (Spec.Trxc.pairsHz (f1 :: f2 :: vs4))⟩ else ⟨-1, .none⟩) := rfl
      rw [hs]
      by_cases hr : 0 ≤ hsn ∧ hsn < 64
      · rw [if_pos ⟨hr.1, hr.2, pairsHz_ne_nil _ _ _⟩]
        exact ⟨_, [], parseCmd_setfh_ok ht hh hm hf hr, rfl, rfl⟩
      · rw [if_neg (fun h => hr ⟨h.1, h.2.1⟩)]
        exact ⟨w, [], parseCmd_setfh_badhsn ht hh hm hf (by omega), rfl, rfl⟩
    · -- SETFORMAT
      obtain ⟨rfl, a, rfl⟩ := verify_lit1 hv
      obtain ⟨v, rfl, hv⟩ := intArgs_one ha
      have hs : Spec.Trxc.semantics (viewOf t) "SETFORMAT" [v] =
          (if v < 0 ∨ v > 15 then ⟨-1, .none⟩
           else if Spec.Trxc.supportedVersions.contains v then ⟨v, .format v⟩
           else ⟨Spec.Trxc.highestSupportedUpTo v, .none⟩) := rfl
      rw [hs]
      by_cases hr : v < 0 ∨ v > 15
      · rw [if_pos hr]
        exact ⟨w, [], parseCmd_setformat_range ht hv hr, rfl, rfl⟩
      · rw [if_neg hr]
        by_cases hk : v = 0 ∨ v = 1
        · have hc : Spec.Trxc.supportedVersions.contains v = true := by
            rcases hk with rfl | rfl <;> decide
          rw [if_pos hc]
          exact ⟨_, [], parseCmd_setformat_known ht hv hk, rfl, rfl⟩
        · have hc : ¬ Spec.Trxc.supportedVersions.contains v = true := by
            intro hc
            simp [Spec.Trxc.supportedVersions] at hc
            omega
          have hh : Spec.Trxc.highestSupportedUpTo v = 1 := by
            have : ∀ n : Fin 14, Spec.Trxc.highestSupportedUpTo ((n.val : Int) + 2) = 1 := by decide
            have h2 := this ⟨(v - 2).toNat, by omega⟩
            simp only at h2
            rwa [show (((v - 2).toNat : Nat) : Int) + 2 = v by omega] at h2
          rw [if_neg hc, hh]
          exact ⟨w, [], parseCmd_setformat_unsupported ht hv (by omega), rfl, rfl⟩
    · -- SETPOWER
      obtain ⟨rfl, a, rfl⟩ := verify_lit1 hv
      obtain ⟨v, rfl, hv⟩ := intArgs_one ha
      exact ⟨_, [], parseCmd_setpower ht hv, rfl, rfl⟩
    · -- NOMTXPOWER
      obtain ⟨rfl, rfl⟩ := verify_lit0 hv
      cases intArgs_nil_left ha
      exact ⟨w, _, parseCmd_nomtxpower ht, rfl, rfl⟩
    · -- RFMUTE
      obtain ⟨rfl, a, rfl⟩ := verify_lit1 hv
      obtain ⟨v, rfl, hv⟩ := intArgs_one ha
      exact ⟨_, [], parseCmd_rfmute ht hv, rfl, rfl⟩
    · -- SETTA
      obtain ⟨rfl, a, rfl⟩ := verify_lit1 hv
      obtain ⟨v, rfl, hv⟩ := intArgs_one ha
      exact ⟨_, [], parseCmd_setta hv, rfl, rfl⟩
    · -- FAKE_TOA base thr
      obtain ⟨rfl, a, b, rfl⟩ := verify_lit2 hv
      obtain ⟨base, thr, rfl, hb, hth⟩ := intArgs_two ha
      have hs : Spec.Trxc.semantics (viewOf t) "FAKE_TOA" [base, thr] =
          (if thr < 0 then ⟨-1, .none⟩ else ⟨0, .toa base thr⟩) := rfl
      rw [hs]
      by_cases h0 : thr < 0
      · rw [if_pos h0]; exact ⟨w, [], parseCmd_fake_toa_neg hb hth h0, rfl, rfl⟩
      · rw [if_neg h0]; exact ⟨_, [], parseCmd_fake_toa hb hth (by omega), rfl, rfl⟩
    · -- FAKE_TOA delta
      obtain ⟨rfl, a, rfl⟩ := verify_lit1 hv
      obtain ⟨v, rfl, hv⟩ := intArgs_one ha
      exact ⟨_, [], parseCmd_fake_toa_rel hv, rfl, rfl⟩
    · -- FAKE_RSSI base thr
      obtain ⟨rfl, a, b, rfl⟩ := verify_lit2 hv
      obtain ⟨base, thr, rfl, hb, hth⟩ := intArgs_two ha
      have hs : Spec.Trxc.semantics (viewOf t) "FAKE_RSSI" [base, thr] =
          (if thr < 0 then ⟨0, .rssiOff⟩ else ⟨0, .rssi base thr⟩) := rfl
      rw [hs]
      by_cases h0 : thr < 0
      · rw [if_pos h0]; exact ⟨_, [], parseCmd_fake_rssi_off hth h0, rfl, rfl⟩
      · rw [if_neg h0]; exact ⟨_, [], parseCmd_fake_rssi hb hth (by omega), rfl, rfl⟩
    · -- FAKE_RSSI delta
      obtain ⟨rfl, a, rfl⟩ := verify_lit1 hv
      obtain ⟨v, rfl, hv⟩ := intArgs_one ha
      exact ⟨_, [], parseCmd_fake_rssi_rel hv, rfl, rfl⟩
    · -- FAKE_CI base thr
      obtain ⟨rfl, a, b, rfl⟩ := verify_lit2 hv
      obtain ⟨base, thr, rfl, hb, hth⟩ := intArgs_two ha
      have hs : Spec.Trxc.semantics (viewOf t) "FAKE_CI" [base, thr] =
          (if thr < 0 then ⟨-1, .none⟩ else ⟨0, .ci base thr⟩) := rfl
      rw [hs]
      by_cases h0 : thr < 0
      · rw [if_pos h0]; exact ⟨w, [], parseCmd_fake_ci_neg hb hth h0, rfl, rfl⟩
      · rw [if_neg h0]; exact ⟨_, [], parseCmd_fake_ci hb hth (by omega), rfl, rfl⟩
    · -- FAKE_CI delta
      obtain ⟨rfl, a, rfl⟩ := verify_lit1 hv
      obtain ⟨v, rfl, hv⟩ := intArgs_one ha
      exact ⟨_, [], parseCmd_fake_ci_rel hv, rfl, rfl⟩
    · -- FAKE_DROP n
      obtain ⟨rfl, a, rfl⟩ := verify_lit1 hv
      obtain ⟨n, rfl, hn'⟩ := intArgs_one ha
      have hs : Spec.Trxc.semantics (viewOf t) "FAKE_DROP" [n] =
          (if n < 0 then ⟨-1, .none⟩ else ⟨0, .drop n 1⟩) := rfl
      rw [hs]
      by_cases h0 : n < 0
      · rw [if_pos h0]; exact ⟨w, [], parseCmd_fake_drop1_neg hn' h0, rfl, rfl⟩
      · rw [if_neg h0]; exact ⟨_, [], parseCmd_fake_drop1 hn' (by omega), rfl, rfl⟩
    · -- FAKE_DROP n period
      obtain ⟨rfl, a, b, rfl⟩ := verify_lit2 hv
      obtain ⟨n, per, rfl, hn', hp⟩ := intArgs_two ha
      have hs : Spec.Trxc.semantics (viewOf t) "FAKE_DROP" [n, per] =
          (if n < 0 ∨ per ≤ 0 then ⟨-1, .none⟩ else ⟨0, .drop n per⟩) := rfl
      rw [hs]
      by_cases h0 : n < 0
      · rw [if_pos (.inl h0)]; exact ⟨w, [], parseCmd_fake_drop2_neg hn' h0, rfl, rfl⟩
      · by_cases h1 : per ≤ 0
        · rw [if_pos (.inr h1)]
          exact ⟨w, [], parseCmd_fake_drop2_badperiod hn' hp (by omega) h1, rfl, rfl⟩
        · rw [if_neg (by omega)]
          exact ⟨_, [], parseCmd_fake_drop2 hn' hp (by omega) (by omega), rfl, rfl⟩
    · -- FAKE_TRXC_DELAY
      obtain ⟨rfl, a, rfl⟩ := verify_lit1 hv
      obtain ⟨v, rfl, hv⟩ := intArgs_one ha
      have hs : Spec.Trxc.semantics (viewOf t) "FAKE_TRXC_DELAY" [v] =
          (if v < 0 ∨ v > 60000 then ⟨-1, .none⟩ else ⟨0, .delay v⟩) := rfl
      rw [hs]
      by_cases hb : v < 0 ∨ v > 60000
      · rw [if_pos hb]; exact ⟨w, [], parseCmd_fake_trxc_delay_bad hv hb, rfl, rfl⟩
      · rw [if_neg hb]; exact ⟨_, [], parseCmd_fake_trxc_delay ht hv (by omega) (by omega), rfl, rfl⟩
end OsmoVerif.World
