/- Helper lemmas for the GSM time model (C19, C07). -/
import OsmoVerif.Model.GsmTime

namespace OsmoVerif.GsmTime

theorem tmod_nat (a b : Nat) (h : b ≤ a + 26) :
    (Int.ofNat a - Int.ofNat b + 26).tmod 26 = (((a + 26 - b) % 26 : Nat) : Int) := by
  have : (Int.ofNat a - Int.ofNat b + 26) = ((a + 26 - b : Nat) : Int) := by
    simp only [Int.ofNat_eq_natCast]; omega
  rw [this, Int.tmod_eq_emod_of_nonneg (by omega)]
  omega

theorem crt_core : ∀ r < 1326, 51 * ((r % 51 + 26 - r % 26) % 26) + r % 51 = r := by
  decide +kernel
theorem crt (fn : Nat) : 51 * ((fn % 51 + 26 - fn % 26) % 26) + fn % 51 = fn % 1326 := by
  have h := crt_core (fn % 1326) (Nat.mod_lt _ (by decide))
  have h1 : fn % 1326 % 51 = fn % 51 := Nat.mod_mod_of_dvd fn (by decide)
  have h2 : fn % 1326 % 26 = fn % 26 := Nat.mod_mod_of_dvd fn (by decide)
  rw [h1, h2] at h; exact h

theorem addModulo_u8 (x m : Nat) (hx : x < m) (hm : m ≤ 255) (hm0 : 0 < m) :
    addModulo u8 x 1 m = (x + 1) % m := by
  simp only [addModulo, u8]
  have : (x + 1) % 256 = x + 1 := by omega
  simp only [this]
  split
  · have : x + 1 = m := by omega
    rw [this]; simp
  · rw [Nat.mod_eq_of_lt (by omega)]
theorem addModulo_u16 (x m : Nat) (hx : x < m) (hm : m ≤ 65535) (hm0 : 0 < m) :
    addModulo u16 x 1 m = (x + 1) % m := by
  simp only [addModulo, u16]
  have : (x + 1) % 65536 = x + 1 := by omega
  simp only [this]
  split
  · have : x + 1 = m := by omega
    rw [this]; simp
  · rw [Nat.mod_eq_of_lt (by omega)]

theorem tc_step (fn : Nat) (h : (fn + 1) % 51 = 0) : (fn / 51 % 8 + 1) % 8 = (fn + 1) / 51 % 8 := by omega
theorem tc_keep (fn : Nat) (h : (fn + 1) % 51 ≠ 0) : fn / 51 % 8 = (fn + 1) / 51 % 8 := by omega
theorem t1_step (fn : Nat) (h : (fn + 1) % 1326 = 0) : fn / 1326 + 1 = (fn + 1) / 1326 := by omega
theorem t1_step' (fn : Nat) (h : (fn + 1) % 1326 = 0) (hb : fn + 1 < 2715648) :
    (fn / 1326 + 1) % 2048 = (fn + 1) / 1326 := by omega
theorem t1_keep (fn : Nat) (h : (fn + 1) % 1326 ≠ 0) : fn / 1326 = (fn + 1) / 1326 := by omega
theorem carry_iff (n : Nat) : (n % 51 = 0 ∧ n % 26 = 0) ↔ n % 1326 = 0 := by
  constructor
  · intro ⟨a, b⟩; have := crt n; rw [a, b] at this; simpa using this.symm
  · intro h; omega

end OsmoVerif.GsmTime
