/-
C11, firmware runtime: lemmas about the `struct mframe_scheduler` state machine
(`mframe_enable / mframe_disable / mframe_set / mframe_reset`, `mframe_schedule()` with the
`safe_fn` latch) of `Model/Mframe.lean`.
-/
import OsmoVerif.Lemmas.Mframe

namespace OsmoVerif.Mframe
open OsmoVerif.Gen OsmoVerif.Gen.FwMframe

/-- the table of task bit `i` (`[]` when `sched_set_for_task[i]` is NULL or `i ≥ 32`; only
    used where the schedule is known not to fault) -/
def itemsOf (i : Nat) : List Item :=
  match schedSetForTask[i]? with
  | some (some items) => items
  | _ => []

/-- the calls `mframe_schedule()` has to make at tick `fn` for active task bitmap `tasks`:
    for every set bit in ascending order, every row of that task's table whose trigger
    fires, in table order, each once -/
def expectedCalls (tasks fn : Nat) : List Event :=
  ((List.range 32).filter fun i => tasks.testBit i).flatMap fun i =>
    ((itemsOf i).filter fun it => fires it fn).map (eventOf i)

/-! ## the stateful loops make the same calls as the stateless ones -/

def dropState : Except FwCrash (List Event × Nat) → Except FwCrash (List Event)
  | .ok (e, _) => .ok e
  | .error c => .error c

theorem scheduleItemsSt_events (rv : RvOf) (taskId fn : Nat) (items : List Item) (sf : Nat) :
    dropState (scheduleItemsSt rv taskId fn items sf) = scheduleItems taskId fn items := by
  induction items generalizing sf with
  | nil => rfl
  | cons it rest ih =>
    simp only [scheduleItemsSt, scheduleItems]
    by_cases hm : it.modulo = 0
    · simp only [hm, if_true, dropState]
    · simp only [hm, if_false]
      by_cases hf : fires it fn = true
      · simp only [hf, if_true]
        have := ih (safeUpdate fn (rv it.set) sf)
        cases h1 : scheduleItemsSt rv taskId fn rest (safeUpdate fn (rv it.set) sf) with
        | error e => rw [h1] at this; simp only [dropState] at this; simp only [← this, dropState]
        | ok p =>
          obtain ⟨tl, sf'⟩ := p
          rw [h1] at this; simp only [dropState] at this
          simp only [← this, dropState]
      · simp only [hf, Bool.false_eq_true, if_false]
        have := ih sf
        cases h1 : scheduleItemsSt rv taskId fn rest sf with
        | error e => rw [h1] at this; simp only [dropState] at this; simp only [← this, dropState]
        | ok p =>
          obtain ⟨tl, sf'⟩ := p
          rw [h1] at this; simp only [dropState] at this
          simp only [← this, dropState]

theorem scheduleSetSt_events (rv : RvOf) (taskId fn sf : Nat) :
    dropState (scheduleSetSt rv taskId fn sf) = scheduleSet taskId fn := by
  unfold scheduleSetSt scheduleSet
  cases h : schedSetForTask[taskId]? with
  | none => rfl
  | some o =>
    cases o with
    | none => rfl
    | some items => exact scheduleItemsSt_events rv taskId fn items sf

theorem scheduleTasksSt_events (rv : RvOf) (tasks fn : Nat) (l : List Nat) (sf : Nat) :
    dropState (scheduleTasksSt rv tasks fn l sf) = scheduleTasks tasks fn l := by
  induction l generalizing sf with
  | nil => rfl
  | cons i rest ih =>
    simp only [scheduleTasksSt, scheduleTasks]
    by_cases hb : tasks.testBit i = true
    · simp only [hb, if_true]
      have h1 := scheduleSetSt_events rv i fn sf
      cases hs : scheduleSetSt rv i fn sf with
      | error e => rw [hs] at h1; simp only [dropState] at h1; simp only [← h1, dropState]
      | ok p =>
        obtain ⟨evs, sf1⟩ := p
        rw [hs] at h1; simp only [dropState] at h1
        simp only [← h1]
        have h2 := ih sf1
        cases ht : scheduleTasksSt rv tasks fn rest sf1 with
        | error e => rw [ht] at h2; simp only [dropState] at h2; simp only [← h2, dropState]
        | ok q =>
          obtain ⟨tl, sf2⟩ := q
          rw [ht] at h2; simp only [dropState] at h2
          simp only [← h2, dropState]
    · simp only [hb, Bool.false_eq_true, if_false]
      exact ih sf

/-- the calls of a `mframe_schedule()` result -/
def callsOf : Except FwCrash (List Event × MfState) → Except FwCrash (List Event)
  | .ok (e, _) => .ok e
  | .error c => .error c

/-- wrap the final `safe_fn` into the scheduler state (last step of `mframeScheduleSt`) -/
def wrapState (tasks tgt : Nat) : Except FwCrash (List Event × Nat) → Except FwCrash (List Event × MfState)
  | .error e => .error e
  | .ok (evs, sf) => .ok (evs, ⟨tasks, tgt, sf⟩)

theorem mframeScheduleOn_def (rv : RvOf) (s : MfState) (fn : Nat) (bits : List Nat) :
    mframeScheduleOn rv s fn bits =
      wrapState (latch s fn) s.tasksTgt (scheduleTasksSt rv (latch s fn) fn bits s.safeFn) := by
  unfold mframeScheduleOn
  generalize scheduleTasksSt rv (latch s fn) fn bits s.safeFn = r
  cases r with
  | error e => rfl
  | ok p => rfl

theorem mframeScheduleSt_def (rv : RvOf) (s : MfState) (fn : Nat) :
    mframeScheduleSt rv s fn =
      wrapState (latch s fn) s.tasksTgt (scheduleTasksSt rv (latch s fn) fn (List.range 32) s.safeFn) :=
  mframeScheduleOn_def rv s fn (List.range 32)

theorem callsOf_wrapState (tasks tgt : Nat) (r : Except FwCrash (List Event × Nat)) :
    callsOf (wrapState tasks tgt r) = dropState r := by
  cases r with
  | error e => rfl
  | ok p => rfl

/-- `mframe_schedule()` makes the calls of the stateless loop on the latched bitmap -/
theorem mframeScheduleSt_events (rv : RvOf) (s : MfState) (fn : Nat) :
    callsOf (mframeScheduleSt rv s fn) = mframeSchedule (latch s fn) fn := by
  rw [mframeScheduleSt_def, callsOf_wrapState, scheduleTasksSt_events]
  unfold mframeSchedule
  generalize latch s fn = t
  rfl

/-! ## what the stateless loops call -/

theorem scheduleSet_ok (taskId fn : Nat) (evs : List Event) (h : scheduleSet taskId fn = .ok evs) :
    evs = ((itemsOf taskId).filter fun it => fires it fn).map (eventOf taskId) := by
  unfold scheduleSet at h
  unfold itemsOf
  cases hs : schedSetForTask[taskId]? with
  | none => rw [hs] at h; cases h
  | some o =>
    cases o with
    | none => rw [hs] at h; cases h
    | some items =>
      rw [hs] at h
      simp only at h ⊢
      -- `schedule_items_events` of Props/C11, proved here for the lemma layer
      clear hs
      induction items generalizing evs with
      | nil => simp only [scheduleItems, Except.ok.injEq] at h; simp [← h]
      | cons it rest ih =>
        simp only [scheduleItems] at h
        split at h
        · cases h
        · split at h
          · cases h
          · rename_i tl htl
            simp only [Except.ok.injEq] at h
            have := ih tl htl
            by_cases hf : fires it fn = true
            · simp only [hf, if_true] at h
              simp [hf, ← h, this]
            · simp only [hf] at h
              simp [hf, ← h, this]

theorem scheduleTasks_ok (tasks fn : Nat) (l : List Nat) (evs : List Event)
    (h : scheduleTasks tasks fn l = .ok evs) :
    evs = (l.filter fun i => tasks.testBit i).flatMap fun i =>
      ((itemsOf i).filter fun it => fires it fn).map (eventOf i) := by
  induction l generalizing evs with
  | nil => simp only [scheduleTasks, Except.ok.injEq] at h; simp [← h]
  | cons i rest ih =>
    simp only [scheduleTasks] at h
    by_cases hb : tasks.testBit i = true
    · simp only [hb, if_true] at h
      cases hs : scheduleSet i fn with
      | error e => rw [hs] at h; cases h
      | ok e1 =>
        rw [hs] at h
        simp only at h
        cases ht : scheduleTasks tasks fn rest with
        | error e => rw [ht] at h; cases h
        | ok tl =>
          rw [ht] at h
          simp only [Except.ok.injEq] at h
          rw [← h, scheduleSet_ok i fn e1 hs, ih tl ht]
          simp [hb]
    · simp only [hb, Bool.false_eq_true, if_false] at h
      rw [ih evs h]
      simp [hb]

/-- the stateless loop never faults on a task that has a table with non-zero moduli -/
theorem scheduleItems_total (taskId fn : Nat) (items : List Item) (h : ∀ it ∈ items, it.modulo ≠ 0) :
    ∃ evs, scheduleItems taskId fn items = .ok evs := by
  induction items with
  | nil => exact ⟨[], rfl⟩
  | cons it rest ih =>
    obtain ⟨tl, htl⟩ := ih (fun x hx => h x (by simp [hx]))
    simp only [scheduleItems, h it (by simp), if_false, htl]
    exact ⟨_, rfl⟩

theorem scheduleTasks_total (tasks fn : Nat) (l : List Nat)
    (h : ∀ i ∈ l, tasks.testBit i = true →
      ∃ items, schedSetForTask[i]? = some (some items) ∧ ∀ it ∈ items, it.modulo ≠ 0) :
    ∃ evs, scheduleTasks tasks fn l = .ok evs := by
  induction l with
  | nil => exact ⟨[], rfl⟩
  | cons i rest ih =>
    obtain ⟨tl, htl⟩ := ih (fun j hj => h j (by simp [hj]))
    simp only [scheduleTasks]
    by_cases hb : tasks.testBit i = true
    · obtain ⟨items, hi, hm⟩ := h i (by simp) hb
      obtain ⟨e1, he1⟩ := scheduleItems_total i fn items hm
      simp only [hb, if_true, scheduleSet, hi, he1, htl]
      exact ⟨_, rfl⟩
    · simp only [hb, Bool.false_eq_true, if_false, htl]
      exact ⟨_, rfl⟩

/-- `sched_set_for_task[i]` is never indexed outside the array by the task loop -/
theorem scheduleTasks_in_range (tasks fn : Nat) (l : List Nat) (hl : ∀ i ∈ l, i < schedSetForTask.length) :
    scheduleTasks tasks fn l ≠ .error .taskOutOfRange := by
  induction l with
  | nil => simp [scheduleTasks]
  | cons i rest ih =>
    have ihr := ih (fun j hj => hl j (by simp [hj]))
    simp only [scheduleTasks]
    by_cases hb : tasks.testBit i = true
    · simp only [hb, if_true]
      have hi : i < schedSetForTask.length := hl i (by simp)
      cases hs : scheduleSet i fn with
      | error e =>
        simp only
        intro hc
        cases hc
        -- scheduleSet i fn = taskOutOfRange is impossible for an index inside the array
        unfold scheduleSet at hs
        rw [List.getElem?_eq_getElem hi] at hs
        cases ho : schedSetForTask[i] with
        | none => rw [ho] at hs; cases hs
        | some items =>
          rw [ho] at hs
          simp only at hs
          -- the item loop only faults with divByZero
          clear ho
          induction items with
          | nil => cases hs
          | cons it r ih2 =>
            simp only [scheduleItems] at hs
            split at hs
            · cases hs
            · split at hs
              · rename_i e he
                cases hs
                exact ih2 he
              · cases hs
      | ok e1 =>
        simp only
        cases ht : scheduleTasks tasks fn rest with
        | error e => rw [ht] at ihr; simpa using ihr
        | ok tl => simp
    · simp only [hb, Bool.false_eq_true, if_false]
      exact ihr

/-! ## bit facts of `mframe_enable` / `mframe_disable` and of `p3` -/

theorem enable_bit (x t : Nat) (ht : t < 32) (i : Nat) :
    (x ||| u32 (1 <<< t)).testBit i = (x.testBit i || decide (t = i)) := by
  have : u32 (1 <<< t) = 2 ^ t := by
    rw [Nat.one_shiftLeft]
    exact Nat.mod_eq_of_lt (Nat.pow_lt_pow_right (by decide) ht)
  rw [this, Nat.testBit_or, Nat.testBit_two_pow]

theorem disable_mask_bit (t : Nat) (ht : t < 32) (i : Nat) (hi : i < 32) :
    (4294967295 - u32 (1 <<< t)).testBit i = !decide (t = i) := by
  have h : ∀ t, t < 32 → ∀ i, i < 32 → (4294967295 - u32 (1 <<< t)).testBit i = !decide (t = i) := by
    decide
  exact h t ht i hi

theorem disable_bit (x t : Nat) (ht : t < 32) (i : Nat) (hi : i < 32) :
    (x &&& (4294967295 - u32 (1 <<< t))).testBit i = (x.testBit i && !decide (t = i)) := by
  rw [Nat.testBit_and, disable_mask_bit t ht i hi]

theorem p3_split (t : Nat) (it : Item) (ht : t < 256) (hf : it.flags < 256) :
    p3Of t it = t + 256 * it.flags := by
  have h : (it.flags <<< 8) ||| t = it.flags <<< 8 + t :=
    (Nat.shiftLeft_add_eq_or_of_lt (i := 8) (by omega) it.flags).symm
  simp only [p3Of, u16]
  rw [Nat.or_comm, h, Nat.shiftLeft_eq]
  omega

/-! ## the latch -/

theorem latch_sub_tgt (s : MfState) (fn i : Nat) (h : (latch s fn).testBit i = true) :
    s.tasksTgt.testBit i = true := by
  unfold latch at h
  split at h
  · exact h
  · rw [Nat.testBit_and] at h
    simp only [Bool.and_eq_true] at h
    exact h.2

theorem toInt32_sub (a b : Nat) (ha : a < 2147483648) (hb : b < 2147483648) :
    toInt32 (u32 a + 4294967296 - u32 b) = (a : Int) - (b : Int) := by
  unfold toInt32 u32
  split <;> omega

/-- for valid frame numbers the latch takes the target set unless `safe_fn` lies less than
    half a hyperframe ahead of the tick (plain difference) -/
theorem latch_eq (s : MfState) (fn : Nat) (hs : s.safeFn < GSM_MAX_FN) (hfn : fn < GSM_MAX_FN) :
    latch s fn = if fn < s.safeFn ∧ s.safeFn < fn + GSM_MAX_FN / 2 then s.tasks &&& s.tasksTgt
      else s.tasksTgt := by
  have hM : GSM_MAX_FN = 2715648 := by decide
  rw [hM] at hs hfn
  have hsh : (GSM_MAX_FN >>> 1 : Nat) = 1357824 := by decide
  have hdv : (GSM_MAX_FN / 2 : Nat) = 1357824 := by decide
  have hc : nothingInTheWay s fn = !decide (fn < s.safeFn ∧ s.safeFn < fn + 1357824) := by
    simp only [nothingInTheWay, toInt32_sub s.safeFn fn (by omega) (by omega), hsh]
    rw [hM]
    by_cases h : fn < s.safeFn ∧ s.safeFn < fn + 1357824
    · have h1 : ¬ ((s.safeFn : Int) - (fn : Int) ≤ 0) := by omega
      have h2 : ¬ ((s.safeFn : Int) - (fn : Int) ≥ ((1357824 : Nat) : Int)) := by omega
      have h3 : ¬ (s.safeFn ≥ 2715648) := by omega
      simp only [h1, h2, h3, decide_false, Bool.or_self, h, and_self, decide_true, Bool.not_true]
    · have h1 : ((s.safeFn : Int) - (fn : Int) ≤ 0) ∨ ((s.safeFn : Int) - (fn : Int) ≥ ((1357824 : Nat) : Int)) := by
        omega
      rcases h1 with h1 | h1 <;>
        simp only [h1, h, decide_true, decide_false, Bool.true_or, Bool.or_true, Bool.not_false]
  simp only [latch, hc, hdv]
  by_cases h : fn < s.safeFn ∧ s.safeFn < fn + 1357824
  · simp [h]
  · simp [h]

/-- an invalid `safe_fn` (after `mframe_reset`) never holds anything back -/
theorem latch_invalid (s : MfState) (fn : Nat) (h : s.safeFn ≥ GSM_MAX_FN) : latch s fn = s.tasksTgt := by
  have : nothingInTheWay s fn = true := by
    simp only [nothingInTheWay, decide_eq_true h, Bool.or_true]
  simp only [latch, this, if_true]

theorem wrapState_ok (tasks tgt : Nat) (r : Except FwCrash (List Event × Nat)) (evs : List Event) (s' : MfState)
    (h : wrapState tasks tgt r = .ok (evs, s')) :
    s'.tasks = tasks ∧ s'.tasksTgt = tgt ∧ dropState r = .ok evs := by
  cases r with
  | error e => cases h
  | ok p =>
    obtain ⟨e, sf⟩ := p
    simp only [wrapState, Except.ok.injEq, Prod.mk.injEq] at h
    obtain ⟨h1, h2⟩ := h
    subst h1 h2
    exact ⟨rfl, rfl, rfl⟩

/-- the result of `mframe_schedule()`, whenever it returns -/
theorem mframeScheduleSt_ok (rv : RvOf) (s : MfState) (fn : Nat) (evs : List Event) (s' : MfState)
    (h : mframeScheduleSt rv s fn = .ok (evs, s')) :
    s'.tasks = latch s fn ∧ s'.tasksTgt = s.tasksTgt ∧ evs = expectedCalls (latch s fn) fn := by
  rw [mframeScheduleSt_def] at h
  obtain ⟨h1, h2, h3⟩ := wrapState_ok _ _ _ _ _ h
  rw [scheduleTasksSt_events] at h3
  exact ⟨h1, h2, scheduleTasks_ok _ _ _ _ h3⟩

/-- if the stateless loop returns, so does `mframe_schedule()` -/
theorem mframeScheduleSt_total (rv : RvOf) (s : MfState) (fn : Nat) (evs : List Event)
    (h : scheduleTasks (latch s fn) fn (List.range 32) = .ok evs) :
    ∃ s', mframeScheduleSt rv s fn = .ok (evs, s') := by
  rw [mframeScheduleSt_def]
  have := scheduleTasksSt_events rv (latch s fn) fn (List.range 32) s.safeFn
  rw [h] at this
  generalize scheduleTasksSt rv (latch s fn) fn (List.range 32) s.safeFn = r at this
  cases r with
  | error e => cases this
  | ok p =>
    obtain ⟨e, sf⟩ := p
    simp only [dropState, Except.ok.injEq] at this
    subst this
    exact ⟨_, rfl⟩

theorem mframeScheduleSt_in_range (rv : RvOf) (s : MfState) (fn : Nat)
    (hlen : schedSetForTask.length = 32) : mframeScheduleSt rv s fn ≠ .error .taskOutOfRange := by
  intro hc
  have h1 := mframeScheduleSt_events rv s fn
  rw [hc] at h1
  simp only [callsOf] at h1
  have := scheduleTasks_in_range (latch s fn) fn (List.range 32)
    (fun i hi => by rw [hlen]; exact List.mem_range.1 hi)
  exact this h1.symm

/-- what an expected call is -/
theorem mem_expectedCalls (tasks fn : Nat) (e : Event) :
    e ∈ expectedCalls tasks fn ↔
      ∃ i, i < 32 ∧ tasks.testBit i = true ∧ ∃ it ∈ itemsOf i, fires it fn = true ∧ e = eventOf i it := by
  simp only [expectedCalls, List.mem_flatMap, List.mem_filter, List.mem_range, List.mem_map]
  constructor
  · rintro ⟨i, ⟨hi, hb⟩, it, ⟨hm, hf⟩, rfl⟩
    exact ⟨i, hi, hb, it, hm, hf, rfl⟩
  · rintro ⟨i, hi, hb, it, hm, hf, rfl⟩
    exact ⟨i, ⟨hi, hb⟩, it, ⟨hm, hf⟩, rfl⟩

/-! ## histories of the scheduler state machine -/

inductive FwOp where
  | enable (t : Nat) | disable (t : Nat) | set (mask : Nat) | reset | tick (fn : Nat)

/-- one operation: new state and the calls made (only a tick makes calls) -/
def fwStep (rv : RvOf) (s : MfState) : FwOp → Except FwCrash (MfState × List Event)
  | .enable t => (mframeEnable s t).map fun s' => (s', [])
  | .disable t => (mframeDisable s t).map fun s' => (s', [])
  | .set m => .ok (mframeSet s m, [])
  | .reset => .ok (mframeReset, [])
  | .tick fn => (mframeScheduleSt rv s fn).map fun r => (r.2, r.1)

/-- a history: the final state and all calls made, in order -/
def fwRun (rv : RvOf) (s : MfState) : List FwOp → Except FwCrash (MfState × List Event)
  | [] => .ok (s, [])
  | op :: rest =>
    match fwStep rv s op with
    | .error e => .error e
    | .ok (s1, e1) =>
      match fwRun rv s1 rest with
      | .error e => .error e
      | .ok (s2, e2) => .ok (s2, e1 ++ e2)

/-- the operation cannot put task bit `t` into the target bitmap -/
def keepsOff (t : Nat) : FwOp → Bool
  | .enable t' => t' != t
  | .set m => !(u32 m).testBit t
  | _ => true

end OsmoVerif.Mframe
