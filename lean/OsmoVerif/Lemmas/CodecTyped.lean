/- C16: with length references confined to non-negative integer fields (`RefsOK`), decoding never leaves
the model: no `unmodelled` outcome, hence every decoding failure is a `DecodeError`. -/
import OsmoVerif.Lemmas.CodecErr
namespace OsmoVerif.Codec

/-- every name of `S` that is present in the dict holds a non-negative int -/
def Typed (S : List String) (vals : Vals) : Prop :=
  ∀ n ∈ S, ∀ x, vals.get n = .ok x → ∃ i : Int, 0 ≤ i ∧ x = .int i

theorem typed_nil (S : List String) : Typed S [] := by
  intro n _ x h; simp [Vals.get] at h

theorem typed_set {S : List String} {vals : Vals} {m : String} {x : Val} (h : Typed S vals)
    (hx : m ∈ S → ∃ i : Int, 0 ≤ i ∧ x = .int i) : Typed S (vals.set m x) := by
  intro n hn y hy
  by_cases e : n = m
  · subst e
    rw [Vals.get_set_self] at hy
    cases hy
    exact hx hn
  · rw [Vals.get_set_ne _ _ _ _ e] at hy
    exact h n hn y hy

theorem getLen_typed {S : List String} {vals : Vals} {ld : LenD} {dlen : Nat} {e : Err} (h : Typed S vals)
    (hr : ld.refs.all (S.contains ·) = true) (he : getLen ld vals dlen = .error e) : e ≠ .unmodelled := by
  cases ld with
  | fixed n => simp [getLen] at he
  | rest => simp [getLen] at he
  | thresh t a b => simp [getLen] at he
  | ofField f =>
    simp only [LenD.refs, List.all_cons, List.all_nil, Bool.and_true, List.contains_iff_mem] at hr
    simp only [getLen] at he
    cases hg : Vals.get vals f with
    | error e' =>
      simp only [hg, Except.error.injEq] at he; subst he; rw [Vals.get_error_key _ _ _ hg]; decide
    | ok x =>
      obtain ⟨i, hi, rfl⟩ := h f hr x hg
      simp only [hg] at he
      rw [if_neg (by omega)] at he
      cases he
  | table f tbl =>
    simp only [LenD.refs, List.all_cons, List.all_nil, Bool.and_true, List.contains_iff_mem] at hr
    simp only [getLen] at he
    cases hg : Vals.get vals f with
    | error e' =>
      simp only [hg, Except.error.injEq] at he; subst he; rw [Vals.get_error_key _ _ _ hg]; decide
    | ok x =>
      obtain ⟨i, hi, rfl⟩ := h f hr x hg
      simp only [hg] at he
      clear hg
      induction tbl with
      | nil => simp only [tableGet, Except.error.injEq] at he; subst he; decide
      | cons kv rest ih =>
        simp only [tableGet] at he
        split at he
        · cases he
        · exact ih he

theorem getPres_not_unmodelled {p : Pres} {v : Vals} {e : Err} (h : getPres p v = .error e) : e ≠ .unmodelled := by
  cases p with
  | always => simp [getPres] at h
  | flagTrue n =>
    simp only [getPres] at h
    cases hg : Vals.get v n with
    | error e' => simp only [hg, Except.error.injEq] at h; subst h; rw [Vals.get_error_key _ _ _ hg]; decide
    | ok x => simp [hg] at h
  | flagFalse n =>
    simp only [getPres] at h
    cases hg : Vals.get v n with
    | error e' => simp only [hg, Except.error.injEq] at h; subst h; rw [Vals.get_error_key _ _ _ hg]; decide
    | ok x => simp [hg] at h

theorem fieldFromCore_nu {pres glen body pre data e}
    (hg : ∀ n e, glen pre n = .error e → e ≠ .unmodelled) (hb : ∀ d e, body pre d = .error e → e ≠ .unmodelled)
    (h : fieldFromCore pres glen body pre data = .error e) : e ≠ .unmodelled := by
  simp only [fieldFromCore] at h
  cases hp : getPres pres pre with
  | error e' => simp only [hp, Except.error.injEq] at h; subst h; exact getPres_not_unmodelled hp
  | ok b =>
    cases b with
    | false => simp [hp] at h
    | true =>
      simp only [hp] at h
      cases hl : glen pre data.length with
      | error e' => simp only [hl, Except.error.injEq] at h; subst h; exact hg _ _ hl
      | ok n =>
        simp only [hl] at h
        split at h
        · cases h; decide
        · cases hbb : body pre (List.take n data) with
          | error e' => simp only [hbb, Except.error.injEq] at h; subst h; exact hb _ _ hbb
          | ok v => simp [hbb] at h

theorem bitsDec_nu : ∀ {offs : List (BitF × Nat)} {pre : Vals} {blob : Nat} {e : Err},
    bitsDec offs pre blob = .error e → e ≠ .unmodelled
  | [], _, _, _, h => by simp [bitsDec] at h
  | (f, o) :: rest, pre, blob, e, h => by
    simp only [bitsDec] at h
    split at h
    · exact bitsDec_nu h
    · split at h
      · split at h
        · cases h; decide
        · exact bitsDec_nu h
      · exact bitsDec_nu h

theorem bitsDec_typed (S : List String) : ∀ {offs : List (BitF × Nat)} {pre pre' : Vals} {blob : Nat},
    Typed S pre → bitsDec offs pre blob = .ok pre' → Typed S pre'
  | [], _, _, _, ht, h => by simp only [bitsDec, Except.ok.injEq] at h; subst h; exact ht
  | (f, o) :: rest, pre, pre', blob, ht, h => by
    simp only [bitsDec] at h
    split at h
    · exact bitsDec_typed S ht h
    · rename_i name _
      have ht' : Typed S (pre.set name (.int (((blob >>> o) % 2 ^ f.bl : Nat) : Int))) :=
        typed_set ht (fun _ => ⟨_, by omega, rfl⟩)
      split at h
      · split at h
        · cases h
        · exact bitsDec_typed S ht' h
      · exact bitsDec_typed S ht' h

theorem wrapDec_nu {e : Err} (h : e ≠ .unmodelled) : wrapDec e ≠ .unmodelled := by
  cases e <;> simp_all [wrapDec]

/-! ## statements -/

/-- a field never yields `unmodelled` and keeps the typing invariant of its envelope -/
def FieldNU (S : List String) (f : FDef) : Prop :=
  wfField f = true → refsOKField S f = true → (∀ m ∈ f.storedNames, m ∈ S → m ∈ f.natNames) →
  ∀ pre, Typed S pre →
    (∀ data e, fieldFrom f pre data = .error e → e ≠ .unmodelled)
    ∧ (∀ data p' k, fieldFrom f pre data = .ok (p', k) → Typed S p')

def EnvNU (fs : List FDef) : Prop :=
  wfFields fs = true → refsOKFields (natNamesOf fs) fs = true → (namesOf fs).Nodup →
  ∀ data off e, envFrom fs [] data off = .error e → e ≠ .unmodelled

theorem natNames_sub_stored (f : FDef) : ∀ m ∈ f.natNames, m ∈ f.storedNames := by
  cases f with
  | int name pres len bo sg off mult =>
    intro m hm
    simp only [FDef.natNames] at hm
    split at hm
    · simpa [FDef.storedNames] using hm
    · simp at hm
  | bits pres len little fs => intro m hm; simpa [FDef.natNames, FDef.storedNames] using hm
  | _ => intro m hm; simp [FDef.natNames] at hm

/-- list level, for a fixed envelope-wide set `S` -/
theorem envNU_list (S : List String) : ∀ (fs : List FDef),
    (∀ f ∈ fs, FieldNU S f) → wfFields fs = true → refsOKFields S fs = true →
    (∀ f ∈ fs, ∀ m ∈ f.storedNames, m ∈ S → m ∈ f.natNames) →
    ∀ pre, Typed S pre → ∀ data off e, envFrom fs pre data off = .error e → e ≠ .unmodelled
  | [], _, _, _, _, _, _, _, _, _, h => by simp [envFrom] at h
  | f :: fs, hall, hw, hr, hn, pre, ht, data, off, e, h => by
    simp only [wfFields, Bool.and_eq_true] at hw
    simp only [refsOKFields, Bool.and_eq_true] at hr
    obtain ⟨h1, h2⟩ := hall f (List.mem_cons_self ..) hw.1 hr.1 (hn f (List.mem_cons_self ..)) pre ht
    simp only [envFrom] at h
    cases hf : fieldFrom f pre (List.drop off data) with
    | error e' => simp only [hf, Except.error.injEq] at h; subst h; exact wrapDec_nu (h1 _ _ hf)
    | ok r =>
      obtain ⟨p', k⟩ := r
      simp only [hf] at h
      exact envNU_list S fs (fun g hg => hall g (List.mem_cons_of_mem _ hg)) hw.2 hr.2
        (fun g hg => hn g (List.mem_cons_of_mem _ hg)) p' (h2 _ _ _ hf) data _ e h

/-- in an envelope with unique stored names, a name that is both stored by `f` and a nat-name of the
envelope is a nat-name of `f` itself -/
theorem own_natNames : ∀ (fs : List FDef), (namesOf fs).Nodup →
    ∀ f ∈ fs, ∀ m ∈ f.storedNames, m ∈ natNamesOf fs → m ∈ f.natNames
  | [], _, f, hf, _, _, _ => by simp at hf
  | g :: fs, hnd, f, hf, m, hm, hS => by
    rw [namesOf_cons] at hnd
    obtain ⟨hnd1, hnd2, hdisj⟩ := List.nodup_append.1 hnd
    simp only [natNamesOf, List.flatMap_cons, List.mem_append] at hS
    rcases List.mem_cons.1 hf with rfl | hf'
    · rcases hS with h | h
      · exact h
      · -- m is a nat-name of some later field g', hence stored by g': contradicts disjointness
        obtain ⟨g', hg', hmg⟩ := List.mem_flatMap.1 h
        have : m ∈ namesOf fs := List.mem_flatMap.2 ⟨g', hg', natNames_sub_stored g' m hmg⟩
        exact absurd rfl (hdisj m hm m this)
    · rcases hS with h | h
      · have : m ∈ namesOf fs := List.mem_flatMap.2 ⟨f, hf', hm⟩
        exact absurd rfl (hdisj m (natNames_sub_stored _ m h) m this)
      · exact own_natNames fs hnd2 f hf' m hm h

theorem envNU_of_fields (fs : List FDef) (hall : ∀ f ∈ fs, FieldNU (natNamesOf fs) f) : EnvNU fs := by
  intro hw hr hnd data off e h
  exact envNU_list (natNamesOf fs) fs hall hw hr (fun f hf m hm hS => own_natNames fs hnd f hf m hm hS)
    [] (typed_nil _) data off e h

theorem seqLoop_nu (proc : List Nat → Except Err (Vals × Nat))
    (H1 : ∀ x e, proc x = .error e → e ≠ .unmodelled) (H2 : ∀ x v k, proc x = .ok (v, k) → k ≥ 1) :
    ∀ (fuel : Nat) (data : List Nat) (off : Nat) (acc : List Val) (e : Err),
      fuel + off ≥ data.length → seqLoop proc fuel data off acc = .error e → e ≠ .unmodelled
  | fuel, data, off, acc, e, hfuel, h => by
    unfold seqLoop at h
    split at h
    · rename_i hlt
      match fuel, hfuel, h with
      | 0, hfuel, h => omega
      | fuel + 1, hfuel, h =>
        simp only at h
        cases hp : proc (List.drop off data) with
        | error e' => simp only [hp, Except.error.injEq] at h; subst h; exact H1 _ _ hp
        | ok r =>
          obtain ⟨v, k⟩ := r
          simp only [hp] at h
          have := H2 _ _ _ hp
          split at h
          · omega
          · exact seqLoop_nu proc H1 H2 fuel data (off + k) _ e (by omega) h
    · cases h

theorem fieldNU : ∀ (S : List String) (f : FDef), FieldNU S f
  | S, .int name pres len bo sg off mult => by
    intro _ _ hn pre ht
    refine ⟨?_, ?_⟩
    · intro data e h
      simp only [fieldFrom] at h
      exact fieldFromCore_nu (by intro n e h; simp at h) (by intro d e h; simp [intDec] at h) h
    · intro data p' k h
      simp only [fieldFrom] at h
      rcases fieldFromCore_ok_inv h with ⟨_, rfl, _⟩ | ⟨_, _, _, hb⟩
      · exact ht
      · simp only [intDec, Except.ok.injEq] at hb
        subst hb
        refine typed_set ht (fun hS => ?_)
        have := hn name (by simp [FDef.storedNames]) hS
        simp only [FDef.natNames] at this
        split at this
        · rename_i hc
          obtain ⟨hsg, ho, hm⟩ := hc
          subst hsg
          refine ⟨_, ?_, rfl⟩
          rw [intFromBytes_eq]
          simp only [Bool.false_eq_true, false_and, if_false]
          have : (0 : Int) ≤ (uOf bo (List.take k data) : Int) := by omega
          exact Int.add_nonneg (Int.mul_nonneg this hm) ho
        · simp at this
  | S, .buf name pres ld => by
    intro _ hr hn pre ht
    simp only [refsOKField] at hr
    refine ⟨?_, ?_⟩
    · intro data e h
      simp only [fieldFrom] at h
      exact fieldFromCore_nu (fun n e h => getLen_typed ht hr h) (by intro d e h; simp at h) h
    · intro data p' k h
      simp only [fieldFrom] at h
      rcases fieldFromCore_ok_inv h with ⟨_, rfl, _⟩ | ⟨_, _, _, hb⟩
      · exact ht
      · simp only [Except.ok.injEq] at hb
        subst hb
        refine typed_set ht (fun hS => ?_)
        have := hn name (by simp [FDef.storedNames]) hS
        simp [FDef.natNames] at this
  | S, .spare name pres ld filler => by
    intro _ hr _ pre ht
    simp only [refsOKField] at hr
    refine ⟨?_, ?_⟩
    · intro data e h
      simp only [fieldFrom] at h
      exact fieldFromCore_nu (fun n e h => getLen_typed ht hr h) (by intro d e h; simp at h) h
    · intro data p' k h
      simp only [fieldFrom] at h
      rcases fieldFromCore_ok_inv h with ⟨_, rfl, _⟩ | ⟨_, _, _, hb⟩
      · exact ht
      · simp only [Except.ok.injEq] at hb; subst hb; exact ht
  | S, .bits pres len little fs => by
    intro hw _ _ pre ht
    obtain ⟨l, offs, hd⟩ := wfField_bits_derive hw
    refine ⟨?_, ?_⟩
    · intro data e h
      simp only [fieldFrom, hd] at h
      exact fieldFromCore_nu (by intro n e h; simp at h) (fun d e h => bitsDec_nu h) h
    · intro data p' k h
      simp only [fieldFrom, hd] at h
      rcases fieldFromCore_ok_inv h with ⟨_, rfl, _⟩ | ⟨_, _, _, hb⟩
      · exact ht
      · exact bitsDec_typed S ht hb
  | S, .env name pres ld cl fs => by
    intro hw hr hn pre ht
    simp only [wfField, Bool.and_eq_true, decide_eq_true_eq] at hw
    simp only [refsOKField, Bool.and_eq_true] at hr
    have hin := envNU_of_fields fs (fun g _ => fieldNU (natNamesOf fs) g) hw.1.2 hr.2 hw.2
    refine ⟨?_, ?_⟩
    · intro data e h
      simp only [fieldFrom] at h
      refine fieldFromCore_nu (fun n e h => getLen_typed ht hr.1 h) ?_ h
      intro d e hb
      cases he : envFrom fs [] d 0 with
      | error e' => simp only [he, tailCheck, Except.error.injEq] at hb; subst hb; exact hin _ _ _ he
      | ok r =>
        obtain ⟨inner, o⟩ := r
        simp only [he, tailCheck] at hb
        by_cases hc : cl = true ∧ d.length ≠ o
        · rw [if_pos hc] at hb; simp only [Except.error.injEq] at hb; subst hb; decide
        · rw [if_neg hc] at hb; simp at hb
    · intro data p' k h
      simp only [fieldFrom] at h
      rcases fieldFromCore_ok_inv h with ⟨_, rfl, _⟩ | ⟨_, _, _, hb⟩
      · exact ht
      · cases he : tailCheck cl (List.take k data).length (envFrom fs [] (List.take k data) 0) with
        | error e' => rw [he] at hb; cases hb
        | ok r =>
          rw [he] at hb
          simp only [Except.ok.injEq] at hb
          subst hb
          refine typed_set ht (fun hS => ?_)
          have := hn name (by simp [FDef.storedNames]) hS
          simp [FDef.natNames] at this
  | S, .seq name pres ld item => by
    intro hw hr hn pre ht
    simp only [wfField, Bool.and_eq_true, decide_eq_true_eq] at hw
    simp only [refsOKField, Bool.and_eq_true] at hr
    have hin := envNU_of_fields item (fun g _ => fieldNU (natNamesOf item) g) hw.1.1 hr.2 hw.1.2
    refine ⟨?_, ?_⟩
    · intro data e h
      simp only [fieldFrom] at h
      refine fieldFromCore_nu (fun n e h => getLen_typed ht hr.1 h) ?_ h
      intro d e hb
      cases hs : seqLoop (fun x => envFrom item [] x 0) d.length d 0 [] with
      | error e' =>
        simp only [hs, Except.error.injEq] at hb; subst hb
        refine seqLoop_nu _ (fun x e h => hin _ _ _ h) ?_ _ _ _ _ _ (by omega) hs
        intro x v k hp
        have := minLen_le item hp
        omega
      | ok r => simp [hs] at hb
    · intro data p' k h
      simp only [fieldFrom] at h
      rcases fieldFromCore_ok_inv h with ⟨_, rfl, _⟩ | ⟨_, _, _, hb⟩
      · exact ht
      · cases hs : seqLoop (fun x => envFrom item [] x 0) (List.take k data).length (List.take k data) 0 [] with
        | error e' => rw [hs] at hb; cases hb
        | ok r =>
          rw [hs] at hb
          simp only [Except.ok.injEq] at hb
          subst hb
          refine typed_set ht (fun hS => ?_)
          have := hn name (by simp [FDef.storedNames]) hS
          simp [FDef.natNames] at this
termination_by S f => sizeOf f
decreasing_by
  all_goals simp_wf
  all_goals (have := List.sizeOf_lt_of_mem ‹_›; omega)

theorem envNU (fs : List FDef) : EnvNU fs := envNU_of_fields fs (fun g _ => fieldNU (natNamesOf fs) g)

end OsmoVerif.Codec
