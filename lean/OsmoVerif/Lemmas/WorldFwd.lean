/-
Lemmas about the burst path of the world model: `draw` window, `randAround`, `sendMsg`,
decomposition of `handleDataMsg` into its suppression decision (`dropDecision`), the NOPE branch
(`suppressOut`) and the completion branch (`passOn`), frame lemmas, and `forwardMsg` as a fold of
`handleDataMsg` over `Spec.recipients`.
-/
import OsmoVerif.Lemmas.World
import OsmoVerif.Lemmas.Trxd
import OsmoVerif.Lemmas.Hopping
import OsmoVerif.Lemmas.WorldWiring
import OsmoVerif.Spec.WorldRouting

namespace OsmoVerif.World
open OsmoVerif

/-! ### randomness -/

/-- window lemma: a successful draw lies in the requested interval (and the interval is non-empty) -/
theorem draw_window (seed k : Nat) (lo hi v : Int) (h : draw seed k lo hi = .ok v) :
    lo ≤ v ∧ v ≤ hi := by
  unfold draw at h
  split at h
  · cases h
  · rename_i hlt
    injection h with h
    have hpos : (0 : Int) < hi - lo + 1 := by omega
    have h1 := Int.emod_nonneg ((seed + 7919 * k : Nat) : Int) (Int.ne_of_gt hpos)
    have h2 := Int.emod_lt_of_pos ((seed + 7919 * k : Nat) : Int) hpos
    omega

/-- a draw succeeds exactly on non-empty intervals -/
theorem draw_ok_iff (seed k : Nat) (lo hi : Int) : (∃ v, draw seed k lo hi = .ok v) ↔ lo ≤ hi := by
  unfold draw
  constructor
  · rintro ⟨v, h⟩
    split at h
    · cases h
    · omega
  · intro h
    have : ¬ hi < lo := by omega
    simp only [this, if_false]
    exact ⟨_, rfl⟩

theorem randint_ok (w : World) (lo hi v : Int) (w' : World) (h : w.randint lo hi = .ok (v, w')) :
    lo ≤ v ∧ v ≤ hi ∧ w' = { w with drawK := w.drawK + 1 } := by
  unfold World.randint at h
  split at h
  · cases h
  · rename_i v' hd
    injection h with h
    injection h with h1 h2
    subst h1; subst h2
    have := draw_window _ _ _ _ _ hd
    exact ⟨this.1, this.2, rfl⟩

/-- a world that differs from `w` at most in the position of the randomness stream -/
def DrawOnly (w w' : World) : Prop := ∃ n, w' = { w with drawK := n }

theorem DrawOnly.refl (w : World) : DrawOnly w w := ⟨w.drawK, rfl⟩
theorem DrawOnly.trans {a b c : World} (h1 : DrawOnly a b) (h2 : DrawOnly b c) : DrawOnly a c := by
  obtain ⟨n, rfl⟩ := h1
  obtain ⟨m, rfl⟩ := h2
  exact ⟨m, rfl⟩
theorem DrawOnly.trxs {a b : World} (h : DrawOnly a b) : b.trxs = a.trxs := by
  obtain ⟨n, rfl⟩ := h; rfl
theorem DrawOnly.seed {a b : World} (h : DrawOnly a b) : b.seed = a.seed := by
  obtain ⟨n, rfl⟩ := h; rfl

/-- `randAround`: the base when the threshold is 0, else a value in `[base − thr, base + thr]` -/
theorem randAround_ok (w : World) (base thr v : Int) (w' : World)
    (h : randAround w base thr = .ok (v, w')) :
    base - thr ≤ v ∧ v ≤ base + thr ∧ (thr = 0 → v = base ∧ w' = w) ∧ DrawOnly w w' := by
  unfold randAround at h
  split at h
  · rename_i h0
    injection h with h
    injection h with h1 h2
    subst h1; subst h2; subst h0
    exact ⟨by omega, by omega, fun _ => ⟨rfl, rfl⟩, DrawOnly.refl _⟩
  · rename_i h0
    obtain ⟨a, b, c⟩ := randint_ok _ _ _ _ _ h
    exact ⟨a, b, fun h => absurd h h0, ⟨_, c⟩⟩

/-- `randAround` cannot fail when the threshold is non-negative -/
theorem randAround_total (w : World) (base thr : Int) (h : 0 ≤ thr) :
    ∃ v w', randAround w base thr = .ok (v, w') := by
  unfold randAround
  split
  · exact ⟨_, _, rfl⟩
  · obtain ⟨v, hv⟩ := (draw_ok_iff w.seed w.drawK (base - thr) (base + thr)).2 (by omega)
    exact ⟨v, { w with drawK := w.drawK + 1 }, by simp only [World.randint, hv]⟩

/-! ### DATA socket -/

/-- the datagram a transceiver's DATA socket emits for a payload -/
def dataDgram (t : Trx) (payload : List Nat) : Dgram := ⟨t.dataPort, t.addr, t.dataRemote, payload⟩

theorem toDataPeer_dataDgram (t : Trx) (p : List Nat) : Spec.toDataPeer t (dataDgram t p) = true := by
  simp only [Spec.toDataPeer, dataDgram, Trx.dataPort, Trx.dataRemote, Bool.and_eq_true, beq_iff_eq]
  refine ⟨⟨?_, ?_⟩, trivial⟩ <;> omega

/-- `DATAInterface.send_msg`: one datagram with the generated octets; nothing when `gen_msg`
raised ValueError; any other exception propagates -/
theorem sendMsg_eq (t : Trx) (m : Trxd.RxMsg) (l : Bool) :
    sendMsg t m l =
      match m.genMsg l with
      | .ok b => .ok [dataDgram t b]
      | .error .valueError => .ok []
      | .error e => .error (ofTrxdExc e) := by
  unfold sendMsg Trxd.sendMsg
  cases h : m.genMsg l with
  | ok b => rfl
  | error e => cases e <;> rfl

theorem sendMsg_ok (t : Trx) (m : Trxd.RxMsg) (l : Bool) (ds : List Dgram)
    (h : sendMsg t m l = .ok ds) :
    (∃ b, m.genMsg l = .ok b ∧ ds = [dataDgram t b]) ∨
    (m.genMsg l = .error .valueError ∧ ds = []) := by
  rw [sendMsg_eq] at h
  split at h
  · rename_i b hb
    injection h with h
    exact .inl ⟨b, hb, h.symm⟩
  · rename_i hb
    injection h with h
    exact .inr ⟨hb, h.symm⟩
  · cases h

/-! ### decomposition of `handleDataMsg` -/

/-- the suppression decision of `handle_data_msg` (`rf_muted`, incoming NOPE, `sim_burst_drop`) -/
def dropDecision (w : World) (k : Nat) (self : Trx) (msg : Trxd.RxMsg) : Except Exc (Bool × World) :=
  if self.rfMuted then .ok (true, w)
  else if ¬ msg.nopeInd then
    if self.dropAmount = 0 then .ok (false, w)
    else match msg.fn with
      | none => .error .typeError
      | some fn =>
        if self.dropPeriod = 0 then .error .zeroDivisionError
        else if Int.fmod fn self.dropPeriod = 0 then
          .ok (true, setTrx w k (fun t => { t with dropAmount := t.dropAmount - 1 }))
        else .ok (false, w)
  else .ok (true, w)

/-- RSSI of a forwarded burst -/
def rssiOf (w : World) (self src : Trx) (srcMsg : Trxd.TxMsg) : Except Exc (Int × World) :=
  if ¬ self.fakeRssi then
    match srcMsg.pwr with
    | some pwr => .ok (src.txPower - pwr - Gen.World.pathLoss, w)
    | none => .error .typeError
  else randAround w self.rssiBase self.rssiThr

/-- `(tsc, tsc_set)` of `_handle_data_msg_v1` -/
def tscOf (mod : Option Trxd.Modulation) (bits : List Nat) : Int × Int :=
  if mod = some Trxd.Modulation.gmsk then
    match trainSeqPick bits with
    | some (t, s) => ((t : Int), (s : Int))
    | none => (0, 0)
  else (0, 0)

/-- `_handle_data_msg_v1` (when `msg.ver >= 1`) -/
def v1Fields (w : World) (self : Trx) (srcMsg : Trxd.TxMsg) (ver : Int) (m : Trxd.RxMsg) :
    Except Exc (Trxd.RxMsg × World) :=
  if ver ≥ 1 then
    match randAround w self.ciBase self.ciThr with
    | .error e => .error e
    | .ok (ci, w) =>
      match srcMsg.burst with
      | none => .error .typeError
      | some bits =>
        let mod := Trxd.Modulation.pickByBl bits.length
        .ok ({ m with ci := some ci, modType := mod, tsc := some (tscOf mod bits).1,
                      tscSet := some (tscOf mod bits).2 }, w)
  else .ok (m, w)

def applyTa (src : Trx) (toa : Int) (m : Trxd.RxMsg) : Trxd.RxMsg :=
  if src.ta ≠ 0 then { m with toa256 := some (toa - src.ta * 256) } else m

/-- the completion branch of `handle_data_msg` -/
def passOn (w : World) (self src : Trx) (srcMsg : Trxd.TxMsg) (msg : Trxd.RxMsg) :
    Except Exc (World × List Dgram) :=
  match randAround w self.toaBase self.toaThr with
  | .error e => .error e
  | .ok (toa, w) =>
    match rssiOf w self src srcMsg with
    | .error e => .error e
    | .ok (rssi, w) =>
      match v1Fields w self srcMsg msg.ver
          { msg with nopeInd := false, toa256 := some toa, rssi := some rssi } with
      | .error e => .error e
      | .ok (m, w) =>
        match sendMsg self (applyTa src toa m) true with
        | .error e => .error e
        | .ok ds => .ok (w, ds)

/-- verbatim copy of the completion branch (do-notation), only used to split `handleDataMsg` -/
def passOnDo (w : World) (self src : Trx) (srcMsg : Trxd.TxMsg) (msg : Trxd.RxMsg) :
    Except Exc (World × List Dgram) := do
  let (toa, w) ← randAround w self.toaBase self.toaThr
  let (rssi, w) ←
    if ¬ self.fakeRssi then
      match srcMsg.pwr with
      | some pwr => pure (src.txPower - pwr - Gen.World.pathLoss, w)
      | none => throw .typeError
    else randAround w self.rssiBase self.rssiThr
  let m : Trxd.RxMsg := { msg with nopeInd := false, toa256 := some toa, rssi := some rssi }
  let (m, w) ←
    if msg.ver ≥ 1 then do
      let (ci, w) ← randAround w self.ciBase self.ciThr
      match srcMsg.burst with
      | none => throw .typeError
      | some bits =>
        let mod := Trxd.Modulation.pickByBl bits.length
        let (tsc, set) : Int × Int :=
          if mod = some Trxd.Modulation.gmsk then
            match trainSeqPick bits with
            | some (t, s) => ((t : Int), (s : Int))
            | none => (0, 0)
          else (0, 0)
        pure ({ m with ci := some ci, modType := mod, tsc := some tsc, tscSet := some set }, w)
    else pure (m, w)
  let m := if src.ta ≠ 0 then { m with toa256 := some (toa - src.ta * 256) } else m
  let ds ← sendMsg self m true
  pure (w, ds)

theorem passOnDo_tail (self src : Trx) (s : Trxd.TxMsg) (m : Trxd.RxMsg) (toa : Int)
    (x : Except Exc (Int × World)) :
    (do
      let (rssi, w) ← x
      let m1 : Trxd.RxMsg := { m with nopeInd := false, toa256 := some toa, rssi := some rssi }
      let (m2, w) ←
        if m.ver ≥ 1 then do
          let (ci, w) ← randAround w self.ciBase self.ciThr
          match s.burst with
          | none => throw Exc.typeError
          | some bits =>
            let mod := Trxd.Modulation.pickByBl bits.length
            let (tsc, set) : Int × Int :=
              if mod = some Trxd.Modulation.gmsk then
                match trainSeqPick bits with
                | some (t, s) => ((t : Int), (s : Int))
                | none => (0, 0)
              else (0, 0)
            pure ({ m1 with ci := some ci, modType := mod, tsc := some tsc, tscSet := some set }, w)
        else pure (m1, w)
      let m3 := if src.ta ≠ 0 then { m2 with toa256 := some (toa - src.ta * 256) } else m2
      let ds ← sendMsg self m3 true
      pure (w, ds)) =
    (match x with
     | .error e => .error e
     | .ok (rssi, w) =>
       match v1Fields w self s m.ver { m with nopeInd := false, toa256 := some toa, rssi := some rssi } with
       | .error e => .error e
       | .ok (m, w) =>
         match sendMsg self (applyTa src toa m) true with
         | .error e => .error e
         | .ok ds => .ok (w, ds)) := by
  cases x with
  | error e => rfl
  | ok p =>
    obtain ⟨rssi, w⟩ := p
    simp only [v1Fields]
    by_cases hv : m.ver ≥ 1
    · simp only [hv, if_true, bind, Except.bind]
      cases randAround w self.ciBase self.ciThr with
      | error e => rfl
      | ok p =>
        cases s.burst with
        | none => rfl
        | some bits =>
          simp only [pure, Except.pure, applyTa, tscOf]
          generalize sendMsg self _ true = r
          cases r <;> rfl
    · simp only [hv, if_false, bind, Except.bind, pure, Except.pure, applyTa]
      generalize sendMsg self _ true = r
      cases r <;> rfl

theorem passOnDo_eq (w : World) (self src : Trx) (s : Trxd.TxMsg) (m : Trxd.RxMsg) :
    passOnDo w self src s m = passOn w self src s m := by
  unfold passOnDo passOn
  cases randAround w self.toaBase self.toaThr with
  | error e => rfl
  | ok p =>
    obtain ⟨toa, w2⟩ := p
    simp only [rssiOf]
    by_cases hf : self.fakeRssi = true
    · simp only [hf, not_true, if_false]
      exact passOnDo_tail self src s m toa (randAround w2 self.rssiBase self.rssiThr)
    · simp only [hf]
      cases hp : s.pwr with
      | none => exact passOnDo_tail self src s m toa (.error .typeError)
      | some pwr => exact passOnDo_tail self src s m toa (.ok (src.txPower - pwr - Gen.World.pathLoss, w2))
/-- what is sent instead of a suppressed burst: nothing before TRXDv1, a NOPE.ind since -/
def suppressOut (self : Trx) (msg : Trxd.RxMsg) : Except Exc (List Dgram) :=
  if msg.ver < 1 then .ok [] else sendMsg self (nopeMsg msg) false

/-- `handleDataMsg` = suppression decision, then NOPE branch or completion branch -/
theorem handleDataMsg_eq (w : World) (k j : Nat) (s : Trxd.TxMsg) (m : Trxd.RxMsg) :
    handleDataMsg w k j s m =
      match w.trxs[k]?, w.trxs[j]? with
      | some self, some src =>
        match dropDecision w k self m with
        | .error e => .error e
        | .ok (nope, w) =>
          if nope then
            match suppressOut self m with
            | .ok ds => .ok (w, ds)
            | .error e => .error e
          else passOn w self src s m
      | _, _ => .error .indexError := by
  have h0 : handleDataMsg w k j s m =
      match w.trxs[k]?, w.trxs[j]? with
      | some self, some src =>
        match dropDecision w k self m with
        | .error e => .error e
        | .ok (nope, w) =>
          if nope then
            if m.ver < 1 then .ok (w, [])
            else
              match sendMsg self (nopeMsg m) false with
              | .ok ds => .ok (w, ds)
              | .error e => .error e
          else passOnDo w self src s m
      | _, _ => .error .indexError := rfl
  rw [h0]
  cases w.trxs[k]? <;> cases w.trxs[j]? <;> try rfl
  rename_i self src
  simp only [passOnDo_eq, suppressOut]
  cases dropDecision w k self m with
  | error e => rfl
  | ok p =>
    obtain ⟨nope, w1⟩ := p
    cases nope
    · rfl
    · simp only [if_true]
      split <;> rfl

/-! ### the completion branch -/

/-- what the completion branch guarantees about the message `cm` it hands to the DATA socket
(`self` receives, `src` transmitted `s`, `m` is `s.trans(ver)`) -/
structure Completed (self src : Trx) (s : Trxd.TxMsg) (m cm : Trxd.RxMsg) : Prop where
  fn_eq : cm.fn = m.fn
  tn_eq : cm.tn = m.tn
  ver_eq : cm.ver = m.ver
  burst_eq : cm.burst = m.burst
  nope_eq : cm.nopeInd = false
  rssi_ok : ∃ v, cm.rssi = some v ∧
    (self.fakeRssi = false → ∃ a, s.pwr = some a ∧ v = src.txPower - a - Gen.World.pathLoss) ∧
    (self.fakeRssi = true → self.rssiBase - self.rssiThr ≤ v ∧ v ≤ self.rssiBase + self.rssiThr ∧
      (self.rssiThr = 0 → v = self.rssiBase))
  toa_ok : ∃ d, cm.toa256 = some (d - src.ta * 256) ∧
    self.toaBase - self.toaThr ≤ d ∧ d ≤ self.toaBase + self.toaThr ∧ (self.toaThr = 0 → d = self.toaBase)
  v1_ok : m.ver ≥ 1 → ∃ ci bits, s.burst = some bits ∧ cm.ci = some ci ∧
    self.ciBase - self.ciThr ≤ ci ∧ ci ≤ self.ciBase + self.ciThr ∧ (self.ciThr = 0 → ci = self.ciBase) ∧
    cm.modType = Trxd.Modulation.pickByBl bits.length ∧
    cm.tsc = some (tscOf (Trxd.Modulation.pickByBl bits.length) bits).1 ∧
    cm.tscSet = some (tscOf (Trxd.Modulation.pickByBl bits.length) bits).2
  v0_ok : ¬ m.ver ≥ 1 → cm.ci = m.ci ∧ cm.modType = m.modType ∧ cm.tsc = m.tsc ∧ cm.tscSet = m.tscSet

theorem rssiOf_ok (w : World) (self src : Trx) (s : Trxd.TxMsg) (v : Int) (w' : World)
    (h : rssiOf w self src s = .ok (v, w')) :
    (self.fakeRssi = false → ∃ a, s.pwr = some a ∧ v = src.txPower - a - Gen.World.pathLoss) ∧
    (self.fakeRssi = true → self.rssiBase - self.rssiThr ≤ v ∧ v ≤ self.rssiBase + self.rssiThr ∧
      (self.rssiThr = 0 → v = self.rssiBase)) ∧ DrawOnly w w' := by
  unfold rssiOf at h
  split at h
  · rename_i hf
    have hf' : self.fakeRssi = false := by simpa using hf
    split at h
    · rename_i a ha
      injection h with h; injection h with h1 h2
      subst h1; subst h2
      refine ⟨fun _ => ⟨a, ha, rfl⟩, fun h => ?_, DrawOnly.refl _⟩
      rw [hf'] at h; cases h
    · cases h
  · rename_i hf
    have hf' : self.fakeRssi = true := by simpa using hf
    obtain ⟨a, b, c, d⟩ := randAround_ok _ _ _ _ _ h
    refine ⟨fun h => ?_, fun _ => ⟨a, b, fun h0 => (c h0).1⟩, d⟩
    rw [hf'] at h; cases h

theorem applyTa_toa (src : Trx) (toa : Int) (m : Trxd.RxMsg) (h : m.toa256 = some toa) :
    (applyTa src toa m).toa256 = some (toa - src.ta * 256) := by
  unfold applyTa
  split
  · rfl
  · rename_i h0
    have : src.ta = 0 := by simpa using h0
    rw [h, this]; simp

theorem v1Fields_ok (w : World) (self : Trx) (s : Trxd.TxMsg) (ver : Int) (m1 m2 : Trxd.RxMsg)
    (w' : World) (h : v1Fields w self s ver m1 = .ok (m2, w')) :
    DrawOnly w w' ∧ m2.fn = m1.fn ∧ m2.tn = m1.tn ∧ m2.ver = m1.ver ∧ m2.burst = m1.burst ∧
    m2.nopeInd = m1.nopeInd ∧ m2.rssi = m1.rssi ∧ m2.toa256 = m1.toa256 ∧
    (ver ≥ 1 → ∃ ci bits, s.burst = some bits ∧ m2.ci = some ci ∧
      self.ciBase - self.ciThr ≤ ci ∧ ci ≤ self.ciBase + self.ciThr ∧ (self.ciThr = 0 → ci = self.ciBase) ∧
      m2.modType = Trxd.Modulation.pickByBl bits.length ∧
      m2.tsc = some (tscOf (Trxd.Modulation.pickByBl bits.length) bits).1 ∧
      m2.tscSet = some (tscOf (Trxd.Modulation.pickByBl bits.length) bits).2) ∧
    (¬ ver ≥ 1 → m2 = m1) := by
  unfold v1Fields at h
  split at h
  · rename_i hv
    split at h
    · cases h
    · rename_i ci w1 h1
      split at h
      · cases h
      · rename_i bits hb
        injection h with h; injection h with ha hb'
        subst ha; subst hb'
        obtain ⟨c1, c2, c3, c4⟩ := randAround_ok _ _ _ _ _ h1
        exact ⟨c4, rfl, rfl, rfl, rfl, rfl, rfl, rfl,
          fun _ => ⟨ci, bits, hb, rfl, c1, c2, fun h0 => (c3 h0).1, rfl, rfl, rfl⟩,
          fun hn => absurd hv hn⟩
  · rename_i hv
    injection h with h; injection h with ha hb
    subst ha; subst hb
    exact ⟨DrawOnly.refl _, rfl, rfl, rfl, rfl, rfl, rfl, rfl, fun h => absurd h hv, fun _ => rfl⟩

theorem applyTa_other (src : Trx) (toa : Int) (m : Trxd.RxMsg) :
    (applyTa src toa m).fn = m.fn ∧ (applyTa src toa m).tn = m.tn ∧ (applyTa src toa m).ver = m.ver ∧
    (applyTa src toa m).burst = m.burst ∧ (applyTa src toa m).nopeInd = m.nopeInd ∧
    (applyTa src toa m).rssi = m.rssi ∧ (applyTa src toa m).ci = m.ci ∧
    (applyTa src toa m).modType = m.modType ∧ (applyTa src toa m).tsc = m.tsc ∧
    (applyTa src toa m).tscSet = m.tscSet := by
  unfold applyTa
  split <;> exact ⟨rfl, rfl, rfl, rfl, rfl, rfl, rfl, rfl, rfl, rfl⟩

theorem passOn_ok (w : World) (self src : Trx) (s : Trxd.TxMsg) (m : Trxd.RxMsg) (w' : World)
    (ds : List Dgram) (h : passOn w self src s m = .ok (w', ds)) :
    ∃ cm, sendMsg self cm true = .ok ds ∧ DrawOnly w w' ∧ Completed self src s m cm := by
  unfold passOn at h
  split at h
  · cases h
  · rename_i toa w1 h1
    split at h
    · cases h
    · rename_i rssi w2 h2
      split at h
      · cases h
      · rename_i m2 w3 h3
        split at h
        · cases h
        · rename_i ds' h4
          injection h with h; injection h with ha hb
          subst ha; subst hb
          obtain ⟨t1, t2, t3, t4⟩ := randAround_ok _ _ _ _ _ h1
          obtain ⟨r1, r2, r3⟩ := rssiOf_ok _ _ _ _ _ _ h2
          obtain ⟨v0, v1, v2, v3, v4, v5, v6, v7, v8, v9⟩ := v1Fields_ok _ _ _ _ _ _ _ h3
          obtain ⟨a1, a2, a3, a4, a5, a6, a7, a8, a9, a10⟩ := applyTa_other src toa m2
          refine ⟨applyTa src toa m2, h4, (t4.trans r3).trans v0, ?_⟩
          exact {
            fn_eq := by rw [a1, v1]
            tn_eq := by rw [a2, v2]
            ver_eq := by rw [a3, v3]
            burst_eq := by rw [a4, v4]
            nope_eq := by rw [a5, v5]
            rssi_ok := ⟨rssi, by rw [a6, v6], r1, r2⟩
            toa_ok := ⟨toa, applyTa_toa src toa m2 v7, t1, t2, fun h0 => (t3 h0).1⟩
            v1_ok := fun hv => by
              obtain ⟨ci, bits, b1, b2, b3, b4, b5, b6, b7, b8⟩ := v8 hv
              exact ⟨ci, bits, b1, by rw [a7, b2], b3, b4, b5, by rw [a8, b6], by rw [a9, b7], by rw [a10, b8]⟩
            v0_ok := fun hv => by
              have := v9 hv
              subst this
              exact ⟨a7, a8, a9, a10⟩ }

/-! ### the suppression decision -/

/-- one simulated burst loss: `burst_drop_amount -= 1` of transceiver `k` -/
def decDrop (w : World) (k : Nat) : World :=
  setTrx w k (fun t => { t with dropAmount := t.dropAmount - 1 })

theorem dropDecision_muted (w : World) (k : Nat) (self : Trx) (m : Trxd.RxMsg)
    (h : self.rfMuted = true) : dropDecision w k self m = .ok (true, w) := by
  simp only [dropDecision, h, if_true]

theorem dropDecision_nope (w : World) (k : Nat) (self : Trx) (m : Trxd.RxMsg)
    (h : m.nopeInd = true) : dropDecision w k self m = .ok (true, w) := by
  simp only [dropDecision, h, not_true, if_false]
  split <;> rfl

theorem fmod_zero_iff_dvd (fn p : Int) (hp : 1 ≤ p) : Int.fmod fn p = 0 ↔ p ∣ fn := by
  rw [Int.fmod_eq_emod_of_nonneg fn (by omega : 0 ≤ p), Int.dvd_iff_emod_eq_zero]

theorem dropDecision_live (w : World) (k : Nat) (self : Trx) (m : Trxd.RxMsg) (fn : Int)
    (hm : self.rfMuted = false) (hn : m.nopeInd = false) (hfn : m.fn = some fn)
    (hwf : Spec.DropWF self) :
    dropDecision w k self m =
      if Spec.dropDue self fn then .ok (true, decDrop w k) else .ok (false, w) := by
  obtain ⟨ha, hp⟩ := hwf
  have hp0 : self.dropPeriod ≠ 0 := by omega
  simp only [dropDecision, hm, hn, hfn, hp0, Spec.dropDue, Bool.false_eq_true, if_false, not_false_eq_true,
    if_true, Bool.and_eq_true, decide_eq_true_eq, fmod_zero_iff_dvd fn _ hp]
  by_cases h0 : self.dropAmount = 0
  · have : ¬ (0 < self.dropAmount) := by omega
    simp only [h0, if_true]
    simp
  · have : 0 < self.dropAmount := by omega
    simp only [h0, if_false, this, true_and]
    rfl

/-! ### `handleDataMsg`, case by case -/

/-- a suppressed burst: the NOPE branch; the drop counter goes down iff it was a simulated loss -/
theorem handleDataMsg_muted (w : World) (k j : Nat) (s : Trxd.TxMsg) (m : Trxd.RxMsg)
    (self src : Trx) (hk : w.trxs[k]? = some self) (hj : w.trxs[j]? = some src)
    (h : self.rfMuted = true ∨ m.nopeInd = true) :
    handleDataMsg w k j s m =
      match suppressOut self m with
      | .ok ds => .ok (w, ds)
      | .error e => .error e := by
  rw [handleDataMsg_eq, hk, hj]
  have : dropDecision w k self m = .ok (true, w) := by
    by_cases hm : self.rfMuted = true
    · exact dropDecision_muted w k self m hm
    · exact dropDecision_nope w k self m (h.resolve_left hm)
  simp only [this, if_true]

theorem handleDataMsg_live (w : World) (k j : Nat) (s : Trxd.TxMsg) (m : Trxd.RxMsg)
    (self src : Trx) (fn : Int) (hk : w.trxs[k]? = some self) (hj : w.trxs[j]? = some src)
    (hm : self.rfMuted = false) (hn : m.nopeInd = false) (hfn : m.fn = some fn)
    (hwf : Spec.DropWF self) :
    handleDataMsg w k j s m =
      if Spec.dropDue self fn then
        match suppressOut self m with
        | .ok ds => .ok (decDrop w k, ds)
        | .error e => .error e
      else passOn w self src s m := by
  rw [handleDataMsg_eq, hk, hj]
  dsimp only
  rw [dropDecision_live w k self m fn hm hn hfn hwf]
  by_cases hd : Spec.dropDue self fn = true
  · simp only [hd, if_true]
  · simp only [hd]
    rfl

/-- `suppressOut`: at most one datagram, to the own DATA peer, and it is a NOPE.ind -/
theorem suppressOut_ok (self : Trx) (m : Trxd.RxMsg) (ds : List Dgram)
    (h : suppressOut self m = .ok ds) :
    (m.ver < 1 ∧ ds = []) ∨
    (1 ≤ m.ver ∧ ((∃ b, (nopeMsg m).genMsg false = .ok b ∧ ds = [dataDgram self b]) ∨
                  ((nopeMsg m).genMsg false = .error .valueError ∧ ds = []))) := by
  unfold suppressOut at h
  split at h
  · rename_i hv
    injection h with h
    exact .inl ⟨hv, h.symm⟩
  · rename_i hv
    exact .inr ⟨by omega, sendMsg_ok _ _ _ _ h⟩

/-- shape of the output of one `handleDataMsg` call: nothing, or one datagram to the own DATA peer -/
def OneToPeer (self : Trx) (ds : List Dgram) : Prop := ds = [] ∨ ∃ b, ds = [dataDgram self b]

theorem suppressOut_shape (self : Trx) (m : Trxd.RxMsg) (ds : List Dgram)
    (h : suppressOut self m = .ok ds) : OneToPeer self ds := by
  rcases suppressOut_ok self m ds h with ⟨_, h⟩ | ⟨_, ⟨b, _, h⟩ | ⟨_, h⟩⟩
  · exact .inl h
  · exact .inr ⟨b, h⟩
  · exact .inl h

theorem passOn_shape (w : World) (self src : Trx) (s : Trxd.TxMsg) (m : Trxd.RxMsg) (w' : World)
    (ds : List Dgram) (h : passOn w self src s m = .ok (w', ds)) : OneToPeer self ds := by
  obtain ⟨cm, h1, _, _⟩ := passOn_ok _ _ _ _ _ _ _ h
  rcases sendMsg_ok _ _ _ _ h1 with ⟨b, _, h⟩ | ⟨_, h⟩
  · exact .inr ⟨b, h⟩
  · exact .inl h

theorem dropDecision_ok (w : World) (k : Nat) (self : Trx) (m : Trxd.RxMsg) (nope : Bool) (w1 : World)
    (hd : dropDecision w k self m = .ok (nope, w1)) :
    (nope = false → w1 = w) ∧ (w1 = w ∨ w1 = decDrop w k) := by
  unfold dropDecision at hd
  repeat' split at hd
  all_goals cases hd
  all_goals first | exact ⟨fun _ => rfl, .inl rfl⟩ | exact ⟨fun h => Bool.noConfusion h, .inr rfl⟩

/-- outcome of one call, without assumptions on the state: the world changes at most in the drop
counter of `k` and the randomness position; the output is `OneToPeer` -/
theorem handleDataMsg_ok (w : World) (k j : Nat) (s : Trxd.TxMsg) (m : Trxd.RxMsg) (w' : World)
    (ds : List Dgram) (h : handleDataMsg w k j s m = .ok (w', ds)) :
    ∃ self src, w.trxs[k]? = some self ∧ w.trxs[j]? = some src ∧ OneToPeer self ds ∧
      (w' = w ∨ w' = decDrop w k ∨ DrawOnly w w') := by
  rw [handleDataMsg_eq] at h
  split at h
  · rename_i self src hk hj
    refine ⟨self, src, hk, hj, ?_⟩
    split at h
    · cases h
    · rename_i nope w1 hd
      obtain ⟨hw0, hw1⟩ := dropDecision_ok _ _ _ _ _ _ hd
      split at h
      · split at h
        · rename_i ds' hs
          injection h with h; injection h with h1 h2
          subst h1; subst h2
          refine ⟨suppressOut_shape _ _ _ hs, ?_⟩
          rcases hw1 with h | h
          · exact .inl h
          · exact .inr (.inl h)
        · cases h
      · rename_i hnope
        have hn : w1 = w := hw0 (by simpa using hnope)
        subst hn
        obtain ⟨cm, _, hdo, _⟩ := passOn_ok _ _ _ _ _ _ _ h
        exact ⟨passOn_shape _ _ _ _ _ _ _ h, .inr (.inr hdo)⟩
  · cases h

/-! ### what a forwarding step leaves alone -/

/-- same transceivers up to the drop counters, same seed -/
def Static (w0 w : World) : Prop :=
  w.seed = w0.seed ∧ w.trxs.length = w0.trxs.length ∧
  ∀ (i : Nat) (t : Trx), w0.trxs[i]? = some t → ∃ d, w.trxs[i]? = some { t with dropAmount := d }

theorem Static.refl (w : World) : Static w w :=
  ⟨rfl, rfl, fun _ t h => ⟨t.dropAmount, h⟩⟩

theorem Static.trans {a b c : World} (h1 : Static a b) (h2 : Static b c) : Static a c := by
  refine ⟨h2.1.trans h1.1, h2.2.1.trans h1.2.1, fun i t h => ?_⟩
  obtain ⟨d, hd⟩ := h1.2.2 i t h
  obtain ⟨d', hd'⟩ := h2.2.2 i _ hd
  exact ⟨d', hd'⟩

theorem Static.of_drawOnly {a b : World} (h : DrawOnly a b) : Static a b := by
  obtain ⟨n, rfl⟩ := h
  exact ⟨rfl, rfl, fun _ t h => ⟨t.dropAmount, h⟩⟩

theorem decDrop_getElem? (w : World) (k i : Nat) :
    (decDrop w k).trxs[i]? =
      if k = i then (w.trxs[i]?).map (fun t => { t with dropAmount := t.dropAmount - 1 })
      else w.trxs[i]? := setTrx_getElem? w k _ i

theorem Static.decDrop (w : World) (k : Nat) : Static w (decDrop w k) := by
  refine ⟨rfl, setTrx_length _ _ _, fun i t h => ?_⟩
  rw [decDrop_getElem?]
  split
  · exact ⟨t.dropAmount - 1, by rw [h]; rfl⟩
  · exact ⟨t.dropAmount, h⟩

theorem Static.none {w0 w : World} (h : Static w0 w) (i : Nat) (hn : w0.trxs[i]? = none) :
    w.trxs[i]? = none := by
  rw [List.getElem?_eq_none_iff] at hn ⊢
  have := h.2.1; omega

theorem Static.poweredOn {w0 w : World} (h : Static w0 w) (k : Nat) :
    Spec.poweredOn w k = Spec.poweredOn w0 k := by
  unfold Spec.poweredOn
  cases h0 : w0.trxs[k]? with
  | none => rw [h.none k h0]
  | some t => obtain ⟨d, hd⟩ := h.2.2 k t h0; rw [hd]

theorem Static.rxFreqAt {w0 w : World} (h : Static w0 w) (k fn : Nat) :
    Spec.rxFreqAt w k fn = Spec.rxFreqAt w0 k fn := by
  unfold Spec.rxFreqAt
  cases h0 : w0.trxs[k]? with
  | none => rw [h.none k h0]
  | some t => obtain ⟨d, hd⟩ := h.2.2 k t h0; rw [hd]; rfl

theorem Static.txFreqAt {w0 w : World} (h : Static w0 w) (k fn : Nat) :
    Spec.txFreqAt w k fn = Spec.txFreqAt w0 k fn := by
  unfold Spec.txFreqAt
  cases h0 : w0.trxs[k]? with
  | none => rw [h.none k h0]
  | some t => obtain ⟨d, hd⟩ := h.2.2 k t h0; rw [hd]; rfl

theorem Static.isRecipient {w0 w : World} (h : Static w0 w) (j fn k : Nat) :
    Spec.isRecipient w j fn k = Spec.isRecipient w0 j fn k := by
  unfold Spec.isRecipient
  rw [h.poweredOn, h.rxFreqAt, h.txFreqAt]

theorem Static.freqOk {w0 w : World} (h : Static w0 w) (fn : Nat) (hok : Spec.FreqOk w0 fn) :
    Spec.FreqOk w fn := by
  intro k hk
  rw [h.rxFreqAt, h.txFreqAt]
  exact hok k (by have := h.2.1; omega)

theorem handleDataMsg_static (w : World) (k j : Nat) (s : Trxd.TxMsg) (m : Trxd.RxMsg) (w' : World)
    (ds : List Dgram) (h : handleDataMsg w k j s m = .ok (w', ds)) : Static w w' := by
  obtain ⟨_, _, _, _, _, h | h | h⟩ := handleDataMsg_ok _ _ _ _ _ _ _ h
  · rw [h]; exact Static.refl _
  · rw [h]; exact Static.decDrop _ _
  · exact Static.of_drawOnly h

/-- a call for `k` does not touch any other transceiver -/
theorem handleDataMsg_others (w : World) (k j : Nat) (s : Trxd.TxMsg) (m : Trxd.RxMsg) (w' : World)
    (ds : List Dgram) (h : handleDataMsg w k j s m = .ok (w', ds)) (i : Nat) (hi : i ≠ k) :
    w'.trxs[i]? = w.trxs[i]? := by
  obtain ⟨_, _, _, _, _, h | h | h⟩ := handleDataMsg_ok _ _ _ _ _ _ _ h
  · rw [h]
  · rw [h, decDrop_getElem?, if_neg (fun e => hi e.symm)]
  · rw [h.trxs]

/-! ### `forwardMsg` as a fold of `handleDataMsg` -/

/-- hand the burst to the transceivers `ks`, one after the other (world threaded, outputs
concatenated): per transceiver `rx_msg.trans(ver = trx.data_if._hdr_ver)`, then `handle_data_msg` -/
def handleSeq (j : Nat) (msg : Trxd.TxMsg) : World → List Nat → Except Exc (World × List Dgram)
  | w, [] => .ok (w, [])
  | w, k :: ks =>
    match w.trxs[k]? with
    | none => .error .indexError
    | some trx =>
      match msg.trans (some trx.hdrVer) with
      | .error e => .error (ofTrxdExc e)
      | .ok rx =>
        match handleDataMsg w k j msg rx with
        | .error e => .error e
        | .ok (w, ds) =>
          match handleSeq j msg w ks with
          | .error e => .error e
          | .ok (w, ds') => .ok (w, ds ++ ds')

theorem isRecipient_iff (w : World) (j fn k : Nat) (trx : Trx) (txf : Option Int)
    (hk : w.trxs[k]? = some trx) (htx : Spec.txFreqAt w j fn = some txf) :
    Spec.isRecipient w j fn k = true ↔
      k ≠ j ∧ trx.running = true ∧ trx.getRxFreq fn = .ok txf := by
  unfold Spec.isRecipient Spec.poweredOn Spec.rxFreqAt Trx.getRxFreq
  rw [hk, htx]
  cases hf : trx.hop.getRxFreq fn with
  | error e => simp [hf]
  | ok f => simp [hf, and_assoc]

theorem go_eq (j fn : Nat) (txf : Option Int) (msg : Trxd.TxMsg) (ks : List Nat) :
    ∀ (w : World) (acc : List Dgram), (∀ k ∈ ks, k < w.trxs.length) → Spec.FreqOk w fn →
      Spec.txFreqAt w j fn = some txf →
      forwardMsg.go j fn txf msg w acc ks =
        match handleSeq j msg w (ks.filter (Spec.isRecipient w j fn)) with
        | .error e => .error e
        | .ok (w', ds) => .ok (w', acc ++ ds) := by
  induction ks with
  | nil => intro w acc _ _ _; simp [forwardMsg.go, handleSeq]
  | cons k ks ih =>
    intro w acc hlen hok htx
    have hk : k < w.trxs.length := hlen k (List.mem_cons_self ..)
    have hlen' : ∀ k ∈ ks, k < w.trxs.length := fun k' h => hlen k' (List.mem_cons_of_mem _ h)
    obtain ⟨trx, htrx⟩ : ∃ trx, w.trxs[k]? = some trx := ⟨w.trxs[k], List.getElem?_eq_getElem hk⟩
    have hrec := isRecipient_iff w j fn k trx txf htrx htx
    obtain ⟨f, hf⟩ : ∃ f, trx.getRxFreq fn = .ok f := by
      have := (hok k hk).1
      unfold Spec.rxFreqAt at this
      rw [htrx] at this
      unfold Trx.getRxFreq
      cases h : trx.hop.getRxFreq fn with
      | ok f => exact ⟨f, rfl⟩
      | error e => simp [h] at this
    unfold forwardMsg.go
    by_cases hsel : Spec.isRecipient w j fn k = true
    · obtain ⟨h1, h2, h3⟩ := hrec.1 hsel
      rw [hf] at h3; injection h3 with h3; subst h3
      simp only [h1, if_false, htrx, h2, not_true, hf, ne_eq, List.filter_cons, hsel, if_true, handleSeq]
      cases msg.trans (some trx.hdrVer) with
      | error e => rfl
      | ok rx =>
        dsimp only
        cases hh : handleDataMsg w k j msg rx with
        | error e => rfl
        | ok p =>
          obtain ⟨w', ds⟩ := p
          have hst := handleDataMsg_static _ _ _ _ _ _ _ hh
          dsimp only
          rw [ih w' (acc ++ ds) (fun k' h => by rw [hst.2.1]; exact hlen' k' h) (hst.freqOk fn hok)
            (by rw [hst.txFreqAt]; exact htx)]
          have : Spec.isRecipient w' j fn = Spec.isRecipient w j fn := funext (hst.isRecipient j fn)
          rw [this]
          cases handleSeq j msg w' (List.filter (Spec.isRecipient w j fn) ks) with
          | error e => rfl
          | ok p => simp only [List.append_assoc]
    · have hsel' : Spec.isRecipient w j fn k = false := by simpa using hsel
      simp only [List.filter_cons, hsel', Bool.false_eq_true, if_false]
      rw [← ih w acc hlen' hok htx]
      by_cases h1 : k = j
      · simp only [h1, if_true]
      · simp only [h1, if_false, htrx]
        by_cases h2 : trx.running = true
        · simp only [h2, not_true, if_false, hf]
          have h3 : f ≠ txf := fun e => hsel (hrec.2 ⟨h1, h2, by rw [hf, e]⟩)
          simp only [ne_eq, h3, not_false_eq_true, if_true]
        · have h2' : trx.running = false := by simpa using h2
          simp only [h2', Bool.false_eq_true, not_false_eq_true, if_true]

/-- what the forwarder hands on: the sender's message, without burst bits when the sender is muted -/
def fwdInput (src : Trx) (msg : Trxd.TxMsg) : Trxd.TxMsg :=
  if src.rfMuted then { msg with burst := none } else msg

/-- `forwardMsg` is `handleDataMsg` for exactly the transceivers of `Spec.recipients`, in list
order, with the world threaded through the calls -/
theorem forwardMsg_eq (w : World) (j : Nat) (msg : Trxd.TxMsg) (src : Trx) (fnI : Int)
    (hj : w.trxs[j]? = some src) (hfn : msg.fn = some fnI) (hok : Spec.FreqOk w fnI.toNat) :
    forwardMsg w j msg = handleSeq j (fwdInput src msg) w (Spec.recipients w j fnI.toNat) := by
  have hjl : j < w.trxs.length := by
    rcases Nat.lt_or_ge j w.trxs.length with h | h
    · exact h
    · rw [List.getElem?_eq_none_iff.2 h] at hj; cases hj
  obtain ⟨txf, htxf⟩ : ∃ f, src.getTxFreq fnI.toNat = .ok f := by
    have := (hok j hjl).2
    unfold Spec.txFreqAt at this
    rw [hj] at this
    unfold Trx.getTxFreq
    cases h : src.hop.getTxFreq fnI.toNat with
    | ok f => exact ⟨f, rfl⟩
    | error e => simp [h] at this
  have htx : Spec.txFreqAt w j fnI.toNat = some txf := by
    unfold Spec.txFreqAt
    rw [hj]
    unfold Trx.getTxFreq at htxf
    cases h : src.hop.getTxFreq fnI.toNat with
    | ok f => rw [h] at htxf; injection htxf with e; simp [h, e]
    | error e => rw [h] at htxf; cases htxf
  obtain ⟨ver, fn', tn, pwr, burst⟩ := msg
  dsimp only at hfn
  subst hfn
  unfold forwardMsg
  simp only [hj, htxf]
  rw [go_eq j fnI.toNat txf _ _ w [] (fun k hk => List.mem_range.1 hk) hok htx]
  unfold Spec.recipients fwdInput
  generalize handleSeq j _ w _ = r
  cases r with
  | error e => rfl
  | ok p => simp only [List.nil_append]

/-! ### codec facts used by the burst path (from the definitions of `Model/Trxd.lean`) -/

theorem tabUbit2sbit_length : Gen.Trxd.tabUbit2sbit.length = 256 := by decide +kernel

/-- the regenerated `ubit2sbit` table: octet 0 ↦ +127, every other octet ↦ −127 -/
theorem tabUbit2sbit_point : ∀ b : Fin 256, Gen.Trxd.tabUbit2sbit[b.val]? = some (Spec.softOf b.val) := by
  decide +kernel

theorem translateGo_ubit (bits : List Nat) (h : ∀ b ∈ bits, b < 256) :
    Trxd.translateGo Gen.Trxd.tabUbit2sbit bits = .ok (bits.map Spec.softOf) := by
  induction bits with
  | nil => rfl
  | cons b bs ih =>
    have hb : b < 256 := h b (List.mem_cons_self ..)
    have := tabUbit2sbit_point ⟨b, hb⟩
    simp only at this
    simp only [Trxd.translateGo, this, ih (fun x hx => h x (List.mem_cons_of_mem _ hx)), List.map_cons]

/-- `Msg.ubit2sbit`: one full-confidence soft bit of the matching sign per octet -/
theorem ubit2sbit_eq (bits : List Nat) (h : ∀ b ∈ bits, b < 256) :
    Trxd.ubit2sbit bits = .ok (bits.map Spec.softOf) := by
  unfold Trxd.ubit2sbit Trxd.translate
  simp only [tabUbit2sbit_length, ne_eq, not_true, if_false]
  exact translateGo_ubit bits h

/-- `TxMsg.trans(ver)` of a message with burst bits -/
theorem trans_burst (s : Trxd.TxMsg) (v : Int) (bits : List Nat) (hb : s.burst = some bits)
    (h : ∀ b ∈ bits, b < 256) :
    s.trans (some v) = .ok { Trxd.RxMsg.fresh with fn := s.fn, tn := s.tn, ver := v,
                                                   burst := some (bits.map Spec.softOf) } := by
  unfold Trxd.TxMsg.trans
  rw [hb]
  dsimp only
  rw [ubit2sbit_eq bits h]

/-- `TxMsg.trans(ver)` of a message without burst bits: a NOPE indication -/
theorem trans_noburst (s : Trxd.TxMsg) (v : Int) (hb : s.burst = none) :
    s.trans (some v) = .ok { Trxd.RxMsg.fresh with fn := s.fn, tn := s.tn, ver := v, nopeInd := true } := by
  unfold Trxd.TxMsg.trans
  rw [hb]

theorem fresh_nope : Trxd.RxMsg.fresh.nopeInd = false := by decide

/-! ### one forwarding call against the property-level description -/

/-- datagrams the DATA socket of `t` emits for the outcome of `gen_msg` (ValueError: nothing) -/
def dgramsOf (t : Trx) (g : Except Trxd.Exc Trxd.Bytes) : List Dgram :=
  match g with
  | .ok b => [dataDgram t b]
  | .error _ => []

theorem sendMsg_dgramsOf (t : Trx) (m : Trxd.RxMsg) (l : Bool) (ds : List Dgram)
    (h : sendMsg t m l = .ok ds) : ds = dgramsOf t (m.genMsg l) := by
  rcases sendMsg_ok _ _ _ _ h with ⟨b, hb, hd⟩ | ⟨hb, hd⟩
  · rw [hd, hb]; rfl
  · rw [hd, hb]; rfl

/-- version-1 fields of a forwarded burst: modulation by burst length, TSC / TSC set by
`TrainingSeqGMSK.pick` (0, 0 when nothing matches or the modulation is not GMSK) -/
def V1Meta (r : Trx) (bits : List Nat) (m : Trxd.RxMsg) : Prop :=
  1 ≤ r.hdrVer →
    m.modType = Trxd.Modulation.pickByBl bits.length ∧
    m.tsc = some (tscOf (Trxd.Modulation.pickByBl bits.length) bits).1 ∧
    m.tscSet = some (tscOf (Trxd.Modulation.pickByBl bits.length) bits).2

/-- what recipient `r` emits for the burst `s` (frame `fn`, bits `bits`) transmitted by `src` -/
structure CallSpec (r src : Trx) (s : Trxd.TxMsg) (fn : Int) (bits : List Nat) (dk : List Dgram) :
    Prop where
  supp_v0 : Spec.suppressed src r fn = true → r.hdrVer < 1 → dk = []
  supp_v1 : Spec.suppressed src r fn = true → 1 ≤ r.hdrVer →
    ∃ cm, Spec.IsNope r.hdrVer s.fn s.tn cm ∧ dk = dgramsOf r (cm.genMsg false)
  fwd : Spec.suppressed src r fn = false →
    ∃ cm, Spec.FwdMeta src r s.fn s.tn s.pwr bits cm ∧ V1Meta r bits cm ∧
      dk = dgramsOf r (cm.genMsg true)

/-- effect of the call on the world: a simulated loss decrements the counter of `k`, a mute leaves
everything alone, a forwarded burst only advances the randomness stream -/
def CallWorld (w : World) (k : Nat) (r src : Trx) (fn : Int) (w' : World) : Prop :=
  (src.rfMuted = true ∨ r.rfMuted = true → w' = w) ∧
  (src.rfMuted = false → r.rfMuted = false → Spec.dropDue r fn = true → w' = decDrop w k) ∧
  (Spec.suppressed src r fn = false → DrawOnly w w')

theorem nopeMsg_isNope (rx : Trxd.RxMsg) : Spec.IsNope rx.ver rx.fn rx.tn (nopeMsg rx) :=
  ⟨rfl, rfl, rfl, rfl, rfl, rfl, rfl, rfl⟩

theorem suppressOut_spec (r : Trx) (rx : Trxd.RxMsg) (ds : List Dgram)
    (h : suppressOut r rx = .ok ds) :
    (rx.ver < 1 → ds = []) ∧
    (1 ≤ rx.ver → ∃ cm, Spec.IsNope rx.ver rx.fn rx.tn cm ∧ ds = dgramsOf r (cm.genMsg false)) := by
  unfold suppressOut at h
  split at h
  · rename_i hv
    injection h with h
    exact ⟨fun _ => h.symm, fun h1 => by omega⟩
  · rename_i hv
    exact ⟨fun h1 => absurd h1 hv, fun _ => ⟨nopeMsg rx, nopeMsg_isNope rx, sendMsg_dgramsOf _ _ _ _ h⟩⟩

theorem completed_fwdMeta (r src : Trx) (s : Trxd.TxMsg) (bits : List Nat) (rx cm : Trxd.RxMsg)
    (hb : s.burst = some bits) (hfn : rx.fn = s.fn) (htn : rx.tn = s.tn) (hver : rx.ver = r.hdrVer)
    (hbu : rx.burst = some (bits.map Spec.softOf)) (hc : Completed r src s rx cm) :
    Spec.FwdMeta src r s.fn s.tn s.pwr bits cm ∧ V1Meta r bits cm := by
  obtain ⟨c_fn, c_tn, c_ver, c_burst, c_nope, c_rssi, c_toa, c_v1, _⟩ := hc
  refine ⟨?_, ?_⟩
  · refine ⟨by rw [c_fn, hfn], by rw [c_tn, htn], by rw [c_ver, hver], c_nope,
      by rw [c_burst, hbu], ?_, ?_, ?_⟩
    · obtain ⟨v, h1, h2, h3⟩ := c_rssi
      refine ⟨v, h1, fun hf => ?_, fun hf => ⟨(h3 hf).1, (h3 hf).2.1⟩⟩
      obtain ⟨a, ha, hv⟩ := h2 hf
      exact ⟨a, ha, by rw [hv]; simp only [Trx.txPower, Gen.World.pathLoss]⟩
    · obtain ⟨d, h1, h2, h3, _⟩ := c_toa
      exact ⟨d, by rw [h1, Int.mul_comm], h2, h3⟩
    · intro hv
      obtain ⟨ci, _, _, h1, h2, h3, _⟩ := c_v1 (by rw [hver]; exact hv)
      exact ⟨ci, h1, h2, h3⟩
  · intro hv
    obtain ⟨ci, bits', hb', _, _, _, _, h1, h2, h3⟩ := c_v1 (by rw [hver]; exact hv)
    rw [hb] at hb'; injection hb' with hb'; subst hb'
    exact ⟨h1, h2, h3⟩

theorem suppressed_of_dropDue {src r : Trx} {fn : Int} (h : Spec.dropDue r fn = true) :
    Spec.suppressed src r fn = true := by
  simp only [Spec.suppressed, h, Bool.or_true]

/-- one call of the forwarding loop: recipient `k` (= `r`) handles the burst `s` of sender `j`
(= `src`); the output and the effect on the world are as the properties demand -/
theorem handleDataMsg_spec (w : World) (k j : Nat) (s : Trxd.TxMsg) (r src : Trx) (fn : Int)
    (bits : List Nat) (rx : Trxd.RxMsg) (w' : World) (dk : List Dgram)
    (hk : w.trxs[k]? = some r) (hj : w.trxs[j]? = some src) (hwf : Spec.DropWF r)
    (hfn : s.fn = some fn) (hb : s.burst = some bits) (hbits : ∀ b ∈ bits, b < 256)
    (hrx : (fwdInput src s).trans (some r.hdrVer) = .ok rx)
    (h : handleDataMsg w k j (fwdInput src s) rx = .ok (w', dk)) :
    CallSpec r src s fn bits dk ∧ CallWorld w k r src fn w' := by
  by_cases hsm : src.rfMuted = true
  · -- sender muted: the burst bits are stripped, the message becomes a NOPE indication
    have hin : fwdInput src s = { s with burst := none } := by simp only [fwdInput, hsm, if_true]
    rw [hin] at hrx h
    rw [trans_noburst _ _ rfl] at hrx
    injection hrx with hrx
    have hnope : rx.nopeInd = true := by rw [← hrx]
    have hver : rx.ver = r.hdrVer := by rw [← hrx]
    have hfn' : rx.fn = s.fn := by rw [← hrx]
    have htn' : rx.tn = s.tn := by rw [← hrx]
    rw [handleDataMsg_muted w k j _ rx r src hk hj (.inr hnope)] at h
    split at h
    · rename_i ds hs
      injection h with h; injection h with h1 h2
      subst h1; subst h2
      have hsup : Spec.suppressed src r fn = true := by simp only [Spec.suppressed, hsm, Bool.true_or]
      obtain ⟨s0, s1⟩ := suppressOut_spec r rx _ hs
      rw [hver, hfn', htn'] at s1
      rw [hver] at s0
      refine ⟨⟨fun _ => s0, fun _ => s1, fun hn => ?_⟩, fun _ => rfl, fun hn => ?_, fun hn => ?_⟩
      · rw [hsup] at hn; cases hn
      · rw [hsm] at hn; cases hn
      · rw [hsup] at hn; cases hn
    · cases h
  · have hsm' : src.rfMuted = false := by simpa using hsm
    have hin : fwdInput src s = s := by simp only [fwdInput, hsm', Bool.false_eq_true, if_false]
    rw [hin] at hrx h
    rw [trans_burst s _ bits hb hbits] at hrx
    injection hrx with hrx
    have hnope : rx.nopeInd = false := by rw [← hrx]; exact fresh_nope
    have hver : rx.ver = r.hdrVer := by rw [← hrx]
    have hfn' : rx.fn = s.fn := by rw [← hrx]
    have htn' : rx.tn = s.tn := by rw [← hrx]
    have hbu : rx.burst = some (bits.map Spec.softOf) := by rw [← hrx]
    by_cases hrm : r.rfMuted = true
    · rw [handleDataMsg_muted w k j _ rx r src hk hj (.inl hrm)] at h
      split at h
      · rename_i ds hs
        injection h with h; injection h with h1 h2
        subst h1; subst h2
        have hsup : Spec.suppressed src r fn = true := by
          simp only [Spec.suppressed, hrm, Bool.true_or, Bool.or_true]
        obtain ⟨s0, s1⟩ := suppressOut_spec r rx _ hs
        rw [hver, hfn', htn'] at s1
        rw [hver] at s0
        refine ⟨⟨fun _ => s0, fun _ => s1, fun hn => ?_⟩, fun _ => rfl, fun _ hn => ?_, fun hn => ?_⟩
        · rw [hsup] at hn; cases hn
        · rw [hrm] at hn; cases hn
        · rw [hsup] at hn; cases hn
      · cases h
    · have hrm' : r.rfMuted = false := by simpa using hrm
      rw [handleDataMsg_live w k j _ rx r src fn hk hj hrm' hnope (by rw [hfn', hfn]) hwf] at h
      have hsupeq : Spec.suppressed src r fn = Spec.dropDue r fn := by
        simp only [Spec.suppressed, hsm', hrm', Bool.false_or]
      by_cases hd : Spec.dropDue r fn = true
      · rw [if_pos hd] at h
        split at h
        · rename_i ds hs
          injection h with h; injection h with h1 h2
          subst h1; subst h2
          have hsup : Spec.suppressed src r fn = true := by rw [hsupeq, hd]
          obtain ⟨s0, s1⟩ := suppressOut_spec r rx _ hs
          rw [hver, hfn', htn'] at s1
          rw [hver] at s0
          refine ⟨⟨fun _ => s0, fun _ => s1, fun hn => ?_⟩, fun hn => ?_, fun _ _ _ => rfl, fun hn => ?_⟩
          · rw [hsup] at hn; cases hn
          · rcases hn with hn | hn
            · rw [hsm'] at hn; cases hn
            · rw [hrm'] at hn; cases hn
          · rw [hsup] at hn; cases hn
        · cases h
      · rw [if_neg hd] at h
        have hsup : Spec.suppressed src r fn = false := by rw [hsupeq]; simpa using hd
        obtain ⟨cm, hsend, hdo, hc⟩ := passOn_ok _ _ _ _ _ _ _ h
        obtain ⟨m1, m2⟩ := completed_fwdMeta r src s bits rx cm hb hfn' htn' hver hbu hc
        refine ⟨⟨fun hn => ?_, fun hn => ?_, fun _ => ⟨cm, m1, m2, sendMsg_dgramsOf _ _ _ _ hsend⟩⟩,
          fun hn => ?_, fun _ _ hn => ?_, fun _ => hdo⟩
        · rw [hsup] at hn; cases hn
        · rw [hsup] at hn; cases hn
        · rcases hn with hn | hn
          · rw [hsm'] at hn; cases hn
          · rw [hrm'] at hn; cases hn
        · exact absurd hn hd

/-! ### the sequence of calls made by `forwardMsg` -/

/-- `handleSeq`: one call per listed transceiver; every call sees its own and the sender's
record exactly as they were at the start (earlier calls touch other transceivers only) -/
theorem handleSeq_calls (j : Nat) (m : Trxd.TxMsg) (w0 : World) (P : Nat → List Dgram → Prop)
    (step : ∀ (w : World) (k : Nat) (r : Trx) (rx : Trxd.RxMsg) (w' : World) (dk : List Dgram),
      w.trxs[k]? = w0.trxs[k]? → w.trxs[j]? = w0.trxs[j]? → w.trxs[k]? = some r →
      m.trans (some r.hdrVer) = .ok rx → handleDataMsg w k j m rx = .ok (w', dk) → P k dk) :
    ∀ (ks : List Nat) (w : World), ks.Nodup → j ∉ ks →
      (∀ i, i ∈ ks ∨ i = j → w.trxs[i]? = w0.trxs[i]?) →
      ∀ (w' : World) (out : List Dgram), handleSeq j m w ks = .ok (w', out) →
        ∃ calls : List (Nat × List Dgram), calls.map Prod.fst = ks ∧
          out = (calls.map Prod.snd).flatten ∧ ∀ c ∈ calls, P c.1 c.2 := by
  intro ks
  induction ks with
  | nil =>
    intro w _ _ _ w' out h
    simp only [handleSeq] at h
    injection h with h; injection h with _ h
    exact ⟨[], rfl, by rw [← h]; rfl, fun c hc => by cases hc⟩
  | cons k ks ih =>
    intro w hnd hj hsame w' out h
    rw [List.nodup_cons] at hnd
    simp only [handleSeq] at h
    split at h
    · cases h
    · rename_i r hr
      split at h
      · cases h
      · rename_i rx hrx
        split at h
        · cases h
        · rename_i w1 dk hh
          split at h
          · cases h
          · rename_i w2 ds' hrest
            injection h with h; injection h with h1 h2
            subst h1; subst h2
            have hkj : k ≠ j := fun e => hj (by rw [← e]; exact List.mem_cons_self ..)
            have hPk : P k dk := step w k r rx w1 dk (hsame k (.inl (List.mem_cons_self ..)))
              (hsame j (.inr rfl)) hr hrx hh
            have hsame' : ∀ i, i ∈ ks ∨ i = j → w1.trxs[i]? = w0.trxs[i]? := by
              intro i hi
              have hik : i ≠ k := by
                rcases hi with hi | hi
                · exact fun e => hnd.1 (by rw [← e]; exact hi)
                · rw [hi]; exact fun e => hkj e.symm
              rw [handleDataMsg_others _ _ _ _ _ _ _ hh i hik]
              exact hsame i (hi.elim (fun h => .inl (List.mem_cons_of_mem _ h)) .inr)
            obtain ⟨calls, c1, c2, c3⟩ := ih w1 hnd.2 (fun h => hj (List.mem_cons_of_mem _ h)) hsame' _ _ hrest
            refine ⟨(k, dk) :: calls, by simp only [List.map_cons, c1], by
              simp only [List.map_cons, List.flatten_cons, c2], ?_⟩
            intro c hc
            rcases List.mem_cons.1 hc with hc | hc
            · rw [hc]; exact hPk
            · exact c3 c hc

/-! ### counting datagrams per DATA peer -/

theorem distinct_ports (w : World) (hd : Spec.DistinctDataPorts w) (i k : Nat) (ti tk : Trx)
    (hi : w.trxs[i]? = some ti) (hk : w.trxs[k]? = some tk) (hne : i ≠ k) :
    ¬ (ti.addr = tk.addr ∧ ti.dataPort = tk.dataPort) := by
  intro ⟨h1, h2⟩
  unfold Spec.DistinctDataPorts at hd
  have hil : i < w.trxs.length := by
    rcases Nat.lt_or_ge i w.trxs.length with h | h
    · exact h
    · rw [List.getElem?_eq_none_iff.2 h] at hi; cases hi
  have hkl : k < w.trxs.length := by
    rcases Nat.lt_or_ge k w.trxs.length with h | h
    · exact h
    · rw [List.getElem?_eq_none_iff.2 h] at hk; cases hk
  have ei : w.trxs[i] = ti := by rw [List.getElem?_eq_getElem hil] at hi; injection hi
  have ek : w.trxs[k] = tk := by rw [List.getElem?_eq_getElem hkl] at hk; injection hk
  have := (List.getElem_inj (i := i) (j := k) (h₀ := by rw [List.length_map]; exact hil)
    (h₁ := by rw [List.length_map]; exact hkl) hd).1 (by
      simp only [List.getElem_map, ei, ek, Prod.mk.injEq]
      refine ⟨h1, ?_⟩
      simp only [Trx.dataPort] at h2
      omega)
  exact hne this

theorem toDataPeer_iff (ti tk : Trx) (b : List Nat) :
    Spec.toDataPeer ti (dataDgram tk b) = true ↔ (ti.addr = tk.addr ∧ ti.dataPort = tk.dataPort) := by
  simp only [Spec.toDataPeer, dataDgram, Trx.dataPort, Trx.dataRemote, Bool.and_eq_true, beq_iff_eq]
  constructor
  · rintro ⟨⟨h1, _⟩, h3⟩
    exact ⟨h3.symm, by omega⟩
  · rintro ⟨h1, h2⟩
    exact ⟨⟨by omega, by omega⟩, h1.symm⟩

theorem deliveredTo_own (t : Trx) (dk : List Dgram) (h : OneToPeer t dk) :
    Spec.deliveredTo t dk = dk.length := by
  rcases h with h | ⟨b, h⟩
  · rw [h]; rfl
  · rw [h]
    simp only [Spec.deliveredTo, List.countP_cons, toDataPeer_dataDgram, List.countP_nil, if_true,
      List.length_cons, List.length_nil]

theorem deliveredTo_other (w : World) (hd : Spec.DistinctDataPorts w) (i k : Nat) (ti tk : Trx)
    (hi : w.trxs[i]? = some ti) (hk : w.trxs[k]? = some tk) (hne : i ≠ k) (dk : List Dgram)
    (h : OneToPeer tk dk) : Spec.deliveredTo ti dk = 0 := by
  rcases h with h | ⟨b, h⟩
  · rw [h]; rfl
  · rw [h]
    have := distinct_ports w hd i k ti tk hi hk hne
    have hf : Spec.toDataPeer ti (dataDgram tk b) = false := by
      cases hx : Spec.toDataPeer ti (dataDgram tk b)
      · rfl
      · exact absurd ((toDataPeer_iff ti tk b).1 hx) this
    simp only [Spec.deliveredTo, List.countP_cons, hf, List.countP_nil, Bool.false_eq_true, if_false]

/-- datagrams for `i`'s DATA peer in the concatenated output of a sequence of calls -/
theorem deliveredTo_calls (w : World) (hd : Spec.DistinctDataPorts w) (i : Nat) (ti : Trx)
    (hi : w.trxs[i]? = some ti) :
    ∀ calls : List (Nat × List Dgram),
      (∀ c ∈ calls, ∃ r, w.trxs[c.1]? = some r ∧ OneToPeer r c.2) →
      (i ∉ calls.map Prod.fst → Spec.deliveredTo ti (calls.map Prod.snd).flatten = 0) ∧
      ((calls.map Prod.fst).Nodup → ∀ dk, (i, dk) ∈ calls →
        Spec.deliveredTo ti (calls.map Prod.snd).flatten = dk.length) := by
  intro calls
  induction calls with
  | nil => intro _; exact ⟨fun _ => rfl, fun _ dk h => by cases h⟩
  | cons c calls ih =>
    intro hall
    obtain ⟨r, hr, hone⟩ := hall c (List.mem_cons_self ..)
    obtain ⟨ih0, ih1⟩ := ih (fun c' hc' => hall c' (List.mem_cons_of_mem _ hc'))
    have hsplit : Spec.deliveredTo ti ((c :: calls).map Prod.snd).flatten =
        Spec.deliveredTo ti c.2 + Spec.deliveredTo ti (calls.map Prod.snd).flatten := by
      simp only [Spec.deliveredTo, List.map_cons, List.flatten_cons, List.countP_append]
    constructor
    · intro hni
      simp only [List.map_cons, List.mem_cons, not_or] at hni
      rw [hsplit, ih0 hni.2, deliveredTo_other w hd i c.1 ti r hi hr hni.1 c.2 hone]
    · intro hnd dk hmem
      simp only [List.map_cons, List.nodup_cons] at hnd
      rcases List.mem_cons.1 hmem with hc | hc
      · have hci : c.1 = i := by rw [← hc]
        have hcd : c.2 = dk := by rw [← hc]
        rw [hci] at hr hnd
        rw [hi] at hr; injection hr with hr; subst hr
        rw [hsplit, ih0 hnd.1, hcd] at *
        rw [deliveredTo_own ti dk hone]; rfl
      · have hne : i ≠ c.1 := by
          intro e
          apply hnd.1
          rw [← e]
          exact List.mem_map.2 ⟨(i, dk), hc, rfl⟩
        rw [hsplit, deliveredTo_other w hd i c.1 ti r hi hr hne c.2 hone, ih1 hnd.2 dk hc]
        omega

end OsmoVerif.World

/-! ### codec facts about `RxMsg.validate` / `RxMsg.genMsg`

Consequences of the TRXD worker's theorems (`Lemmas/Trxd.lean`: `RxMsg.validate_iff`,
`RxMsg.genMsg_ok`, `RxMsg.genMsg_layout`, `RxMsg.validate_err`), in the shape the burst path uses. -/

namespace OsmoVerif.World.Codec
open OsmoVerif OsmoVerif.Trxd OsmoVerif.Spec.TrxdRanges

/-- after a successful `validate()`, `gen_msg()` cannot raise -/
theorem genMsg_ok_of_validate (m : RxMsg) (l : Bool) (h : m.validate = .ok ()) :
    ∃ b, m.genMsg l = .ok b :=
  RxMsg.genMsg_ok m l ((RxMsg.validate_iff m).1 h)

/-- a validation failure is what `gen_msg()` raises -/
theorem genMsg_err_of_validate (m : RxMsg) (l : Bool) (e : Trxd.Exc) (h : m.validate = .error e) :
    m.genMsg l = .error e := by
  simp only [RxMsg.genMsg, h, bind, Except.bind]

/-- `validate()` raises nothing but ValueError -/
theorem validate_err (m : RxMsg) (e : Trxd.Exc) (h : m.validate = .error e) : e = .valueError :=
  RxMsg.validate_err m e h

/-- legacy mode only appends the two padding octets of version 0 -/
theorem genMsg_legacy (m : RxMsg) :
    m.genMsg true = match m.genMsg false with
      | .ok b => .ok (if m.ver = 0 then b ++ [0, 0] else b)
      | .error e => .error e := by
  simp only [RxMsg.genMsg, bind, Except.bind, pure, Except.pure, appendLegacy]
  cases m.validate with
  | error e => rfl
  | ok u =>
    dsimp only
    cases genCommon m.ver m.fn m.tn with
    | error e => rfl
    | ok b0 =>
      dsimp only
      cases m.appendHdrTo b0 with
      | error e => rfl
      | ok b1 =>
        dsimp only
        cases m.appendBurstTo b1 with
        | error e => rfl
        | ok b2 => simp

/-- a version-0 burst indication with in-range header fields and a 148/444 soft-bit burst validates -/
theorem validate_v0 (m : RxMsg) (fn tn r t : Int) (b : List Int) (hver : m.ver = 0)
    (hfn : m.fn = some fn) (htn : m.tn = some tn) (f0 : 0 ≤ fn) (f1 : fn < 2715648)
    (n0 : 0 ≤ tn) (n1 : tn ≤ 7) (hr : m.rssi = some r) (ht : m.toa256 = some t)
    (r0 : -120 ≤ r) (r1 : r ≤ -47) (t0 : -32768 ≤ t) (t1 : t ≤ 32767)
    (hb : m.burst = some b) (hl : b.length = 148 ∨ b.length = 444) : m.validate = .ok () := by
  rw [RxMsg.validate_iff]
  refine ⟨.inl hver, ?_, ?_, ?_, ?_, ?_, ?_⟩
  · rw [hfn]; show 0 ≤ fn ∧ fn ≤ 2715647; omega
  · rw [htn]; exact ⟨n0, n1⟩
  · rw [hr]; exact ⟨r0, r1⟩
  · rw [ht]; exact ⟨t0, t1⟩
  · intro _; rw [hb]; exact hl
  · intro h; rw [hver] at h; cases h

/-- a version-1 burst indication with in-range fields validates -/
theorem validate_v1 (m : RxMsg) (fn tn r t c set tsc : Int) (mod : Modulation) (b : List Int)
    (hver : m.ver = 1) (hfn : m.fn = some fn) (htn : m.tn = some tn) (f0 : 0 ≤ fn) (f1 : fn < 2715648)
    (n0 : 0 ≤ tn) (n1 : tn ≤ 7) (hr : m.rssi = some r) (ht : m.toa256 = some t)
    (r0 : -120 ≤ r) (r1 : r ≤ -47) (t0 : -32768 ≤ t) (t1 : t ≤ 32767)
    (hc : m.ci = some c) (c0 : -1280 ≤ c) (c1 : c ≤ 1280)
    (hmod : m.modType = some mod) (hset : m.tscSet = some set) (htsc : m.tsc = some tsc)
    (s0 : set = 0) (q0 : 0 ≤ tsc) (q1 : tsc ≤ 7)
    (hn : m.nopeInd = false) (hb : m.burst = some b) (hl : b.length = mod.bl) : m.validate = .ok () := by
  rw [RxMsg.validate_iff]
  refine ⟨.inr hver, ?_, ?_, ?_, ?_, ?_, ?_⟩
  · rw [hfn]; show 0 ≤ fn ∧ fn ≤ 2715647; omega
  · rw [htn]; exact ⟨n0, n1⟩
  · rw [hr]; exact ⟨r0, r1⟩
  · rw [ht]; exact ⟨t0, t1⟩
  · intro h; rw [hver] at h; cases h
  · intro _
    refine ⟨by rw [hc]; exact ⟨c0, c1⟩, ?_⟩
    rw [hn]
    simp only [Bool.false_eq_true, if_false, InRangeMts, hmod, hset, htsc, hb]
    refine ⟨?_, ⟨q0, q1⟩, ?_⟩
    · subst s0; split <;> exact ⟨by decide, by decide⟩
    · show modLen mod.coding = some b.length
      rw [modLen_coding, hl]
end OsmoVerif.World.Codec

namespace OsmoVerif.World
open OsmoVerif

/-! ### `forwardMsg` against the property-level description -/

theorem getElem?_mem {α : Type} (l : List α) (i : Nat) (a : α) (h : l[i]? = some a) : a ∈ l :=
  List.mem_of_getElem? h

theorem recipients_nodup (w : World) (j fn : Nat) : (Spec.recipients w j fn).Nodup :=
  List.Nodup.sublist List.filter_sublist List.nodup_range

theorem recipients_sorted (w : World) (j fn : Nat) :
    (Spec.recipients w j fn).Pairwise (· < ·) :=
  List.Pairwise.filter _ List.pairwise_lt_range

theorem mem_recipients (w : World) (j fn k : Nat) :
    k ∈ Spec.recipients w j fn ↔ k < w.trxs.length ∧ Spec.isRecipient w j fn k = true := by
  simp only [Spec.recipients, List.mem_filter, List.mem_range]

theorem sender_not_recipient (w : World) (j fn : Nat) : j ∉ Spec.recipients w j fn := by
  intro h
  have := ((mem_recipients w j fn j).1 h).2
  simp [Spec.isRecipient] at this

/-- the calls `forwardMsg` makes: exactly one per member of `Spec.recipients`, in list order; the
output is the concatenation of the calls' outputs, each of which is as `CallSpec` demands -/
theorem forwardMsg_calls (w : World) (j : Nat) (s : Trxd.TxMsg) (src : Trx) (fnI : Int)
    (bits : List Nat) (w' : World) (out : List Dgram)
    (hj : w.trxs[j]? = some src) (hfn : s.fn = some fnI) (hb : s.burst = some bits)
    (hbits : ∀ b ∈ bits, b < 256) (hok : Spec.FreqOk w fnI.toNat) (hwf : ∀ t ∈ w.trxs, Spec.DropWF t)
    (h : forwardMsg w j s = .ok (w', out)) :
    ∃ calls : List (Nat × List Dgram),
      calls.map Prod.fst = Spec.recipients w j fnI.toNat ∧
      out = (calls.map Prod.snd).flatten ∧
      ∀ c ∈ calls, ∃ r, w.trxs[c.1]? = some r ∧ CallSpec r src s fnI bits c.2 ∧ OneToPeer r c.2 := by
  rw [forwardMsg_eq w j s src fnI hj hfn hok] at h
  refine handleSeq_calls j (fwdInput src s) w
    (fun k dk => ∃ r, w.trxs[k]? = some r ∧ CallSpec r src s fnI bits dk ∧ OneToPeer r dk) ?_
    _ w (recipients_nodup ..) (sender_not_recipient _ _ _) (fun _ _ => rfl) w' out h
  intro w1 k r rx w2 dk hk1 hj1 hr hrx hh
  have hr0 : w.trxs[k]? = some r := by rw [← hk1]; exact hr
  have hsrc : w1.trxs[j]? = some src := by rw [hj1]; exact hj
  obtain ⟨cs, _⟩ := handleDataMsg_spec w1 k j s r src fnI bits rx w2 dk hr hsrc
    (hwf r (getElem?_mem _ _ _ hr0)) hfn hb hbits hrx hh
  obtain ⟨r', _, hr', _, hone, _⟩ := handleDataMsg_ok _ _ _ _ _ _ _ hh
  rw [hr] at hr'; injection hr' with hr'; subst hr'
  exact ⟨r, hr0, cs, hone⟩

/-- per transceiver: the datagrams of the output that go to its DATA peer are exactly the output
of its own call (none when it is not a recipient) -/
theorem forwardMsg_delivered (w : World) (j : Nat) (s : Trxd.TxMsg) (src : Trx) (fnI : Int)
    (bits : List Nat) (w' : World) (out : List Dgram)
    (hj : w.trxs[j]? = some src) (hfn : s.fn = some fnI) (hb : s.burst = some bits)
    (hbits : ∀ b ∈ bits, b < 256) (hok : Spec.FreqOk w fnI.toNat) (hwf : ∀ t ∈ w.trxs, Spec.DropWF t)
    (hd : Spec.DistinctDataPorts w)
    (h : forwardMsg w j s = .ok (w', out)) (k : Nat) (tk : Trx) (hk : w.trxs[k]? = some tk) :
    (k ∉ Spec.recipients w j fnI.toNat → Spec.deliveredTo tk out = 0) ∧
    (k ∈ Spec.recipients w j fnI.toNat →
      ∃ dk, CallSpec tk src s fnI bits dk ∧ OneToPeer tk dk ∧ Spec.deliveredTo tk out = dk.length ∧
        ∀ d ∈ dk, d ∈ out) := by
  obtain ⟨calls, c1, c2, c3⟩ := forwardMsg_calls w j s src fnI bits w' out hj hfn hb hbits hok hwf h
  obtain ⟨d0, d1⟩ := deliveredTo_calls w hd k tk hk calls
    (fun c hc => by obtain ⟨r, hr, _, hone⟩ := c3 c hc; exact ⟨r, hr, hone⟩)
  rw [← c1]
  refine ⟨fun hn => by rw [c2]; exact d0 hn, fun hm => ?_⟩
  obtain ⟨c, hc, hck⟩ := List.mem_map.1 hm
  obtain ⟨r, hr, hcs, hone⟩ := c3 c hc
  rw [hck, hk] at hr; injection hr with hr; subst hr
  refine ⟨c.2, hcs, hone, ?_, ?_⟩
  · rw [c2]
    exact d1 (by rw [c1]; exact recipients_nodup ..) c.2 (by rw [← hck]; exact hc)
  · intro d hd'
    rw [c2]
    exact List.mem_flatten.2 ⟨c.2, List.mem_map.2 ⟨c, hc, rfl⟩, hd'⟩

/-- `DATAInterface.send_msg`: one datagram iff the message validates -/
theorem dgramsOf_genMsg (r : Trx) (m : Trxd.RxMsg) (l : Bool) :
    (m.validate = .ok () ∧ ∃ b, m.genMsg l = .ok b ∧ dgramsOf r (m.genMsg l) = [dataDgram r b]) ∨
    (m.validate ≠ .ok () ∧ dgramsOf r (m.genMsg l) = []) := by
  cases hv : m.validate with
  | ok u =>
    obtain ⟨b, hb⟩ := Codec.genMsg_ok_of_validate m l hv
    exact .inl ⟨rfl, b, hb, by rw [hb]; rfl⟩
  | error e =>
    refine Or.inr ⟨?_, ?_⟩
    · intro h; cases h
    rw [Codec.genMsg_err_of_validate m l e hv]; rfl

/-! ### the NOPE indication -/

section
open OsmoVerif.Trxd OsmoVerif.Spec.TrxdRanges
/-- octets of a NOPE.ind on a version-1 link: header, RSSI 110, ToA256 0, MTS 0x80, C/I −30 -/
theorem isNope_genMsg (cm : RxMsg) (fn tn : Int) (l : Bool) (h : Spec.IsNope 1 (some fn) (some tn) cm)
    (f0 : 0 ≤ fn) (f1 : fn < 2715648) (t0 : 0 ≤ tn) (t1 : tn ≤ 7) :
    cm.validate = .ok () ∧ cm.genMsg l = .ok (Spec.nopeOctets fn.toNat tn.toNat) := by
  obtain ⟨ver, fn', tn', rssi, toa, mod, nope, set, tsc, ci, burst⟩ := cm
  obtain ⟨h1, h2, h3, h4, h5, h6, h7, h8⟩ := h
  dsimp only at h1 h2 h3 h4 h5 h6 h7 h8
  subst h1 h2 h3 h4 h5 h6 h7 h8
  have hin : InRangeRx ⟨1, some fn, some tn, some (-110), some 0, mod, true, set, tsc, some (-30), none⟩ := by
    refine ⟨.inr rfl, ?_, ?_, ?_, ?_, ?_, ?_⟩
    · show 0 ≤ fn ∧ fn ≤ 2715647; omega
    · exact ⟨t0, t1⟩
    · show (-120 : Int) ≤ -110 ∧ (-110 : Int) ≤ -47; decide
    · show (-32768 : Int) ≤ 0 ∧ (0 : Int) ≤ 32767; decide
    · intro h; cases h
    · intro _
      refine ⟨?_, ?_⟩
      · show (-1280 : Int) ≤ -30 ∧ (-30 : Int) ≤ 1280; decide
      · simp only [if_true]
  refine ⟨(RxMsg.validate_iff _).2 hin, ?_⟩
  obtain ⟨f, hf, hg⟩ := RxMsg.genMsg_layout _ l hin (by intro b hb; cases hb)
  rw [hg]
  have hc : ¬ ¬ ((0 : Int) ≤ 1 ∧ 0 ≤ fn ∧ 0 ≤ tn) := by omega
  simp only [RxMsg.fields?, hc, if_false, if_true, Option.some.injEq] at hf
  subst hf
  simp [Spec.nopeOctets, Spec.TrxdLayout.layoutRx, Spec.TrxdLayout.hdr, Spec.TrxdLayout.be32,
    Spec.TrxdLayout.s16be, Spec.TrxdLayout.mtsOctet, Spec.TrxdLayout.pad]
end

/-! ### a stream of bursts handed to one receiving transceiver (C18) -/

/-- one entry of the stream: sender index, the sender's message, the message `trans()` made of it -/
abbrev Burst := Nat × Trxd.TxMsg × Trxd.RxMsg

/-- `handle_data_msg` of transceiver `k` for every burst of the stream, world threaded; the
result lists the datagrams emitted per burst -/
def handleStream (k : Nat) : World → List Burst → Except Exc (World × List (List Dgram))
  | w, [] => .ok (w, [])
  | w, (j, s, m) :: rest =>
    match handleDataMsg w k j s m with
    | .error e => .error e
    | .ok (w, ds) =>
      match handleStream k w rest with
      | .error e => .error e
      | .ok (w, outs) => .ok (w, ds :: outs)

/-- one burst with the suppression decision prescribed: `true` = the NOPE branch and one drop
consumed, `false` = forwarded normally (completion branch) -/
def planStep (k : Nat) (w : World) (drop : Bool) (b : Burst) : Except Exc (World × List Dgram) :=
  match w.trxs[k]?, w.trxs[b.1]? with
  | some self, some src =>
    if drop then
      match suppressOut self b.2.2 with
      | .ok ds => .ok (decDrop w k, ds)
      | .error e => .error e
    else passOn w self src b.2.1 b.2.2
  | _, _ => .error .indexError

/-- the stream with the decision for every burst prescribed by a plan -/
def planStream (k : Nat) : World → List (Bool × Burst) → Except Exc (World × List (List Dgram))
  | w, [] => .ok (w, [])
  | w, (d, b) :: rest =>
    match planStep k w d b with
    | .error e => .error e
    | .ok (w, ds) =>
      match planStream k w rest with
      | .error e => .error e
      | .ok (w, outs) => .ok (w, ds :: outs)

theorem dropDue_iff (r : Trx) (fn : Int) (n seen : Nat) (h : r.dropAmount = ((n - seen : Nat) : Int)) :
    Spec.dropDue r fn = (decide (r.dropPeriod ∣ fn) && decide (seen < n)) := by
  unfold Spec.dropDue
  have : (0 < r.dropAmount) ↔ seen < n := by omega
  simp only [this, Bool.and_comm]

theorem drop_exact_aux (k : Nat) (n : Nat) (p : Int) (hp : 1 ≤ p) :
    ∀ (stream : List Burst) (fns : List Int) (w : World) (tk : Trx) (seen : Nat),
      w.trxs[k]? = some tk → tk.rfMuted = false → tk.dropPeriod = p →
      tk.dropAmount = ((n - seen : Nat) : Int) →
      (∀ b ∈ stream, b.2.2.nopeInd = false) →
      stream.map (fun b => b.2.2.fn) = fns.map some →
      handleStream k w stream = planStream k w ((Spec.dropPlanFrom n p seen fns).zip stream) := by
  intro stream
  induction stream with
  | nil =>
    intro fns w tk seen _ _ _ _ _ _
    simp only [handleStream, List.zip_nil_right, planStream]
  | cons b rest ih =>
    intro fns w tk seen hk hm hper hamt hnope hfns
    obtain ⟨j, s, m⟩ := b
    cases fns with
    | nil => simp at hfns
    | cons fn fns =>
      simp only [List.map_cons, List.cons.injEq] at hfns
      obtain ⟨hfn, hfns⟩ := hfns
      have hn0 : m.nopeInd = false := hnope _ (List.mem_cons_self ..)
      have hnope' : ∀ b ∈ rest, b.2.2.nopeInd = false := fun b hb => hnope b (List.mem_cons_of_mem _ hb)
      have hwf : Spec.DropWF tk := ⟨by omega, by omega⟩
      cases hj : w.trxs[j]? with
      | none =>
        have e1 : handleDataMsg w k j s m = .error .indexError := by
          rw [handleDataMsg_eq, hk, hj]
        have e2 : ∀ d, planStep k w d (j, s, m) = .error .indexError := by
          intro d; simp only [planStep, hk, hj]
        unfold Spec.dropPlanFrom
        split <;> simp only [handleStream, e1, List.zip_cons_cons, planStream, e2]
      | some src =>
        have hlive := handleDataMsg_live w k j s m tk src fn hk hj hm hn0 hfn hwf
        have hdue := dropDue_iff tk fn n seen hamt
        rw [hper] at hdue
        unfold Spec.dropPlanFrom
        by_cases hdvd : p ∣ fn
        · rw [if_pos hdvd]
          by_cases hlt : seen < n
          · -- a simulated loss
            have hd : Spec.dropDue tk fn = true := by rw [hdue]; simp [hdvd, hlt]
            rw [if_pos hd] at hlive
            have e2 : planStep k w true (j, s, m) =
                (match suppressOut tk m with
                 | .ok ds => .ok (decDrop w k, ds)
                 | .error e => .error e) := by
              simp only [planStep, hk, hj, if_true]
            simp only [handleStream, hlive, hlt, decide_true, List.zip_cons_cons, planStream, e2]
            cases suppressOut tk m with
            | error e => rfl
            | ok ds =>
              dsimp only
              have hk' : (decDrop w k).trxs[k]? = some { tk with dropAmount := tk.dropAmount - 1 } := by
                rw [decDrop_getElem?, if_pos rfl, hk]; rfl
              rw [ih fns (decDrop w k) _ (seen + 1) hk' hm hper (by dsimp only; omega) hnope' hfns]
          · -- the drops are used up
            have hd : ¬ Spec.dropDue tk fn = true := by rw [hdue]; simp [hlt]
            rw [if_neg hd] at hlive
            have e2 : planStep k w false (j, s, m) = passOn w tk src s m := by
              simp only [planStep, hk, hj, Bool.false_eq_true, if_false]
            simp only [handleStream, hlive, hlt, decide_false, List.zip_cons_cons, planStream, e2]
            cases hpo : passOn w tk src s m with
            | error e => rfl
            | ok r =>
              obtain ⟨w1, ds⟩ := r
              dsimp only
              obtain ⟨_, _, hdo, _⟩ := passOn_ok _ _ _ _ _ _ _ hpo
              have hk' : w1.trxs[k]? = some tk := by rw [hdo.trxs]; exact hk
              rw [ih fns w1 tk (seen + 1) hk' hm hper (by omega) hnope' hfns]
        · rw [if_neg hdvd]
          have hd : ¬ Spec.dropDue tk fn = true := by rw [hdue]; simp [hdvd]
          rw [if_neg hd] at hlive
          have e2 : planStep k w false (j, s, m) = passOn w tk src s m := by
            simp only [planStep, hk, hj, Bool.false_eq_true, if_false]
          simp only [handleStream, hlive, List.zip_cons_cons, planStream, e2]
          cases hpo : passOn w tk src s m with
          | error e => rfl
          | ok r =>
            obtain ⟨w1, ds⟩ := r
            dsimp only
            obtain ⟨_, _, hdo, _⟩ := passOn_ok _ _ _ _ _ _ _ hpo
            have hk' : w1.trxs[k]? = some tk := by rw [hdo.trxs]; exact hk
            rw [ih fns w1 tk seen hk' hm hper hamt hnope' hfns]

/-! ### the drop plan (pure list facts about `Spec.dropPlan`) -/

theorem dropPlanFrom_length (n : Nat) (p : Int) : ∀ (fns : List Int) (seen : Nat),
    (Spec.dropPlanFrom n p seen fns).length = fns.length := by
  intro fns
  induction fns with
  | nil => intro _; rfl
  | cons fn fns ih =>
    intro seen
    unfold Spec.dropPlanFrom
    split <;> simp only [List.length_cons, ih]

/-- burst `i` is suppressed iff its frame number is a multiple of the period and fewer than `n`
earlier bursts of the stream were (counting `seen` from before the stream) -/
theorem dropPlanFrom_getElem (n : Nat) (p : Int) : ∀ (fns : List Int) (seen i : Nat),
    (Spec.dropPlanFrom n p seen fns)[i]? = some true ↔
      ∃ fn, fns[i]? = some fn ∧ p ∣ fn ∧ seen + (fns.take i).countP (fun f => decide (p ∣ f)) < n := by
  intro fns
  induction fns with
  | nil => intro seen i; simp [Spec.dropPlanFrom]
  | cons fn fns ih =>
    intro seen i
    unfold Spec.dropPlanFrom
    cases i with
    | zero =>
      by_cases hd : p ∣ fn
      · simp [hd]
      · simp [hd]
    | succ i =>
      by_cases hd : p ∣ fn
      · simp only [hd, if_true, List.getElem?_cons_succ, ih, List.take_succ_cons, List.countP_cons,
          decide_true]
        constructor
        · rintro ⟨f, h1, h2, h3⟩; exact ⟨f, h1, h2, by omega⟩
        · rintro ⟨f, h1, h2, h3⟩; exact ⟨f, h1, h2, by omega⟩
      · simp only [hd, if_false, List.getElem?_cons_succ, ih, List.take_succ_cons, List.countP_cons,
          decide_false, Bool.false_eq_true, Nat.add_zero]

/-- number of suppressed bursts: `n`, or all multiples of the period if there are fewer -/
theorem dropPlanFrom_count (n : Nat) (p : Int) : ∀ (fns : List Int) (seen : Nat),
    (Spec.dropPlanFrom n p seen fns).count true =
      min (n - seen) (fns.countP (fun f => decide (p ∣ f))) := by
  intro fns
  induction fns with
  | nil => intro seen; simp [Spec.dropPlanFrom]
  | cons fn fns ih =>
    intro seen
    unfold Spec.dropPlanFrom
    by_cases hd : p ∣ fn
    · by_cases hlt : seen < n
      · simp only [hd, if_true, hlt, decide_true, List.count_cons_self, ih, List.countP_cons]
        omega
      · simp only [hd, if_true, hlt, decide_false, List.countP_cons, decide_true]
        rw [List.count_cons_of_ne (by decide), ih]
        omega
    · simp only [hd, if_false, List.countP_cons, decide_false]
      rw [List.count_cons_of_ne (by decide), ih]
      simp

/-! ### effect of a planned stream on the drop counter -/

theorem planStream_counter (k : Nat) : ∀ (plan : List (Bool × Burst)) (w : World) (tk : Trx)
    (w' : World) (outs : List (List Dgram)), w.trxs[k]? = some tk →
    planStream k w plan = .ok (w', outs) →
    w'.trxs[k]? = some { tk with dropAmount := tk.dropAmount - ((plan.map Prod.fst).count true : Nat) } ∧
    outs.length = plan.length := by
  intro plan
  induction plan with
  | nil =>
    intro w tk w' outs hk h
    simp only [planStream] at h
    injection h with h; injection h with h1 h2
    subst h1; subst h2
    simp [hk]
  | cons x plan ih =>
    intro w tk w' outs hk h
    obtain ⟨d, j, s, m⟩ := x
    simp only [planStream] at h
    split at h
    · cases h
    · rename_i w1 ds hstep
      split at h
      · cases h
      · rename_i w2 outs' hrest
        injection h with h; injection h with h1 h2
        subst h1; subst h2
        simp only [planStep, hk] at hstep
        split at hstep
        · rename_i src hj
          cases d with
          | true =>
            simp only [if_true] at hstep
            split at hstep
            · injection hstep with hstep; injection hstep with h1 h2
              subst h1
              have hk' : (decDrop w k).trxs[k]? = some { tk with dropAmount := tk.dropAmount - 1 } := by
                rw [decDrop_getElem?, if_pos rfl, hk]; rfl
              obtain ⟨a, b⟩ := ih _ _ _ _ hk' hrest
              refine ⟨?_, by simp only [List.length_cons, b]⟩
              rw [a]
              simp only [List.map_cons, List.count_cons_self]
              congr 2
              omega
            · cases hstep
          | false =>
            simp only [Bool.false_eq_true, if_false] at hstep
            obtain ⟨_, _, hdo, _⟩ := passOn_ok _ _ _ _ _ _ _ hstep
            have hk' : w1.trxs[k]? = some tk := by rw [hdo.trxs]; exact hk
            obtain ⟨a, b⟩ := ih _ _ _ _ hk' hrest
            refine ⟨?_, by simp only [List.length_cons, b]⟩
            rw [a]
            simp only [List.map_cons]
            rw [List.count_cons_of_ne (by decide)]
        · cases hstep

section
open OsmoVerif.PyStr

/-! ### mute (C18) -/

/-- while the receiver is muted every burst of a stream takes the NOPE branch and the world
(in particular the drop counter) is untouched -/
theorem handleStream_muted (k : Nat) (tk : Trx) (hm : tk.rfMuted = true) :
    ∀ (stream : List Burst) (w w' : World) (outs : List (List Dgram)), w.trxs[k]? = some tk →
      handleStream k w stream = .ok (w', outs) →
      w' = w ∧ outs.length = stream.length ∧
      ∀ x ∈ outs.zip stream, suppressOut tk x.2.2.2 = .ok x.1 := by
  intro stream
  induction stream with
  | nil =>
    intro w w' outs _ h
    simp only [handleStream] at h
    injection h with h; injection h with h1 h2
    subst h1; subst h2
    exact ⟨rfl, rfl, fun x hx => by cases hx⟩
  | cons b rest ih =>
    intro w w' outs hk h
    obtain ⟨j, s, m⟩ := b
    simp only [handleStream] at h
    split at h
    · cases h
    · rename_i w1 ds hh
      split at h
      · cases h
      · rename_i w2 outs' hrest
        injection h with h; injection h with h1 h2
        subst h1; subst h2
        obtain ⟨self, src, hk', hj, _, _⟩ := handleDataMsg_ok _ _ _ _ _ _ _ hh
        rw [hk] at hk'; injection hk' with hk'; subst hk'
        rw [handleDataMsg_muted w k j s m tk src hk hj (.inl hm)] at hh
        split at hh
        · rename_i ds' hs
          injection hh with hh; injection hh with h1 h2
          subst h1; subst h2
          obtain ⟨a, b, c⟩ := ih _ _ _ hk hrest
          refine ⟨a, by simp only [List.length_cons, b], ?_⟩
          intro x hx
          simp only [List.zip_cons_cons, List.mem_cons] at hx
          rcases hx with hx | hx
          · rw [hx]; exact hs
          · exact c x hx
        · cases hh

/-- a muted sender: the forwarder strips the burst, every recipient's call takes the NOPE branch
and the world is untouched -/
theorem handleSeq_noburst (j : Nat) (m : Trxd.TxMsg) (hm : m.burst = none) :
    ∀ (ks : List Nat) (w w' : World) (out : List Dgram),
      handleSeq j m w ks = .ok (w', out) → w' = w := by
  intro ks
  induction ks with
  | nil =>
    intro w w' out h
    simp only [handleSeq] at h
    injection h with h; injection h with h1 _
    exact h1.symm
  | cons k ks ih =>
    intro w w' out h
    simp only [handleSeq] at h
    split at h
    · cases h
    · rename_i r hr
      rw [trans_noburst m _ hm] at h
      dsimp only at h
      split at h
      · cases h
      · rename_i w1 ds hh
        obtain ⟨self, src, hk', hj, _, _⟩ := handleDataMsg_ok _ _ _ _ _ _ _ hh
        rw [handleDataMsg_muted w k j m _ self src hk' hj (.inr rfl)] at hh
        split at hh
        · injection hh with hh; injection hh with h1 _
          subst h1
          split at h
          · cases h
          · rename_i w2 ds' hrest
            injection h with h; injection h with h1 _
            subst h1
            exact ih _ _ _ hrest
        · cases hh

theorem forwardMsg_muted_sender (w : World) (j : Nat) (s : Trxd.TxMsg) (src : Trx) (fnI : Int)
    (w' : World) (out : List Dgram) (hj : w.trxs[j]? = some src) (hfn : s.fn = some fnI)
    (hok : Spec.FreqOk w fnI.toNat) (hm : src.rfMuted = true)
    (h : forwardMsg w j s = .ok (w', out)) : w' = w := by
  rw [forwardMsg_eq w j s src fnI hj hfn hok] at h
  have : fwdInput src s = { s with burst := none } := by simp only [fwdInput, hm, if_true]
  rw [this] at h
  exact handleSeq_noburst j _ rfl _ _ _ _ h

/-! ### FAKE_DROP / RFMUTE argument handling (C18) -/

theorem verify_other (cmd : String) (a : List Str) (argc : Nat) (va : Bool)
    (h : (lit "FAKE_DROP" != lit cmd) = true) : verifyCmd (lit "FAKE_DROP" :: a) cmd argc va = false := by
  simp only [verifyCmd, h, if_true]

theorem ctrl_fake_drop1 (a : Str) (n : Int) (ha : toInt a = .ok n) :
    ctrlCmdHandler [lit "FAKE_DROP", a] =
      if n < 0 then .ok (none, some (-1)) else .ok (some (.drop n 1), some 0) := by
  have e1 : verifyCmd [lit "FAKE_DROP", a] "SETTA" 1 = false := verify_other _ _ _ _ (by decide)
  have e2 : verifyCmd [lit "FAKE_DROP", a] "FAKE_TOA" 2 = false := verify_other _ _ _ _ (by decide)
  have e3 : verifyCmd [lit "FAKE_DROP", a] "FAKE_TOA" 1 = false := verify_other _ _ _ _ (by decide)
  have e4 : verifyCmd [lit "FAKE_DROP", a] "FAKE_RSSI" 2 = false := verify_other _ _ _ _ (by decide)
  have e5 : verifyCmd [lit "FAKE_DROP", a] "FAKE_RSSI" 1 = false := verify_other _ _ _ _ (by decide)
  have e6 : verifyCmd [lit "FAKE_DROP", a] "FAKE_CI" 2 = false := verify_other _ _ _ _ (by decide)
  have e7 : verifyCmd [lit "FAKE_DROP", a] "FAKE_CI" 1 = false := verify_other _ _ _ _ (by decide)
  have e8 : verifyCmd [lit "FAKE_DROP", a] "FAKE_DROP" 1 = true := by
    simp [verifyCmd]
  unfold ctrlCmdHandler
  simp only [e1, e2, e3, e4, e5, e6, e7, e8, Bool.false_eq_true, if_false, if_true, arg,
    List.getElem?_cons_succ, List.getElem?_cons_zero, bind, Except.bind, ha]
  split <;> rfl

theorem ctrl_fake_drop2 (a b : Str) (n p : Int) (ha : toInt a = .ok n) (hb : toInt b = .ok p) :
    ctrlCmdHandler [lit "FAKE_DROP", a, b] =
      if n < 0 then .ok (none, some (-1))
      else if p ≤ 0 then .ok (none, some (-1))
      else .ok (some (.drop n p), some 0) := by
  have e1 : verifyCmd [lit "FAKE_DROP", a, b] "SETTA" 1 = false := verify_other _ _ _ _ (by decide)
  have e2 : verifyCmd [lit "FAKE_DROP", a, b] "FAKE_TOA" 2 = false := verify_other _ _ _ _ (by decide)
  have e3 : verifyCmd [lit "FAKE_DROP", a, b] "FAKE_TOA" 1 = false := verify_other _ _ _ _ (by decide)
  have e4 : verifyCmd [lit "FAKE_DROP", a, b] "FAKE_RSSI" 2 = false := verify_other _ _ _ _ (by decide)
  have e5 : verifyCmd [lit "FAKE_DROP", a, b] "FAKE_RSSI" 1 = false := verify_other _ _ _ _ (by decide)
  have e6 : verifyCmd [lit "FAKE_DROP", a, b] "FAKE_CI" 2 = false := verify_other _ _ _ _ (by decide)
  have e7 : verifyCmd [lit "FAKE_DROP", a, b] "FAKE_CI" 1 = false := verify_other _ _ _ _ (by decide)
  have e8 : verifyCmd [lit "FAKE_DROP", a, b] "FAKE_DROP" 1 = false := by
    simp [verifyCmd]
  have e9 : verifyCmd [lit "FAKE_DROP", a, b] "FAKE_DROP" 2 = true := by
    simp [verifyCmd]
  unfold ctrlCmdHandler
  simp only [e1, e2, e3, e4, e5, e6, e7, e8, e9, Bool.false_eq_true, if_false, if_true, arg,
    List.getElem?_cons_succ, List.getElem?_cons_zero, bind, Except.bind, ha, hb]
  split
  · rfl
  · split <;> rfl

/-- a FAKE_DROP argument that is not a number: `int()` raises ValueError before any assignment -/
theorem ctrl_fake_drop1_nan (a : Str) (ha : toInt a = .error .valueError) :
    ctrlCmdHandler [lit "FAKE_DROP", a] = .error .valueError := by
  have e1 : verifyCmd [lit "FAKE_DROP", a] "SETTA" 1 = false := verify_other _ _ _ _ (by decide)
  have e2 : verifyCmd [lit "FAKE_DROP", a] "FAKE_TOA" 2 = false := verify_other _ _ _ _ (by decide)
  have e3 : verifyCmd [lit "FAKE_DROP", a] "FAKE_TOA" 1 = false := verify_other _ _ _ _ (by decide)
  have e4 : verifyCmd [lit "FAKE_DROP", a] "FAKE_RSSI" 2 = false := verify_other _ _ _ _ (by decide)
  have e5 : verifyCmd [lit "FAKE_DROP", a] "FAKE_RSSI" 1 = false := verify_other _ _ _ _ (by decide)
  have e6 : verifyCmd [lit "FAKE_DROP", a] "FAKE_CI" 2 = false := verify_other _ _ _ _ (by decide)
  have e7 : verifyCmd [lit "FAKE_DROP", a] "FAKE_CI" 1 = false := verify_other _ _ _ _ (by decide)
  have e8 : verifyCmd [lit "FAKE_DROP", a] "FAKE_DROP" 1 = true := by
    simp [verifyCmd]
  unfold ctrlCmdHandler
  simp only [e1, e2, e3, e4, e5, e6, e7, e8, Bool.false_eq_true, if_false, if_true, arg,
    List.getElem?_cons_succ, List.getElem?_cons_zero, bind, Except.bind, ha]

theorem verify_other_mute (cmd : String) (a : List Str) (argc : Nat) (va : Bool)
    (h : (lit "RFMUTE" != lit cmd) = true) : verifyCmd (lit "RFMUTE" :: a) cmd argc va = false := by
  simp only [verifyCmd, h, if_true]

theorem ctrl_rfmute (a : Str) : ctrlCmdHandler [lit "RFMUTE", a] = .ok (none, none) := by
  have e1 : verifyCmd [lit "RFMUTE", a] "SETTA" 1 = false := verify_other_mute _ _ _ _ (by decide)
  have e2 : verifyCmd [lit "RFMUTE", a] "FAKE_TOA" 2 = false := verify_other_mute _ _ _ _ (by decide)
  have e3 : verifyCmd [lit "RFMUTE", a] "FAKE_TOA" 1 = false := verify_other_mute _ _ _ _ (by decide)
  have e4 : verifyCmd [lit "RFMUTE", a] "FAKE_RSSI" 2 = false := verify_other_mute _ _ _ _ (by decide)
  have e5 : verifyCmd [lit "RFMUTE", a] "FAKE_RSSI" 1 = false := verify_other_mute _ _ _ _ (by decide)
  have e6 : verifyCmd [lit "RFMUTE", a] "FAKE_CI" 2 = false := verify_other_mute _ _ _ _ (by decide)
  have e7 : verifyCmd [lit "RFMUTE", a] "FAKE_CI" 1 = false := verify_other_mute _ _ _ _ (by decide)
  have e8 : verifyCmd [lit "RFMUTE", a] "FAKE_DROP" 1 = false := verify_other_mute _ _ _ _ (by decide)
  have e9 : verifyCmd [lit "RFMUTE", a] "FAKE_DROP" 2 = false := verify_other_mute _ _ _ _ (by decide)
  have e10 : verifyCmd [lit "RFMUTE", a] "FAKE_TRXC_DELAY" 1 = false := verify_other_mute _ _ _ _ (by decide)
  unfold ctrlCmdHandler
  simp only [e1, e2, e3, e4, e5, e6, e7, e8, e9, e10, Bool.false_eq_true, if_false]
  rfl

theorem common_rfmute (trx : Trx) (a : Str) (v : Int) (ha : toInt a = .ok v) :
    commonCmd trx [lit "RFMUTE", a] = .ok (.patch (.mute (decide (v > 0))) 0) := by
  have e1 : verifyCmd [lit "RFMUTE", a] "POWERON" 0 = false := verify_other_mute _ _ _ _ (by decide)
  have e2 : verifyCmd [lit "RFMUTE", a] "POWEROFF" 0 = false := verify_other_mute _ _ _ _ (by decide)
  have e3 : verifyCmd [lit "RFMUTE", a] "RXTUNE" 1 = false := verify_other_mute _ _ _ _ (by decide)
  have e4 : verifyCmd [lit "RFMUTE", a] "TXTUNE" 1 = false := verify_other_mute _ _ _ _ (by decide)
  have e5 : verifyCmd [lit "RFMUTE", a] "MEASURE" 1 = false := verify_other_mute _ _ _ _ (by decide)
  have e6 : verifyCmd [lit "RFMUTE", a] "SETFH" 4 true = false := verify_other_mute _ _ _ _ (by decide)
  have e7 : verifyCmd [lit "RFMUTE", a] "SETFORMAT" 1 = false := verify_other_mute _ _ _ _ (by decide)
  have e8 : verifyCmd [lit "RFMUTE", a] "SETPOWER" 1 = false := verify_other_mute _ _ _ _ (by decide)
  have e9 : verifyCmd [lit "RFMUTE", a] "NOMTXPOWER" 0 = false := verify_other_mute _ _ _ _ (by decide)
  have e10 : verifyCmd [lit "RFMUTE", a] "RFMUTE" 1 = true := by simp [verifyCmd]
  unfold commonCmd
  simp only [e1, e2, e3, e4, e5, e6, e7, e8, e9, e10, Bool.false_eq_true, if_false, if_true, arg,
    List.getElem?_cons_succ, List.getElem?_cons_zero, bind, Except.bind, ha]
  rfl

/-- `CMD RFMUTE v` sets `rf_muted := (v > 0)` of the addressed transceiver, status 0 -/
theorem parse_rfmute (w : World) (i : Nat) (t : Trx) (a : Str) (v : Int) (hi : w.trxs[i]? = some t)
    (ha : toInt a = .ok v) :
    parseCmd w i [lit "RFMUTE", a] =
      .ok (setTrx w i (fun t => { t with rfMuted := decide (v > 0) }), (0, [])) := by
  unfold parseCmd
  simp only [ctrl_rfmute, bind, Except.bind, hi, common_rfmute t a v ha, applyAction, pure, Except.pure]
  rfl

/-- `CMD FAKE_DROP n`: rejected (status −1, world unchanged) when `n < 0`, else exactly
`burst_drop_amount := n, burst_drop_period := 1` -/
theorem parse_fake_drop1 (w : World) (i : Nat) (a : Str) (n : Int) (ha : toInt a = .ok n) :
    parseCmd w i [lit "FAKE_DROP", a] =
      if n < 0 then .ok (w, (-1, []))
      else .ok (setTrx w i (fun t => { t with dropAmount := n, dropPeriod := 1 }), (0, [])) := by
  unfold parseCmd
  rw [ctrl_fake_drop1 a n ha]
  split <;> rfl

theorem parse_fake_drop2 (w : World) (i : Nat) (a b : Str) (n p : Int) (ha : toInt a = .ok n)
    (hb : toInt b = .ok p) :
    parseCmd w i [lit "FAKE_DROP", a, b] =
      if n < 0 ∨ p ≤ 0 then .ok (w, (-1, []))
      else .ok (setTrx w i (fun t => { t with dropAmount := n, dropPeriod := p }), (0, [])) := by
  unfold parseCmd
  rw [ctrl_fake_drop2 a b n p ha hb]
  by_cases h1 : n < 0
  · simp only [h1, if_true, true_or]; rfl
  · by_cases h2 : p ≤ 0
    · simp only [h1, h2, if_true, if_false, or_true]; rfl
    · simp only [h1, h2, if_false, or_self]; rfl
end

/-! ### training sequence detection (C10) -/

abbrev TsEntry := String × Nat × String × List Nat × Nat

/-- the matching predicate of `TrainingSeqGMSK.pick` -/
def tsMatch (burst : List Nat) (e : TsEntry) : Bool :=
  (e.2.2.1 == "NORMAL" && e.2.2.2.1 == sliceFrom burst (3 + 57 + 1) 26) ||
  (e.2.2.1 == "ACCESS" && e.2.2.2.1 == sliceFrom burst 8 41) ||
  (e.2.2.1 == "SYNC" && e.2.2.2.1 == sliceFrom burst (3 + 39) 64)

theorem trainSeqPick_eq (burst : List Nat) :
    trainSeqPick burst = (Gen.World.trainSeqs.find? (tsMatch burst)).map (fun e => (e.2.1, e.2.2.2.2)) := by
  unfold trainSeqPick
  have : (fun (x : TsEntry) => match x with
      | (_, _, bt, seq, _) =>
        (bt == "NORMAL" && seq == sliceFrom burst (3 + 57 + 1) 26) ||
        (bt == "ACCESS" && seq == sliceFrom burst 8 41) ||
        (bt == "SYNC" && seq == sliceFrom burst (3 + 39) 64)) = tsMatch burst := by
    funext x; obtain ⟨a, b, c, d, e⟩ := x; rfl
  simp only [this]
  cases Gen.World.trainSeqs.find? (tsMatch burst) with
  | none => rfl
  | some e => obtain ⟨a, b, c, d, f⟩ := e; rfl

theorem tsMatch_iff (burst : List Nat) (e : TsEntry) : tsMatch burst e = true ↔ Spec.presentAt e burst := by
  obtain ⟨nm, tsc, bt, seq, set⟩ := e
  unfold tsMatch Spec.presentAt Spec.tsPos sliceFrom
  simp only [Bool.or_eq_true, Bool.and_eq_true, beq_iff_eq]
  by_cases h1 : bt = "NORMAL"
  · subst h1
    simp only [if_true, true_and]
    have a : ¬ ("NORMAL" = "ACCESS") := by decide
    have b : ¬ ("NORMAL" = "SYNC") := by decide
    simp only [a, b, false_and, or_false]
    exact eq_comm
  · by_cases h2 : bt = "SYNC"
    · subst h2
      have a : ¬ ("SYNC" = "ACCESS") := by decide
      have b : ¬ ("SYNC" = "NORMAL") := by decide
      simp only [a, b, false_and, false_or, if_false, if_true, true_and]
      exact eq_comm
    · by_cases h3 : bt = "ACCESS"
      · subst h3
        have a : ¬ ("ACCESS" = "SYNC") := by decide
        have b : ¬ ("ACCESS" = "NORMAL") := by decide
        simp only [a, b, false_and, false_or, or_false, if_false, if_true, true_and]
        exact eq_comm
      · simp only [h1, h2, h3, false_and, or_self, if_false]

/-- whatever `pick` returns is a table sequence that is present at its position in the burst -/
theorem trainSeqPick_present (burst : List Nat) (t s : Nat) (h : trainSeqPick burst = some (t, s)) :
    ∃ e ∈ Gen.World.trainSeqs, e.2.1 = t ∧ e.2.2.2.2 = s ∧ Spec.presentAt e burst := by
  rw [trainSeqPick_eq] at h
  cases hf : Gen.World.trainSeqs.find? (tsMatch burst) with
  | none => rw [hf] at h; cases h
  | some e =>
    rw [hf] at h
    simp only [Option.map_some, Option.some.injEq, Prod.mk.injEq] at h
    exact ⟨e, List.mem_of_find?_eq_some hf, h.1, h.2, (tsMatch_iff burst e).1 (List.find?_some hf)⟩

/-- if a table sequence is present at its position, `pick` finds one (the first in enumeration
order); if it is the only one present, exactly that one -/
theorem trainSeqPick_of_present (burst : List Nat) (e : TsEntry) (he : e ∈ Gen.World.trainSeqs)
    (hp : Spec.presentAt e burst) :
    (∃ e' ∈ Gen.World.trainSeqs, Spec.presentAt e' burst ∧ trainSeqPick burst = some (e'.2.1, e'.2.2.2.2)) ∧
    ((∀ e' ∈ Gen.World.trainSeqs, Spec.presentAt e' burst → e' = e) →
      trainSeqPick burst = some (e.2.1, e.2.2.2.2)) := by
  have hsome : (Gen.World.trainSeqs.find? (tsMatch burst)).isSome := by
    rw [List.find?_isSome]
    exact ⟨e, he, (tsMatch_iff burst e).2 hp⟩
  obtain ⟨e', he'⟩ := Option.isSome_iff_exists.1 hsome
  have hm := List.mem_of_find?_eq_some he'
  have hp' := (tsMatch_iff burst e').1 (List.find?_some he')
  have hr : trainSeqPick burst = some (e'.2.1, e'.2.2.2.2) := by rw [trainSeqPick_eq, he']; rfl
  refine ⟨⟨e', hm, hp', hr⟩, fun hu => ?_⟩
  rw [hr, hu e' hm hp']

theorem slice_mid (a seq b : List Nat) : ((a ++ seq ++ b).drop a.length).take seq.length = seq := by
  rw [List.append_assoc, List.drop_left, List.take_left]

/-- lengths of the table sequences per burst type -/
theorem seq_lengths : ∀ e ∈ Gen.World.trainSeqs,
    (e.2.2.1 = "NORMAL" → e.2.2.2.1.length = 26) ∧ (e.2.2.1 = "SYNC" → e.2.2.2.1.length = 64) ∧
    (e.2.2.1 = "ACCESS" → e.2.2.2.1.length = 41) := by decide +kernel

theorem nb_present (e : TsEntry) (he : e ∈ Gen.World.trainSeqs) (hbt : e.2.2.1 = "NORMAL")
    (d1 : List Nat) (s1 s2 : Nat) (d2 : List Nat) (hd1 : d1.length = 57) :
    Spec.presentAt e (Spec.nbLayout d1 s1 e.2.2.2.1 s2 d2) := by
  have hl := (seq_lengths e he).1 hbt
  unfold Spec.presentAt
  rw [hbt]
  have : Spec.tsPos "NORMAL" = some (61, 26) := by decide
  rw [this]
  dsimp only
  have h := slice_mid ([0, 0, 0] ++ d1 ++ [s1]) e.2.2.2.1 ([s2] ++ d2 ++ [0, 0, 0])
  have hlen : ([0, 0, 0] ++ d1 ++ [s1]).length = 61 := by simp [hd1]
  rw [hlen, hl] at h
  refine Eq.trans ?_ h
  simp only [Spec.nbLayout, List.append_assoc]

theorem sb_present (e : TsEntry) (he : e ∈ Gen.World.trainSeqs) (hbt : e.2.2.1 = "SYNC")
    (d1 d2 : List Nat) (hd1 : d1.length = 39) :
    Spec.presentAt e (Spec.sbLayout d1 e.2.2.2.1 d2) := by
  have hl := (seq_lengths e he).2.1 hbt
  unfold Spec.presentAt
  rw [hbt]
  have : Spec.tsPos "SYNC" = some (42, 64) := by decide
  rw [this]
  dsimp only
  have h := slice_mid ([0, 0, 0] ++ d1) e.2.2.2.1 (d2 ++ [0, 0, 0])
  have hlen : ([0, 0, 0] ++ d1).length = 42 := by simp [hd1]
  rw [hlen, hl] at h
  refine Eq.trans ?_ h
  simp only [Spec.sbLayout, List.append_assoc]

theorem ab_present (e : TsEntry) (he : e ∈ Gen.World.trainSeqs) (hbt : e.2.2.1 = "ACCESS")
    (d : List Nat) : Spec.presentAt e (Spec.abLayout e.2.2.2.1 d) := by
  have hl := (seq_lengths e he).2.2 hbt
  unfold Spec.presentAt
  rw [hbt]
  have : Spec.tsPos "ACCESS" = some (8, 41) := by decide
  rw [this]
  dsimp only
  have h := slice_mid (List.replicate 8 0) e.2.2.2.1 (d ++ [0, 0, 0] ++ List.replicate 60 0)
  have hlen : (List.replicate 8 (0 : Nat)).length = 8 := by simp
  rw [hlen, hl] at h
  refine Eq.trans ?_ h
  simp only [Spec.abLayout, List.append_assoc]
/-! ### modulation by burst length, table facts (C10) -/

/-- `Modulation.pick_by_bl`: the FIRST enum member with that burst length -/
theorem pickByBl_first (b : Int) (mod : Trxd.Modulation) (h : Trxd.Modulation.pickByBl b = some mod) :
    (mod.bl : Int) = b ∧ ∀ m' : Trxd.Modulation, m'.val < mod.val → (m'.bl : Int) ≠ b := by
  unfold Trxd.Modulation.pickByBl at h
  obtain ⟨hp, as, bs, hl, hbefore⟩ := List.find?_eq_some_iff_append.1 h
  refine ⟨by simpa using hp, fun m' hlt => ?_⟩
  have hm' : m' ∈ as := by
    have hall : m' ∈ Trxd.Modulation.all := List.mem_finRange m'
    rw [hl] at hall
    rcases List.mem_append.1 hall with h1 | h1
    · exact h1
    · exfalso
      -- `all` is strictly increasing, so everything from `mod` on is ≥ mod
      have hsorted : (Trxd.Modulation.all).Pairwise (· < ·) := by decide
      rw [hl] at hsorted
      have := (List.pairwise_append.1 hsorted).2.1
      rcases List.mem_cons.1 h1 with h2 | h2
      · rw [h2] at hlt; exact Nat.lt_irrefl _ hlt
      · have := (List.pairwise_cons.1 this).1 m' h2
        exact Nat.lt_irrefl _ (Nat.lt_trans hlt this)
  simpa using hbefore m' hm'

theorem pickByBl_none (b : Int) (h : Trxd.Modulation.pickByBl b = none) :
    ∀ m : Trxd.Modulation, (m.bl : Int) ≠ b := by
  unfold Trxd.Modulation.pickByBl at h
  intro m
  have := List.find?_eq_none.1 h m (List.mem_finRange m)
  simpa using this

/-- 148 symbols: GMSK; 444: 8-PSK -/
theorem pickByBl_values :
    Trxd.Modulation.pickByBl 148 = some Trxd.Modulation.gmsk ∧
    (Trxd.Modulation.pickByBl 148).map Trxd.Modulation.name = some "ModGMSK" ∧
    (Trxd.Modulation.pickByBl 444).map Trxd.Modulation.name = some "Mod8PSK" := by decide

/-- the generated sequences of one burst type are pairwise distinct, and so are their TSCs:
(TSC, TSC set) identifies the sequence within its burst type -/
theorem trainSeqs_distinct :
    Gen.World.trainSeqs.Pairwise (fun a b => a.2.2.1 = b.2.2.1 →
      a.2.2.2.1 ≠ b.2.2.2.1 ∧ (a.2.1, a.2.2.2.2) ≠ (b.2.1, b.2.2.2.2)) := by decide +kernel

/-- every table entry is of one of the three burst types, has a TSC in 0..7 and TSC set 0 -/
theorem trainSeqs_ranges : ∀ e ∈ Gen.World.trainSeqs,
    (e.2.2.1 = "NORMAL" ∨ e.2.2.1 = "SYNC" ∨ e.2.2.1 = "ACCESS") ∧ e.2.1 ≤ 7 ∧ e.2.2.2.2 = 0 := by
  decide +kernel
/-! ### hypotheses of one forwarding call, bundled -/

/-- recipient `k` (= `r`) of world `w` is handed the burst `s` (frame `fn`, octets `bits`) of sender
`j` (= `src`) by the forwarder — `rx` is `rx_msg.trans(ver = r's header version)` of the message
the forwarder hands on — and the call returns normally with world `w'` and datagrams `dk` -/
structure FwdCall (w : World) (k j : Nat) (s : Trxd.TxMsg) (r src : Trx) (fn : Int)
    (bits : List Nat) (rx : Trxd.RxMsg) (w' : World) (dk : List Dgram) : Prop where
  hk : w.trxs[k]? = some r
  hj : w.trxs[j]? = some src
  hwf : Spec.DropWF r
  hfn : s.fn = some fn
  hb : s.burst = some bits
  hbits : ∀ b ∈ bits, b < 256
  hrx : (fwdInput src s).trans (some r.hdrVer) = .ok rx
  h : handleDataMsg w k j (fwdInput src s) rx = .ok (w', dk)

theorem FwdCall.spec {w : World} {k j : Nat} {s : Trxd.TxMsg} {r src : Trx} {fn : Int}
    {bits : List Nat} {rx : Trxd.RxMsg} {w' : World} {dk : List Dgram}
    (c : FwdCall w k j s r src fn bits rx w' dk) :
    CallSpec r src s fn bits dk ∧ CallWorld w k r src fn w' := by
  obtain ⟨hk, hj, hwf, hfn, hb, hbits, hrx, h⟩ := c
  exact handleDataMsg_spec w k j s r src fn bits rx w' dk hk hj hwf hfn hb hbits hrx h

/-! ### validation of the forwarded message, exact routing -/

theorem tscOf_range (mod : Option Trxd.Modulation) (bits : List Nat) :
    (tscOf mod bits).2 = 0 ∧ 0 ≤ (tscOf mod bits).1 ∧ (tscOf mod bits).1 ≤ 7 := by
  unfold tscOf
  split
  · cases h : trainSeqPick bits with
    | none => exact ⟨rfl, by decide, by decide⟩
    | some p =>
      obtain ⟨t, s⟩ := p
      obtain ⟨e, he, h1, h2, _⟩ := trainSeqPick_present bits t s h
      obtain ⟨_, h3, h4⟩ := trainSeqs_ranges e he
      dsimp only
      rw [← h1, ← h2, h4]
      exact ⟨rfl, by omega, by omega⟩
  · exact ⟨rfl, by decide, by decide⟩

/-- a forwarded message whose simulated metadata stay inside the protocol ranges validates -/
theorem fwdMeta_validate (src r : Trx) (fn tn : Int) (pwr : Option Int) (bits : List Nat)
    (cm : Trxd.RxMsg) (hm : Spec.FwdMeta src r (some fn) (some tn) pwr bits cm)
    (hv1 : V1Meta r bits cm) (hok : Spec.RadioOk src r pwr bits.length)
    (f0 : 0 ≤ fn) (f1 : fn < 2715648) (n0 : 0 ≤ tn) (n1 : tn ≤ 7) : cm.validate = .ok () := by
  obtain ⟨hver, hlen, hr0, hr1, ht0, ht1, hci⟩ := hok
  obtain ⟨v, hv, hva, hvb⟩ := hm.rssi_ok
  obtain ⟨d, hd, hd0, hd1⟩ := hm.toa_ok
  have hvr : -120 ≤ v ∧ v ≤ -47 := by
    cases hf : r.fakeRssi with
    | false =>
      obtain ⟨a, ha, hv'⟩ := hva hf
      have h01 := hr0 hf
      rw [ha] at h01
      dsimp only at h01
      omega
    | true =>
      have := hvb hf
      have := hr1 hf
      omega
  have hbl : (bits.map Spec.softOf).length = bits.length := List.length_map _
  rcases hver with h0 | h1
  · exact Codec.validate_v0 cm fn tn v (d - 256 * src.ta) _ (by rw [hm.ver_eq, h0]) hm.fn_eq hm.tn_eq
      f0 f1 n0 n1 hv hd hvr.1 hvr.2 (by omega) (by omega) hm.bits_eq (by rw [hbl]; exact hlen)
  · obtain ⟨c, hc, c0, c1⟩ := hm.ci_ok (by omega)
    obtain ⟨m1, m2, m3⟩ := hv1 (by omega)
    obtain ⟨q0, q1, q2⟩ := tscOf_range (Trxd.Modulation.pickByBl bits.length) bits
    have hci' := hci h1
    obtain ⟨mod, hmod⟩ : ∃ mod, Trxd.Modulation.pickByBl bits.length = some mod := by
      rcases hlen with h | h
      · rw [h]; exact ⟨_, pickByBl_values.1⟩
      · rw [h]; exact ⟨⟨1, by decide⟩, by decide⟩
    have hmbl : (mod.bl : Int) = bits.length := (pickByBl_first _ _ hmod).1
    exact Codec.validate_v1 cm fn tn v (d - 256 * src.ta) c _ _ mod _ (by rw [hm.ver_eq, h1])
      hm.fn_eq hm.tn_eq f0 f1 n0 n1 hv hd hvr.1 hvr.2 (by omega) (by omega) hc (by omega) (by omega)
      (by rw [m1, hmod]) m3 m2 q0 q1 q2 hm.nope_eq hm.bits_eq (by rw [hbl]; exact_mod_cast hmbl.symm)

/-- C02 in one equation: with all simulated metadata inside the protocol ranges, transceiver `k`
gets exactly one datagram iff it is a recipient — except that a suppressed burst (C18) yields
nothing on a version-0 link (and one NOPE.ind on a version-1 link) -/
theorem forwardMsg_exact (w : World) (j : Nat) (s : Trxd.TxMsg) (src : Trx) (fnI tn : Int)
    (bits : List Nat) (w' : World) (out : List Dgram)
    (hj : w.trxs[j]? = some src) (hfn : s.fn = some fnI) (htn : s.tn = some tn)
    (hb : s.burst = some bits) (hbits : ∀ b ∈ bits, b < 256) (hok : Spec.FreqOk w fnI.toNat)
    (hwf : ∀ t ∈ w.trxs, Spec.DropWF t) (hd : Spec.DistinctDataPorts w)
    (f0 : 0 ≤ fnI) (f1 : fnI < 2715648) (n0 : 0 ≤ tn) (n1 : tn ≤ 7)
    (hradio : ∀ k ∈ Spec.recipients w j fnI.toNat, ∀ r, w.trxs[k]? = some r →
      Spec.RadioOk src r s.pwr bits.length)
    (h : forwardMsg w j s = .ok (w', out)) (k : Nat) (tk : Trx) (hk : w.trxs[k]? = some tk) :
    Spec.deliveredTo tk out =
      if k ∈ Spec.recipients w j fnI.toNat ∧ ¬ (Spec.suppressed src tk fnI = true ∧ tk.hdrVer = 0)
      then 1 else 0 := by
  obtain ⟨h0, h1⟩ := forwardMsg_delivered w j s src fnI bits w' out hj hfn hb hbits hok hwf hd h k tk hk
  by_cases hm : k ∈ Spec.recipients w j fnI.toNat
  · obtain ⟨dk, hcs, _, hlen, _⟩ := h1 hm
    have hr := hradio k hm tk hk
    rw [hlen]
    cases hs : Spec.suppressed src tk fnI with
    | true =>
      rcases hr.1 with hv | hv
      · rw [hcs.supp_v0 hs (by omega), if_neg (fun h => h.2 ⟨rfl, hv⟩)]; rfl
      · obtain ⟨cm, hn, hdk⟩ := hcs.supp_v1 hs (by omega)
        rw [hv, hfn, htn] at hn
        rw [hdk, (isNope_genMsg cm fnI tn false hn f0 f1 n0 n1).2,
          if_pos ⟨hm, fun h => by rw [hv] at h; exact absurd h.2 (by decide)⟩]
        rfl
    | false =>
      obtain ⟨cm, hmeta, hv1, hdk⟩ := hcs.fwd hs
      rw [hfn, htn] at hmeta
      have hval := fwdMeta_validate src tk fnI tn s.pwr bits cm hmeta hv1 hr f0 f1 n0 n1
      rcases dgramsOf_genMsg tk cm true with ⟨_, b, _, e⟩ | ⟨hne, _⟩
      · rw [hdk, e, if_pos ⟨hm, fun h => by cases h.1⟩]; rfl
      · exact absurd hval hne
  · rw [h0 hm, if_neg (fun h => hm h.1)]

/-! ### the forwarding step returns normally (no exception reaches the clock thread) -/

theorem genMsg_err_valueError (m : Trxd.RxMsg) (l : Bool) (e : Trxd.Exc) (h : m.genMsg l = .error e) :
    e = .valueError := by
  cases hv : m.validate with
  | ok u =>
    obtain ⟨b, hb⟩ := Codec.genMsg_ok_of_validate m l hv
    rw [hb] at h; cases h
  | error e' =>
    rw [Codec.genMsg_err_of_validate m l e' hv] at h
    injection h with h
    rw [← h]; exact Codec.validate_err m e' hv

/-- `DATAInterface.send_msg` never raises: `gen_msg` can only fail with the ValueError it catches -/
theorem sendMsg_total (t : Trx) (m : Trxd.RxMsg) (l : Bool) : ∃ ds, sendMsg t m l = .ok ds := by
  rw [sendMsg_eq]
  cases h : m.genMsg l with
  | ok b => exact ⟨_, rfl⟩
  | error e =>
    have := genMsg_err_valueError m l e h
    subst this
    exact ⟨_, rfl⟩

theorem suppressOut_total (t : Trx) (m : Trxd.RxMsg) : ∃ ds, suppressOut t m = .ok ds := by
  unfold suppressOut
  split
  · exact ⟨_, rfl⟩
  · exact sendMsg_total _ _ _

theorem passOn_total (w : World) (r src : Trx) (s : Trxd.TxMsg) (m : Trxd.RxMsg) (bits : List Nat)
    (pwr : Int) (hthr : Spec.ThrNonneg r) (hp : s.pwr = some pwr) (hb : s.burst = some bits) :
    ∃ w' ds, passOn w r src s m = .ok (w', ds) := by
  unfold passOn
  obtain ⟨toa, w1, h1⟩ := randAround_total w r.toaBase r.toaThr hthr.1
  rw [h1]
  dsimp only
  obtain ⟨rssi, w2, h2⟩ : ∃ v w2, rssiOf w1 r src s = .ok (v, w2) := by
    unfold rssiOf
    split
    · rw [hp]; exact ⟨_, _, rfl⟩
    · exact randAround_total _ _ _ hthr.2.1
  rw [h2]
  dsimp only
  obtain ⟨m2, w3, h3⟩ : ∃ m2 w3, v1Fields w2 r s m.ver
      { m with nopeInd := false, toa256 := some toa, rssi := some rssi } = .ok (m2, w3) := by
    unfold v1Fields
    split
    · obtain ⟨ci, w3, h3⟩ := randAround_total w2 r.ciBase r.ciThr hthr.2.2
      rw [h3, hb]
      exact ⟨_, _, rfl⟩
    · exact ⟨_, _, rfl⟩
  rw [h3]
  dsimp only
  obtain ⟨ds, h4⟩ := sendMsg_total r (applyTa src toa m2) true
  rw [h4]
  exact ⟨_, _, rfl⟩

theorem handleDataMsg_total (w : World) (k j : Nat) (s : Trxd.TxMsg) (r src : Trx) (fn pwr : Int)
    (bits : List Nat) (rx : Trxd.RxMsg)
    (hk : w.trxs[k]? = some r) (hj : w.trxs[j]? = some src) (hwf : Spec.DropWF r)
    (hthr : Spec.ThrNonneg r) (hfn : s.fn = some fn) (hp : s.pwr = some pwr) (hb : s.burst = some bits)
    (hbits : ∀ b ∈ bits, b < 256) (hrx : (fwdInput src s).trans (some r.hdrVer) = .ok rx) :
    ∃ w' dk, handleDataMsg w k j (fwdInput src s) rx = .ok (w', dk) := by
  by_cases hsm : src.rfMuted = true
  · have hin : fwdInput src s = { s with burst := none } := by simp only [fwdInput, hsm, if_true]
    rw [hin] at hrx ⊢
    rw [trans_noburst _ _ rfl] at hrx
    injection hrx with hrx
    have hnope : rx.nopeInd = true := by rw [← hrx]
    rw [handleDataMsg_muted w k j _ rx r src hk hj (.inr hnope)]
    obtain ⟨ds, hs⟩ := suppressOut_total r rx
    rw [hs]; exact ⟨_, _, rfl⟩
  · have hsm' : src.rfMuted = false := by simpa using hsm
    have hin : fwdInput src s = s := by simp only [fwdInput, hsm', Bool.false_eq_true, if_false]
    rw [hin] at hrx ⊢
    rw [trans_burst s _ bits hb hbits] at hrx
    injection hrx with hrx
    have hnope : rx.nopeInd = false := by rw [← hrx]; exact fresh_nope
    have hfn' : rx.fn = some fn := by rw [← hrx]; exact hfn
    obtain ⟨ds, hs⟩ := suppressOut_total r rx
    by_cases hrm : r.rfMuted = true
    · rw [handleDataMsg_muted w k j _ rx r src hk hj (.inl hrm), hs]; exact ⟨_, _, rfl⟩
    · have hrm' : r.rfMuted = false := by simpa using hrm
      rw [handleDataMsg_live w k j _ rx r src fn hk hj hrm' hnope hfn' hwf]
      split
      · rw [hs]; exact ⟨_, _, rfl⟩
      · exact passOn_total w r src s rx bits pwr hthr hp hb

theorem handleSeq_total (j : Nat) (m : Trxd.TxMsg) (w0 : World) (ks0 : List Nat)
    (step : ∀ (w : World) (k : Nat), k ∈ ks0 → w.trxs[k]? = w0.trxs[k]? → w.trxs[j]? = w0.trxs[j]? →
      ∃ r rx w' dk, w.trxs[k]? = some r ∧ m.trans (some r.hdrVer) = .ok rx ∧
        handleDataMsg w k j m rx = .ok (w', dk)) :
    ∀ (ks : List Nat) (w : World), (∀ k ∈ ks, k ∈ ks0) → ks.Nodup → j ∉ ks →
      (∀ i, i ∈ ks ∨ i = j → w.trxs[i]? = w0.trxs[i]?) →
      ∃ w' out, handleSeq j m w ks = .ok (w', out) := by
  intro ks
  induction ks with
  | nil => intro w _ _ _ _; exact ⟨_, _, rfl⟩
  | cons k ks ih =>
    intro w hsub hnd hj hsame
    rw [List.nodup_cons] at hnd
    obtain ⟨r, rx, w1, dk, hr, hrx, hh⟩ := step w k (hsub k (List.mem_cons_self ..))
      (hsame k (.inl (List.mem_cons_self ..))) (hsame j (.inr rfl))
    have hkj : k ≠ j := fun e => hj (by rw [← e]; exact List.mem_cons_self ..)
    have hsame' : ∀ i, i ∈ ks ∨ i = j → w1.trxs[i]? = w0.trxs[i]? := by
      intro i hi
      have hik : i ≠ k := by
        rcases hi with hi | hi
        · exact fun e => hnd.1 (by rw [← e]; exact hi)
        · rw [hi]; exact fun e => hkj e.symm
      rw [handleDataMsg_others _ _ _ _ _ _ _ hh i hik]
      exact hsame i (hi.elim (fun h => .inl (List.mem_cons_of_mem _ h)) .inr)
    obtain ⟨w2, out, hrest⟩ := ih w1 (fun k' h => hsub k' (List.mem_cons_of_mem _ h)) hnd.2
      (fun h => hj (List.mem_cons_of_mem _ h)) hsame'
    simp only [handleSeq, hr, hrx, hh, hrest]
    exact ⟨_, _, rfl⟩

/-- with well-formed simulation parameters (as the TRXC handlers establish them) and a message
that carries an attenuation and burst octets, the forwarding step cannot raise -/
theorem forwardMsg_total (w : World) (j : Nat) (s : Trxd.TxMsg) (src : Trx) (fnI pwr : Int)
    (bits : List Nat) (hj : w.trxs[j]? = some src) (hfn : s.fn = some fnI) (hp : s.pwr = some pwr)
    (hb : s.burst = some bits) (hbits : ∀ b ∈ bits, b < 256) (hok : Spec.FreqOk w fnI.toNat)
    (hwf : ∀ t ∈ w.trxs, Spec.DropWF t) (hthr : ∀ t ∈ w.trxs, Spec.ThrNonneg t) :
    ∃ w' out, forwardMsg w j s = .ok (w', out) := by
  rw [forwardMsg_eq w j s src fnI hj hfn hok]
  refine handleSeq_total j (fwdInput src s) w (Spec.recipients w j fnI.toNat) ?_ _ w
    (fun _ h => h) (recipients_nodup ..) (sender_not_recipient _ _ _) (fun _ _ => rfl)
  intro w1 k hk hk1 hj1
  have hkl := ((mem_recipients w j fnI.toNat k).1 hk).1
  have hr0 : w.trxs[k]? = some w.trxs[k] := List.getElem?_eq_getElem hkl
  have hr : w1.trxs[k]? = some w.trxs[k] := by rw [hk1]; exact hr0
  have hmem := getElem?_mem _ _ _ hr0
  obtain ⟨rx, hrx⟩ : ∃ rx, (fwdInput src s).trans (some (w.trxs[k]).hdrVer) = .ok rx := by
    unfold fwdInput
    split
    · exact ⟨_, trans_noburst _ _ rfl⟩
    · exact ⟨_, trans_burst s _ bits hb hbits⟩
  obtain ⟨w2, dk, hh⟩ := handleDataMsg_total w1 k j s w.trxs[k] src fnI pwr bits rx hr
    (by rw [hj1]; exact hj) (hwf _ hmem) (hthr _ hmem) hfn hp hb hbits hrx
  exact ⟨_, rx, w2, dk, hr, hrx, hh⟩

/-! ### the TRXC handlers establish the well-formedness hypotheses -/

section
open OsmoVerif.PyStr

/-- the well-formedness hypotheses of the burst-path theorems -/
def SimWF (t : Trx) : Prop := Spec.DropWF t ∧ Spec.ThrNonneg t

theorem simWF_default (addr port idx : Nat) (mgt clk : Bool) :
    SimWF { addr := addr, basePort := port, childIdx := idx, childMgt := mgt, hasClock := clk } := by
  simp only [SimWF, Spec.DropWF, Spec.ThrNonneg]
  decide

/-- every assignment the custom TRXC handler makes keeps them -/
theorem ctrlCmdHandler_simWF (req : List Str) (p : Patch) (rc : Option Int) (t : Trx)
    (h : ctrlCmdHandler req = .ok (some p, rc)) (hwf : SimWF t) : SimWF (p.apply t) := by
  obtain ⟨⟨d0, d1⟩, t0, t1, t2⟩ := hwf
  unfold ctrlCmdHandler at h
  simp only [bind, Except.bind, pure, Except.pure] at h
  by_cases c0 : verifyCmd req "SETTA" 1 = true
  · rw [if_pos c0] at h
    repeat' split at h
    all_goals cases h
    all_goals (simp only [SimWF, Spec.DropWF, Spec.ThrNonneg, Patch.apply]; omega)
  rw [if_neg c0] at h
  by_cases c1 : verifyCmd req "FAKE_TOA" 2 = true
  · rw [if_pos c1] at h
    repeat' split at h
    all_goals cases h
    all_goals (simp only [SimWF, Spec.DropWF, Spec.ThrNonneg, Patch.apply]; omega)
  rw [if_neg c1] at h
  by_cases c2 : verifyCmd req "FAKE_TOA" 1 = true
  · rw [if_pos c2] at h
    repeat' split at h
    all_goals cases h
    all_goals (simp only [SimWF, Spec.DropWF, Spec.ThrNonneg, Patch.apply]; omega)
  rw [if_neg c2] at h
  by_cases c3 : verifyCmd req "FAKE_RSSI" 2 = true
  · rw [if_pos c3] at h
    repeat' split at h
    all_goals cases h
    · simp only [SimWF, Spec.DropWF, Spec.ThrNonneg, Patch.apply]; omega
    · rename_i a1 v1 e1 _ thr e2 hthr _ a2 e3 _ base e4 _ a3 e5 _ thr2 e6
      injection e5 with e5; subst e5
      rw [e2] at e6; injection e6 with e6; subst e6
      simp only [SimWF, Spec.DropWF, Spec.ThrNonneg, Patch.apply]; omega
  rw [if_neg c3] at h
  by_cases c4 : verifyCmd req "FAKE_RSSI" 1 = true
  · rw [if_pos c4] at h
    repeat' split at h
    all_goals cases h
    all_goals (simp only [SimWF, Spec.DropWF, Spec.ThrNonneg, Patch.apply]; omega)
  rw [if_neg c4] at h
  by_cases c5 : verifyCmd req "FAKE_CI" 2 = true
  · rw [if_pos c5] at h
    repeat' split at h
    all_goals cases h
    all_goals (simp only [SimWF, Spec.DropWF, Spec.ThrNonneg, Patch.apply]; omega)
  rw [if_neg c5] at h
  by_cases c6 : verifyCmd req "FAKE_CI" 1 = true
  · rw [if_pos c6] at h
    repeat' split at h
    all_goals cases h
    all_goals (simp only [SimWF, Spec.DropWF, Spec.ThrNonneg, Patch.apply]; omega)
  rw [if_neg c6] at h
  by_cases c7 : verifyCmd req "FAKE_DROP" 1 = true
  · rw [if_pos c7] at h
    repeat' split at h
    all_goals cases h
    all_goals (simp only [SimWF, Spec.DropWF, Spec.ThrNonneg, Patch.apply]; omega)
  rw [if_neg c7] at h
  by_cases c8 : verifyCmd req "FAKE_DROP" 2 = true
  · rw [if_pos c8] at h
    repeat' split at h
    all_goals cases h
    all_goals (simp only [SimWF, Spec.DropWF, Spec.ThrNonneg, Patch.apply]; omega)
  rw [if_neg c8] at h
  by_cases c9 : verifyCmd req "FAKE_TRXC_DELAY" 1 = true
  · rw [if_pos c9] at h
    repeat' split at h
    all_goals cases h
    all_goals (simp only [SimWF, Spec.DropWF, Spec.ThrNonneg, Patch.apply]; omega)
  rw [if_neg c9] at h
  cases h
end

/-! ### DATA ports of a built world -/

/-- (remote address, DATA port) of a transceiver -/
def portKey (t : Trx) : Nat × Nat := (t.addr, t.basePort + 2 * t.childIdx + 2)

theorem map_modify_of_inv {α β : Type} (g : α → β) (f : α → α) (hf : ∀ x, g (f x) = g x)
    (l : List α) (i : Nat) : (l.modify i f).map g = l.map g := by
  apply List.ext_getElem?
  intro k
  simp only [List.getElem?_map, List.getElem?_modify]
  cases l[k]? with
  | none => rfl
  | some x =>
    simp only [Option.map_some]
    split <;> simp [hf]

theorem appendTrx_keys {ts ts' : List Trx} {a p c : Nat} {m : Bool}
    (h : appendTrx ts a p c m = .ok ts') : ts'.map portKey = ts.map portKey ++ [Spec.defKey (a, p, c)] := by
  obtain ⟨_, _, rfl⟩ := WorldPower.appendTrx_ok h
  simp only [List.map_append, List.map_cons, List.map_nil, portKey, Spec.defKey]

theorem appendChildTrx_keys {ts ts' : List Trx} {a p c : Nat}
    (h : appendChildTrx ts a p c = .ok ts') : ts'.map portKey = ts.map portKey ++ [Spec.defKey (a, p, c)] := by
  unfold appendChildTrx at h
  split at h
  · rename_i hc
    subst hc
    exact appendTrx_keys h
  · split at h
    · cases h
    · split at h
      · cases h
      · cases h
        rw [map_modify_of_inv portKey (fun t => { t with children := t.children ++ [ts.length] }) (fun x => rfl)]
        simp only [List.map_append, List.map_cons, List.map_nil, portKey, Spec.defKey]

theorem foldlM_keys {extra : List (Nat × Nat × Nat)} {ts ts' : List Trx}
    (h : extra.foldlM (fun ts (x : Nat × Nat × Nat) => appendChildTrx ts x.1 x.2.1 x.2.2) ts = .ok ts') :
    ts'.map portKey = ts.map portKey ++ extra.map Spec.defKey := by
  induction extra generalizing ts with
  | nil =>
    simp only [List.foldlM_nil, pure, Except.pure, Except.ok.injEq] at h
    subst h; simp
  | cons x xs ih =>
    simp only [List.foldlM_cons, bind, Except.bind] at h
    split at h
    · cases h
    next ts1 h1 =>
      rw [ih h, appendChildTrx_keys h1]
      simp only [List.map_cons, List.append_assoc, List.cons_append, List.nil_append]

/-- the (address, DATA port) pairs of a built world are those of BTS, MS and the `--trx`
definitions, in order -/
theorem build_keys {seed : Nat} {extra : List (Nat × Nat × Nat)} {w : World}
    (h : build seed extra = .ok w) :
    w.trxs.map portKey = ([(addrBts, btsPort, 0), (addrBb, bbPort, 0)] ++ extra).map Spec.defKey := by
  unfold build at h
  simp only [bind, Except.bind, pure, Except.pure] at h
  split at h
  · cases h
  next ts0 h0 =>
    split at h
    · cases h
    next ts1 h1 =>
      split at h
      · cases h
      next ts2 h2 =>
        cases h
        rw [foldlM_keys h2, appendTrx_keys h1, appendTrx_keys h0]
        simp only [List.map_nil, List.nil_append, List.map_cons, List.cons_append]

theorem build_distinctDataPorts {seed : Nat} {extra : List (Nat × Nat × Nat)} {w : World}
    (h : build seed extra = .ok w) (hno : Spec.NoPortOverlap extra) : Spec.DistinctDataPorts w := by
  unfold Spec.DistinctDataPorts
  have := build_keys h
  unfold portKey at this
  rw [this]
  exact hno

/-! ### `FreqOk` for hopping parameters built by `HoppingParams.__init__` -/

/-- `resolve` never raises on an object built by `__init__` (C07 `py_resolve_total`, re-derived here
from `Lemmas/Hopping.lean` to keep `Lemmas` independent of `Props`) -/
theorem resolve_total (hsn maio : Int) (ma : List (Int × Int)) (hp : Hopping.HoppingParams (Int × Int))
    (h : Hopping.pyInit hsn maio ma = .ok hp) (fn : Nat) : ∃ v, hp.resolve fn = .ok v := by
  obtain ⟨hn, h0, h64, e1, e2, e3, _⟩ := Hopping.pyInit_inv hsn maio ma hp h
  obtain ⟨k, hk⟩ := Int.eq_ofNat_of_zero_le h0
  subst hk
  obtain ⟨hsn', maio', ma', pnm⟩ := hp
  simp only at e1 e2 e3
  subst e1 e2 e3
  obtain ⟨v, _, hv⟩ := Hopping.py_resolve_total_aux k maio' ma' pnm fn (by omega) hn (by decide)
  exact ⟨v, hv⟩

/-- in a world whose hopping parameters all come from `HoppingParams.__init__`, every
transceiver's receive and transmit frequency resolve in every frame -/
theorem freqOk_of_sane (w : World) (h : Spec.FhSane w) (fn : Nat) : Spec.FreqOk w fn := by
  intro k hk
  have hk' : w.trxs[k]? = some w.trxs[k] := List.getElem?_eq_getElem hk
  have hm := getElem?_mem _ _ _ hk'
  unfold Spec.rxFreqAt Spec.txFreqAt
  rw [hk']
  dsimp only
  unfold Hopping.Trx.getRxFreq Hopping.Trx.getTxFreq Trx.hop
  dsimp only
  cases hf : (w.trxs[k]).fh with
  | none => exact ⟨rfl, rfl⟩
  | some hp =>
    obtain ⟨hsn, maio, ma, hi⟩ := h _ hm hp hf
    obtain ⟨v, hv⟩ := resolve_total hsn maio ma hp hi fn
    simp only [hv]
    exact ⟨rfl, rfl⟩
section
open OsmoVerif.PyStr
/-- the only hopping parameters a TRXC command installs are results of `HoppingParams.__init__` -/
theorem commonCmd_fh (trx : Trx) (req : List Str) (hp : Hopping.HoppingParams (Int × Int)) (rc : Int)
    (h : commonCmd trx req = .ok (.patch (.fh hp) rc)) :
    ∃ hsn maio ma, Hopping.pyInit hsn maio ma = .ok hp := by
  unfold commonCmd at h
  simp only [bind, Except.bind, pure, Except.pure] at h
  by_cases c0 : verifyCmd req "POWERON" 0 = true
  · rw [if_pos c0] at h
    repeat' split at h
    all_goals cases h
  rw [if_neg c0] at h
  by_cases c1 : verifyCmd req "POWEROFF" 0 = true
  · rw [if_pos c1] at h
    repeat' split at h
    all_goals cases h
  rw [if_neg c1] at h
  by_cases c2 : verifyCmd req "RXTUNE" 1 = true
  · rw [if_pos c2] at h
    repeat' split at h
    all_goals cases h
  rw [if_neg c2] at h
  by_cases c3 : verifyCmd req "TXTUNE" 1 = true
  · rw [if_pos c3] at h
    repeat' split at h
    all_goals cases h
  rw [if_neg c3] at h
  by_cases c4 : verifyCmd req "MEASURE" 1 = true
  · rw [if_pos c4] at h
    repeat' split at h
    all_goals cases h
  rw [if_neg c4] at h
  by_cases c5 : verifyCmd req "SETFH" 4 true = true
  · rw [if_pos c5] at h
    repeat' split at h
    all_goals cases h
    all_goals exact ⟨_, _, _, by assumption⟩
  rw [if_neg c5] at h
  by_cases c6 : verifyCmd req "SETFORMAT" 1 = true
  · rw [if_pos c6] at h
    repeat' split at h
    all_goals cases h
  rw [if_neg c6] at h
  by_cases c7 : verifyCmd req "SETPOWER" 1 = true
  · rw [if_pos c7] at h
    repeat' split at h
    all_goals cases h
  rw [if_neg c7] at h
  by_cases c8 : verifyCmd req "NOMTXPOWER" 0 = true
  · rw [if_pos c8] at h
    repeat' split at h
    all_goals cases h
  rw [if_neg c8] at h
  by_cases c9 : verifyCmd req "RFMUTE" 1 = true
  · rw [if_pos c9] at h
    repeat' split at h
    all_goals cases h
  rw [if_neg c9] at h
  cases h
end

end OsmoVerif.World

/-! ### concrete worlds for the non-vacuity examples of Props/C02, C10, C18 -/

namespace OsmoVerif.World.Examples
open OsmoVerif OsmoVerif.World

/-- BTS-side transceiver, powered on, tuned -/
def bts : Trx := { addr := 1, basePort := 5700, childIdx := 0, childMgt := true, hasClock := true,
                   running := true, rxFreq := some 890000000, txFreq := some 935000000 }
/-- MS-side transceiver tuned to the BTS, TRXDv1 -/
def ms : Trx := { addr := 2, basePort := 6700, childIdx := 0, childMgt := false, hasClock := true,
                  running := true, rxFreq := some 935000000, txFreq := some 890000000, hdrVer := 1 }
/-- a second MS, tuned like the first but powered off -/
def msIdle : Trx := { ms with basePort := 7700, running := false }
/-- a third MS, powered on but listening elsewhere -/
def msDetuned : Trx := { ms with basePort := 8700, rxFreq := some 936000000 }
/-- a fourth MS: tuned, running, version 0, two simulated burst losses pending on even frames -/
def msDrop : Trx := { ms with basePort := 9700, hdrVer := 0, dropAmount := 2, dropPeriod := 2 }
/-- a fifth MS: tuned, running, version 1, muted, FAKE_RSSI / FAKE_TOA / FAKE_CI windows -/
def msMuted : Trx := { ms with basePort := 10700, rfMuted := true }
def msFake : Trx := { ms with basePort := 11700, fakeRssi := true, rssiBase := -80, rssiThr := 5,
                              toaBase := 100, toaThr := 20, ciBase := 100, ciThr := 10 }

def world : World := { trxs := [bts, ms, msIdle, msDetuned, msDrop, msMuted, msFake], seed := 7 }

def nbBits : List Nat :=
  Spec.nbLayout (List.replicate 57 1) 0 [0,1,0,0,0,1,1,1,1,0,1,1,0,1,0,0,0,1,0,0,0,1,1,1,1,0] 1
    (List.replicate 57 0)
def burst (fn : Int) : Trxd.TxMsg :=
  { ver := 0, fn := some fn, tn := some 2, pwr := some 10, burst := some nbBits }

def outOf (r : Except Exc (World × List Dgram)) : List Dgram :=
  match r with | .ok (_, out) => out | .error _ => []

def hop2 : Option (Hopping.HoppingParams (Int × Int)) :=
  match Hopping.pyInit 5 0 [(890000000, 935000000), (891000000, 936000000)] with
  | .ok hp => some hp
  | .error _ => none
def btsHop : Trx := { bts with fh := hop2 }
def worldHop : World := { trxs := [btsHop, ms, msDetuned] }


theorem exists_of_isOk {ε α : Type} (x : Except ε α) (h : x.isOk = true) : ∃ v, x = .ok v := by
  cases x with
  | ok v => exact ⟨v, rfl⟩
  | error e => cases h

/-- frame numbers of a stream of five bursts from the BTS -/
def streamFns : List Int := [51, 52, 54, 55, 56]

/-- what `trans(ver = 0)` makes of the example burst -/
def rxOf (fn : Int) : Trxd.RxMsg :=
  { Trxd.RxMsg.fresh with fn := some fn, tn := some 2, ver := 0, burst := some (nbBits.map Spec.softOf) }

/-- the stream handed to `msDrop` (transceiver 4) -/
def stream : List Burst := streamFns.map (fun fn => (0, burst fn, rxOf fn))

end OsmoVerif.World.Examples
