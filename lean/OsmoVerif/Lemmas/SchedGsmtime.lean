/- C08, gsmtime part: lemmas about the model of sched_gsmtime.c (`Model/SchedGsmtime.lean`):
the pool/list invariant, what `sched_gsmtime_execute` fires as a pure function of the active list, the state of
sched_gsmtime.c as a function of the history alone (it never reads the TDMA scheduler). -/
import OsmoVerif.Model.SchedGsmtime
import OsmoVerif.Lemmas.TdmaSched

set_option linter.unusedVariables false

namespace OsmoVerif.SchedGsmtime
open OsmoVerif
open OsmoVerif.TdmaSched (Item Sched Fault Env u16)

/-! ### constants of the current tree -/

theorem nEvents : Gen.sgNumEvents = 16 := by decide
theorem frameOffset_eq : frameOffset = 1 := by decide
theorem eBusy_eq : eBusy = -16 := by decide

theorem maxFn_eq : Gen.sgGsmMaxFn = 2715648 := by decide

/-- the frame number `sched_gsmtime_execute(fn)` compares the events with: `fn_sched`, the 32-bit sum
`fn + SCHEDULE_AHEAD` reduced modulo `GSM_MAX_FN` -/
def target (fn : Nat) : Nat := (fn % 4294967296 + 2) % 4294967296 % 2715648

theorem aheadOf_u32 (fn : Nat) : aheadOf (u32 fn) = .ok (target fn) := by
  simp only [aheadOf, maxFn_eq, u32i, u32, Gen.sgScheduleAhead, target]
  have h : ¬ (2715648 = 0) := by decide
  simp only [h, if_false, Except.ok.injEq]
  omega

/-- inside the hyperframe the target is `fn + 2` reduced modulo `GSM_MAX_FN` -/
theorem target_mod (fn : Nat) (h : fn < 2715648) : target fn = (fn + 2) % 2715648 := by
  simp only [target]; omega

theorem target_lt (fn : Nat) : target fn < 2715648 := by
  simp only [target]; omega

/-! ### the pool / list invariant -/

/-- which array elements a list links -/
def slots (l : List Event) : List Nat := l.map (·.slot)

/-- `active_evts` is ordered by frame number -/
def Sorted (l : List Event) : Prop := l.Pairwise (fun a b => a.fn ≤ b.fn)

instance (l : List Event) : Decidable (Sorted l) := by unfold Sorted; infer_instance

/-- every element of `sched_gsmtime_events[16]` is in exactly one of the two lists, and `active_evts` is
sorted by `fn` (non-decreasing) -/
def GInv (g : GState) : Prop :=
  (slots (g.active ++ g.inactive)).Perm (List.range 16) ∧ Sorted g.active

instance (g : GState) : Decidable (GInv g) := by unfold GInv; infer_instance

theorem init_inv : GInv init := by decide

theorem GInv.length {g : GState} (h : GInv g) : g.active.length + g.inactive.length = 16 := by
  have := h.1.length_eq
  simpa [slots] using this

theorem GInv.nodup {g : GState} (h : GInv g) : (slots (g.active ++ g.inactive)).Nodup :=
  h.1.nodup_iff.mpr List.nodup_range

theorem GInv.nodup_active {g : GState} (h : GInv g) : (slots g.active).Nodup := by
  have := h.nodup
  simp only [slots, List.map_append] at this
  exact (List.nodup_append.mp this).1

/-- two linked events with the same slot are the same event -/
theorem eq_of_slot {l : List Event} (hn : (slots l).Nodup) {a b : Event} (ha : a ∈ l) (hb : b ∈ l)
    (h : a.slot = b.slot) : a = b := by
  induction l with
  | nil => simp at ha
  | cons c l ih =>
    simp only [slots, List.map_cons, List.nodup_cons] at hn
    simp only [List.mem_cons] at ha hb
    rcases ha with rfl | ha <;> rcases hb with rfl | hb
    · rfl
    · exact absurd (List.mem_map.mpr ⟨b, hb, h.symm⟩) hn.1
    · exact absurd (List.mem_map.mpr ⟨a, ha, h⟩) hn.1
    · exact ih hn.2 ha hb

/-! ### sorted insert -/

theorem insertSorted_perm (evt : Event) : ∀ l, (insertSorted evt l).Perm (evt :: l)
  | [] => List.Perm.refl _
  | cur :: rest => by
    simp only [insertSorted]
    split
    · exact List.Perm.refl _
    · exact ((insertSorted_perm evt rest).cons cur).trans (List.Perm.swap _ _ _)

theorem mem_insertSorted {evt e : Event} {l : List Event} : e ∈ insertSorted evt l ↔ e = evt ∨ e ∈ l := by
  rw [(insertSorted_perm evt l).mem_iff]; simp

theorem insertSorted_sorted (evt : Event) : ∀ l, Sorted l → Sorted (insertSorted evt l)
  | [], _ => by simp [insertSorted, Sorted]
  | cur :: rest, h => by
    simp only [Sorted, List.pairwise_cons] at h
    simp only [insertSorted]
    split
    · rename_i hgt
      simp only [Sorted, List.pairwise_cons, List.mem_cons]
      refine ⟨?_, h.1, h.2⟩
      intro b hb
      rcases hb with rfl | hb
      · omega
      · have := h.1 b hb; omega
    · rename_i hle
      simp only [Sorted, List.pairwise_cons]
      refine ⟨?_, insertSorted_sorted evt rest h.2⟩
      intro b hb
      rcases mem_insertSorted.mp hb with rfl | hb
      · omega
      · exact h.1 b hb

/-- the events for one frame keep their order of acceptance: a new event goes behind the ones with the
same `fn` -/
theorem filter_insertSorted (evt : Event) (t : Nat) : ∀ l, Sorted l →
    (insertSorted evt l).filter (fun e => e.fn = t) =
      l.filter (fun e => e.fn = t) ++ (if evt.fn = t then [evt] else [])
  | [], _ => by simp only [insertSorted, List.filter_cons, List.filter_nil, List.nil_append]; split <;> simp_all
  | cur :: rest, h => by
    simp only [Sorted, List.pairwise_cons] at h
    simp only [insertSorted]
    split
    · rename_i hgt
      -- nothing from `cur` on is for frame `evt.fn`
      by_cases ht : evt.fn = t
      · have hnone : (cur :: rest).filter (fun e => e.fn = t) = [] := by
          rw [List.filter_eq_nil_iff]
          intro b hb
          simp only [List.mem_cons] at hb
          rcases hb with rfl | hb
          · simp; omega
          · have := h.1 b hb; simp; omega
        rw [List.filter_cons, hnone]
        simp [ht]
      · rw [List.filter_cons]
        simp [ht]
    · rw [List.filter_cons, List.filter_cons (x := cur), filter_insertSorted evt t rest h.2]
      split <;> simp

theorem filter_ne_insertSorted_perm (evt : Event) (l : List Event) (p : Event → Bool) :
    ((insertSorted evt l).filter p).Perm ((evt :: l).filter p) :=
  (insertSorted_perm evt l).filter p

/-! ### `sched_gsmtime` -/

theorem sched_busy (g : GState) (si : List Item) (fn p3 : Nat) (h : g.inactive = []) :
    sched g si fn p3 = (g, eBusy) := by
  simp only [sched, h]

theorem sched_ok (g : GState) (si : List Item) (fn p3 : Nat) (lh : Event) (rest : List Event)
    (h : g.inactive = lh :: rest) :
    sched g si fn p3 = (⟨insertSorted ⟨lh.slot, si, u32 fn, u16 p3⟩ g.active, rest⟩, 0) := by
  simp only [sched, h]

theorem inactive_nil_iff {g : GState} (h : GInv g) : g.inactive = [] ↔ g.active.length = 16 := by
  have := h.length
  constructor
  · intro h0; rw [h0] at this; simpa using this
  · intro h16
    have : g.inactive.length = 0 := by omega
    exact List.eq_nil_of_length_eq_zero this

theorem sched_inv (g : GState) (si : List Item) (fn p3 : Nat) (h : GInv g) : GInv (sched g si fn p3).1 := by
  cases hi : g.inactive with
  | nil => rw [sched_busy g si fn p3 hi]; exact h
  | cons lh rest =>
    rw [sched_ok g si fn p3 lh rest hi]
    refine ⟨?_, insertSorted_sorted _ _ h.2⟩
    have h1 := h.1
    rw [hi] at h1
    refine List.Perm.trans ?_ h1
    simp only [slots, List.map_append, List.map_cons]
    have := (insertSorted_perm ⟨lh.slot, si, u32 fn, u16 p3⟩ g.active).map (·.slot)
    simp only [List.map_cons] at this
    exact (this.append_right _).trans (by simpa using List.perm_middle.symm)

/-! ### `sched_gsmtime_execute`: what the loop does, as pure functions of the list -/

/-- the events the loop hands over, in order (the loop stops behind the first event with `fn > tgt`) -/
def firedOf (tgt : Nat) : List Event → List Event
  | [] => []
  | e :: rest => (if e.fn = tgt then [e] else []) ++ (if e.fn > tgt then [] else firedOf tgt rest)

/-- the events the loop leaves in `active_evts`, in order -/
def keptOf (tgt : Nat) : List Event → List Event
  | [] => []
  | e :: rest => (if e.fn = tgt then [] else [e]) ++ (if e.fn > tgt then rest else keptOf tgt rest)

/-- the `tdma_schedule_set` calls for a list of events, one after the other -/
def schedAll : Sched → List Event → Except Fault (Sched × List Call)
  | s, [] => .ok (s, [])
  | s, e :: es =>
    match TdmaSched.scheduleSet s frameOffset e.si e.p3 with
    | .error f => .error f
    | .ok (s1, rc) =>
      match schedAll s1 es with
      | .error f => .error f
      | .ok (s2, cs) => .ok (s2, ⟨e.slot, frameOffset, e.si, e.p3, rc⟩ :: cs)

theorem schedAll_append : ∀ (a b : List Event) (s : Sched),
    schedAll s (a ++ b) =
      match schedAll s a with
      | .error f => .error f
      | .ok (s1, c1) =>
        match schedAll s1 b with
        | .error f => .error f
        | .ok (s2, c2) => .ok (s2, c1 ++ c2)
  | [], b, s => by
    simp only [List.nil_append, schedAll]
    cases schedAll s b with
    | error f => rfl
    | ok r => rfl
  | e :: a, b, s => by
    simp only [List.cons_append, schedAll]
    cases TdmaSched.scheduleSet s frameOffset e.si e.p3 with
    | error f => rfl
    | ok r =>
      obtain ⟨s1, rc⟩ := r
      simp only []
      rw [schedAll_append a b s1]
      cases schedAll s1 a with
      | error f => rfl
      | ok r2 =>
        obtain ⟨s2, c1⟩ := r2
        simp only []
        cases schedAll s2 b with
        | error f => rfl
        | ok r3 => rfl

/-- the loop of `sched_gsmtime_execute`, in one piece -/
theorem execLoop_eq (tgt : Nat) : ∀ (rest : List Event) (r : ExecRes),
    execLoop tgt rest r =
      match schedAll r.tdma (firedOf tgt rest) with
      | .error f => .error f
      | .ok (s', cs) =>
        .ok ⟨r.active ++ keptOf tgt rest, (firedOf tgt rest).reverse ++ r.inactive, s',
             r.num + (firedOf tgt rest).length, r.calls ++ cs⟩
  | [], r => by simp [execLoop, firedOf, keptOf, schedAll]
  | e :: rest, r => by
    simp only [execLoop, fireIf, firedOf, keptOf]
    by_cases h1 : e.fn = tgt
    · subst h1
      have h3 : ¬ e.fn > e.fn := by omega
      simp only [if_true, h3, if_false, bind, Except.bind, pure, Except.pure, List.cons_append, List.nil_append,
        schedAll]
      cases hs : TdmaSched.scheduleSet r.tdma frameOffset e.si e.p3 with
      | error f => rfl
      | ok q =>
        obtain ⟨s1, rc⟩ := q
        simp only []
        rw [execLoop_eq e.fn rest]
        simp only []
        cases schedAll s1 (firedOf e.fn rest) with
        | error f => rfl
        | ok q2 =>
          obtain ⟨s2, cs⟩ := q2
          simp only [List.length_cons, List.reverse_cons, List.append_assoc, List.cons_append, List.nil_append,
            Except.ok.injEq, ExecRes.mk.injEq, true_and]
          refine ⟨?_, ?_⟩
          · push_cast; omega
          · trivial
    · simp only [h1, if_false, bind, Except.bind, pure, Except.pure, List.nil_append]
      by_cases h2 : e.fn > tgt
      · simp only [h2, if_true, schedAll, List.reverse_nil, List.nil_append, List.length_nil, List.append_nil,
          List.append_assoc, List.cons_append]
        simp
      · simp only [h2, if_false]
        rw [execLoop_eq tgt rest]
        simp only [List.append_assoc, List.cons_append, List.nil_append]

theorem firedOf_sorted (tgt : Nat) : ∀ l, Sorted l → firedOf tgt l = l.filter (fun e => e.fn = tgt)
  | [], _ => rfl
  | e :: rest, h => by
    simp only [Sorted, List.pairwise_cons] at h
    simp only [firedOf, List.filter_cons]
    by_cases h2 : e.fn > tgt
    · have h1 : ¬ e.fn = tgt := by omega
      have : rest.filter (fun e => e.fn = tgt) = [] := by
        rw [List.filter_eq_nil_iff]
        intro b hb
        have := h.1 b hb
        simp; omega
      simp [h1, h2, this]
    · simp only [h2, if_false]
      rw [firedOf_sorted tgt rest h.2]
      split <;> simp_all

theorem keptOf_sorted (tgt : Nat) : ∀ l, Sorted l → keptOf tgt l = l.filter (fun e => !decide (e.fn = tgt))
  | [], _ => rfl
  | e :: rest, h => by
    simp only [Sorted, List.pairwise_cons] at h
    simp only [keptOf, List.filter_cons]
    by_cases h2 : e.fn > tgt
    · have h1 : ¬ e.fn = tgt := by omega
      have : rest.filter (fun e => !decide (e.fn = tgt)) = rest := by
        rw [List.filter_eq_self]
        intro b hb
        have := h.1 b hb
        simp; omega
      simp [h1, h2, this]
    · simp only [h2, if_false]
      rw [keptOf_sorted tgt rest h.2]
      split <;> simp_all

/-- `sched_gsmtime_execute(fn)` on a sorted list: exactly the events with `evt->fn == fn_sched` are
handed to `tdma_schedule_set`, in list order, and moved to the head of the inactive list one by one; all
other events stay, in order -/
theorem execute_eq (g : GState) (s : Sched) (fn : Nat) (h : Sorted g.active) :
    execute g s fn =
      match schedAll s (g.active.filter (fun e => e.fn = target fn)) with
      | .error f => .error f
      | .ok (s', cs) =>
        .ok (⟨g.active.filter (fun e => !decide (e.fn = target fn)),
              (g.active.filter (fun e => e.fn = target fn)).reverse ++ g.inactive⟩, s',
             ((g.active.filter (fun e => e.fn = target fn)).length : Int), cs) := by
  simp only [execute, bind, Except.bind, aheadOf_u32]
  rw [execLoop_eq, firedOf_sorted _ _ h, keptOf_sorted _ _ h]
  simp only []
  cases schedAll s (g.active.filter (fun e => e.fn = target fn)) with
  | error f => rfl
  | ok q =>
    obtain ⟨s', cs⟩ := q
    simp [pure, Except.pure]

/-- what is known about the calls of `schedAll`: one per event, in order, with the event's slot, the frame
offset `SCHEDULE_AHEAD - SCHEDULE_LATENCY`, its item set and its `p3` -/
theorem schedAll_calls : ∀ (es : List Event) (s s' : Sched) (cs : List Call),
    schedAll s es = .ok (s', cs) →
    cs.map (fun c => (c.slot, c.off, c.si, c.p3)) = es.map (fun e => (e.slot, frameOffset, e.si, e.p3))
  | [], s, s', cs, h => by
    simp only [schedAll, Except.ok.injEq, Prod.mk.injEq] at h
    rw [← h.2]; rfl
  | e :: es, s, s', cs, h => by
    simp only [schedAll] at h
    cases h1 : TdmaSched.scheduleSet s frameOffset e.si e.p3 with
    | error f => simp [h1] at h
    | ok q =>
      obtain ⟨s1, rc⟩ := q
      simp only [h1] at h
      cases h2 : schedAll s1 es with
      | error f => simp [h2] at h
      | ok q2 =>
        obtain ⟨s2, cs2⟩ := q2
        simp only [h2, Except.ok.injEq, Prod.mk.injEq] at h
        rw [← h.2]
        simp only [List.map_cons, schedAll_calls es s1 s2 cs2 h2]

theorem execute_inv (g g' : GState) (s s' : Sched) (fn : Nat) (num : Int) (cs : List Call) (h : GInv g)
    (he : execute g s fn = .ok (g', s', num, cs)) : GInv g' := by
  rw [execute_eq g s fn h.2] at he
  cases hs : schedAll s (g.active.filter (fun e => e.fn = target fn)) with
  | error f => simp [hs] at he
  | ok q =>
    obtain ⟨s1, cs1⟩ := q
    simp only [hs, Except.ok.injEq, Prod.mk.injEq] at he
    rw [← he.1]
    refine ⟨?_, List.Pairwise.filter _ h.2⟩
    refine List.Perm.trans ?_ h.1
    simp only [slots, List.map_append]
    refine List.Perm.trans ?_ ((List.filter_append_perm (fun e => decide (e.fn = target fn)) g.active).map (·.slot) |>.append_right _)
    simp only [List.map_append, List.map_reverse]
    generalize (g.active.filter (fun e => decide (e.fn = target fn))).map (·.slot) = A
    generalize (g.active.filter (fun e => !decide (e.fn = target fn))).map (·.slot) = B
    generalize g.inactive.map (·.slot) = C
    have h1 : (B ++ (A.reverse ++ C)).Perm (B ++ (A ++ C)) :=
      ((List.reverse_perm A).append_right C).append_left B
    refine h1.trans ?_
    rw [← List.append_assoc]
    exact List.perm_append_comm.append_right C


/-! ### `sched_gsmtime_reset` -/

theorem resetLoop_eq : ∀ (rest inactive : List Event), resetLoop rest inactive = rest.reverse ++ inactive
  | [], _ => rfl
  | e :: rest, inactive => by simp [resetLoop, resetLoop_eq rest]

theorem reset_inv (g : GState) (h : GInv g) : GInv (reset g) := by
  refine ⟨?_, by simp [reset, Sorted]⟩
  refine List.Perm.trans ?_ h.1
  simp only [reset, resetLoop_eq, slots, List.nil_append, List.map_append, List.map_reverse]
  exact (List.reverse_perm _).append_right _

theorem reset_active (g : GState) : (reset g).active = [] := rfl

theorem reset_free (g : GState) (h : GInv g) : (reset g).inactive.length = 16 := by
  have := (reset_inv g h).length
  simpa [reset_active] using this

/-! ### the state of sched_gsmtime.c as a function of the history alone

`sched_gsmtime_execute` ignores what `tdma_schedule_set` returns and nothing else in the file reads the TDMA
scheduler: the two lists evolve independently of it. -/

/-- `sched_gsmtime_execute(fn)` on the lists: new lists, and the events handed over (in order) -/
def gexecG (g : GState) (fn : Nat) : GState × List Event :=
  (⟨g.active.filter (fun e => !decide (e.fn = target fn)),
    (g.active.filter (fun e => e.fn = target fn)).reverse ++ g.inactive⟩,
   g.active.filter (fun e => e.fn = target fn))

def gstepG (g : GState) : SOp → GState × List Event
  | .gsched si fn p3 => ((sched g si fn p3).1, [])
  | .gexec fn => gexecG g fn
  | .greset => (reset g, [])
  | .tdma _ => (g, [])

/-- the lists after a sequence of operations -/
def gtraffic : GState → List SOp → GState
  | g, [] => g
  | g, op :: ops => gtraffic (gstepG g op).1 ops

/-- the lists after one frame interrupt and the events its `sched_gsmtime_execute` hands over -/
def gframeG (g : GState) (fr : Frame) : GState × List Event :=
  gexecG (gtraffic (gtraffic g fr.pre) fr.mid) fr.fn

/-- the call `c` is the one for the event `e`: the event's slot, item set and `p3`, frame offset
`SCHEDULE_AHEAD - SCHEDULE_LATENCY` -/
def CallFor (e : Event) (c : Call) : Prop :=
  c.slot = e.slot ∧ c.off = frameOffset ∧ c.si = e.si ∧ c.p3 = e.p3

/-- the calls are the ones for these events, in the same order -/
def CallsOf : List Event → List Call → Prop
  | [], [] => True
  | e :: es, c :: cs => CallFor e c ∧ CallsOf es cs
  | _, _ => False

theorem schedAll_callsOf : ∀ (es : List Event) (s s' : Sched) (cs : List Call),
    schedAll s es = .ok (s', cs) → CallsOf es cs
  | [], s, s', cs, h => by
    simp only [schedAll, Except.ok.injEq, Prod.mk.injEq] at h
    rw [← h.2]; trivial
  | e :: es, s, s', cs, h => by
    simp only [schedAll] at h
    cases h1 : TdmaSched.scheduleSet s frameOffset e.si e.p3 with
    | error f => simp [h1] at h
    | ok q =>
      obtain ⟨s1, rc⟩ := q
      simp only [h1] at h
      cases h2 : schedAll s1 es with
      | error f => simp [h2] at h
      | ok q2 =>
        obtain ⟨s2, cs2⟩ := q2
        simp only [h2, Except.ok.injEq, Prod.mk.injEq] at h
        rw [← h.2]
        exact ⟨⟨rfl, rfl, rfl, rfl⟩, schedAll_callsOf es s1 s2 cs2 h2⟩

theorem CallsOf.length : ∀ {fired : List Event} {calls : List Call}, CallsOf fired calls →
    calls.length = fired.length
  | [], [], _ => rfl
  | [], _ :: _, h => by simp [CallsOf] at h
  | _ :: _, [], h => by simp [CallsOf] at h
  | e :: es, c :: cs, h => by simp [CallsOf.length h.2]

/-- the calls made for one slot -/
theorem CallsOf.filter_slot : ∀ {fired : List Event} {calls : List Call}, CallsOf fired calls → ∀ (n : Nat),
    CallsOf (fired.filter (fun x => x.slot = n)) (calls.filter (fun c => c.slot = n))
  | [], [], _, _ => trivial
  | [], _ :: _, h, _ => by simp [CallsOf] at h
  | _ :: _, [], h, _ => by simp [CallsOf] at h
  | e :: es, c :: cs, h, n => by
    have ih := CallsOf.filter_slot h.2 n
    simp only [List.filter_cons, h.1.1]
    split
    · exact ⟨h.1, ih⟩
    · exact ih

theorem CallsOf.nil_left : ∀ {calls : List Call}, CallsOf [] calls → calls = []
  | [], _ => rfl
  | _ :: _, h => by simp [CallsOf] at h

theorem CallsOf.singleton {ev : Event} : ∀ {calls : List Call}, CallsOf [ev] calls →
    ∃ c, calls = [c] ∧ CallFor ev c
  | [], h => by simp [CallsOf] at h
  | [c], h => ⟨c, rfl, h.1⟩
  | _ :: _ :: _, h => by simp [CallsOf] at h

/-- `execute` in terms of `gexecG` -/
theorem execute_g (g g' : GState) (s s' : Sched) (fn : Nat) (num : Int) (cs : List Call) (h : GInv g)
    (he : execute g s fn = .ok (g', s', num, cs)) :
    g' = (gexecG g fn).1 ∧ schedAll s (gexecG g fn).2 = .ok (s', cs) ∧
      num = ((gexecG g fn).2.length : Int) ∧ CallsOf (gexecG g fn).2 cs := by
  rw [execute_eq g s fn h.2] at he
  cases hs : schedAll s (g.active.filter (fun e => e.fn = target fn)) with
  | error f => simp [hs] at he
  | ok q =>
    obtain ⟨s1, cs1⟩ := q
    simp only [hs, Except.ok.injEq, Prod.mk.injEq] at he
    obtain ⟨h1, h2, h3, h4⟩ := he
    subst h2; subst h4
    refine ⟨h1.symm, hs, h3.symm, schedAll_callsOf _ _ _ _ hs⟩

theorem gexecG_inv (g : GState) (fn : Nat) (h : GInv g) : GInv (gexecG g fn).1 := by
  refine ⟨?_, List.Pairwise.filter _ h.2⟩
  refine List.Perm.trans ?_ h.1
  simp only [gexecG, slots, List.map_append]
  refine List.Perm.trans ?_ ((List.filter_append_perm (fun e => decide (e.fn = target fn)) g.active).map (·.slot) |>.append_right _)
  simp only [List.map_append, List.map_reverse]
  generalize (g.active.filter (fun e => decide (e.fn = target fn))).map (·.slot) = A
  generalize (g.active.filter (fun e => !decide (e.fn = target fn))).map (·.slot) = B
  generalize g.inactive.map (·.slot) = C
  have h1 : (B ++ (A.reverse ++ C)).Perm (B ++ (A ++ C)) :=
    ((List.reverse_perm A).append_right C).append_left B
  refine h1.trans ?_
  rw [← List.append_assoc]
  exact List.perm_append_comm.append_right C

theorem gstepG_inv (g : GState) (op : SOp) (h : GInv g) : GInv (gstepG g op).1 := by
  cases op with
  | gsched si fn p3 => exact sched_inv g si fn p3 h
  | gexec fn => exact gexecG_inv g fn h
  | greset => exact reset_inv g h
  | tdma op => exact h

theorem gtraffic_inv : ∀ (ops : List SOp) (g : GState), GInv g → GInv (gtraffic g ops)
  | [], g, h => h
  | op :: ops, g, h => gtraffic_inv ops _ (gstepG_inv g op h)

theorem gtraffic_append : ∀ (a b : List SOp) (g : GState), gtraffic g (a ++ b) = gtraffic (gtraffic g a) b
  | [], b, g => rfl
  | op :: a, b, g => by simp only [List.cons_append, gtraffic, gtraffic_append a b]

/-! ### elimination of the error monad -/

theorem bind_ok {α β : Type} {x : Except Fault α} {f : α → Except Fault β} {b : β}
    (h : (x >>= f) = .ok b) : ∃ a, x = .ok a ∧ f a = .ok b := by
  cases x with
  | error e => simp [bind, Except.bind] at h
  | ok a => exact ⟨a, rfl, h⟩

/-- one operation of a history, on the side of sched_gsmtime.c -/
theorem sstep_g (env : Env) (st st' : Sys) (op : SOp) (o : SOut) (h : GInv st.g)
    (hs : sstep env st op = .ok (st', o)) :
    st'.g = (gstepG st.g op).1 ∧ CallsOf (gstepG st.g op).2 o.calls := by
  cases op with
  | gsched si fn p3 =>
    simp only [sstep, Except.ok.injEq, Prod.mk.injEq] at hs
    rw [← hs.1, ← hs.2]
    exact ⟨rfl, trivial⟩
  | gexec fn =>
    simp only [sstep] at hs
    obtain ⟨⟨g1, s1, num, cs⟩, he, hr⟩ := bind_ok hs
    simp only [pure, Except.pure, Except.ok.injEq, Prod.mk.injEq] at hr
    obtain ⟨h1, _, _, h4⟩ := execute_g st.g g1 st.s s1 fn num cs h he
    rw [← hr.1, ← hr.2]
    exact ⟨h1, h4⟩
  | greset =>
    simp only [sstep, Except.ok.injEq, Prod.mk.injEq] at hs
    rw [← hs.1, ← hs.2]
    exact ⟨rfl, trivial⟩
  | tdma top =>
    simp only [sstep] at hs
    obtain ⟨⟨s1, o1⟩, he, hr⟩ := bind_ok hs
    simp only [pure, Except.pure, Except.ok.injEq, Prod.mk.injEq] at hr
    rw [← hr.1, ← hr.2]
    exact ⟨rfl, trivial⟩

theorem srun_cons_ok (env : Env) (st st' : Sys) (op : SOp) (ops : List SOp) (outs : List SOut)
    (h : srun env st (op :: ops) = .ok (st', outs)) :
    ∃ st1 o os, sstep env st op = .ok (st1, o) ∧ srun env st1 ops = .ok (st', os) ∧ outs = o :: os := by
  simp only [srun] at h
  obtain ⟨⟨st1, o⟩, h1, h2⟩ := bind_ok h
  obtain ⟨⟨st2, os⟩, h3, h4⟩ := bind_ok h2
  simp only [pure, Except.pure, Except.ok.injEq, Prod.mk.injEq] at h4
  exact ⟨st1, o, os, h1, by rw [h3, h4.1], h4.2.symm⟩

theorem srun_g (env : Env) : ∀ (ops : List SOp) (st st' : Sys) (outs : List SOut), GInv st.g →
    srun env st ops = .ok (st', outs) → st'.g = gtraffic st.g ops ∧ GInv st'.g
  | [], st, st', outs, h, hs => by
    simp only [srun, Except.ok.injEq, Prod.mk.injEq] at hs
    rw [← hs.1]; exact ⟨rfl, h⟩
  | op :: ops, st, st', outs, h, hs => by
    obtain ⟨st1, o, os, h1, h2, _⟩ := srun_cons_ok env st st' op ops outs hs
    obtain ⟨hg, _⟩ := sstep_g env st st1 op o h h1
    have hi : GInv st1.g := by rw [hg]; exact gstepG_inv st.g op h
    obtain ⟨hg2, hi2⟩ := srun_g env ops st1 st' os hi h2
    exact ⟨by rw [hg2, hg]; rfl, hi2⟩

/-- the parts of a frame interrupt that ran without fault -/
theorem l1Sync_ok (env : Env) (st st' : Sys) (fr : Frame) (o : FrameOut)
    (h : l1Sync env st fr = .ok (st', o)) :
    ∃ st1 s2 st3 g4 s4 s5,
      srun env st fr.pre = .ok (st1, o.pre) ∧
      TdmaSched.step env st1.s .execute = .ok (s2, o.exec) ∧
      srun env ⟨st1.g, s2⟩ fr.mid = .ok (st3, o.mid) ∧
      execute st3.g st3.s fr.fn = .ok (g4, s4, o.num, o.calls) ∧
      TdmaSched.advance s4 = .ok s5 ∧ st' = ⟨g4, s5⟩ := by
  simp only [l1Sync] at h
  obtain ⟨⟨st1, pre⟩, h1, h⟩ := bind_ok h
  obtain ⟨⟨s2, ex⟩, h2, h⟩ := bind_ok h
  obtain ⟨⟨st3, mid⟩, h3, h⟩ := bind_ok h
  obtain ⟨⟨g4, s4, num, calls⟩, h4, h⟩ := bind_ok h
  obtain ⟨s5, h5, h⟩ := bind_ok h
  simp only [pure, Except.pure, Except.ok.injEq, Prod.mk.injEq] at h
  obtain ⟨h6, h7⟩ := h
  subst h7
  exact ⟨st1, s2, st3, g4, s4, s5, h1, h2, h3, h4, h5, h6.symm⟩

/-- one frame interrupt, on the side of sched_gsmtime.c -/
theorem l1Sync_g (env : Env) (st st' : Sys) (fr : Frame) (o : FrameOut) (hinv : GInv st.g)
    (h : l1Sync env st fr = .ok (st', o)) :
    st'.g = (gframeG st.g fr).1 ∧ GInv st'.g ∧ CallsOf (gframeG st.g fr).2 o.calls ∧
      o.num = ((gframeG st.g fr).2.length : Int) := by
  obtain ⟨st1, s2, st3, g4, s4, s5, h1, h2, h3, h4, h5, h6⟩ := l1Sync_ok env st st' fr o h
  obtain ⟨e1, i1⟩ := srun_g env fr.pre st st1 o.pre hinv h1
  obtain ⟨e3, i3⟩ := srun_g env fr.mid ⟨st1.g, s2⟩ st3 o.mid i1 h3
  obtain ⟨e4, _, e5, e6⟩ := execute_g st3.g g4 st3.s s4 fr.fn o.num o.calls i3 h4
  have hg : st3.g = gtraffic (gtraffic st.g fr.pre) fr.mid := by rw [e3, e1]
  subst h6
  simp only [gframeG, ← hg]
  exact ⟨e4, by rw [e4]; exact gexecG_inv _ _ i3, e6, e5⟩

theorem runFrames_cons_ok (env : Env) (st st' : Sys) (fr : Frame) (frs : List Frame) (outs : List FrameOut)
    (h : runFrames env st (fr :: frs) = .ok (st', outs)) :
    ∃ st1 o os, l1Sync env st fr = .ok (st1, o) ∧ runFrames env st1 frs = .ok (st', os) ∧ outs = o :: os := by
  simp only [runFrames] at h
  obtain ⟨⟨st1, o⟩, h1, h2⟩ := bind_ok h
  obtain ⟨⟨st2, os⟩, h3, h4⟩ := bind_ok h2
  simp only [pure, Except.pure, Except.ok.injEq, Prod.mk.injEq] at h4
  exact ⟨st1, o, os, h1, by rw [h3, h4.1], h4.2.symm⟩

theorem runFrames_length (env : Env) : ∀ (frs : List Frame) (st st' : Sys) (outs : List FrameOut),
    runFrames env st frs = .ok (st', outs) → outs.length = frs.length
  | [], st, st', outs, h => by
    simp only [runFrames, Except.ok.injEq, Prod.mk.injEq] at h
    rw [← h.2]; rfl
  | fr :: frs, st, st', outs, h => by
    obtain ⟨st1, o, os, _, h2, h3⟩ := runFrames_cons_ok env st st' fr frs outs h
    rw [h3]; simp [runFrames_length env frs st1 st' os h2]

/-! ### following one event -/

/-- operations that are neither `sched_gsmtime_execute` nor `sched_gsmtime_reset` -/
def NoGexec : SOp → Bool
  | .gsched .. => true
  | .tdma _ => true
  | _ => false

theorem gtraffic_keeps : ∀ (ops : List SOp) (g : GState) (ev : Event), (∀ op ∈ ops, NoGexec op = true) →
    ev ∈ g.active → ev ∈ (gtraffic g ops).active
  | [], g, ev, _, h => h
  | op :: ops, g, ev, hno, h => by
    apply gtraffic_keeps ops _ ev (fun o ho => hno o (List.mem_cons_of_mem _ ho))
    have := hno op (List.mem_cons_self ..)
    cases op with
    | gsched si fn p3 =>
      simp only [gstepG]
      cases hi : g.inactive with
      | nil => rw [sched_busy g si fn p3 hi]; exact h
      | cons lh rest => rw [sched_ok g si fn p3 lh rest hi]; exact mem_insertSorted.mpr (Or.inr h)
    | gexec fn => simp [NoGexec] at this
    | greset => simp [NoGexec] at this
    | tdma top => exact h

/-- an event whose frame is not `target fn` stays pending and no call is made for its slot -/
theorem gexecG_miss (g : GState) (fn : Nat) (ev : Event) (hinv : GInv g) (hev : ev ∈ g.active)
    (hne : target fn ≠ ev.fn) :
    ev ∈ (gexecG g fn).1.active ∧ (gexecG g fn).2.filter (fun e => e.slot = ev.slot) = [] := by
  refine ⟨?_, ?_⟩
  · simp only [gexecG, List.mem_filter]
    exact ⟨hev, by simp; omega⟩
  · rw [List.filter_eq_nil_iff]
    intro e he
    simp only [gexecG, List.mem_filter, decide_eq_true_eq] at he
    simp only [decide_eq_true_eq]
    intro hs
    have := eq_of_slot hinv.nodup_active he.1 hev hs
    rw [this] at he
    omega

theorem filter_slot_of_mem : ∀ (l : List Event) (ev : Event) (p : Event → Bool), (slots l).Nodup → ev ∈ l →
    p ev = true → (l.filter p).filter (fun e => e.slot = ev.slot) = [ev]
  | [], ev, p, _, hev, _ => by simp at hev
  | a :: l, ev, p, hn, hev, hp => by
    simp only [slots, List.map_cons, List.nodup_cons] at hn
    simp only [List.mem_cons] at hev
    rcases hev with rfl | hev
    · have : (l.filter p).filter (fun e => decide (e.slot = ev.slot)) = [] := by
        rw [List.filter_eq_nil_iff]
        intro b hb
        simp only [decide_eq_true_eq]
        intro hs
        exact absurd (List.mem_map.mpr ⟨b, (List.mem_filter.mp hb).1, hs⟩) hn.1
      simp [List.filter_cons, hp, this]
    · have hne : a.slot ≠ ev.slot := by
        intro hs
        exact hn.1 (List.mem_map.mpr ⟨ev, hev, hs.symm⟩)
      have ih := filter_slot_of_mem l ev p hn.2 hev hp
      rw [List.filter_cons]
      split
      · rw [List.filter_cons]
        simp only [hne, decide_false, Bool.false_eq_true, if_false]
        exact ih
      · exact ih

/-- an event whose frame is `target fn` is handed over, once, and its slot is free again -/
theorem gexecG_hit (g : GState) (fn : Nat) (ev : Event) (hinv : GInv g) (hev : ev ∈ g.active)
    (heq : target fn = ev.fn) :
    (gexecG g fn).2.filter (fun e => e.slot = ev.slot) = [ev] ∧ ev ∉ (gexecG g fn).1.active ∧
      ev ∈ (gexecG g fn).1.inactive := by
  refine ⟨?_, ?_, ?_⟩
  · exact filter_slot_of_mem g.active ev _ hinv.nodup_active hev (by simp [heq])
  · simp only [gexecG, List.mem_filter]
    intro h
    simp [heq] at h
  · simp only [gexecG, List.mem_append, List.mem_reverse, List.mem_filter]
    exact Or.inl ⟨hev, by simp [heq]⟩

/-- between the calls the interrupt makes, a frame has only requests: no `sched_gsmtime_execute`, no
`sched_gsmtime_reset` -/
def FrameNoGexec (fr : Frame) : Prop :=
  (∀ op ∈ fr.pre, NoGexec op = true) ∧ (∀ op ∈ fr.mid, NoGexec op = true)

instance (fr : Frame) : Decidable (FrameNoGexec fr) := by unfold FrameNoGexec; infer_instance

theorem gframeG_inv (g : GState) (fr : Frame) (h : GInv g) : GInv (gframeG g fr).1 :=
  gexecG_inv _ _ (gtraffic_inv _ _ (gtraffic_inv _ _ h))

theorem gframeG_miss (g : GState) (fr : Frame) (ev : Event) (hinv : GInv g) (hev : ev ∈ g.active)
    (hno : FrameNoGexec fr) (hne : target fr.fn ≠ ev.fn) :
    ev ∈ (gframeG g fr).1.active ∧ (gframeG g fr).2.filter (fun e => e.slot = ev.slot) = [] :=
  gexecG_miss _ _ ev (gtraffic_inv _ _ (gtraffic_inv _ _ hinv))
    (gtraffic_keeps _ _ ev hno.2 (gtraffic_keeps _ _ ev hno.1 hev)) hne

theorem gframeG_hit (g : GState) (fr : Frame) (ev : Event) (hinv : GInv g) (hev : ev ∈ g.active)
    (hno : FrameNoGexec fr) (heq : target fr.fn = ev.fn) :
    (gframeG g fr).2.filter (fun e => e.slot = ev.slot) = [ev] ∧ ev ∉ (gframeG g fr).1.active ∧
      ev ∈ (gframeG g fr).1.inactive :=
  gexecG_hit _ _ ev (gtraffic_inv _ _ (gtraffic_inv _ _ hinv))
    (gtraffic_keeps _ _ ev hno.2 (gtraffic_keeps _ _ ev hno.1 hev)) heq

theorem runFrames_append (env : Env) : ∀ (a b : List Frame) (st st' : Sys) (outs : List FrameOut),
    runFrames env st (a ++ b) = .ok (st', outs) →
    ∃ st1 o1 o2, runFrames env st a = .ok (st1, o1) ∧ runFrames env st1 b = .ok (st', o2) ∧ outs = o1 ++ o2
  | [], b, st, st', outs, h => ⟨st, [], outs, rfl, h, rfl⟩
  | fr :: a, b, st, st', outs, h => by
    obtain ⟨st1, o, os, h1, h2, h3⟩ := runFrames_cons_ok env st st' fr (a ++ b) outs h
    obtain ⟨st2, o1, o2, h4, h5, h6⟩ := runFrames_append env a b st1 st' os h2
    refine ⟨st2, o :: o1, o2, ?_, h5, by rw [h3, h6]; rfl⟩
    simp only [runFrames, h1, h4, bind, Except.bind, pure, Except.pure]

/-- frames in none of which `target fn` is the event's frame: the event stays pending, no call is made for its
slot -/
theorem frames_miss (env : Env) : ∀ (frs : List Frame) (st st' : Sys) (outs : List FrameOut) (ev : Event),
    GInv st.g → ev ∈ st.g.active → (∀ fr ∈ frs, FrameNoGexec fr ∧ target fr.fn ≠ ev.fn) →
    runFrames env st frs = .ok (st', outs) →
    GInv st'.g ∧ ev ∈ st'.g.active ∧ ∀ o ∈ outs, o.calls.filter (fun c => c.slot = ev.slot) = []
  | [], st, st', outs, ev, hinv, hev, _, h => by
    simp only [runFrames, Except.ok.injEq, Prod.mk.injEq] at h
    rw [← h.1, ← h.2]
    exact ⟨hinv, hev, by simp⟩
  | fr :: frs, st, st', outs, ev, hinv, hev, hfr, h => by
    obtain ⟨st1, o, os, h1, h2, h3⟩ := runFrames_cons_ok env st st' fr frs outs h
    obtain ⟨hg, hi, hc, _⟩ := l1Sync_g env st st1 fr o hinv h1
    obtain ⟨hno, hne⟩ := hfr fr (List.mem_cons_self ..)
    obtain ⟨m1, m2⟩ := gframeG_miss st.g fr ev hinv hev hno hne
    obtain ⟨r1, r2, r3⟩ := frames_miss env frs st1 st' os ev hi (by rw [hg]; exact m1)
      (fun f hf => hfr f (List.mem_cons_of_mem _ hf)) h2
    refine ⟨r1, r2, ?_⟩
    intro o' ho'
    rw [h3] at ho'
    simp only [List.mem_cons] at ho'
    rcases ho' with rfl | ho'
    · have := hc.filter_slot ev.slot
      rw [m2] at this
      exact this.nil_left
    · exact r3 o' ho'

/-- the frame in which `target fn` is the event's frame: exactly one call is made for its slot, with its item
set and `p3`; afterwards the event is no longer pending and its slot is free -/
theorem frame_hit (env : Env) (st st' : Sys) (fr : Frame) (o : FrameOut) (ev : Event) (hinv : GInv st.g)
    (hev : ev ∈ st.g.active) (hno : FrameNoGexec fr) (heq : target fr.fn = ev.fn)
    (h : l1Sync env st fr = .ok (st', o)) :
    GInv st'.g ∧ ev ∉ st'.g.active ∧ ev ∈ st'.g.inactive ∧
      ∃ c, o.calls.filter (fun c => c.slot = ev.slot) = [c] ∧ CallFor ev c := by
  obtain ⟨hg, hi, hc, _⟩ := l1Sync_g env st st' fr o hinv h
  obtain ⟨m1, m2, m3⟩ := gframeG_hit st.g fr ev hinv hev hno heq
  refine ⟨hi, by rw [hg]; exact m2, by rw [hg]; exact m3, ?_⟩
  have := hc.filter_slot ev.slot
  rw [m1] at this
  exact this.singleton

/-! ### a frame interrupt is the history `frameOps` -/

theorem srun_append (env : Env) : ∀ (a b : List SOp) (st : Sys),
    srun env st (a ++ b) =
      match srun env st a with
      | .error f => .error f
      | .ok (st1, o1) =>
        match srun env st1 b with
        | .error f => .error f
        | .ok (st2, o2) => .ok (st2, o1 ++ o2)
  | [], b, st => by
    simp only [List.nil_append, srun]
    cases srun env st b with
    | error f => rfl
    | ok r => rfl
  | op :: a, b, st => by
    simp only [List.cons_append, srun, bind, Except.bind]
    cases sstep env st op with
    | error f => rfl
    | ok r =>
      obtain ⟨st1, o⟩ := r
      simp only []
      rw [srun_append env a b st1]
      cases srun env st1 a with
      | error f => rfl
      | ok r2 =>
        obtain ⟨st2, o1⟩ := r2
        simp only [pure, Except.pure]
        cases srun env st2 b with
        | error f => rfl
        | ok r3 => rfl

/-- the outputs of a frame interrupt as the outputs of its operations, in order -/
def flatOut (o : FrameOut) : List SOut :=
  o.pre ++ [⟨o.exec.rc, o.exec.ran, []⟩] ++ o.mid ++ [⟨o.num, [], o.calls⟩, ⟨0, [], []⟩]

/-- `l1Sync` is the history `frameOps` (the form in which frames are run on the real code) -/
theorem l1Sync_eq_srun (env : Env) (st : Sys) (fr : Frame) :
    srun env st (frameOps fr) =
      match l1Sync env st fr with
      | .error f => .error f
      | .ok (st', o) => .ok (st', flatOut o) := by
  simp only [frameOps, l1Sync, List.append_assoc, srun_append, bind, Except.bind]
  cases srun env st fr.pre with
  | error f => rfl
  | ok r1 =>
    obtain ⟨st1, pre⟩ := r1
    simp only [List.cons_append, List.nil_append, srun, sstep, bind, Except.bind]
    cases TdmaSched.step env st1.s .execute with
    | error f => rfl
    | ok r2 =>
      obtain ⟨s2, ex⟩ := r2
      simp only [pure, Except.pure, srun_append]
      cases srun env ⟨st1.g, s2⟩ fr.mid with
      | error f => rfl
      | ok r3 =>
        obtain ⟨st3, mid⟩ := r3
        simp only [srun, sstep, bind, Except.bind]
        cases execute st3.g st3.s fr.fn with
        | error f => rfl
        | ok r4 =>
          obtain ⟨g4, s4, num, cs⟩ := r4
          simp only [pure, Except.pure, TdmaSched.step, bind, Except.bind]
          cases TdmaSched.advance s4 with
          | error f => rfl
          | ok s5 => simp [flatOut]

end OsmoVerif.SchedGsmtime
