/- C08, gsmtime part: lemmas about the model of sched_gsmtime.c (`Model/SchedGsmtime.lean`). -/
import OsmoVerif.Model.SchedGsmtime
import OsmoVerif.Lemmas.TdmaSched

namespace OsmoVerif.SchedGsmtime
end OsmoVerif.SchedGsmtime
