/-
Helper lemmas for C12 (power state, child transceivers, clock distribution):
frame facts of every entry point of the world model, the effect of `powerEvent`,
the classification of `parseCmd`, preservation of the wiring invariant by `build` and `step`.
-/
import OsmoVerif.Lemmas.World
import OsmoVerif.Spec.WorldPower

namespace OsmoVerif.WorldPower
open OsmoVerif OsmoVerif.World OsmoVerif.PyStr

/-! ### lists -/

theorem map_modify_eq {α β} (g : α → β) (f : α → α) (h : ∀ x, g (f x) = g x) (l : List α) (i : Nat) :
    (l.modify i f).map g = l.map g := by
  apply List.ext_getElem?
  intro k
  simp only [List.getElem?_map, List.getElem?_modify]
  cases l[k]? with
  | none => rfl
  | some x =>
    simp only [Option.map_eq_map, Option.map_some]
    split
    · rw [h]
    · rfl

theorem getElem?_of_map_eq {α β} (g : α → β) {l l' : List α} (h : l'.map g = l.map g) (k : Nat) :
    (l'[k]?).map g = (l[k]?).map g := by
  rw [← List.getElem?_map, ← List.getElem?_map, h]

theorem length_of_map_eq {α β} (g : α → β) {l l' : List α} (h : l'.map g = l.map g) :
    l'.length = l.length := by
  have := congrArg List.length h
  simpa using this

/-! ### frame: what data datagrams, ticks, jumps and non-power commands leave alone -/

/-- `w'` differs from `w` at most in non-wiring, non-power, non-clock state -/
structure Frame (w w' : World) : Prop where
  hwiring : w'.trxs.map wiring = w.trxs.map wiring
  hrunning : w'.trxs.map Trx.running = w.trxs.map Trx.running
  hlinks : w'.clkLinks = w.clkLinks
  hclk : w'.clkRunning = w.clkRunning
  hsrc : w'.clkSrc = w.clkSrc

theorem Frame.refl (w : World) : Frame w w := ⟨rfl, rfl, rfl, rfl, rfl⟩

theorem Frame.trans {a b c : World} (h1 : Frame a b) (h2 : Frame b c) : Frame a c :=
  ⟨h2.hwiring.trans h1.hwiring, h2.hrunning.trans h1.hrunning, h2.hlinks.trans h1.hlinks,
   h2.hclk.trans h1.hclk, h2.hsrc.trans h1.hsrc⟩

theorem Frame.length {w w' : World} (h : Frame w w') : w'.trxs.length = w.trxs.length :=
  length_of_map_eq _ h.hwiring

theorem Frame.setTrx (w : World) (i : Nat) (f : Trx → Trx)
    (hw : ∀ t, wiring (f t) = wiring t) (hr : ∀ t, (f t).running = t.running) :
    Frame w (setTrx w i f) :=
  ⟨map_modify_eq _ _ hw _ _, map_modify_eq Trx.running _ hr _ _, rfl, rfl, rfl⟩

theorem Frame.setTrx_patch (w : World) (i : Nat) (p : Patch) : Frame w (World.setTrx w i p.apply) := by
  apply Frame.setTrx
  · intro t; simp only [wiring, Patch.apply_addr, Patch.apply_basePort, Patch.apply_childIdx,
      Patch.apply_childMgt, Patch.apply_hasClock, Patch.apply_children]
  · intro t; exact Patch.apply_running p t

theorem Frame.drawK (w : World) (k : Nat) : Frame w { w with drawK := k } := ⟨rfl, rfl, rfl, rfl, rfl⟩

theorem Frame.getElem? {w w' : World} (h : Frame w w') (k : Nat) (t' : Trx) (ht : w'.trxs[k]? = some t') :
    ∃ t, w.trxs[k]? = some t ∧ wiring t = wiring t' ∧ t.running = t'.running := by
  have h1 := getElem?_of_map_eq _ h.hwiring k
  have h2 := getElem?_of_map_eq Trx.running h.hrunning k
  rw [ht] at h1 h2
  cases hk : w.trxs[k]? with
  | none => rw [hk] at h1; cases h1
  | some t =>
    rw [hk] at h1 h2
    simp only [Option.map_some, Option.some.injEq] at h1 h2
    exact ⟨t, rfl, h1.symm, h2.symm⟩

theorem Frame.runningOf {w w' : World} (h : Frame w w') (k : Nat) : runningOf w' k = runningOf w k :=
  getElem?_of_map_eq Trx.running h.hrunning k

theorem randint_frame {w w' : World} {lo hi v : Int} (h : w.randint lo hi = .ok (v, w')) : Frame w w' := by
  unfold World.randint at h
  split at h
  · cases h
  · cases h; exact Frame.drawK _ _

theorem randAround_frame {w w' : World} {b t v : Int} (h : randAround w b t = .ok (v, w')) : Frame w w' := by
  unfold randAround at h
  split at h
  · cases h; exact Frame.refl _
  · exact randint_frame h


theorem frame_ra {w a : World} {b t : Int} {v : Int × World} (h : randAround a b t = .ok v)
    (f : Frame w a) : Frame w v.snd :=
  f.trans (randAround_frame (v := v.fst) (w' := v.snd) h)

/-! ### data datagrams -/

theorem wiring_ports {t t' : Trx} (h : wiring t = wiring t') :
    t.dataPort = t'.dataPort ∧ t.addr = t'.addr ∧ t.dataRemote = t'.dataRemote ∧
    t.clckPort = t'.clckPort ∧ t.clckRemote = t'.clckRemote ∧ t.ctrlPort = t'.ctrlPort ∧
    t.ctrlRemote = t'.ctrlRemote := by
  simp only [wiring, Prod.mk.injEq] at h
  obtain ⟨h1, h2, h3, -⟩ := h
  simp only [Trx.dataPort, Trx.dataRemote, Trx.clckPort, Trx.clckRemote, Trx.ctrlPort, Trx.ctrlRemote,
    h1, h2, h3, and_self]

theorem IsDataDgram.of_frame {w w' : World} (h : Frame w w') {d : Dgram} (hd : IsDataDgram w' d) :
    IsDataDgram w d := by
  obtain ⟨t', ht', h1, h2, h3⟩ := hd
  obtain ⟨k, hk⟩ := List.getElem?_of_mem ht'
  obtain ⟨t, ht, hw, -⟩ := h.getElem? k t' hk
  have := wiring_ports hw
  exact ⟨t, List.mem_of_getElem? ht, by omega, by omega, by omega⟩

theorem sendMsg_ports {self : Trx} {msg : Trxd.RxMsg} {legacy : Bool} {ds : List Dgram}
    (h : sendMsg self msg legacy = .ok ds) :
    ∀ d ∈ ds, d.lport = self.dataPort ∧ d.raddr = self.addr ∧ d.rport = self.dataRemote := by
  unfold sendMsg at h
  split at h
  · cases h
    intro d hd
    simp only [List.mem_map] at hd
    obtain ⟨x, _, rfl⟩ := hd
    exact ⟨rfl, rfl, rfl⟩
  · cases h

/-! ### burst path: `handleDataMsg`, `forwardMsg`, `clckTick`, `tick` are frame operations -/

theorem handleDataMsg_post {w w' : World} {k j : Nat} {sm : Trxd.TxMsg} {m : Trxd.RxMsg}
    {ds : List Dgram} (h : handleDataMsg w k j sm m = .ok (w', ds)) :
    Frame w w' ∧ ∃ self, w.trxs[k]? = some self ∧
      ∀ d ∈ ds, d.lport = self.dataPort ∧ d.raddr = self.addr ∧ d.rport = self.dataRemote := by
  unfold handleDataMsg at h
  split at h
  next self src hk hj =>
    simp only [] at h
    split at h
    · cases h
    next nope w1 hd =>
      have f1 : Frame w w1 := by
        repeat' split at hd
        all_goals first | (cases hd; done) | skip
        all_goals cases hd
        all_goals first | exact Frame.refl _ | skip
        exact Frame.setTrx _ _ _ (fun _ => rfl) (fun _ => rfl)
      simp only [bind, Except.bind, pure, Except.pure, throw, throwThe, MonadExceptOf.throw] at h
      repeat' split at h
      all_goals first | (cases h; done) | skip
      all_goals cases h
      all_goals refine ⟨?_, self, hk, ?_⟩
      all_goals first | exact f1 | (intro d hd; cases hd; done) | exact sendMsg_ports (by assumption) | skip
      all_goals repeat (first | exact f1 | (apply frame_ra; assumption))
  · cases h

/-- postcondition shared by the burst-path loops: frame + the new datagrams are DATA datagrams -/
def BurstPost (w w' : World) (acc out : List Dgram) : Prop :=
  Frame w w' ∧ ∃ extra, out = acc ++ extra ∧ ∀ d ∈ extra, IsDataDgram w d

theorem BurstPost.refl (w : World) (acc : List Dgram) : BurstPost w w acc acc :=
  ⟨Frame.refl w, [], (List.append_nil _).symm, fun _ h => by cases h⟩

theorem BurstPost.step {w w1 w2 : World} {acc ds out : List Dgram} (f : Frame w w1)
    (hds : ∀ d ∈ ds, IsDataDgram w d) (h : BurstPost w1 w2 (acc ++ ds) out) : BurstPost w w2 acc out := by
  obtain ⟨f2, extra, rfl, he⟩ := h
  refine ⟨f.trans f2, ds ++ extra, by simp only [List.append_assoc], ?_⟩
  intro d hd
  rcases List.mem_append.mp hd with hd | hd
  · exact hds d hd
  · exact (he d hd).of_frame f

theorem handleDataMsg_dgrams {w w' : World} {k j : Nat} {sm : Trxd.TxMsg} {m : Trxd.RxMsg}
    {ds : List Dgram} (h : handleDataMsg w k j sm m = .ok (w', ds)) :
    Frame w w' ∧ ∀ d ∈ ds, IsDataDgram w d := by
  obtain ⟨f, self, hk, hp⟩ := handleDataMsg_post h
  exact ⟨f, fun d hd => ⟨self, List.mem_of_getElem? hk, hp d hd⟩⟩

theorem forwardMsg_go_post (j fn : Nat) (txf : Option Int) (msg : Trxd.TxMsg) (ks : List Nat) :
    ∀ (w : World) (acc : List Dgram) (w' : World) (out : List Dgram),
      forwardMsg.go j fn txf msg w acc ks = .ok (w', out) → BurstPost w w' acc out := by
  induction ks with
  | nil =>
    intro w acc w' out h
    rw [forwardMsg.go.eq_1] at h
    cases h
    exact BurstPost.refl _ _
  | cons k ks ih =>
    intro w acc w' out h
    rw [forwardMsg.go.eq_2] at h
    repeat' split at h
    all_goals first | (cases h; done) | skip
    all_goals first | exact ih _ _ _ _ h | skip
    next hh =>
      obtain ⟨f, hds⟩ := handleDataMsg_dgrams hh
      exact BurstPost.step f hds (ih _ _ _ _ h)

theorem forwardMsg_post {w w' : World} {j : Nat} {msg : Trxd.TxMsg} {ds : List Dgram}
    (h : forwardMsg w j msg = .ok (w', ds)) : BurstPost w w' [] ds := by
  unfold forwardMsg at h
  split at h
  · cases h
  split at h
  · cases h
  simp only [] at h
  split at h
  · cases h
  exact forwardMsg_go_post _ _ _ _ _ _ _ _ _ h

theorem clckTick_go_post (j : Nat) (ms : List Trxd.TxMsg) :
    ∀ (w : World) (acc : List Dgram) (w' : World) (out : List Dgram),
      clckTick.go j w acc ms = .ok (w', out) → BurstPost w w' acc out := by
  induction ms with
  | nil =>
    intro w acc w' out h
    rw [clckTick.go.eq_1] at h
    cases h
    exact BurstPost.refl _ _
  | cons m ms ih =>
    intro w acc w' out h
    rw [clckTick.go.eq_2] at h
    split at h
    · cases h
    next w1 ds hh =>
      obtain ⟨f, extra, he, hds⟩ := forwardMsg_post hh
      simp only [List.nil_append] at he
      subst he
      exact BurstPost.step f hds (ih _ _ _ _ h)

theorem clckTick_post {w w' : World} {j fn : Nat} {ds : List Dgram} {st : Nat}
    (h : clckTick w j fn = .ok (w', ds, st)) : BurstPost w w' [] ds := by
  unfold clckTick at h
  split at h
  · cases h
  next trx hj =>
    split at h
    · cases h; exact BurstPost.refl _ _
    · simp only [] at h
      split at h
      · cases h
      next w1 ds1 hh =>
        cases h
        obtain ⟨f, extra, he, hds⟩ := clckTick_go_post _ _ _ _ _ _ hh
        refine ⟨Frame.trans ?_ f, extra, he, fun d hd => (hds d hd).of_frame ?_⟩ <;>
          exact Frame.setTrx _ _ _ (fun _ => rfl) (fun _ => rfl)


/-- frame up to the clock counter: `clkSrc` may change but stays defined -/
structure FrameC (w w' : World) : Prop where
  hwiring : w'.trxs.map wiring = w.trxs.map wiring
  hrunning : w'.trxs.map Trx.running = w.trxs.map Trx.running
  hlinks : w'.clkLinks = w.clkLinks
  hclk : w'.clkRunning = w.clkRunning
  hsrc : w.clkSrc.isSome → w'.clkSrc.isSome

theorem Frame.toC {w w' : World} (h : Frame w w') : FrameC w w' :=
  ⟨h.hwiring, h.hrunning, h.hlinks, h.hclk, fun hs => by rw [h.hsrc]; exact hs⟩

theorem FrameC.refl (w : World) : FrameC w w := (Frame.refl w).toC

theorem FrameC.getElem? {w w' : World} (h : FrameC w w') (k : Nat) (t' : Trx) (ht : w'.trxs[k]? = some t') :
    ∃ t, w.trxs[k]? = some t ∧ wiring t = wiring t' ∧ t.running = t'.running := by
  have h1 := getElem?_of_map_eq _ h.hwiring k
  have h2 := getElem?_of_map_eq Trx.running h.hrunning k
  rw [ht] at h1 h2
  cases hk : w.trxs[k]? with
  | none => rw [hk] at h1; cases h1
  | some t =>
    rw [hk] at h1 h2
    simp only [Option.map_some, Option.some.injEq] at h1 h2
    exact ⟨t, rfl, h1.symm, h2.symm⟩

theorem FrameC.getElem?' {w w' : World} (h : FrameC w w') (k : Nat) (t : Trx) (ht : w.trxs[k]? = some t) :
    ∃ t', w'.trxs[k]? = some t' ∧ wiring t = wiring t' ∧ t.running = t'.running := by
  have h1 := getElem?_of_map_eq _ h.hwiring k
  have h2 := getElem?_of_map_eq Trx.running h.hrunning k
  rw [ht] at h1 h2
  cases hk : w'.trxs[k]? with
  | none => rw [hk] at h1; cases h1
  | some t' =>
    rw [hk] at h1 h2
    simp only [Option.map_some, Option.some.injEq] at h1 h2
    exact ⟨t', rfl, h1.symm, h2.symm⟩

theorem FrameC.length {w w' : World} (h : FrameC w w') : w'.trxs.length = w.trxs.length :=
  length_of_map_eq _ h.hwiring

theorem FrameC.runningOf {w w' : World} (h : FrameC w w') (k : Nat) : runningOf w' k = runningOf w k :=
  getElem?_of_map_eq Trx.running h.hrunning k

/-- what `tick.go` returns, in terms of the world it starts from -/
def TickPost (w : World) (fn : Nat) (acc : List Dgram) (r : Res) : Prop :=
  ∃ w1 extra, Frame w w1 ∧ r.out = acc ++ extra ∧ (∀ d ∈ extra, IsDataDgram w d) ∧
    ((r.exc = none ∧ r.world = { w1 with clkSrc := some ((fn + 1) % Gen.World.hyperframe) }) ∨
     (∃ e, r.exc = some e ∧ r.world = w1))

theorem tick_go_post (fn : Nat) (ks : List Nat) :
    ∀ (w : World) (acc : List Dgram) (stale : Nat), TickPost w fn acc (tick.go fn w acc stale ks) := by
  induction ks with
  | nil =>
    intro w acc stale
    rw [tick.go.eq_1]
    exact ⟨w, [], Frame.refl w, (List.append_nil _).symm, (fun _ h => by cases h), .inl ⟨rfl, rfl⟩⟩
  | cons k ks ih =>
    intro w acc stale
    rw [tick.go.eq_2]
    split
    next e he =>
      exact ⟨w, [], Frame.refl w, (List.append_nil _).symm, (fun _ h => by cases h), .inr ⟨e, rfl, rfl⟩⟩
    next w1 ds st hh =>
      obtain ⟨f, extra, he, hds⟩ := clckTick_post hh
      simp only [List.nil_append] at he
      subst he
      obtain ⟨w2, extra2, f2, ho, hd2, hw⟩ := ih w1 (acc ++ ds) (stale + st)
      refine ⟨w2, ds ++ extra2, f.trans f2, by rw [ho, List.append_assoc], ?_, hw⟩
      intro d hd
      rcases List.mem_append.mp hd with hd | hd
      · exact hds d hd
      · exact (hd2 d hd).of_frame f

theorem TickPost.frameC {w : World} {fn : Nat} {acc : List Dgram} {r : Res} (h : TickPost w fn acc r) :
    FrameC w r.world := by
  obtain ⟨w1, extra, f, -, -, hw⟩ := h
  rcases hw with ⟨-, hw⟩ | ⟨e, -, hw⟩
  · rw [hw]; exact ⟨f.hwiring, f.hrunning, f.hlinks, f.hclk, fun _ => rfl⟩
  · rw [hw]; exact f.toC

/-- the model's list of clock indications at a tick -/
def modelInds (w : World) (fn : Nat) : List Dgram :=
  if fn % Gen.World.indPeriod = 0 then
    w.clkLinks.filterMap (fun i => (w.trxs[i]?).map (fun t =>
      ⟨t.clckPort, t.addr, t.clckRemote, encodeUtf8 (lit "IND CLOCK " ++ natDigits fn ++ [0])⟩))
  else []

theorem tick_eq_of_src {w : World} {fn : Nat} (hr : w.clkRunning = true) (hs : w.clkSrc = some fn) :
    tick w = tick.go fn w (modelInds w fn) 0 (List.range w.trxs.length) := by
  unfold tick
  rw [if_neg (by simp only [hr, not_true_eq_false, not_false_eq_true])]
  rw [hs]
  rfl

theorem tick_not_running {w : World} (hr : w.clkRunning = false) : tick w = { world := w } := by
  unfold tick
  rw [if_pos (by simp only [hr, Bool.false_eq_true, not_false_eq_true])]

theorem tick_frameC (w : World) : FrameC w (tick w).world := by
  cases hr : w.clkRunning with
  | false => rw [tick_not_running hr]; exact FrameC.refl w
  | true =>
    cases hs : w.clkSrc with
    | none =>
      unfold tick
      rw [if_neg (by simp only [hr, not_true_eq_false, not_false_eq_true]), hs]
      exact FrameC.refl w
    | some fn =>
      rw [tick_eq_of_src hr hs]
      exact (tick_go_post _ _ _ _ _).frameC

theorem jump_frameC (w : World) (fn : Nat) : FrameC w (jump w fn).world := by
  unfold jump
  split
  · exact ⟨rfl, rfl, rfl, rfl, fun _ => rfl⟩
  · exact FrameC.refl w

theorem recvDataMsg_frame (w : World) (i : Nat) (d : List Nat) : Frame w (recvDataMsg w i d).world := by
  unfold recvDataMsg
  split
  · exact Frame.refl w
  simp only []
  repeat' split
  all_goals first | exact Frame.refl w | skip
  exact Frame.setTrx _ _ _ (fun _ => rfl) (fun _ => rfl)


/-! ### TRXC: classification of `parse_cmd` -/

theorem verifyCmd_zero_iff (req : List Str) (cmd : String) :
    verifyCmd req cmd 0 = true ↔ req = [lit cmd] := by
  unfold verifyCmd
  cases req with
  | nil => simp
  | cons v args =>
    cases args with
    | nil => simp
    | cons a as => simp

theorem commonCmd_power {trx : Trx} {req : List Str} {on : Bool}
    (h : commonCmd trx req = .ok (.power on)) :
    (on = true ∧ verifyCmd req "POWERON" 0 = true ∧ trx.running = false ∧ trx.ready = true) ∨
    (on = false ∧ verifyCmd req "POWEROFF" 0 = true ∧ verifyCmd req "POWERON" 0 = false) := by
  unfold commonCmd at h
  simp only [bind, Except.bind, pure, Except.pure] at h
  split at h
  next h1 =>
    repeat' split at h
    all_goals first | (cases h; done) | skip
    cases h
    left
    simp_all
  next h1 =>
    split at h
    next h2 =>
      cases h
      right
      simp_all
    next h2 =>
      exfalso
      repeat' split at h
      all_goals first | (cases h; done) | skip

theorem fakePmMeasure_frame {w w' : World} {f v : Int} (h : fakePmMeasure w f = .ok (v, w')) : Frame w w' := by
  unfold fakePmMeasure at h
  split at h <;> exact randint_frame h

theorem applyAction_frame {w w' : World} {i : Nat} {a : Action} {r : CmdRes}
    (ha : ∀ on, a ≠ .power on) (h : applyAction w i a = .ok (w', r)) : Frame w w' := by
  cases a with
  | patch p rc => 
    simp only [applyAction, pure, Except.pure, Except.ok.injEq, Prod.mk.injEq] at h
    rw [← h.1]; exact Frame.setTrx_patch _ _ _
  | reply rc ps =>
    simp only [applyAction, pure, Except.pure, Except.ok.injEq, Prod.mk.injEq] at h
    rw [← h.1]; exact Frame.refl _
  | power on => exact absurd rfl (ha on)
  | measure f =>
    simp only [applyAction, bind, Except.bind, pure, Except.pure] at h
    split at h
    · cases h
    next v hv =>
      cases h
      exact fakePmMeasure_frame hv

/-- the world the common handler sees after the custom handler's assignment -/
def patched (w : World) (i : Nat) : Option Patch → World
  | some p => setTrx w i p.apply
  | none => w

theorem patched_frame (w : World) (i : Nat) (p : Option Patch) : Frame w (patched w i p) := by
  cases p with
  | none => exact Frame.refl w
  | some p => exact Frame.setTrx_patch _ _ _

/-- `parse_cmd` after the custom handler -/
def parseTail (w : World) (i : Nat) (req : List Str) (res : Option Int) : Except Exc (World × CmdRes) :=
  match res with
  | some rc => pure (w, (rc, []))
  | none =>
    match w.trxs[i]? with
    | none => throw .indexError
    | some trx => do
      let a ← commonCmd trx req
      applyAction w i a

theorem parseCmd_eq (w : World) (i : Nat) (req : List Str) :
    parseCmd w i req =
      match ctrlCmdHandler req with
      | .error e => .error e
      | .ok (p, res) => parseTail (patched w i p) i req res := by
  unfold parseCmd
  cases ctrlCmdHandler req with
  | error e => rfl
  | ok pr =>
    obtain ⟨p, res⟩ := pr
    cases p <;> cases res <;> rfl

theorem parseTail_cases {w w' : World} {i : Nat} {req : List Str} {res : Option Int} {r : CmdRes}
    (h : parseTail w i req res = .ok (w', r)) :
    Frame w w' ∨
    ∃ trx on, res = none ∧ w.trxs[i]? = some trx ∧ commonCmd trx req = .ok (.power on) ∧
      powerEvent w i on = .ok w' ∧ r = (0, []) := by
  unfold parseTail at h
  simp only [bind, Except.bind, pure, Except.pure, throw, throwThe, MonadExceptOf.throw] at h
  split at h
  · cases h; exact .inl (Frame.refl _)
  · split at h
    · cases h
    next trx ht =>
      split at h
      · cases h
      next a ha =>
        by_cases hpow : ∃ on, a = .power on
        · obtain ⟨on, rfl⟩ := hpow
          right
          simp only [applyAction, bind, Except.bind, pure, Except.pure] at h
          split at h
          · cases h
          next w2 hw2 =>
            cases h
            exact ⟨trx, on, rfl, ht, ha, hw2, rfl⟩
        · left
          exact applyAction_frame (fun on hon => hpow ⟨on, hon⟩) h

/-- `send_response` -/
def respond (trx : Trx) (srcAddr srcPort : Nat) (req : List Str) (w' : World) (rc : Int)
    (params : List Str) : Res :=
  let fields := match req with
    | [] => [intToStr rc]
    | verb :: args => verb :: intToStr rc :: args
  let resp := lit "RSP " ++ joinSpace (fields ++ params) ++ [0]
  { world := w', out := [⟨trx.ctrlPort, srcAddr, srcPort, encodeUtf8 resp⟩] }

/-- `handle_rx` once the request is split -/
def handleReq (w : World) (i : Nat) (trx : Trx) (srcAddr srcPort : Nat) (req : List Str) : Res :=
  match parseCmd w i req with
  | .ok (w', (rc, params)) => respond trx srcAddr srcPort req w' rc params
  | .error .valueError => respond trx srcAddr srcPort req w (-1) []
  | .error e => { world := w, exc := some e }

theorem handleRx_eq {w : World} {i : Nat} {trx : Trx} (hw : w.trxs[i]? = some trx)
    (a sp : Nat) (d : List Nat) :
    handleRx w i a sp d =
      match ctrlRequest d with
      | none => { world := w }
      | some req => handleReq w i trx a sp req := by
  unfold handleRx ctrlRequest
  rw [hw]
  simp only []
  cases decodeUtf8 (List.take Gen.World.ctrlRecvSize d) with
  | none => rfl
  | some s =>
    simp only []
    by_cases hs : startsWith s (lit "CMD") = true
    · rw [if_neg (fun hn => hn hs), if_pos hs]
      rfl
    · rw [if_pos hs, if_neg hs]

/-! ### `power_event_handler` -/

/-- transceivers `power_event_handler` of `i` updates -/
def powerList (i : Nat) (self : Trx) : List Nat :=
  if self.childMgt && self.childIdx == 0 then i :: self.children else [i]

/-- the per-transceiver update of `power_event_handler` -/
def powerSet (on : Bool) (t : Trx) : Trx :=
  if on then { t with running := true }
  else { t with running := false, txQueue := [], fh := none }

def powerTrxs (w : World) (l : List Nat) (on : Bool) : World :=
  l.foldl (fun w j => setTrx w j (powerSet on)) w

/-- the clock links after the update of `power_event_handler` -/
def powerLinks (links : List Nat) (i : Nat) (on : Bool) : List Nat :=
  if ¬ on ∧ links.contains i then links.erase i
  else if on ∧ ¬ links.contains i then links ++ [i]
  else links

/-- the world after `power_event_handler(on)` of transceiver `i` (= `self`) -/
def powerWorld (w : World) (i : Nat) (self : Trx) (on : Bool) : World :=
  let w1 := powerTrxs w (powerList i self) on
  if ¬ self.hasClock then w1 else
  let links := powerLinks w1.clkLinks i on
  if ¬ w1.clkRunning ∧ links.length > 0 then
    { w1 with clkLinks := links, clkRunning := true, clkSrc := some Gen.World.clckStart }
  else if w1.clkRunning ∧ links.isEmpty then
    { w1 with clkLinks := links, clkRunning := false }
  else { w1 with clkLinks := links }

theorem powerTrxs_clk (w : World) (l : List Nat) (on : Bool) :
    (powerTrxs w l on).clkLinks = w.clkLinks ∧ (powerTrxs w l on).clkRunning = w.clkRunning ∧
    (powerTrxs w l on).clkSrc = w.clkSrc := by
  induction l generalizing w with
  | nil => exact ⟨rfl, rfl, rfl⟩
  | cons j l ih =>
    have := ih (setTrx w j (powerSet on))
    simpa [powerTrxs] using this

theorem powerEvent_eq {w : World} {i : Nat} {self : Trx} (hw : w.trxs[i]? = some self) (on : Bool) :
    powerEvent w i on = .ok (powerWorld w i self on) := by
  unfold powerWorld
  simp only [apply_ite (Except.ok (ε := Exc))]
  unfold powerEvent
  rw [hw]
  rfl


theorem powerSet_idem (on : Bool) (t : Trx) : powerSet on (powerSet on t) = powerSet on t := by
  cases on <;> rfl

theorem powerSet_wiring (on : Bool) (t : Trx) : wiring (powerSet on t) = wiring t := by
  cases on <;> rfl

theorem powerSet_running (on : Bool) (t : Trx) : (powerSet on t).running = on := by
  cases on <;> rfl

theorem powerSet_off (t : Trx) :
    (powerSet false t).fh = none ∧ (powerSet false t).txQueue = [] ∧ (powerSet false t).running = false :=
  ⟨rfl, rfl, rfl⟩

theorem powerTrxs_getElem? (l : List Nat) (on : Bool) (w : World) (k : Nat) :
    (powerTrxs w l on).trxs[k]? = if k ∈ l then (w.trxs[k]?).map (powerSet on) else w.trxs[k]? := by
  induction l generalizing w with
  | nil => simp [powerTrxs]
  | cons j l ih =>
    have e : powerTrxs w (j :: l) on = powerTrxs (setTrx w j (powerSet on)) l on := rfl
    rw [e, ih, setTrx_getElem?]
    by_cases hj : j = k
    · subst hj
      simp only [List.mem_cons, true_or, if_true]
      split
      · cases w.trxs[j]? with
        | none => rfl
        | some t => simp only [Option.map_some, powerSet_idem]
      · rfl
    · have hj' : ¬ k = j := fun h => hj h.symm
      simp only [if_neg hj, List.mem_cons, hj', false_or]

theorem powerTrxs_wiring (w : World) (l : List Nat) (on : Bool) :
    (powerTrxs w l on).trxs.map wiring = w.trxs.map wiring := by
  induction l generalizing w with
  | nil => rfl
  | cons j l ih =>
    have e : powerTrxs w (j :: l) on = powerTrxs (setTrx w j (powerSet on)) l on := rfl
    rw [e, ih]
    exact map_modify_eq _ _ (powerSet_wiring on) _ _

theorem powerWorld_trxs (w : World) (i : Nat) (self : Trx) (on : Bool) :
    (powerWorld w i self on).trxs = (powerTrxs w (powerList i self) on).trxs := by
  unfold powerWorld
  simp only []
  repeat' split
  all_goals rfl

theorem mem_powerList {w : World} {i : Nat} {self : Trx} (hw : w.trxs[i]? = some self) (k : Nat) :
    k ∈ powerList i self ↔ affects w i k = true := by
  unfold powerList affects
  rw [hw]
  by_cases hc : (self.childMgt && self.childIdx == 0) = true
  · simp [hc]
  · simp only [hc, Bool.false_eq_true, if_false, List.mem_singleton, Bool.false_and, Bool.or_false,
      beq_iff_eq]

/-- `running`, `fh`, `txQueue` of every transceiver after `power_event_handler` -/
theorem powerWorld_getElem? {w : World} {i : Nat} {self : Trx} (hw : w.trxs[i]? = some self)
    (on : Bool) (k : Nat) :
    (powerWorld w i self on).trxs[k]? =
      if affects w i k then (w.trxs[k]?).map (powerSet on) else w.trxs[k]? := by
  rw [powerWorld_trxs, powerTrxs_getElem?]
  by_cases h : affects w i k = true
  · rw [if_pos ((mem_powerList hw k).mpr h), if_pos h]
  · rw [if_neg (fun hm => h ((mem_powerList hw k).mp hm)), if_neg h]

theorem powerWorld_wiring (w : World) (i : Nat) (self : Trx) (on : Bool) :
    (powerWorld w i self on).trxs.map wiring = w.trxs.map wiring := by
  rw [powerWorld_trxs, powerTrxs_wiring]

theorem powerWorld_noclock {w : World} {i : Nat} {self : Trx} (on : Bool) (hc : self.hasClock = false) :
    (powerWorld w i self on).clkLinks = w.clkLinks ∧ (powerWorld w i self on).clkRunning = w.clkRunning ∧
    (powerWorld w i self on).clkSrc = w.clkSrc := by
  unfold powerWorld
  simp only [hc, Bool.false_eq_true, not_false_eq_true, if_true]
  exact powerTrxs_clk _ _ _

theorem powerWorld_clock {w : World} {i : Nat} {self : Trx} (on : Bool) (hc : self.hasClock = true) :
    (powerWorld w i self on).clkLinks = powerLinks w.clkLinks i on ∧
    ((powerWorld w i self on).clkRunning = true ↔ powerLinks w.clkLinks i on ≠ []) ∧
    ((powerWorld w i self on).clkSrc =
      if ¬ w.clkRunning ∧ powerLinks w.clkLinks i on ≠ [] then some Gen.World.clckStart else w.clkSrc) := by
  obtain ⟨h1, h2, h3⟩ := powerTrxs_clk w (powerList i self) on
  unfold powerWorld
  simp only [hc, not_true_eq_false, if_false, h1, h2, h3]
  generalize powerLinks w.clkLinks i on = links
  cases hr : w.clkRunning <;> cases links <;> simp

/-! ### POWERON / POWEROFF through `handle_rx` -/

theorem parseCmd_poweron {w : World} {i : Nat} {trx : Trx} (hw : w.trxs[i]? = some trx) :
    parseCmd w i [lit "POWERON"] =
      if trx.running then .ok (w, (-1, []))
      else if ¬ trx.ready then .ok (w, (-1, []))
      else .ok (powerWorld w i trx true, (0, [])) := by
  rw [parseCmd_eq]
  have e : ctrlCmdHandler [lit "POWERON"] = .ok (none, none) := rfl
  rw [e]
  simp only [patched, parseTail, hw]
  have e2 : commonCmd trx [lit "POWERON"] = if trx.running then .ok (.reply (-1) [])
      else if ¬ trx.ready then .ok (.reply (-1) []) else .ok (.power true) := rfl
  rw [e2]
  split
  · rfl
  · split
    · rfl
    · simp only [bind, Except.bind, applyAction, powerEvent_eq hw, pure, Except.pure]

theorem parseCmd_poweroff {w : World} {i : Nat} {trx : Trx} (hw : w.trxs[i]? = some trx) :
    parseCmd w i [lit "POWEROFF"] = .ok (powerWorld w i trx false, (0, [])) := by
  rw [parseCmd_eq]
  have e : ctrlCmdHandler [lit "POWEROFF"] = .ok (none, none) := rfl
  rw [e]
  simp only [patched, parseTail, hw]
  have e2 : commonCmd trx [lit "POWEROFF"] = .ok (.power false) := rfl
  rw [e2]
  simp only [bind, Except.bind, applyAction, powerEvent_eq hw, pure, Except.pure]

theorem handleReq_poweron {w : World} {i : Nat} {trx : Trx} (hw : w.trxs[i]? = some trx) (a sp : Nat) :
    handleReq w i trx a sp [lit "POWERON"] =
      if accepted w i then
        { world := powerWorld w i trx true, out := [⟨trx.ctrlPort, a, sp, rspPowerOnOk⟩] }
      else { world := w, out := [⟨trx.ctrlPort, a, sp, rspPowerOnFail⟩] } := by
  unfold handleReq accepted
  rw [parseCmd_poweron hw, hw]
  have r1 : respond trx a sp [lit "POWERON"] w (-1) [] =
      { world := w, out := [⟨trx.ctrlPort, a, sp, rspPowerOnFail⟩] } := rfl
  have r2 : ∀ w', respond trx a sp [lit "POWERON"] w' 0 [] =
      { world := w', out := [⟨trx.ctrlPort, a, sp, rspPowerOnOk⟩] } := fun _ => rfl
  cases hr : trx.running <;> cases hy : trx.ready <;> simp [r1, r2, hr, hy]

theorem handleReq_poweroff {w : World} {i : Nat} {trx : Trx} (hw : w.trxs[i]? = some trx) (a sp : Nat) :
    handleReq w i trx a sp [lit "POWEROFF"] =
      { world := powerWorld w i trx false, out := [⟨trx.ctrlPort, a, sp, rspPowerOffOk⟩] } := by
  unfold handleReq
  rw [parseCmd_poweroff hw]
  rfl

theorem handleReq_other {w : World} {i : Nat} {trx : Trx} (a sp : Nat) {req : List Str}
    (h1 : req ≠ [lit "POWERON"]) (h2 : req ≠ [lit "POWEROFF"]) :
    Frame w (handleReq w i trx a sp req).world := by
  unfold handleReq
  split
  next w' rc params hp =>
    rw [parseCmd_eq] at hp
    split at hp
    · cases hp
    next p res hc =>
      rcases parseTail_cases hp with f | ⟨trx', on, -, -, hcc, -, -⟩
      · exact (patched_frame w i p).trans f
      · rcases commonCmd_power hcc with ⟨-, hv, -⟩ | ⟨-, hv, -⟩
        · exact absurd ((verifyCmd_zero_iff _ _).mp hv) h1
        · exact absurd ((verifyCmd_zero_iff _ _).mp hv) h2
  · exact Frame.refl w
  · exact Frame.refl w

/-! ### classification of `step` -/

theorem powerCmd_some {op : Op} {j : Nat} {on : Bool} (h : powerCmd op = some (j, on)) :
    ∃ sp d, op = .ctrl j sp d ∧
      ctrlRequest d = some [if on then lit "POWERON" else lit "POWEROFF"] := by
  cases op with
  | ctrl i sp d =>
    simp only [powerCmd] at h
    split at h
    next v hv =>
      split at h
      next h1 => cases h; exact ⟨sp, d, rfl, by rw [hv, h1]; rfl⟩
      next h1 =>
        split at h
        next h2 => cases h; exact ⟨sp, d, rfl, by rw [hv, h2]; rfl⟩
        · cases h
    · cases h
  | data i d => cases h
  | tick => cases h
  | jump fn => cases h

theorem powerCmd_ctrl_none {i sp : Nat} {d : List Nat} (h : powerCmd (.ctrl i sp d) = none) :
    ∀ req, ctrlRequest d = some req → req ≠ [lit "POWERON"] ∧ req ≠ [lit "POWEROFF"] := by
  intro req hr
  simp only [powerCmd] at h
  rw [hr] at h
  constructor
  · rintro rfl
    simp at h
  · rintro rfl
    have : lit "POWEROFF" ≠ lit "POWERON" := by decide
    simp [this] at h

theorem step_ctrl {w : World} {i : Nat} {t : Trx} (hw : w.trxs[i]? = some t) (sp : Nat) (d : List Nat) :
    step w (.ctrl i sp d) =
      match ctrlRequest d with
      | none => { world := w }
      | some req => handleReq w i t t.addr sp req := by
  simp only [step]
  rw [hw]
  exact handleRx_eq hw _ _ _

theorem step_ctrl_missing {w : World} {i : Nat} (hw : w.trxs[i]? = none) (sp : Nat) (d : List Nat) :
    step w (.ctrl i sp d) = { world := w, exc := some .indexError } := by
  simp only [step]
  rw [hw]

/-- anything that is not a power command is a frame operation -/
theorem step_no_power {w : World} {op : Op} (h : powerCmd op = none) : FrameC w (step w op).world := by
  cases op with
  | ctrl i sp d =>
    cases hw : w.trxs[i]? with
    | none => rw [step_ctrl_missing hw]; exact FrameC.refl w
    | some t =>
      rw [step_ctrl hw]
      cases hr : ctrlRequest d with
      | none => exact FrameC.refl w
      | some req =>
        obtain ⟨h1, h2⟩ := powerCmd_ctrl_none h req hr
        exact (handleReq_other _ _ h1 h2).toC
  | data i d => exact (recvDataMsg_frame w i d).toC
  | tick => exact tick_frameC w
  | jump fn => exact jump_frameC w fn

theorem step_power_missing {w : World} {op : Op} {j : Nat} {on : Bool} (h : powerCmd op = some (j, on))
    (hw : w.trxs[j]? = none) : step w op = { world := w, exc := some .indexError } := by
  obtain ⟨sp, d, rfl, -⟩ := powerCmd_some h
  exact step_ctrl_missing hw sp d

theorem step_poweron {w : World} {op : Op} {j : Nat} {t : Trx} (h : powerCmd op = some (j, true))
    (hw : w.trxs[j]? = some t) :
    ∃ sp d, op = .ctrl j sp d ∧ step w op =
      if accepted w j then
        { world := powerWorld w j t true, out := [⟨t.ctrlPort, t.addr, sp, rspPowerOnOk⟩] }
      else { world := w, out := [⟨t.ctrlPort, t.addr, sp, rspPowerOnFail⟩] } := by
  obtain ⟨sp, d, rfl, hr⟩ := powerCmd_some h
  refine ⟨sp, d, rfl, ?_⟩
  rw [step_ctrl hw, hr]
  exact handleReq_poweron hw _ _

theorem step_poweroff {w : World} {op : Op} {j : Nat} {t : Trx} (h : powerCmd op = some (j, false))
    (hw : w.trxs[j]? = some t) :
    ∃ sp d, op = .ctrl j sp d ∧ step w op =
      { world := powerWorld w j t false, out := [⟨t.ctrlPort, t.addr, sp, rspPowerOffOk⟩] } := by
  obtain ⟨sp, d, rfl, hr⟩ := powerCmd_some h
  refine ⟨sp, d, rfl, ?_⟩
  rw [step_ctrl hw, hr]
  exact handleReq_poweroff hw _ _


/-! ### the wiring invariant depends on the wiring only -/

theorem wiring_eq_iff (t t' : Trx) : wiring t = wiring t' ↔
    t.addr = t'.addr ∧ t.basePort = t'.basePort ∧ t.childIdx = t'.childIdx ∧ t.childMgt = t'.childMgt ∧
    t.hasClock = t'.hasClock ∧ t.children = t'.children := by
  simp only [wiring, Prod.mk.injEq]

theorem getElem?_wiring {ts ts' : List Trx} (h : ts'.map wiring = ts.map wiring) {i : Nat} {t' : Trx}
    (ht : ts'[i]? = some t') : ∃ t, ts[i]? = some t ∧ wiring t = wiring t' := by
  have h1 := getElem?_of_map_eq _ h i
  rw [ht] at h1
  cases hk : ts[i]? with
  | none => rw [hk] at h1; cases h1
  | some t =>
    rw [hk] at h1
    simp only [Option.map_some, Option.some.injEq] at h1
    exact ⟨t, rfl, h1.symm⟩

theorem WFT.of_wiring {ts ts' : List Trx} (h : ts'.map wiring = ts.map wiring) (wf : WFT ts) : WFT ts' := by
  have hl : ts'.length = ts.length := length_of_map_eq _ h
  have fwd : ∀ {i t'}, ts'[i]? = some t' → ∃ t, ts[i]? = some t ∧ wiring t = wiring t' :=
    fun ht => getElem?_wiring h ht
  have bwd : ∀ {i t}, ts[i]? = some t → ∃ t', ts'[i]? = some t' ∧ wiring t' = wiring t :=
    fun ht => getElem?_wiring h.symm ht
  constructor
  · intro i hi t' ht' c hc
    obtain ⟨t, ht, hw⟩ := fwd ht'
    rw [wiring_eq_iff] at hw
    obtain ⟨tc, htc, h1, h2, h3, h4⟩ := wf.child_ok i (hl ▸ hi) t ht c (by rw [hw.2.2.2.2.2]; exact hc)
    obtain ⟨tc', htc', hw'⟩ := bwd htc
    rw [wiring_eq_iff] at hw'
    exact ⟨tc', htc', by omega, by rw [hw'.2.2.2.2.1]; exact h2, by omega, by omega⟩
  · intro i hi t' ht' hne
    obtain ⟨t, ht, hw⟩ := fwd ht'
    rw [wiring_eq_iff] at hw
    have := wf.parent_ok i (hl ▸ hi) t ht (by rw [hw.2.2.2.2.2]; exact hne)
    exact ⟨by omega, by rw [← hw.2.2.2.2.1]; exact this.2⟩
  · intro i hi t' ht'
    obtain ⟨t, ht, hw⟩ := fwd ht'
    rw [wiring_eq_iff] at hw
    have := wf.clock_iff i (hl ▸ hi) t ht
    rw [← hw.2.2.2.2.1, ← hw.2.2.1]; exact this
  · intro c hc tc' htc' hpos
    obtain ⟨tc, htc, hw⟩ := fwd htc'
    rw [wiring_eq_iff] at hw
    obtain ⟨p, hp, tp, htp, h1, h2, h3, h4⟩ := wf.child_has_parent c (hl ▸ hc) tc htc (by omega)
    obtain ⟨tp', htp', hw'⟩ := bwd htp
    rw [wiring_eq_iff] at hw'
    exact ⟨p, hl ▸ hp, tp', htp', by rw [hw'.2.2.2.2.2]; exact h1, by omega, by omega, by omega⟩
  · intro i hi j hj ti' hti' tj' htj' c hc1 hc2
    obtain ⟨ti, hti, hwi⟩ := fwd hti'
    obtain ⟨tj, htj, hwj⟩ := fwd htj'
    rw [wiring_eq_iff] at hwi hwj
    exact wf.one_parent i (hl ▸ hi) j (hl ▸ hj) ti hti tj htj c (by rw [hwi.2.2.2.2.2]; exact hc1)
      (by rw [hwj.2.2.2.2.2]; exact hc2)
  · intro i hi t' ht'
    obtain ⟨t, ht, hw⟩ := fwd ht'
    rw [wiring_eq_iff] at hw
    rw [← hw.2.2.2.2.2]; exact wf.children_nodup i (hl ▸ hi) t ht
  · intro i hi j hj ti' hti' tj' htj' h1 h2 h3
    obtain ⟨ti, hti, hwi⟩ := fwd hti'
    obtain ⟨tj, htj, hwj⟩ := fwd htj'
    rw [wiring_eq_iff] at hwi hwj
    exact wf.distinct i (hl ▸ hi) j (hl ▸ hj) ti hti tj htj (by omega) (by omega) (by omega)
  · obtain ⟨t, ht, h1, h2, h3, h4, h5⟩ := wf.bts
    obtain ⟨t', ht', hw⟩ := bwd ht
    rw [wiring_eq_iff] at hw
    exact ⟨t', ht', by omega, by omega, by omega, by rw [hw.2.2.2.1]; exact h4, by rw [hw.2.2.2.2.1]; exact h5⟩
  · obtain ⟨t, ht, h1, h2, h3, h4, h5⟩ := wf.ms
    obtain ⟨t', ht', hw⟩ := bwd ht
    rw [wiring_eq_iff] at hw
    exact ⟨t', ht', by omega, by omega, by omega, by rw [hw.2.2.2.1]; exact h4, by rw [hw.2.2.2.2.1]; exact h5⟩

end OsmoVerif.WorldPower
