/-
Helper lemmas for C12 (power state, child transceivers, clock distribution):
frame facts of every entry point of the world model, the effect of `powerEvent`,
the classification of `parseCmd`, preservation of the wiring invariant by `build` and `step`.
-/
import OsmoVerif.Lemmas.World
import OsmoVerif.Spec.WorldPower

namespace OsmoVerif.WorldPower
open OsmoVerif OsmoVerif.World OsmoVerif.PyStr

/-! ### lists -/

theorem map_modify_eq {α β} (g : α → β) (f : α → α) (h : ∀ x, g (f x) = g x) (l : List α) (i : Nat) :
    (l.modify i f).map g = l.map g := by
  apply List.ext_getElem?
  intro k
  simp only [List.getElem?_map, List.getElem?_modify]
  cases l[k]? with
  | none => rfl
  | some x =>
    simp only [Option.map_eq_map, Option.map_some]
    split
    · rw [h]
    · rfl

theorem getElem?_of_map_eq {α β} (g : α → β) {l l' : List α} (h : l'.map g = l.map g) (k : Nat) :
    (l'[k]?).map g = (l[k]?).map g := by
  rw [← List.getElem?_map, ← List.getElem?_map, h]

theorem length_of_map_eq {α β} (g : α → β) {l l' : List α} (h : l'.map g = l.map g) :
    l'.length = l.length := by
  have := congrArg List.length h
  simpa using this

/-! ### frame: what data datagrams, ticks, jumps and non-power commands leave alone -/

/-- `w'` differs from `w` at most in non-wiring, non-power, non-clock state -/
structure Frame (w w' : World) : Prop where
  hwiring : w'.trxs.map wiring = w.trxs.map wiring
  hrunning : w'.trxs.map Trx.running = w.trxs.map Trx.running
  hlinks : w'.clkLinks = w.clkLinks
  hclk : w'.clkRunning = w.clkRunning
  hsrc : w'.clkSrc = w.clkSrc

theorem Frame.refl (w : World) : Frame w w := ⟨rfl, rfl, rfl, rfl, rfl⟩

theorem Frame.trans {a b c : World} (h1 : Frame a b) (h2 : Frame b c) : Frame a c :=
  ⟨h2.hwiring.trans h1.hwiring, h2.hrunning.trans h1.hrunning, h2.hlinks.trans h1.hlinks,
   h2.hclk.trans h1.hclk, h2.hsrc.trans h1.hsrc⟩

theorem Frame.length {w w' : World} (h : Frame w w') : w'.trxs.length = w.trxs.length :=
  length_of_map_eq _ h.hwiring

theorem Frame.setTrx (w : World) (i : Nat) (f : Trx → Trx)
    (hw : ∀ t, wiring (f t) = wiring t) (hr : ∀ t, (f t).running = t.running) :
    Frame w (setTrx w i f) :=
  ⟨map_modify_eq _ _ hw _ _, map_modify_eq Trx.running _ hr _ _, rfl, rfl, rfl⟩

theorem Frame.setTrx_patch (w : World) (i : Nat) (p : Patch) : Frame w (World.setTrx w i p.apply) := by
  apply Frame.setTrx
  · intro t; simp only [wiring, Patch.apply_addr, Patch.apply_basePort, Patch.apply_childIdx,
      Patch.apply_childMgt, Patch.apply_hasClock, Patch.apply_children]
  · intro t; exact Patch.apply_running p t

theorem Frame.drawK (w : World) (k : Nat) : Frame w { w with drawK := k } := ⟨rfl, rfl, rfl, rfl, rfl⟩

theorem Frame.getElem? {w w' : World} (h : Frame w w') (k : Nat) (t' : Trx) (ht : w'.trxs[k]? = some t') :
    ∃ t, w.trxs[k]? = some t ∧ wiring t = wiring t' ∧ t.running = t'.running := by
  have h1 := getElem?_of_map_eq _ h.hwiring k
  have h2 := getElem?_of_map_eq Trx.running h.hrunning k
  rw [ht] at h1 h2
  cases hk : w.trxs[k]? with
  | none => rw [hk] at h1; cases h1
  | some t =>
    rw [hk] at h1 h2
    simp only [Option.map_some, Option.some.injEq] at h1 h2
    exact ⟨t, rfl, h1.symm, h2.symm⟩

theorem Frame.runningOf {w w' : World} (h : Frame w w') (k : Nat) : runningOf w' k = runningOf w k :=
  getElem?_of_map_eq Trx.running h.hrunning k

theorem randint_frame {w w' : World} {lo hi v : Int} (h : w.randint lo hi = .ok (v, w')) : Frame w w' := by
  unfold World.randint at h
  split at h
  · cases h
  · cases h; exact Frame.drawK _ _

theorem randAround_frame {w w' : World} {b t v : Int} (h : randAround w b t = .ok (v, w')) : Frame w w' := by
  unfold randAround at h
  split at h
  · cases h; exact Frame.refl _
  · exact randint_frame h


theorem frame_ra {w a : World} {b t : Int} {v : Int × World} (h : randAround a b t = .ok v)
    (f : Frame w a) : Frame w v.snd :=
  f.trans (randAround_frame (v := v.fst) (w' := v.snd) h)

/-! ### data datagrams -/

theorem wiring_ports {t t' : Trx} (h : wiring t = wiring t') :
    t.dataPort = t'.dataPort ∧ t.addr = t'.addr ∧ t.dataRemote = t'.dataRemote ∧
    t.clckPort = t'.clckPort ∧ t.clckRemote = t'.clckRemote ∧ t.ctrlPort = t'.ctrlPort ∧
    t.ctrlRemote = t'.ctrlRemote := by
  simp only [wiring, Prod.mk.injEq] at h
  obtain ⟨h1, h2, h3, -⟩ := h
  simp only [Trx.dataPort, Trx.dataRemote, Trx.clckPort, Trx.clckRemote, Trx.ctrlPort, Trx.ctrlRemote,
    h1, h2, h3, and_self]

theorem IsDataDgram.of_frame {w w' : World} (h : Frame w w') {d : Dgram} (hd : IsDataDgram w' d) :
    IsDataDgram w d := by
  obtain ⟨t', ht', h1, h2, h3⟩ := hd
  obtain ⟨k, hk⟩ := List.getElem?_of_mem ht'
  obtain ⟨t, ht, hw, -⟩ := h.getElem? k t' hk
  have := wiring_ports hw
  exact ⟨t, List.mem_of_getElem? ht, by omega, by omega, by omega⟩

theorem sendMsg_ports {self : Trx} {msg : Trxd.RxMsg} {legacy : Bool} {ds : List Dgram}
    (h : sendMsg self msg legacy = .ok ds) :
    ∀ d ∈ ds, d.lport = self.dataPort ∧ d.raddr = self.addr ∧ d.rport = self.dataRemote := by
  unfold sendMsg at h
  split at h
  · cases h
    intro d hd
    simp only [List.mem_map] at hd
    obtain ⟨x, _, rfl⟩ := hd
    exact ⟨rfl, rfl, rfl⟩
  · cases h

/-! ### burst path: `handleDataMsg`, `forwardMsg`, `clckTick`, `tick` are frame operations -/

theorem handleDataMsg_post {w w' : World} {k j : Nat} {sm : Trxd.TxMsg} {m : Trxd.RxMsg}
    {ds : List Dgram} (h : handleDataMsg w k j sm m = .ok (w', ds)) :
    Frame w w' ∧ ∃ self, w.trxs[k]? = some self ∧
      ∀ d ∈ ds, d.lport = self.dataPort ∧ d.raddr = self.addr ∧ d.rport = self.dataRemote := by
  unfold handleDataMsg at h
  split at h
  next self src hk hj =>
    simp only [] at h
    split at h
    · cases h
    next nope w1 hd =>
      have f1 : Frame w w1 := by
        repeat' split at hd
        all_goals first | (cases hd; done) | skip
        all_goals cases hd
        all_goals first | exact Frame.refl _ | skip
        exact Frame.setTrx _ _ _ (fun _ => rfl) (fun _ => rfl)
      simp only [bind, Except.bind, pure, Except.pure, throw, throwThe, MonadExceptOf.throw] at h
      repeat' split at h
      all_goals first | (cases h; done) | skip
      all_goals cases h
      all_goals refine ⟨?_, self, hk, ?_⟩
      all_goals first | exact f1 | (intro d hd; cases hd; done) | exact sendMsg_ports (by assumption) | skip
      all_goals repeat (first | exact f1 | (apply frame_ra; assumption))
  · cases h

/-- postcondition shared by the burst-path loops: frame + the new datagrams are DATA datagrams -/
def BurstPost (w w' : World) (acc out : List Dgram) : Prop :=
  Frame w w' ∧ ∃ extra, out = acc ++ extra ∧ ∀ d ∈ extra, IsDataDgram w d

theorem BurstPost.refl (w : World) (acc : List Dgram) : BurstPost w w acc acc :=
  ⟨Frame.refl w, [], (List.append_nil _).symm, fun _ h => by cases h⟩

theorem BurstPost.step {w w1 w2 : World} {acc ds out : List Dgram} (f : Frame w w1)
    (hds : ∀ d ∈ ds, IsDataDgram w d) (h : BurstPost w1 w2 (acc ++ ds) out) : BurstPost w w2 acc out := by
  obtain ⟨f2, extra, rfl, he⟩ := h
  refine ⟨f.trans f2, ds ++ extra, by simp only [List.append_assoc], ?_⟩
  intro d hd
  rcases List.mem_append.mp hd with hd | hd
  · exact hds d hd
  · exact (he d hd).of_frame f

theorem handleDataMsg_dgrams {w w' : World} {k j : Nat} {sm : Trxd.TxMsg} {m : Trxd.RxMsg}
    {ds : List Dgram} (h : handleDataMsg w k j sm m = .ok (w', ds)) :
    Frame w w' ∧ ∀ d ∈ ds, IsDataDgram w d := by
  obtain ⟨f, self, hk, hp⟩ := handleDataMsg_post h
  exact ⟨f, fun d hd => ⟨self, List.mem_of_getElem? hk, hp d hd⟩⟩

theorem forwardMsg_go_post (j fn : Nat) (txf : Option Int) (msg : Trxd.TxMsg) (ks : List Nat) :
    ∀ (w : World) (acc : List Dgram) (w' : World) (out : List Dgram),
      forwardMsg.go j fn txf msg w acc ks = .ok (w', out) → BurstPost w w' acc out := by
  induction ks with
  | nil =>
    intro w acc w' out h
    rw [forwardMsg.go.eq_1] at h
    cases h
    exact BurstPost.refl _ _
  | cons k ks ih =>
    intro w acc w' out h
    rw [forwardMsg.go.eq_2] at h
    repeat' split at h
    all_goals first | (cases h; done) | skip
    all_goals first | exact ih _ _ _ _ h | skip
    next hh =>
      obtain ⟨f, hds⟩ := handleDataMsg_dgrams hh
      exact BurstPost.step f hds (ih _ _ _ _ h)

theorem forwardMsg_post {w w' : World} {j : Nat} {msg : Trxd.TxMsg} {ds : List Dgram}
    (h : forwardMsg w j msg = .ok (w', ds)) : BurstPost w w' [] ds := by
  unfold forwardMsg at h
  split at h
  · cases h
  split at h
  · cases h
  simp only [] at h
  split at h
  · cases h
  exact forwardMsg_go_post _ _ _ _ _ _ _ _ _ h

theorem clckTick_go_post (j : Nat) (ms : List Trxd.TxMsg) :
    ∀ (w : World) (acc : List Dgram) (w' : World) (out : List Dgram),
      clckTick.go j w acc ms = .ok (w', out) → BurstPost w w' acc out := by
  induction ms with
  | nil =>
    intro w acc w' out h
    rw [clckTick.go.eq_1] at h
    cases h
    exact BurstPost.refl _ _
  | cons m ms ih =>
    intro w acc w' out h
    rw [clckTick.go.eq_2] at h
    split at h
    · cases h
    next w1 ds hh =>
      obtain ⟨f, extra, he, hds⟩ := forwardMsg_post hh
      simp only [List.nil_append] at he
      subst he
      exact BurstPost.step f hds (ih _ _ _ _ h)

theorem clckTick_post {w w' : World} {j fn : Nat} {ds : List Dgram} {st : Nat}
    (h : clckTick w j fn = .ok (w', ds, st)) : BurstPost w w' [] ds := by
  unfold clckTick at h
  split at h
  · cases h
  next trx hj =>
    split at h
    · cases h; exact BurstPost.refl _ _
    · simp only [] at h
      split at h
      · cases h
      next w1 ds1 hh =>
        cases h
        obtain ⟨f, extra, he, hds⟩ := clckTick_go_post _ _ _ _ _ _ hh
        refine ⟨Frame.trans ?_ f, extra, he, fun d hd => (hds d hd).of_frame ?_⟩ <;>
          exact Frame.setTrx _ _ _ (fun _ => rfl) (fun _ => rfl)


/-- frame up to the clock counter: `clkSrc` may change but stays defined -/
structure FrameC (w w' : World) : Prop where
  hwiring : w'.trxs.map wiring = w.trxs.map wiring
  hrunning : w'.trxs.map Trx.running = w.trxs.map Trx.running
  hlinks : w'.clkLinks = w.clkLinks
  hclk : w'.clkRunning = w.clkRunning
  hsrc : w.clkSrc.isSome → w'.clkSrc.isSome

theorem Frame.toC {w w' : World} (h : Frame w w') : FrameC w w' :=
  ⟨h.hwiring, h.hrunning, h.hlinks, h.hclk, fun hs => by rw [h.hsrc]; exact hs⟩

theorem FrameC.refl (w : World) : FrameC w w := (Frame.refl w).toC

theorem FrameC.getElem? {w w' : World} (h : FrameC w w') (k : Nat) (t' : Trx) (ht : w'.trxs[k]? = some t') :
    ∃ t, w.trxs[k]? = some t ∧ wiring t = wiring t' ∧ t.running = t'.running := by
  have h1 := getElem?_of_map_eq _ h.hwiring k
  have h2 := getElem?_of_map_eq Trx.running h.hrunning k
  rw [ht] at h1 h2
  cases hk : w.trxs[k]? with
  | none => rw [hk] at h1; cases h1
  | some t =>
    rw [hk] at h1 h2
    simp only [Option.map_some, Option.some.injEq] at h1 h2
    exact ⟨t, rfl, h1.symm, h2.symm⟩

theorem FrameC.getElem?' {w w' : World} (h : FrameC w w') (k : Nat) (t : Trx) (ht : w.trxs[k]? = some t) :
    ∃ t', w'.trxs[k]? = some t' ∧ wiring t = wiring t' ∧ t.running = t'.running := by
  have h1 := getElem?_of_map_eq _ h.hwiring k
  have h2 := getElem?_of_map_eq Trx.running h.hrunning k
  rw [ht] at h1 h2
  cases hk : w'.trxs[k]? with
  | none => rw [hk] at h1; cases h1
  | some t' =>
    rw [hk] at h1 h2
    simp only [Option.map_some, Option.some.injEq] at h1 h2
    exact ⟨t', rfl, h1.symm, h2.symm⟩

theorem FrameC.length {w w' : World} (h : FrameC w w') : w'.trxs.length = w.trxs.length :=
  length_of_map_eq _ h.hwiring

theorem FrameC.runningOf {w w' : World} (h : FrameC w w') (k : Nat) : runningOf w' k = runningOf w k :=
  getElem?_of_map_eq Trx.running h.hrunning k

/-- what `tick.go` returns, in terms of the world it starts from -/
def TickPost (w : World) (fn : Nat) (acc : List Dgram) (r : Res) : Prop :=
  ∃ w1 extra, Frame w w1 ∧ r.out = acc ++ extra ∧ (∀ d ∈ extra, IsDataDgram w d) ∧
    ((r.exc = none ∧ r.world = { w1 with clkSrc := some ((fn + 1) % Gen.World.hyperframe) }) ∨
     (∃ e, r.exc = some e ∧ r.world = w1))

theorem tick_go_post (fn : Nat) (ks : List Nat) :
    ∀ (w : World) (acc : List Dgram) (stale : Nat), TickPost w fn acc (tick.go fn w acc stale ks) := by
  induction ks with
  | nil =>
    intro w acc stale
    rw [tick.go.eq_1]
    exact ⟨w, [], Frame.refl w, (List.append_nil _).symm, (fun _ h => by cases h), .inl ⟨rfl, rfl⟩⟩
  | cons k ks ih =>
    intro w acc stale
    rw [tick.go.eq_2]
    split
    next e he =>
      exact ⟨w, [], Frame.refl w, (List.append_nil _).symm, (fun _ h => by cases h), .inr ⟨e, rfl, rfl⟩⟩
    next w1 ds st hh =>
      obtain ⟨f, extra, he, hds⟩ := clckTick_post hh
      simp only [List.nil_append] at he
      subst he
      obtain ⟨w2, extra2, f2, ho, hd2, hw⟩ := ih w1 (acc ++ ds) (stale + st)
      refine ⟨w2, ds ++ extra2, f.trans f2, by rw [ho, List.append_assoc], ?_, hw⟩
      intro d hd
      rcases List.mem_append.mp hd with hd | hd
      · exact hds d hd
      · exact (hd2 d hd).of_frame f

theorem TickPost.frameC {w : World} {fn : Nat} {acc : List Dgram} {r : Res} (h : TickPost w fn acc r) :
    FrameC w r.world := by
  obtain ⟨w1, extra, f, -, -, hw⟩ := h
  rcases hw with ⟨-, hw⟩ | ⟨e, -, hw⟩
  · rw [hw]; exact ⟨f.hwiring, f.hrunning, f.hlinks, f.hclk, fun _ => rfl⟩
  · rw [hw]; exact f.toC

/-- the model's list of clock indications at a tick -/
def modelInds (w : World) (fn : Nat) : List Dgram :=
  if fn % Gen.World.indPeriod = 0 then
    w.clkLinks.filterMap (fun i => (w.trxs[i]?).map (fun t =>
      ⟨t.clckPort, t.addr, t.clckRemote, encodeUtf8 (lit "IND CLOCK " ++ natDigits fn ++ [0])⟩))
  else []

theorem tick_eq_of_src {w : World} {fn : Nat} (hr : w.clkRunning = true) (hs : w.clkSrc = some fn) :
    tick w = tick.go fn w (modelInds w fn) 0 (List.range w.trxs.length) := by
  unfold tick
  rw [if_neg (by simp only [hr, not_true_eq_false, not_false_eq_true])]
  rw [hs]
  rfl

theorem tick_not_running {w : World} (hr : w.clkRunning = false) : tick w = { world := w } := by
  unfold tick
  rw [if_pos (by simp only [hr, Bool.false_eq_true, not_false_eq_true])]

theorem tick_frameC (w : World) : FrameC w (tick w).world := by
  cases hr : w.clkRunning with
  | false => rw [tick_not_running hr]; exact FrameC.refl w
  | true =>
    cases hs : w.clkSrc with
    | none =>
      unfold tick
      rw [if_neg (by simp only [hr, not_true_eq_false, not_false_eq_true]), hs]
      exact FrameC.refl w
    | some fn =>
      rw [tick_eq_of_src hr hs]
      exact (tick_go_post _ _ _ _ _).frameC

theorem jump_frameC (w : World) (fn : Nat) : FrameC w (jump w fn).world := by
  unfold jump
  split
  · exact ⟨rfl, rfl, rfl, rfl, fun _ => rfl⟩
  · exact FrameC.refl w

theorem recvDataMsg_frame (w : World) (i : Nat) (d : List Nat) : Frame w (recvDataMsg w i d).world := by
  unfold recvDataMsg
  split
  · exact Frame.refl w
  simp only []
  repeat' split
  all_goals first | exact Frame.refl w | skip
  exact Frame.setTrx _ _ _ (fun _ => rfl) (fun _ => rfl)


/-! ### TRXC: classification of `parse_cmd` -/

theorem verifyCmd_zero_iff (req : List Str) (cmd : String) :
    verifyCmd req cmd 0 = true ↔ req = [lit cmd] := by
  unfold verifyCmd
  cases req with
  | nil => simp
  | cons v args =>
    cases args with
    | nil => simp
    | cons a as => simp

theorem commonCmd_power {trx : Trx} {req : List Str} {on : Bool}
    (h : commonCmd trx req = .ok (.power on)) :
    (on = true ∧ verifyCmd req "POWERON" 0 = true ∧ trx.running = false ∧ trx.ready = true) ∨
    (on = false ∧ verifyCmd req "POWEROFF" 0 = true ∧ verifyCmd req "POWERON" 0 = false) := by
  unfold commonCmd at h
  simp only [bind, Except.bind, pure, Except.pure] at h
  split at h
  next h1 =>
    repeat' split at h
    all_goals first | (cases h; done) | skip
    cases h
    left
    simp_all
  next h1 =>
    split at h
    next h2 =>
      cases h
      right
      simp_all
    next h2 =>
      exfalso
      repeat' split at h
      all_goals first | (cases h; done) | skip

theorem fakePmMeasure_frame {w w' : World} {f v : Int} (h : fakePmMeasure w f = .ok (v, w')) : Frame w w' := by
  unfold fakePmMeasure at h
  split at h <;> exact randint_frame h

theorem applyAction_frame {w w' : World} {i : Nat} {a : Action} {r : CmdRes}
    (ha : ∀ on, a ≠ .power on) (h : applyAction w i a = .ok (w', r)) : Frame w w' := by
  cases a with
  | patch p rc => 
    simp only [applyAction, pure, Except.pure, Except.ok.injEq, Prod.mk.injEq] at h
    rw [← h.1]; exact Frame.setTrx_patch _ _ _
  | reply rc ps =>
    simp only [applyAction, pure, Except.pure, Except.ok.injEq, Prod.mk.injEq] at h
    rw [← h.1]; exact Frame.refl _
  | power on => exact absurd rfl (ha on)
  | measure f =>
    simp only [applyAction, bind, Except.bind, pure, Except.pure] at h
    split at h
    · cases h
    next v hv =>
      cases h
      exact fakePmMeasure_frame hv

/-- the world the common handler sees after the custom handler's assignment -/
def patched (w : World) (i : Nat) : Option Patch → World
  | some p => setTrx w i p.apply
  | none => w

theorem patched_frame (w : World) (i : Nat) (p : Option Patch) : Frame w (patched w i p) := by
  cases p with
  | none => exact Frame.refl w
  | some p => exact Frame.setTrx_patch _ _ _

/-- `parse_cmd` after the custom handler -/
def parseTail (w : World) (i : Nat) (req : List Str) (res : Option Int) : Except Exc (World × CmdRes) :=
  match res with
  | some rc => pure (w, (rc, []))
  | none =>
    match w.trxs[i]? with
    | none => throw .indexError
    | some trx => do
      let a ← commonCmd trx req
      applyAction w i a

theorem parseCmd_eq (w : World) (i : Nat) (req : List Str) :
    parseCmd w i req =
      match ctrlCmdHandler req with
      | .error e => .error e
      | .ok (p, res) => parseTail (patched w i p) i req res := by
  unfold parseCmd
  cases ctrlCmdHandler req with
  | error e => rfl
  | ok pr =>
    obtain ⟨p, res⟩ := pr
    cases p <;> cases res <;> rfl

theorem parseTail_cases {w w' : World} {i : Nat} {req : List Str} {res : Option Int} {r : CmdRes}
    (h : parseTail w i req res = .ok (w', r)) :
    Frame w w' ∨
    ∃ trx on, res = none ∧ w.trxs[i]? = some trx ∧ commonCmd trx req = .ok (.power on) ∧
      powerEvent w i on = .ok w' ∧ r = (0, []) := by
  unfold parseTail at h
  simp only [bind, Except.bind, pure, Except.pure, throw, throwThe, MonadExceptOf.throw] at h
  split at h
  · cases h; exact .inl (Frame.refl _)
  · split at h
    · cases h
    next trx ht =>
      split at h
      · cases h
      next a ha =>
        by_cases hpow : ∃ on, a = .power on
        · obtain ⟨on, rfl⟩ := hpow
          right
          simp only [applyAction, bind, Except.bind, pure, Except.pure] at h
          split at h
          · cases h
          next w2 hw2 =>
            cases h
            exact ⟨trx, on, rfl, ht, ha, hw2, rfl⟩
        · left
          exact applyAction_frame (fun on hon => hpow ⟨on, hon⟩) h

/-- `send_response` -/
def respond (trx : Trx) (srcAddr srcPort : Nat) (req : List Str) (w' : World) (rc : Int)
    (params : List Str) : Res :=
  let fields := match req with
    | [] => [intToStr rc]
    | verb :: args => verb :: intToStr rc :: args
  let resp := lit "RSP " ++ joinSpace (fields ++ params) ++ [0]
  { world := w', out := [⟨trx.ctrlPort, srcAddr, srcPort, encodeUtf8 resp⟩] }

/-- `handle_rx` once the request is split -/
def handleReq (w : World) (i : Nat) (trx : Trx) (srcAddr srcPort : Nat) (req : List Str) : Res :=
  match parseCmd w i req with
  | .ok (w', (rc, params)) => respond trx srcAddr srcPort req w' rc params
  | .error .valueError => respond trx srcAddr srcPort req w (-1) []
  | .error e => { world := w, exc := some e }

theorem handleRx_eq {w : World} {i : Nat} {trx : Trx} (hw : w.trxs[i]? = some trx)
    (a sp : Nat) (d : List Nat) :
    handleRx w i a sp d =
      match ctrlRequest d with
      | none => { world := w }
      | some req => handleReq w i trx a sp req := by
  unfold handleRx ctrlRequest
  rw [hw]
  simp only []
  cases decodeUtf8 (List.take Gen.World.ctrlRecvSize d) with
  | none => rfl
  | some s =>
    simp only []
    by_cases hs : startsWith s (lit "CMD") = true
    · rw [if_neg (fun hn => hn hs), if_pos hs]
      rfl
    · rw [if_pos hs, if_neg hs]

end OsmoVerif.WorldPower
