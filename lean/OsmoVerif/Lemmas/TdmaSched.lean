import OsmoVerif.Model.TdmaSched
import OsmoVerif.Spec.TdmaSched
