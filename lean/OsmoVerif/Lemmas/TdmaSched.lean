/- C08 lemmas, top level: bridges between histories of the model and of the abstract machine. -/
import OsmoVerif.Lemmas.TdmaSchedOps
import OsmoVerif.Lemmas.TdmaSchedSpec

set_option linter.unusedVariables false

namespace OsmoVerif.TdmaSched
open OsmoVerif.Spec.TdmaSched (AItem Due)

/-- how many times an operation ran the item `x` -/
def ranCount (x : AItem Cb) (o : Out) : Nat := (o.ran.map absItem).count x

def isExecOp : Op → Bool
  | .execute => true
  | _ => false

def isAdvOp : Op → Bool
  | .advance => true
  | _ => false

def isResetOp : Op → Bool
  | .reset => true
  | _ => false

/-- number of `tdma_sched_advance()` calls among the first `i` operations -/
def advancesBefore (ops : List Op) (i : Nat) : Nat := (ops.take i).countP isAdvOp

/-- the firmware discipline (sync.c, frame interrupt): `tdma_sched_execute()` exactly once per
frame, before `tdma_sched_advance()`; `e` = the current frame has already been executed -/
def disciplined : Bool → List Op → Bool
  | _, [] => true
  | e, op :: ops =>
    if isExecOp op then (!e && disciplined true ops)
    else if isAdvOp op then (e && disciplined false ops)
    else disciplined e ops

theorem isExec_absOp (op : Op) : Spec.TdmaSched.isExec (absOp op) = isExecOp op := by cases op <;> rfl
theorem isAdv_absOp (op : Op) : Spec.TdmaSched.isAdv (absOp op) = isAdvOp op := by cases op <;> rfl
theorem isReset_absOp (op : Op) : Spec.TdmaSched.isReset (absOp op) = isResetOp op := by cases op <;> rfl

theorem disciplined_absOp : ∀ (ops : List Op) (e : Bool),
    Spec.TdmaSched.disciplined e (ops.map absOp) = disciplined e ops
  | [], _ => rfl
  | op :: ops, e => by
    simp only [List.map_cons, Spec.TdmaSched.disciplined, disciplined, isExec_absOp, isAdv_absOp,
      disciplined_absOp ops]

theorem advBefore_absOp (ops : List Op) (i : Nat) :
    Spec.TdmaSched.advBefore (ops.map absOp) i = advancesBefore ops i := by
  simp only [Spec.TdmaSched.advBefore, advancesBefore, ← List.map_take, List.countP_map]
  congr 1
  funext op
  simp only [Function.comp, isAdv_absOp]

theorem getElem?_isExec_absOp (ops : List Op) (i : Nat) :
    ((ops.map absOp)[i]?).map Spec.TdmaSched.isExec = (ops[i]?).map isExecOp := by
  simp only [List.getElem?_map, Option.map_map]
  congr 1
  funext op
  simp only [Function.comp, isExec_absOp]

theorem outsMatch_counts (x : AItem Cb) : ∀ (outs : List Out) (souts : List (Spec.TdmaSched.Out Cb)),
    OutsMatch outs souts → outs.map (ranCount x) = souts.map (fun o => o.toRun.count x)
  | [], [], _ => rfl
  | [], _ :: _, h => by simp [OutsMatch] at h
  | _ :: _, [], h => by simp [OutsMatch] at h
  | o :: os, so :: sos, h => by
    obtain ⟨h1, h2⟩ := h
    simp only [List.map_cons, outsMatch_counts x os sos h2, ranCount]
    rw [h1.2.1.count_eq]

theorem outsMatch_rc : ∀ (outs : List Out) (souts : List (Spec.TdmaSched.Out Cb)),
    OutsMatch outs souts → outs.map (·.rc) = souts.map (·.rc)
  | [], [], _ => rfl
  | [], _ :: _, h => by simp [OutsMatch] at h
  | _ :: _, [], h => by simp [OutsMatch] at h
  | o :: os, so :: sos, h => by
    obtain ⟨h1, h2⟩ := h
    simp only [List.map_cons, outsMatch_rc os sos h2, h1.1]

theorem run_length (env : Env) : ∀ (ops : List Op) (s s' : Sched) (outs : List Out),
    run env s ops = .ok (s', outs) → outs.length = ops.length
  | [], s, s', outs, h => by
    simp only [run, Except.ok.injEq, Prod.mk.injEq] at h
    rw [← h.2]; rfl
  | op :: ops, s, s', outs, h => by
    simp only [run, bind, Except.bind] at h
    cases h1 : step env s op with
    | error f => simp [h1] at h
    | ok r1 =>
      obtain ⟨s1, o⟩ := r1
      simp only [h1] at h
      cases h2 : run env s1 ops with
      | error f => simp [h2] at h
      | ok r2 =>
        obtain ⟨s2, os⟩ := r2
        simp only [h2, pure, Except.pure, Except.ok.injEq, Prod.mk.injEq] at h
        rw [← h.2]
        simp [run_length env ops s1 s2 os h2]

/-- pointwise reading of an equality `outs.map f = t` -/
theorem map_eq_getD {α : Type} (f : α → Nat) (l : List α) (t : List Nat) (h : l.map f = t)
    (i : Nat) (o : α) (ho : l[i]? = some o) : f o = t.getD i 0 := by
  have : (l.map f)[i]? = some (f o) := by simp [ho]
  rw [h] at this
  simp [List.getD_eq_getElem?_getD, this]

theorem framesOf_length (p3 : Nat) : ∀ set, (framesOf p3 set).length = markers set + 1
  | [] => rfl
  | it :: rest => by
    simp only [framesOf, markers]
    split
    · rfl
    · split
      · simp [framesOf_length p3 rest]
      · obtain ⟨f, fs, hf⟩ := framesOf_ne_nil p3 rest
        have := framesOf_length p3 rest
        rw [hf] at this ⊢
        simpa using this

theorem isExecOp_iff (ops : List Op) (i : Nat) :
    (ops[i]?).map isExecOp = some true ↔ ops[i]? = some .execute := by
  cases h : ops[i]? with
  | none => simp
  | some op => cases op <;> simp [isExecOp]

theorem at_of_counts (x : AItem Cb) (due : Due Cb) (d : Nat) (hd : d < 25)
    (h1 : (due d).count x = 1) (h0 : ∀ e, e < 25 → e ≠ d → (due e).count x = 0) :
    Spec.TdmaSched.At x due (some d) := by
  refine ⟨fun d' h => by simp only [Option.some.injEq] at h; omega, ?_⟩
  intro e he
  by_cases hed : e = d
  · subst hed; simp [h1]
  · have : ¬ (some d = some e) := by simp only [Option.some.injEq]; omega
    simp only [this, if_false]; exact h0 e he hed

theorem placed_ne (x : AItem Cb) (rest : List Op)
    (hother : ∀ op ∈ rest, x ∉ Spec.TdmaSched.placed (absOp op)) :
    ∀ op ∈ rest.map absOp, ∀ it ∈ Spec.TdmaSched.placed op, it ≠ x := by
  intro op hop it hit hx
  obtain ⟨o, ho, rfl⟩ := List.mem_map.mp hop
  subst hx
  exact hother o ho hit

end OsmoVerif.TdmaSched
