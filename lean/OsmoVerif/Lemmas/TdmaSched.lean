/- C08 lemmas, top level: bridges between histories of the model and of the abstract machine. -/
import OsmoVerif.Lemmas.TdmaSchedExec

set_option linter.unusedVariables false

namespace OsmoVerif.TdmaSched
open OsmoVerif.Spec.TdmaSched (AItem Due)

/-- how many times an operation ran the item `x` -/
def ranCount (x : AItem Cb) (o : Out) : Nat := (o.ran.map absItem).count x

def isExecOp : Op → Bool
  | .execute => true
  | _ => false

def isAdvOp : Op → Bool
  | .advance => true
  | _ => false

def isResetOp : Op → Bool
  | .reset => true
  | _ => false

/-- number of `tdma_sched_advance()` calls among the first `i` operations -/
def advancesBefore (ops : List Op) (i : Nat) : Nat := (ops.take i).countP isAdvOp

/-- the firmware discipline (sync.c, frame interrupt): `tdma_sched_execute()` exactly once per
frame, before `tdma_sched_advance()`; `e` = the current frame has already been executed -/
def disciplined : Bool → List Op → Bool
  | _, [] => true
  | e, op :: ops =>
    if isExecOp op then (!e && disciplined true ops)
    else if isAdvOp op then (e && disciplined false ops)
    else disciplined e ops

theorem isExec_absOp (op : Op) : Spec.TdmaSched.isExec (absOp op) = isExecOp op := by cases op <;> rfl
theorem isAdv_absOp (op : Op) : Spec.TdmaSched.isAdv (absOp op) = isAdvOp op := by cases op <;> rfl
theorem isReset_absOp (op : Op) : Spec.TdmaSched.isReset (absOp op) = isResetOp op := by cases op <;> rfl

theorem disciplined_absOp : ∀ (ops : List Op) (e : Bool),
    Spec.TdmaSched.disciplined e (ops.map absOp) = disciplined e ops
  | [], _ => rfl
  | op :: ops, e => by
    simp only [List.map_cons, Spec.TdmaSched.disciplined, disciplined, isExec_absOp, isAdv_absOp,
      disciplined_absOp ops]

theorem advBefore_absOp (ops : List Op) (i : Nat) :
    Spec.TdmaSched.advBefore (ops.map absOp) i = advancesBefore ops i := by
  simp only [Spec.TdmaSched.advBefore, advancesBefore, ← List.map_take, List.countP_map]
  congr 1
  funext op
  simp only [Function.comp, isAdv_absOp]

theorem getElem?_isExec_absOp (ops : List Op) (i : Nat) :
    ((ops.map absOp)[i]?).map Spec.TdmaSched.isExec = (ops[i]?).map isExecOp := by
  simp only [List.getElem?_map, Option.map_map]
  congr 1
  funext op
  simp only [Function.comp, isExec_absOp]

theorem outsMatch_counts (x : AItem Cb) : ∀ (outs : List Out) (souts : List (Spec.TdmaSched.Out Cb)),
    OutsMatch outs souts → outs.map (ranCount x) = souts.map (fun o => o.toRun.count x)
  | [], [], _ => rfl
  | [], _ :: _, h => by simp [OutsMatch] at h
  | _ :: _, [], h => by simp [OutsMatch] at h
  | o :: os, so :: sos, h => by
    obtain ⟨h1, h2⟩ := h
    simp only [List.map_cons, outsMatch_counts x os sos h2, ranCount]
    rw [h1.2.1.count_eq]

theorem outsMatch_rc : ∀ (outs : List Out) (souts : List (Spec.TdmaSched.Out Cb)),
    OutsMatch outs souts → outs.map (·.rc) = souts.map (·.rc)
  | [], [], _ => rfl
  | [], _ :: _, h => by simp [OutsMatch] at h
  | _ :: _, [], h => by simp [OutsMatch] at h
  | o :: os, so :: sos, h => by
    obtain ⟨h1, h2⟩ := h
    simp only [List.map_cons, outsMatch_rc os sos h2, h1.1]

theorem run_length (env : Env) : ∀ (ops : List Op) (s s' : Sched) (outs : List Out),
    run env s ops = .ok (s', outs) → outs.length = ops.length
  | [], s, s', outs, h => by
    simp only [run, Except.ok.injEq, Prod.mk.injEq] at h
    rw [← h.2]; rfl
  | op :: ops, s, s', outs, h => by
    simp only [run, bind, Except.bind] at h
    cases h1 : step env s op with
    | error f => simp [h1] at h
    | ok r1 =>
      obtain ⟨s1, o⟩ := r1
      simp only [h1] at h
      cases h2 : run env s1 ops with
      | error f => simp [h2] at h
      | ok r2 =>
        obtain ⟨s2, os⟩ := r2
        simp only [h2, pure, Except.pure, Except.ok.injEq, Prod.mk.injEq] at h
        rw [← h.2]
        simp [run_length env ops s1 s2 os h2]

/-- pointwise reading of an equality `outs.map f = t` -/
theorem map_eq_getD {α : Type} (f : α → Nat) (l : List α) (t : List Nat) (h : l.map f = t)
    (i : Nat) (o : α) (ho : l[i]? = some o) : f o = t.getD i 0 := by
  have : (l.map f)[i]? = some (f o) := by simp [ho]
  rw [h] at this
  simp [List.getD_eq_getElem?_getD, this]

theorem framesOf_length (p3 : Nat) : ∀ set, (framesOf p3 set).length = markers set + 1
  | [] => rfl
  | it :: rest => by
    simp only [framesOf, markers]
    split
    · rfl
    · split
      · simp [framesOf_length p3 rest]
      · obtain ⟨f, fs, hf⟩ := framesOf_ne_nil p3 rest
        have := framesOf_length p3 rest
        rw [hf] at this ⊢
        simpa using this

theorem isExecOp_iff (ops : List Op) (i : Nat) :
    (ops[i]?).map isExecOp = some true ↔ ops[i]? = some .execute := by
  cases h : ops[i]? with
  | none => simp
  | some op => cases op <;> simp [isExecOp]

theorem at_of_counts (x : AItem Cb) (due : Due Cb) (d : Nat) (hd : d < 25)
    (h1 : (due d).count x = 1) (h0 : ∀ e, e < 25 → e ≠ d → (due e).count x = 0) :
    Spec.TdmaSched.At x due (some d) := by
  refine ⟨fun d' h => by simp only [Option.some.injEq] at h; omega, ?_⟩
  intro e he
  by_cases hed : e = d
  · subst hed; simp [h1]
  · have : ¬ (some d = some e) := by simp only [Option.some.injEq]; omega
    simp only [this, if_false]; exact h0 e he hed

theorem placed_ne (x : AItem Cb) (rest : List Op)
    (hother : ∀ op ∈ rest, x ∉ Spec.TdmaSched.placed (absOp op)) :
    ∀ op ∈ rest.map absOp, ∀ it ∈ Spec.TdmaSched.placed op, it ≠ x := by
  intro op hop it hit hx
  obtain ⟨o, ho, rfl⟩ := List.mem_map.mp hop
  subst hx
  exact hother o ho hit

/-! ### following one item through a history with callbacks that schedule on the fly -/

/-- One operation.  If none of the calls made from inside during this operation places `x`
(`hfly`, a statement about what happened: `flyOps env out`), the operation moves and runs `x` like the
abstract machine does. -/
theorem step_track_model (env : Env) (s : Sched) (op : Op) (x : AItem Cb) (pos : Option Nat)
    (hinv : Inv env s) (henv : EnvOk env) (hop : OpOk env op) (hat : Spec.TdmaSched.At x (abs s) pos)
    (hx : ∀ it ∈ Spec.TdmaSched.placed (absOp op), it ≠ x) :
    ∃ s' out, step env s op = .ok (s', out) ∧ Inv env s' ∧
      ((∀ c ∈ flyOps env out, ∀ it ∈ Spec.TdmaSched.placed c, it ≠ x) →
        Spec.TdmaSched.At x (abs s') (Spec.TdmaSched.trackStep pos (absOp op)).1 ∧
        ranCount x out = (Spec.TdmaSched.trackStep pos (absOp op)).2) := by
  obtain ⟨s', out, h1, hi, hex, hnex⟩ := step_spec env s op hinv henv hop
  refine ⟨s', out, h1, hi, ?_⟩
  intro hfly
  by_cases he : op = .execute
  · subst he
    obtain ⟨_, _, hx'⟩ := hex rfl
    exact Spec.TdmaSched.execOnTheFly_track (absScr env) (abs s) (abs s') _ _ x pos (absScr_isCall env) hx'
      hat hfly
  · obtain ⟨hr, _, ha, _⟩ := hnex he
    obtain ⟨t1, t2⟩ := Spec.TdmaSched.step_track x (abs s) pos (absOp op) hat hx
    rw [ha]
    refine ⟨t1, ?_⟩
    rw [← t2]
    simp only [ranCount, hr, List.map_nil, List.count_nil]
    cases op with
    | execute => exact absurd rfl he
    | schedule off cb p1 p2 p3 prio => simp [absOp, Spec.TdmaSched.step]
    | scheduleSet off set p3 => simp [absOp, Spec.TdmaSched.step]
    | advance => simp [absOp, Spec.TdmaSched.step]
    | reset => simp [absOp, Spec.TdmaSched.step]

/-- Whole histories: the number of times each operation runs `x`, provided no operation and no call
made from inside during the history places `x`. -/
theorem run_track_model (env : Env) (henv : EnvOk env) (x : AItem Cb) : ∀ (ops : List Op) (s : Sched)
    (pos : Option Nat), Inv env s → (∀ op ∈ ops, OpOk env op) → Spec.TdmaSched.At x (abs s) pos →
    (∀ op ∈ ops, ∀ it ∈ Spec.TdmaSched.placed (absOp op), it ≠ x) →
    ∃ s' outs, run env s ops = .ok (s', outs) ∧ Inv env s' ∧
      ((∀ o ∈ outs, ∀ c ∈ flyOps env o, ∀ it ∈ Spec.TdmaSched.placed c, it ≠ x) →
        outs.map (ranCount x) = Spec.TdmaSched.track pos (ops.map absOp))
  | [], s, pos, hinv, _, _, _ => ⟨s, [], rfl, hinv, fun _ => rfl⟩
  | op :: ops, s, pos, hinv, hops, hat, hx => by
    obtain ⟨s1, o, h1, hi1, ht1⟩ := step_track_model env s op x pos hinv henv (hops op (List.mem_cons_self ..))
      hat (hx op (List.mem_cons_self ..))
    cases h2 : run env s1 ops with
    | error f =>
      obtain ⟨s', outs, h2', _⟩ := run_safe env henv ops s1 hi1 (fun y hy => hops y (List.mem_cons_of_mem _ hy))
      rw [h2] at h2'; exact absurd h2' (by simp)
    | ok res =>
      obtain ⟨s', outs⟩ := res
      obtain ⟨s'', outs', h2', hi2⟩ := run_safe env henv ops s1 hi1 (fun y hy => hops y (List.mem_cons_of_mem _ hy))
      rw [h2] at h2'
      simp only [Except.ok.injEq, Prod.mk.injEq] at h2'
      obtain ⟨e1, e2⟩ := h2'
      subst e1; subst e2
      refine ⟨s', o :: outs, by simp only [run, bind, Except.bind, h1, h2]; rfl, hi2, ?_⟩
      intro hfly
      obtain ⟨hat1, hc1⟩ := ht1 (hfly o (List.mem_cons_self ..))
      obtain ⟨s3, outs3, h3, _, ht3⟩ := run_track_model env henv x ops s1 _ hi1
        (fun y hy => hops y (List.mem_cons_of_mem _ hy)) hat1 (fun y hy => hx y (List.mem_cons_of_mem _ hy))
      rw [h2] at h3
      simp only [Except.ok.injEq, Prod.mk.injEq] at h3
      obtain ⟨e1, e2⟩ := h3
      subst e1; subst e2
      simp only [List.map_cons, Spec.TdmaSched.track, hc1]
      rw [ht3 (fun o' ho' => hfly o' (List.mem_cons_of_mem _ ho'))]

/-- callbacks that do not re-enter: nothing is scheduled from inside -/
theorem flyOps_noReentry (env : Env) (h : NoReentry env) (o : Out) : flyOps env o = [] := by
  simp only [flyOps]
  apply List.flatMap_eq_nil_iff.mpr
  intro y _
  exact absScr_noReentry env h y

/-- no call made from inside during the history `outs` places `x` (a fact about what happened) -/
def NoFlyPlaces (env : Env) (x : AItem Cb) (outs : List Out) : Prop :=
  ∀ o ∈ outs, ∀ c ∈ flyOps env o, x ∉ Spec.TdmaSched.placed c

instance (env : Env) (x : AItem Cb) (outs : List Out) : Decidable (NoFlyPlaces env x outs) := by
  unfold NoFlyPlaces; infer_instance

theorem placed_ne_ops (x : AItem Cb) (ops : List Op)
    (hother : ∀ op ∈ ops, x ∉ Spec.TdmaSched.placed (absOp op)) :
    ∀ op ∈ ops, ∀ it ∈ Spec.TdmaSched.placed (absOp op), it ≠ x := by
  intro op hop it hit hx
  subst hx
  exact hother op hop hit

theorem placed_ne_fly (env : Env) (x : AItem Cb) (outs : List Out) (h : NoFlyPlaces env x outs) :
    ∀ o ∈ outs, ∀ c ∈ flyOps env o, ∀ it ∈ Spec.TdmaSched.placed c, it ≠ x := by
  intro o ho c hc it hit hx
  subst hx
  exact h o ho c hc hit

/-- `cur_bucket` after a history: the start position plus the number of advances, modulo the ring size —
for histories of any length (the `uint8_t` never sees a value above 24) -/
theorem run_cur (env : Env) (henv : EnvOk env) : ∀ (ops : List Op) (s : Sched), Inv env s →
    (∀ op ∈ ops, OpOk env op) →
    ∃ s' outs, run env s ops = .ok (s', outs) ∧ Inv env s' ∧
      s'.cur = (s.cur + ops.countP isAdvOp) % 25
  | [], s, hinv, _ => ⟨s, [], rfl, hinv, by have := hinv.1.2.1; simp; omega⟩
  | op :: ops, s, hinv, hops => by
    obtain ⟨s1, o, h1, hi1, _, _⟩ := step_spec env s op hinv henv (hops op (List.mem_cons_self ..))
    have hc1 := step_cur env s op hinv henv (hops op (List.mem_cons_self ..)) s1 o h1
    obtain ⟨s', outs, h2, hi2, hc2⟩ := run_cur env henv ops s1 hi1 (fun y hy => hops y (List.mem_cons_of_mem _ hy))
    refine ⟨s', o :: outs, by simp only [run, bind, Except.bind, h1, h2]; rfl, hi2, ?_⟩
    rw [hc2, hc1, List.countP_cons]
    cases op <;> simp [isAdvOp] <;> omega

end OsmoVerif.TdmaSched
