/-
Helper lemmas for C14 (parser half): the receiving half of the TRXD interface (`OsmoVerif.Model.TrxdIf`)
and read-only histories on a capture reader (`OsmoVerif.Model.TrxdDumpHist`).
-/
import OsmoVerif.Model.TrxdIf
import OsmoVerif.Lemmas.TrxdParse
import OsmoVerif.Lemmas.TrxdDumpHist
namespace OsmoVerif.TrxdIf
open OsmoVerif OsmoVerif.Trxd

/-- the `except` clauses of `recv_tx_msg` / `recv_rx_msg` swallow (at least) `ValueError` -/
theorem txCatches_valueError : catches Gen.TrxdIf.txCatches .valueError = true := by decide
theorem rxCatches_valueError : catches Gen.TrxdIf.rxCatches .valueError = true := by decide

theorem octets_take (d : Bytes) (n : Nat) (h : ∀ x ∈ d, x < 256) : ∀ x ∈ d.take n, x < 256 :=
  fun x hx => h x (List.mem_of_mem_take hx)

/-- `recv_tx_msg()`: the outcome by cases of the parser's outcome -/
theorem recvTxMsg_cases (s : DataIf) (d : Bytes) :
    (recvTxMsg s d).2 = s ∧
    ((TxMsg.parseMsg (d.take Gen.TrxdIf.txRecvSize) = .error .valueError ∧ (recvTxMsg s d).1 = .ok none) ∨
     (∃ m, TxMsg.parseMsg (d.take Gen.TrxdIf.txRecvSize) = .ok m ∧
        (recvTxMsg s d).1 = .ok (if m.ver = s.hdrVer then some m else none))) := by
  unfold recvTxMsg recvRawData
  rcases TxMsg.parseMsg_cases (d.take Gen.TrxdIf.txRecvSize) with ⟨he, _⟩ | ⟨m, hm, _⟩
  · simp only [he, txCatches_valueError, if_true, true_and, reduceCtorEq, false_and, exists_false, or_false]
  · simp only [hm, matchHdrVer, beq_iff_eq]
    refine ⟨by split <;> rfl, Or.inr ⟨m, rfl, ?_⟩⟩
    by_cases hv : m.ver = s.hdrVer <;> simp only [hv, not_true_eq_false, not_false_eq_true, if_true, if_false]

/-- `recv_rx_msg()`: the outcome by cases of the parser's outcome (datagrams are octet strings) -/
theorem recvRxMsg_cases (s : DataIf) (d : Bytes) (hd : ∀ x ∈ d, x < 256) :
    (recvRxMsg s d).2 = s ∧
    ((RxMsg.parseMsg (d.take Gen.TrxdIf.rxRecvSize) = .error .valueError ∧ (recvRxMsg s d).1 = .ok none) ∨
     (∃ m, RxMsg.parseMsg (d.take Gen.TrxdIf.rxRecvSize) = .ok m ∧
        (recvRxMsg s d).1 = .ok (if m.ver = s.hdrVer then some m else none))) := by
  unfold recvRxMsg recvRawData
  rcases RxMsg.parseMsgFrom_cases RxMsg.fresh (d.take Gen.TrxdIf.rxRecvSize) (octets_take d _ hd) with
    ⟨he, _⟩ | ⟨m, hm, _⟩
  · simp only [RxMsg.parseMsg, he, rxCatches_valueError, if_true, true_and, reduceCtorEq, false_and, exists_false,
      or_false]
  · simp only [RxMsg.parseMsg, hm, matchHdrVer, beq_iff_eq]
    refine ⟨by split <;> rfl, Or.inr ⟨m, rfl, ?_⟩⟩
    by_cases hv : m.ver = s.hdrVer <;> simp only [hv, not_true_eq_false, not_false_eq_true, if_true, if_false]

/-! ### histories on one interface object -/

/-- datagram operations (everything but `set_hdr_ver`) on octet strings -/
def Op.IsRecv : Op → Prop
  | .setVer _ => False
  | .recvTx _ => True
  | .recvRx d => ∀ x ∈ d, x < 256
instance (op : Op) : Decidable op.IsRecv := by cases op <;> unfold Op.IsRecv <;> infer_instance

/-- operations whose datagrams are octet strings -/
def Op.Octets : Op → Prop
  | .setVer _ => True
  | .recvTx _ => True
  | .recvRx d => ∀ x ∈ d, x < 256
instance (op : Op) : Decidable op.Octets := by cases op <;> unfold Op.Octets <;> infer_instance

theorem step_recv_state (s : DataIf) (op : Op) (h : op.IsRecv) : (step s op).2 = s := by
  cases op with
  | setVer v => exact absurd h (by simp [Op.IsRecv])
  | recvTx d => exact (recvTxMsg_cases s d).1
  | recvRx d => exact (recvRxMsg_cases s d h).1

theorem runIf_append (s : DataIf) (a b : List Op) :
    runIf s (a ++ b) = ((runIf s a).1 ++ (runIf (runIf s a).2 b).1, (runIf (runIf s a).2 b).2) := by
  induction a generalizing s with
  | nil => simp [runIf]
  | cons op a ih => simp only [List.cons_append, runIf, ih, List.cons_append]

theorem runIf_recv_state (s : DataIf) (pre : List Op) (h : ∀ op ∈ pre, op.IsRecv) : (runIf s pre).2 = s := by
  induction pre generalizing s with
  | nil => rfl
  | cons op pre ih =>
    have h1 := step_recv_state s op (h op (List.mem_cons_self ..))
    simp only [runIf]
    rw [h1]
    exact ih s (fun o ho => h o (List.mem_cons_of_mem _ ho))

theorem runIf_length (s : DataIf) (ops : List Op) : (runIf s ops).1.length = ops.length := by
  induction ops generalizing s with
  | nil => rfl
  | cons op ops ih => simp only [runIf, List.length_cons, ih]

/-- no answer of a history is an exception -/
def Ans.Returned : Ans → Prop
  | .set _ => True
  | .tx r => ∃ v, r = .ok v
  | .rx r => ∃ v, r = .ok v

theorem step_returned (s : DataIf) (op : Op) (h : op.Octets) : (step s op).1.Returned := by
  cases op with
  | setVer v => exact trivial
  | recvTx d =>
    rcases (recvTxMsg_cases s d).2 with ⟨_, h2⟩ | ⟨m, _, h2⟩
    · exact ⟨_, h2⟩
    · exact ⟨_, h2⟩
  | recvRx d =>
    rcases (recvRxMsg_cases s d h).2 with ⟨_, h2⟩ | ⟨m, _, h2⟩
    · exact ⟨_, h2⟩
    · exact ⟨_, h2⟩

theorem runIf_returned (s : DataIf) (ops : List Op) (h : ∀ op ∈ ops, op.Octets) :
    ∀ a ∈ (runIf s ops).1, a.Returned := by
  induction ops generalizing s with
  | nil => intro a ha; cases ha
  | cons op ops ih =>
    intro a ha
    simp only [runIf, List.mem_cons] at ha
    rcases ha with rfl | ha
    · exact step_returned s op (h op (List.mem_cons_self ..))
    · exact ih _ (fun o ho => h o (List.mem_cons_of_mem _ ho)) a ha

end OsmoVerif.TrxdIf

namespace OsmoVerif.TrxdDump
open OsmoVerif OsmoVerif.Trxd

/-- read operations of a capture history (any index, skip, count) -/
def Op.IsRead : Op → Prop
  | .parseMsg _ => True
  | .parseAll _ _ => True
  | _ => False
instance (op : Op) : Decidable op.IsRead := by cases op <;> unfold Op.IsRead <;> infer_instance

/-- a read leaves the content alone and is answered with a `res` / `all` answer - never `raised` -/
theorem specStep_read (d : Bytes) (op : Op) (h : op.IsRead) :
    (specStep d op).2 = d ∧ ∀ e, (specStep d op).1 ≠ .raised e := by
  cases op with
  | parseMsg idx =>
    obtain ⟨r, f', hr, _⟩ := parseMsg_total ⟨d, 0⟩ idx
    simp only [specStep, hr]
    exact ⟨trivial, fun e h => by cases h⟩
  | parseAll skip count =>
    obtain ⟨r, f', hr, _⟩ := parseAll_total ⟨d, 0⟩ skip count
    simp only [specStep, hr]
    exact ⟨trivial, fun e h => by cases h⟩
  | appendMsg m => exact absurd h (by simp [Op.IsRead])
  | appendAll ms => exact absurd h (by simp [Op.IsRead])
  | truncate n => exact absurd h (by simp [Op.IsRead])

theorem specHist_reads (d : Bytes) (ops : List Op) (h : ∀ op ∈ ops, op.IsRead) :
    (specHist d ops).2 = d ∧ ∀ a ∈ (specHist d ops).1, ∀ e, a ≠ .raised e := by
  induction ops with
  | nil => exact ⟨rfl, fun a ha => by cases ha⟩
  | cons op ops ih =>
    obtain ⟨h1, h2⟩ := specStep_read d op (h op (List.mem_cons_self ..))
    obtain ⟨i1, i2⟩ := ih (fun o ho => h o (List.mem_cons_of_mem _ ho))
    simp only [specHist, h1]
    refine ⟨i1, ?_⟩
    intro a ha
    simp only [List.mem_cons] at ha
    rcases ha with rfl | ha
    · exact h2
    · exact i2 a ha

end OsmoVerif.TrxdDump
