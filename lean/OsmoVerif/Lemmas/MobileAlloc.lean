/- Helper lemmas for the Mobile Allocation model (C20). -/
import OsmoVerif.Model.MobileAlloc
import OsmoVerif.Spec.MobileAlloc

namespace OsmoVerif.MobileAlloc
open OsmoVerif.Gen.MobileAlloc OsmoVerif.Spec.MobileAlloc

/-! ### the regenerated constants -/

theorem consts : freqTypeServ = 1 ∧ freqTypeHopp = 2 := by decide

theorem fCap_ok (len : Nat) (h : len ≤ 8) : (fIsVla && fCap len == 0) = false ∧ len <<< 3 ≤ fCap len := by
  have h1 : fIsVla = false := by decide
  have h2 : fCap len = 64 := rfl
  rw [h1, h2, Nat.shiftLeft_eq]
  exact ⟨rfl, by omega⟩

theorem fCap_novla (len : Nat) : (fIsVla && fCap len == 0) = false := by
  have h1 : fIsVla = false := by decide
  rw [h1]; rfl

/-! ### buffer accesses -/

theorem rd_some {α : Type} {b : Buf} {xs : List α} {i : Nat} {v : α} (h : xs[i]? = some v) :
    rd b xs i = .ok v := by
  simp only [rd, h]; rfl

theorem wr_lt {α : Type} {b : Buf} {xs : List α} {i : Nat} (v : α) (h : i < xs.length) :
    wr b xs i v = .ok (xs.set i v) := by
  simp only [wr, h, if_true]; rfl

/-! ### mask arithmetic -/

/-- the cell allocation as seen by the function: ARFCNs whose `freq[a].mask` has FREQ_TYPE_SERV -/
def servAt (freq : List Nat) (a : Nat) : Bool :=
  match freq[a]? with
  | some m => isServ m
  | none => false

theorem isServ_eq (m : Nat) : isServ m = (m % 2 != 0) := by
  simp only [isServ, consts.1, Nat.and_one_is_mod]

theorem isServ_clearHopp (m : Nat) : isServ (clearHopp m) = isServ m := by
  simp only [isServ_eq, clearHopp, consts.2, u8]
  have : (255 ^^^ 2 % 256) = 253 := by decide
  rw [this]
  have h : (m % 256 &&& 253) % 2 = m % 2 := by
    rw [← Nat.and_one_is_mod, Nat.and_assoc]
    have : (253 &&& 1) = 1 := by decide
    rw [this, Nat.and_one_is_mod]; omega
  rw [h]

theorem setHopp_idem (m : Nat) : setHopp (setHopp m) = setHopp m := by
  simp only [setHopp, u8]
  have e : (256 : Nat) = 2 ^ 8 := by decide
  rw [e, Nat.or_mod_two_pow, Nat.or_mod_two_pow, Nat.or_mod_two_pow, Nat.mod_mod, Nat.mod_mod,
    Nat.or_assoc, Nat.or_self]

/-! ### the `si4` clearing loop -/

theorem clearLoop_spec : ∀ (fuel i : Nat) (fr : List Nat), fr.length = 1024 → 1024 - i ≤ fuel →
    ∃ r, clearLoop fuel i fr = .ok r ∧ r.length = 1024 ∧
      ∀ a, r[a]? = if i ≤ a then (fr[a]?).map clearHopp else fr[a]? := by
  intro fuel
  induction fuel with
  | zero =>
    intro i fr hl hf
    have hi : ¬ i < 1024 := by omega
    refine ⟨fr, by simp only [clearLoop, hi, if_false]; rfl, hl, ?_⟩
    intro a
    by_cases ha : i ≤ a
    · have : fr[a]? = none := List.getElem?_eq_none (by omega)
      simp only [ha, if_true, this, Option.map_none]
    · simp only [ha, if_false]
  | succ fuel ih =>
    intro i fr hl hf
    by_cases hi : i < 1024
    · have hget : fr[i]? = some fr[i] := List.getElem?_eq_getElem (by omega)
      obtain ⟨r, hr, hrl, hra⟩ := ih (i + 1) (fr.set i (clearHopp fr[i])) (by simp only [List.length_set, hl]) (by omega)
      refine ⟨r, ?_, hrl, ?_⟩
      · simp only [clearLoop, hi, if_true, rd_some hget, wr_lt _ (show i < fr.length by omega), bind, Except.bind, hr]
      · intro a
        rw [hra a, List.getElem?_set]
        by_cases h1 : i + 1 ≤ a
        · have h2 : i ≤ a := by omega
          have h3 : ¬ i = a := by omega
          simp only [h1, h2, h3, if_true, if_false]
        · by_cases h2 : i = a
          · subst h2
            simp only [h1, if_false, if_true, Nat.le_refl, show i < fr.length by omega, hget, Option.map_some]
          · have h3 : ¬ i ≤ a := by omega
            simp only [h1, h2, h3, if_false]
    · refine ⟨fr, by simp only [clearLoop, hi, if_false]; rfl, hl, ?_⟩
      intro a
      by_cases ha : i ≤ a
      · have : fr[a]? = none := List.getElem?_eq_none (by omega)
        simp only [ha, if_true, this, Option.map_none]
      · simp only [ha, if_false]

theorem clearLoop_eq (fr : List Nat) (h : fr.length = 1024) :
    clearLoop loopFuel 0 fr = .ok (fr.map clearHopp) := by
  obtain ⟨r, hr, hrl, hra⟩ := clearLoop_spec loopFuel 0 fr h (by decide)
  rw [hr]
  congr 1
  apply List.ext_getElem?
  intro a
  rw [hra a, List.getElem?_map]
  simp only [Nat.zero_le, if_true]

/-! ### the scan that collects the cell allocation into `f` -/

/-- `f` holds the list `w` in its first entries (all that the function ever relies on) -/
def FInv (f : List (Option Nat)) (w : List Nat) : Prop :=
  w.length ≤ f.length ∧ ∀ k, k < w.length → f[k]? = some (w[k]?)

theorem FInv_nil (f : List (Option Nat)) : FInv f [] :=
  ⟨Nat.zero_le _, fun k hk => absurd hk (Nat.not_lt_zero k)⟩

theorem FInv_push {f : List (Option Nat)} {w : List Nat} (h : FInv f w) (v : Nat) (hlt : w.length < f.length) :
    FInv (f.set w.length (some v)) (w ++ [v]) := by
  refine ⟨by simp only [List.length_set, List.length_append, List.length_singleton]; omega, ?_⟩
  intro k hk
  simp only [List.length_append, List.length_singleton] at hk
  rw [List.getElem?_set]
  by_cases hkw : w.length = k
  · subst hkw
    simp only [if_true, hlt, List.getElem?_append_right (Nat.le_refl _), Nat.sub_self,
      List.getElem?_cons_zero]
  · simp only [hkw, if_false]
    have hk' : k < w.length := by omega
    rw [h.2 k hk', List.getElem?_append_left hk']

/-- the ARFCNs visited by the scan from loop index `i` on: `i & 1023` for `i, i+1, …, 1024` -/
def cands (i : Nat) : List Nat := (List.range' i (1025 - i)).map (· &&& 1023)

theorem cands_cons (i : Nat) (h : i ≤ 1024) : cands i = (i &&& 1023) :: cands (i + 1) := by
  have e : 1025 - i = (1025 - (i + 1)) + 1 := by omega
  simp only [cands]
  rw [e, List.range'_succ, List.map_cons]

theorem cands_nil (i : Nat) (h : 1024 < i) : cands i = [] := by
  have e : 1025 - i = 0 := by omega
  simp only [cands, e, List.range'_zero, List.map_nil]

theorem scanLoop_spec (freq : List Nat) (len8 : Nat) (hfl : freq.length = 1024) :
    ∀ (fuel i : Nat) (f : List (Option Nat)) (w : List Nat), 1025 - i ≤ fuel → FInv f w →
      len8 ≤ f.length →
      ∃ f', scanLoop freq len8 fuel i f w.length =
          .ok (f', (w ++ ((cands i).filter (servAt freq)).take (len8 - w.length)).length) ∧
        FInv f' (w ++ ((cands i).filter (servAt freq)).take (len8 - w.length)) ∧
        f'.length = f.length := by
  intro fuel
  induction fuel with
  | zero =>
    intro i f w hf hinv hcap
    have hi : 1024 < i := by omega
    have hc : ¬ (i ≤ 1024 ∧ w.length < len8) := by omega
    refine ⟨f, ?_, ?_, rfl⟩
    · simp only [scanLoop, hc, if_false, cands_nil i hi, List.filter_nil, List.take_nil, List.append_nil]; rfl
    · simp only [cands_nil i hi, List.filter_nil, List.take_nil, List.append_nil]; exact hinv
  | succ fuel ih =>
    intro i f w hf hinv hcap
    by_cases hc : i ≤ 1024 ∧ w.length < len8
    · obtain ⟨hi, hj⟩ := hc
      have hidx : i &&& 1023 < freq.length := by
        have := @Nat.and_le_right i 1023
        omega
      have hget : freq[i &&& 1023]? = some freq[i &&& 1023] := List.getElem?_eq_getElem hidx
      have hserv : servAt freq (i &&& 1023) = isServ freq[i &&& 1023] := by
        simp only [servAt, hget]
      rw [cands_cons i hi]
      by_cases hs : isServ freq[i &&& 1023] = true
      · have hlt : w.length < f.length := by omega
        obtain ⟨f', h1, h2, h3⟩ := ih (i + 1) (f.set w.length (some (i &&& 1023))) (w ++ [i &&& 1023])
          (by omega) (FInv_push hinv _ hlt) (by simp only [List.length_set]; exact hcap)
        have e : len8 - w.length = (len8 - (w ++ [i &&& 1023]).length) + 1 := by
          simp only [List.length_append, List.length_singleton]; omega
        have hw : w ++ List.take (len8 - w.length) (List.filter (servAt freq) ((i &&& 1023) :: cands (i + 1))) =
            (w ++ [i &&& 1023]) ++ List.take (len8 - (w ++ [i &&& 1023]).length) (List.filter (servAt freq) (cands (i + 1))) := by
          rw [List.filter_cons_of_pos (by rw [hserv]; exact hs), e, List.take_succ_cons, List.append_assoc]
          rfl
        rw [hw]
        refine ⟨f', ?_, h2, by rw [h3, List.length_set]⟩
        have hlen : (w ++ [i &&& 1023]).length = w.length + 1 := by
          simp only [List.length_append, List.length_singleton]
        rw [hlen] at h1
        simp only [scanLoop, hi, hj, and_self, if_true, rd_some hget, hs, wr_lt _ hlt, bind, Except.bind, h1]
        rw [hlen]
      · have hs' : isServ freq[i &&& 1023] = false := by
          cases h : isServ freq[i &&& 1023] with
          | true => exact absurd h hs
          | false => rfl
        obtain ⟨f', h1, h2, h3⟩ := ih (i + 1) f w (by omega) hinv hcap
        rw [List.filter_cons_of_neg (by rw [hserv, hs']; exact Bool.false_ne_true)]
        refine ⟨f', ?_, h2, h3⟩
        simp only [scanLoop, hi, hj, and_self, if_true, rd_some hget, hs', bind, Except.bind, h1]
        rfl
    · have hnil : ((cands i).filter (servAt freq)).take (len8 - w.length) = [] := by
        by_cases hi : i ≤ 1024
        · have : len8 - w.length = 0 := by omega
          rw [this, List.take_zero]
        · rw [cands_nil i (by omega), List.filter_nil, List.take_nil]
      refine ⟨f, ?_, ?_, rfl⟩
      · simp only [scanLoop, hc, if_false, hnil, List.append_nil]; rfl
      · rw [hnil, List.append_nil]; exact hinv

/-! ### the bitmap walk -/

theorem and_two_pow_ne_zero (o k : Nat) : (o &&& 2 ^ k != 0) = o.testBit k := by
  cases h : o.testBit k
  · have : o &&& 2 ^ k = 0 := by
      apply Nat.eq_of_testBit_eq; intro j
      rw [Nat.testBit_and, Nat.testBit_two_pow, Nat.zero_testBit]
      by_cases hj : k = j
      · subst hj; simp [h]
      · simp [hj]
    simp [this]
  · have : (o &&& 2 ^ k).testBit k = true := by rw [Nat.testBit_and, h, Nat.testBit_two_pow_self]; rfl
    have hne : o &&& 2 ^ k ≠ 0 := by intro h0; rw [h0, Nat.zero_testBit] at this; cases this
    simp [hne]

theorem bit_test (o i : Nat) : (o &&& (1 <<< (i &&& 7)) != 0) = o.testBit (i % 8) := by
  have h7 : i &&& 7 = i % 8 := Nat.and_two_pow_sub_one_eq_mod i 3
  rw [h7, Nat.one_shiftLeft, and_two_pow_ne_zero]

/-- the bit the walk tests at loop index `i` (0-based): octet `len-1-i/8` of `ma`, bit `i%8` -/
def mbit (ma : List Nat) (len i : Nat) : Bool :=
  match ma[len - 1 - i / 8]? with
  | some o => o.testBit (i % 8)
  | none => false

theorem rdI_ma (ma : List Nat) (len i : Nat) (hi : i < len <<< 3) (hl : len ≤ ma.length) :
    ∃ o, rdI .ma ma ((len : Int) - 1 - ((i >>> 3 : Nat) : Int)) = .ok o ∧
      (o &&& (1 <<< (i &&& 7)) != 0) = mbit ma len i := by
  rw [Nat.shiftLeft_eq] at hi
  have e8 : (2 : Nat) ^ 3 = 8 := by decide
  rw [e8] at hi
  have hs : i >>> 3 = i / 8 := by rw [Nat.shiftRight_eq_div_pow]
  have hk : (len : Int) - 1 - ((i >>> 3 : Nat) : Int) = ((len - 1 - i / 8 : Nat) : Int) := by
    rw [hs]; omega
  have hlt : len - 1 - i / 8 < ma.length := by omega
  have hget : ma[len - 1 - i / 8]? = some ma[len - 1 - i / 8] := List.getElem?_eq_getElem hlt
  refine ⟨ma[len - 1 - i / 8], ?_, ?_⟩
  · rw [hk]
    have hn : ¬ (((len - 1 - i / 8 : Nat) : Int) < 0) := by omega
    simp only [rdI, hn, if_false, Int.toNat_natCast, hget]; rfl
  · rw [bit_test]; simp only [mbit, hget]

/-- `freq[a].mask |= FREQ_TYPE_HOPP` -/
def markHopp (fr : List Nat) (a : Nat) : List Nat :=
  match fr[a]? with
  | some m => fr.set a (setHopp m)
  | none => fr

/-- the effect of storing the channels `sel` one after the other -/
def applySel (si4 : Bool) : St → List Nat → St
  | st, [] => st
  | st, v :: s =>
    applySel si4 { freq := if si4 then markHopp st.freq v else st.freq,
                   hopping := st.hopping.set st.hoppLen v, hoppLen := st.hoppLen + 1 } s

/-- entry `(a, k)`: channel `a` is the `k`-th of the list (1-based); kept iff the walk's bit `k-1` is set -/
def pickB (ma : List Nat) (len : Nat) : Nat × Nat → Option Nat :=
  fun p => if mbit ma len (p.2 - 1) then some p.1 else none

/-- channels selected from position `i` (0-based) of `w` onwards -/
def selFrom (ma : List Nat) (len : Nat) (w : List Nat) (i : Nat) : List Nat :=
  ((w.drop i).zipIdx (i + 1)).filterMap (pickB ma len)

theorem selFrom_ge (ma : List Nat) (len : Nat) (w : List Nat) (i : Nat) (h : w.length ≤ i) :
    selFrom ma len w i = [] := by
  simp only [selFrom, List.drop_eq_nil_of_le h, List.zipIdx_nil, List.filterMap_nil]

theorem selFrom_lt (ma : List Nat) (len : Nat) (w : List Nat) (i : Nat) (h : i < w.length) :
    selFrom ma len w i =
      if mbit ma len i then w[i] :: selFrom ma len w (i + 1) else selFrom ma len w (i + 1) := by
  simp only [selFrom]
  rw [List.drop_eq_getElem_cons h, List.zipIdx_cons, List.filterMap_cons]
  simp only [pickB, Nat.add_sub_cancel]
  cases mbit ma len i <;> rfl

theorem applySel_freq_length (si4 : Bool) : ∀ (s : List Nat) (st : St),
    (applySel si4 st s).freq.length = st.freq.length := by
  intro s
  induction s with
  | nil => intro st; rfl
  | cons v s ih =>
    intro st
    simp only [applySel]
    rw [ih]
    cases si4
    · rfl
    · simp only [if_true, markHopp]
      cases st.freq[v]? <;> simp only [List.length_set]

theorem walkLoop_spec (ma : List Nat) (len : Nat) (f : List (Option Nat)) (w : List Nat) (si4 : Bool)
    (hinv : FInv f w) (hcap : len <<< 3 ≤ f.length) (hw : ∀ a ∈ w, a < 1024)
    (hl : len ≤ ma.length) (h8 : len ≤ 8) (hwl : w.length ≤ len <<< 3) :
    ∀ (fuel i : Nat) (st : St), len <<< 3 - i ≤ fuel → st.hoppLen ≤ i → st.freq.length = 1024 →
      len <<< 3 ≤ st.hopping.length →
      walkLoop ma len f w.length si4 fuel i st = .ok (applySel si4 st (selFrom ma len w i)) := by
  have hl8 : len <<< 3 ≤ 64 := by rw [Nat.shiftLeft_eq]; omega
  intro fuel
  induction fuel with
  | zero =>
    intro i st hf _ _ _
    have hc : ¬ i < len <<< 3 := by omega
    by_cases hwi : w.length ≤ i
    · simp only [walkLoop, hc, if_false, selFrom_ge _ _ _ _ hwi, applySel]; rfl
    · exfalso; omega
  | succ fuel ih =>
    intro i st hf hhl hfl hhop
    by_cases hc : i < len <<< 3
    · obtain ⟨o, ho, hbit⟩ := rdI_ma ma len i hc hl
      have hfi : i < f.length := by omega
      have hgetf : f[i]? = some f[i] := List.getElem?_eq_getElem hfi
      by_cases hb : mbit ma len i = true
      · by_cases hij : i ≥ w.length
        · -- set bit beyond the collected cell allocation: break
          simp only [walkLoop, hc, if_true, ho, bind, Except.bind, hbit, hb, rd_some hgetf, hij,
            selFrom_ge _ _ _ _ hij, applySel]
          rfl
        · have hiw : i < w.length := by omega
          have hfw : f[i]? = some (some w[i]) := by
            rw [hinv.2 i hiw, List.getElem?_eq_getElem hiw]
          have hri : rdInit f i = .ok w[i] := by simp only [rdInit, hfw]; rfl
          have hhl' : st.hoppLen < st.hopping.length := by omega
          have hu8 : u8 (st.hoppLen + 1) = st.hoppLen + 1 := by simp only [u8]; omega
          have hv : w[i] < 1024 := hw _ (List.getElem_mem hiw)
          rw [selFrom_lt _ _ _ _ hiw, hb]
          simp only [if_true, applySel]
          cases si4 with
          | false =>
            have := ih (i + 1) { freq := st.freq, hopping := st.hopping.set st.hoppLen w[i], hoppLen := st.hoppLen + 1 }
              (by omega) (by simp only []; omega) hfl (by simp only [List.length_set]; exact hhop)
            simp only [walkLoop, hc, if_true, ho, bind, Except.bind, hbit, hb, rd_some hgetf, hij, if_false,
              hri, wr_lt _ hhl', hu8, Bool.false_eq_true, this]
          | true =>
            have hgv : st.freq[w[i]]? = some st.freq[w[i]] := List.getElem?_eq_getElem (by omega)
            have hmk : markHopp st.freq w[i] = st.freq.set w[i] (setHopp st.freq[w[i]]) := by
              simp only [markHopp, hgv]
            have := ih (i + 1) { freq := st.freq.set w[i] (setHopp st.freq[w[i]]),
                                 hopping := st.hopping.set st.hoppLen w[i], hoppLen := st.hoppLen + 1 }
              (by omega) (by simp only []; omega) (by simp only [List.length_set]; exact hfl)
              (by simp only [List.length_set]; exact hhop)
            simp only [walkLoop, hc, if_true, ho, bind, Except.bind, hbit, hb, rd_some hgetf, hij, if_false,
              hri, wr_lt _ hhl', hu8, rd_some hgv, wr_lt _ (show w[i] < st.freq.length by omega), hmk, this]
      · have hb' : mbit ma len i = false := by
          cases h : mbit ma len i with
          | true => exact absurd h hb
          | false => rfl
        have := ih (i + 1) st (by omega) (by omega) hfl hhop
        have hsel : selFrom ma len w i = selFrom ma len w (i + 1) := by
          by_cases hiw : i < w.length
          · rw [selFrom_lt _ _ _ _ hiw, hb']; rfl
          · rw [selFrom_ge _ _ _ _ (by omega), selFrom_ge _ _ _ _ (by omega)]
        simp only [walkLoop, hc, if_true, ho, bind, Except.bind, hbit, hb', Bool.false_eq_true, if_false, this, hsel]
    · have hwi : w.length ≤ i := by omega
      simp only [walkLoop, hc, if_false, selFrom_ge _ _ _ _ hwi, applySel]; rfl

/-! ### closed forms of `applySel` -/

theorem applySel_hoppLen (si4 : Bool) : ∀ (s : List Nat) (st : St),
    (applySel si4 st s).hoppLen = st.hoppLen + s.length := by
  intro s
  induction s with
  | nil => intro st; rfl
  | cons v s ih =>
    intro st
    simp only [applySel, ih, List.length_cons]
    omega

theorem applySel_hopping (si4 : Bool) : ∀ (s : List Nat) (st : St),
    st.hoppLen + s.length ≤ st.hopping.length →
    (applySel si4 st s).hopping.length = st.hopping.length ∧
    ∀ k, (applySel si4 st s).hopping[k]? =
      if st.hoppLen ≤ k ∧ k < st.hoppLen + s.length then s[k - st.hoppLen]? else st.hopping[k]? := by
  intro s
  induction s with
  | nil =>
    intro st _
    refine ⟨rfl, fun k => ?_⟩
    have : ¬ (st.hoppLen ≤ k ∧ k < st.hoppLen + ([] : List Nat).length) := by
      simp only [List.length_nil]; omega
    simp only [applySel, this, if_false]
  | cons v s ih =>
    intro st h
    simp only [List.length_cons] at h
    obtain ⟨h1, h2⟩ := ih { freq := if si4 then markHopp st.freq v else st.freq,
                            hopping := st.hopping.set st.hoppLen v, hoppLen := st.hoppLen + 1 }
      (by simp only [List.length_set]; omega)
    simp only [List.length_set] at h1
    refine ⟨by simp only [applySel]; exact h1, fun k => ?_⟩
    simp only [applySel]
    rw [h2 k]
    simp only [List.length_cons, List.getElem?_set]
    by_cases hk : st.hoppLen = k
    · subst hk
      have c1 : ¬ (st.hoppLen + 1 ≤ st.hoppLen ∧ st.hoppLen < st.hoppLen + 1 + s.length) := by omega
      have c2 : st.hoppLen ≤ st.hoppLen ∧ st.hoppLen < st.hoppLen + (s.length + 1) := by omega
      have c3 : st.hoppLen < st.hopping.length := by omega
      simp only [c1, c2, c3, if_false, if_true, and_self, Nat.sub_self, List.getElem?_cons_zero]
    · by_cases hk2 : st.hoppLen + 1 ≤ k ∧ k < st.hoppLen + 1 + s.length
      · have c2 : st.hoppLen ≤ k ∧ k < st.hoppLen + (s.length + 1) := by omega
        have e : k - st.hoppLen = (k - (st.hoppLen + 1)) + 1 := by omega
        simp only [hk2, c2, and_self, if_true, e, List.getElem?_cons_succ]
      · have c2 : ¬ (st.hoppLen ≤ k ∧ k < st.hoppLen + (s.length + 1)) := by omega
        simp only [hk2, c2, hk, if_false]

theorem applySel_hopping_zero (si4 : Bool) (s : List Nat) (fr hop : List Nat) (h : s.length ≤ hop.length) :
    (applySel si4 ⟨fr, hop, 0⟩ s).hopping.length = hop.length ∧
    (applySel si4 ⟨fr, hop, 0⟩ s).hopping.take s.length = s ∧
    (applySel si4 ⟨fr, hop, 0⟩ s).hopping.drop s.length = hop.drop s.length := by
  obtain ⟨h1, h2⟩ := applySel_hopping si4 s ⟨fr, hop, 0⟩ (by simp only [Nat.zero_add]; exact h)
  simp only [Nat.zero_add, Nat.zero_le, true_and, Nat.sub_zero] at h1 h2
  refine ⟨h1, ?_, ?_⟩
  · apply List.ext_getElem?
    intro k
    rw [List.getElem?_take]
    by_cases hk : k < s.length
    · simp only [hk, if_true, h2 k]
    · simp only [hk, if_false]
      exact (List.getElem?_eq_none (by omega)).symm
  · apply List.ext_getElem?
    intro k
    rw [List.getElem?_drop, List.getElem?_drop, h2]
    have : ¬ s.length + k < s.length := by omega
    simp only [this, if_false]

theorem applySel_freq_false : ∀ (s : List Nat) (st : St), (applySel false st s).freq = st.freq := by
  intro s
  induction s with
  | nil => intro st; rfl
  | cons v s ih => intro st; simp only [applySel, ih]; rfl

theorem markHopp_getElem? (fr : List Nat) (a b : Nat) :
    (markHopp fr a)[b]? = if a = b then (fr[b]?).map setHopp else fr[b]? := by
  simp only [markHopp]
  cases h : fr[a]? with
  | none =>
    by_cases hab : a = b
    · subst hab; simp only [if_true, h, Option.map_none]
    · simp only [hab, if_false]
  | some m =>
    have hlt : a < fr.length := by
      apply Classical.byContradiction
      intro hc
      rw [List.getElem?_eq_none (by omega)] at h
      cases h
    simp only [List.getElem?_set]
    by_cases hab : a = b
    · subst hab; simp only [if_true, hlt, h, Option.map_some]
    · simp only [hab, if_false]

theorem applySel_freq_true : ∀ (s : List Nat) (st : St) (a : Nat),
    (applySel true st s).freq[a]? = if a ∈ s then (st.freq[a]?).map setHopp else st.freq[a]? := by
  intro s
  induction s with
  | nil => intro st a; simp only [applySel, List.not_mem_nil, if_false]
  | cons v s ih =>
    intro st a
    simp only [applySel, if_true]
    rw [ih]
    simp only [markHopp_getElem?, List.mem_cons]
    by_cases hva : v = a
    · subst hva
      by_cases hs : v ∈ s
      · simp only [hs, if_true, true_or, Option.map_map]
        congr 1
        funext m
        exact setHopp_idem m
      · simp only [hs, if_false, if_true, true_or]
    · have hav : ¬ a = v := fun h => hva h.symm
      simp only [hva, hav, if_false, false_or]

/-! ### the scan order is the order of the standard -/

theorem cands_one : cands 1 = List.range' 1 1023 ++ [0] := by decide +kernel

theorem filter_cands (p : Nat → Bool) : (cands 1).filter p = caList p := by
  rw [cands_one, List.filter_append]
  simp only [caList]
  congr 1
  cases h : p 0
  · rw [List.filter_cons_of_neg (by rw [h]; exact Bool.false_ne_true)]; rfl
  · rw [List.filter_cons_of_pos h]; rfl

theorem servAt_map_clearHopp (freq : List Nat) : servAt (freq.map clearHopp) = servAt freq := by
  funext a
  simp only [servAt, List.getElem?_map]
  cases freq[a]? with
  | none => rfl
  | some m => simp only [Option.map_some, isServ_clearHopp]

theorem mem_caList {p : Nat → Bool} {a : Nat} (h : a ∈ caList p) : p a = true ∧ a < 1024 := by
  simp only [caList, List.mem_append, List.mem_filter, List.mem_range'_1] at h
  rcases h with ⟨h1, h2⟩ | h
  · exact ⟨h2, by omega⟩
  · cases hp : p 0 with
    | false => rw [hp] at h; simp only [Bool.false_eq_true, if_false, List.not_mem_nil] at h
    | true =>
      rw [hp] at h
      simp only [if_true, List.mem_singleton] at h
      subst h
      exact ⟨hp, by decide⟩

theorem caList_ordered (p : Nat → Bool) : Ordered (caList p) := by
  simp only [Ordered, caList]
  rw [List.pairwise_append]
  refine ⟨?_, ?_, ?_⟩
  · apply List.Pairwise.sublist List.filter_sublist
    apply List.Pairwise.imp_of_mem _ (List.pairwise_lt_range' (s := 1) (n := 1023))
    intro a b ha hb hab
    rw [List.mem_range'_1] at ha hb
    simp only [rank]
    rw [if_neg (by omega), if_neg (by omega)]
    exact hab
  · cases p 0
    · exact List.Pairwise.nil
    · exact List.pairwise_singleton _ _
  · intro a ha b hb
    rw [List.mem_filter, List.mem_range'_1] at ha
    cases hp : p 0 with
    | false => rw [hp] at hb; simp only [Bool.false_eq_true, if_false, List.not_mem_nil] at hb
    | true =>
      rw [hp] at hb
      simp only [if_true, List.mem_singleton] at hb
      subst hb
      simp only [rank]
      rw [if_neg (by omega)]
      simp only [if_true]
      omega

/-! ### the walk's selection is the selection of the standard -/

/-- `Spec.select`'s choice function, with projections -/
def pickC (ma : List Nat) : Nat × Nat → Option Nat :=
  fun p => if maC ma p.2 then some p.1 else none

theorem select_eq_pickC (inCA : Nat → Bool) (ma : List Nat) :
    select inCA ma = ((caList inCA).zipIdx 1).filterMap (pickC ma) := rfl

theorem filterMap_congr' {α β : Type} {f g : α → Option β} :
    ∀ {l : List α}, (∀ a ∈ l, f a = g a) → l.filterMap f = l.filterMap g := by
  intro l
  induction l with
  | nil => intro _; rfl
  | cons x l ih =>
    intro h
    rw [List.filterMap_cons, List.filterMap_cons, h x (List.mem_cons_self ..),
      ih (fun a ha => h a (List.mem_cons_of_mem _ ha))]

theorem pick_sublist (c : Nat → Bool) : ∀ (L : List Nat) (k : Nat),
    ((L.zipIdx k).filterMap (fun p => if c p.2 then some p.1 else none)).Sublist L := by
  intro L
  induction L with
  | nil => intro k; exact List.Sublist.slnil
  | cons a L ih =>
    intro k
    rw [List.zipIdx_cons, List.filterMap_cons]
    cases h : c k
    · simp only [Bool.false_eq_true, if_false]
      exact List.Sublist.cons a (ih (k + 1))
    · simp only [if_true]
      exact List.Sublist.cons_cons a (ih (k + 1))

theorem select_sublist (inCA : Nat → Bool) (ma : List Nat) : (select inCA ma).Sublist (caList inCA) :=
  pick_sublist (maC ma) (caList inCA) 1

theorem maC_eq_mbit (ma : List Nat) (i : Nat) (h1 : 1 ≤ i) (h2 : i ≤ 8 * ma.length) :
    maC ma i = mbit ma ma.length (i - 1) := by
  simp only [maC, mbit, decide_eq_true h1, decide_eq_true h2, Bool.true_and]
  cases ma[ma.length - 1 - (i - 1) / 8]? <;> rfl

theorem maC_beyond (ma : List Nat) (i : Nat) (h : 8 * ma.length < i) : maC ma i = false := by
  have : ¬ i ≤ 8 * ma.length := by omega
  simp only [maC, decide_eq_false this, Bool.and_false, Bool.false_and]

/-- the selection made by the walk over the first `8·len` entries of the cell allocation list is
the selection of the standard over the whole list -/
theorem selFrom_eq_select (inCA : Nat → Bool) (ma : List Nat) :
    selFrom ma ma.length ((caList inCA).take (ma.length <<< 3)) 0 = select inCA ma := by
  have e8 : ma.length <<< 3 = 8 * ma.length := by rw [Nat.shiftLeft_eq]; omega
  rw [select_eq_pickC, e8]
  simp only [selFrom, List.drop_zero, Nat.zero_add]
  have hsplit : (caList inCA) = (caList inCA).take (8 * ma.length) ++ (caList inCA).drop (8 * ma.length) :=
    (List.take_append_drop _ _).symm
  conv => rhs; rw [hsplit]
  rw [List.zipIdx_append, List.filterMap_append]
  have hnil : List.filterMap (pickC ma)
      (((caList inCA).drop (8 * ma.length)).zipIdx (1 + ((caList inCA).take (8 * ma.length)).length)) = [] := by
    rw [List.filterMap_eq_nil_iff]
    intro ⟨a, i⟩ hm
    obtain ⟨h1, h2, _⟩ := List.mem_zipIdx hm
    rw [List.length_take] at h1
    rw [List.length_take, List.length_drop] at h2
    have : 8 * ma.length < i := by omega
    simp only [pickC, maC_beyond ma i this, Bool.false_eq_true, if_false]
  rw [hnil, List.append_nil]
  apply filterMap_congr'
  intro ⟨a, i⟩ hm
  obtain ⟨h1, h2, _⟩ := List.mem_zipIdx hm
  rw [List.length_take] at h2
  simp only [pickB, pickC]
  rw [maC_eq_mbit ma i h1 (by omega)]

/-! ### the whole function -/

/-- for a bitmap of at most 8 octets the function returns 0 and its effect on the caller's
objects is the effect of storing the selected channels one after the other -/
theorem decode_ok (freq ma : List Nat) (len : Nat) (hopping : List Nat) (hoppLen : Nat) (si4 : Bool)
    (hf : freq.length = 1024) (hl : len ≤ ma.length) (h8 : len ≤ 8) (hh : 64 ≤ hopping.length) :
    decode freq ma len hopping hoppLen si4 =
      .ok (0, applySel si4 ⟨if si4 then freq.map clearHopp else freq, hopping, 0⟩
               (selFrom ma len ((caList (servAt freq)).take (len <<< 3)) 0)) := by
  obtain ⟨hv, hcap⟩ := fCap_ok len h8
  have hl8 : len <<< 3 ≤ 64 := by rw [Nat.shiftLeft_eq]; omega
  have hn8 : ¬ len > 8 := by omega
  have hf' : (if si4 then freq.map clearHopp else freq).length = 1024 := by
    cases si4
    · exact hf
    · simp only [if_true, List.length_map, hf]
  have hserv : servAt (if si4 then freq.map clearHopp else freq) = servAt freq := by
    cases si4
    · rfl
    · simp only [if_true, servAt_map_clearHopp]
  obtain ⟨f', hs1, hs2, hs3⟩ := scanLoop_spec (if si4 then freq.map clearHopp else freq) (len <<< 3) hf'
    loopFuel 1 (List.replicate (fCap len) none) [] (by decide) (FInv_nil _)
    (by rw [List.length_replicate]; exact hcap)
  simp only [List.length_nil, List.nil_append, Nat.sub_zero, filter_cands, hserv] at hs1 hs2
  rw [List.length_replicate] at hs3
  have hwalk := walkLoop_spec ma len f' ((caList (servAt freq)).take (len <<< 3)) si4 hs2
    (by rw [hs3]; exact hcap)
    (fun a ha => (mem_caList (List.mem_of_mem_take ha)).2) hl h8
    (by rw [List.length_take]; omega)
    loopFuel 0 ⟨if si4 then freq.map clearHopp else freq, hopping, 0⟩
    (by simp only [loopFuel]; omega) (Nat.le_refl _) hf' (by simp only []; omega)
  cases si4
  · simp only [Bool.false_eq_true, if_false] at hs1 hwalk
    simp only [decode, hv, hn8, hs1, hwalk, bind, Except.bind, pure, Except.pure, Bool.false_eq_true, if_false]
  · simp only [if_true] at hs1 hwalk
    simp only [decode, hv, hn8, clearLoop_eq freq hf, hs1, hwalk, bind, Except.bind, pure, Except.pure,
      Bool.false_eq_true, if_false, if_true]

/-- … and with `len` the number of octets of the bitmap, the selected channels are the ones of the standard -/
theorem decode_eq_select (freq ma : List Nat) (len : Nat) (hopping : List Nat) (hoppLen : Nat) (si4 : Bool)
    (hf : freq.length = 1024) (hm : ma.length = len) (h8 : len ≤ 8) (hh : 64 ≤ hopping.length) :
    decode freq ma len hopping hoppLen si4 =
      .ok (0, applySel si4 ⟨if si4 then freq.map clearHopp else freq, hopping, 0⟩
               (select (servAt freq) ma)) := by
  rw [decode_ok freq ma len hopping hoppLen si4 hf (by omega) h8 hh]
  subst hm
  rw [selFrom_eq_select]

theorem decode_reject (freq ma : List Nat) (len : Nat) (hopping : List Nat) (hoppLen : Nat) (si4 : Bool)
    (h : len > 8) :
    decode freq ma len hopping hoppLen si4 = .ok (-(einval : Int), ⟨freq, hopping, hoppLen⟩) := by
  simp only [decode, fCap_novla, h, bind, Except.bind, pure, Except.pure, Bool.false_eq_true, if_false, if_true]

theorem select_length_le (inCA : Nat → Bool) (ma : List Nat) :
    (select inCA ma).length ≤ 8 * ma.length ∧ (select inCA ma).length ≤ (caList inCA).length := by
  constructor
  · rw [← selFrom_eq_select]
    simp only [selFrom, List.drop_zero]
    refine Nat.le_trans (List.length_filterMap_le _ _) ?_
    rw [List.length_zipIdx, List.length_take, Nat.shiftLeft_eq]
    omega
  · exact (select_sublist inCA ma).length_le

theorem select_congr (inCA : Nat → Bool) (ma ma' : List Nat)
    (h : ∀ k, 1 ≤ k → k ≤ (caList inCA).length → maC ma' k = maC ma k) :
    select inCA ma' = select inCA ma := by
  rw [select_eq_pickC, select_eq_pickC]
  apply filterMap_congr'
  intro ⟨a, i⟩ hm
  obtain ⟨h1, h2, _⟩ := List.mem_zipIdx hm
  simp only [pickC]
  rw [h i h1 (by omega)]

theorem mem_select_iff (inCA : Nat → Bool) (ma : List Nat) (a : Nat) :
    a ∈ select inCA ma ↔ ∃ i, 1 ≤ i ∧ (caList inCA)[i - 1]? = some a ∧ maC ma i = true := by
  rw [select_eq_pickC, List.mem_filterMap]
  constructor
  · rintro ⟨⟨b, i⟩, hm, hp⟩
    rw [List.mk_mem_zipIdx_iff_le_and_getElem?_sub] at hm
    simp only [pickC] at hp
    by_cases hc : maC ma i = true
    · simp only [hc, if_true, Option.some.injEq] at hp
      subst hp
      exact ⟨i, hm.1, hm.2, hc⟩
    · simp only [hc] at hp
      cases hp
  · rintro ⟨i, h1, h2, h3⟩
    refine ⟨(a, i), ?_, ?_⟩
    · rw [List.mk_mem_zipIdx_iff_le_and_getElem?_sub]; exact ⟨h1, h2⟩
    · simp only [pickC, h3, if_true]

/-! ### concrete runs (for the non-vacuity examples of Props/C20) -/

/-- what the caller reads back: `hopping[0 .. *hopp_len)` -/
def hoppingList (st : St) : List Nat := st.hopping.take st.hoppLen

/-- `freq[1024]` with FREQ_TYPE_SERV on the ARFCNs satisfying `p` and a neighbour-cell bit everywhere -/
def mkFreq (p : Nat → Bool) : List Nat := (List.range 1024).map fun a => if p a then 0x05 else 0x04

/-- observable result: return code, `*hopp_len`, the decoded list -/
def obs (r : Except Fault (Int × St)) : Option (Int × Nat × List Nat) :=
  match r with
  | .ok (rc, st) => some (rc, st.hoppLen, hoppingList st)
  | .error _ => none

/-- the fault of a run, if any -/
def faultOf (r : Except Fault (Int × St)) : Option Fault :=
  match r with
  | .ok _ => none
  | .error e => some e

theorem servAt_mkFreq (p : Nat → Bool) : servAt (mkFreq p) = fun a => decide (a < 1024) && p a := by
  funext a
  simp only [servAt, mkFreq, List.getElem?_map]
  by_cases h : a < 1024
  · rw [List.getElem?_range h]
    simp only [Option.map_some, h, decide_true, Bool.true_and]
    cases p a
    · simp only [Bool.false_eq_true, if_false]; decide
    · simp only [if_true]; decide
  · rw [List.getElem?_eq_none (by rw [List.length_range]; omega)]
    simp only [Option.map_none, h, decide_false, Bool.false_and]

theorem mkFreq_length (p : Nat → Bool) : (mkFreq p).length = 1024 := by
  simp only [mkFreq, List.length_map, List.length_range]

end OsmoVerif.MobileAlloc
