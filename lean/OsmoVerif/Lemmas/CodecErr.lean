/- C16: error classes.  Under WF, neither direction can fail with ProtocolError, and the decoder
cannot hang (a sequence item consumes at least one octet); every other Python exception is wrapped
into the codec's own DecodeError / EncodeError by the envelope. -/
import OsmoVerif.Lemmas.CodecDI
namespace OsmoVerif.Codec

/-- the outcome is a real Python exception that `except Exception` catches -/
def Err.catchable : Err → Bool
  | .protocol | .hang | .unmodelled => false
  | _ => true

theorem wrapDec_cases (e : Err) : wrapDec e = .decode ∨ (wrapDec e = e ∧ e.catchable = false) := by
  cases e <;> simp [wrapDec, Err.catchable]

theorem wrapEnc_cases (e : Err) : wrapEnc e = .encode ∨ (wrapEnc e = e ∧ e.catchable = false) := by
  cases e <;> simp [wrapEnc, Err.catchable]

/-- outcomes allowed for a well-formed definition: no ProtocolError, no hang -/
def Err.benign (e : Err) : Prop := e ≠ .protocol ∧ e ≠ .hang

theorem benign_wrapDec {e : Err} (h : e.benign) : (wrapDec e).benign := by
  cases e <;> simp_all [wrapDec, Err.benign]

theorem benign_wrapEnc {e : Err} (h : e.benign) : (wrapEnc e).benign := by
  cases e <;> simp_all [wrapEnc, Err.benign]

theorem getPres_benign {p : Pres} {v : Vals} {e : Err} (h : getPres p v = .error e) : e.benign := by
  cases p with
  | always => simp [getPres] at h
  | flagTrue n =>
    simp only [getPres] at h
    cases hg : Vals.get v n with
    | error e' => simp only [hg, Except.error.injEq] at h; subst h; rw [Vals.get_error_key _ _ _ hg]; simp [Err.benign]
    | ok x => simp [hg] at h
  | flagFalse n =>
    simp only [getPres] at h
    cases hg : Vals.get v n with
    | error e' => simp only [hg, Except.error.injEq] at h; subst h; rw [Vals.get_error_key _ _ _ hg]; simp [Err.benign]
    | ok x => simp [hg] at h

theorem tableGet_benign : ∀ {tbl : List (Int × Nat)} {i : Int} {e : Err}, tableGet tbl i = .error e → e.benign
  | [], _, _, h => by simp only [tableGet, Except.error.injEq] at h; subst h; simp [Err.benign]
  | (k, v) :: rest, i, e, h => by
    simp only [tableGet] at h
    split at h
    · cases h
    · exact tableGet_benign h

theorem getLen_benign {ld : LenD} {v : Vals} {n : Nat} {e : Err} (h : getLen ld v n = .error e) : e.benign := by
  cases ld with
  | fixed k => simp [getLen] at h
  | rest => simp [getLen] at h
  | thresh t a b => simp [getLen] at h
  | ofField f =>
    simp only [getLen] at h
    cases hg : Vals.get v f with
    | error e' => simp only [hg, Except.error.injEq] at h; subst h; rw [Vals.get_error_key _ _ _ hg]; simp [Err.benign]
    | ok x =>
      cases x with
      | int i =>
        simp only [hg] at h
        split at h
        · cases h; simp [Err.benign]
        · cases h
      | _ => simp only [hg, Except.error.injEq] at h; subst h; simp [Err.benign]
  | table f tbl =>
    simp only [getLen] at h
    cases hg : Vals.get v f with
    | error e' => simp only [hg, Except.error.injEq] at h; subst h; rw [Vals.get_error_key _ _ _ hg]; simp [Err.benign]
    | ok x =>
      cases x with
      | int i => simp only [hg] at h; exact tableGet_benign h
      | _ => simp only [hg, Except.error.injEq] at h; subst h; simp [Err.benign]

theorem fieldFromCore_benign {pres glen body pre data e}
    (hg : ∀ n e, glen pre n = .error e → e.benign) (hb : ∀ d e, body pre d = .error e → e.benign)
    (h : fieldFromCore pres glen body pre data = .error e) : e.benign := by
  simp only [fieldFromCore] at h
  cases hp : getPres pres pre with
  | error e' => simp only [hp, Except.error.injEq] at h; subst h; exact getPres_benign hp
  | ok b =>
    cases b with
    | false => simp [hp] at h
    | true =>
      simp only [hp] at h
      cases hl : glen pre data.length with
      | error e' => simp only [hl, Except.error.injEq] at h; subst h; exact hg _ _ hl
      | ok n =>
        simp only [hl] at h
        split at h
        · cases h; simp [Err.benign]
        · cases hbb : body pre (List.take n data) with
          | error e' => simp only [hbb, Except.error.injEq] at h; subst h; exact hb _ _ hbb
          | ok v => simp [hbb] at h

theorem fieldToCore_benign {pres selfLen body v e}
    (hb : ∀ e, body v = .error e → e.benign)
    (h : fieldToCore pres selfLen body v = .error e) : e.benign := by
  simp only [fieldToCore] at h
  cases hp : getPres pres v with
  | error e' => simp only [hp, Except.error.injEq] at h; subst h; exact getPres_benign hp
  | ok b =>
    cases b with
    | false => simp [hp] at h
    | true =>
      simp only [hp] at h
      cases hbb : body v with
      | error e' => simp only [hbb, Except.error.injEq] at h; subst h; exact hb _ hbb
      | ok d =>
        simp only [hbb] at h
        split at h
        · cases h; simp [Err.benign]
        · cases h

theorem bitsDec_benign : ∀ {offs : List (BitF × Nat)} {pre : Vals} {blob : Nat} {e : Err},
    bitsDec offs pre blob = .error e → e.benign
  | [], _, _, _, h => by simp [bitsDec] at h
  | (f, o) :: rest, pre, blob, e, h => by
    simp only [bitsDec] at h
    split at h
    · exact bitsDec_benign h
    · split at h
      · split at h
        · cases h; simp [Err.benign]
        · exact bitsDec_benign h
      · exact bitsDec_benign h

theorem getTyped_benign {v : Vals} {n : String} {e : Err} :
    (Vals.getInt v n = .error e → e.benign) ∧ (Vals.getBytes v n = .error e → e.benign)
    ∧ (Vals.getDict v n = .error e → e.benign) ∧ (Vals.getList v n = .error e → e.benign) := by
  simp only [Vals.getInt, Vals.getBytes, Vals.getDict, Vals.getList]
  cases hg : Vals.get v n with
  | error e' =>
    have := Vals.get_error_key _ _ _ hg
    subst this
    simp only [Except.error.injEq]
    refine ⟨?_, ?_, ?_, ?_⟩ <;> (intro h; subst h; simp [Err.benign])
  | ok x => cases x <;> (refine ⟨?_, ?_, ?_, ?_⟩ <;> intro h <;> cases h <;> simp [Err.benign])

theorem bitEnc_benign {f : BitF} {o : Nat} {v : Vals} {e : Err} (h : bitEnc f o v = .error e) : e.benign := by
  simp only [bitEnc] at h
  cases hn : f.name with
  | none => simp [hn] at h
  | some name =>
    simp only [hn] at h
    cases hv : f.val with
    | some c => simp [hv] at h
    | none =>
      simp only [hv] at h
      cases hg : Vals.get v name with
      | error e' => simp only [hg, Except.error.injEq] at h; subst h; rw [Vals.get_error_key _ _ _ hg]; simp [Err.benign]
      | ok x => cases x <;> simp only [hg] at h <;> cases h <;> simp [Err.benign]

theorem bitsEnc_benign : ∀ {offs : List (BitF × Nat)} {v : Vals} {acc : Nat} {e : Err},
    bitsEnc offs v acc = .error e → e.benign
  | [], _, _, _, h => by simp [bitsEnc] at h
  | (f, o) :: rest, v, acc, e, h => by
    simp only [bitsEnc] at h
    cases hb : bitEnc f o v with
    | error e' => simp only [hb, Except.error.injEq] at h; subst h; exact bitEnc_benign hb
    | ok x => simp only [hb] at h; exact bitsEnc_benign h

theorem intToBytes_benign {n bo sg x e} (h : intToBytes n bo sg x = .error e) : e.benign := by
  rw [intToBytes_eq] at h
  split at h
  · cases h
  · cases h; simp [Err.benign]

/-! ## decoding: consumed octets are at least the static lower bound -/

theorem minLenField_le (f : FDef) {pre v' : Vals} {data : List Nat} {k : Nat}
    (h : fieldFrom f pre data = .ok (v', k)) : minLenField f ≤ k := by
  have always_true : ∀ pre, getPres .always pre = .ok true := fun _ => rfl
  cases f with
  | int name pres len bo sg off mult =>
    cases pres with
    | always =>
      simp only [fieldFrom] at h
      rcases fieldFromCore_ok_inv h with ⟨h1, _⟩ | ⟨_, hg, _, _⟩
      · simp [getPres] at h1
      · simp only [minLenField]
        by_cases hl : len = 0
        · omega
        · simp only [hl, if_false, Except.ok.injEq] at hg; omega
    | _ => simp [minLenField]
  | bits pres len little fs =>
    cases pres with
    | always =>
      simp only [fieldFrom] at h
      cases hd : bitsDerive len little fs with
      | error e => simp [hd] at h
      | ok r =>
        obtain ⟨l, offs⟩ := r
        simp only [hd] at h
        rcases fieldFromCore_ok_inv h with ⟨h1, _⟩ | ⟨_, hg, _, _⟩
        · simp [getPres] at h1
        · simp only [Except.ok.injEq] at hg
          simp only [bitsDerive] at hd
          cases ho : bitsOffsets (bitsLen len (bitsOrdered little fs) * 8) (bitsOrdered little fs) with
          | error e => simp [ho] at hd
          | ok o =>
            simp only [ho, Except.ok.injEq, Prod.mk.injEq] at hd
            simp only [minLenField]; omega
    | _ => simp [minLenField]
  | buf name pres ld =>
    cases pres <;> cases ld <;> simp only [minLenField, Nat.zero_le]
    rename_i n
    simp only [fieldFrom] at h
    rcases fieldFromCore_ok_inv h with ⟨h1, _⟩ | ⟨_, hg, _, _⟩
    · simp [getPres] at h1
    · simp only [getLen, Except.ok.injEq] at hg; split at hg <;> omega
  | spare name pres ld filler =>
    cases pres <;> cases ld <;> simp only [minLenField, Nat.zero_le]
    rename_i n
    simp only [fieldFrom] at h
    rcases fieldFromCore_ok_inv h with ⟨h1, _⟩ | ⟨_, hg, _, _⟩
    · simp [getPres] at h1
    · simp only [getLen, Except.ok.injEq] at hg; split at hg <;> omega
  | env name pres ld cl fs =>
    cases pres <;> cases ld <;> simp only [minLenField, Nat.zero_le]
    rename_i n
    simp only [fieldFrom] at h
    rcases fieldFromCore_ok_inv h with ⟨h1, _⟩ | ⟨_, hg, _, _⟩
    · simp [getPres] at h1
    · simp only [getLen, Except.ok.injEq] at hg; split at hg <;> omega
  | seq name pres ld item =>
    cases pres <;> cases ld <;> simp only [minLenField, Nat.zero_le]
    rename_i n
    simp only [fieldFrom] at h
    rcases fieldFromCore_ok_inv h with ⟨h1, _⟩ | ⟨_, hg, _, _⟩
    · simp [getPres] at h1
    · simp only [getLen, Except.ok.injEq] at hg; split at hg <;> omega

theorem minLen_le : ∀ (fs : List FDef) {pre v' : Vals} {data : List Nat} {n : Nat},
    envFrom fs pre data 0 = .ok (v', n) → minLen fs ≤ n
  | [], _, _, _, _, _ => by simp [minLen]
  | f :: fs, pre, v', data, n, h => by
    rw [envFrom_cons] at h
    cases hf : fieldFrom f pre data with
    | error e => simp [hf] at h
    | ok r =>
      obtain ⟨p1, k⟩ := r
      simp only [hf] at h
      cases hr : envFrom fs p1 (List.drop k data) 0 with
      | error e => simp [hr] at h
      | ok r2 =>
        obtain ⟨v2, k'⟩ := r2
        simp only [hr, Except.ok.injEq, Prod.mk.injEq] at h
        have := minLenField_le f hf
        have := minLen_le fs hr
        simp only [minLen, List.map_cons, List.sum_cons] at *
        omega

/-! ## no ProtocolError / hang from a well-formed definition -/

def FieldEB (f : FDef) : Prop :=
  wfField f = true →
    (∀ pre data e, fieldFrom f pre data = .error e → e.benign) ∧ (∀ v e, fieldTo f v = .error e → e.benign)

def EnvEB (fs : List FDef) : Prop :=
  wfFields fs = true →
    (∀ pre data off e, envFrom fs pre data off = .error e → e.benign) ∧ (∀ v e, envTo fs v = .error e → e.benign)

theorem envEB_of_fields : ∀ (fs : List FDef), (∀ f ∈ fs, FieldEB f) → EnvEB fs
  | [], _ => by
    intro _
    exact ⟨by intro _ _ _ _ h; simp [envFrom] at h, by intro _ _ h; simp [envTo] at h⟩
  | f :: fs, hall => by
    intro hw
    simp only [wfFields, Bool.and_eq_true] at hw
    obtain ⟨hf1, hf2⟩ := hall f (List.mem_cons_self ..) hw.1
    obtain ⟨ih1, ih2⟩ := envEB_of_fields fs (fun g hg => hall g (List.mem_cons_of_mem _ hg)) hw.2
    refine ⟨?_, ?_⟩
    · intro pre data off e h
      simp only [envFrom] at h
      cases hff : fieldFrom f pre (List.drop off data) with
      | error e' => simp only [hff, Except.error.injEq] at h; subst h; exact benign_wrapDec (hf1 _ _ _ hff)
      | ok r => obtain ⟨v, k⟩ := r; simp only [hff] at h; exact ih1 _ _ _ _ h
    · intro v e h
      simp only [envTo] at h
      cases hft : fieldTo f v with
      | error e' => simp only [hft, Except.error.injEq] at h; subst h; exact benign_wrapEnc (hf2 _ _ hft)
      | ok a =>
        simp only [hft] at h
        cases hr : envTo fs v with
        | error e' => simp only [hr, Except.error.injEq] at h; subst h; exact ih2 _ _ hr
        | ok b => simp [hr] at h

theorem seqLoop_benign (proc : List Nat → Except Err (Vals × Nat))
    (H1 : ∀ x e, proc x = .error e → e.benign) (H2 : ∀ x v k, proc x = .ok (v, k) → k ≥ 1) :
    ∀ (fuel : Nat) (data : List Nat) (off : Nat) (acc : List Val) (e : Err),
      fuel + off ≥ data.length → seqLoop proc fuel data off acc = .error e → e.benign
  | fuel, data, off, acc, e, hfuel, h => by
    unfold seqLoop at h
    split at h
    · rename_i hlt
      match fuel, hfuel, h with
      | 0, hfuel, h => omega
      | fuel + 1, hfuel, h =>
        simp only at h
        cases hp : proc (List.drop off data) with
        | error e' => simp only [hp, Except.error.injEq] at h; subst h; exact H1 _ _ hp
        | ok r =>
          obtain ⟨v, k⟩ := r
          simp only [hp] at h
          have := H2 _ _ _ hp
          split at h
          · omega
          · exact seqLoop_benign proc H1 H2 fuel data (off + k) _ e (by omega) h
    · cases h

theorem seqEnc_benign (enc : Vals → Except Err (List Nat)) (H : ∀ v e, enc v = .error e → e.benign) :
    ∀ (items : List Val) (e : Err), seqEnc enc items = .error e → e = .unmodelled ∨ e.benign
  | [], _, h => by simp [seqEnc] at h
  | .dict v :: rest, e, h => by
    simp only [seqEnc] at h
    cases ha : enc v with
    | error e' => simp only [ha, Except.error.injEq] at h; subst h; exact .inr (H _ _ ha)
    | ok a =>
      simp only [ha] at h
      cases hb : seqEnc enc rest with
      | error e' => simp only [hb, Except.error.injEq] at h; subst h; exact seqEnc_benign enc H rest _ hb
      | ok b => simp [hb] at h
  | .int _ :: _, e, h => by simp only [seqEnc, Except.error.injEq] at h; exact .inl h.symm
  | .bytes _ :: _, e, h => by simp only [seqEnc, Except.error.injEq] at h; exact .inl h.symm
  | .list _ :: _, e, h => by simp only [seqEnc, Except.error.injEq] at h; exact .inl h.symm

theorem unmodelled_benign : Err.benign .unmodelled := by simp [Err.benign]

theorem fieldEB_flat_from {pres glen body} (hg : ∀ pre n e, glen pre n = .error e → e.benign)
    (hb : ∀ pre d e, body pre d = .error e → e.benign) :
    ∀ pre data e, fieldFromCore pres glen body pre data = .error e → e.benign :=
  fun pre _ _ h => fieldFromCore_benign (hg pre) (hb pre) h

theorem fieldEB : ∀ (f : FDef), FieldEB f
  | .int name pres len bo sg off mult => by
    intro _
    refine ⟨?_, ?_⟩
    · intro pre data e h
      simp only [fieldFrom] at h
      exact fieldFromCore_benign (by intro n e h; simp at h) (by intro d e h; simp [intDec] at h) h
    · intro v e h
      simp only [fieldTo] at h
      refine fieldToCore_benign ?_ h
      intro e hb
      simp only [intEnc] at hb
      cases hg : Vals.getInt v name with
      | error e' => simp only [hg, Except.error.injEq] at hb; subst hb; exact getTyped_benign.1 hg
      | ok x =>
        simp only [hg] at hb
        split at hb
        · cases hb; simp [Err.benign]
        · exact intToBytes_benign hb
  | .buf name pres ld => by
    intro _
    refine ⟨?_, ?_⟩
    · intro pre data e h
      simp only [fieldFrom] at h
      exact fieldFromCore_benign (fun n e h => getLen_benign h) (by intro d e h; simp at h) h
    · intro v e h
      simp only [fieldTo] at h
      exact fieldToCore_benign (fun e hb => getTyped_benign.2.1 hb) h
  | .spare name pres ld filler => by
    intro _
    refine ⟨?_, ?_⟩
    · intro pre data e h
      simp only [fieldFrom] at h
      exact fieldFromCore_benign (fun n e h => getLen_benign h) (by intro d e h; simp at h) h
    · intro v e h
      simp only [fieldTo] at h
      refine fieldToCore_benign ?_ h
      intro e hb
      cases hg : getLen ld v 0 with
      | error e' => simp only [hg, Except.error.injEq] at hb; subst hb; exact getLen_benign hg
      | ok n => simp [hg] at hb
  | .bits pres len little fs => by
    intro hw
    obtain ⟨l, offs, hd⟩ := wfField_bits_derive hw
    refine ⟨?_, ?_⟩
    · intro pre data e h
      simp only [fieldFrom, hd] at h
      exact fieldFromCore_benign (by intro n e h; simp at h) (fun d e h => bitsDec_benign h) h
    · intro v e h
      simp only [fieldTo, hd] at h
      refine fieldToCore_benign ?_ h
      intro e hb
      simp only [bitsEncBytes] at hb
      cases hg : bitsEnc offs v 0 with
      | error e' => simp only [hg, Except.error.injEq] at hb; subst hb; exact bitsEnc_benign hg
      | ok blob => simp only [hg] at hb; exact intToBytes_benign hb
  | .env name pres ld cl fs => by
    intro hw
    simp only [wfField, Bool.and_eq_true, decide_eq_true_eq] at hw
    obtain ⟨ih1, ih2⟩ := envEB_of_fields fs (fun g _ => fieldEB g) hw.1.2
    refine ⟨?_, ?_⟩
    · intro pre data e h
      simp only [fieldFrom] at h
      refine fieldFromCore_benign (fun n e h => getLen_benign h) ?_ h
      intro d e hb
      cases he : envFrom fs [] d 0 with
      | error e' =>
        simp only [he, tailCheck, Except.error.injEq] at hb; subst hb; exact ih1 _ _ _ _ he
      | ok r =>
        obtain ⟨inner, o⟩ := r
        simp only [he, tailCheck] at hb
        by_cases hc : cl = true ∧ d.length ≠ o
        · rw [if_pos hc] at hb
          simp only [Except.error.injEq] at hb; subst hb; simp [Err.benign]
        · rw [if_neg hc] at hb
          simp at hb
    · intro v e h
      simp only [fieldTo] at h
      refine fieldToCore_benign ?_ h
      intro e hb
      cases hg : Vals.getDict v name with
      | error e' => simp only [hg, Except.error.injEq] at hb; subst hb; exact getTyped_benign.2.2.1 hg
      | ok inner => simp only [hg] at hb; exact ih2 _ _ hb
  | .seq name pres ld item => by
    intro hw
    simp only [wfField, Bool.and_eq_true, decide_eq_true_eq] at hw
    obtain ⟨ih1, ih2⟩ := envEB_of_fields item (fun g _ => fieldEB g) hw.1.1
    refine ⟨?_, ?_⟩
    · intro pre data e h
      simp only [fieldFrom] at h
      refine fieldFromCore_benign (fun n e h => getLen_benign h) ?_ h
      intro d e hb
      cases hs : seqLoop (fun x => envFrom item [] x 0) d.length d 0 [] with
      | error e' =>
        simp only [hs, Except.error.injEq] at hb; subst hb
        refine seqLoop_benign _ (fun x e h => ih1 _ _ _ _ h) ?_ _ _ _ _ _ (by omega) hs
        intro x v k hp
        have := minLen_le item hp
        omega
      | ok r => simp [hs] at hb
    · intro v e h
      simp only [fieldTo] at h
      refine fieldToCore_benign ?_ h
      intro e hb
      cases hg : Vals.getList v name with
      | error e' => simp only [hg, Except.error.injEq] at hb; subst hb; exact getTyped_benign.2.2.2 hg
      | ok items =>
        simp only [hg] at hb
        rcases seqEnc_benign _ (fun v e h => ih2 v e h) items e hb with rfl | h
        · exact unmodelled_benign
        · exact h
termination_by f => sizeOf f
decreasing_by
  all_goals simp_wf
  all_goals (have := List.sizeOf_lt_of_mem ‹_›; omega)

theorem envEB (fs : List FDef) : EnvEB fs := envEB_of_fields fs (fun g _ => fieldEB g)

/-! ## a well-formed definition can be constructed -/

theorem constructFields_of_fields : ∀ (fs : List FDef), (∀ f ∈ fs, wfField f = true → constructField f = true) →
    wfFields fs = true → constructFields fs = true
  | [], _, _ => rfl
  | f :: fs, h, hw => by
    simp only [wfFields, Bool.and_eq_true] at hw
    simp only [constructFields, Bool.and_eq_true]
    exact ⟨h f (List.mem_cons_self ..) hw.1,
      constructFields_of_fields fs (fun g hg => h g (List.mem_cons_of_mem _ hg)) hw.2⟩

theorem constructField_of_wf : ∀ (f : FDef), wfField f = true → constructField f = true
  | .int .., _ => rfl
  | .buf .., _ => rfl
  | .spare .., _ => rfl
  | .bits pres len little fs, hw => by
    obtain ⟨l, offs, hd⟩ := wfField_bits_derive hw
    simp [constructField, hd]
  | .env name pres ld cl fs, hw => by
    simp only [wfField, Bool.and_eq_true, decide_eq_true_eq] at hw
    simp only [constructField]
    exact constructFields_of_fields fs (fun g _ => constructField_of_wf g) hw.1.2
  | .seq name pres ld item, hw => by
    simp only [wfField, Bool.and_eq_true, decide_eq_true_eq] at hw
    simp only [constructField]
    exact constructFields_of_fields item (fun g _ => constructField_of_wf g) hw.1.1
termination_by f => sizeOf f
decreasing_by
  all_goals simp_wf
  all_goals (have := List.sizeOf_lt_of_mem ‹_›; omega)

/-! ## envelope level: only DecodeError / EncodeError are catchable outcomes -/

theorem envFrom_error_cases : ∀ (fs : List FDef) (pre : Vals) (data : List Nat) (off : Nat) (e : Err),
    envFrom fs pre data off = .error e → e = .decode ∨ e.catchable = false
  | [], _, _, _, _, h => by simp [envFrom] at h
  | f :: fs, pre, data, off, e, h => by
    simp only [envFrom] at h
    cases hf : fieldFrom f pre (List.drop off data) with
    | error e' =>
      simp only [hf, Except.error.injEq] at h; subst h
      rcases wrapDec_cases e' with h1 | ⟨h1, h2⟩
      · exact .inl h1
      · rw [h1]; exact .inr h2
    | ok r => obtain ⟨v, k⟩ := r; simp only [hf] at h; exact envFrom_error_cases fs _ _ _ _ h

theorem envTo_error_cases : ∀ (fs : List FDef) (v : Vals) (e : Err),
    envTo fs v = .error e → e = .encode ∨ e.catchable = false
  | [], _, _, h => by simp [envTo] at h
  | f :: fs, v, e, h => by
    simp only [envTo] at h
    cases hf : fieldTo f v with
    | error e' =>
      simp only [hf, Except.error.injEq] at h; subst h
      rcases wrapEnc_cases e' with h1 | ⟨h1, h2⟩
      · exact .inl h1
      · rw [h1]; exact .inr h2
    | ok a =>
      simp only [hf] at h
      cases hr : envTo fs v with
      | error e' => simp only [hr, Except.error.injEq] at h; subst h; exact envTo_error_cases fs v _ hr
      | ok b => simp [hr] at h

theorem benign_not_catchable {e : Err} (h1 : e.benign) (h2 : e.catchable = false) : e = .unmodelled := by
  cases e <;> simp_all [Err.benign, Err.catchable]

/-! ## dict updates -/

theorem Vals.get_set_self : ∀ (v : Vals) (n : String) (x : Val), Vals.get (Vals.set v n x) n = .ok x
  | [], n, x => by simp [Vals.set, Vals.get]
  | (k, y) :: v, n, x => by
    simp only [Vals.set]
    by_cases hk : k = n
    · simp [hk, Vals.get]
    · simp only [hk, if_false, Vals.get]; exact Vals.get_set_self v n x

theorem Vals.get_set_ne : ∀ (v : Vals) (n m : String) (x : Val), m ≠ n → Vals.get (Vals.set v n x) m = Vals.get v m
  | [], n, m, x, h => by simp [Vals.set, Vals.get, h.symm]
  | (k, y) :: v, n, m, x, h => by
    simp only [Vals.set]
    by_cases hk : k = n
    · subst hk; simp [Vals.get, h.symm]
    · simp only [hk, if_false, Vals.get]
      by_cases hm : k = m
      · simp [hm]
      · simp only [hm, if_false]; exact Vals.get_set_ne v n m x h

/-- the names a presence callback reads -/
def Pres.reads : Pres → List String
  | .always => []
  | .flagTrue n | .flagFalse n => [n]

theorem getPres_set_ne (p : Pres) (v : Vals) (n : String) (x : Val) (h : n ∉ p.reads) :
    getPres p (Vals.set v n x) = getPres p v := by
  cases p with
  | always => rfl
  | flagTrue m =>
    simp only [Pres.reads, List.mem_singleton] at h
    simp only [getPres, Vals.get_set_ne v n m x (fun e => h e.symm)]
  | flagFalse m =>
    simp only [Pres.reads, List.mem_singleton] at h
    simp only [getPres, Vals.get_set_ne v n m x (fun e => h e.symm)]

/-- encoding a bit-field only sees the value modulo `2^bl` -/
theorem bitEnc_trunc (f : BitF) (o : Nat) (v : Vals) (n : String) (y : Int) (hb : f.name = some n) :
    bitEnc f o (Vals.set v n (.int y)) = bitEnc f o (Vals.set v n (.int (y % ((2 ^ f.bl : Nat) : Int)))) := by
  simp only [bitEnc, hb, Vals.get_set_self]
  cases f.val with
  | some c => rfl
  | none => simp only [Int.emod_emod_of_dvd _ (Int.dvd_refl _)]

theorem bitEnc_other (f : BitF) (o : Nat) (v : Vals) (n : String) (x y : Val) (hb : f.name ≠ some n) :
    bitEnc f o (Vals.set v n x) = bitEnc f o (Vals.set v n y) := by
  simp only [bitEnc]
  cases hn : f.name with
  | none => rfl
  | some m =>
    have : m ≠ n := by intro e; subst e; exact hb hn
    simp only [Vals.get_set_ne v n m _ this]

/-- an over-wide value of the bit-field `n` (width `bl`) packs exactly like the value masked to `bl` bits:
every other field of the set contributes the same bits -/
theorem bitsEnc_trunc : ∀ (offs : List (BitF × Nat)) (v : Vals) (n : String) (y : Int) (bl acc : Nat),
    (∀ f ∈ offs, f.1.name = some n → f.1.bl = bl) →
    bitsEnc offs (Vals.set v n (.int y)) acc = bitsEnc offs (Vals.set v n (.int (y % ((2 ^ bl : Nat) : Int)))) acc
  | [], _, _, _, _, _, _ => rfl
  | (f, o) :: rest, v, n, y, bl, acc, h => by
    simp only [bitsEnc]
    have he : bitEnc f o (Vals.set v n (.int y)) = bitEnc f o (Vals.set v n (.int (y % ((2 ^ bl : Nat) : Int)))) := by
      by_cases hb : f.name = some n
      · have := h (f, o) (List.mem_cons_self ..) hb
        simp only at this
        rw [← this]; exact bitEnc_trunc f o v n y hb
      · exact bitEnc_other f o v n _ _ hb
    rw [he]
    cases bitEnc f o (Vals.set v n (.int (y % ((2 ^ bl : Nat) : Int)))) with
    | error e => rfl
    | ok x => exact bitsEnc_trunc rest v n y bl _ (fun g hg => h g (List.mem_cons_of_mem _ hg))

end OsmoVerif.Codec
