/- C16: whatever decodes successfully is an in-range value whose declared length is the number of
octets consumed (all field kinds, any nesting). -/
import OsmoVerif.Lemmas.CodecRT
namespace OsmoVerif.Codec

theorem fieldFromCore_ok_inv {pres : Pres} {glen : Vals → Nat → Except Err Nat}
    {body : Vals → List Nat → Except Err Vals} {pre v' : Vals} {data : List Nat} {k : Nat}
    (h : fieldFromCore pres glen body pre data = .ok (v', k)) :
    (getPres pres pre = .ok false ∧ v' = pre ∧ k = 0) ∨
    (getPres pres pre = .ok true ∧ glen pre data.length = .ok k ∧ k ≤ data.length
      ∧ body pre (data.take k) = .ok v') := by
  simp only [fieldFromCore] at h
  cases hp : getPres pres pre with
  | error e => simp [hp] at h
  | ok b =>
    cases b with
    | false => simp only [hp, Except.ok.injEq, Prod.mk.injEq] at h; exact .inl ⟨rfl, h.1.symm, h.2.symm⟩
    | true =>
      simp only [hp] at h
      cases hg : glen pre data.length with
      | error e => simp [hg] at h
      | ok n =>
        simp only [hg] at h
        split at h
        · cases h
        · rename_i hlt
          cases hb : body pre (List.take n data) with
          | error e => simp [hb] at h
          | ok v'' =>
            simp only [hb, Except.ok.injEq, Prod.mk.injEq] at h
            obtain ⟨rfl, rfl⟩ := h
            exact .inr ⟨rfl, rfl, by omega, hb⟩

/-- a successfully decoded field was either absent (nothing stored, nothing consumed) or present -/
theorem fieldFrom_pres (f : FDef) {pre v' : Vals} {data : List Nat} {k : Nat}
    (h : fieldFrom f pre data = .ok (v', k)) :
    (getPres f.pres pre = .ok false ∧ v' = pre ∧ k = 0) ∨ getPres f.pres pre = .ok true := by
  cases f with
  | bits pres len little fs =>
    simp only [fieldFrom] at h
    cases hd : bitsDerive len little fs with
    | error e => simp [hd] at h
    | ok r =>
      obtain ⟨l, offs⟩ := r
      simp only [hd] at h
      rcases fieldFromCore_ok_inv h with h1 | h1
      · exact .inl h1
      · exact .inr h1.1
  | _ =>
    simp only [fieldFrom] at h
    rcases fieldFromCore_ok_inv h with h1 | h1
    · exact .inl h1
    · exact .inr h1.1

/-! ## statements -/

def FieldDI (f : FDef) : Prop :=
  ∀ (pre pre' : Vals) (data : List Nat) (k : Nat),
    wfField f = true → getPres f.pres pre = .ok true → (∀ n ∈ f.storedNames, n ∉ pre.keys) →
    f.storedNames.Nodup → isBytes data = true → fieldFrom f pre data = .ok (pre', k) →
    ∃ c, pre' = pre ++ c ∧ c.length = f.nStored ∧ (∀ x ∈ c.keys, x ∈ f.storedNames) ∧ k ≤ data.length
      ∧ inRangeField f pre c (data.length - k) = some k

def EnvDI (fs : List FDef) : Prop :=
  ∀ (pre v' : Vals) (data : List Nat) (n : Nat),
    wfFields fs = true → (∀ x ∈ namesOf fs, x ∉ pre.keys) → (namesOf fs).Nodup → isBytes data = true →
    envFrom fs pre data 0 = .ok (v', n) →
    ∃ rst, v' = pre ++ rst ∧ n ≤ data.length ∧ inRangeFields fs pre rst (data.length - n) = some n

theorem namesOf_cons (f : FDef) (fs : List FDef) : namesOf (f :: fs) = f.storedNames ++ namesOf fs := by
  simp [namesOf]

theorem envDI_of_fields : ∀ (fs : List FDef), (∀ f ∈ fs, FieldDI f) → EnvDI fs
  | [], _ => by
    intro pre v' data n _ _ _ _ h
    simp only [envFrom, Except.ok.injEq, Prod.mk.injEq] at h
    obtain ⟨rfl, rfl⟩ := h
    exact ⟨[], by simp, by omega, by simp [inRangeFields]⟩
  | f :: fs, hall => by
    intro pre v' data n hw hnames hnodup hib h
    have ih := envDI_of_fields fs (fun g hg => hall g (List.mem_cons_of_mem _ hg))
    simp only [wfFields, Bool.and_eq_true] at hw
    rw [namesOf_cons] at hnames hnodup
    rw [envFrom_cons] at h
    cases hf : fieldFrom f pre data with
    | error e => simp [hf] at h
    | ok r =>
      obtain ⟨p1, k⟩ := r
      simp only [hf] at h
      cases hrest : envFrom fs p1 (List.drop k data) 0 with
      | error e => simp [hrest] at h
      | ok r2 =>
        obtain ⟨v2, k'⟩ := r2
        simp only [hrest, Except.ok.injEq, Prod.mk.injEq] at h
        obtain ⟨rfl, rfl⟩ := h
        have hnfs : ∀ x ∈ namesOf fs, x ∉ pre.keys := fun x hx => hnames x (List.mem_append_right _ hx)
        have hndfs : (namesOf fs).Nodup := (List.nodup_append.1 hnodup).2.1
        rcases fieldFrom_pres f hf with ⟨hp, rfl, rfl⟩ | hp
        · -- absent
          simp only [List.drop_zero] at hrest
          obtain ⟨rst, e1, e2, e3⟩ := ih p1 v2 data k' hw.2 hnfs hndfs hib hrest
          refine ⟨rst, e1, by omega, ?_⟩
          simp only [inRangeFields, hp, Nat.zero_add]; exact e3
        · -- present
          obtain ⟨c, rfl, hcl, hck, hkl, hrf⟩ := hall f (List.mem_cons_self ..) pre p1 data k hw.1 hp
            (fun x hx => hnames x (List.mem_append_left _ hx)) (List.nodup_append.1 hnodup).1 hib hf
          have hdisj : ∀ x ∈ namesOf fs, x ∉ (pre ++ c).keys := by
            intro x hx
            rw [Vals.keys_append, List.mem_append, not_or]
            refine ⟨hnfs x hx, fun hxc => ?_⟩
            exact (List.nodup_append.1 hnodup).2.2 x (hck x hxc) x hx rfl
          obtain ⟨rst, e1, e2, e3⟩ := ih (pre ++ c) v2 (data.drop k) k' hw.2 hdisj hndfs
            (isBytes_drop _ _ hib) hrest
          simp only [List.length_drop] at e2 e3
          refine ⟨c ++ rst, by rw [e1, List.append_assoc], by omega, ?_⟩
          simp only [inRangeFields, hp]
          rw [← hcl, List.take_left, List.drop_left]
          have hR : data.length - k - k' = data.length - (k + k') := by omega
          rw [hR] at e3
          simp only [e3]
          have hR2 : k' + (data.length - (k + k')) = data.length - k := by omega
          rw [hR2, hrf]

/-! ## sequences -/

theorem seqDI (proc : List Nat → Except Err (Vals × Nat)) (chk : Vals → Nat → Option Nat)
    (H : ∀ (x : List Nat) (v : Vals) (k : Nat), isBytes x = true → proc x = .ok (v, k) →
        k ≤ x.length ∧ chk v (x.length - k) = some k) :
    ∀ (fuel : Nat) (data : List Nat) (off : Nat) (acc res : List Val), isBytes data = true →
      off ≤ data.length → seqLoop proc fuel data off acc = .ok res →
      ∃ items, res = acc ++ items ∧ inRangeItems chk items = some (data.length - off)
  | fuel, data, off, acc, res, hib, hoff, h => by
    unfold seqLoop at h
    split at h
    · rename_i hlt
      match fuel, h with
      | 0, h => cases h
      | fuel + 1, h =>
        simp only at h
        cases hp : proc (List.drop off data) with
        | error e => simp [hp] at h
        | ok r =>
          obtain ⟨v, k⟩ := r
          simp only [hp] at h
          split at h
          · cases h
          · rename_i hk
            obtain ⟨hkl, hc⟩ := H _ v k (isBytes_drop _ _ hib) hp
            simp only [List.length_drop] at hkl hc
            obtain ⟨items, e1, e2⟩ := seqDI proc chk H fuel data (off + k) _ res hib (by omega) h
            refine ⟨.dict v :: items, by simp [e1], ?_⟩
            simp only [inRangeItems, e2]
            have : data.length - (off + k) = data.length - off - k := by omega
            rw [this, hc]
            have hk1 : k ≥ 1 := by omega
            simp only [hk1, if_true]
            congr 1; omega
    · rename_i hge
      cases h
      refine ⟨[], by simp, ?_⟩
      have : data.length - off = 0 := by omega
      simp [inRangeItems, this]

/-! ## bit fields -/

def bitNames (offs : List (BitF × Nat)) : List String := offs.filterMap (·.1.name)

theorem bitsDI : ∀ (offs : List (BitF × Nat)) (pre pre' : Vals) (blob : Nat),
    (∀ n ∈ bitNames offs, n ∉ pre.keys) → (bitNames offs).Nodup →
    bitsDec offs pre blob = .ok pre' →
    ∃ c, pre' = pre ++ c ∧ c.keys = bitNames offs ∧ inRangeBits offs pre c = true
  | [], pre, pre', blob, _, _, h => by
    simp only [bitsDec, Except.ok.injEq] at h
    subst h
    exact ⟨[], by simp, rfl, rfl⟩
  | (f, o) :: rest, pre, pre', blob, hn, hnd, h => by
    cases hname : f.name with
    | none =>
      have hb : bitNames ((f, o) :: rest) = bitNames rest := by simp [bitNames, hname]
      rw [hb] at hn hnd
      simp only [bitsDec, hname] at h
      obtain ⟨c, e1, e2, e3⟩ := bitsDI rest pre pre' blob hn hnd h
      exact ⟨c, e1, by rw [hb]; exact e2, by simp only [inRangeBits, hname]; exact e3⟩
    | some n =>
      have hb : bitNames ((f, o) :: rest) = n :: bitNames rest := by simp [bitNames, hname]
      rw [hb] at hn hnd
      have hnm : n ∉ pre.keys := hn n (List.mem_cons_self ..)
      simp only [bitsDec, hname, Vals.set_of_not_mem _ _ _ hnm] at h
      have hn' : ∀ m ∈ bitNames rest, m ∉ (pre ++ [(n, Val.int (((blob >>> o) % 2 ^ f.bl : Nat) : Int))]).keys := by
        intro m hm
        rw [Vals.keys_append, List.mem_append, not_or]
        refine ⟨hn m (List.mem_cons_of_mem _ hm), ?_⟩
        simp only [Vals.keys, List.map_cons, List.map_nil, List.mem_singleton]
        rintro rfl
        exact (List.nodup_cons.1 hnd).1 hm
      have hrest : bitsDec rest (pre ++ [(n, Val.int (((blob >>> o) % 2 ^ f.bl : Nat) : Int))]) blob = .ok pre'
          ∧ (∀ cst, f.val = some cst → (((blob >>> o) % 2 ^ f.bl : Nat) : Int) = cst) := by
        cases hv : f.val with
        | none => simp only [hv] at h; exact ⟨h, by simp⟩
        | some cst =>
          simp only [hv] at h
          split at h
          · cases h
          · rename_i hne
            simp only [ne_eq, Decidable.not_not] at hne
            exact ⟨h, by intro c hc; cases hc; exact hne⟩
      obtain ⟨c, e1, e2, e3⟩ := bitsDI rest _ pre' blob hn' (List.nodup_cons.1 hnd).2 hrest.1
      refine ⟨(n, .int (((blob >>> o) % 2 ^ f.bl : Nat) : Int)) :: c, by simp [e1], by simp [Vals.keys_cons, e2, hb], ?_⟩
      simp only [inRangeBits, hname, e3, Bool.and_true, Bool.and_eq_true, decide_eq_true_eq]
      have hlt : (blob >>> o) % 2 ^ f.bl < 2 ^ f.bl := Nat.mod_lt _ (Nat.pow_pos (by decide))
      refine ⟨⟨⟨⟨trivial, hnm⟩, by omega⟩, by omega⟩, ?_⟩
      cases hv : f.val with
      | none => rfl
      | some cst => simp [hrest.2 cst hv]

theorem bitNames_derive {len little fs l offs} (h : bitsDerive len little fs = .ok (l, offs)) :
    bitNames offs = (bitsOrdered little fs).filterMap (·.name)
      ∧ Chain (l * 8) offs := by
  simp only [bitsDerive] at h
  cases ho : bitsOffsets (bitsLen len (bitsOrdered little fs) * 8) (bitsOrdered little fs) with
  | error e => simp [ho] at h
  | ok o =>
    simp only [ho, Except.ok.injEq, Prod.mk.injEq] at h
    obtain ⟨rfl, rfl⟩ := h
    obtain ⟨hc, hm⟩ := bitsOffsets_chain _ _ _ ho
    refine ⟨?_, hc⟩
    simp only [bitNames]
    rw [← hm, List.filterMap_map]
    rfl

theorem bitsOrdered_names (little : Bool) (fs : List BitF) :
    (∀ x, x ∈ (bitsOrdered little fs).filterMap (·.name) ↔ x ∈ fs.filterMap (·.name))
    ∧ ((bitsOrdered little fs).filterMap (·.name)).length = (fs.filterMap (·.name)).length
    ∧ ((fs.filterMap (·.name)).Nodup → ((bitsOrdered little fs).filterMap (·.name)).Nodup) := by
  cases little with
  | false => simp [bitsOrdered]
  | true =>
    simp only [bitsOrdered, if_true, List.filterMap_reverse, List.mem_reverse, List.length_reverse]
    refine ⟨fun _ => trivial, trivial, fun h => ?_⟩
    rw [List.Nodup, List.pairwise_reverse]
    exact h.imp (fun h => h.symm)

/-! ## the field kinds -/

theorem length_take_le {α : Type} {l : List α} {k : Nat} (h : k ≤ l.length) : (l.take k).length = k := by
  rw [List.length_take]; omega

theorem fieldDI_int (name pres len bo sg off mult) : FieldDI (.int name pres len bo sg off mult) := by
  intro pre pre' data k hw hp hn _ hib h
  simp only [wfField, Bool.and_eq_true, decide_eq_true_eq] at hw
  obtain ⟨hlen, hmult⟩ := hw
  simp only [FDef.pres] at hp
  simp only [fieldFrom] at h
  rcases fieldFromCore_ok_inv h with ⟨h1, _, _⟩ | ⟨_, hg, hk, hb⟩
  · rw [hp] at h1; cases h1
  · have hl0 : len ≠ 0 := by omega
    simp only [hl0, if_false, Except.ok.injEq] at hg
    subst hg
    have hnm : name ∉ pre.keys := hn name (by simp [FDef.storedNames])
    simp only [intDec, Except.ok.injEq, Vals.set_of_not_mem _ _ _ hnm] at hb
    refine ⟨_, hb.symm, rfl, by simp [Vals.keys, FDef.storedNames], hk, ?_⟩
    simp only [inRangeField]
    have e : intFromBytes bo sg (List.take len data) * mult + off - off
        = intFromBytes bo sg (List.take len data) * mult := by omega
    rw [if_pos]
    refine ⟨trivial, hnm, ?_, ?_⟩
    · rw [e, Int.mul_fdiv_cancel _ hmult]
    · rw [e, Int.mul_fdiv_cancel _ hmult]
      have := intFromBytes_fits bo sg (data.take len) (isBytes_take _ _ hib)
      rwa [length_take_le hk] at this

theorem getLen_total {ld : LenD} {pre : Vals} {data : List Nat} {k : Nat} (hg : getLen ld pre data.length = .ok k)
    (hk : k ≤ data.length) : lenOK ld pre k (data.length - k) = true := by
  rw [lenOK_iff]
  have : k + (data.length - k) = data.length := by omega
  rw [this, hg]

theorem fieldDI_buf (name pres ld) : FieldDI (.buf name pres ld) := by
  intro pre pre' data k _ hp hn _ hib h
  simp only [FDef.pres] at hp
  simp only [fieldFrom] at h
  rcases fieldFromCore_ok_inv h with ⟨h1, _, _⟩ | ⟨_, hg, hk, hb⟩
  · rw [hp] at h1; cases h1
  · have hnm : name ∉ pre.keys := hn name (by simp [FDef.storedNames])
    simp only [Except.ok.injEq, Vals.set_of_not_mem _ _ _ hnm] at hb
    refine ⟨_, hb.symm, rfl, by simp [Vals.keys, FDef.storedNames], hk, ?_⟩
    simp only [inRangeField, length_take_le hk]
    rw [if_pos ⟨trivial, hnm, isBytes_take _ _ hib, getLen_total hg hk⟩]

theorem fieldDI_spare (name pres ld filler) : FieldDI (.spare name pres ld filler) := by
  intro pre pre' data k hw hp _ _ _ h
  simp only [wfField, Bool.and_eq_true, decide_eq_true_eq] at hw
  simp only [FDef.pres] at hp
  simp only [fieldFrom] at h
  rcases fieldFromCore_ok_inv h with ⟨h1, _, _⟩ | ⟨_, hg, hk, hb⟩
  · rw [hp] at h1; cases h1
  · simp only [Except.ok.injEq] at hb
    refine ⟨[], by simp [hb], rfl, by simp [Vals.keys], hk, ?_⟩
    simp only [inRangeField]
    rw [getLen_spare_indep ld hw.2 pre 0 data.length, hg]
    simp only [getLen_total hg hk, if_true]

theorem fieldDI_bits (pres len little fs) : FieldDI (.bits pres len little fs) := by
  intro pre pre' data k _ hp hn hnd _ h
  simp only [FDef.pres] at hp
  simp only [fieldFrom] at h
  cases hd : bitsDerive len little fs with
  | error e => simp [hd] at h
  | ok r =>
    obtain ⟨l, offs⟩ := r
    simp only [hd] at h
    rcases fieldFromCore_ok_inv h with ⟨h1, _, _⟩ | ⟨_, hg, hk, hb⟩
    · rw [hp] at h1; cases h1
    · simp only [Except.ok.injEq] at hg
      subst hg
      obtain ⟨hbn, _⟩ := bitNames_derive hd
      obtain ⟨hmem, hlen, hnodup⟩ := bitsOrdered_names little fs
      simp only [FDef.storedNames] at hn hnd
      obtain ⟨c, e1, e2, e3⟩ := bitsDI offs pre pre' _
        (by intro n hx; rw [hbn] at hx; exact hn n ((hmem n).1 hx))
        (by rw [hbn]; exact hnodup hnd) hb
      refine ⟨c, e1, ?_, ?_, hk, ?_⟩
      · have : c.length = c.keys.length := by simp [Vals.keys]
        rw [this, e2, hbn, hlen]; rfl
      · intro x hx; rw [e2, hbn] at hx; exact (hmem x).1 hx
      · simp only [inRangeField, hd, e3, if_true]

theorem fieldDI_env (name pres ld cl fs) (hfs : EnvDI fs) : FieldDI (.env name pres ld cl fs) := by
  intro pre pre' data k hw hp hn _ hib h
  simp only [wfField, Bool.and_eq_true, decide_eq_true_eq] at hw
  obtain ⟨⟨hcl, hwf⟩, hnd⟩ := hw
  subst hcl
  simp only [FDef.pres] at hp
  simp only [fieldFrom] at h
  rcases fieldFromCore_ok_inv h with ⟨h1, _, _⟩ | ⟨_, hg, hk, hb⟩
  · rw [hp] at h1; cases h1
  · have hnm : name ∉ pre.keys := hn name (by simp [FDef.storedNames])
    cases he : envFrom fs [] (List.take k data) 0 with
    | error e => simp [he, tailCheck] at hb
    | ok r =>
      obtain ⟨inner, off⟩ := r
      by_cases hoff : (List.take k data).length = off
      · simp only [he, tailCheck, hoff, ne_eq, not_true_eq_false, and_false, if_false,
          Except.ok.injEq, Vals.set_of_not_mem _ _ _ hnm] at hb
        obtain ⟨rst, e1, e2, e3⟩ := hfs [] inner (data.take k) off hwf (by simp [Vals.keys]) hnd
          (isBytes_take _ _ hib) he
        simp only [List.nil_append] at e1
        subst e1
        rw [hoff, Nat.sub_self] at e3
        rw [length_take_le hk] at hoff
        subst hoff
        refine ⟨_, hb.symm, rfl, by simp [Vals.keys, FDef.storedNames], hk, ?_⟩
        simp only [inRangeField, e3]
        rw [if_pos ⟨trivial, hnm, getLen_total hg hk⟩]
      · rw [he] at hb
        simp only [tailCheck] at hb
        rw [if_pos ⟨trivial, hoff⟩] at hb
        cases hb

theorem fieldDI_seq (name pres ld item) (hitem : EnvDI item) : FieldDI (.seq name pres ld item) := by
  intro pre pre' data k hw hp hn _ hib h
  simp only [wfField, Bool.and_eq_true, decide_eq_true_eq] at hw
  obtain ⟨⟨hwf, hnd⟩, _⟩ := hw
  simp only [FDef.pres] at hp
  simp only [fieldFrom] at h
  rcases fieldFromCore_ok_inv h with ⟨h1, _, _⟩ | ⟨_, hg, hk, hb⟩
  · rw [hp] at h1; cases h1
  · have hnm : name ∉ pre.keys := hn name (by simp [FDef.storedNames])
    cases hs : seqLoop (fun x => envFrom item [] x 0) (List.take k data).length (List.take k data) 0 [] with
    | error e => rw [hs] at hb; cases hb
    | ok vseq =>
      simp only [hs, Except.ok.injEq, Vals.set_of_not_mem _ _ _ hnm] at hb
      obtain ⟨items, e1, e2⟩ := seqDI (fun x => envFrom item [] x 0) (fun iv r => inRangeFields item [] iv r)
        (by
          intro x v kk hx hpx
          obtain ⟨rst, e1, e2, e3⟩ := hitem [] v x kk hwf (by simp [Vals.keys]) hnd hx hpx
          simp only [List.nil_append] at e1
          subst e1
          exact ⟨e2, e3⟩)
        _ (data.take k) 0 [] vseq (isBytes_take _ _ hib) (by omega) hs
      simp only [List.nil_append] at e1
      subst e1
      rw [Nat.sub_zero, length_take_le hk] at e2
      refine ⟨_, hb.symm, rfl, by simp [Vals.keys, FDef.storedNames], hk, ?_⟩
      simp only [inRangeField, e2]
      rw [if_pos ⟨trivial, hnm, getLen_total hg hk⟩]

theorem fieldDI : ∀ (f : FDef), FieldDI f
  | .int a b c d e f g => fieldDI_int a b c d e f g
  | .buf a b c => fieldDI_buf a b c
  | .spare a b c d => fieldDI_spare a b c d
  | .bits a b c d => fieldDI_bits a b c d
  | .env name pres ld cl fs =>
    fieldDI_env name pres ld cl fs (envDI_of_fields fs (fun g _ => fieldDI g))
  | .seq name pres ld item =>
    fieldDI_seq name pres ld item (envDI_of_fields item (fun g _ => fieldDI g))
termination_by f => sizeOf f
decreasing_by
  all_goals simp_wf
  all_goals (have := List.sizeOf_lt_of_mem ‹_›; omega)

theorem envDI (fs : List FDef) : EnvDI fs := envDI_of_fields fs (fun g _ => fieldDI g)

end OsmoVerif.Codec
