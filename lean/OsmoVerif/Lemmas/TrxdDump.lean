/-
Helper lemmas about `OsmoVerif.Model.TrxdDump` (capture files) for C15: one loop iteration, records,
`_parse_msg` at a complete / cut record, `_seek2msg` and `parse_all` over a capture made of complete
records followed by a cut tail, the structure of a file cut at an arbitrary offset.
-/
import OsmoVerif.Model.TrxdDump
import OsmoVerif.Lemmas.Trxd
set_option linter.unusedSimpArgs false
namespace OsmoVerif.TrxdDump
open OsmoVerif OsmoVerif.Trxd

/-- one iteration of the `while True` loop of `parse_all` -/
theorem parseLoop_eq (count : Option Nat) (f : File) (result : List Msg) :
    parseLoop count f result =
      (match parseOne f with
       | .error e => .error e
       | .ok (.none, f') => .ok (result, f')
       | .ok (.false, f') => parseLoop count f' result
       | .ok (.msg m, f') =>
         if count = some (result ++ [m]).length then .ok (result ++ [m], f')
         else parseLoop count f' (result ++ [m])) := by
  rw [parseLoop]
  split
  · rename_i e h; simp only [h]
  · rename_i r f' h
    split
    · simp only [h]
    · simp only [h]
    · simp only [h]

/-! ### stored records -/

def tagOf : Kind → Bytes
  | .tx => Gen.Trxd.dumpTagTx
  | .rx => Gen.Trxd.dumpTagRx

/-- a record of the capture file: tag, 16-bit big-endian length, TRXD message octets -/
structure Rec where
  kind : Kind
  raw : Bytes

def Rec.bytes (r : Rec) : Bytes :=
  tagOf r.kind ++ [r.raw.length / 256 % 256, r.raw.length % 256] ++ r.raw

def recsBytes (rs : List Rec) : Bytes := (rs.map Rec.bytes).flatten

theorem hdrLength_eq : Gen.Trxd.dumpHdrLength = 3 := by decide

theorem tagOf_cases (k : Kind) : ∃ t, tagOf k = [t] ∧
    (([t] = Gen.Trxd.dumpTagTx ∧ k = .tx) ∨ ([t] ≠ Gen.Trxd.dumpTagTx ∧ [t] = Gen.Trxd.dumpTagRx ∧ k = .rx)) := by
  cases k
  · exact ⟨1, rfl, Or.inl ⟨by decide, rfl⟩⟩
  · exact ⟨2, rfl, Or.inr ⟨by decide, by decide, rfl⟩⟩

theorem Rec.bytes_length (r : Rec) : r.bytes.length = 3 + r.raw.length := by
  obtain ⟨t, ht, _⟩ := tagOf_cases r.kind
  simp only [Rec.bytes, ht, List.length_append, List.length_cons, List.length_nil]

theorem parseHdr_rec (k : Kind) (n : Nat) (hn : n < 65536) :
    parseHdr (tagOf k ++ [n / 256 % 256, n % 256]) = .ok (some (k, n)) := by
  obtain ⟨t, ht, hk⟩ := tagOf_cases k
  have e : (n / 256 % 256) * 256 + n % 256 = n := by omega
  simp only [parseHdr, ht, List.cons_append, List.nil_append, slice, List.take_succ_cons, List.take_zero,
    List.drop_succ_cons, List.drop_zero, unpackBE16u, bind, Except.bind, pure, Except.pure, e]
  rcases hk with ⟨h1, rfl⟩ | ⟨h1, h2, rfl⟩
  · simp only [h1, if_true]
  · have h1' : ¬ (Gen.Trxd.dumpTagRx = Gen.Trxd.dumpTagTx) := by decide
    simp only [h1, h2, h1', if_true, if_false]

/-- `_parse_msg()` at the beginning of a complete record -/
theorem parseOne_record (f : File) (r : Rec) (rest : Bytes) (h : f.data.drop f.pos = r.bytes ++ rest)
    (hl : r.raw.length < 65536) :
    parseOne f = .ok (parseRaw r.kind r.raw, { f with pos := f.pos + r.bytes.length }) := by
  obtain ⟨t, ht, _⟩ := tagOf_cases r.kind
  have hh := parseHdr_rec r.kind r.raw.length hl
  simp only [ht, List.cons_append, List.nil_append] at hh
  have h1 : (f.data.drop f.pos).take 3 = [t, r.raw.length / 256 % 256, r.raw.length % 256] := by
    rw [h]; simp only [Rec.bytes, ht, List.cons_append, List.nil_append, List.take_succ_cons, List.take_zero]
  have h2 : f.data.drop (f.pos + 3) = r.raw ++ rest := by
    rw [← List.drop_drop, h]
    simp only [Rec.bytes, ht, List.cons_append, List.nil_append, List.drop_succ_cons, List.drop_zero,
      List.append_assoc]
  have h3 : (r.raw ++ rest).take r.raw.length = r.raw := List.take_left' rfl
  unfold parseOne
  simp only [File.read, hdrLength_eq, h1, List.length_cons, List.length_nil, bind, Except.bind, pure,
    Except.pure, hh, h2, h3, ne_eq, not_true_eq_false, if_false, Nat.zero_add, Nat.reduceAdd,
    Rec.bytes_length, Nat.add_assoc]

/-- `_parse_msg()` at the end of the file -/
theorem parseOne_eof (f : File) (h : f.data.drop f.pos = []) : parseOne f = .ok (.none, f) := by
  unfold parseOne
  simp only [File.read, h, List.take_nil, List.length_nil, hdrLength_eq, bind, Except.bind, pure,
    Except.pure, ne_eq, show ¬ (0 = 3) by omega, not_false_eq_true, if_true, Nat.add_zero]

/-- `_parse_msg()` at the beginning of a record that was cut: `None` -/
theorem parseOne_partial (f : File) (r : Rec) (n : Nat) (h : f.data.drop f.pos = r.bytes.take n)
    (hn : n < r.bytes.length) (hl : r.raw.length < 65536) :
    ∃ f', parseOne f = .ok (.none, f') := by
  obtain ⟨t, ht, _⟩ := tagOf_cases r.kind
  have hbl := r.bytes_length
  have hb : r.bytes = [t, r.raw.length / 256 % 256, r.raw.length % 256] ++ r.raw := by
    simp only [Rec.bytes, ht, List.cons_append, List.nil_append]
  by_cases h3 : n < 3
  · -- the header itself is incomplete
    have : ((f.data.drop f.pos).take 3).length = n := by
      rw [h]; simp only [List.length_take]; omega
    unfold parseOne
    simp only [File.read, hdrLength_eq, this, bind, Except.bind, pure, Except.pure, ne_eq,
      show ¬ (n = 3) by omega, not_false_eq_true, if_true]
    exact ⟨_, rfl⟩
  · -- the header is there, the message is short
    have hh := parseHdr_rec r.kind r.raw.length hl
    simp only [ht, List.cons_append, List.nil_append] at hh
    have h1 : (f.data.drop f.pos).take 3 = [t, r.raw.length / 256 % 256, r.raw.length % 256] := by
      rw [h, List.take_take, hb, Nat.min_eq_left (by omega)]
      simp only [List.cons_append, List.nil_append, List.take_succ_cons, List.take_zero]
    have h2 : f.data.drop (f.pos + 3) = r.raw.take (n - 3) := by
      rw [← List.drop_drop, h, hb, List.drop_take]
      simp only [List.cons_append, List.nil_append, List.drop_succ_cons, List.drop_zero]
    have h4 : ((r.raw.take (n - 3)).take r.raw.length).length ≠ r.raw.length := by
      simp only [List.length_take]; omega
    unfold parseOne
    simp only [File.read, hdrLength_eq, h1, List.length_cons, List.length_nil, bind, Except.bind, pure,
      Except.pure, hh, h2, h4, ne_eq, not_true_eq_false, if_false, Nat.zero_add, Nat.reduceAdd,
      not_false_eq_true, if_true]
    exact ⟨_, rfl⟩

/-- what a crash while writing leaves after the last complete record: nothing, or a strict prefix of
a record -/
def IsCutTail (p : Bytes) : Prop :=
  p = [] ∨ ∃ r : Rec, ∃ n, p = r.bytes.take n ∧ n < r.bytes.length ∧ r.raw.length < 65536

theorem parseOne_tail (f : File) (p : Bytes) (h : f.data.drop f.pos = p) (hp : IsCutTail p) :
    ∃ f', parseOne f = .ok (.none, f') := by
  rcases hp with rfl | ⟨r, n, rfl, hn, hl⟩
  · exact ⟨f, parseOne_eof f h⟩
  · exact parseOne_partial f r n h hn hl

/-- the list `parse_all` builds from the messages of the successive records -/
def loopSpec (count : Option Nat) : List Msg → List Msg → List Msg
  | acc, [] => acc
  | acc, m :: ms => if count = some (acc ++ [m]).length then acc ++ [m] else loopSpec count (acc ++ [m]) ms

/-- records with the message each one parses to -/
def StoredWF (st : List (Rec × Msg)) : Prop :=
  ∀ x ∈ st, x.1.raw.length < 65536 ∧ parseRaw x.1.kind x.1.raw = .msg x.2

theorem recsBytes_cons (r : Rec) (rs : List Rec) : recsBytes (r :: rs) = r.bytes ++ recsBytes rs := by
  simp only [recsBytes, List.map_cons, List.flatten_cons]

theorem drop_advance (f : File) (x rest : Bytes) (h : f.data.drop f.pos = x ++ rest) :
    ({ f with pos := f.pos + x.length } : File).data.drop ({ f with pos := f.pos + x.length } : File).pos = rest := by
  simp only [← List.drop_drop, h, List.drop_left]

/-- the loop of `parse_all` over complete records followed by a cut tail -/
theorem parseLoop_records (count : Option Nat) :
    ∀ (st : List (Rec × Msg)) (f : File) (acc : List Msg) (p : Bytes),
      f.data.drop f.pos = recsBytes (st.map (·.1)) ++ p → IsCutTail p → StoredWF st →
      ∃ f', parseLoop count f acc = .ok (loopSpec count acc (st.map (·.2)), f') := by
  intro st
  induction st with
  | nil =>
    intro f acc p h hp _
    simp only [List.map_nil, recsBytes, List.flatten_nil, List.nil_append] at h
    obtain ⟨f', hf'⟩ := parseOne_tail f p h hp
    exact ⟨f', by rw [parseLoop_eq, hf']; rfl⟩
  | cons x st ih =>
    intro f acc p h hp hwf
    obtain ⟨r, m⟩ := x
    have hx := hwf (r, m) (List.mem_cons_self ..)
    simp only at hx
    simp only [List.map_cons, recsBytes_cons, List.append_assoc] at h
    have h1 := parseOne_record f r _ h hx.1
    rw [hx.2] at h1
    have hnext := drop_advance f r.bytes _ h
    have hwf' : StoredWF st := fun y hy => hwf y (List.mem_cons_of_mem _ hy)
    rw [parseLoop_eq, h1]
    simp only [List.map_cons, loopSpec]
    split
    · exact ⟨_, rfl⟩
    · exact ih _ (acc ++ [m]) p hnext hp hwf'

theorem loopSpec_none (acc ms : List Msg) : loopSpec none acc ms = acc ++ ms := by
  induction ms generalizing acc with
  | nil => simp [loopSpec]
  | cons m ms ih => simp [loopSpec, ih]

theorem loopSpec_some (c : Nat) (acc ms : List Msg) (h : acc.length < c) :
    loopSpec (some c) acc ms = acc ++ ms.take (c - acc.length) := by
  induction ms generalizing acc with
  | nil => simp [loopSpec]
  | cons m ms ih =>
    simp only [loopSpec, List.length_append, List.length_cons, List.length_nil, Option.some.injEq]
    by_cases hc : c = acc.length + 0 + 1
    · have e : c - acc.length = 1 := by omega
      simp only [hc, if_true, e, List.take_succ_cons, List.take_zero]
      simp
    · simp only [hc, if_false]
      rw [ih (acc ++ [m]) (by simp only [List.length_append, List.length_cons, List.length_nil]; omega)]
      have e : c - acc.length = (c - (acc ++ [m]).length) + 1 := by
        simp only [List.length_append, List.length_cons, List.length_nil]; omega
      rw [e, List.take_succ_cons]
      simp

/-- `_seek2msg` loop: `rs.length` iterations over complete records, then `k` more -/
theorem seekLoop_records_add :
    ∀ (rs : List Rec) (f : File) (rest : Bytes) (k : Nat),
      f.data.drop f.pos = recsBytes rs ++ rest → (∀ r ∈ rs, r.raw.length < 65536) →
      seekLoop (rs.length + k) f = seekLoop k { f with pos := f.pos + (recsBytes rs).length } := by
  intro rs
  induction rs with
  | nil => intro f rest k _ _; simp [recsBytes]
  | cons r rs ih =>
    intro f rest k h hl
    obtain ⟨t, ht, _⟩ := tagOf_cases r.kind
    have hlr := hl r (List.mem_cons_self ..)
    simp only [recsBytes_cons, List.append_assoc] at h
    have hh := parseHdr_rec r.kind r.raw.length hlr
    simp only [ht, List.cons_append, List.nil_append] at hh
    have h1 : (f.data.drop f.pos).take 3 = [t, r.raw.length / 256 % 256, r.raw.length % 256] := by
      rw [h]; simp only [Rec.bytes, ht, List.cons_append, List.nil_append, List.take_succ_cons, List.take_zero]
    have hnext := drop_advance f r.bytes _ h
    have := ih { f with pos := f.pos + r.bytes.length } rest k hnext
      (fun r' hr' => hl r' (List.mem_cons_of_mem _ hr'))
    have e1 : (r :: rs).length + k = (rs.length + k) + 1 := by simp only [List.length_cons]; omega
    rw [e1]
    simp only [seekLoop, File.read, hdrLength_eq, h1, List.length_cons, List.length_nil, bind, Except.bind,
      pure, Except.pure, hh, ne_eq, not_true_eq_false, if_false, Nat.zero_add, Nat.reduceAdd, File.seekCur]
    have e : f.pos + 3 + r.raw.length = f.pos + r.bytes.length := by rw [r.bytes_length]; omega
    rw [e, this]
    simp only [recsBytes_cons, List.length_append, Nat.add_assoc]

/-- `_seek2msg` loop over complete records -/
theorem seekLoop_records (rs : List Rec) (f : File) (rest : Bytes)
    (h : f.data.drop f.pos = recsBytes rs ++ rest) (hl : ∀ r ∈ rs, r.raw.length < 65536) :
    seekLoop rs.length f = .ok (true, { f with pos := f.pos + (recsBytes rs).length }) := by
  have := seekLoop_records_add rs f rest 0 h hl
  simpa [seekLoop] using this

theorem seekLoop_eof (f : File) (n : Nat) (h : f.data.drop f.pos = []) :
    seekLoop (n + 1) f = .ok (false, f) := by
  simp only [seekLoop, File.read, h, List.take_nil, List.length_nil, hdrLength_eq, bind, Except.bind, pure,
    Except.pure, ne_eq, show ¬ (0 = 3) by omega, not_false_eq_true, if_true, Nat.add_zero]

/-- `_seek2msg` loop asked to go beyond a cut tail: fails, or ends at/after the end of the file -/
theorem seekLoop_tail (f : File) (p : Bytes) (n : Nat) (h : f.data.drop f.pos = p) (hp : IsCutTail p) :
    ∃ rc f', seekLoop (n + 1) f = .ok (rc, f') ∧ (rc = true → f'.data.drop f'.pos = []) := by
  rcases hp with rfl | ⟨r, k, rfl, hk, hl⟩
  · exact ⟨false, f, seekLoop_eof f n h, fun h => by cases h⟩
  · obtain ⟨t, ht, _⟩ := tagOf_cases r.kind
    have hbl := r.bytes_length
    have hb : r.bytes = [t, r.raw.length / 256 % 256, r.raw.length % 256] ++ r.raw := by
      simp only [Rec.bytes, ht, List.cons_append, List.nil_append]
    by_cases h3 : k < 3
    · have : ((f.data.drop f.pos).take 3).length = k := by
        rw [h]; simp only [List.length_take]; omega
      refine ⟨false, (f.read 3).2, ?_, fun h => by cases h⟩
      simp only [seekLoop, File.read, hdrLength_eq, this, bind, Except.bind, pure, Except.pure, ne_eq,
        show ¬ (k = 3) by omega, not_false_eq_true, if_true]
    · have hh := parseHdr_rec r.kind r.raw.length hl
      simp only [ht, List.cons_append, List.nil_append] at hh
      have h1 : (f.data.drop f.pos).take 3 = [t, r.raw.length / 256 % 256, r.raw.length % 256] := by
        rw [h, List.take_take, hb, Nat.min_eq_left (by omega)]
        simp only [List.cons_append, List.nil_append, List.take_succ_cons, List.take_zero]
      have hend : f.data.drop (f.pos + 3 + r.raw.length) = [] := by
        rw [Nat.add_assoc, ← List.drop_drop, h]
        apply List.drop_eq_nil_of_le
        simp only [List.length_take]; omega
      have hstep : seekLoop (n + 1) f = seekLoop n ⟨f.data, f.pos + 3 + r.raw.length⟩ := by
        simp only [seekLoop, File.read, hdrLength_eq, h1, List.length_cons, List.length_nil, bind, Except.bind,
          pure, Except.pure, hh, ne_eq, not_true_eq_false, if_false, Nat.zero_add, Nat.reduceAdd, File.seekCur]
      cases n with
      | zero => exact ⟨true, _, by rw [hstep]; rfl, fun _ => hend⟩
      | succ n => exact ⟨false, _, by rw [hstep, seekLoop_eof _ n hend], fun h => by cases h⟩

/-- number of records that lie completely within the first `cut` octets -/
def completeRecs : List Rec → Nat → Nat
  | [], _ => 0
  | r :: rs, cut => if r.bytes.length ≤ cut then completeRecs rs (cut - r.bytes.length) + 1 else 0

/-- a file cut at any offset = its complete records followed by a cut tail -/
theorem take_recsBytes :
    ∀ (rs : List Rec) (cut : Nat), (∀ r ∈ rs, r.raw.length < 65536) →
      ∃ p, (recsBytes rs).take cut = recsBytes (rs.take (completeRecs rs cut)) ++ p ∧ IsCutTail p ∧
        completeRecs rs cut ≤ rs.length := by
  intro rs
  induction rs with
  | nil => intro cut _; exact ⟨[], by simp [recsBytes, completeRecs], Or.inl rfl, by simp [completeRecs]⟩
  | cons r rs ih =>
    intro cut hl
    by_cases hc : r.bytes.length ≤ cut
    · obtain ⟨p, hp, ht, hk⟩ := ih (cut - r.bytes.length) (fun r' hr' => hl r' (List.mem_cons_of_mem _ hr'))
      refine ⟨p, ?_, ht, by simp only [completeRecs, hc, if_true, List.length_cons]; omega⟩
      simp only [completeRecs, hc, if_true, List.take_succ_cons, recsBytes_cons, List.take_append,
        List.take_of_length_le hc, hp, List.append_assoc]
    · refine ⟨r.bytes.take cut, ?_, Or.inr ⟨r, cut, rfl, by omega, hl r (List.mem_cons_self ..)⟩,
        by simp [completeRecs, hc]⟩
      simp only [completeRecs, hc, if_false, List.take_zero, recsBytes, List.map_nil, List.flatten_nil,
        List.nil_append, List.map_cons, List.flatten_cons]
      rw [List.take_append_of_le_length (by omega)]

theorem recsBytes_append (a b : List Rec) : recsBytes (a ++ b) = recsBytes a ++ recsBytes b := by
  simp only [recsBytes, List.map_append, List.flatten_append]

/-- the content of a capture: complete records `st` followed by a cut tail `p` -/
structure Capture (data : Bytes) (st : List (Rec × Msg)) : Prop where
  tail : ∃ p, data = recsBytes (st.map (·.1)) ++ p ∧ IsCutTail p
  wf : StoredWF st

theorem Capture.lens {data : Bytes} {st : List (Rec × Msg)} (c : Capture data st) :
    ∀ r ∈ st.map (·.1), r.raw.length < 65536 := by
  intro r hr
  obtain ⟨x, hx, rfl⟩ := List.mem_map.mp hr
  exact (c.wf x hx).1

/-- `parse_all(None, count)` -/
theorem parseAll_noskip {data : Bytes} {st : List (Rec × Msg)} (c : Capture data st) (pos : Nat)
    (count : Option Nat) :
    ∃ f', parseAll ⟨data, pos⟩ none count = .ok (some (loopSpec count [] (st.map (·.2))), f') := by
  obtain ⟨p, hd, hp⟩ := c.tail
  obtain ⟨f', hf'⟩ := parseLoop_records count st ⟨data, 0⟩ [] p (by simpa using hd) hp c.wf
  refine ⟨f', ?_⟩
  simp only [parseAll, File.seek0, bind, Except.bind, pure, Except.pure, hf', not_true_eq_false, if_false]

/-- `_seek2msg(s)` for `s` not beyond the complete records -/
theorem seek2msg_le {data : Bytes} {st : List (Rec × Msg)} (c : Capture data st) (p : Bytes)
    (hd : data = recsBytes (st.map (·.1)) ++ p) (pos s : Nat) (hs : s ≤ st.length) :
    seek2msg ⟨data, pos⟩ s = .ok (true, ⟨data, (recsBytes ((st.take s).map (·.1))).length⟩) ∧
    data.drop (recsBytes ((st.take s).map (·.1))).length = recsBytes ((st.drop s).map (·.1)) ++ p := by
  have hsplit : recsBytes (st.map (·.1)) = recsBytes ((st.take s).map (·.1)) ++ recsBytes ((st.drop s).map (·.1)) := by
    rw [← recsBytes_append, ← List.map_append, List.take_append_drop]
  have hlen : ((st.take s).map (·.1)).length = s := by simp [List.length_take, Nat.min_eq_left hs]
  have hdr : data.drop (recsBytes ((st.take s).map (·.1))).length = recsBytes ((st.drop s).map (·.1)) ++ p := by
    rw [hd, hsplit, List.append_assoc, List.drop_left]
  have h0 : (⟨data, 0⟩ : File).data.drop (⟨data, 0⟩ : File).pos
      = recsBytes ((st.take s).map (·.1)) ++ (recsBytes ((st.drop s).map (·.1)) ++ p) := by
    simp only [List.drop_zero, hd, hsplit, List.append_assoc]
  have := seekLoop_records ((st.take s).map (·.1)) ⟨data, 0⟩ _ h0
    (fun r hr => c.lens r (by
      obtain ⟨x, hx, rfl⟩ := List.mem_map.mp hr
      exact List.mem_map.mpr ⟨x, List.mem_of_mem_take hx, rfl⟩))
  rw [hlen] at this
  exact ⟨by simp only [seek2msg, File.seek0, this, Nat.zero_add], hdr⟩

/-- `parse_all(skip, count)` for `skip` not beyond the complete records -/
theorem parseAll_skip {data : Bytes} {st : List (Rec × Msg)} (c : Capture data st) (pos s : Nat)
    (count : Option Nat) (hs : s ≤ st.length) :
    ∃ f', parseAll ⟨data, pos⟩ (some s) count
      = .ok (some (loopSpec count [] ((st.drop s).map (·.2))), f') := by
  obtain ⟨p, hd, hp⟩ := c.tail
  obtain ⟨hseek, hdrop⟩ := seek2msg_le c p hd pos s hs
  obtain ⟨f', hf'⟩ := parseLoop_records count (st.drop s) ⟨data, _⟩ [] p hdrop hp
    (fun x hx => c.wf x (List.mem_of_mem_drop hx))
  refine ⟨f', ?_⟩
  simp only [parseAll, hseek, bind, Except.bind, pure, Except.pure, hf', not_true_eq_false, if_false]

/-- `parse_msg(i)` for a complete record -/
theorem parseMsg_idx {data : Bytes} {st : List (Rec × Msg)} (c : Capture data st) (pos i : Nat)
    (hi : i < st.length) :
    ∃ f', parseMsg ⟨data, pos⟩ i = .ok (.msg (st[i]).2, f') := by
  obtain ⟨p, hd, hp⟩ := c.tail
  obtain ⟨hseek, hdrop⟩ := seek2msg_le c p hd pos i (by omega)
  have hdi : st.drop i = st[i] :: st.drop (i + 1) := (List.drop_eq_getElem_cons hi)
  rw [hdi, List.map_cons, recsBytes_cons, List.append_assoc] at hdrop
  have hx := c.wf st[i] (List.getElem_mem hi)
  have h1 := parseOne_record ⟨data, _⟩ (st[i]).1 _ hdrop hx.1
  rw [hx.2] at h1
  exact ⟨_, by simp only [parseMsg, hseek, bind, Except.bind, pure, Except.pure, not_true_eq_false,
    if_false]; exact h1⟩

/-- `_seek2msg(s)` for `s` beyond the complete records -/
theorem seek2msg_beyond {data : Bytes} {st : List (Rec × Msg)} (c : Capture data st) (pos s : Nat)
    (hs : st.length < s) :
    ∃ rc f', seek2msg ⟨data, pos⟩ s = .ok (rc, f') ∧ (rc = true → f'.data.drop f'.pos = []) := by
  obtain ⟨p, hd, hp⟩ := c.tail
  obtain ⟨n, rfl⟩ : ∃ n, s = (st.map (·.1)).length + (n + 1) := ⟨s - st.length - 1, by simp; omega⟩
  have h0 : (⟨data, 0⟩ : File).data.drop (⟨data, 0⟩ : File).pos = recsBytes (st.map (·.1)) ++ p := by
    simp only [List.drop_zero, hd]
  have hadd := seekLoop_records_add (st.map (·.1)) ⟨data, 0⟩ p (n + 1) h0 c.lens
  have hnext := drop_advance ⟨data, 0⟩ (recsBytes (st.map (·.1))) p h0
  obtain ⟨rc, f', hf', hrc⟩ := seekLoop_tail _ p n hnext hp
  exact ⟨rc, f', by simp only [seek2msg, File.seek0, hadd, hf'], hrc⟩

/-- `parse_all(skip, count)` with `skip` beyond the complete records: the range error `False`, or
(when the cut record's header survived) the empty list; never an exception, never a message -/
theorem parseAll_beyond {data : Bytes} {st : List (Rec × Msg)} (c : Capture data st) (pos s : Nat)
    (count : Option Nat) (hs : st.length < s) :
    ∃ f', parseAll ⟨data, pos⟩ (some s) count = .ok (none, f') ∨
          parseAll ⟨data, pos⟩ (some s) count = .ok (some [], f') := by
  obtain ⟨rc, f1, h1, hrc⟩ := seek2msg_beyond c pos s hs
  cases rc with
  | false =>
    exact ⟨f1, Or.inl (by simp only [parseAll, h1, bind, Except.bind, pure, Except.pure,
      Bool.false_eq_true, not_false_eq_true, if_true])⟩
  | true =>
    have he := parseOne_eof f1 (hrc rfl)
    refine ⟨f1, Or.inr ?_⟩
    simp only [parseAll, h1, bind, Except.bind, pure, Except.pure, not_true_eq_false, if_false]
    rw [parseLoop_eq, he]

/-- `parse_msg(idx)` with `idx` at or beyond the number of complete records: `None` -/
theorem parseMsg_beyond {data : Bytes} {st : List (Rec × Msg)} (c : Capture data st) (pos i : Nat)
    (hi : st.length ≤ i) :
    ∃ f', parseMsg ⟨data, pos⟩ i = .ok (.none, f') := by
  obtain ⟨p, hd, hp⟩ := c.tail
  by_cases he : i = st.length
  · subst he
    obtain ⟨hseek, hdrop⟩ := seek2msg_le c p hd pos st.length (Nat.le_refl _)
    have hnil : recsBytes ((st.drop st.length).map (·.1)) = [] := by simp [recsBytes]
    rw [hnil, List.nil_append] at hdrop
    obtain ⟨f', hf'⟩ := parseOne_tail ⟨data, _⟩ p hdrop hp
    refine ⟨f', ?_⟩
    simp only [parseMsg, hseek, bind, Except.bind, pure, Except.pure, not_true_eq_false, if_false]
    exact hf'
  · obtain ⟨rc, f1, h1, hrc⟩ := seek2msg_beyond c pos i (by omega)
    cases rc with
    | false =>
      exact ⟨f1, by simp only [parseMsg, h1, bind, Except.bind, pure, Except.pure, Bool.false_eq_true,
        not_false_eq_true, if_true]⟩
    | true =>
      refine ⟨f1, ?_⟩
      simp only [parseMsg, h1, bind, Except.bind, pure, Except.pure, not_true_eq_false, if_false]
      exact parseOne_eof f1 (hrc rfl)

/-! ### writing -/

theorem write_at_end (data b : Bytes) :
    (⟨data, data.length⟩ : File).write b = ⟨data ++ b, (data ++ b).length⟩ := by
  simp only [File.write, List.take_length, Nat.sub_self, List.replicate_zero, List.append_nil,
    List.length_append, File.mk.injEq, and_true]
  rw [List.drop_eq_nil_of_le (by omega), List.append_nil]

/-- `_seek2msg(s)` beyond the records of an uncut file: `False` -/
theorem seek2msg_beyond_eof {data : Bytes} {st : List (Rec × Msg)} (c : Capture data st)
    (hd : data = recsBytes (st.map (·.1))) (pos s : Nat) (hs : st.length < s) :
    ∃ f', seek2msg ⟨data, pos⟩ s = .ok (false, f') := by
  obtain ⟨n, rfl⟩ : ∃ n, s = (st.map (·.1)).length + (n + 1) := ⟨s - st.length - 1, by simp; omega⟩
  have h0 : (⟨data, 0⟩ : File).data.drop (⟨data, 0⟩ : File).pos = recsBytes (st.map (·.1)) ++ [] := by
    simp only [List.drop_zero, hd, List.append_nil]
  have hadd := seekLoop_records_add (st.map (·.1)) ⟨data, 0⟩ [] (n + 1) h0 c.lens
  have hnext := drop_advance ⟨data, 0⟩ (recsBytes (st.map (·.1))) [] h0
  refine ⟨⟨data, 0 + (recsBytes (st.map (·.1))).length⟩, ?_⟩
  simp only [seek2msg, File.seek0, hadd, seekLoop_eof _ n hnext]

/-- lengths of the complete prefix and of the next record relative to the cut -/
theorem completeRecs_spec : ∀ (rs : List Rec) (cut : Nat),
    (recsBytes (rs.take (completeRecs rs cut))).length ≤ cut ∧
    (completeRecs rs cut < rs.length → cut < (recsBytes (rs.take (completeRecs rs cut + 1))).length) := by
  intro rs
  induction rs with
  | nil => intro cut; simp [completeRecs, recsBytes]
  | cons r rs ih =>
    intro cut
    by_cases hc : r.bytes.length ≤ cut
    · obtain ⟨h1, h2⟩ := ih (cut - r.bytes.length)
      simp only [completeRecs, hc, if_true, List.take_succ_cons, recsBytes_cons, List.length_append,
        List.length_cons]
      exact ⟨by omega, fun h => by have := h2 (by omega); omega⟩
    · simp only [completeRecs, hc, if_false, List.take_zero, recsBytes, List.map_nil, List.flatten_nil,
        List.length_nil, Nat.zero_le, true_and, Nat.zero_add, List.take_succ_cons, List.map_cons,
        List.flatten_cons, List.append_nil]
      intro _; omega


end OsmoVerif.TrxdDump
