/-
Concrete worlds and datagrams for the non-vacuity examples of Props/C05 and Props/C14
(definitions only).
-/
import OsmoVerif.Lemmas.WorldText
import OsmoVerif.Lemmas.WorldSane

namespace OsmoVerif.World.Ex
open OsmoVerif OsmoVerif.World OsmoVerif.PyStr

/-- the default application: BTS-side transceiver 0 (ports 5700…), MS-side transceiver 1 (6700…) -/
def w0 : World :=
  { trxs := [{ addr := 1, basePort := 5700, childIdx := 0, childMgt := true, hasClock := true },
             { addr := 2, basePort := 6700, childIdx := 0, childMgt := false, hasClock := true }] }

/-- a NUL-terminated ASCII datagram -/
def z (s : String) : List Nat := lit s ++ [0]

/-- payloads sent in reply to a sequence of control datagrams to transceiver 1 -/
def replies (w : World) (ds : List (List Nat)) : List (List (List Nat)) :=
  (run w (ds.map (fun d => Op.ctrl 1 6801 d))).2.map (fun r => r.out.map (·.data))

/-- exceptions of a sequence of control datagrams to transceiver 1 -/
def excs (w : World) (ds : List (List Nat)) : List (Option Exc) :=
  (run w (ds.map (fun d => Op.ctrl 1 6801 d))).2.map (·.exc)

/-- a TRXD v0 Tx message: header (tn, fn = 0 0 0 fnLow, pwr) and 148 zero bits -/
def burst (tn fnLow : Nat) : List Nat := [tn, 0, 0, 0, fnLow, 10] ++ List.replicate 148 0

/-- both transceivers tuned to each other and running, the clock at frame 0, one burst of the MS
side (transceiver 1) queued for frame 0; `f` adjusts the receiving BTS-side transceiver -/
def live (f : Trx → Trx) (g : Trx → Trx := id) : World :=
  { trxs := [f { addr := 1, basePort := 5700, childIdx := 0, childMgt := true, hasClock := true,
                 running := true, rxFreq := some 890000000, txFreq := some 935000000 },
             g { addr := 2, basePort := 6700, childIdx := 0, childMgt := false, hasClock := true,
                 running := true, rxFreq := some 935000000, txFreq := some 890000000,
                 txQueue := [⟨0, some 0, some 0, some 10, some (List.replicate 148 0)⟩] }],
    clkLinks := [0, 1], clkRunning := true, clkSrc := some 0 }

end OsmoVerif.World.Ex
